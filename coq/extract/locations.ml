(* Driver of the locations engine: same line format as
   `harness/src/bin/locations.rs codespan`.
     loc <maxoff> <scalar> ...      -> Labels.location text off for off = 0..maxoff
     region <start> <end> <scalar> ... -> Labels.sarif_region text start end | Labels.location text start *)
open Datatypes
open BinNums
open Drvlib

let scalars toks = Stdlib.List.map (fun t -> n_of_int (int_of_string t)) toks

let show_loc = function
  | Some (l, c) -> Printf.sprintf "%d:%d" (int_of_nat l) (int_of_nat c)
  | None -> "x"

let run_line line =
  let line = Stdlib.String.trim line in
  let toks = Stdlib.List.filter (fun t -> t <> "") (Stdlib.String.split_on_char ' ' line) in
  let res = match toks with
    | "loc" :: max :: rest ->
      let text = scalars rest in
      let max = int_of_string max in
      let out = ref [] in
      for off = max downto 0 do
        out := show_loc (Labels.location text (nat_of_int off)) :: !out
      done;
      Stdlib.String.concat " " !out
    | "region" :: s :: e :: rest ->
      let text = scalars rest in
      let s = nat_of_int (int_of_string s) and e = nat_of_int (int_of_string e) in
      let region = match Labels.sarif_region text s e with
        | Some (((sl, sc), el), ec) ->
          Printf.sprintf "%d %d %d %d" (int_of_nat sl) (int_of_nat sc) (int_of_nat el) (int_of_nat ec)
        | None -> "x" in
      let header = match Labels.location text s with
        | Some (l, c) -> Printf.sprintf "%d %d" (int_of_nat l) (int_of_nat c)
        | None -> "x" in
      region ^ " | " ^ header
    | _ -> "bad-input" in
  line ^ " = " ^ res

let () = each_line run_line
