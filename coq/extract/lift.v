(* Extraction of the lift engine (C12, C13): the lifting mirror, the surface
   desugaring, and the spec-side decision trees.  Only ExtrOcamlBasic. *)
Require Extraction.
Require Import ExtrOcamlBasic.
Require Model.Base Model.Lift Spec.CfgSpec.
Separate Extraction Base.base_roots Base.outcome Lift.lift Lift.desugar CfgSpec.trace_tree CfgSpec.walk_tree.
