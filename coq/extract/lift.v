(* Extraction of the lift engine (C12, C13): the lifting mirror, the surface
   desugaring, and the spec-side decision trees;
   for C13 also the mirror of the compound-assignment shortcuts and the
   expansion the specification expects.  Only ExtrOcamlBasic. *)
Require Extraction.
Require Import ExtrOcamlBasic.
Require Model.Base Model.Lift Model.Shortcuts Spec.CfgSpec Spec.SurfaceSpec.
Separate Extraction Base.base_roots Base.outcome Lift.lift Lift.desugar CfgSpec.trace_tree CfgSpec.walk_tree
  Shortcuts.parse_substitution SurfaceSpec.expected_statement.
