(* Extraction of the region-cover engine (C09, fourth proof round): the decidable hypotheses of
   C09_regions_give_ctl_closed evaluated on a graph, with the mirror's own region table and tainted set. *)
Require Extraction.
Require Import ExtrOcamlBasic.
Require Import Model.Base Model.Ir Model.VarUse Model.Taint Model.SideEffect.
Require Model.BranchRegion Spec.CtlDep Spec.CtlRegion Model.Justify.
Separate Extraction Base.base_roots Base.outcome Ir.cfg
  Taint.run_taint_analysis SideEffect.exported_sinks BranchRegion.branches_of
  CtlDep.ctl_closed_b CtlRegion.region_covers_b CtlRegion.self_closed_b CtlRegion.indices_distinct_b CtlRegion.all_reach_exit_b
  Justify.vjust_cfg Justify.ldefs_unique_cfg.
