(* uses: lib_irwire.ml lib_astwire.ml *)
(* Driver of C01's chain engine.  Input line: the DEF field printed by
   harness/src/bin/liftfull.rs (mode `chain`),
     (def KIND NAME (params P ..) FILE|- START END <body>)
   i.e. a definition as the REAL parser and the REAL desugarer hand it to lifting.
   Output (tab separated):
     CH <c>    the outcome class of Model.PipelineMirrors.analyse_body on it (identity hash orders,
               the prime and the pass budgets of the command line), in the words of the harness' RES field:
               ok | err-lift | panic-lift <site> | err-ssa | panic-ssa | other <what>
     CR <c>    the same with every hash-ordered set enumerated in reverse
     H <bits>  the decidable hypotheses, one 0/1 each, in this order:
               is_block, stmt_sugar_free, ast_init_flat      (proved for what Model.Desugar hands on)
               names_distinct, stmt_lits_ok                  (PipelineMirrors.body_ok)
               ssa_output_ok                                 (PROVED for every body, both enumeration orders:
                                                              C01_chain_ssa_output_unique_local_defs; a 0 contradicts it)
               definition_wf, ast_init_ok
   Only structural decoding/encoding here; everything with logic is extracted Gallina. *)
open Datatypes
open BinNums
open Drvlib
open Base

let si = string_of_int

let decode line =
  let open Lib_astwire in
  match parse_sx line with
  | L [A "def"; A kind; A name; L (A "params" :: ps); file; A s; A e; body] ->
    let kind = (match kind with "function" -> Ir.KFunction | "template" -> Ir.KTemplate | "custom" -> Ir.KCustom | _ -> bad "kind") in
    let pfile = (match file with A "-" -> None | A f -> Some (n_of_int (int_of_string f)) | _ -> bad "file") in
    { PipelineMirrors.d_name = d_name (A name); d_kind = kind; d_params = Stdlib.List.map d_name ps; d_pfile = pfile;
      d_ploc = (n_of_int (int_of_string s), n_of_int (int_of_string e)); d_body = d_stmt body }
  | _ -> bad "def"

let b01 b = if b then "1" else "0"

(* third audit: `chain [PRIME_HEX [VALUE_PASSES DEGREE_PASSES]]` - the prime of the curve the harness hands to the
   real into_cfg (lib/props/c01chain.py reads the decimal literal from the CURRENT utils/constants.rs and passes it
   in hexadecimal) and the pass budgets the harness sets through the verification hook (default: the Goldilocks
   prime, 4, 4: what the driver used until then). *)
let arg i d = if Array.length Sys.argv > i then Sys.argv.(i) else d
let prime = z_of_hex (arg 1 "ffffffff00000001")
let budget_v = nat_of_int (int_of_string (arg 2 "4"))
let budget_d = nat_of_int (int_of_string (arg 3 "4"))

(* stage numbers of Model.PipelineMirrors: 1 desugar, 3 lift, 5 dom, 6 ssa, 7 propagate *)
let outcome (r : PipelineMirrors.def_result) =
  match r with
  | PipelineMirrors.DROk _ -> "ok"
  | PipelineMirrors.DRReport st ->
    (match int_of_z st with 3 -> "err-lift" | 6 -> "err-ssa" | n -> "other report-at-stage-" ^ si n)
  | PipelineMirrors.DRPanic (st, site) ->
    (match int_of_z st with
     | 3 -> "panic-lift " ^ si (int_of_z site)
     | 6 | 7 -> "panic-ssa"
     | n -> "other panic-at-stage-" ^ si n)
  | PipelineMirrors.DRFuel st -> "other fuel-at-stage-" ^ si (int_of_z st)

let line l =
  let d = decode (Stdlib.String.trim l) in
  let body = d.PipelineMirrors.d_body in
  let idh = (fun l -> l) and revh = Stdlib.List.rev in
  let run h = outcome (PipelineMirrors.analyse_body Dom.id_order h prime budget_v budget_d d body) in
  let bits = [
    LiftFull.is_block body; LiftFull.stmt_sugar_free body; LiftFull.ast_init_flat body;
    PipelineMirrors.names_distinct d.PipelineMirrors.d_params d.PipelineMirrors.d_pfile d.PipelineMirrors.d_ploc body;
    PipelineMirrors.stmt_lits_ok body;
    PipelineMirrors.ssa_output_ok Dom.id_order idh d body && PipelineMirrors.ssa_output_ok Dom.id_order revh d body;
    LiftFull.definition_wf d.PipelineMirrors.d_params d.PipelineMirrors.d_pfile d.PipelineMirrors.d_ploc body;
    PipelineMirrors.ast_init_ok body ] in
  Printf.sprintf "CH %s\tCR %s\tH %s" (run idh) (run revh) (Stdlib.String.concat "" (Stdlib.List.map b01 bits))

let () = each_line (fun l -> try line l with Failure m -> "(driver-error " ^ m ^ ")" | Not_found -> "(driver-error not-found)")
