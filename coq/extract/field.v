(* Extraction of the field engine (run by lib/common.py with the output
   directory as working directory).  Only ExtrOcamlBasic is used: Z, N,
   positive and nat stay the Coq inductive datatypes. *)
Require Extraction.
Require Import ExtrOcamlBasic.
Require Import Model.Base Model.Field Spec.FieldSpec.
Separate Extraction Base.base_roots Base.outcome Field.eval Field.all_fops FieldSpec.spec_exec.
