(* Extraction of the field engine (run by lib/common.py with the output
   directory as working directory).  Only ExtrOcamlBasic is used: Z, N,
   positive and nat stay the Coq inductive datatypes. *)
Require Extraction.
Require Import ExtrOcamlBasic.
Require Import Model.Base Model.Field Model.Ir Model.Propagate Model.FieldDispatch Model.FieldPow Spec.FieldSpec Spec.DispatchSpec.
Separate Extraction Base.base_roots Base.outcome Field.eval Field.all_fops Field.shift_w FieldSpec.spec_exec
  Ir.expr_val FieldDispatch.propagate_lit FieldDispatch.lit_dispatch DispatchSpec.doc_eval FieldPow.modpow_steps.
