(* Driver of the dom engine (C15): text I/O around the extracted
   Spec.DomSpec.run_mirror / run_spec, same line format as
   harness/src/bin/dom.rs. *)
open Datatypes
open BinNums
open Base
open Drvlib

let ints l = Stdlib.List.map int_of_nat l
let set l = Stdlib.String.concat "," (Stdlib.List.map string_of_int (Stdlib.List.sort compare (ints l)))
let sets ls = Stdlib.String.concat "|" (Stdlib.List.map set ls)
let idoms ls = Stdlib.String.concat "," (Stdlib.List.map (fun l -> match l with [] -> "-" | _ -> set l) ls)

let show_view (((d, i), c), f) = Printf.sprintf "dom=%s idom=%s ch=%s df=%s" (sets d) (idoms i) (sets c) (sets f)

let show_mirror = function
  | Ok v -> show_view v
  | Err _ -> "err"
  | Panic _ -> "panic"
  | OutOfFuel -> "outoffuel"

let show_spec = function
  | Some v -> show_view v
  | None -> "unrooted"

let order = function
  | "mirror" -> Dom.id_order
  | "mirror-rev" -> Dom.rev_order
  | _ -> Dom.rot_order

(* mode `rooted`: the hypothesis of the C15 theorems, decided by
   Spec.DomFast.rooted_fast_b (proved sound and complete) *)
let eval mode n es =
  if mode = "spec" then show_spec (DomSpec.run_spec n es)
  else if mode = "rooted" then (if DomFast.run_rooted n es then "rooted" else "unrooted")
  else show_mirror (DomSpec.run_mirror (order mode) n es)

let parse line =
  match Stdlib.List.filter (fun s -> s <> "") (Stdlib.String.split_on_char ' ' (Stdlib.String.trim line)) with
  | [] -> None
  | n :: es ->
    (try
       let n = int_of_string n in
       let es = Stdlib.List.map (fun t ->
         match Stdlib.String.split_on_char '>' t with
         | [a; b] -> let a = int_of_string a and b = int_of_string b in
           if a < 0 || b < 0 || a >= n || b >= n then failwith "range" else (nat_of_int a, nat_of_int b)
         | _ -> failwith "edge") es in
       Some (nat_of_int n, es)
     with _ -> None)

let line_mode mode line =
  let line = Stdlib.String.trim line in
  match parse line with
  | Some (n, es) -> Printf.sprintf "%s = %s" line (eval mode n es)
  | None -> Printf.sprintf "%s = bad-line" line

(* rooted graphs only, like the harness: the spec side says which are *)
let sweep mode n lo hi =
  let nn = nat_of_int n in
  for code = lo to hi - 1 do
    let es = Dom.edges_of_code nn (n_of_int code) in
    match DomSpec.run_spec nn es with
    | None -> ()
    | Some v ->
      let r = if mode = "spec" then show_view v else show_mirror (DomSpec.run_mirror (order mode) nn es) in
      Printf.printf "%d %d = %s\n" n code r
  done

let () =
  match Array.to_list Sys.argv with
  | [_; mode] when Stdlib.List.mem mode ["mirror"; "mirror-rev"; "mirror-rot"; "spec"; "rooted"] -> each_line (line_mode mode)
  | [_; mode; "sweep"; n; lo; hi] -> sweep mode (int_of_string n) (int_of_string lo) (int_of_string hi)
  | _ -> prerr_endline "usage: model_dom mirror|mirror-rev|mirror-rot|spec|rooted [sweep n lo hi]"; exit 2
