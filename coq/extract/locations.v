(* Extraction of the locations engine (C04): the mirror of codespan's
   offset -> (line, column) computation and of the SARIF region, to be run on
   the same texts and offsets as the real `FileLibrary::to_storage().location`
   and `ReportLabel::to_sarif` (harness/src/bin/locations.rs, mode `codespan`).
   ExtrOcamlBasic only. *)
Require Extraction.
Require Import ExtrOcamlBasic.
Require Import Model.Base Model.Labels.
Separate Extraction Base.base_roots Labels.location Labels.sarif_region.
