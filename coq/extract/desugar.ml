(* Driver of the desugar engine (C18): text I/O around the extracted
   Model.Desugar / Spec.ExpandSpec.  Input line:
     <line starts, comma separated> TAB <sexp of the definitions before desugaring>
   (the sexp is the PRE field printed by harness/src/bin/desugar.rs from the real
   parser's output).  Output: the POST and REP fields in the harness' format.
   Only structural decoding/encoding happens here; everything with logic is
   extracted Gallina. *)
open Datatypes
open BinNums
open Drvlib
open Ast
open Desugar

(* ---- strings ---- *)
let ascii_of_char (c : char) : Ascii.ascii =
  let n = Char.code c in
  let b i = (n lsr i) land 1 = 1 in
  Ascii.Ascii (b 0, b 1, b 2, b 3, b 4, b 5, b 6, b 7)
let char_of_ascii (Ascii.Ascii (b0, b1, b2, b3, b4, b5, b6, b7)) : char =
  let v b i = if b then 1 lsl i else 0 in
  Char.chr (v b0 0 + v b1 1 + v b2 2 + v b3 3 + v b4 4 + v b5 5 + v b6 6 + v b7 7)
let cstr (s : Stdlib.String.t) : String.string =
  let r = ref String.EmptyString in
  for i = Stdlib.String.length s - 1 downto 0 do r := String.String (ascii_of_char (Stdlib.String.get s i), !r) done;
  !r
let rec ostr (s : String.string) : Stdlib.String.t =
  let b = Buffer.create 16 in
  let rec go = function String.EmptyString -> () | String.String (c, r) -> Buffer.add_char b (char_of_ascii c); go r in
  go s; Buffer.contents b
let hexs (s : Stdlib.String.t) =
  let b = Buffer.create 16 in
  Buffer.add_char b 'x';
  Stdlib.String.iter (fun c -> Buffer.add_string b (Printf.sprintf "%02x" (Char.code c))) s;
  Buffer.contents b
let unhexs (s : Stdlib.String.t) =
  (* "x68656c" -> "hel" *)
  let n = (Stdlib.String.length s - 1) / 2 in
  Stdlib.String.init n (fun i -> Char.chr (int_of_string ("0x" ^ Stdlib.String.sub s (1 + 2 * i) 2)))

(* ---- generic s-expressions ---- *)
type sx = A of Stdlib.String.t | L of sx list

let ( .%[] ) = Stdlib.String.get

let parse_sx (s : Stdlib.String.t) : sx =
  let n = Stdlib.String.length s in
  let pos = ref 0 in
  let rec skip () = if !pos < n && s.%[!pos] = ' ' then (incr pos; skip ()) in
  let rec item () =
    skip ();
    if s.%[!pos] = '(' then begin
      incr pos;
      let items = ref [] in
      let rec loop () =
        skip ();
        if s.%[!pos] = ')' then incr pos else (items := item () :: !items; loop ()) in
      loop ();
      L (Stdlib.List.rev !items)
    end else begin
      let st = !pos in
      while !pos < n && s.%[!pos] <> ' ' && s.%[!pos] <> '(' && s.%[!pos] <> ')' do incr pos done;
      A (Stdlib.String.sub s st (!pos - st))
    end in
  item ()

let bad what = failwith ("decode: " ^ what)

(* ---- decoding ---- *)
let d_meta = function
  | A a ->
    (match Stdlib.String.split_on_char ':' (Stdlib.String.sub a 1 (Stdlib.String.length a - 1)) with
     | [s; e; f] ->
       { m_start = n_of_int (int_of_string s); m_end = n_of_int (int_of_string e);
         m_file = (if f = "-" then None else Some (n_of_int (int_of_string f))) }
     | _ -> bad "meta")
  | _ -> bad "meta"
let d_op = function A "av" -> AssignVar | A "as" -> AssignSignal | A "acs" -> AssignConstraintSignal | _ -> bad "op"
let d_name = function A a -> cstr a | _ -> bad "name"
let d_xtype = function
  | A "var" -> VVar | A "comp" -> VComponent | A "anoncomp" -> VAnonymousComponent
  | L (A "sig" :: A k :: tags) ->
    VSignal ((match k with "in" -> SInput | "out" -> SOutput | "mid" -> SIntermediate | _ -> bad "sig"),
             Stdlib.List.map d_name tags)
  | _ -> bad "xtype"
let infix_table = [ "Mul", IMul; "Div", IDiv; "Add", IAdd; "Sub", ISub; "Pow", IPow; "IntDiv", IIntDiv; "Mod", IMod;
  "ShiftL", IShiftL; "ShiftR", IShiftR; "LesserEq", ILesserEq; "GreaterEq", IGreaterEq; "Lesser", ILesser;
  "Greater", IGreater; "Eq", IEq; "NotEq", INotEq; "BoolOr", IBoolOr; "BoolAnd", IBoolAnd; "BitOr", IBitOr;
  "BitAnd", IBitAnd; "BitXor", IBitXor ]
let prefix_table = [ "Neg", PSub; "BoolNot", PBoolNot; "Complement", PComplement ]
let d_bool = function A "1" -> true | A "0" -> false | _ -> bad "bool"

let rec d_expr = function
  | L [A "infix"; m; A o; l; r] -> InfixOp (d_meta m, d_expr l, Stdlib.List.assoc o infix_table, d_expr r)
  | L [A "prefix"; m; A o; r] -> PrefixOp (d_meta m, Stdlib.List.assoc o prefix_table, d_expr r)
  | L [A "switch"; m; c; t; f] -> InlineSwitchOp (d_meta m, d_expr c, d_expr t, d_expr f)
  | L [A "par"; m; r] -> ParallelOp (d_meta m, d_expr r)
  | L [A "var"; m; n; acc] -> Variable_ (d_meta m, d_name n, d_access acc)
  | L [A "num"; m; A v] -> Number (d_meta m, z_of_hex v)
  | L (A "call" :: m :: n :: args) -> Call (d_meta m, d_name n, Stdlib.List.map d_expr args)
  | L [A "anon"; m; n; p; L (A "params" :: ps); L (A "signals" :: ss); names] ->
    AnonymousComponent (d_meta m, d_name n, d_bool p, Stdlib.List.map d_expr ps, Stdlib.List.map d_expr ss,
      (match names with
       | A "nonames" -> None
       | L (A "names" :: ns) -> Some (Stdlib.List.map (function L [o; n] -> (d_op o, d_name n) | _ -> bad "names") ns)
       | _ -> bad "names"))
  | L (A "array" :: m :: vs) -> ArrayInLine (d_meta m, Stdlib.List.map d_expr vs)
  | L (A "tuple" :: m :: vs) -> Tuple (d_meta m, Stdlib.List.map d_expr vs)
  | _ -> bad "expr"
and d_access = function
  | L (A "acc" :: items) ->
    Stdlib.List.map (function
      | L [A "ca"; n] -> ComponentAccess (d_name n)
      | L [A "aa"; e] -> ArrayAccess (d_expr e)
      | _ -> bad "access") items
  | _ -> bad "acc"

let d_logarg = function
  | L [A "str"; A h] -> LogStr (cstr (unhexs h))
  | L [A "exp"; e] -> LogExp (d_expr e)
  | _ -> bad "logarg"

let rec d_stmt = function
  | L [A "if"; m; c; i] -> IfThenElse (d_meta m, d_expr c, d_stmt i, None)
  | L [A "if"; m; c; i; e] -> IfThenElse (d_meta m, d_expr c, d_stmt i, Some (d_stmt e))
  | L [A "while"; m; c; b] -> While (d_meta m, d_expr c, d_stmt b)
  | L [A "return"; m; v] -> Return (d_meta m, d_expr v)
  | L (A "initblock" :: m :: t :: ss) -> InitializationBlock (d_meta m, d_xtype t, Stdlib.List.map d_stmt ss)
  | L (A "decl" :: m :: t :: n :: c :: dims) ->
    Declaration (d_meta m, d_xtype t, d_name n, Stdlib.List.map d_expr dims, d_bool c)
  | L [A "sub"; m; n; o; acc; r] -> Substitution (d_meta m, d_name n, d_access acc, d_op o, d_expr r)
  | L [A "msub"; m; o; l; r] -> MultiSubstitution (d_meta m, d_expr l, d_op o, d_expr r)
  | L [A "ceq"; m; l; r] -> ConstraintEquality (d_meta m, d_expr l, d_expr r)
  | L (A "log" :: m :: args) -> LogCall (d_meta m, Stdlib.List.map d_logarg args)
  | L (A "block" :: m :: ss) -> Block (d_meta m, Stdlib.List.map d_stmt ss)
  | L [A "assert"; m; a] -> Assert (d_meta m, d_expr a)
  | _ -> bad "stmt"

(* ---- encoding (same text as the Rust harness) ---- *)
let e_meta m =
  Printf.sprintf "@%d:%d:%s" (int_of_n m.m_start) (int_of_n m.m_end)
    (match m.m_file with Some f -> string_of_int (int_of_n f) | None -> "-")
let e_op = function AssignVar -> "av" | AssignSignal -> "as" | AssignConstraintSignal -> "acs"
let e_xtype = function
  | VVar -> "var" | VComponent -> "comp" | VAnonymousComponent -> "anoncomp"
  | VSignal (k, tags) ->
    "(sig " ^ (match k with SInput -> "in" | SOutput -> "out" | SIntermediate -> "mid")
    ^ Stdlib.String.concat "" (Stdlib.List.map (fun t -> " " ^ ostr t) tags) ^ ")"
let rassoc v t = fst (Stdlib.List.find (fun (_, x) -> x = v) t)
let cat = Stdlib.String.concat ""
let rec e_expr = function
  | InfixOp (m, l, o, r) -> Printf.sprintf "(infix %s %s %s %s)" (e_meta m) (rassoc o infix_table) (e_expr l) (e_expr r)
  | PrefixOp (m, o, r) -> Printf.sprintf "(prefix %s %s %s)" (e_meta m) (rassoc o prefix_table) (e_expr r)
  | InlineSwitchOp (m, c, t, f) -> Printf.sprintf "(switch %s %s %s %s)" (e_meta m) (e_expr c) (e_expr t) (e_expr f)
  | ParallelOp (m, r) -> Printf.sprintf "(par %s %s)" (e_meta m) (e_expr r)
  | Variable_ (m, n, acc) -> Printf.sprintf "(var %s %s %s)" (e_meta m) (ostr n) (e_access acc)
  | Number (m, v) -> Printf.sprintf "(num %s %s)" (e_meta m) (hex_of_z v)
  | Call (m, n, args) -> Printf.sprintf "(call %s %s%s)" (e_meta m) (ostr n) (e_exprs args)
  | AnonymousComponent (m, n, p, ps, ss, names) ->
    Printf.sprintf "(anon %s %s %d (params%s) (signals%s)%s)" (e_meta m) (ostr n) (if p then 1 else 0)
      (e_exprs ps) (e_exprs ss)
      (match names with
       | None -> " nonames"
       | Some ns -> " (names" ^ cat (Stdlib.List.map (fun (o, n) -> Printf.sprintf " (%s %s)" (e_op o) (ostr n)) ns) ^ ")")
  | ArrayInLine (m, vs) -> Printf.sprintf "(array %s%s)" (e_meta m) (e_exprs vs)
  | Tuple (m, vs) -> Printf.sprintf "(tuple %s%s)" (e_meta m) (e_exprs vs)
and e_exprs es = cat (Stdlib.List.map (fun e -> " " ^ e_expr e) es)
and e_access acc =
  "(acc" ^ cat (Stdlib.List.map (function
      | ComponentAccess n -> Printf.sprintf " (ca %s)" (ostr n)
      | ArrayAccess e -> Printf.sprintf " (aa %s)" (e_expr e)) acc) ^ ")"

let rec e_stmt = function
  | IfThenElse (m, c, i, None) -> Printf.sprintf "(if %s %s %s)" (e_meta m) (e_expr c) (e_stmt i)
  | IfThenElse (m, c, i, Some e) -> Printf.sprintf "(if %s %s %s %s)" (e_meta m) (e_expr c) (e_stmt i) (e_stmt e)
  | While (m, c, b) -> Printf.sprintf "(while %s %s %s)" (e_meta m) (e_expr c) (e_stmt b)
  | Return (m, v) -> Printf.sprintf "(return %s %s)" (e_meta m) (e_expr v)
  | InitializationBlock (m, t, ss) -> Printf.sprintf "(initblock %s %s%s)" (e_meta m) (e_xtype t) (e_stmts ss)
  | Declaration (m, t, n, dims, c) ->
    Printf.sprintf "(decl %s %s %s %d%s)" (e_meta m) (e_xtype t) (ostr n) (if c then 1 else 0) (e_exprs dims)
  | Substitution (m, n, acc, o, r) ->
    Printf.sprintf "(sub %s %s %s %s %s)" (e_meta m) (ostr n) (e_op o) (e_access acc) (e_expr r)
  | MultiSubstitution (m, l, o, r) -> Printf.sprintf "(msub %s %s %s %s)" (e_meta m) (e_op o) (e_expr l) (e_expr r)
  | ConstraintEquality (m, l, r) -> Printf.sprintf "(ceq %s %s %s)" (e_meta m) (e_expr l) (e_expr r)
  | LogCall (m, args) ->
    Printf.sprintf "(log %s%s)" (e_meta m)
      (cat (Stdlib.List.map (function
           | LogStr s -> Printf.sprintf " (str %s)" (hexs (ostr s))
           | LogExp e -> Printf.sprintf " (exp %s)" (e_expr e)) args))
  | Block (m, ss) -> Printf.sprintf "(block %s%s)" (e_meta m) (e_stmts ss)
  | Assert (m, a) -> Printf.sprintf "(assert %s %s)" (e_meta m) (e_expr a)
and e_stmts ss = cat (Stdlib.List.map (fun s -> " " ^ e_stmt s) ss)

let e_report (r : report) =
  Printf.sprintf "(r %s %s (p %d %d %d %s))"
    (match r.r_code with RCTupleError -> "tuple-error" | RCAnonymousComponentError -> "anonymous-component-error")
    (hexs (ostr (msg_text r.r_msg))) (int_of_n r.r_start) (int_of_n r.r_end) (int_of_n r.r_file)
    (hexs (ostr (label_text r.r_label)))

let e_io body =
  let ti = template_info_of body in
  let names l = cat (Stdlib.List.map (fun (n, d) -> Printf.sprintf " %s:%d" (ostr n) (int_of_nat d)) l) in
  Printf.sprintf "(in%s) (out%s)" (names ti.ti_inputs) (names ti.ti_outputs)

(* ---- the engine ---- *)
let decode_program line =
  match Stdlib.String.split_on_char '\t' line with
  | [starts; pre] ->
    (* one list of line starts per file, files separated by ';' (file id = position) *)
    let lib = Stdlib.List.map (fun f -> Stdlib.List.map (fun s -> n_of_int (int_of_string s)) (Stdlib.String.split_on_char ',' f))
        (Stdlib.String.split_on_char ';' starts) in
    let defs = match parse_sx pre with L (A "prog" :: defs) -> defs | _ -> bad "prog" in
    let ts = Stdlib.List.filter_map (function L [A "T"; n; b] -> Some (d_name n, d_stmt b) | _ -> None) defs in
    let fs = Stdlib.List.filter_map (function L [A "F"; n; b] -> Some (d_name n, d_stmt b) | _ -> None) defs in
    (lib, ts, fs)
  | _ -> bad "line"

let by_name l = Stdlib.List.sort (fun (a, _) (b, _) -> compare (ostr a) (ostr b)) l

let show_result ts fs reports =
  let t = cat (Stdlib.List.map (fun (n, b) -> Printf.sprintf " (T %s %s %s)" (ostr n) (e_io b) (e_stmt b)) (by_name ts)) in
  let f = cat (Stdlib.List.map (fun (n, b) -> Printf.sprintf " (F %s %s)" (ostr n) (e_stmt b)) (by_name fs)) in
  let reps = Stdlib.List.sort compare (Stdlib.List.map e_report reports) in
  Printf.sprintf "POST\t(out%s%s)\tREP\t(reports%s)" t f (cat (Stdlib.List.map (fun r -> " " ^ r) reps))

(* what the desugarer looks up for every parsed template (env_of = template_info_of of the PARSED body), kept or not *)
let show_io ts =
  "(io" ^ cat (Stdlib.List.map (fun (n, b) -> Printf.sprintf " (T %s %s)" (ostr n) (e_io b)) ts) ^ ")"

let mirror_line line =
  let (lib, ts, fs) = decode_program line in
  match remove_syntactic_sugar lib ts fs with
  | DOk d -> show_result d.d_templates d.d_functions d.d_reports ^ "\tIO\t" ^ show_io ts
  | DErr _ -> "POST\tmodel-error\tREP\t-"
  | DPanic s -> Printf.sprintf "POST\tpanic\tREP\tsite %d" (int_of_z s)
  | DOutOfFuel -> "POST\toutoffuel\tREP\t-"

let spec_line line =
  let (lib, ts, _) = decode_program line in
  let r = Desugar0.spec_templates lib ts in
  let kept = Stdlib.List.filter_map (fun (n, b) -> match b with Some b -> Some (n, b) | None -> None) r in
  let t = cat (Stdlib.List.map (fun (n, b) -> Printf.sprintf " (T %s %s %s)" (ostr n) (e_io b) (e_stmt b)) (by_name kept)) in
  Printf.sprintf "POST\t(out%s)" t

let roundtrip_line line =
  match Stdlib.String.split_on_char '\t' line with
  | [_; pre] ->
    let defs = match parse_sx pre with L (A "prog" :: defs) -> defs | _ -> bad "prog" in
    "(prog" ^ cat (Stdlib.List.map (function
        | L [A "T"; n; b] -> Printf.sprintf " (T %s %s)" (ostr (d_name n)) (e_stmt (d_stmt b))
        | L [A "F"; n; b] -> Printf.sprintf " (F %s %s)" (ostr (d_name n)) (e_stmt (d_stmt b))
        | _ -> bad "def") defs) ^ ")"
  | _ -> bad "line"

let () =
  match Array.to_list Sys.argv with
  | _ :: "mirror" :: _ -> each_line mirror_line
  | _ :: "spec" :: _ -> each_line spec_line
  | _ :: "roundtrip" :: _ -> each_line roundtrip_line
  | _ -> prerr_endline "usage: model_desugar mirror|roundtrip"; exit 2
