(* Extraction of the IR engine: value/degree propagation mirror. *)
Require Extraction.
Require Import ExtrOcamlBasic.
Require Import Model.Base Model.Ir Model.Propagate Model.Justify Model.SsaCheck Model.DegJustify Model.Ssa Model.ConstCond Model.SsaErase Model.Clean Model.DegWf Model.SsaPre Model.DegGraph Model.DegJustifyLe.
Separate Extraction Base.base_roots Base.outcome Ir.cfg Ir.set_blocks Propagate.propagate Justify.vjust_cfg Justify.ldefs_unique_cfg SsaCheck.ssa_check DegJustify.djust_cfg Ssa.into_ssa ConstCond.cc_findings SsaErase.erase_eqb SsaErase.mixed_keys_ok Clean.clean_cfg DegWf.deg_wf SsaPre.pre_ssa_ok SsaPre.children_coverb SsaPre.ssa_dyn_pre_ok SsaPre.children_treeb DegGraph.graph_consistent DegGraph.idom_is_dominator_table DegGraph.single_assignment_b DegGraph.forward_b SsaCheck.unversioned_reads_ok DegJustifyLe.djust_cfg_le.
