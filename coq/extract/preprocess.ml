(* Driver of the preprocess engine: byte I/O around the extracted
   Model.Preprocess / Model.PreprocessOld / Spec.LexSpec, same line format and
   same enumeration order as harness/src/bin/preprocess.rs. *)
open Datatypes
open BinNums
open Base
open Drvlib

let alphabet = [| 47; 42; 10; 97; 34; 233 |]
let alphabet_n = Array.map n_of_int alphabet

let show_ints (l : int list) =
  match l with [] -> "-" | _ -> Stdlib.String.concat " " (Stdlib.List.map string_of_int l)
let show_scalars (l : coq_N list) = show_ints (Stdlib.List.map int_of_n l)

(* mode: 0 mirror (repaired code), 1 mirror of the old code, 2 reference lexer *)
let run_one mode (src : coq_N list) =
  let r = match mode with
    | 0 -> Preprocess.preprocess src
    | 1 -> PreprocessOld.preprocess_old src
    | _ -> LexSpec.lex_spec src in
  match r with
  | Ok t -> "ok " ^ show_scalars t
  | Err e ->
    let (s, e2) = Preprocess.error_range e in
    if mode = 1 then Printf.sprintf "err %d %d" (int_of_nat s) (int_of_nat s)
    else Printf.sprintf "err %d %d" (int_of_nat s) (int_of_nat e2)
  | Panic _ -> "panic"
  | OutOfFuel -> "outoffuel"

let run_blank (src : coq_N list) = "ok " ^ show_scalars (LexSpec.blank_comments src)

let run_line mode line =
  let line = Stdlib.String.trim line in
  let src = if line = "-" then [] else
      Stdlib.List.map (fun t -> n_of_int (int_of_string t))
        (Stdlib.List.filter (fun t -> t <> "") (Stdlib.String.split_on_char ' ' line)) in
  line ^ " = " ^ (if mode = 3 then run_blank src else run_one mode src)

let mask = 0x3fff_ffff_ffff_ffff
let mix h (s : string) =
  let h = ref h in
  Stdlib.String.iter (fun c -> h := ((!h * 1099511628211) lxor (Char.code c)) land mask) s;
  !h

let sweep mode len prefix digest (alphabet : int array) =
  let alphabet_n = Array.map n_of_int alphabet in
  let k_sym = Array.length alphabet in
  let fixed = min len 2 in
  let idx = Array.make len 0 in
  if fixed = 2 then (idx.(0) <- prefix / k_sym; idx.(1) <- prefix mod k_sym)
  else if fixed = 1 then idx.(0) <- prefix mod k_sym;
  let count = ref 0 and n_ok = ref 0 and n_err = ref 0 and n_changed = ref 0 in
  (* 14695981039346656037 land mask, written so that it fits OCaml's int *)
  let h = ref 0x0bf29ce484222325 in
  let fin = ref false in
  while not !fin do
    let ints = Array.to_list (Array.map (fun i -> alphabet.(i)) idx) in
    let src = Array.to_list (Array.map (fun i -> alphabet_n.(i)) idx) in
    let res = run_one mode src in
    let line = show_ints ints ^ " = " ^ res in
    if digest then begin
      incr count;
      if Stdlib.String.length res >= 2 && Stdlib.String.sub res 0 2 = "ok" then begin
        incr n_ok;
        if Stdlib.String.sub res 3 (Stdlib.String.length res - 3) <> show_ints ints then incr n_changed
      end else if Stdlib.String.length res >= 3 && Stdlib.String.sub res 0 3 = "err" then incr n_err;
      h := mix !h line; h := mix !h "\n"
    end else print_endline line;
    let k = ref len in
    let moved = ref false in
    while not !moved && not !fin do
      if !k = fixed then begin
        if digest then Printf.printf "digest %d %d %d %d %d\n" !count !n_ok !n_err !n_changed !h;
        fin := true
      end else begin
        decr k;
        if idx.(!k) + 1 < k_sym then (idx.(!k) <- idx.(!k) + 1; moved := true)
        else idx.(!k) <- 0
      end
    done
  done

let () =
  let mode_of = function "mirror" -> 0 | "mirror-old" -> 1 | "spec" -> 2 | "blank" -> 3 | _ -> (prerr_endline "bad mode"; exit 2) in
  match Array.to_list Sys.argv with
  | _ :: "sweep" :: m :: len :: prefix :: d :: rest ->
    let alpha = match rest with
      | a :: _ -> Array.of_list (Stdlib.List.map int_of_string (Stdlib.String.split_on_char ',' a))
      | [] -> alphabet in
    sweep (mode_of m) (int_of_string len) (int_of_string prefix) (d = "digest") alpha
  | _ :: m :: _ -> each_line (run_line (mode_of m))
  | _ -> prerr_endline "usage: model_preprocess mirror|mirror-old|spec | sweep <mode> <len> <prefix> full|digest [c,c,c,...]"; exit 2
