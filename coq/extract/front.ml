(* Driver of the front engine (C02): reads one project per line (abstract file
   system data in the format of the includes engine, see lib/c02front.py
   `abstract`), calls the extracted Model.Includes.run_project and
   Model.Front.front_run, prints one JSON line:

     files    : [path, user flag] of every FileLibrary entry, by id   (run_project)
     reports  : ["os", path] | ["inc", path, fid, start, end] | ["perr", fid]   (run_project)
     full     : [category, code id, code name, [primary file ids]] of every parse-stage report of the project
                handed to the runner, in order   (front_run: Front.report_of through Front.report_view; the
                category is printed by Gen.Category.display, id and name are the numbers given on the line)
     user_ids : FileLibrary::user_inputs as built by Front.user_ids   (front_run)

   `model_front classes` prints Spec.NoSilentSpec.class_table, one line per failure class:
     <class> <producer> <shape>     (constructor names)

   line:  argv \t libs \t canon \t dirs \t files \t contents \t pf_id \t pf_name       ("-" = empty list)
     pf_id, pf_name : the numbers the caller gives to ReportCode::ParseFail's id() and name()
     argv, libs : p;p;...
     canon      : spelling,canonical|-;...
     dirs       : spelling,name,name,...;...
     files      : canonical paths that are regular files, p;p;...
     contents   : path,U | path,E | path,P,inc@start@end,...;... *)
open Datatypes
open Base
open Drvlib

let cstring (s : string) : Ascii.ascii list =
  Stdlib.List.init (Stdlib.String.length s) (fun i ->
      let c = Char.code (Stdlib.String.get s i) in
      let b k = c land (1 lsl k) <> 0 in
      Ascii.Ascii (b 0, b 1, b 2, b 3, b 4, b 5, b 6, b 7))

let ostring (s : Ascii.ascii list) : string =
  let buf = Buffer.create 32 in
  Stdlib.List.iter (fun (Ascii.Ascii (b0, b1, b2, b3, b4, b5, b6, b7)) ->
      let v l = Stdlib.List.fold_right (fun b a -> 2 * a + (if b then 1 else 0)) l 0 in
      Buffer.add_char buf (Char.chr (v [b0; b1; b2; b3; b4; b5; b6; b7]))) s;
  Buffer.contents buf

let split c s = if s = "-" || s = "" then [] else Stdlib.String.split_on_char c s

let parse_line line =
  match Stdlib.String.split_on_char '\t' line with
  | [argv; libs; canon; dirs; files; contents; pf_id; pf_name] ->
    let canon = Stdlib.List.map (fun e ->
        match Stdlib.String.split_on_char ',' e with
        | [k; "-"] -> (cstring k, None)
        | [k; v] -> (cstring k, Some (cstring v))
        | _ -> failwith "canon") (split ';' canon) in
    let dirs = Stdlib.List.map (fun e ->
        match Stdlib.String.split_on_char ',' e with
        | k :: names -> (cstring k, Stdlib.List.map cstring names)
        | [] -> failwith "dirs") (split ';' dirs) in
    let contents = Stdlib.List.map (fun e ->
        match Stdlib.String.split_on_char ',' e with
        | [k; "U"] -> (cstring k, Includes.Unreadable)
        | [k; "E"] -> (cstring k, Includes.Unparsable)
        | k :: "P" :: incs ->
          (cstring k, Includes.Parsed (Stdlib.List.map (fun i ->
               match Stdlib.String.split_on_char '@' i with
               | [p; s; e] -> ((cstring p, nat_of_int (int_of_string s)), nat_of_int (int_of_string e))
               | _ -> failwith "include") incs))
        | _ -> failwith "contents") (split ';' contents) in
    ({ Includes.fs_canon = canon; fs_dirs = dirs; fs_files = Stdlib.List.map cstring (split ';' files); fs_content = contents },
     Stdlib.List.map cstring (split ';' argv), Stdlib.List.map cstring (split ';' libs),
     z_of_int (int_of_string pf_id), z_of_int (int_of_string pf_name))
  | _ -> failwith "fields"

let q s =
  let buf = Buffer.create 32 in
  Stdlib.String.iter (fun c -> match c with
      | '"' -> Buffer.add_string buf "\\\""
      | '\\' -> Buffer.add_string buf "\\\\"
      | c -> Buffer.add_char buf c) (ostring s);
  "\"" ^ Buffer.contents buf ^ "\""

let show_report = function
  | Includes.FileOsError p -> Printf.sprintf "[\"os\", %s]" (q p)
  | Includes.IncludeError (p, Some fid, s, e) ->
    Printf.sprintf "[\"inc\", %s, %d, %d, %d]" (q p) (int_of_nat fid) (int_of_nat s) (int_of_nat e)
  | Includes.IncludeError (p, None, _, _) -> Printf.sprintf "[\"inc-nolabel\", %s]" (q p)
  | Includes.ParsingError fid -> Printf.sprintf "[\"perr\", %d]" (int_of_nat fid)

let zs l = "[" ^ Stdlib.String.concat ", " (Stdlib.List.map (fun z -> string_of_int (int_of_z z)) l) ^ "]"

let rec coqstring (s : String.string) : string =
  match s with
  | String.EmptyString -> ""
  | String.String (c, r) -> ostring [c] ^ coqstring r

let show_full (((level, id), name), pfiles) =
  Printf.sprintf "[\"%s\", %d, %d, %s]" (coqstring level) (int_of_z id) (int_of_z name) (zs pfiles)

let run line =
  let (d, argv, libs, pf_id, pf_name) = parse_line line in
  match Includes.run_project false d argv libs, Front.front_run pf_id pf_name d argv libs with
  | Ok s, Ok (full, users) ->
    Printf.sprintf "{\"status\": \"ok\", \"files\": [%s], \"reports\": [%s], \"full\": [%s], \"user_ids\": %s, \"canon_idempotent\": %b}"
      (Stdlib.String.concat ", " (Stdlib.List.map (fun (p, u) -> Printf.sprintf "[%s, %b]" (q p) u) s.Includes.ps_files))
      (Stdlib.String.concat ", " (Stdlib.List.map show_report s.Includes.ps_reports))
      (Stdlib.String.concat ", " (Stdlib.List.map show_full full))
      (zs users)
      (Includes.canon_idempotent_b d)
  | Panic _, _ | _, Panic _ -> "{\"status\": \"panic\"}"
  | OutOfFuel, _ | _, OutOfFuel -> "{\"status\": \"outoffuel\"}"
  | _, _ -> "{\"status\": \"err\"}"

(* constructor names only *)
let class_name = function
  | NoSilentSpec.MissingFile -> "MissingFile" | NoSilentSpec.UnreadableFile -> "UnreadableFile"
  | NoSilentSpec.SyntaxError -> "SyntaxError" | NoSilentSpec.UnresolvedInclude -> "UnresolvedInclude"
  | NoSilentSpec.DuplicateParameter -> "DuplicateParameter" | NoSilentSpec.LiftFailure -> "LiftFailure"
  | NoSilentSpec.BadPragma -> "BadPragma" | NoSilentSpec.SeveralMains -> "SeveralMains"
  | NoSilentSpec.InvalidTupleOrAnonymous -> "InvalidTupleOrAnonymous"
  | NoSilentSpec.DuplicateDefinition -> "DuplicateDefinition"
let producer_name = function
  | NoSilentSpec.ByIncludes -> "ByIncludes" | NoSilentSpec.ByLift -> "ByLift" | NoSilentSpec.ByOtherStage -> "ByOtherStage"
let shape_name = function
  | NoSilentSpec.ShOsError -> "ShOsError" | NoSilentSpec.ShParseError -> "ShParseError"
  | NoSilentSpec.ShIncludeError -> "ShIncludeError" | NoSilentSpec.ShLiftError -> "ShLiftError"
  | NoSilentSpec.ShOtherUnlabelled -> "ShOtherUnlabelled" | NoSilentSpec.ShOtherInNamedFile -> "ShOtherInNamedFile"

let () =
  match Array.to_list Sys.argv with
  | _ :: "run" :: _ -> each_line (fun l -> try run l with Failure m -> "{\"status\": \"bad-line " ^ m ^ "\"}")
  | _ :: "classes" :: _ ->
    Stdlib.List.iter (fun ((c, p), sh) -> print_endline (class_name c ^ " " ^ producer_name p ^ " " ^ shape_name sh))
      NoSilentSpec.class_table
  | _ -> prerr_endline "usage: model_front run|classes"; exit 2
