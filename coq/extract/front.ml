(* uses: lib_astwire.ml *)
(* Driver of the front engine (C02): reads one project per line (abstract file
   system data in the format of the includes engine, see lib/c02front.py
   `abstract`), calls the extracted Model.Includes.run_project and
   Model.Front.front_run, prints one JSON line:

     files    : [path, user flag] of every FileLibrary entry, by id   (run_project)
     reports  : ["os", path] | ["inc", path, fid, start, end] | ["perr", fid]   (run_project)
     full     : [category, code id, code name, [primary file ids]] of every parse-stage report of the project
                handed to the runner, in order   (front_run: Front.report_of through Front.report_view; the
                category is printed by Gen.Category.display, id and name are the numbers given on the line)
     user_ids : FileLibrary::user_inputs as built by Front.user_ids   (front_run)
     canon_idempotent, dirs_revisited : the two decidable premises of C02's theorems about a run, evaluated on the
                project (Includes.canon_idempotent_b; Includes.dirs_revisited_b = Includes.dirs_revisited with
                Includes.dir_fuel, the dfuel of run_project: true iff FileStack::new skipped a directory it had met before)

   `model_front classes` prints Spec.NoSilentSpec.class_table, one line per failure class:
     <class> <producer> <derivation> <shape>     (constructor names)

   `model_front stages` (third pass): the line of `run` followed by four more fields
     vers     : path,a.b.c|none,0|1,id;...   of every file that parses, in the order of the file ids: its `pragma circom`
                                             version, whether it has a main component, and its file id in the real
                                             FileLibrary (harness `front stages`)
     codes    : 16 numbers  id,name of CompilerVersionError, NoCompilerVersionWarning, MultipleMainInComponent, TupleError,
                            AnonymousComponentError, ParameterNameCollision, UninitializedSymbolInExpression,
                            SameSymbolDeclaredTwice (the caller's numbering)
     lib      : s,s,..;s,s,..                the line starts of every file of the FileLibrary, by file id
     prog     : (prog (def KIND NAME (params P ..) FILE START END <body>) ..)   ALL definitions the single-file parser yields for
                                             the files that parse, in file-id order then source order, duplicates included;
                                             [defs_of p] = those whose FILE is the id `vers` gives for p, in order
   and prints the JSON of `run` with one more key
     stage    : {"reports": [[category, id, name, [primary file ids]], ..],      Model.FrontStages.stage_items + merger_items
                                                                                 (["error", id, name, [file of the duplicate,
                                                                                 file of the first]]) + sugar_items
                 "defs": [[kind, name, null | [category, id, name, [pfiles]]], ..], the definitions handed to the runner (of the
                                                                                 library keep_first makes) and the d_err
                                                                                 Model.FrontStages.stage_def gives them
                 "metas_ok": bool,                                               every meta of a body lies in the file of its
                                                                                 definition (all definitions)
                 "defs_file_ok": bool,                                           the definitions of the i-th FileLibrary entry of
                                                                                 the MODEL carry the file id i
                 "all_defs": n, "kept": n}                                       |all_definitions|, |keep_first all_definitions|
                | null (Model.Desugar did not answer DOk)
     compiler_version : Gen.CompilerVersion.compiler_version
   through Model.FrontStages.stage_run (identity hash orders, the Goldilocks prime, pass budgets 4/4 as in C01's chain driver;
   err_file = the file of the definition).

   line:  argv \t libs \t canon \t dirs \t files \t contents \t pf_id \t pf_name       ("-" = empty list)
     pf_id, pf_name : the numbers the caller gives to ReportCode::ParseFail's id() and name()
     argv, libs : p;p;...
     canon      : spelling,canonical|-;...
     dirs       : spelling,name,name,...;...
     files      : canonical paths that are regular files, p;p;...
     contents   : path,U | path,E | path,P,inc@start@end,...;... *)
open Datatypes
open Base
open Drvlib

let cstring (s : string) : Ascii.ascii list =
  Stdlib.List.init (Stdlib.String.length s) (fun i ->
      let c = Char.code (Stdlib.String.get s i) in
      let b k = c land (1 lsl k) <> 0 in
      Ascii.Ascii (b 0, b 1, b 2, b 3, b 4, b 5, b 6, b 7))

let ostring (s : Ascii.ascii list) : string =
  let buf = Buffer.create 32 in
  Stdlib.List.iter (fun (Ascii.Ascii (b0, b1, b2, b3, b4, b5, b6, b7)) ->
      let v l = Stdlib.List.fold_right (fun b a -> 2 * a + (if b then 1 else 0)) l 0 in
      Buffer.add_char buf (Char.chr (v [b0; b1; b2; b3; b4; b5; b6; b7]))) s;
  Buffer.contents buf

let split c s = if s = "-" || s = "" then [] else Stdlib.String.split_on_char c s

let parse_fields = function
  | [argv; libs; canon; dirs; files; contents; pf_id; pf_name] ->
    let canon = Stdlib.List.map (fun e ->
        match Stdlib.String.split_on_char ',' e with
        | [k; "-"] -> (cstring k, None)
        | [k; v] -> (cstring k, Some (cstring v))
        | _ -> failwith "canon") (split ';' canon) in
    let dirs = Stdlib.List.map (fun e ->
        match Stdlib.String.split_on_char ',' e with
        | k :: names -> (cstring k, Stdlib.List.map cstring names)
        | [] -> failwith "dirs") (split ';' dirs) in
    let contents = Stdlib.List.map (fun e ->
        match Stdlib.String.split_on_char ',' e with
        | [k; "U"] -> (cstring k, Includes.Unreadable)
        | [k; "E"] -> (cstring k, Includes.Unparsable)
        | k :: "P" :: incs ->
          (cstring k, Includes.Parsed (Stdlib.List.map (fun i ->
               match Stdlib.String.split_on_char '@' i with
               | [p; s; e] -> ((cstring p, nat_of_int (int_of_string s)), nat_of_int (int_of_string e))
               | _ -> failwith "include") incs))
        | _ -> failwith "contents") (split ';' contents) in
    ({ Includes.fs_canon = canon; fs_dirs = dirs; fs_files = Stdlib.List.map cstring (split ';' files); fs_content = contents },
     Stdlib.List.map cstring (split ';' argv), Stdlib.List.map cstring (split ';' libs),
     z_of_int (int_of_string pf_id), z_of_int (int_of_string pf_name))
  | _ -> failwith "fields"

let parse_line line = parse_fields (Stdlib.String.split_on_char '\t' line)

let q s =
  let buf = Buffer.create 32 in
  Stdlib.String.iter (fun c -> match c with
      | '"' -> Buffer.add_string buf "\\\""
      | '\\' -> Buffer.add_string buf "\\\\"
      | c -> Buffer.add_char buf c) (ostring s);
  "\"" ^ Buffer.contents buf ^ "\""

let show_report = function
  | Includes.FileOsError p -> Printf.sprintf "[\"os\", %s]" (q p)
  | Includes.IncludeError (p, Some fid, s, e) ->
    Printf.sprintf "[\"inc\", %s, %d, %d, %d]" (q p) (int_of_nat fid) (int_of_nat s) (int_of_nat e)
  | Includes.IncludeError (p, None, _, _) -> Printf.sprintf "[\"inc-nolabel\", %s]" (q p)
  | Includes.ParsingError fid -> Printf.sprintf "[\"perr\", %d]" (int_of_nat fid)

let zs l = "[" ^ Stdlib.String.concat ", " (Stdlib.List.map (fun z -> string_of_int (int_of_z z)) l) ^ "]"

let rec coqstring (s : String.string) : string =
  match s with
  | String.EmptyString -> ""
  | String.String (c, r) -> ostring [c] ^ coqstring r

let show_full (((level, id), name), pfiles) =
  Printf.sprintf "[\"%s\", %d, %d, %s]" (coqstring level) (int_of_z id) (int_of_z name) (zs pfiles)

let run_with extra (d, argv, libs, pf_id, pf_name) =
  match Includes.run_project false d argv libs, Front.front_run pf_id pf_name d argv libs with
  | Ok s, Ok (full, users) ->
    Printf.sprintf "{\"status\": \"ok\", \"files\": [%s], \"reports\": [%s], \"full\": [%s], \"user_ids\": %s, \"canon_idempotent\": %b, \"dirs_revisited\": %b%s}"
      (Stdlib.String.concat ", " (Stdlib.List.map (fun (p, u) -> Printf.sprintf "[%s, %b]" (q p) u) s.Includes.ps_files))
      (Stdlib.String.concat ", " (Stdlib.List.map show_report s.Includes.ps_reports))
      (Stdlib.String.concat ", " (Stdlib.List.map show_full full))
      (zs users)
      (Includes.canon_idempotent_b d)
      (Includes.dirs_revisited_b d argv libs)
      (extra ())
  | Panic _, _ | _, Panic _ -> "{\"status\": \"panic\"}"
  | OutOfFuel, _ | _, OutOfFuel -> "{\"status\": \"outoffuel\"}"
  | _, _ -> "{\"status\": \"err\"}"

let run line = run_with (fun () -> "") (parse_line line)

(* ---- third pass: the stages ---- *)
let decode_def sx =
  let open Lib_astwire in
  match sx with
  | L [A "def"; A kind; A name; L (A "params" :: ps); file; A s; A e; body] ->
    let kind = (match kind with "function" -> Ir.KFunction | "template" -> Ir.KTemplate | "custom" -> Ir.KCustom | _ -> bad "kind") in
    let pfile = (match file with A "-" -> None | A f -> Some (n_of_int (int_of_string f)) | _ -> bad "file") in
    { PipelineMirrors.d_name = d_name (A name); d_kind = kind; d_params = Stdlib.List.map d_name ps; d_pfile = pfile;
      d_ploc = (n_of_int (int_of_string s), n_of_int (int_of_string e)); d_body = d_stmt body }
  | _ -> bad "def"

let goldilocks = z_of_hex "ffffffff00000001"
let budget = nat_of_int 4

let kind_name = function Runner.KFunction -> "function" | Runner.KTemplate -> "template"

let stages line =
  match Stdlib.String.split_on_char '\t' line with
  | [argv; libs; canon; dirs; files; contents; pf_id; pf_name; vers; codes; lib; prog] ->
    let (d, argv, libs, pf_id, pf_name) as base = parse_fields [argv; libs; canon; dirs; files; contents; pf_id; pf_name] in
    let vers = Stdlib.List.map (fun e ->
        match Stdlib.String.split_on_char ',' e with
        | [p; v; m; id] ->
          let v = (match Stdlib.String.split_on_char '.' v with
              | [a; b; c] -> Some ((nat_of_int (int_of_string a), nat_of_int (int_of_string b)), nat_of_int (int_of_string c))
              | _ -> None) in
          (cstring p, (v, m = "1", n_of_int (int_of_string id)))
        | _ -> failwith "vers") (split ';' vers) in
    let pragma p = (match Stdlib.List.assoc_opt p vers with Some (v, _, _) -> v | None -> None) in
    let has_main p = (match Stdlib.List.assoc_opt p vers with Some (_, m, _) -> m | None -> false) in
    let cs = (match Stdlib.List.map (fun x -> z_of_int (int_of_string x)) (split ',' codes) with
        | [a1; a2; b1; b2; c1; c2; d1; d2; e1; e2; f1; f2; g1; g2; h1; h2] ->
          let c i n = { FrontStages.c_id = i; c_name = n } in
          { FrontStages.c_version_error = c a1 a2; c_no_version = c b1 b2; c_multiple_main = c c1 c2; c_tuple = c d1 d2;
            c_anonymous = c e1 e2; c_param_collision = c f1 f2; c_undefined = c g1 g2; c_same_symbol = c h1 h2 }
        | _ -> failwith "codes") in
    let lib = Stdlib.List.map (fun f -> Stdlib.List.map (fun x -> n_of_int (int_of_string x)) (split ',' f)) (split ';' lib) in
    let defs = (match Lib_astwire.parse_sx prog with
        | Lib_astwire.L (Lib_astwire.A "prog" :: defs) -> Stdlib.List.map decode_def defs
        | _ -> failwith "prog") in
    let defs_of p = (match Stdlib.List.assoc_opt p vers with
        | Some (_, _, id) -> Stdlib.List.filter (fun dd -> dd.PipelineMirrors.d_pfile = Some id) defs
        | None -> []) in
    let extra () =
      let cv = CompilerVersion.compiler_version in
      let cvs = Printf.sprintf ", \"compiler_version\": [%d, %d, %d]" (int_of_nat (fst (fst cv))) (int_of_nat (snd (fst cv))) (int_of_nat (snd cv)) in
      match FrontStages.stage_run cs pf_id pf_name Dom.id_order (fun l -> l) goldilocks budget budget d pragma has_main argv libs lib defs_of
              ExpandSpec.stmt_metas with
      | Ok (Some v) ->
        Printf.sprintf ", \"stage\": {\"reports\": [%s], \"defs\": [%s], \"metas_ok\": %b, \"defs_file_ok\": %b, \"all_defs\": %d, \"kept\": %d}%s"
          (Stdlib.String.concat ", " (Stdlib.List.map show_full v.FrontStages.sv_reports))
          (Stdlib.String.concat ", " (Stdlib.List.map (fun ((k, n), e) ->
               Printf.sprintf "[\"%s\", \"%s\", %s]" (kind_name k) (coqstring n)
                 (match e with None -> "null" | Some r -> show_full r)) v.FrontStages.sv_defs))
          v.FrontStages.sv_metas_ok v.FrontStages.sv_defs_file_ok (int_of_nat v.FrontStages.sv_all_defs)
          (int_of_nat v.FrontStages.sv_kept) cvs
      | _ -> ", \"stage\": null" ^ cvs in
    run_with extra base
  | _ -> failwith "fields"

(* constructor names only *)
let class_name = function
  | NoSilentSpec.MissingFile -> "MissingFile" | NoSilentSpec.UnreadableFile -> "UnreadableFile"
  | NoSilentSpec.SyntaxError -> "SyntaxError" | NoSilentSpec.UnresolvedInclude -> "UnresolvedInclude"
  | NoSilentSpec.DuplicateParameter -> "DuplicateParameter" | NoSilentSpec.LiftFailure -> "LiftFailure"
  | NoSilentSpec.BadPragma -> "BadPragma" | NoSilentSpec.SeveralMains -> "SeveralMains"
  | NoSilentSpec.InvalidTupleOrAnonymous -> "InvalidTupleOrAnonymous"
  | NoSilentSpec.DuplicateDefinition -> "DuplicateDefinition"
let producer_name = function
  | NoSilentSpec.ByIncludes -> "ByIncludes" | NoSilentSpec.ByVersionCheck -> "ByVersionCheck"
  | NoSilentSpec.ByMainMatch -> "ByMainMatch" | NoSilentSpec.ByDesugarer -> "ByDesugarer"
  | NoSilentSpec.ByLifter -> "ByLifter" | NoSilentSpec.ByMerger -> "ByMerger"
let derivation_name = function
  | NoSilentSpec.Derived -> "Derived" | NoSilentSpec.DerivedUpToLocation -> "DerivedUpToLocation"
  | NoSilentSpec.Assumed -> "Assumed"
let shape_name = function
  | NoSilentSpec.ShOsError -> "ShOsError" | NoSilentSpec.ShParseError -> "ShParseError"
  | NoSilentSpec.ShIncludeError -> "ShIncludeError" | NoSilentSpec.ShVersionError -> "ShVersionError"
  | NoSilentSpec.ShMultipleMain -> "ShMultipleMain" | NoSilentSpec.ShSugarError -> "ShSugarError"
  | NoSilentSpec.ShParamCollision -> "ShParamCollision" | NoSilentSpec.ShLiftError -> "ShLiftError"
  | NoSilentSpec.ShDuplicate -> "ShDuplicate" | NoSilentSpec.ShOtherInNamedFile -> "ShOtherInNamedFile"

let () =
  match Array.to_list Sys.argv with
  | _ :: "run" :: _ -> each_line (fun l -> try run l with Failure m -> "{\"status\": \"bad-line " ^ m ^ "\"}")
  | _ :: "stages" :: _ ->
    each_line (fun l -> try stages l with Failure m -> "{\"status\": \"bad-line " ^ m ^ "\"}" | Not_found -> "{\"status\": \"bad-line not-found\"}")
  | _ :: "classes" :: _ ->
    Stdlib.List.iter (fun (((c, p), dv), sh) ->
        print_endline (class_name c ^ " " ^ producer_name p ^ " " ^ derivation_name dv ^ " " ^ shape_name sh))
      NoSilentSpec.class_table
  | _ -> prerr_endline "usage: model_front run|stages|classes"; exit 2
