(* Extraction of the liftfull engine (owner C13; serves C04, C08, C01): the
   content-carrying lifting mirror Model.LiftFull, its erasure onto Model.Ir, the
   decidable well-formedness predicate of the totality theorem, and the two sides
   of the skeleton-agreement theorem (evaluated on every case as well); for C08 the
   decidable hypothesis of C08_liftfull_distinct_sources_distinct_subkeys and its conclusion.
   Only ExtrOcamlBasic. *)
Require Extraction.
Require Import ExtrOcamlBasic.
Require Model.Base Model.Ast Model.Ir Model.Lift Model.LiftFull Model.LiftFullReport Model.SignalAssign Model.SigAssignSource
  Model.SsaPre Model.IrCfgCheck
  Spec.CfgSpec.
Separate Extraction Base.base_roots Base.outcome LiftFull.try_lift_impl LiftFull.erase_cfg LiftFull.definition_wf
  LiftFull.skel LiftFull.skel_block LiftFull.lifted_stmts LiftFull.graph_stmts LiftFull.lift_meta
  LiftFull.xstmt_meta LiftFull.ensure_unique_variables Lift.lift
  SigAssignSource.source_metas_distinct_b SigAssignSource.source_signal_assignments SignalAssign.subkeys_distinct_b
  LiftFullReport.shadow_to_report LiftFullReport.param_collision_report LiftFullReport.stmt_metas_distinct_b
  LiftFull.is_block LiftFull.ast_init_flat CfgSpec.init_ok CfgSpec.trace_tree
  LiftFullReport.positional_key LiftFullReport.stmt_ir_metas
  SsaPre.phi_free IrCfgCheck.cfg_wf_b IrCfgCheck.cfg_wf_clauses IrCfgCheck.ssa_shape_b.
