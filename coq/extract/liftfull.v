(* Extraction of the liftfull engine (owner C13; serves C04, C08, C01): the
   content-carrying lifting mirror Model.LiftFull, its erasure onto Model.Ir, the
   decidable well-formedness predicate of the totality theorem, and the two sides
   of the skeleton-agreement theorem (evaluated on every case as well).
   Only ExtrOcamlBasic. *)
Require Extraction.
Require Import ExtrOcamlBasic.
Require Model.Base Model.Ast Model.Ir Model.Lift Model.LiftFull.
Separate Extraction Base.base_roots Base.outcome LiftFull.try_lift_impl LiftFull.erase_cfg LiftFull.definition_wf
  LiftFull.skel LiftFull.skel_block LiftFull.lifted_stmts LiftFull.graph_stmts LiftFull.lift_meta
  LiftFull.xstmt_meta LiftFull.ensure_unique_variables Lift.lift.
