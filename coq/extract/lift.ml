(* Driver of the lift engine: reads one surface skeleton per line as an
   S-expression, prints the block list of Model.Lift.lift (desugar u) in the
   form of harness/src/bin/lift.rs, or (mode walk) the decision trees of
   Spec.CfgSpec.trace_tree / walk_tree.
     (L id) (R id) (A id) (N s..) (B s..) (W c s) (I c s) (E c s s) (F init c step body)
   C13 (mode forms): a compound leaf may carry its surface statement,
     (A id (Op <opcode> <target> <expr>)) | (A id (Inc <target>)) | (A id (Dec <target>))
     target = (V name index..), expr = (N n) | (V name index..) | (<opcode> expr expr);
   printed: for every such leaf `id=<plain assignment>` by
   Spec.SurfaceSpec.expected_statement, then ` # `, then the same by the mirror
   Model.Shortcuts.parse_substitution, in the form of harness/src/bin/lift.rs. *)
open Datatypes
open Base
open Drvlib
open Lift

type sx = Atom of string | Node of sx list

let parse_sx (s : string) : sx =
  let n = Stdlib.String.length s in
  let pos = ref 0 in
  let rec skip () = if !pos < n && s.[!pos] = ' ' then (incr pos; skip ()) in
  let rec one () =
    skip ();
    if !pos >= n then failwith "sx: eof"
    else if s.[!pos] = '(' then begin
      incr pos;
      let items = ref [] in
      let rec loop () =
        skip ();
        if !pos >= n then failwith "sx: unclosed"
        else if s.[!pos] = ')' then incr pos
        else (items := one () :: !items; loop ()) in
      loop ();
      Node (Stdlib.List.rev !items)
    end else begin
      let st = !pos in
      while !pos < n && s.[!pos] <> ' ' && s.[!pos] <> '(' && s.[!pos] <> ')' do incr pos done;
      Atom (Stdlib.String.sub s st (!pos - st))
    end in
  one ()

let num = function Atom a -> nat_of_int (int_of_string a) | _ -> failwith "sx: number expected"

let rec usk_of (x : sx) : usk =
  match x with
  | Node [Atom "L"; i] -> ULeaf (num i, false)
  | Node [Atom "R"; i] -> ULeaf (num i, true)
  | Node (Atom "A" :: i :: _) -> UCompound (num i)   (* (A id) or (A id <surface statement>) *)
  | Node (Atom "N" :: ss) -> UInit (Stdlib.List.map usk_of ss)
  | Node (Atom "B" :: ss) -> UBlock (Stdlib.List.map usk_of ss)
  | Node [Atom "W"; c; b] -> UWhile (num c, usk_of b)
  | Node [Atom "I"; c; t] -> UIf (num c, usk_of t, None)
  | Node [Atom "E"; c; t; e] -> UIf (num c, usk_of t, Some (usk_of e))
  | Node [Atom "F"; i; c; st; b] -> UFor (usk_of i, num c, usk_of st, usk_of b)
  | _ -> failwith "sx: bad skeleton"

let ints l = Stdlib.String.concat "," (Stdlib.List.map (fun n -> string_of_int (int_of_nat n)) l)

let show_item = function
  | ILeaf id -> Printf.sprintf "L%d" (int_of_nat id)
  | IBranch (c, t, f) ->
    Printf.sprintf "C%d>%d/%s" (int_of_nat c) (int_of_nat t)
      (match f with Some f -> string_of_int (int_of_nat f) | None -> "-")

let show_block b =
  Printf.sprintf "B%d d%d [%s] p[%s] s[%s]" (int_of_nat b.b_index) (int_of_nat b.b_depth)
    (Stdlib.String.concat " " (Stdlib.List.map show_item b.b_items)) (ints b.b_preds) (ints b.b_succs)

let show_graph g = Stdlib.String.concat "; " (Stdlib.List.map show_block g)

let cfg_line line =
  match lift (desugar (usk_of (parse_sx line))) with
  | Ok g -> "cfg " ^ show_graph g
  | Panic _ -> "cfg panic"
  | Err _ -> "cfg error"
  | OutOfFuel -> "cfg outoffuel"

let show_key = function
  | CfgSpec.KLeaf id -> Printf.sprintf "L%d" (int_of_nat id)
  | CfgSpec.KCond c -> Printf.sprintf "C%d" (int_of_nat c)

let show_status = function
  | CfgSpec.Running -> "E" | CfgSpec.Returned -> "R" | CfgSpec.Exhausted -> "X" | CfgSpec.Diverged -> "D"

let show_tree t =
  Stdlib.String.concat "|" (Stdlib.List.map (fun ((ds, tr), st) ->
    Printf.sprintf "%s:%s:%s"
      (Stdlib.String.concat "" (Stdlib.List.map (fun b -> if b then "1" else "0") ds))
      (Stdlib.String.concat " " (Stdlib.List.map show_key tr)) (show_status st)) t)

let walk_line n line =
  let s = desugar (usk_of (parse_sx line)) in
  let t = show_tree (CfgSpec.trace_tree (nat_of_int n) s) in
  let w = match lift s with
    | Ok g -> show_tree (CfgSpec.walk_tree (nat_of_int n) (nat_of_int 5000) g)
    | _ -> "nolift" in
  Printf.sprintf "T %s # W %s" t w

(* ---- C13: compound assignments ---- *)
let ops = Shortcuts.[ "Mul", Mul; "Div", Div; "Add", Add; "Sub", Sub; "Pow", Pow; "IntDiv", IntDiv; "Mod", Mod;
                      "ShiftL", ShiftL; "ShiftR", ShiftR; "BitAnd", BitAnd; "BitOr", BitOr; "BitXor", BitXor ]
let op_of a = try Stdlib.List.assoc a ops with Not_found -> failwith "sx: bad opcode"
let name_of_op o = fst (Stdlib.List.find (fun (_, o') -> o' = o) ops)

let rec ex_of (x : sx) : string Shortcuts.ex =
  match x with
  | Node [Atom "N"; n] -> Shortcuts.ENum (num n)
  | Node (Atom "V" :: Atom name :: idx) -> Shortcuts.EVar (name, Stdlib.List.map ex_of idx)
  | Node [Atom "."; Atom f] -> Shortcuts.EField f
  | Node [Atom o; l; r] -> Shortcuts.EInfix (op_of o, ex_of l, ex_of r)
  | _ -> failwith "sx: bad expression"

let target_of (x : sx) =
  match ex_of x with Shortcuts.EVar (name, idx) -> (name, idx) | _ -> failwith "sx: bad target"

let cstmt_of (x : sx) : string Shortcuts.cstmt =
  match x with
  | Node [Atom "Op"; Atom o; t; e] -> let (n, idx) = target_of t in Shortcuts.COpAssign (op_of o, n, idx, ex_of e)
  | Node [Atom "Inc"; t] -> let (n, idx) = target_of t in Shortcuts.CInc (n, idx)
  | Node [Atom "Dec"; t] -> let (n, idx) = target_of t in Shortcuts.CDec (n, idx)
  | Node [Atom "Set"; t; e] -> let (n, idx) = target_of t in Shortcuts.CAssign (n, idx, ex_of e)
  | _ -> failwith "sx: bad surface statement"

let rec show_ex (e : string Shortcuts.ex) =
  match e with
  | Shortcuts.ENum n -> Printf.sprintf "(N %d)" (int_of_nat n)
  | Shortcuts.EVar (x, idx) -> show_var x idx
  | Shortcuts.EInfix (o, l, r) -> Printf.sprintf "(%s %s %s)" (name_of_op o) (show_ex l) (show_ex r)
  | Shortcuts.EField f -> Printf.sprintf "(. %s)" f
and show_var x idx =
  Printf.sprintf "(V %s%s)" x (Stdlib.String.concat "" (Stdlib.List.map (fun e -> " " ^ show_ex e) idx))

let show_cstmt (s : string Shortcuts.cstmt) =
  match s with
  | Shortcuts.CAssign (x, idx, e) -> Printf.sprintf "(= %s %s)" (show_var x idx) (show_ex e)
  | Shortcuts.COpAssign (o, x, idx, e) -> Printf.sprintf "(%s= %s %s)" (name_of_op o) (show_var x idx) (show_ex e)
  | Shortcuts.CInc (x, idx) -> Printf.sprintf "(++ %s)" (show_var x idx)
  | Shortcuts.CDec (x, idx) -> Printf.sprintf "(-- %s)" (show_var x idx)

(* the compound leaves that carry a surface statement, in text order *)
let rec compounds (x : sx) : (string * sx) list =
  match x with
  | Node [Atom "A"; Atom i; st] -> [ (i, st) ]
  | Node items -> Stdlib.List.concat_map compounds items
  | Atom _ -> []

let forms_line line =
  let cs = Stdlib.List.map (fun (i, st) -> (i, cstmt_of st)) (compounds (parse_sx line)) in
  let show f = Stdlib.String.concat "|" (Stdlib.List.map (fun (i, s) -> i ^ "=" ^ show_cstmt (f s)) cs) in
  Printf.sprintf "forms %s # %s" (show SurfaceSpec.expected_statement) (show Shortcuts.parse_substitution)

let () =
  match Array.to_list Sys.argv with
  | _ :: "forms" :: _ -> each_line forms_line
  | _ :: "cfg" :: _ -> each_line cfg_line
  | _ :: "walk" :: n :: _ -> each_line (walk_line (int_of_string n))
  | _ -> prerr_endline "usage: model_lift cfg | walk <n> | forms"; exit 2
