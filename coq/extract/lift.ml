(* Driver of the lift engine: reads one surface skeleton per line as an
   S-expression, prints the block list of Model.Lift.lift (desugar u) in the
   form of harness/src/bin/lift.rs, or (mode walk) the decision trees of
   Spec.CfgSpec.trace_tree / walk_tree.
     (L id) (R id) (A id) (N s..) (B s..) (W c s) (I c s) (E c s s) (F init c step body) *)
open Datatypes
open Base
open Drvlib
open Lift

type sx = Atom of string | Node of sx list

let parse_sx (s : string) : sx =
  let n = Stdlib.String.length s in
  let pos = ref 0 in
  let rec skip () = if !pos < n && s.[!pos] = ' ' then (incr pos; skip ()) in
  let rec one () =
    skip ();
    if !pos >= n then failwith "sx: eof"
    else if s.[!pos] = '(' then begin
      incr pos;
      let items = ref [] in
      let rec loop () =
        skip ();
        if !pos >= n then failwith "sx: unclosed"
        else if s.[!pos] = ')' then incr pos
        else (items := one () :: !items; loop ()) in
      loop ();
      Node (Stdlib.List.rev !items)
    end else begin
      let st = !pos in
      while !pos < n && s.[!pos] <> ' ' && s.[!pos] <> '(' && s.[!pos] <> ')' do incr pos done;
      Atom (Stdlib.String.sub s st (!pos - st))
    end in
  one ()

let num = function Atom a -> nat_of_int (int_of_string a) | _ -> failwith "sx: number expected"

let rec usk_of (x : sx) : usk =
  match x with
  | Node [Atom "L"; i] -> ULeaf (num i, false)
  | Node [Atom "R"; i] -> ULeaf (num i, true)
  | Node [Atom "A"; i] -> UCompound (num i)
  | Node (Atom "N" :: ss) -> UInit (Stdlib.List.map usk_of ss)
  | Node (Atom "B" :: ss) -> UBlock (Stdlib.List.map usk_of ss)
  | Node [Atom "W"; c; b] -> UWhile (num c, usk_of b)
  | Node [Atom "I"; c; t] -> UIf (num c, usk_of t, None)
  | Node [Atom "E"; c; t; e] -> UIf (num c, usk_of t, Some (usk_of e))
  | Node [Atom "F"; i; c; st; b] -> UFor (usk_of i, num c, usk_of st, usk_of b)
  | _ -> failwith "sx: bad skeleton"

let ints l = Stdlib.String.concat "," (Stdlib.List.map (fun n -> string_of_int (int_of_nat n)) l)

let show_item = function
  | ILeaf id -> Printf.sprintf "L%d" (int_of_nat id)
  | IBranch (c, t, f) ->
    Printf.sprintf "C%d>%d/%s" (int_of_nat c) (int_of_nat t)
      (match f with Some f -> string_of_int (int_of_nat f) | None -> "-")

let show_block b =
  Printf.sprintf "B%d d%d [%s] p[%s] s[%s]" (int_of_nat b.b_index) (int_of_nat b.b_depth)
    (Stdlib.String.concat " " (Stdlib.List.map show_item b.b_items)) (ints b.b_preds) (ints b.b_succs)

let show_graph g = Stdlib.String.concat "; " (Stdlib.List.map show_block g)

let cfg_line line =
  match lift (desugar (usk_of (parse_sx line))) with
  | Ok g -> "cfg " ^ show_graph g
  | Panic _ -> "cfg panic"
  | Err _ -> "cfg error"
  | OutOfFuel -> "cfg outoffuel"

let show_key = function
  | CfgSpec.KLeaf id -> Printf.sprintf "L%d" (int_of_nat id)
  | CfgSpec.KCond c -> Printf.sprintf "C%d" (int_of_nat c)

let show_status = function
  | CfgSpec.Running -> "E" | CfgSpec.Returned -> "R" | CfgSpec.Exhausted -> "X" | CfgSpec.Diverged -> "D"

let show_tree t =
  Stdlib.String.concat "|" (Stdlib.List.map (fun ((ds, tr), st) ->
    Printf.sprintf "%s:%s:%s"
      (Stdlib.String.concat "" (Stdlib.List.map (fun b -> if b then "1" else "0") ds))
      (Stdlib.String.concat " " (Stdlib.List.map show_key tr)) (show_status st)) t)

let walk_line n line =
  let s = desugar (usk_of (parse_sx line)) in
  let t = show_tree (CfgSpec.trace_tree (nat_of_int n) s) in
  let w = match lift s with
    | Ok g -> show_tree (CfgSpec.walk_tree (nat_of_int n) (nat_of_int 5000) g)
    | _ -> "nolift" in
  Printf.sprintf "T %s # W %s" t w

let () =
  match Array.to_list Sys.argv with
  | _ :: "cfg" :: _ -> each_line cfg_line
  | _ :: "walk" :: n :: _ -> each_line (walk_line (int_of_string n))
  | _ -> prerr_endline "usage: model_lift cfg | walk <n>"; exit 2
