(* Extraction of the signal-assignment engine (C08). *)
Require Extraction.
Require Import ExtrOcamlBasic.
Require Import Model.Base Model.Ir Model.SignalAssign.
Separate Extraction Base.base_roots Ir.cfg SignalAssign.find_signal_assignments
  SignalAssign.keys_distinct_b SignalAssign.constraint_keys_distinct_b
  SignalAssign.subkeys_distinct_b.
