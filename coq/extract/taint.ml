(* uses: lib_irwire.ml *)
(* Driver of the taint engine (C09).  Line: `new|old <cfg sexp> [<idom sexp>]`
   (`old` = the side-effect analysis before the repair of C09-single-name-constraint).
   The branch regions are COMPUTED by the mirror Model.BranchRegion.branches_of (they used to be an
   input dumped from the real Cfg) and printed as section `branches` for the comparison with the real ones;
   `ctl` = Spec.CtlDep.ctl_closed_b on the names tainted by an input/output signal (hypothesis of
   C09_noninterference_with_implicit_flows), `ctlpairs` = number of (branch block, control dependent block) pairs.
   Prints `(result (universe ..) (taint ..) (closure ..) (cons ..) (ccl ..) (constrained ..)
   (defs ..) (decls ..) (sinks ..) (findings ..) (wf 0|1) (ud 0|1) (ssa 0|1|-))` in the format of
   harness/src/bin/taint.rs (wf: ssa_wf_b; ud: nodup_v (all_defs g); ssa: ssa_check g idom, `-` without idom),
   or (outoffuel) / (panic) / (err). *)
open Datatypes
open Base
open Drvlib
open Lib_irwire
open Taint
open SideEffect

let w_vars l = Stdlib.List.map w_var l
let w_table t = Stdlib.List.map (fun (k, l) -> L (w_var k :: w_vars l)) t
let w_opt_n = function None -> A "-" | Some n -> A (string_of_int (int_of_n n))

let w_duse params d =
  let is_param = Stdlib.List.mem d.d_name params in
  if is_param then L [w_var d.d_name; A "-"; A "-"]
  else L [w_var d.d_name; A (string_of_int (int_of_n d.d_meta.Ir.m_start)); A (string_of_int (int_of_n d.d_meta.Ir.m_end))]

let w_finding f =
  let code, kind, loc = match f.f_kind with
    | FUnusedVar -> "CS0006", "unusedvar", true
    | FUnusedParam -> "CS0007", "unusedparam", false
    | FVarNoSideEffect -> "CS0008", "varnse", true
    | FParamNoSideEffect -> "CS0008", "paramnse", false
    | FUnusedSignal -> "CS0006", "unusedsig", true
    | FUnconstrainedSignal -> "CA01", "unconstrained", true in
  (* without a file id the report carries no primary label *)
  let loc = loc && f.f_meta.Ir.m_file <> None in
  L [A code; A kind; A (hex_of_ident f.f_var.Ir.vn_name);
     (if loc then A (string_of_int (int_of_n f.f_meta.Ir.m_start)) else A "-");
     (if loc then A (string_of_int (int_of_n f.f_meta.Ir.m_end)) else A "-")]

let ( >>= ) m f = match m with
  | Ok a -> f a
  | Panic _ -> "(panic)"
  | OutOfFuel -> "(outoffuel)"
  | Err _ -> "(err)"

let line l =
  let l = Stdlib.String.trim l in
  let sp = Stdlib.String.index l ' ' in
  let mode = Stdlib.String.sub l 0 sp in
  let rest = "(" ^ Stdlib.String.sub l (sp + 1) (Stdlib.String.length l - sp - 1) ^ ")" in
  let r_idom = function
    | L (A "idom" :: ds) -> Stdlib.List.map (function A "-" -> None | x -> Some (num_n x)) ds
    | x -> failwith ("idom: " ^ show_sexp x) in
  match parse_sexp rest with
  | L (c :: more) when Stdlib.List.length more <= 2 ->
    let g = r_cfg c in
    (* optional: a list headed by bset, the REAL set of names tainted by an input/output signal, on which the control
       dependence hypothesis is evaluated as well (field `ctlreal`) *)
    let real_b = Stdlib.List.find_map (function L (A "bset" :: vs) -> Some (Stdlib.List.map r_var vs) | _ -> None) more in
    let more = Stdlib.List.filter (function L (A "bset" :: _) -> false | _ -> true) more in
    BranchRegion.branches_of g >>= fun br ->
    let ssa = match more with
      | [i] -> if SsaCheck.ssa_check g (r_idom i) then "1" else "0"
      | _ -> "-" in
    run_side_effect_analysis_with (mode <> "old") g br >>= fun r ->
    let tm = r.r_taint.t_edges in
    let cm = r.r_cons in
    let u = universe g in
    table (fun x -> Ok (single_step_taint tm x)) false u >>= fun t1 ->
    table (multi_step_taint tm) true u >>= fun tc ->
    table (fun x -> Ok (single_step_constraint cm x)) false u >>= fun c1 ->
    table (multi_step_constraint cm) true u >>= fun cc ->
    show_sexp (L [A "result";
      L (A "universe" :: w_vars u);
      L (A "taint" :: w_table t1);
      L (A "closure" :: w_table tc);
      L (A "cons" :: w_table c1);
      L (A "ccl" :: w_table cc);
      L (A "constrained" :: w_vars (canon (constrained_variables cm)));
      L (A "defs" :: Stdlib.List.map (w_duse g.Ir.c_params) r.r_taint.t_defs);
      L (A "decls" :: w_vars (canon (Stdlib.List.map (fun d -> d.d_name) r.r_taint.t_decls)));
      L (A "sinks" :: w_vars (canon r.r_sinks));
      L (A "bset" :: (match exported_sinks g tm with Ok es -> w_vars (canon es) | _ -> [A "?"]));
      L (A "findings" :: Stdlib.List.map w_finding r.r_findings);
      L (A "branches" :: Stdlib.List.map (fun (i, (t, f)) ->
           L [w_opt_n (Some i); L (Stdlib.List.map (fun x -> w_opt_n (Some x)) t);
              L (Stdlib.List.map (fun x -> w_opt_n (Some x)) f)]) br);
      (* hypothesis of C09_noninterference_with_implicit_flows, evaluated on this cfg *)
      L [A "ctl"; A (match exported_sinks g tm with
                     | Ok es -> if CtlDep.ctl_closed_b g es then "1" else "0"
                     | _ -> "-")];
      L [A "ctlreal"; A (match real_b with
                         | Some b -> if CtlDep.ctl_closed_b g b then "1" else "0"
                         | None -> "-")];
      L [A "dfmax"; A (match BranchRegion.start_frontier_max g with Ok n -> string_of_int (int_of_nat n) | _ -> "-")];
      L [A "ctlpairs"; A (string_of_int (Stdlib.List.length (CtlDep.ctl_pairs g)))];
      (* hypotheses of C09_noninterference, evaluated on this cfg (model side only) *)
      L [A "wf"; A (if ssa_wf_b g then "1" else "0")];
      (* hypotheses of C09_location_is_unique_definition(_nodup), evaluated on this cfg *)
      L [A "ud"; A (if SsaCheck.nodup_v (SsaCheck.all_defs g) then "1" else "0")];
      L [A "ssa"; A ssa]])
  | _ -> "(badline)"

let () = each_line line
