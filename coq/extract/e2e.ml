(* Driver of the e2e engine: integer-token I/O around the extracted
   Model.Runner.  One case per line:

     <level 0..2> <verbose 0/1> <sarif 0/1> <nallow> id..  <nuser> file..
     <nparse> R..  <ndefs> D..  <norder> (kind name)..
     R = level id name payload npf file..
     D = kind name file nlift R.. haserr [R] npass R.. nlookups name..

   Output: shown <payloads> | log <msgs> | exit e | summary n | sarif (- | payloads) | rules name:id.. *)
open Datatypes
open BinNums
open Drvlib

let toks : int array ref = ref [||]
let pos = ref 0
let next () = let v = !toks.(!pos) in incr pos; v
let rec times n f = if n <= 0 then [] else let x = f () in x :: times (n - 1) f
let zlist () = let n = next () in times n (fun () -> z_of_int (next ()))

let level_of = function 0 -> Category.Info | 1 -> Category.Warning | _ -> Category.Error
let kind_of = function 0 -> Runner.KFunction | _ -> Runner.KTemplate
let int_of_kind = function Runner.KFunction -> 0 | Runner.KTemplate -> 1

let report () =
  let lv = level_of (next ()) in
  let id = z_of_int (next ()) in
  let name = z_of_int (next ()) in
  let payload = z_of_int (next ()) in
  let pf = zlist () in
  { Runner.r_level = lv; r_id = id; r_name = name; r_pfiles = pf; r_payload = payload }
let reports () = let n = next () in times n report

let def () =
  let k = kind_of (next ()) in
  let name = z_of_int (next ()) in
  let file = z_of_int (next ()) in
  let lift = reports () in
  let err = if next () = 1 then Some (report ()) else None in
  let pass = reports () in
  let looks = zlist () in
  { Runner.d_kind = k; d_name = name; d_file = file; d_lift = lift; d_err = err; d_pass = pass; d_lookups = looks }

let payloads rs = Stdlib.String.concat " " (Stdlib.List.map (fun r -> string_of_int (int_of_z r.Runner.r_payload)) rs)

let show_msg = function
  | Runner.MAnalyzing (k, n) -> Printf.sprintf "A%d:%d" (int_of_kind k) (int_of_z n)
  | Runner.MSarifWritten -> "W"
  | Runner.MSummary n -> Printf.sprintf "S%d" (int_of_nat n)

let run_line line =
  let ws = Stdlib.List.filter (fun s -> s <> "") (Stdlib.String.split_on_char ' ' (Stdlib.String.trim line)) in
  toks := Array.of_list (Stdlib.List.map int_of_string ws);
  pos := 0;
  let lv = level_of (next ()) in
  let verbose = next () = 1 in
  let sarif = next () = 1 in
  let allow = zlist () in
  let user = zlist () in
  let parse = reports () in
  let ndefs = next () in
  let defs = times ndefs def in
  let norder = next () in
  let order = times norder (fun () -> let k = kind_of (next ()) in let n = z_of_int (next ()) in (k, n)) in
  let p = { Runner.p_parse = parse; p_defs = defs; p_user = user } in
  let o = { Runner.o_level = lv; o_allow = allow; o_verbose = verbose; o_sarif = sarif } in
  let r = Runner.run_keys p o order in
  let sarif_s, rules_s = match r.Runner.res_sarif with
    | None -> "-", ""
    | Some (rs, rules) ->
      payloads rs,
      Stdlib.String.concat " " (Stdlib.List.map (fun (n, i) -> Printf.sprintf "%d:%d" (int_of_z n) (int_of_z i)) rules) in
  Printf.sprintf "shown %s | log %s | exit %d | summary %d | sarif %s | rules %s"
    (payloads r.Runner.res_shown)
    (Stdlib.String.concat " " (Stdlib.List.map show_msg r.Runner.res_log))
    (int_of_z r.Runner.res_exit) (int_of_nat r.Runner.res_summary) sarif_s rules_s

(* library <nsrcs> D..  -> the keys and payload-tags (d_file) of the map built, and the KF flag *)
let library_line line =
  let ws = Stdlib.List.filter (fun s -> s <> "") (Stdlib.String.split_on_char ' ' (Stdlib.String.trim line)) in
  toks := Array.of_list (Stdlib.List.map int_of_string ws);
  pos := 0;
  let n = next () in
  let srcs = times n def in
  let m = Runner.build_library srcs in
  Printf.sprintf "kf %b | %s" (Runner.coq_KF_duplicate_definition_b srcs)
    (Stdlib.String.concat " " (Stdlib.List.map (fun d ->
       Printf.sprintf "%d:%d@%d" (int_of_kind d.Runner.d_kind) (int_of_z d.Runner.d_name) (int_of_z d.Runner.d_file)) m))

let () =
  match Array.to_list Sys.argv with
  | _ :: "run" :: _ -> each_line (fun l -> try run_line l with e -> "bad-line " ^ Printexc.to_string e)
  | _ :: "library" :: _ -> each_line (fun l -> try library_line l with e -> "bad-line " ^ Printexc.to_string e)
  | _ -> prerr_endline "usage: model_e2e run|library"; exit 2
