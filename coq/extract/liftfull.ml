(* uses: lib_irwire.ml lib_astwire.ml *)
(* Driver of the liftfull engine.  Input line: the DEF field printed by
   harness/src/bin/liftfull.rs,
     (def KIND NAME (params P ..) FILE|- START END <body>)
   Output (tab separated):
     <what Model.LiftFull.try_lift_impl returns, in the text of the harness' RES field>
     WF <0|1>      Model.LiftFull.definition_wf on this input
     SK <0|1|->    the two sides of the skeleton-agreement theorem are equal (`-`: lifting did not succeed)
     PV <0|1|->    statement provenance: the metas of the lifted statements in block order are the metas of
                   LiftFull.lifted_stmts of the renamed body
     SD <0|1>      C08: SigAssignSource.source_metas_distinct_b, the hypothesis of
                   C08_liftfull_distinct_sources_distinct_subkeys on this input
     SN <n>        C08: number of `<--` / `-->` statements of the input
     SKD <0|1|->   C08: the conclusion of that theorem, subkeys_distinct_b of the erased graph
     MD <0|1>      C13: no two statements that become IR statements share a meta
     DS <0|1>      C12: desugared_shape of the skeleton (hypothesis of C12_lift_never_panics)
     PS <0|1>      C12: parser_shaped of the skeleton (the narrower hypothesis that theorem used to have)
     TT <tree>     C13 (only with arguments `tt <n>`): Spec.CfgSpec.trace_tree n of the skeleton of the body
   Only structural decoding/encoding here; everything with logic is extracted Gallina. *)
open Datatypes
open BinNums
open Drvlib
open Base

let ostr = Lib_astwire.ostr
let hexs_ir (s : Stdlib.String.t) =
  if s = "" then "e" else
  Stdlib.String.concat "" (Stdlib.List.map (fun c -> Printf.sprintf "%02x" (Char.code c))
                             (Stdlib.List.init (Stdlib.String.length s) (Stdlib.String.get s)))
let cat = Stdlib.String.concat
let si = string_of_int
let optn = function None -> "-" | Some f -> si (int_of_n f)

let s_var v = Lib_irwire.show_sexp (Lib_irwire.w_var v)
let s_meta (m : Ir.meta) = Printf.sprintf "(m %d %d %s)" (int_of_n m.Ir.m_start) (int_of_n m.Ir.m_end) (optn m.Ir.m_file)
let s_infix op = Lib_irwire.rassoc Lib_irwire.infix_names op
let s_prefix op = Lib_irwire.rassoc Lib_irwire.prefix_names op

let rec s_expr (e : LiftFull.xexpr) =
  match e with
  | LiftFull.XNum (m, z) -> Printf.sprintf "(num %s %s)" (s_meta m) (hex_of_z z)
  | LiftFull.XVar (m, v) -> Printf.sprintf "(var %s %s)" (s_meta m) (s_var v)
  | LiftFull.XInfix (m, op, l, r) -> Printf.sprintf "(infix %s %s %s %s)" (s_meta m) (s_infix op) (s_expr l) (s_expr r)
  | LiftFull.XPrefix (m, op, x) -> Printf.sprintf "(prefix %s %s %s)" (s_meta m) (s_prefix op) (s_expr x)
  | LiftFull.XSwitch (m, c, t, f) -> Printf.sprintf "(switch %s %s %s %s)" (s_meta m) (s_expr c) (s_expr t) (s_expr f)
  | LiftFull.XCall (m, n, args) -> Printf.sprintf "(call %s %s %s)" (s_meta m) (hexs_ir (ostr n)) (s_exprs args)
  | LiftFull.XArray (m, vs) -> Printf.sprintf "(array %s %s)" (s_meta m) (s_exprs vs)
  | LiftFull.XAccess (m, v, acc) -> Printf.sprintf "(access %s %s %s)" (s_meta m) (s_var v) (s_acc acc)
  | LiftFull.XUpdate (m, v, acc, r) -> Printf.sprintf "(update %s %s %s %s)" (s_meta m) (s_var v) (s_acc acc) (s_expr r)
and s_exprs es = "(" ^ cat " " (Stdlib.List.map s_expr es) ^ ")"
and s_acc acc =
  "(" ^ cat " " (Stdlib.List.map (function
      | Ir.AIdx e -> Printf.sprintf "(idx %s)" (s_expr e)
      | Ir.AComp n -> Printf.sprintf "(comp %s)" (Lib_irwire.hex_of_ident n)) acc) ^ ")"

let s_type ((t, tags) : LiftFull.xtype) =
  let base = Lib_irwire.rassoc Lib_irwire.vtype_names t in
  match t with
  | Ir.TSigIn | Ir.TSigOut | Ir.TSigInt ->
    "(" ^ base ^ cat "" (Stdlib.List.map (fun x -> " " ^ hexs_ir (ostr x)) tags) ^ ")"
  | _ -> base

let s_optnat = function None -> "-" | Some x -> si (int_of_nat x)

let s_stmt (s : LiftFull.xstmt) =
  match s with
  | LiftFull.XDecl (m, names, t, dims) ->
    Printf.sprintf "(decl %s (%s) %s %s)" (s_meta m) (cat " " (Stdlib.List.map s_var names)) (s_type t) (s_exprs dims)
  | LiftFull.XIf (m, c, t, f) -> Printf.sprintf "(if %s %s %d %s)" (s_meta m) (s_expr c) (int_of_nat t) (s_optnat f)
  | LiftFull.XRet (m, e) -> Printf.sprintf "(ret %s %s)" (s_meta m) (s_expr e)
  | LiftFull.XSubst (m, v, op, rhe, st) ->
    Printf.sprintf "(subst %s %s %s %s %s)" (s_meta m) (s_var v) (Lib_irwire.rassoc Lib_irwire.op_names op) (s_expr rhe)
      (match st with None -> "-" | Some t -> s_type t)
  | LiftFull.XCeq (m, l, r) -> Printf.sprintf "(ceq %s %s %s)" (s_meta m) (s_expr l) (s_expr r)
  | LiftFull.XLog (m, args) ->
    Printf.sprintf "(log %s (%s))" (s_meta m)
      (cat " " (Stdlib.List.map (function
           | LiftFull.XLStr s -> Printf.sprintf "(str %s)" (hexs_ir (ostr s))
           | LiftFull.XLExpr e -> Printf.sprintf "(e %s)" (s_expr e)) args))
  | LiftFull.XAssert (m, e) -> Printf.sprintf "(assert %s %s)" (s_meta m) (s_expr e)

let s_nats l = "(" ^ cat " " (Stdlib.List.map (fun x -> si (int_of_nat x)) l) ^ ")"

let s_block (b : LiftFull.xblock) =
  Printf.sprintf "(block %s %d %d (%s) %s %s)" (s_meta b.LiftFull.xb_meta) (int_of_nat b.LiftFull.xb_index)
    (int_of_nat b.LiftFull.xb_depth) (cat " " (Stdlib.List.map s_stmt b.LiftFull.xb_stmts))
    (s_nats b.LiftFull.xb_preds) (s_nats b.LiftFull.xb_succs)

let s_loc ((a, b) : LiftFull.floc) = Printf.sprintf "%d %d" (int_of_n a) (int_of_n b)

let s_decl (d : LiftFull.xdeclaration) =
  Printf.sprintf "(%s %s %s %s %s)" (s_var d.LiftFull.xd_name) (s_type d.LiftFull.xd_type) (s_exprs d.LiftFull.xd_dims)
    (optn d.LiftFull.xd_file) (s_loc d.LiftFull.xd_loc)

let s_kind = function Ir.KFunction -> "function" | Ir.KTemplate -> "template" | Ir.KCustom -> "custom"

let s_xcfg (c : LiftFull.xcfg) =
  Printf.sprintf "(xcfg %s (params %s) %s %s (decls %s) (blocks %s))" (s_kind c.LiftFull.xc_kind)
    (cat " " (Stdlib.List.map s_var c.LiftFull.xc_params)) (optn c.LiftFull.xc_pfile) (s_loc c.LiftFull.xc_ploc)
    (cat " " (Stdlib.List.sort compare (Stdlib.List.map s_decl c.LiftFull.xc_decls)))
    (cat " " (Stdlib.List.map s_block c.LiftFull.xc_blocks))

(* the erased form in the text of irdump::cfg: declarations sorted as the harness sorts them *)
let s_cfg (c : Ir.cfg) =
  let open Lib_irwire in
  let decls = Stdlib.List.sort compare (Stdlib.List.map (fun (v, t) -> show_sexp (L [w_var v; w_vtype t])) c.Ir.c_decls) in
  Printf.sprintf "(cfg %s (params %s) (decls %s) (blocks %s))" (s_kind c.Ir.c_kind)
    (cat " " (Stdlib.List.map s_var c.Ir.c_params)) (cat " " decls)
    (cat " " (Stdlib.List.map (fun b -> show_sexp (w_block b)) c.Ir.c_blocks))

(* a report of Model.LiftFullReport (CFGError::into_report mirrored in Gallina: code, message, labels) in the
   text of the harness' report_line; only printing here *)
let s_report (r : LiftFullReport.report) =
  Printf.sprintf "(rep %s %s%s)" (ostr r.LiftFullReport.rp_code) (hexs_ir (ostr r.LiftFullReport.rp_message))
    (cat "" (Stdlib.List.map (fun (l : LiftFullReport.label) ->
         Printf.sprintf " (%s %s %d)" (if l.LiftFullReport.lb_primary then "p" else "s") (s_loc l.LiftFullReport.lb_loc)
           (int_of_n l.LiftFullReport.lb_file)) r.LiftFullReport.rp_labels))

(* the key of the skeleton cross-check and of the trace / walk oracle: Model.LiftFullReport.positional_key, the position
   of the first statement of the body carrying the meta (small numbers; injective on the statement metas of the body:
   C13_positional_key_injective) *)

(* ---- trace tree of the SOURCE skeleton (Spec.CfgSpec.trace_tree), ids printed as start_end of the meta ---- *)
let show_status = function
  | CfgSpec.Running -> "E" | CfgSpec.Returned -> "R" | CfgSpec.Exhausted -> "X" | CfgSpec.Diverged -> "D"

let show_tree (metas : Ir.meta list) t =
  let name k =
    match Stdlib.List.nth_opt metas (int_of_nat k) with
    | Some m -> Printf.sprintf "%d_%d" (int_of_n m.Ir.m_start) (int_of_n m.Ir.m_end)
    | None -> "?" in
  let show_key = function
    | CfgSpec.KLeaf id -> "L" ^ name id
    | CfgSpec.KCond c -> "C" ^ name c in
  cat "|" (Stdlib.List.map (fun ((ds, tr), st) ->
      Printf.sprintf "%s:%s:%s" (cat "" (Stdlib.List.map (fun b -> if b then "1" else "0") ds))
        (cat " " (Stdlib.List.map show_key tr)) (show_status st)) t)

let decode line =
  let open Lib_astwire in
  match parse_sx line with
  | L [A "def"; A kind; _; L (A "params" :: ps); file; A s; A e; body] ->
    let kind = (match kind with "function" -> Ir.KFunction | "template" -> Ir.KTemplate | "custom" -> Ir.KCustom | _ -> bad "kind") in
    let pfile = (match file with A "-" -> None | A f -> Some (n_of_int (int_of_string f)) | _ -> bad "file") in
    (kind, Stdlib.List.map d_name ps, pfile, (n_of_int (int_of_string s), n_of_int (int_of_string e)), d_stmt body)
  | _ -> bad "def"

let b01 b = if b then "1" else "0"

let tt_bound = ref None

let line l =
  let (kind, params, pfile, ploc, body) = decode (Stdlib.String.trim l) in
  let key = LiftFullReport.positional_key body in
  let wf = LiftFull.definition_wf params pfile ploc body in
  let res = LiftFull.try_lift_impl kind params pfile ploc body in
  let sd = SigAssignSource.source_metas_distinct_b body in
  let sn = Stdlib.List.length (SigAssignSource.source_signal_assignments body) in
  let skd = (match res with Ok r -> b01 (SignalAssign.subkeys_distinct_b (LiftFull.erase_cfg r.LiftFull.l_cfg)) | _ -> "-") in
  let out, sk, pv =
    match res with
    | Ok r ->
      let c = r.LiftFull.l_cfg in
      let text =
        Printf.sprintf "(ok X %s C %s R (reports%s))" (s_xcfg c) (s_cfg (LiftFull.erase_cfg c))
          (cat "" (Stdlib.List.map (fun x -> " " ^ s_report (LiftFullReport.shadow_to_report x)) r.LiftFull.l_reports)) in
      (* the renamed body, as try_lift_impl computes it *)
      let renamed = (match LiftFull.ensure_unique_variables params pfile ploc body with Ok u -> Some (fst u) | _ -> None) in
      let sk =
        (match renamed with
         | Some rb ->
           (match Lift.lift (LiftFull.skel key rb) with
            | Ok g -> b01 (g = Stdlib.List.map (LiftFull.skel_block key) c.LiftFull.xc_blocks)
            | _ -> "0")
         | None -> "0") in
      let pv =
        (match renamed with
         | Some rb ->
           b01 (Stdlib.List.map LiftFull.xstmt_meta (LiftFull.graph_stmts c.LiftFull.xc_blocks)
                = Stdlib.List.map (fun s -> LiftFull.lift_meta (Ast.stmt_meta s)) (LiftFull.lifted_stmts rb))
         | None -> "0") in
      (text, sk, pv)
    | Err e ->
      ((match e with
        | EOther (Zpos Coq_xH) -> "(err invalid-name)"
        | EOther (Zpos (Coq_xO Coq_xH)) ->
          (* name, file and location of the error: Model.LiftFullReport.param_collision_report *)
          (match LiftFullReport.param_collision_report params pfile ploc with
           | Some rep -> "(err param-collision " ^ s_report rep ^ ")"
           | None -> "(err param-collision (no-collision-in-the-mirror))")
        | _ -> "(err other)"), "-", "-")
    | Panic s -> (Printf.sprintf "(panic) site %d" (int_of_z s), "-", "-")
    | OutOfFuel -> ("(outoffuel)", "-", "-") in
  (* third audit: MD = no two statements that become IR statements share a meta (LiftFullReport.stmt_metas_distinct_b);
     DS = the hypothesis of C12_lift_never_panics on this body, Proofs.LiftTotalFlat.desugared_shape of its skeleton,
     decided by LiftFull.is_block && LiftFull.ast_init_flat (C12_desugared_shape_decided);
     PS = the narrower shape Spec.CfgSpec.parser_shaped the theorem used to assume (init_ok of the skeleton) *)
  let md = LiftFullReport.stmt_metas_distinct_b body in
  let ds = LiftFull.is_block body && LiftFull.ast_init_flat body in
  let ps = LiftFull.is_block body && CfgSpec.init_ok (LiftFull.skel key body) in
  (* TT (only when the driver is started as `model_liftfull tt <n>`): the decision tree of the structured semantics of
     the SOURCE skeleton under every decision list up to length n (Spec.CfgSpec.trace_tree), for the walk oracle of C13 *)
  let tt = (match !tt_bound with
      | Some n when LiftFull.is_block body ->
        "\tTT " ^ show_tree (LiftFullReport.stmt_ir_metas body) (CfgSpec.trace_tree (nat_of_int n) (LiftFull.skel key body))
      | _ -> "") in
  Printf.sprintf "%s\tWF %s\tSK %s\tPV %s\tSD %s\tSN %d\tSKD %s\tMD %s\tDS %s\tPS %s%s" out (b01 wf) sk pv (b01 sd) sn skd
    (b01 md) (b01 ds) (b01 ps) tt

(* mode `c12` (fourth audit): a line is `<irdump::cfg before into_ssa>\t<irdump::cfg after into_ssa | ->`, the two REAL
   graphs printed by the harness (mode `c12`).  Output: the extracted decisions of Model.IrCfgCheck / Model.SsaPre
     PF <0|1>            SsaPre.phi_free of the graph before (hypothesis of C12_ssa_blocks_are_phis_then_image / _ssa_keeps_wf)
     WFB <0|1> <bits>    IrCfgCheck.cfg_wf_b of the graph before, and its eight clauses in order
     WFA <0|1|-> <bits>  the same of the graph after
     SH <0|1|->          IrCfgCheck.ssa_shape_b before after (IrCfgSpec.ssa_shape_of) *)
let c12_line l =
  match Stdlib.String.split_on_char '\t' l with
  | [pre; post] ->
    let rd t = Lib_irwire.r_cfg (Lib_irwire.parse_sexp t) in
    let bits c = cat "" (Stdlib.List.map b01 (IrCfgCheck.cfg_wf_clauses c)) in
    let c = rd pre in
    let after = if Stdlib.String.trim post = "-" then None else Some (rd post) in
    Printf.sprintf "PF %s\tWFB %s %s\tWFA %s\tSH %s" (b01 (SsaPre.phi_free c)) (b01 (IrCfgCheck.cfg_wf_b c)) (bits c)
      (match after with Some c' -> b01 (IrCfgCheck.cfg_wf_b c') ^ " " ^ bits c' | None -> "- -")
      (match after with Some c' -> b01 (IrCfgCheck.ssa_shape_b c c') | None -> "-")
  | _ -> "(driver-error c12: two tab-separated fields expected)"

let () =
  (match Array.to_list Sys.argv with
   | _ :: "tt" :: n :: _ -> tt_bound := Some (int_of_string n)
   | _ -> ());
  if (match Array.to_list Sys.argv with _ :: "c12" :: _ -> true | _ -> false) then
    each_line (fun l -> try c12_line l with Failure m -> "(driver-error " ^ m ^ ")" | Not_found -> "(driver-error not-found)")
  else
  each_line (fun l -> try line l with Failure m -> "(driver-error " ^ m ^ ")" | Not_found -> "(driver-error not-found)")
