(* Extraction of the desugar engine (C18).  Only ExtrOcamlBasic is used:
   strings stay Coq [string]s (lists of [ascii]), numbers Coq binary numbers. *)
Require Extraction.
Require Import ExtrOcamlBasic.
From Coq Require Import List String.
Require Import Model.Base Model.Ast Model.Desugar Spec.ExpandSpec.

(* the specification instantiated with the naming scheme of the implementation *)
Definition name_opt (lib : list (list BinNums.N)) (prefix : string) (m : meta) : option string :=
  match Desugar.gen_name lib prefix m with Desugar.DOk s => Some s | _ => None end.
Definition spec_templates (lib : list (list BinNums.N)) (ts : list (string * statement))
  : list (string * option statement) :=
  map (fun t => (fst t, ExpandSpec.expand_spec (ExpandSpec.sig_table ts) (name_opt lib)
                          (name_opt lib "anon_var"%string) (snd t))) ts.

Separate Extraction Base.base_roots Desugar.remove_syntactic_sugar Desugar.msg_text Desugar.label_text Desugar.template_info_of spec_templates.
