(* Driver of the field engine: byte I/O around the extracted Model.Field /
   Spec.FieldSpec, same line format as harness/src/bin/field.rs. *)
open Datatypes
open BinNums
open Base
open Drvlib

(* ---- field engine ---- *)
let fop_names = ["add"; "mul"; "sub"; "div"; "idiv"; "mod"; "pow"; "neg"; "compl"; "shl"; "shr";
                 "bor"; "band"; "bxor"; "asbool"; "not"; "or"; "and"; "eq"; "lt"; "neq"; "le"; "gt"; "ge"]
let fop_table = Stdlib.List.combine fop_names Field.all_fops

let show_outcome = function
  | Ok v -> "ok " ^ hex_of_z v
  | Err EDivisionByZero -> "err div0"
  | Err EBitOverflow -> "err shift"
  | Err (EOther _) -> "err other"
  | Panic _ -> "panic"
  | OutOfFuel -> "outoffuel"

let field_line spec line =
  match Stdlib.String.split_on_char ' ' (Stdlib.String.trim line) with
  | [op; a; b; p] ->
    let r = match Stdlib.List.assoc_opt op fop_table with
      | Some o -> show_outcome ((if spec then FieldSpec.spec_exec else Field.eval) o (z_of_hex a) (z_of_hex b) (z_of_hex p))
      | None -> "unknown-op" in
    Printf.sprintf "%s %s %s %s = %s" op a b p r
  | _ -> "bad-line"

let field_sweep spec p =
  let pz = z_of_int p in
  Stdlib.List.iter (fun (name, o) ->
    for a = 0 to p - 1 do
      for b = 0 to p - 1 do
        Printf.printf "%s %x %x %x = %s\n" name a b p (show_outcome ((if spec then FieldSpec.spec_exec else Field.eval) o (z_of_int a) (z_of_int b) pz))
      done
    done) fop_table

let () =
  match Array.to_list Sys.argv with
  | _ :: "mirror" :: _ -> each_line (field_line false)
  | _ :: "spec" :: _ -> each_line (field_line true)
  | _ :: "mirror-sweep" :: ps -> Stdlib.List.iter (fun p -> field_sweep false (int_of_string p)) ps
  | _ :: "spec-sweep" :: ps -> Stdlib.List.iter (fun p -> field_sweep true (int_of_string p)) ps
  | _ -> prerr_endline "usage: model_field mirror|spec|mirror-sweep|spec-sweep"; exit 2
