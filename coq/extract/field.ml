(* Driver of the field engine: byte I/O around the extracted Model.Field /
   Spec.FieldSpec, same line format as harness/src/bin/field.rs. *)
open Datatypes
open BinNums
open Base
open Drvlib

(* ---- field engine ---- *)
let fop_names = ["add"; "mul"; "sub"; "div"; "idiv"; "mod"; "pow"; "neg"; "compl"; "shl"; "shr";
                 "bor"; "band"; "bxor"; "asbool"; "not"; "or"; "and"; "eq"; "lt"; "neq"; "le"; "gt"; "ge"]
let fop_table = Stdlib.List.combine fop_names Field.all_fops

let show_outcome = function
  | Ok v -> "ok " ^ hex_of_z v
  | Err EDivisionByZero -> "err div0"
  | Err EBitOverflow -> "err shift"
  | Err (EOther _) -> "err other"
  | Panic _ -> "panic"
  | OutOfFuel -> "outoffuel"

let field_line spec line =
  match Stdlib.String.split_on_char ' ' (Stdlib.String.trim line) with
  | [op; a; b; p] ->
    let r = match Stdlib.List.assoc_opt op fop_table with
      | Some o -> show_outcome ((if spec then FieldSpec.spec_exec else Field.eval) o (z_of_hex a) (z_of_hex b) (z_of_hex p))
      | None -> "unknown-op" in
    Printf.sprintf "%s %s %s %s = %s" op a b p r
  | _ -> "bad-line"

let field_sweep spec p =
  let pz = z_of_int p in
  Stdlib.List.iter (fun (name, o) ->
    for a = 0 to p - 1 do
      for b = 0 to p - 1 do
        Printf.printf "%s %x %x %x = %s\n" name a b p (show_outcome ((if spec then FieldSpec.spec_exec else Field.eval) o (z_of_int a) (z_of_int b) pz))
      done
    done) fop_table

(* ---- dispatch: closed expressions over literals ----
   line: `<p hex> <tokens>` with  E := n HEX | i OP E E | p OP E  (prefix form);
   output: the tree with the constant attached to every node, as harness/src/bin/field.rs prints it *)
let infix_table = [ "mul", Ir.IMul; "div", Ir.IDiv; "add", Ir.IAdd; "sub", Ir.ISub; "pow", Ir.IPow;
  "idiv", Ir.IIntDiv; "mod", Ir.IMod; "shl", Ir.IShl; "shr", Ir.IShr; "le", Ir.ILe; "ge", Ir.IGe;
  "lt", Ir.ILt; "gt", Ir.IGt; "eq", Ir.IEq; "neq", Ir.INeq; "or", Ir.IOr; "and", Ir.IAnd;
  "bor", Ir.IBor; "band", Ir.IBand; "bxor", Ir.IBxor ]
let prefix_table = [ "not", Ir.PNot; "neg", Ir.PNeg; "compl", Ir.PCompl ]
let name_of tbl o = fst (Stdlib.List.find (fun (_, x) -> x = o) tbl)

let rec parse_lexpr = function
  | "n" :: h :: rest -> (FieldDispatch.LNum (z_of_hex h), rest)
  | "i" :: op :: rest ->
    let (l, rest) = parse_lexpr rest in
    let (r, rest) = parse_lexpr rest in
    (FieldDispatch.LInfix (Stdlib.List.assoc op infix_table, l, r), rest)
  | "p" :: op :: rest ->
    let (x, rest) = parse_lexpr rest in
    (FieldDispatch.LPrefix (Stdlib.List.assoc op prefix_table, x), rest)
  | _ -> failwith "lexpr"

let show_vred = function
  | None -> "-"
  | Some (Ir.VBool b) -> if b then "(b 1)" else "(b 0)"
  | Some (Ir.VField z) -> "(f " ^ hex_of_z z ^ ")"

let rec show_expr e =
  let v = show_vred (Ir.expr_val e) in
  match e with
  | Ir.ENum (z, _) -> Printf.sprintf "(num %s %s)" (hex_of_z z) v
  | Ir.EInfix (op, l, r, _) -> Printf.sprintf "(infix %s %s %s %s)" (name_of infix_table op) (show_expr l) (show_expr r) v
  | Ir.EPrefix (op, x, _) -> Printf.sprintf "(prefix %s %s %s)" (name_of prefix_table op) (show_expr x) v
  | _ -> Printf.sprintf "(other %s)" v

let fault = function
  | Err EDivisionByZero -> "err div0"
  | Err EBitOverflow -> "err shift"
  | Err (EOther _) -> "err other"
  | Panic _ -> "panic"
  | OutOfFuel -> "outoffuel"
  | Ok _ -> "ok"

(* mode: 0 = pass-loop mirror (annotated tree), 1 = bottom-up dispatch (root constant), 2 = documented value *)
let dispatch_line mode line =
  match Stdlib.String.split_on_char ' ' (Stdlib.String.trim line) with
  | p :: toks ->
    let pz = z_of_hex p in
    let r = match parse_lexpr toks with
      | exception _ -> "bad-line"
      | (e, []) ->
        (match mode with
         | 0 -> (match FieldDispatch.propagate_lit pz e with Ok e' -> show_expr e' | o -> fault o)
         | 1 -> (match FieldDispatch.lit_dispatch pz e with Ok v -> show_vred v | o -> fault o)
         | _ -> (match DispatchSpec.doc_eval pz e with Ok v -> "ok " ^ hex_of_z v | o -> fault o))
      | _ -> "bad-line" in
    Printf.sprintf "%s = %s" p r
  | _ -> "bad-line"

(* ---- `pow a e p`: value and number of modular multiplications of the windowed exponentiation ---- *)
let pow_steps_line line =
  match Stdlib.String.split_on_char ' ' (Stdlib.String.trim line) with
  | [op; a; b; p] ->
    let r = match FieldPow.modpow_steps (z_of_hex a) (z_of_hex b) (z_of_hex p) with
      | Ok (v, c) -> Printf.sprintf "ok %s steps %d" (hex_of_z v) (int_of_z c)
      | o -> fault o in
    Printf.sprintf "%s %s %s %s = %s" op a b p r
  | _ -> "bad-line"

(* ---- `shl|shr l r p`: the recursion as written (Field.shift_w, fuel 64) with its work record ---- *)
let shift_work_line line =
  match Stdlib.String.split_on_char ' ' (Stdlib.String.trim line) with
  | [op; a; b; p] when op = "shl" || op = "shr" ->
    let (res, w) = Field.shift_w (nat_of_int 64) (op = "shl") (z_of_hex a) (z_of_hex b) (z_of_hex p) in
    let built = match w.Field.sw_built with Some k -> hex_of_z k | None -> "-" in
    Printf.sprintf "%s %s %s %s = %s calls %d built %s bits %d" op a b p (show_outcome res)
      (int_of_nat w.Field.sw_calls) built (int_of_z w.Field.sw_bits)
  | _ -> "bad-line"

let () =
  match Array.to_list Sys.argv with
  | _ :: "pow-steps" :: _ -> each_line pow_steps_line
  | _ :: "shift-work" :: _ -> each_line shift_work_line
  | _ :: "dispatch-loop" :: _ -> each_line (dispatch_line 0)
  | _ :: "dispatch" :: _ -> each_line (dispatch_line 1)
  | _ :: "dispatch-doc" :: _ -> each_line (dispatch_line 2)
  | _ :: "mirror" :: _ -> each_line (field_line false)
  | _ :: "spec" :: _ -> each_line (field_line true)
  | _ :: "mirror-sweep" :: ps -> Stdlib.List.iter (fun p -> field_sweep false (int_of_string p)) ps
  | _ :: "spec-sweep" :: ps -> Stdlib.List.iter (fun p -> field_sweep true (int_of_string p)) ps
  | _ -> prerr_endline "usage: model_field mirror|spec|mirror-sweep|spec-sweep"; exit 2
