(* Driver of the includes engine (C19): reads one project per line (abstract
   file system data, see lib/props/C19.py `abstract`), calls the extracted
   Model.Includes.run_project, prints the result as one JSON line in the form
   lib/props/C19.py `normalise` gives to the implementation's result.

   line:  argv \t libs \t canon \t dirs \t files \t contents        ("-" = empty list)
     argv, libs : p;p;...
     canon      : spelling,canonical|-;...
     dirs       : spelling,name,name,...;...
     files      : canonical paths that are regular files, p;p;...
     contents   : path,U | path,E | path,P,inc@start@end,...;...
   mode "run": current code; mode "run-d23": the code before the C19-D23 repair. *)
open Datatypes
open Base
open Drvlib

let cstring (s : string) : Ascii.ascii list =
  Stdlib.List.init (Stdlib.String.length s) (fun i ->
      let c = Char.code (Stdlib.String.get s i) in
      let b k = c land (1 lsl k) <> 0 in
      Ascii.Ascii (b 0, b 1, b 2, b 3, b 4, b 5, b 6, b 7))

let ostring (s : Ascii.ascii list) : string =
  let buf = Buffer.create 32 in
  Stdlib.List.iter (fun (Ascii.Ascii (b0, b1, b2, b3, b4, b5, b6, b7)) ->
      let v l = Stdlib.List.fold_right (fun b a -> 2 * a + (if b then 1 else 0)) l 0 in
      Buffer.add_char buf (Char.chr (v [b0; b1; b2; b3; b4; b5; b6; b7]))) s;
  Buffer.contents buf

let split c s = if s = "-" || s = "" then [] else Stdlib.String.split_on_char c s

let parse_line line =
  match Stdlib.String.split_on_char '\t' line with
  | [argv; libs; canon; dirs; files; contents] ->
    let canon = Stdlib.List.map (fun e ->
        match Stdlib.String.split_on_char ',' e with
        | [k; "-"] -> (cstring k, None)
        | [k; v] -> (cstring k, Some (cstring v))
        | _ -> failwith "canon") (split ';' canon) in
    let dirs = Stdlib.List.map (fun e ->
        match Stdlib.String.split_on_char ',' e with
        | k :: names -> (cstring k, Stdlib.List.map cstring names)
        | [] -> failwith "dirs") (split ';' dirs) in
    let contents = Stdlib.List.map (fun e ->
        match Stdlib.String.split_on_char ',' e with
        | [k; "U"] -> (cstring k, Includes.Unreadable)
        | [k; "E"] -> (cstring k, Includes.Unparsable)
        | k :: "P" :: incs ->
          (cstring k, Includes.Parsed (Stdlib.List.map (fun i ->
               match Stdlib.String.split_on_char '@' i with
               | [p; s; e] -> ((cstring p, nat_of_int (int_of_string s)), nat_of_int (int_of_string e))
               | _ -> failwith "include") incs))
        | _ -> failwith "contents") (split ';' contents) in
    ({ Includes.fs_canon = canon; fs_dirs = dirs; fs_files = Stdlib.List.map cstring (split ';' files); fs_content = contents },
     Stdlib.List.map cstring (split ';' argv), Stdlib.List.map cstring (split ';' libs))
  | _ -> failwith "fields"

let q s = "\"" ^ ostring s ^ "\""

let show_report = function
  | Includes.FileOsError p -> Printf.sprintf "[\"os\", %s]" (q p)
  | Includes.IncludeError (p, Some fid, s, e) ->
    Printf.sprintf "[\"inc\", %s, %d, %d, %d]" (q p) (int_of_nat fid) (int_of_nat s) (int_of_nat e)
  | Includes.IncludeError (p, None, _, _) -> Printf.sprintf "[\"inc-nolabel\", %s]" (q p)
  | Includes.ParsingError fid -> Printf.sprintf "[\"perr\", %d]" (int_of_nat fid)

let run d23 line =
  let (d, argv, libs) = parse_line line in
  (* the premises of the theorems about run_project, evaluated on every
     project whatever the outcome of the run *)
  let prem = Printf.sprintf "\"canon_idempotent\": %b, \"depth_ok\": %b, \"dirs_revisited\": %b"
      (Includes.canon_idempotent_b d) (Includes.depth_ok_b d argv) (Includes.dirs_revisited_b d argv libs) in
  match Includes.run_project d23 d argv libs with
  | Ok s ->
    Printf.sprintf "{\"status\": \"ok\", \"read\": [%s], \"files\": [%s], \"reports\": [%s], %s}"
      (Stdlib.String.concat ", " (Stdlib.List.map q s.Includes.ps_read))
      (Stdlib.String.concat ", " (Stdlib.List.map (fun (p, u) -> Printf.sprintf "[%s, %b]" (q p) u) s.Includes.ps_files))
      (Stdlib.String.concat ", " (Stdlib.List.map show_report s.Includes.ps_reports))
      prem
  | Err _ -> Printf.sprintf "{\"status\": \"err\", %s}" prem
  | Panic _ -> Printf.sprintf "{\"status\": \"panic\", %s}" prem
  | OutOfFuel -> Printf.sprintf "{\"status\": \"outoffuel\", %s}" prem

let () =
  match Array.to_list Sys.argv with
  | _ :: "run" :: _ -> each_line (fun l -> try run false l with Failure m -> "{\"status\": \"bad-line " ^ m ^ "\"}")
  | _ :: "run-d23" :: _ -> each_line (fun l -> try run true l with Failure m -> "{\"status\": \"bad-line " ^ m ^ "\"}")
  | _ -> prerr_endline "usage: model_includes run|run-d23"; exit 2
