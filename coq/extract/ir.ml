(* uses: lib_irwire.ml *)
(* Driver of the IR engine.  Line: `propagate <prime hex> <value budget> <degree budget> <cfg sexp>`
   prints the cfg after Model.Propagate.propagate, or (panic) / (outoffuel). *)
open Datatypes
open Base
open Drvlib
open Lib_irwire

let budget s = if s = "-" then 100000 else int_of_string s

let line l =
  let l = Stdlib.String.trim l in
  let sp1 = Stdlib.String.index l ' ' in
  let cmd = Stdlib.String.sub l 0 sp1 in
  match cmd with
  | "propagate" ->
    (* propagate <p> <kv> <kd> (cfg ...) (idom ...) *)
    let rest = Stdlib.String.sub l (sp1 + 1) (Stdlib.String.length l - sp1 - 1) in
    (match Stdlib.String.split_on_char ' ' rest with
     | p :: kv :: kd :: _ ->
       let off = Stdlib.String.length p + Stdlib.String.length kv + Stdlib.String.length kd + 3 in
       let sx = Stdlib.String.sub rest off (Stdlib.String.length rest - off) in
       (match parse_sexp ("(" ^ sx ^ ")") with
        | L [cx; L (A "idom" :: ds)] ->
          let idom = Stdlib.List.map (function A "-" -> None | x -> Some (num_n x)) ds in
          (match Propagate.propagate (nat_of_int (budget kv)) (nat_of_int (budget kd)) (z_of_hex p) idom (r_cfg cx) with
           | Ok c' -> show_sexp (w_cfg c')
           | Panic _ -> "(panic)"
           | OutOfFuel -> "(outoffuel)"
           | Err _ -> "(err)")
        | _ -> "(badline)")
     | _ -> "(badline)")
  | "vjust" ->
    let rest = Stdlib.String.sub l (sp1 + 1) (Stdlib.String.length l - sp1 - 1) in
    let sp2 = Stdlib.String.index rest ' ' in
    let p = Stdlib.String.sub rest 0 sp2 in
    let sx = Stdlib.String.sub rest (sp2 + 1) (Stdlib.String.length rest - sp2 - 1) in
    let c = r_cfg (parse_sexp sx) in
    if not (Justify.ldefs_unique_cfg c) then "(local-defs-not-unique)"
    else if Justify.vjust_cfg (z_of_hex p) c then "(justified)" else "(unjustified)"
  | "djust" ->
    (* djust (cfg ...) (idom ...) *)
    let rest = Stdlib.String.sub l (sp1 + 1) (Stdlib.String.length l - sp1 - 1) in
    (match parse_sexp ("(" ^ rest ^ ")") with
     | L [cx; L (A "idom" :: ds)] ->
       let idom = Stdlib.List.map (function A "-" -> None | x -> Some (num_n x)) ds in
       if DegJustify.djust_cfg (r_cfg cx) idom then "(justified)" else "(unjustified)"
     | _ -> "(badline)")
  | "djustle" ->
    (* djustle (cfg ...) (idom ...) : the weaker verified validator (a claimed upper end may exceed the table's) *)
    let rest = Stdlib.String.sub l (sp1 + 1) (Stdlib.String.length l - sp1 - 1) in
    (match parse_sexp ("(" ^ rest ^ ")") with
     | L [cx; L (A "idom" :: ds)] ->
       let idom = Stdlib.List.map (function A "-" -> None | x -> Some (num_n x)) ds in
       if DegJustifyLe.djust_cfg_le (r_cfg cx) idom then "(justified)" else "(unjustified)"
     | _ -> "(badline)")
  | "deggraph" ->
    (* deggraph (cfg ...) (idom ...) : the decidable hypotheses about the graph and the dominator table of the
       table-free degree theorems (C07_decides_is_dominance_control_dependence, C07_validated_graph_degrees_true_table_free) *)
    let rest = Stdlib.String.sub l (sp1 + 1) (Stdlib.String.length l - sp1 - 1) in
    (match parse_sexp ("(" ^ rest ^ ")") with
     | L [cx; L (A "idom" :: ds)] ->
       let idom = Stdlib.List.map (function A "-" -> None | x -> Some (num_n x)) ds in
       let c = r_cfg cx in
       if not (DegGraph.graph_consistent c) then "(graph-inconsistent)"
       else if not (DegGraph.idom_is_dominator_table c idom) then "(idom-not-the-dominator-table)"
       else if not (DegGraph.single_assignment_b c) then "(local-assigned-twice)"
       (* forward_b: loop-free, the hypothesis of C07_loop_free_graph_claims_true (not a defect when false) *)
       else
         (* the hypotheses of C07_loops_runs_represented / C07_loops_runs_claims_true (graphs WITH loops): infos_ok on the
            maps C14's validator computes, and the conjuncts of DegLoops.loops_ok, each named when unmet *)
         let loops =
           match SsaCheck.compute_infos c.c_params idom c.c_blocks [] with
           | None -> "(loops-hyp no-version-maps)"
           | Some infos ->
             (* every conjunct is evaluated and every unmet one is named *)
             let unmet =
               (if SsaCheck.infos_ok infos c then [] else ["infos-not-ok"])
               @ (if DegLoops.targets_versioned c then [] else ["targets-not-versioned"])
               @ (if DegLoops.update_bases_fresh infos c then [] else ["update-base-assigned"])
               @ (if DegLoops.no_future_version infos c then [] else ["future-version"]) in
             if unmet = [] then (if DegLoops.loops_ok infos c then "(loops-ok)" else "(loops-hyp loops_ok-false)")
             else "(loops-hyp " ^ Stdlib.String.concat " " unmet ^ ")" in
         (* forward_b: loop-free, the hypothesis of C07_loop_free_graph_claims_true (not a defect when false) *)
         (if DegGraph.forward_b c then "(deg-graph-ok loop-free)" else "(deg-graph-ok loops)") ^ " " ^ loops
     | _ -> "(badline)")
  | "ssa" ->
    (* ssa (cfg ...) (dominfo (frontier ..) (children ..)) : the construction mirror *)
    let rest = Stdlib.String.sub l (sp1 + 1) (Stdlib.String.length l - sp1 - 1) in
    (match parse_sexp ("(" ^ rest ^ ")") with
     | L [c; L [A "dominfo"; L (A "frontier" :: fr); L (A "children" :: ch)]] ->
       let nl = Stdlib.List.map (function L xs -> Stdlib.List.map num_n xs | _ -> failwith "dominfo") in
       (match Ssa.into_ssa (nl fr) (nl ch) (r_cfg c) with
        | Ssa.SOk c' -> show_sexp (w_cfg c')
        | Ssa.SErrUndefined -> "(ssaerr)"
        | Ssa.SPanic -> "(panic)"
        | Ssa.SFuel -> "(outoffuel)")
     | _ -> "(badline)")
  | "ssacheck" ->
    (* ssacheck (cfg ...) (idom ...) *)
    let rest = Stdlib.String.sub l (sp1 + 1) (Stdlib.String.length l - sp1 - 1) in
    (match parse_sexp ("(" ^ rest ^ ")") with
     | L [c; L (A "idom" :: ds)] ->
       let idom = Stdlib.List.map (function A "-" -> None | x -> Some (num_n x)) ds in
       let c = r_cfg c in
       if not (SsaCheck.ssa_check c idom) then "(invalid)"
       else if not (SsaCheck.unversioned_reads_ok c) then "(unversioned-local-read)"
       (* proof round 4: the same condition over the table rebuilt from the Declaration statements, and
          every versioned name is listed by a Declaration statement or is a version of a parameter
          (the conclusions of C14_construction_unversioned_reads_ok / C14_construction_versions_stmt_declared,
          evaluated on the REAL graph) *)
       else if not (SsaCheck.unversioned_reads_ok (SsaDecls.with_stmt_decls c)) then "(unversioned-local-read-by-declaration-statements)"
       else if not (SsaDecls.versions_stmt_declared c) then "(version-without-declaration-statement)"
       (* fourth audit: graphs that ssa_check accepts although they violate the text of C14 (Model.SsaStrict;
          meaning: Proofs.SsaStrictProofs, C14_phi_arguments_arrive, C14_read_defined_or_fresh_on_every_path) *)
       else (match SsaStrict.ssa_strict c idom with
             | SsaStrict.StrictOk -> "(valid)"
             | SsaStrict.NoMaps -> "(invalid)"
             | SsaStrict.BadPhiArgs -> "(phi-argument-arrives-from-no-predecessor)"
             | SsaStrict.BadFreshBase -> "(update-base-without-running-version-is-defined-by-a-statement)"
             | SsaStrict.LocalUnversioned -> "(local-without-version)"
             | SsaStrict.BadTable -> "(declaration-table-differs-from-statements-and-parameters)")
     | _ -> "(badline)")
  | "ssapre" ->
    (* ssapre (cfg before SSA) (dominfo (frontier ..) (children ..)) : the hypotheses of the construction theorems *)
    let rest = Stdlib.String.sub l (sp1 + 1) (Stdlib.String.length l - sp1 - 1) in
    (match parse_sexp ("(" ^ rest ^ ")") with
     | L [c; L [A "dominfo"; L (A "frontier" :: _); L (A "children" :: ch)]] ->
       let nl = Stdlib.List.map (function L xs -> Stdlib.List.map num_n xs | _ -> failwith "dominfo") in
       let c = r_cfg c in
       if not (SsaPre.pre_ssa_ok c) then "(pre-ssa-hypotheses-unmet)"
       else if not (SsaPre.children_coverb (nl ch) (nat_of_int (Stdlib.List.length c.c_blocks))) then "(children-do-not-cover)"
       (* the decidable hypotheses of C14_construction_paths_ok *)
       else if not (SsaPre.ssa_dyn_pre_ok c) then "(dynamic-theorem-hypotheses-unmet)"
       else if not (SsaPre.children_treeb (nl ch) (nat_of_int (Stdlib.List.length c.c_blocks))) then "(children-not-a-tree)"
       (* proof round 4, the hypotheses of C14_construction_unversioned_reads_ok / C14_construction_versions_stmt_declared:
          the declaration table and the Declaration statements of the graph before conversion agree *)
       else if not (SsaDecls.decl_stmts_declared c) then "(declaration-statement-of-a-local-not-in-the-table)"
       else if not (SsaDecls.locals_have_decl_stmt c) then "(local-of-the-table-without-declaration-statement)"
       else "(pre-ssa-ok)"
     | _ -> "(badline)")
  | "erasecheck" ->
    (* erasecheck (cfg before SSA) (cfg after SSA) *)
    let rest = Stdlib.String.sub l (sp1 + 1) (Stdlib.String.length l - sp1 - 1) in
    (match parse_sexp ("(" ^ rest ^ ")") with
     | L [pre; c] ->
       let pre = r_cfg pre and c = r_cfg c in
       if not (SsaErase.erase_eqb pre c) then "(not-an-erasure)"
       else if not (SsaErase.mixed_keys_ok c) then "(mixed-keys)" else "(erasure)"
     | _ -> "(badline)")
  | "clean" ->
    (* clean (cfg ...) : the two hypotheses of the budget theorems: no claims yet, unique local definitions *)
    let rest = Stdlib.String.sub l (sp1 + 1) (Stdlib.String.length l - sp1 - 1) in
    let c = r_cfg (parse_sexp rest) in
    if not (Clean.clean_cfg c) then "(claims-present)"
    else if not (Justify.ldefs_unique_cfg c) then "(local-defs-not-unique)"
    else if not (DegWf.deg_wf c) then "(degree-hypotheses-unmet)" else "(clean)"
  | "constcond" ->
    (* constcond (cfg ...) : the findings of the constant-conditional pass, by position of the if statement *)
    let rest = Stdlib.String.sub l (sp1 + 1) (Stdlib.String.length l - sp1 - 1) in
    let c = r_cfg (parse_sexp rest) in
    let one (((bi, si), lab), msg) =
      L [A (string_of_int (int_of_n bi)); A (string_of_int (int_of_n si)); A (hex_of_ident lab); A (hex_of_ident msg)] in
    show_sexp (L (A "cc" :: Stdlib.List.map one (ConstCond.cc_findings c)))
  | _ -> "(unknown-command)"

let () = each_line line
