(* Extraction of the includes engine (C19).  Only ExtrOcamlBasic is used:
   strings stay Coq's [string] (lists of [ascii]); the driver converts. *)
Require Extraction.
Require Import ExtrOcamlBasic.
Require Import Model.Base Model.Includes.
Separate Extraction Base.base_roots Base.outcome Includes.run_project Includes.canon_idempotent_b Includes.depth_ok_b Includes.dirs_revisited_b.
