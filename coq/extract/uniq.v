(* Extraction of the uniq engine (C10): the mirror of ensure_unique_variables,
   the name.suffix split, the SSA keys and the scope resolver of the
   specification.  Only ExtrOcamlBasic is used. *)
Require Extraction.
Require Import ExtrOcamlBasic.
Require Import Model.Base Model.Ir Model.UniqueVars Spec.ScopeSpec.
Separate Extraction Base.base_roots UniqueVars.ensure_unique_variables UniqueVars.occs UniqueVars.lift_name UniqueVars.ssa_key UniqueVars.ssa_key_old UniqueVars.ssa_key_with UniqueVars.key_format_ok UniqueVars.ident_ok UniqueVars.ident_char UniqueVars.build_table UniqueVars.get_declaration_of ScopeSpec.resolve_def ScopeSpec.branch_closed.
