(* Extraction of C01's chain driver: the per-definition part of
   Model.PipelineMirrors (renaming + lifting + IR lifting of Model.LiftFull, the
   dominator tree, the SSA construction, propagation) and the decidable hypotheses of
   C01_definition_chain_never_panics / C01_pipeline_mirrors_never_panic.
   Only ExtrOcamlBasic. *)
Require Extraction.
Require Import ExtrOcamlBasic.
Require Model.Base Model.Ast Model.Ir Model.LiftFull Model.Dom Model.PipelineMirrors.
Separate Extraction Base.base_roots Base.outcome PipelineMirrors.analyse_body PipelineMirrors.body_ok
  PipelineMirrors.names_distinct PipelineMirrors.stmt_lits_ok PipelineMirrors.ssa_output_ok
  PipelineMirrors.ast_init_ok LiftFull.definition_wf LiftFull.is_block LiftFull.stmt_sugar_free
  LiftFull.ast_init_flat Dom.id_order.
