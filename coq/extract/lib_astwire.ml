(* Reader of the syntax-tree S-expressions printed by harness/src/astdump.rs
   (= the PRE/POST format of harness/src/bin/desugar.rs) into Model.Ast.  A copy
   of the reader of coq/extract/desugar.ml as a library (that file is a driver with
   its own main), so that other engines decode the same text.  Dumb glue: no logic
   beyond syntax.  An engine that uses it names it in its `uses:` comment and must
   extract Model.Ast. *)
open Datatypes
open BinNums
open Drvlib
open Ast

(* ---- strings ---- *)
let ascii_of_char (c : char) : Ascii.ascii =
  let n = Char.code c in
  let b i = (n lsr i) land 1 = 1 in
  Ascii.Ascii (b 0, b 1, b 2, b 3, b 4, b 5, b 6, b 7)
let char_of_ascii (Ascii.Ascii (b0, b1, b2, b3, b4, b5, b6, b7)) : char =
  let v b i = if b then 1 lsl i else 0 in
  Char.chr (v b0 0 + v b1 1 + v b2 2 + v b3 3 + v b4 4 + v b5 5 + v b6 6 + v b7 7)
let cstr (s : Stdlib.String.t) : String.string =
  let r = ref String.EmptyString in
  for i = Stdlib.String.length s - 1 downto 0 do r := String.String (ascii_of_char (Stdlib.String.get s i), !r) done;
  !r
let rec ostr (s : String.string) : Stdlib.String.t =
  let b = Buffer.create 16 in
  let rec go = function String.EmptyString -> () | String.String (c, r) -> Buffer.add_char b (char_of_ascii c); go r in
  go s; Buffer.contents b
let hexs (s : Stdlib.String.t) =
  let b = Buffer.create 16 in
  Buffer.add_char b 'x';
  Stdlib.String.iter (fun c -> Buffer.add_string b (Printf.sprintf "%02x" (Char.code c))) s;
  Buffer.contents b
let unhexs (s : Stdlib.String.t) =
  (* "x68656c" -> "hel" *)
  let n = (Stdlib.String.length s - 1) / 2 in
  Stdlib.String.init n (fun i -> Char.chr (int_of_string ("0x" ^ Stdlib.String.sub s (1 + 2 * i) 2)))

(* ---- generic s-expressions ---- *)
type sx = A of Stdlib.String.t | L of sx list

let ( .%[] ) = Stdlib.String.get

let parse_sx (s : Stdlib.String.t) : sx =
  let n = Stdlib.String.length s in
  let pos = ref 0 in
  let rec skip () = if !pos < n && s.%[!pos] = ' ' then (incr pos; skip ()) in
  let rec item () =
    skip ();
    if s.%[!pos] = '(' then begin
      incr pos;
      let items = ref [] in
      let rec loop () =
        skip ();
        if s.%[!pos] = ')' then incr pos else (items := item () :: !items; loop ()) in
      loop ();
      L (Stdlib.List.rev !items)
    end else begin
      let st = !pos in
      while !pos < n && s.%[!pos] <> ' ' && s.%[!pos] <> '(' && s.%[!pos] <> ')' do incr pos done;
      A (Stdlib.String.sub s st (!pos - st))
    end in
  item ()

let bad what = failwith ("decode: " ^ what)

(* ---- decoding ---- *)
let d_meta = function
  | A a ->
    (match Stdlib.String.split_on_char ':' (Stdlib.String.sub a 1 (Stdlib.String.length a - 1)) with
     | [s; e; f] ->
       { m_start = n_of_int (int_of_string s); m_end = n_of_int (int_of_string e);
         m_file = (if f = "-" then None else Some (n_of_int (int_of_string f))) }
     | _ -> bad "meta")
  | _ -> bad "meta"
let d_op = function A "av" -> AssignVar | A "as" -> AssignSignal | A "acs" -> AssignConstraintSignal | _ -> bad "op"
let d_name = function A a -> cstr a | _ -> bad "name"
let d_xtype = function
  | A "var" -> VVar | A "comp" -> VComponent | A "anoncomp" -> VAnonymousComponent
  | L (A "sig" :: A k :: tags) ->
    VSignal ((match k with "in" -> SInput | "out" -> SOutput | "mid" -> SIntermediate | _ -> bad "sig"),
             Stdlib.List.map d_name tags)
  | _ -> bad "xtype"
let infix_table = [ "Mul", IMul; "Div", IDiv; "Add", IAdd; "Sub", ISub; "Pow", IPow; "IntDiv", IIntDiv; "Mod", IMod;
  "ShiftL", IShiftL; "ShiftR", IShiftR; "LesserEq", ILesserEq; "GreaterEq", IGreaterEq; "Lesser", ILesser;
  "Greater", IGreater; "Eq", IEq; "NotEq", INotEq; "BoolOr", IBoolOr; "BoolAnd", IBoolAnd; "BitOr", IBitOr;
  "BitAnd", IBitAnd; "BitXor", IBitXor ]
let prefix_table = [ "Neg", PSub; "BoolNot", PBoolNot; "Complement", PComplement ]
let d_bool = function A "1" -> true | A "0" -> false | _ -> bad "bool"

let rec d_expr = function
  | L [A "infix"; m; A o; l; r] -> InfixOp (d_meta m, d_expr l, Stdlib.List.assoc o infix_table, d_expr r)
  | L [A "prefix"; m; A o; r] -> PrefixOp (d_meta m, Stdlib.List.assoc o prefix_table, d_expr r)
  | L [A "switch"; m; c; t; f] -> InlineSwitchOp (d_meta m, d_expr c, d_expr t, d_expr f)
  | L [A "par"; m; r] -> ParallelOp (d_meta m, d_expr r)
  | L [A "var"; m; n; acc] -> Variable_ (d_meta m, d_name n, d_access acc)
  | L [A "num"; m; A v] -> Number (d_meta m, z_of_hex v)
  | L (A "call" :: m :: n :: args) -> Call (d_meta m, d_name n, Stdlib.List.map d_expr args)
  | L [A "anon"; m; n; p; L (A "params" :: ps); L (A "signals" :: ss); names] ->
    AnonymousComponent (d_meta m, d_name n, d_bool p, Stdlib.List.map d_expr ps, Stdlib.List.map d_expr ss,
      (match names with
       | A "nonames" -> None
       | L (A "names" :: ns) -> Some (Stdlib.List.map (function L [o; n] -> (d_op o, d_name n) | _ -> bad "names") ns)
       | _ -> bad "names"))
  | L (A "array" :: m :: vs) -> ArrayInLine (d_meta m, Stdlib.List.map d_expr vs)
  | L (A "tuple" :: m :: vs) -> Tuple (d_meta m, Stdlib.List.map d_expr vs)
  | _ -> bad "expr"
and d_access = function
  | L (A "acc" :: items) ->
    Stdlib.List.map (function
      | L [A "ca"; n] -> ComponentAccess (d_name n)
      | L [A "aa"; e] -> ArrayAccess (d_expr e)
      | _ -> bad "access") items
  | _ -> bad "acc"

let d_logarg = function
  | L [A "str"; A h] -> LogStr (cstr (unhexs h))
  | L [A "exp"; e] -> LogExp (d_expr e)
  | _ -> bad "logarg"

let rec d_stmt = function
  | L [A "if"; m; c; i] -> IfThenElse (d_meta m, d_expr c, d_stmt i, None)
  | L [A "if"; m; c; i; e] -> IfThenElse (d_meta m, d_expr c, d_stmt i, Some (d_stmt e))
  | L [A "while"; m; c; b] -> While (d_meta m, d_expr c, d_stmt b)
  | L [A "return"; m; v] -> Return (d_meta m, d_expr v)
  | L (A "initblock" :: m :: t :: ss) -> InitializationBlock (d_meta m, d_xtype t, Stdlib.List.map d_stmt ss)
  | L (A "decl" :: m :: t :: n :: c :: dims) ->
    Declaration (d_meta m, d_xtype t, d_name n, Stdlib.List.map d_expr dims, d_bool c)
  | L [A "sub"; m; n; o; acc; r] -> Substitution (d_meta m, d_name n, d_access acc, d_op o, d_expr r)
  | L [A "msub"; m; o; l; r] -> MultiSubstitution (d_meta m, d_expr l, d_op o, d_expr r)
  | L [A "ceq"; m; l; r] -> ConstraintEquality (d_meta m, d_expr l, d_expr r)
  | L (A "log" :: m :: args) -> LogCall (d_meta m, Stdlib.List.map d_logarg args)
  | L (A "block" :: m :: ss) -> Block (d_meta m, Stdlib.List.map d_stmt ss)
  | L [A "assert"; m; a] -> Assert (d_meta m, d_expr a)
  | _ -> bad "stmt"

