(* uses: lib_irwire.ml *)
(* Driver of the signal-assignment engine.  Input: the output lines of the
   harness binary `sigassign`, one `file` record per input with its list of definitions.  For every definition
   that lifted, prints the reports of Model.SignalAssign.find_signal_assignments
   on the dumped SSA cfg in the harness' format, and the two observed
   hypotheses and the source-level sub-key distinctness:
   (file (def KIND NAME REPORTS KEYS CKEYS SUBKEYS) | (def KIND NAME liftfail) ...) *)
open Datatypes
open Drvlib
open Lib_irwire
open SignalAssign

let show_label ((s, e), f) =
  Printf.sprintf "(m %d %d %d)" (int_of_n s) (int_of_n e) (int_of_n f)

let show_report r =
  let code = match r.r_code with CS0005 -> "CS0005" | CS0013 -> "CS0013" in
  let prim = Stdlib.List.map show_label r.r_primary in
  let key ((s, e), f) = (int_of_n f, int_of_n s, int_of_n e) in
  let sec = Stdlib.List.sort (fun a b -> compare (key a) (key b)) r.r_secondary in
  Printf.sprintf "(r %s (%s) (%s))" code (Stdlib.String.concat " " prim)
    (Stdlib.String.concat " " (Stdlib.List.map show_label sec))

let def = function
  | L [A "def"; A kind; A name; L [A "ok"; c; _; _]] ->
    let g = r_cfg c in
    let rs = Stdlib.List.sort compare (Stdlib.List.map show_report (find_signal_assignments g)) in
    Printf.sprintf "(def %s %s (%s) %d %d %d)" kind name (Stdlib.String.concat " " rs)
      (if keys_distinct_b g then 1 else 0) (if constraint_keys_distinct_b g then 1 else 0)
      (if subkeys_distinct_b g then 1 else 0)
  | L [A "def"; A kind; A name; L (A "liftfail" :: _)] -> Printf.sprintf "(def %s %s liftfail)" kind name
  | x -> failwith ("def: " ^ Stdlib.String.sub (show_sexp x) 0 60)

let line l =
  match parse_sexp (Stdlib.String.trim l) with
  | L [A "file"; _; _; L defs] -> "(file " ^ Stdlib.String.concat " " (Stdlib.List.map def defs) ^ ")"
  | L [A "panic"; _] -> "(panic)"
  | _ -> "(badline)"

let () = each_line line
