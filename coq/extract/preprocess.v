(* Extraction of the preprocess engine (C05, C04): the mirror of the repaired
   comment stripper, the mirror of the code before the repair, and the
   reference lexer.  ExtrOcamlBasic only. *)
Require Extraction.
Require Import ExtrOcamlBasic.
Require Import Model.Base Model.Preprocess Model.PreprocessOld Spec.LexSpec.
Separate Extraction Base.base_roots Base.outcome Preprocess.preprocess Preprocess.error_range
  PreprocessOld.preprocess_old LexSpec.lex_spec LexSpec.blank_comments.
