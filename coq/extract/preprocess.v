(* Extraction of the preprocess engine (C05, C04): the mirror of the repaired
   comment stripper, the mirror of the code before the repair, and the
   reference lexer with its executable vocabulary.  ExtrOcamlBasic only. *)
Require Extraction.
Require Import ExtrOcamlBasic.
Require Import Model.Base Model.Preprocess Model.PreprocessOld Spec.LexSpec.
Separate Extraction Base.base_roots Base.outcome Preprocess.preprocess Preprocess.error_range
  PreprocessOld.preprocess_old LexSpec.lex_spec LexSpec.blank_comments
  LexSpec.plain_code_b LexSpec.no_close_b LexSpec.no_newline_b.
