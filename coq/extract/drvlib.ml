(* Shared helpers of the model drivers (copied next to every engine's
   extracted code): hexadecimal text <-> Coq Z, line loop. *)
open BinNums
open Datatypes

(* ---- numbers: hexadecimal text <-> Coq Z (binary positives) ---- *)
let pos_of_bits (bits : bool list) : positive =
  (* bits: most significant first, first one is true *)
  match bits with
  | [] -> failwith "pos_of_bits"
  | _ :: rest -> Stdlib.List.fold_left (fun p b -> if b then Coq_xI p else Coq_xO p) Coq_xH rest

let z_of_hex (s : string) : coq_Z =
  let neg, s = if Stdlib.String.length s > 0 && Stdlib.String.get s 0 = '-' then true, Stdlib.String.sub s 1 (Stdlib.String.length s - 1) else false, s in
  let bits = ref [] in
  Stdlib.String.iter (fun c ->
    let d = match c with
      | '0'..'9' -> Char.code c - 48
      | 'a'..'f' -> Char.code c - 87
      | 'A'..'F' -> Char.code c - 55
      | _ -> failwith "hex" in
    bits := (d land 1 <> 0) :: (d land 2 <> 0) :: (d land 4 <> 0) :: (d land 8 <> 0) :: !bits) s;
  let msb_first = Stdlib.List.rev !bits in
  let rec strip = function false :: r -> strip r | l -> l in
  match strip msb_first with
  | [] -> Z0
  | l -> let p = pos_of_bits l in if neg then Zneg p else Zpos p

let rec bits_of_pos (p : positive) : bool list = (* least significant first *)
  match p with Coq_xH -> [true] | Coq_xO q -> false :: bits_of_pos q | Coq_xI q -> true :: bits_of_pos q

let hex_of_pos p =
  let rec go bits acc =
    match bits with
    | [] -> acc
    | _ ->
      let take n l = let rec t n l a = if n = 0 then (Stdlib.List.rev a, l) else match l with [] -> (Stdlib.List.rev a, []) | x :: r -> t (n-1) r (x :: a) in t n l [] in
      let (d, rest) = take 4 bits in
      let v = Stdlib.List.fold_right (fun b a -> 2 * a + (if b then 1 else 0)) d 0 in
      go rest (Stdlib.String.make 1 (Stdlib.String.get "0123456789abcdef" v) ^ acc) in
  go (bits_of_pos p) ""

let hex_of_z = function Z0 -> "0" | Zpos p -> hex_of_pos p | Zneg p -> "-" ^ hex_of_pos p

let rec int_of_pos = function Coq_xH -> 1 | Coq_xO q -> 2 * int_of_pos q | Coq_xI q -> 2 * int_of_pos q + 1
let int_of_z = function Z0 -> 0 | Zpos p -> int_of_pos p | Zneg p -> - (int_of_pos p)
let rec pos_of_int n = if n = 1 then Coq_xH else if n land 1 = 0 then Coq_xO (pos_of_int (n / 2)) else Coq_xI (pos_of_int (n / 2))
let z_of_int n = if n = 0 then Z0 else if n > 0 then Zpos (pos_of_int n) else Zneg (pos_of_int (-n))


let rec nat_of_int n = if n <= 0 then O else S (nat_of_int (n - 1))
let rec int_of_nat = function O -> 0 | S n -> 1 + int_of_nat n
let n_of_int n = if n = 0 then N0 else Npos (pos_of_int n)
let int_of_n = function N0 -> 0 | Npos p -> int_of_pos p

let each_line f =
  try
    while true do
      let line = input_line stdin in
      if Stdlib.String.trim line <> "" then print_endline (f line)
    done
  with End_of_file -> ()

