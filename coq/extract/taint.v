(* Extraction of the taint engine (C09): VarUse / Taint / SideEffect mirrors. *)
Require Extraction.
Require Import ExtrOcamlBasic.
Require Import Model.Base Model.Ir Model.VarUse Model.Taint Model.SideEffect.
Require Model.SsaCheck Model.BranchRegion Spec.CtlDep.
Separate Extraction Base.base_roots Base.outcome Ir.cfg
  Taint.canon Taint.single_step_taint Taint.multi_step_taint Taint.single_step_constraint
  Taint.multi_step_constraint Taint.constrained_variables Taint.run_taint_analysis
  SideEffect.run_side_effect_analysis_with SideEffect.universe SideEffect.table SideEffect.ssa_wf_b
  SsaCheck.ssa_check SsaCheck.nodup_v SsaCheck.all_defs
  SideEffect.exported_sinks BranchRegion.branches_of BranchRegion.start_frontier_max CtlDep.ctl_closed_b CtlDep.ctl_pairs.
