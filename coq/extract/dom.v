(* Extraction of the dom engine (C15).  Only ExtrOcamlBasic is used. *)
Require Extraction.
Require Import ExtrOcamlBasic.
Require Import Model.Base Model.Dom Spec.DomSpec Spec.DomFast.
Separate Extraction Base.base_roots Base.outcome Dom.edges_of_code Dom.id_order Dom.rev_order Dom.rot_order
  DomSpec.run_mirror DomSpec.run_spec DomFast.run_rooted.
