(* uses: lib_irwire.ml *)
(* Driver of the region-cover engine (C09).  Line: `<cfg sexp> [<branches sexp>] [<bset sexp>] [ignored ...]` (the graph
   as harness/src/bin/taint.rs dumps it; optionally the REAL region table of Cfg::get_true_branch / get_false_branch
   and the REAL set of names tainted by an input/output signal: then `coverreal` / `selfreal` are the same two
   hypotheses evaluated on what the implementation computed, `-` otherwise).  Prints `(rc (idx 0|1) (cover 0|1) (self 0|1) (ctl 0|1) (exit 0|1))`:
     idx    Spec.CtlRegion.indices_distinct_b g
     cover  Spec.CtlRegion.region_covers_b g br        br = Model.BranchRegion.branches_of g
     self   Spec.CtlRegion.self_closed_b g es          es = exported_sinks g (t_edges (run_taint_analysis g br))
     ctl    Spec.CtlDep.ctl_closed_b g es              (implied by the three above: C09_regions_give_ctl_closed)
     exit   Spec.CtlRegion.all_reach_exit_b g
     coverreal  region_covers_b g <real table>     selfreal  self_closed_b g <real tainted set>
     vj     Model.Justify.ldefs_unique_cfg g && Model.Justify.vjust_cfg p g   (with an element `(p HEX)` on the line, else `-`):
            the verified validator of VALUE claims (C06_validated_graph_claims_true, C06_constant_condition_finding_true):
            every constant the dump attaches to a node - in particular to a branch condition, which makes the taint pass
            and cdep / region_covers / ctl_closed SKIP that branch - is justified, hence true in every run.  "This condition
            is constant" is thereby not taken from the implementation on trust (fourth audit).
   or (outoffuel) / (panic) / (err). *)
open Datatypes
open Base
open Drvlib
open Lib_irwire

let ( >>= ) m f = match m with
  | Ok a -> f a
  | Panic _ -> "(panic)"
  | OutOfFuel -> "(outoffuel)"
  | Err _ -> "(err)"

let b01 b = A (if b then "1" else "0")

let line l =
  let l = Stdlib.String.trim l in
  match parse_sexp ("(" ^ l ^ ")") with
  | L (c :: more) ->
    let g = r_cfg c in
    let real_br = Stdlib.List.find_map (function
        | L (A "branches" :: es) ->
          Some (Stdlib.List.map (function
              | L [i; L t; L f] -> (num_n i, (Stdlib.List.map num_n t, Stdlib.List.map num_n f))
              | x -> failwith ("branch entry: " ^ show_sexp x)) es)
        | _ -> None) more in
    let real_b = Stdlib.List.find_map (function L (A "bset" :: vs) -> Some (Stdlib.List.map r_var vs) | _ -> None) more in
    let opt f = function Some x -> b01 (f x) | None -> A "-" in
    let prime = Stdlib.List.find_map (function L [A "p"; A h] -> Some (z_of_hex h) | _ -> None) more in
    BranchRegion.branches_of g >>= fun br ->
    let tm = (Taint.run_taint_analysis g br).Taint.t_edges in
    SideEffect.exported_sinks g tm >>= fun es ->
    show_sexp (L [A "rc";
      L [A "idx"; b01 (CtlRegion.indices_distinct_b g)];
      L [A "cover"; b01 (CtlRegion.region_covers_b g br)];
      L [A "self"; b01 (CtlRegion.self_closed_b g es)];
      L [A "ctl"; b01 (CtlDep.ctl_closed_b g es)];
      L [A "exit"; b01 (CtlRegion.all_reach_exit_b g)];
      L [A "coverreal"; opt (CtlRegion.region_covers_b g) real_br];
      L [A "selfreal"; opt (CtlRegion.self_closed_b g) real_b];
      L [A "vj"; opt (fun p -> Justify.ldefs_unique_cfg g && Justify.vjust_cfg p g) prime]])
  | _ -> "(badline)"

let () = each_line line
