(* uses: lib_irwire.ml *)
(* Driver of the region-cover engine (C09).  Line: `<cfg sexp> [ignored ...]` (the graph as harness/src/bin/taint.rs
   dumps it).  Prints `(rc (idx 0|1) (cover 0|1) (self 0|1) (ctl 0|1) (exit 0|1))`:
     idx    Spec.CtlRegion.indices_distinct_b g
     cover  Spec.CtlRegion.region_covers_b g br        br = Model.BranchRegion.branches_of g
     self   Spec.CtlRegion.self_closed_b g es          es = exported_sinks g (t_edges (run_taint_analysis g br))
     ctl    Spec.CtlDep.ctl_closed_b g es              (implied by the three above: C09_regions_give_ctl_closed)
     exit   Spec.CtlRegion.all_reach_exit_b g
   or (outoffuel) / (panic) / (err). *)
open Datatypes
open Base
open Drvlib
open Lib_irwire

let ( >>= ) m f = match m with
  | Ok a -> f a
  | Panic _ -> "(panic)"
  | OutOfFuel -> "(outoffuel)"
  | Err _ -> "(err)"

let b01 b = A (if b then "1" else "0")

let line l =
  let l = Stdlib.String.trim l in
  match parse_sexp ("(" ^ l ^ ")") with
  | L (c :: _) ->
    let g = r_cfg c in
    BranchRegion.branches_of g >>= fun br ->
    let tm = (Taint.run_taint_analysis g br).Taint.t_edges in
    SideEffect.exported_sinks g tm >>= fun es ->
    show_sexp (L [A "rc";
      L [A "idx"; b01 (CtlRegion.indices_distinct_b g)];
      L [A "cover"; b01 (CtlRegion.region_covers_b g br)];
      L [A "self"; b01 (CtlRegion.self_closed_b g es)];
      L [A "ctl"; b01 (CtlDep.ctl_closed_b g es)];
      L [A "exit"; b01 (CtlRegion.all_reach_exit_b g)]])
  | _ -> "(badline)"

let () = each_line line
