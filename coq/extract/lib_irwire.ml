(* S-expression reader / printer for Model.Ir, same format as
   harness/src/irdump.rs.  Dumb glue: no logic beyond syntax. *)
open BinNums
open Datatypes
open Drvlib
open Ir

type sexp = A of string | L of sexp list

let parse_sexp (s : string) : sexp =
  let n = Stdlib.String.length s in
  let pos = ref 0 in
  let rec skip () = if !pos < n && ((Stdlib.String.get s !pos) = ' ' || (Stdlib.String.get s !pos) = '\n' || (Stdlib.String.get s !pos) = '\t') then (incr pos; skip ()) in
  let rec item () =
    skip ();
    if !pos >= n then failwith "sexp: eof"
    else if (Stdlib.String.get s !pos) = '(' then begin
      incr pos;
      let items = ref [] in
      let fin = ref false in
      while not !fin do
        skip ();
        if !pos >= n then failwith "sexp: unclosed"
        else if (Stdlib.String.get s !pos) = ')' then (incr pos; fin := true)
        else items := item () :: !items
      done;
      L (Stdlib.List.rev !items)
    end else begin
      let st = !pos in
      while !pos < n && (Stdlib.String.get s !pos) <> ' ' && (Stdlib.String.get s !pos) <> '(' && (Stdlib.String.get s !pos) <> ')' do incr pos done;
      A (Stdlib.String.sub s st (!pos - st))
    end in
  item ()

let rec show_sexp = function
  | A a -> a
  | L l -> "(" ^ Stdlib.String.concat " " (Stdlib.List.map show_sexp l) ^ ")"

(* identifiers: hex bytes <-> list N *)
let ident_of_hex (h : string) : coq_N list =
  if h = "e" then [] else
  Stdlib.List.init (Stdlib.String.length h / 2) (fun i -> n_of_int (int_of_string ("0x" ^ Stdlib.String.sub h (2 * i) 2)))
let hex_of_ident (l : coq_N list) : string =
  if l = [] then "e" else Stdlib.String.concat "" (Stdlib.List.map (fun c -> Printf.sprintf "%02x" (int_of_n c)) l)

let opt f = function A "-" -> None | x -> Some (f x)
let atom = function A a -> a | _ -> failwith "atom expected"
let num_n x = n_of_int (int_of_string (atom x))

let r_var = function
  | L [A "v"; A n; s; v] -> { vn_name = ident_of_hex n; vn_suffix = opt (fun x -> ident_of_hex (atom x)) s; vn_version = opt num_n v }
  | x -> failwith ("var: " ^ show_sexp x)
let w_var v =
  L [A "v"; A (hex_of_ident v.vn_name);
     (match v.vn_suffix with None -> A "-" | Some s -> A (hex_of_ident s));
     (match v.vn_version with None -> A "-" | Some n -> A (string_of_int (int_of_n n)))]

let r_deg = function A "c" -> DConst | A "l" -> DLin | A "q" -> DQuad | A "n" -> DNonQuad | _ -> failwith "deg"
let w_deg = function DConst -> A "c" | DLin -> A "l" | DQuad -> A "q" | DNonQuad -> A "n"

let r_val = function
  | A "-" -> None
  | L [A "b"; A "0"] -> Some (VBool false)
  | L [A "b"; A "1"] -> Some (VBool true)
  | L [A "f"; A h] -> Some (VField (z_of_hex h))
  | x -> failwith ("val: " ^ show_sexp x)
let w_val = function
  | None -> A "-"
  | Some (VBool b) -> L [A "b"; A (if b then "1" else "0")]
  | Some (VField z) -> L [A "f"; A (hex_of_z z)]

let r_know = function
  | L [A "k"; v; d] ->
    { kval = r_val v; kdeg = (match d with A "-" -> None | L [A "d"; a; b] -> Some (r_deg a, r_deg b) | _ -> failwith "deg range") }
  | x -> failwith ("know: " ^ show_sexp x)
let w_know k =
  L [A "k"; w_val k.kval; (match k.kdeg with None -> A "-" | Some (a, b) -> L [A "d"; w_deg a; w_deg b])]

let infix_names = [ "mul", IMul; "div", IDiv; "add", IAdd; "sub", ISub; "pow", IPow; "idiv", IIntDiv; "mod", IMod;
  "shl", IShl; "shr", IShr; "le", ILe; "ge", IGe; "lt", ILt; "gt", IGt; "eq", IEq; "neq", INeq; "or", IOr;
  "and", IAnd; "bor", IBor; "band", IBand; "bxor", IBxor ]
let prefix_names = [ "not", PNot; "neg", PNeg; "compl", PCompl ]
let rassoc l x = fst (Stdlib.List.find (fun (_, y) -> y = x) l)

let rec r_expr = function
  | L [A "num"; A h; k] -> ENum (z_of_hex h, r_know k)
  | L [A "var"; v; k] -> EVar (r_var v, r_know k)
  | L [A "infix"; A op; l; r; k] -> EInfix (Stdlib.List.assoc op infix_names, r_expr l, r_expr r, r_know k)
  | L [A "prefix"; A op; e; k] -> EPrefix (Stdlib.List.assoc op prefix_names, r_expr e, r_know k)
  | L [A "switch"; c; t; f; k] -> ESwitch (r_expr c, r_expr t, r_expr f, r_know k)
  | L [A "call"; A n; L args; k] -> ECall (ident_of_hex n, Stdlib.List.map r_expr args, r_know k)
  | L [A "array"; L vs; k] -> EArray (Stdlib.List.map r_expr vs, r_know k)
  | L [A "access"; v; L acc; k] -> EAccess (r_var v, Stdlib.List.map r_access acc, r_know k)
  | L [A "update"; v; L acc; e; k] -> EUpdate (r_var v, Stdlib.List.map r_access acc, r_expr e, r_know k)
  | L [A "phi"; L args; k] -> EPhi (Stdlib.List.map r_var args, r_know k)
  | x -> failwith ("expr: " ^ show_sexp x)
and r_access = function
  | L [A "idx"; e] -> AIdx (r_expr e)
  | L [A "comp"; A n] -> AComp (ident_of_hex n)
  | x -> failwith ("access: " ^ show_sexp x)

let rec w_expr = function
  | ENum (z, k) -> L [A "num"; A (hex_of_z z); w_know k]
  | EVar (v, k) -> L [A "var"; w_var v; w_know k]
  | EInfix (op, l, r, k) -> L [A "infix"; A (rassoc infix_names op); w_expr l; w_expr r; w_know k]
  | EPrefix (op, e, k) -> L [A "prefix"; A (rassoc prefix_names op); w_expr e; w_know k]
  | ESwitch (c, t, f, k) -> L [A "switch"; w_expr c; w_expr t; w_expr f; w_know k]
  | ECall (n, args, k) -> L [A "call"; A (hex_of_ident n); L (Stdlib.List.map w_expr args); w_know k]
  | EArray (vs, k) -> L [A "array"; L (Stdlib.List.map w_expr vs); w_know k]
  | EAccess (v, acc, k) -> L [A "access"; w_var v; L (Stdlib.List.map w_access acc); w_know k]
  | EUpdate (v, acc, e, k) -> L [A "update"; w_var v; L (Stdlib.List.map w_access acc); w_expr e; w_know k]
  | EPhi (args, k) -> L [A "phi"; L (Stdlib.List.map w_var args); w_know k]
and w_access = function
  | AIdx e -> L [A "idx"; w_expr e]
  | AComp n -> L [A "comp"; A (hex_of_ident n)]

let r_meta = function
  | L [A "m"; s; e; f] -> { m_start = num_n s; m_end = num_n e; m_file = opt num_n f }
  | x -> failwith ("meta: " ^ show_sexp x)
let w_meta m =
  L [A "m"; A (string_of_int (int_of_n m.m_start)); A (string_of_int (int_of_n m.m_end));
     (match m.m_file with None -> A "-" | Some f -> A (string_of_int (int_of_n f)))]

let vtype_names = [ "local", TLocal; "component", TComponent; "anoncomponent", TAnonComponent;
  "sigin", TSigIn; "sigout", TSigOut; "sigint", TSigInt ]
let r_vtype x = Stdlib.List.assoc (atom x) vtype_names
let w_vtype t = A (rassoc vtype_names t)
let op_names = [ "sig", OpSig; "csig", OpCSig; "var", OpVar ]

let r_stmt = function
  | L [A "decl"; m; L names; t; L dims] -> SDecl (r_meta m, Stdlib.List.map r_var names, r_vtype t, Stdlib.List.map r_expr dims)
  | L [A "if"; m; c; t; f] -> SIf (r_meta m, r_expr c, num_n t, opt num_n f)
  | L [A "ret"; m; e] -> SRet (r_meta m, r_expr e)
  | L [A "subst"; m; v; A op; e; sv; st] ->
    SSubst (r_meta m, r_var v, Stdlib.List.assoc op op_names, r_expr e, r_val sv, opt r_vtype st)
  | L [A "ceq"; m; l; r] -> SCeq (r_meta m, r_expr l, r_expr r)
  | L [A "log"; m; L args] ->
    SLog (r_meta m, Stdlib.List.map (function L [A "str"] -> LStr | L [A "e"; e] -> LExpr (r_expr e) | _ -> failwith "logarg") args)
  | L [A "assert"; m; e] -> SAssert (r_meta m, r_expr e)
  | x -> failwith ("stmt: " ^ show_sexp x)

let w_stmt = function
  | SDecl (m, names, t, dims) -> L [A "decl"; w_meta m; L (Stdlib.List.map w_var names); w_vtype t; L (Stdlib.List.map w_expr dims)]
  | SIf (m, c, t, f) -> L [A "if"; w_meta m; w_expr c; A (string_of_int (int_of_n t)); (match f with None -> A "-" | Some x -> A (string_of_int (int_of_n x)))]
  | SRet (m, e) -> L [A "ret"; w_meta m; w_expr e]
  | SSubst (m, v, op, e, sv, st) ->
    L [A "subst"; w_meta m; w_var v; A (rassoc op_names op); w_expr e; w_val sv; (match st with None -> A "-" | Some t -> w_vtype t)]
  | SCeq (m, l, r) -> L [A "ceq"; w_meta m; w_expr l; w_expr r]
  | SLog (m, args) -> L [A "log"; w_meta m; L (Stdlib.List.map (function LStr -> L [A "str"] | LExpr e -> L [A "e"; w_expr e]) args)]
  | SAssert (m, e) -> L [A "assert"; w_meta m; w_expr e]

let r_block = function
  | L [A "block"; i; d; L ss; L ps; L sc] ->
    { b_index = num_n i; b_depth = num_n d; b_stmts = Stdlib.List.map r_stmt ss;
      b_preds = Stdlib.List.map num_n ps; b_succs = Stdlib.List.map num_n sc }
  | x -> failwith ("block: " ^ show_sexp x)
let w_nlist l = L (Stdlib.List.map (fun n -> A (string_of_int (int_of_n n))) l)
let w_block b =
  L [A "block"; A (string_of_int (int_of_n b.b_index)); A (string_of_int (int_of_n b.b_depth));
     L (Stdlib.List.map w_stmt b.b_stmts); w_nlist b.b_preds; w_nlist b.b_succs]

let r_cfg = function
  | L [A "cfg"; A kind; L (A "params" :: ps); L (A "decls" :: ds); L (A "blocks" :: bs)] ->
    { c_kind = (match kind with "function" -> KFunction | "template" -> KTemplate | _ -> KCustom);
      c_params = Stdlib.List.map r_var ps;
      c_decls = Stdlib.List.map (function L [v; t] -> (r_var v, r_vtype t) | _ -> failwith "decl entry") ds;
      c_blocks = Stdlib.List.map r_block bs }
  | x -> failwith ("cfg: " ^ show_sexp x)
let w_cfg c =
  L [A "cfg"; A (match c.c_kind with KFunction -> "function" | KTemplate -> "template" | KCustom -> "custom");
     L (A "params" :: Stdlib.List.map w_var c.c_params);
     L (A "decls" :: Stdlib.List.map (fun (v, t) -> L [w_var v; w_vtype t]) c.c_decls);
     L (A "blocks" :: Stdlib.List.map w_block c.c_blocks)]
