(* Driver of the uniq engine: token I/O around the extracted
   Model.UniqueVars / Spec.ScopeSpec, same formats as harness/src/bin/uniq.rs.
   Dumb glue: the projection reader and the printers contain no logic. *)
open Datatypes
open BinNums
open Base
open Drvlib
open UniqueVars

let name_of_string (s : string) : coq_N list =
  Stdlib.List.init (Stdlib.String.length s) (fun i -> n_of_int (Char.code (Stdlib.String.get s i)))
let string_of_name (l : coq_N list) : string =
  Stdlib.String.concat "" (Stdlib.List.map (fun c -> Stdlib.String.make 1 (Char.chr (int_of_n c))) l)

(* ---- projection reader ---- *)
exception Bad of string
let toks = ref []
let next () = match !toks with [] -> raise (Bad "eof") | t :: r -> toks := r; t
let num () = let t = next () in try int_of_string t with _ -> raise (Bad ("number: " ^ t))
let names () = let n = num () in Stdlib.List.init n (fun _ -> name_of_string (next ()))
let kind_of = function "v" -> KVar | "s" -> KSignal | "c" -> KComponent | "a" -> KAnon | k -> raise (Bad ("kind " ^ k))

let rec stmt () =
  match next () with
  | "B" -> let n = num () in UBlock (stmts n)
  | "I" -> let n = num () in UInit (stmts n)
  | "D" ->
    let k = kind_of (next ()) in
    let n = name_of_string (next ()) in
    let a = num () in
    let b = num () in
    let dims = names () in
    UDecl (k, n, (nat_of_int a, nat_of_int b), dims)
  | "S" -> let n = name_of_string (next ()) in let u = names () in USubst (n, u)
  | "M" -> UExpr (EMulti, names ())
  | "L" -> UExpr (ELog, names ())
  | "R" -> UExpr (EReturn, names ())
  | "C" -> UExpr (ECeq, names ())
  | "A" -> UExpr (EAssert, names ())
  | "W" -> let c = names () in let b = stmt () in UWhile (c, b)
  | "F" ->
    let c = names () in
    let t = stmt () in
    (match !toks with
     | "-" :: r -> toks := r; UIf (c, t, None)
     | _ -> let e = stmt () in UIf (c, t, Some e))
  | t -> raise (Bad ("statement tag " ^ t))
and stmts n = if n = 0 then [] else let s = stmt () in s :: stmts (n - 1)

let definition line =
  toks := Stdlib.List.filter (fun s -> s <> "") (Stdlib.String.split_on_char ' ' (Stdlib.String.trim line));
  (match next () with "P" -> () | t -> raise (Bad ("P expected, got " ^ t)));
  let params = names () in
  let a = num () in
  let b = num () in
  let body = stmt () in
  if !toks <> [] then raise (Bad "trailing tokens");
  (params, (nat_of_int a, nat_of_int b), body)

(* ---- printers ---- *)
let okind = function ODecl -> "d" | OTarget -> "t" | OUse -> "u"
let show_loc (a, b) = Printf.sprintf "%d-%d" (int_of_nat a) (int_of_nat b)
let show_report = function
  | Shadowing (_, p, s) -> Printf.sprintf "CS0001:%s:%s" (show_loc p) (show_loc s)
  | ParamCollision (_, l) -> Printf.sprintf "CS0002:%s:-" (show_loc l)
let show_lifted n =
  match lift_name n with
  | None -> "INVALID(" ^ string_of_name n ^ ")"
  | Some v ->
    Printf.sprintf "%s/%s" (string_of_name v.Ir.vn_name)
      (match v.Ir.vn_suffix with None -> "-" | Some s -> string_of_name s)

let mirror line =
  try
    let (params, ploc, body) = definition line in
    match ensure_unique_variables params ploc body with
    | Collision r -> "perr " ^ show_report r
    | Panicked s -> Printf.sprintf "ren panic %d" (int_of_z s)
    | Renamed (body', reports) ->
      let o = occs body' in
      Printf.sprintf "ren %s | rep %s | ir %s"
        (Stdlib.String.concat " " (Stdlib.List.map (fun (k, n) -> okind k ^ "=" ^ string_of_name n) o))
        (Stdlib.String.concat " " (Stdlib.List.map show_report reports))
        (Stdlib.String.concat " " (Stdlib.List.map (fun (k, n) -> okind k ^ "=" ^ show_lifted n) o))
  with Bad m -> "bad-line " ^ m

let spec line =
  try
    let (params, ploc, body) = definition line in
    let (o, sh) = ScopeSpec.resolve_def params ploc body in
    Printf.sprintf "closed %d | occ %s | sh %s"
      (if ScopeSpec.branch_closed body then 1 else 0)
      (Stdlib.String.concat " " (Stdlib.List.map (fun ((k, n), d) ->
         Printf.sprintf "%s=%s#%s" (okind k) (string_of_name n)
           (match d with None -> "-" | Some j -> string_of_int (int_of_nat j))) o))
      (Stdlib.String.concat " " (Stdlib.List.map (fun ((n, (k, l)), (k', l')) ->
         Printf.sprintf "%s#%d@%s<%d@%s" (string_of_name n) (int_of_nat k) (show_loc l) (int_of_nat k') (show_loc l')) sh))
  with Bad m -> "bad-line " ^ m

(* keys: NAME SUFFIX|- -> old key, new key *)
let keys line =
  match Stdlib.String.split_on_char ' ' (Stdlib.String.trim line) with
  | [n; s] ->
    let v = { Ir.vn_name = name_of_string n; Ir.vn_suffix = (if s = "-" then None else Some (name_of_string s)); Ir.vn_version = None } in
    Printf.sprintf "%s %s" (string_of_name (ssa_key_old v)) (string_of_name (ssa_key v))
  | _ -> "bad-line"

let () =
  match Array.to_list Sys.argv with
  | _ :: "mirror" :: _ -> each_line mirror
  | _ :: "spec" :: _ -> each_line spec
  | _ :: "keys" :: _ -> each_line keys
  | _ -> prerr_endline "usage: model_uniq mirror|spec|keys"; exit 2
