(* Driver of the uniq engine: token I/O around the extracted
   Model.UniqueVars / Spec.ScopeSpec, same formats as harness/src/bin/uniq.rs.
   Dumb glue: the projection reader and the printers contain no logic. *)
open Datatypes
open BinNums
open Base
open Drvlib
open UniqueVars

let name_of_string (s : string) : coq_N list =
  Stdlib.List.init (Stdlib.String.length s) (fun i -> n_of_int (Char.code (Stdlib.String.get s i)))
let string_of_name (l : coq_N list) : string =
  Stdlib.String.concat "" (Stdlib.List.map (fun c -> Stdlib.String.make 1 (Char.chr (int_of_n c))) l)

(* ---- projection reader ---- *)
exception Bad of string
let toks = ref []
let next () = match !toks with [] -> raise (Bad "eof") | t :: r -> toks := r; t
let num () = let t = next () in try int_of_string t with _ -> raise (Bad ("number: " ^ t))
let names () = let n = num () in Stdlib.List.init n (fun _ -> name_of_string (next ()))
let kind_of = function "v" -> KVar | "s" -> KSignal | "c" -> KComponent | "a" -> KAnon | k -> raise (Bad ("kind " ^ k))

let rec stmt () =
  match next () with
  | "B" -> let n = num () in UBlock (stmts n)
  | "I" -> let n = num () in UInit (stmts n)
  | "D" ->
    let k = kind_of (next ()) in
    let n = name_of_string (next ()) in
    let a = num () in
    let b = num () in
    let dims = names () in
    UDecl (k, n, (nat_of_int a, nat_of_int b), dims)
  | "S" -> let n = name_of_string (next ()) in let u = names () in USubst (n, u)
  | "M" -> UExpr (EMulti, names ())
  | "L" -> UExpr (ELog, names ())
  | "R" -> UExpr (EReturn, names ())
  | "C" -> UExpr (ECeq, names ())
  | "A" -> UExpr (EAssert, names ())
  | "W" -> let c = names () in let b = stmt () in UWhile (c, b)
  | "F" ->
    let c = names () in
    let t = stmt () in
    (match !toks with
     | "-" :: r -> toks := r; UIf (c, t, None)
     | _ -> let e = stmt () in UIf (c, t, Some e))
  | t -> raise (Bad ("statement tag " ^ t))
and stmts n = if n = 0 then [] else let s = stmt () in s :: stmts (n - 1)

let definition line =
  toks := Stdlib.List.filter (fun s -> s <> "") (Stdlib.String.split_on_char ' ' (Stdlib.String.trim line));
  (match next () with "P" -> () | t -> raise (Bad ("P expected, got " ^ t)));
  let params = names () in
  let a = num () in
  let b = num () in
  let body = stmt () in
  if !toks <> [] then raise (Bad "trailing tokens");
  (params, (nat_of_int a, nat_of_int b), body)

(* ---- printers ---- *)
let okind = function ODecl -> "d" | OTarget -> "t" | OUse -> "u"
let show_loc (a, b) = Printf.sprintf "%d-%d" (int_of_nat a) (int_of_nat b)
let show_report = function
  | Shadowing (n, p, s) -> Printf.sprintf "CS0001:%s:%s:%s" (show_loc p) (show_loc s) (string_of_name n)
  | ParamCollision (n, l) -> Printf.sprintf "CS0002:%s:-:%s" (show_loc l) (string_of_name n)
let show_lifted n =
  match lift_name n with
  | None -> "INVALID(" ^ string_of_name n ^ ")"
  | Some v ->
    Printf.sprintf "%s/%s" (string_of_name v.Ir.vn_name)
      (match v.Ir.vn_suffix with None -> "-" | Some s -> string_of_name s)

let type_letter = function KVar -> "L" | KSignal -> "S" | KComponent -> "C" | KAnon -> "A"
let show_vname v =
  Printf.sprintf "%s/%s" (string_of_name v.Ir.vn_name)
    (match v.Ir.vn_suffix with None -> "-" | Some s -> string_of_name s)
let show_decl (l, k) = Printf.sprintf "@%s:%s" (show_loc l) (type_letter k)
(* the Declarations table (sorted rows, as the harness prints it) and the answer
   of get_declaration for every occurrence *)
let show_table params ploc body' o =
  match build_table params ploc body' with
  | Base.Ok (Some t) ->
    let rows = Stdlib.List.sort compare (Stdlib.List.map (fun (v, d) -> show_vname v ^ show_decl d) t) in
    let dcl = Stdlib.List.map (fun (k, n) ->
        match lift_name n with
        | None -> okind k ^ "?"
        | Some v -> (match get_declaration_of v t with None -> okind k ^ "-" | Some d -> okind k ^ show_decl d)) o in
    Printf.sprintf "tab %s | dcl %s" (Stdlib.String.concat " " rows) (Stdlib.String.concat " " dcl)
  | Base.Ok None -> "tab INVALID | dcl INVALID"
  | Base.Panic s -> Printf.sprintf "tab panic %d | dcl panic" (int_of_z s)
  | _ -> "tab error | dcl error"

let mirror line =
  try
    let (params, ploc, body) = definition line in
    match ensure_unique_variables params ploc body with
    | Collision r -> "perr " ^ show_report r
    | Panicked s -> Printf.sprintf "ren panic %d" (int_of_z s)
    | Renamed (body', reports) ->
      let o = occs body' in
      Printf.sprintf "ren %s | rep %s | ir %s | %s"
        (Stdlib.String.concat " " (Stdlib.List.map (fun (k, n) -> okind k ^ "=" ^ string_of_name n) o))
        (Stdlib.String.concat " " (Stdlib.List.map show_report reports))
        (Stdlib.String.concat " " (Stdlib.List.map (fun (k, n) -> okind k ^ "=" ^ show_lifted n) o))
        (show_table params ploc body' o)
  with Bad m -> "bad-line " ^ m

let spec line =
  try
    let (params, ploc, body) = definition line in
    let (o, sh) = ScopeSpec.resolve_def params ploc body in
    let rec names_of = function
      | UBlock ss | UInit ss -> Stdlib.List.concat_map names_of ss
      | UDecl (_, n, _, dims) -> n :: dims
      | USubst (n, u) -> n :: u
      | UExpr (_, u) -> u
      | UWhile (c, b) -> c @ names_of b
      | UIf (c, t, e) -> c @ names_of t @ (match e with None -> [] | Some e0 -> names_of e0) in
    let all = params @ names_of body in
    Printf.sprintf "closed %d | ident %d %d | occ %s | sh %s"
      (if ScopeSpec.branch_closed body then 1 else 0)
      (Stdlib.List.length (Stdlib.List.filter ident_ok all)) (Stdlib.List.length all)
      (Stdlib.String.concat " " (Stdlib.List.map (fun ((k, n), d) ->
         Printf.sprintf "%s=%s#%s" (okind k) (string_of_name n)
           (match d with None -> "-" | Some j -> string_of_int (int_of_nat j))) o))
      (Stdlib.String.concat " " (Stdlib.List.map (fun ((n, (k, l)), (k', l')) ->
         Printf.sprintf "%s#%d@%s<%d@%s" (string_of_name n) (int_of_nat k) (show_loc l) (int_of_nat k') (show_loc l')) sh))
  with Bad m -> "bad-line " ^ m

(* identchar: BYTE (decimal) -> the extracted character class of identifiers *)
let identchar line =
  try Printf.sprintf "%d" (if ident_char (n_of_int (int_of_string (Stdlib.String.trim line))) then 1 else 0)
  with _ -> "bad-line"

(* keyfmt: pieces of the Some arm `;` pieces of the None arm (n, s, l:HEX) -> the
   extracted decision key_format_ok on that format (lint of lib/props/c10key.py) *)
let keyfmt line =
  let piece t =
    if t = "n" then KName else if t = "s" then KSuffix
    else if Stdlib.String.length t >= 2 && Stdlib.String.sub t 0 2 = "l:" then begin
      let h = Stdlib.String.sub t 2 (Stdlib.String.length t - 2) in
      KLit (Stdlib.List.init (Stdlib.String.length h / 2) (fun i -> n_of_int (int_of_string ("0x" ^ Stdlib.String.sub h (2 * i) 2))))
    end else raise (Bad t) in
  try
    match Stdlib.String.split_on_char ';' line with
    | [a; b] ->
      let ps x = Stdlib.List.map piece (Stdlib.List.filter (fun s -> s <> "") (Stdlib.String.split_on_char ' ' (Stdlib.String.trim x))) in
      Printf.sprintf "%d" (if key_format_ok (ps a) (ps b) then 1 else 0)
    | _ -> "bad-line"
  with _ -> "bad-line"

(* keys: NAME SUFFIX|- -> old key, new key *)
let keys line =
  match Stdlib.String.split_on_char ' ' (Stdlib.String.trim line) with
  | [n; s] ->
    let v = { Ir.vn_name = name_of_string n; Ir.vn_suffix = (if s = "-" then None else Some (name_of_string s)); Ir.vn_version = None } in
    Printf.sprintf "%s %s" (string_of_name (ssa_key_old v)) (string_of_name (ssa_key v))
  | _ -> "bad-line"

let () =
  match Array.to_list Sys.argv with
  | _ :: "mirror" :: _ -> each_line mirror
  | _ :: "spec" :: _ -> each_line spec
  | _ :: "keys" :: _ -> each_line keys
  | _ :: "keyfmt" :: _ -> each_line keyfmt
  | _ :: "identchar" :: _ -> each_line identchar
  | _ -> prerr_endline "usage: model_uniq mirror|spec|keys|keyfmt|identchar"; exit 2
