(* Extraction of the e2e engine (Runner model).  Only ExtrOcamlBasic. *)
Require Extraction.
Require Import ExtrOcamlBasic.
Require Import Model.Base Gen.Category Model.Runner.
Separate Extraction Base.base_roots Runner.run_keys Runner.build_library Runner.KF_duplicate_definition_b.
