(* Extraction of the front engine (C02): the Includes mirror run through
   Model.Front, and the class table of Spec.NoSilentSpec (which mirror produces
   the report of a failure class, in which form).  Only ExtrOcamlBasic is used. *)
Require Extraction.
Require Import ExtrOcamlBasic.
Require Import Model.Base Model.Includes Model.Front Spec.NoSilentSpec.
Separate Extraction Base.base_roots Base.outcome Includes.run_project Includes.canon_idempotent_b Front.front_run
  NoSilentSpec.class_table.
