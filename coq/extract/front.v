(* Extraction of the front engine (C02): the Includes mirror run through
   Model.Front.  Only ExtrOcamlBasic is used. *)
Require Extraction.
Require Import ExtrOcamlBasic.
Require Import Model.Base Model.Includes Model.Front.
Separate Extraction Base.base_roots Base.outcome Includes.run_project Includes.canon_idempotent_b Front.front_run.
