(* Extraction of the front engine (C02): the Includes mirror run through
   Model.Front; third pass: the stages of Model.FrontStages (version check, main
   components; fourth pass: the definitions of the files read, the mirrors of
   Merger::add_definitions and TemplateLibrary::new — the library is built by
   the model from what the parser yields per file;
   the desugaring stage = Model.Desugar, the error values of
   generate_cfg = Model.LiftFull + the chain Model.PipelineMirrors) run on what
   the parser yields for the files of the project; and the class table of
   Spec.NoSilentSpec (which mirror produces the report of a failure class, how
   much of it is derived, in which form).  Only ExtrOcamlBasic is used. *)
Require Extraction.
Require Import ExtrOcamlBasic.
Require Import Model.Base Model.Includes Model.Front Model.FrontStages Spec.NoSilentSpec.
Require Model.Ast Model.Desugar Model.LiftFull Model.Dom Model.PipelineMirrors Spec.ExpandSpec Gen.CompilerVersion.
Separate Extraction Base.base_roots Base.outcome Includes.run_project Includes.canon_idempotent_b
  Includes.dirs_revisited_b Front.front_run
  FrontStages.stage_run ExpandSpec.stmt_metas Dom.id_order CompilerVersion.compiler_version
  NoSilentSpec.class_table.
