(* Soundness of justified value claims (C06, C20): in every state reachable by
   the step relation of Spec.ValueSem, every constant attached to a node of a
   validated graph equals the value the node evaluates to. *)
From Coq Require Import ZArith List Bool Lia Znumtheory.
Require Import Model.Base Model.Field Model.Ir Model.Propagate Model.Justify.
Require Import Spec.FieldSpec Spec.ValueSem Proofs.FieldProofs.
Import ListNotations.
Local Open Scope Z_scope.
Ltac Zify.zify_post_hook ::= Z.div_mod_to_equations.
Local Opaque Z.pow.

(* ---------- decidable equalities reflect ---------- *)
Lemma ident_eqb_eq a b : ident_eqb a b = true <-> a = b.
Proof. unfold ident_eqb. destruct (list_eq_dec N.eq_dec a b); split; congruence. Qed.

Lemma opt_eqb_eq {A} (f : A -> A -> bool) (Hf : forall x y, f x y = true <-> x = y) a b :
  opt_eqb f a b = true <-> a = b.
Proof.
  destruct a, b; cbn; split; try congruence; intros H.
  - f_equal. apply Hf. exact H.
  - apply Hf. congruence.
Qed.

Lemma vname_eqb_eq a b : vname_eqb a b = true <-> a = b.
Proof.
  unfold vname_eqb. rewrite !andb_true_iff, ident_eqb_eq.
  rewrite (opt_eqb_eq ident_eqb ident_eqb_eq), (opt_eqb_eq N.eqb N.eqb_eq).
  destruct a, b; cbn. split.
  - intros [[-> ->] ->]. reflexivity.
  - intros [= -> -> ->]. auto.
Qed.

Lemma vname_eqb_refl a : vname_eqb a a = true.
Proof. apply vname_eqb_eq. reflexivity. Qed.

Lemma vred_eqb_eq a b : vred_eqb a b = true <-> a = b.
Proof.
  destruct a, b; cbn; split; try congruence.
  - intros H. apply Bool.eqb_prop in H. congruence.
  - intros [= ->]. apply Bool.eqb_reflx.
  - intros H. apply Z.eqb_eq in H. congruence.
  - intros [= ->]. apply Z.eqb_refl.
Qed.

Lemma opt_vred_eqb_eq a c : opt_vred_eqb a c = true <-> a = Some c.
Proof.
  destruct a; cbn; [rewrite vred_eqb_eq|]; split; congruence.
Qed.

(* ---------- booleans as field elements ---------- *)
Lemma truthy_b2z (x : bool) : truthy (b2z x) = x.
Proof. destruct x; reflexivity. Qed.

Lemma as_bool_b2z (x : bool) p : 2 < p -> as_bool (b2z x) p = x.
Proof.
  intros Hp. unfold as_bool. rewrite normalize_bool by lia. destruct x; reflexivity.
Qed.

Lemma b2z_canon (x : bool) p : 2 < p -> 0 <= b2z x < p.
Proof. destruct x; cbn; lia. Qed.

(* ---------- operators ---------- *)
Definition is_cmp (op : infix_op) : bool :=
  match op with ILe | IGe | ILt | IGt | IEq | INeq => true | _ => false end.

Definition wrap (op : infix_op) (p v : Z) : vred :=
  if is_cmp op then VBool (as_bool v p) else VField v.

Lemma infix_values_field op a b p :
  op <> IOr -> op <> IAnd ->
  infix_values op (Some (VField a)) (Some (VField b)) p =
  match eval (fop_of_infix op) a b p with
  | Ok v => Ok (Some (wrap op p v))
  | Err _ => Ok None
  | Panic s => Panic s
  | OutOfFuel => OutOfFuel
  end.
Proof.
  intros H1 H2. destruct op; try congruence; cbn [infix_values fop_of_infix eval wrap is_cmp cmp_val];
    try reflexivity; unfold res_to_opt;
    match goal with |- context [match ?x with _ => _ end] => destruct x; reflexivity end.
Qed.

Lemma div_unique a b p v1 v2 :
  prime p -> 0 <= b < p -> b <> 0 -> 0 <= v1 < p -> 0 <= v2 < p ->
  (v1 * b) mod p = a -> (v2 * b) mod p = a -> v1 = v2.
Proof.
  intros Hp Hb Hb0 H1 H2 E1 E2.
  assert (Hpp : 0 < p) by (destruct Hp; lia).
  assert (Hd : (p | (v1 - v2) * b)).
  { apply Z.mod_divide; [lia|].
    rewrite Z.mul_sub_distr_r. rewrite Zminus_mod, E1, E2, Z.sub_diag. apply Z.mod_0_l. lia. }
  apply prime_mult in Hd; [|assumption].
  destruct Hd as [Hd|Hd].
  - destruct Hd as [q Hq]. assert (q = 0) by nia. subst q. lia.
  - exfalso. destruct Hd as [q Hq]. assert (q = 0) by nia. lia.
Qed.

Section Sound.
Variable p : Z.
Hypothesis Hprime : prime p.
Hypothesis Hp : 2 < p.
Hypothesis Hlog : Z.log2 p < 2 ^ 64.

Lemma spec_ok_canonical o a b v :
  0 <= a < p -> 0 <= b < p -> o <> ODiv -> spec o a b p = Ok v -> 0 <= v < p.
Proof. intros Ha Hb Hd He. exact (spec_canonical o a b p v Hp Ha Hb Hd He). Qed.

(* field operands *)
Lemma infix_field_sound op a b c v :
  0 <= a < p -> 0 <= b < p ->
  infix_values op (Some (VField a)) (Some (VField b)) p = Ok (Some c) ->
  sem_infix op a b p v -> claim_ok c v.
Proof.
  intros Ha Hb Hv Hs.
  destruct (match op with IOr | IAnd => true | _ => false end) eqn:Hbool.
  { destruct op; try discriminate; cbn in Hv; discriminate. }
  assert (H1 : op <> IOr) by (intros ->; discriminate).
  assert (H2 : op <> IAnd) by (intros ->; discriminate).
  rewrite infix_values_field in Hv by assumption.
  destruct (match op with IDiv => true | _ => false end) eqn:Hdiv.
  - destruct op; try discriminate. cbn [fop_of_infix eval] in Hv. cbn in Hs.
    pose proof (div_refines_spec a b p Hprime Hp Ha Hb) as Hd.
    destruct (div a b p) as [c'|e| |] eqn:E; try discriminate.
    injection Hv as <-. cbn in Hd. cbn [wrap is_cmp claim_ok].
    destruct Hs as (Hb0 & Hvr & Hvb). destruct Hd as (_ & Hcr & Hcb).
    exact (div_unique a b p v c' Hprime Hb Hb0 Hvr Hcr Hvb Hcb).
  - assert (Hnd : fop_of_infix op <> ODiv) by (destruct op; discriminate).
    assert (Hs' : spec (fop_of_infix op) a b p = Ok v) by (destruct op; try discriminate; exact Hs).
    destruct (field_refines_spec (fop_of_infix op) a b p Hp Hlog Ha Hb Hnd) as [Hr|(_ & Hr & _)].
    + rewrite Hr, Hs' in Hv. injection Hv as <-.
      unfold wrap. destruct (is_cmp op) eqn:Hc; [|reflexivity].
      cbn [claim_ok].
      assert (exists x : bool, v = b2z x) as [x ->].
      { destruct op; try discriminate; cbn [fop_of_infix spec] in Hs'; injection Hs' as <-; eauto. }
      rewrite as_bool_b2z by lia. reflexivity.
    + rewrite Hr in Hv. discriminate.
Qed.

(* boolean operands *)
Lemma infix_bool_sound op (x y : bool) c v :
  infix_values op (Some (VBool x)) (Some (VBool y)) p = Ok (Some c) ->
  sem_infix op (b2z x) (b2z y) p v -> claim_ok c v.
Proof.
  intros Hv Hs. destruct op; cbn in Hv; try discriminate; injection Hv as <-;
    cbn in Hs; injection Hs as <-; rewrite !truthy_b2z; reflexivity.
Qed.

Lemma sem_infix_canonical op a b v :
  0 <= a < p -> 0 <= b < p -> sem_infix op a b p v -> 0 <= v < p.
Proof.
  intros Ha Hb Hs. destruct (match op with IDiv => true | _ => false end) eqn:Hd.
  - destruct op; try discriminate. cbn in Hs. tauto.
  - apply (spec_ok_canonical (fop_of_infix op) a b v Ha Hb).
    + destruct op; discriminate.
    + destruct op; try discriminate; exact Hs.
Qed.

Lemma sem_prefix_canonical op a v : 0 <= a < p -> sem_prefix op a p v -> 0 <= v < p.
Proof.
  intros Ha Hs. apply (spec_ok_canonical (fop_of_prefix op) a 0 v Ha ltac:(lia)).
  - destruct op; discriminate.
  - exact Hs.
Qed.

Lemma prefix_sound op cl a c v :
  0 <= a < p -> claim_ok cl a ->
  prefix_values op (Some cl) p = Some c -> sem_prefix op a p v -> claim_ok c v.
Proof.
  intros Ha Hcl Hv Hs. unfold sem_prefix in Hs.
  destruct cl as [x|z]; cbn in Hcl; subst a.
  - destruct op; cbn in Hv; try discriminate. injection Hv as <-.
    cbn in Hs. injection Hs as <-. rewrite truthy_b2z. reflexivity.
  - destruct op; cbn in Hv; try discriminate; injection Hv as <-; cbn [claim_ok].
    + (* neg *)
      destruct (field_refines_spec ONeg z 0 p Hp Hlog Ha ltac:(lia) ltac:(discriminate)) as [Hr|(Hx & _)];
        [|discriminate]. cbn [eval] in Hr. cbn [fop_of_prefix] in Hs. congruence.
    + destruct (field_refines_spec OCompl z 0 p Hp Hlog Ha ltac:(lia) ltac:(discriminate)) as [Hr|(Hx & _)];
        [|discriminate]. cbn [eval] in Hr. cbn [fop_of_prefix] in Hs. congruence.
Qed.

(* ---------- stores ---------- *)
Variable ss : list stmt.

Definition store_ok (s : store) : Prop :=
  forall x v, s x = Some v ->
    0 <= v < p /\ forall c, all_defs_claim ss x c = true -> claim_ok c v.

Lemma claim_canonical_value c v : claim_ok c v -> 0 <= v < p -> True.
Proof. trivial. Qed.

(* the main lemma: an evaluated, justified expression has a canonical value
   and its claim, if any, is that value *)
Lemma vjust_expr_sound s : store_ok s ->
  forall e v, evalR p s e v -> vjust_expr ss p e = true ->
  0 <= v < p /\ forall c, expr_val e = Some c -> claim_ok c v.
Proof.
  intros Hs e v Hev. induction Hev as
    [z k | x k v Hx | op l r k a b v Hl IHl Hr IHr Hsem | op e k a v He IHe Hsem
     | c t f k vc v Hc IHc Hnz Ht IHt | c t f k v Hc IHc Hf IHf]; intros Hj.
  - (* literal *)
    cbn [vjust_expr] in Hj. apply andb_true_iff in Hj as [Hz Hj]. apply Z.leb_le in Hz.
    split; [apply Z.mod_pos_bound; lia|].
    intros c Hc. unfold expr_val in Hc; cbn [expr_know] in Hc. rewrite Hc in Hj.
    apply vred_eqb_eq in Hj. subst c. cbn. rewrite Z.rem_mod_nonneg by lia. reflexivity.
  - (* variable *)
    destruct (Hs x v Hx) as [Hcan Hcl]. split; [exact Hcan|].
    intros c Hc. cbn [vjust_expr] in Hj. unfold expr_val in Hc; cbn [expr_know] in Hc. rewrite Hc in Hj.
    apply Hcl. exact Hj.
  - (* infix *)
    cbn [vjust_expr] in Hj. apply andb_true_iff in Hj as [Hj Hk]. apply andb_true_iff in Hj as [Hjl Hjr].
    destruct (IHl Hjl) as [Ha Hcl]. destruct (IHr Hjr) as [Hb Hcr].
    split; [exact (sem_infix_canonical op a b v Ha Hb Hsem)|].
    intros c Hc. unfold expr_val in Hc; cbn [expr_know] in Hc. rewrite Hc in Hk.
    destruct (infix_values op (expr_val l) (expr_val r) p) as [[c'|]| | |] eqn:Hv; try discriminate.
    apply vred_eqb_eq in Hk. subst c'.
    destruct (expr_val l) as [[x|za]|] eqn:El; destruct (expr_val r) as [[y|zb]|] eqn:Er;
      try (cbn in Hv; discriminate).
    + pose proof (Hcl _ eq_refl) as H1. pose proof (Hcr _ eq_refl) as H2. cbn in H1, H2. subst a b.
      exact (infix_bool_sound op x y c v Hv Hsem).
    + pose proof (Hcl _ eq_refl) as H1. pose proof (Hcr _ eq_refl) as H2. cbn in H1, H2. subst a b.
      exact (infix_field_sound op za zb c v Ha Hb Hv Hsem).
  - (* prefix *)
    cbn [vjust_expr] in Hj. apply andb_true_iff in Hj as [Hje Hk].
    destruct (IHe Hje) as [Ha Hcl].
    split; [exact (sem_prefix_canonical op a v Ha Hsem)|].
    intros c Hc. unfold expr_val in Hc; cbn [expr_know] in Hc. rewrite Hc in Hk.
    apply opt_vred_eqb_eq in Hk.
    destruct (expr_val e) as [cl|] eqn:Ee; [|cbn in Hk; discriminate].
    exact (prefix_sound op cl a c v Ha (Hcl _ eq_refl) Hk Hsem).
  - (* switch, true branch *)
    cbn [vjust_expr] in Hj. apply andb_true_iff in Hj as [Hj Hk]. apply andb_true_iff in Hj as [Hj Hjf].
    apply andb_true_iff in Hj as [Hjc Hjt].
    destruct (IHc Hjc) as [Hvc Hcc]. destruct (IHt Hjt) as [Hv Hct].
    split; [exact Hv|].
    intros x Hx. unfold expr_val in Hx; cbn [expr_know] in Hx. rewrite Hx in Hk.
    apply opt_vred_eqb_eq in Hk. unfold switch_value in Hk.
    destruct (expr_val c) as [[[|]|z]|] eqn:Ec; try discriminate.
    + destruct (expr_val t) eqn:Et; [|discriminate]. injection Hk as ->. apply Hct. reflexivity.
    + pose proof (Hcc _ eq_refl) as H0. cbn in H0. congruence.
    + pose proof (Hcc _ eq_refl) as H0. cbn in H0. subst vc.
      destruct (Z.eqb_spec z 0); [congruence|]. cbn [negb] in Hk.
      destruct (expr_val t) eqn:Et; [|discriminate]. injection Hk as ->. apply Hct. reflexivity.
  - (* switch, false branch *)
    cbn [vjust_expr] in Hj. apply andb_true_iff in Hj as [Hj Hk]. apply andb_true_iff in Hj as [Hj Hjf].
    apply andb_true_iff in Hj as [Hjc Hjt].
    destruct (IHc Hjc) as [Hvc Hcc]. destruct (IHf Hjf) as [Hv Hcf].
    split; [exact Hv|].
    intros x Hx. unfold expr_val in Hx; cbn [expr_know] in Hx. rewrite Hx in Hk.
    apply opt_vred_eqb_eq in Hk. unfold switch_value in Hk.
    destruct (expr_val c) as [[[|]|z]|] eqn:Ec; try discriminate.
    + pose proof (Hcc _ eq_refl) as H0. cbn in H0. discriminate.
    + destruct (expr_val f) eqn:Ef; [|discriminate]. injection Hk as ->. apply Hcf. reflexivity.
    + pose proof (Hcc _ eq_refl) as H0. cbn in H0. subst z. cbn in Hk.
      destruct (expr_val f) eqn:Ef; [|discriminate]. injection Hk as ->. apply Hcf. reflexivity.
Qed.

(* ---------- the step relation preserves store_ok ---------- *)
Hypothesis Hvalid : forallb (vjust_stmt ss p) ss = true.

Lemma all_defs_claim_def x c s :
  all_defs_claim ss x c = true -> In s ss -> def_ok x c s = true.
Proof.
  unfold all_defs_claim. intros H Hin. apply andb_true_iff in H as [H _].
  rewrite forallb_forall in H. auto.
Qed.

Lemma step_preserves s s' : store_ok s -> step ss p s s' -> store_ok s'.
Proof.
  intros Hs Hst. destruct Hst as
    [m x op rhe sv st v s Hin Hphi Hev | m x op args k sv st a v s Hin Ha Hsa | m x op args k sv st a s Hin Ha Hsa | m x op rhe sv st s Hin Hphi Hno].
  - intros y w Hy. unfold upd in Hy. destruct (vname_eqb x y) eqn:E.
    + apply vname_eqb_eq in E. subst y. injection Hy as <-.
      assert (Hjs : vjust_stmt ss p (SSubst m x op rhe sv st) = true)
        by (rewrite forallb_forall in Hvalid; auto).
      cbn [vjust_stmt] in Hjs. apply andb_true_iff in Hjs as [Hje _].
      destruct (vjust_expr_sound s Hs rhe v Hev Hje) as [Hcan Hcl].
      split; [exact Hcan|]. intros c Hc.
      pose proof (all_defs_claim_def x c _ Hc Hin) as Hd. cbn [def_ok] in Hd.
      rewrite vname_eqb_refl in Hd. apply andb_true_iff in Hd as [_ Hd].
      apply opt_vred_eqb_eq in Hd. auto.
    + apply Hs. exact Hy.
  - intros y w Hy. unfold upd in Hy. destruct (vname_eqb x y) eqn:E.
    + apply vname_eqb_eq in E. subst y. injection Hy as <-.
      destruct (Hs a v Hsa) as [Hcan Hcl]. split; [exact Hcan|]. intros c Hc.
      pose proof (all_defs_claim_def x c _ Hc Hin) as Hd. cbn [def_ok] in Hd.
      rewrite vname_eqb_refl in Hd. apply andb_true_iff in Hd as [_ Hd].
      apply opt_vred_eqb_eq in Hd. unfold expr_val in Hd; cbn [expr_know] in Hd.
      assert (Hjs : vjust_stmt ss p (SSubst m x op (EPhi args k) sv st) = true)
        by (rewrite forallb_forall in Hvalid; auto).
      cbn [vjust_stmt vjust_expr] in Hjs. rewrite Hd in Hjs.
      apply andb_true_iff in Hjs as [Hjs _]. apply andb_true_iff in Hjs as [_ Hjs].
      rewrite forallb_forall in Hjs. apply Hcl. apply Hjs. exact Ha.
    + apply Hs. exact Hy.
  - intros y w Hy. unfold upd in Hy. destruct (vname_eqb x y) eqn:E; [discriminate|].
    apply Hs. exact Hy.
  - intros y w Hy. unfold upd in Hy. destruct (vname_eqb x y) eqn:E; [discriminate|].
    apply Hs. exact Hy.
Qed.

Lemma init_store_ok s0 : init_ok ss p s0 -> store_ok s0.
Proof.
  intros Hi x v Hx. destruct (Hi x v Hx) as [Hcan Hnd]. split; [exact Hcan|].
  intros c Hc. unfold all_defs_claim in Hc. rewrite Hnd in Hc. rewrite andb_false_r in Hc. discriminate.
Qed.

Lemma reachable_store_ok s0 s : init_ok ss p s0 -> reachable ss p s0 s -> store_ok s.
Proof.
  intros Hi Hr. induction Hr as [|s s' Hr IH Hst].
  - apply init_store_ok. exact Hi.
  - eapply step_preserves; eauto.
Qed.

(* every claim met in any reachable state is true *)
Theorem justified_claims_true s0 s e v c :
  init_ok ss p s0 -> reachable ss p s0 s ->
  vjust_expr ss p e = true -> evalR p s e v -> expr_val e = Some c -> claim_ok c v.
Proof.
  intros Hi Hr Hj Hev Hc.
  exact (proj2 (vjust_expr_sound s (reachable_store_ok s0 s Hi Hr) e v Hev Hj) c Hc).
Qed.

End Sound.

(* ---------- packaging for whole graphs ---------- *)
Inductive child : expr -> expr -> Prop :=
| ch_infix_l op l r k : child l (EInfix op l r k)
| ch_infix_r op l r k : child r (EInfix op l r k)
| ch_prefix op e k : child e (EPrefix op e k)
| ch_switch_c c t f k : child c (ESwitch c t f k)
| ch_switch_t c t f k : child t (ESwitch c t f k)
| ch_switch_f c t f k : child f (ESwitch c t f k)
| ch_update v acc rhe k : child rhe (EUpdate v acc rhe k)
| ch_call n args k e : In e args -> child e (ECall n args k)
| ch_array vs k e : In e vs -> child e (EArray vs k)
| ch_access v acc k e : In (AIdx e) acc -> child e (EAccess v acc k)
| ch_update_idx v acc rhe k e : In (AIdx e) acc -> child e (EUpdate v acc rhe k).

Lemma vjust_list_in ss p (es : list expr) e :
  (fix vjust_list (es : list expr) : bool :=
     match es with [] => true | x :: tl => vjust_expr ss p x && vjust_list tl end) es = true ->
  In e es -> vjust_expr ss p e = true.
Proof.
  induction es as [|x tl IH]; [contradiction|]. intros H [<-|Hin].
  - apply andb_true_iff in H as [H _]. exact H.
  - apply andb_true_iff in H as [_ H]. auto.
Qed.

Lemma vjust_acc_in ss p (acc : list (access expr)) e :
  (fix vjust_acc (acc : list (access expr)) : bool :=
     match acc with
     | [] => true
     | AIdx x :: tl => vjust_expr ss p x && vjust_acc tl
     | AComp _ :: tl => vjust_acc tl
     end) acc = true ->
  In (AIdx e) acc -> vjust_expr ss p e = true.
Proof.
  induction acc as [|x tl IH]; [contradiction|]. intros H [->|Hin].
  - apply andb_true_iff in H as [H _]. exact H.
  - destruct x; [apply andb_true_iff in H as [_ H]|]; auto.
Qed.

Lemma vjust_child ss p e' e : child e' e -> vjust_expr ss p e = true -> vjust_expr ss p e' = true.
Proof.
  intros Hc. destruct Hc; cbn [vjust_expr]; intros Hj.
  - apply andb_true_iff in Hj as [Hj _]. apply andb_true_iff in Hj as [Hj _]. exact Hj.
  - apply andb_true_iff in Hj as [Hj _]. apply andb_true_iff in Hj as [_ Hj]. exact Hj.
  - apply andb_true_iff in Hj as [Hj _]. exact Hj.
  - apply andb_true_iff in Hj as [Hj _]. apply andb_true_iff in Hj as [Hj _]. apply andb_true_iff in Hj as [Hj _]. exact Hj.
  - apply andb_true_iff in Hj as [Hj _]. apply andb_true_iff in Hj as [Hj _]. apply andb_true_iff in Hj as [_ Hj]. exact Hj.
  - apply andb_true_iff in Hj as [Hj _]. apply andb_true_iff in Hj as [_ Hj]. exact Hj.
  - apply andb_true_iff in Hj as [Hj _]. apply andb_true_iff in Hj as [Hj _]. exact Hj.
  - apply andb_true_iff in Hj as [Hj _]. eapply vjust_list_in; eauto.
  - apply andb_true_iff in Hj as [Hj _]. eapply vjust_list_in; eauto.
  - apply andb_true_iff in Hj as [Hj _]. eapply vjust_acc_in; eauto.
  - apply andb_true_iff in Hj as [Hj _]. apply andb_true_iff in Hj as [_ Hj]. eapply vjust_acc_in; eauto.
Qed.

(* the top-level expressions of a statement *)
Definition top_exprs (s : stmt) : list expr :=
  match s with
  | SDecl _ _ _ dims => dims
  | SIf _ c _ _ => [c]
  | SRet _ e => [e]
  | SSubst _ _ _ rhe _ _ => [rhe]
  | SCeq _ l r => [l; r]
  | SLog _ args => flat_map (fun a => match a with LExpr e => [e] | LStr => [] end) args
  | SAssert _ e => [e]
  end.

Lemma vjust_stmt_top ss p s e : vjust_stmt ss p s = true -> In e (top_exprs s) -> vjust_expr ss p e = true.
Proof.
  destruct s; cbn [vjust_stmt top_exprs]; intros Hj Hin.
  - rewrite forallb_forall in Hj. auto.
  - destruct Hin as [<-|[]]. exact Hj.
  - destruct Hin as [<-|[]]. exact Hj.
  - destruct Hin as [<-|[]]. apply andb_true_iff in Hj as [Hj _]. exact Hj.
  - apply andb_true_iff in Hj as [H1 H2]. destruct Hin as [<-|[<-|[]]]; assumption.
  - rewrite forallb_forall in Hj. apply in_flat_map in Hin as (a & Ha & Hin).
    destruct a; [contradiction|]. destruct Hin as [<-|[]]. exact (Hj _ Ha).
  - destruct Hin as [<-|[]]. exact Hj.
Qed.

Inductive occurs_in (c : cfg) : expr -> Prop :=
| occ_top s e : In s (all_stmts (c_blocks c)) -> In e (top_exprs s) -> occurs_in c e
| occ_child e' e : occurs_in c e -> child e' e -> occurs_in c e'.

Lemma vjust_cfg_occurs p c e :
  vjust_cfg p c = true -> occurs_in c e -> vjust_expr (all_stmts (c_blocks c)) p e = true.
Proof.
  intros Hv Ho. induction Ho as [s e Hs He|e' e Ho IH Hc].
  - unfold vjust_cfg in Hv. rewrite forallb_forall in Hv. eapply vjust_stmt_top; eauto.
  - eapply vjust_child; eauto.
Qed.

Theorem validated_graph_claims_true p c s0 s e v k :
  prime p -> 2 < p -> Z.log2 p < 2 ^ 64 ->
  vjust_cfg p c = true ->
  init_ok (all_stmts (c_blocks c)) p s0 -> reachable (all_stmts (c_blocks c)) p s0 s ->
  occurs_in c e -> evalR p s e v -> expr_val e = Some k -> claim_ok k v.
Proof.
  intros Hprime Hp Hlog Hv Hi Hr Ho Hev Hk.
  eapply (justified_claims_true p Hprime Hp Hlog (all_stmts (c_blocks c))); eauto.
  apply vjust_cfg_occurs; assumption.
Qed.

(* the two findings that rest on value claims *)
Corollary constant_condition_claim_true p c s0 s e v (b : bool) :
  prime p -> 2 < p -> Z.log2 p < 2 ^ 64 ->
  vjust_cfg p c = true ->
  init_ok (all_stmts (c_blocks c)) p s0 -> reachable (all_stmts (c_blocks c)) p s0 s ->
  occurs_in c e -> evalR p s e v -> expr_val e = Some (VBool b) ->
  (v <> 0 <-> b = true).
Proof.
  intros Hprime Hp Hlog Hv Hi Hr Ho Hev Hk.
  pose proof (validated_graph_claims_true p c s0 s e v _ Hprime Hp Hlog Hv Hi Hr Ho Hev Hk) as H.
  cbn in H. subst v. destruct b; cbn; split; intros; try congruence; try lia.
Qed.

Corollary size_claim_true p c s0 s e v z bound :
  prime p -> 2 < p -> Z.log2 p < 2 ^ 64 ->
  vjust_cfg p c = true ->
  init_ok (all_stmts (c_blocks c)) p s0 -> reachable (all_stmts (c_blocks c)) p s0 s ->
  occurs_in c e -> evalR p s e v -> expr_val e = Some (VField z) -> z < bound -> v < bound.
Proof.
  intros Hprime Hp Hlog Hv Hi Hr Ho Hev Hk Hz.
  pose proof (validated_graph_claims_true p c s0 s e v _ Hprime Hp Hlog Hv Hi Hr Ho Hev Hk) as H.
  cbn in H. lia.
Qed.
