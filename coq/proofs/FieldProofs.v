From Coq Require Import ZArith Zpow_facts Lia Bool Znumtheory.
Require Import Model.Base Model.Field Spec.FieldSpec.
Local Open Scope Z_scope.
Ltac Zify.zify_post_hook ::= Z.div_mod_to_equations.

(* ---------- modulus ---------- *)
Lemma modulus_spec a p : 0 < p -> modulus a p = a mod p.
Proof.
  intros Hp. unfold modulus.
  assert (Hr := Z.rem_bound_abs a p ltac:(lia)).
  assert (Ha : a = p * Z.quot a p + Z.rem a p) by (apply Z.quot_rem'; lia).
  assert (Hb : - p < Z.rem a p < p) by lia.
  rewrite Z.rem_mod_nonneg by lia.
  set (r := Z.rem a p) in *. set (q := Z.quot a p) in *.
  replace (r + p) with (r + 1 * p) by lia. rewrite Z_mod_plus_full.
  rewrite Ha. replace (p * q + r) with (r + q * p) by lia. rewrite Z_mod_plus_full.
  reflexivity.
Qed.

Lemma modulus_id a p : 0 <= a < p -> modulus a p = a.
Proof. intros H. rewrite modulus_spec by lia. apply Z.mod_small; lia. Qed.

Lemma modulus_range a p : 0 < p -> 0 <= modulus a p < p.
Proof. intros H. rewrite modulus_spec by lia. apply Z.mod_pos_bound; lia. Qed.

(* ---------- bit lengths ---------- *)
Lemma radix_len_pos p : 0 < p -> radix_len p = nbits p.
Proof.
  intros H. unfold radix_len, nbits.
  destruct (Z.eqb_spec p 0); [lia|]. rewrite Z.abs_eq by lia. reflexivity.
Qed.

Lemma lt_pow2_nbits p : 0 < p -> p < 2 ^ nbits p.
Proof. intros H. unfold nbits. apply Z.log2_spec in H. lia. Qed.

Lemma bits_spec x : 0 <= x -> bits x = if x =? 0 then 0 else Z.log2 x + 1.
Proof. intros H. unfold bits. rewrite Z.abs_eq by lia. reflexivity. Qed.

Lemma small_div_pow2 x k : 0 <= x -> (if x =? 0 then 0 else Z.log2 x + 1) <= k -> x / 2 ^ k = 0.
Proof.
  intros Hx Hk. destruct (Z.eqb_spec x 0) as [->|Hn].
  - apply Z.div_0_l. apply Z.pow_nonzero; lia.
  - apply Z.div_small. split; [lia|].
    assert (Hl := Z.log2_spec x ltac:(lia)).
    apply Z.lt_le_trans with (2 ^ (Z.succ (Z.log2 x))); [lia|].
    apply Z.pow_le_mono_r; lia.
Qed.

Lemma land_shift_zero x k b : 0 <= x -> 0 <= b <= k -> Z.land (x * 2 ^ k) (2 ^ b - 1) = 0.
Proof.
  intros Hx Hk. apply Z.bits_inj'. intros n Hn.
  rewrite Z.land_spec, Z.bits_0.
  destruct (Z.ltb_spec n b) as [Hlt|Hge].
  - rewrite Z.mul_pow2_bits_low by lia. reflexivity.
  - replace (2 ^ b - 1) with (Z.ones b) by (rewrite Z.ones_equiv; lia).
    rewrite Z.ones_spec_high by lia. apply andb_false_r.
Qed.

(* ---------- val / comparisons ---------- *)
Lemma val_spec x p : 2 < p -> 0 <= x < p -> val x p = sval x p.
Proof.
  intros Hp Hx. unfold val, sval.
  rewrite Z.quot_div_nonneg by lia.
  destruct (Z.leb_spec (p / 2 + 1) x); simpl.
  - destruct (Z.ltb_spec x p); [reflexivity|lia].
  - reflexivity.
Qed.

Lemma comparable_spec x p : 2 < p -> 0 <= x < p -> comparable_element x p = sval x p.
Proof. intros. unfold comparable_element. rewrite modulus_id by lia. apply val_spec; lia. Qed.

Lemma sval_zero_iff x p : 2 < p -> 0 <= x < p -> (sval x p = 0 <-> x = 0).
Proof.
  intros Hp Hx. unfold sval. destruct (Z.leb_spec (p / 2 + 1) x); [|tauto].
  split; intros; lia.
Qed.

Lemma normalize_spec x p : 2 < p -> 0 <= x < p -> normalize x p = b2z (truthy x).
Proof.
  intros Hp Hx. unfold normalize, truthy. rewrite comparable_spec by lia.
  destruct (Z.eqb_spec (sval x p) 0) as [H|H]; destruct (Z.eqb_spec x 0) as [H'|H']; simpl; try reflexivity.
  - apply sval_zero_iff in H; lia.
  - apply (sval_zero_iff x p) in H'; lia.
Qed.

Lemma normalize_bool (b : bool) p : 2 < p -> normalize (b2z b) p = b2z b.
Proof.
  intros. rewrite normalize_spec by (destruct b; simpl; lia). destruct b; reflexivity.
Qed.

Lemma not_b2z (b : bool) p : 2 < p -> not (b2z b) p = b2z (negb b).
Proof. intros. unfold not. rewrite normalize_bool by lia. destruct b; reflexivity. Qed.

Lemma bool_or_b2z (x y : bool) p : 2 < p -> bool_or (b2z x) (b2z y) p = b2z (x || y).
Proof.
  intros. unfold bool_or, bool_and. rewrite !normalize_bool by lia.
  destruct x, y; reflexivity.
Qed.

Lemma lesser_spec a b p : 2 < p -> 0 <= a < p -> 0 <= b < p ->
  lesser a b p = b2z (sval a p <? sval b p).
Proof. intros. unfold lesser. rewrite !comparable_spec by lia. reflexivity. Qed.

Lemma eq_spec a b p : 2 < p -> 0 <= a < p -> 0 <= b < p -> eq a b p = b2z (a =? b).
Proof. intros. unfold eq. rewrite !modulus_id by lia. reflexivity. Qed.

Lemma lesser_eq_spec a b p : 2 < p -> 0 <= a < p -> 0 <= b < p ->
  lesser_eq a b p = b2z (sval a p <=? sval b p).
Proof.
  intros Hp Ha Hb. unfold lesser_eq. rewrite lesser_spec, eq_spec, bool_or_b2z by lia.
  f_equal.
  destruct (Z.ltb_spec (sval a p) (sval b p)); destruct (Z.eqb_spec a b);
    destruct (Z.leb_spec (sval a p) (sval b p)); simpl; try reflexivity; try lia.
  - subst. lia.
  - exfalso. assert (sval a p = sval b p) by lia.
    unfold sval in *. destruct (Z.leb_spec (p / 2 + 1) a); destruct (Z.leb_spec (p / 2 + 1) b); lia.
Qed.

Lemma greater_spec a b p : 2 < p -> 0 <= a < p -> 0 <= b < p ->
  greater a b p = b2z (sval b p <? sval a p).
Proof.
  intros. unfold greater. rewrite lesser_eq_spec, not_b2z by lia. f_equal.
  rewrite Z.ltb_antisym. reflexivity.
Qed.

Lemma greater_eq_spec a b p : 2 < p -> 0 <= a < p -> 0 <= b < p ->
  greater_eq a b p = b2z (sval b p <=? sval a p).
Proof.
  intros Hp Ha Hb. unfold greater_eq. rewrite greater_spec, eq_spec, bool_or_b2z by lia. f_equal.
  destruct (Z.ltb_spec (sval b p) (sval a p)); destruct (Z.eqb_spec a b);
    destruct (Z.leb_spec (sval b p) (sval a p)); simpl; try reflexivity; try lia.
  - subst. lia.
  - exfalso. assert (sval a p = sval b p) by lia.
    unfold sval in *. destruct (Z.leb_spec (p / 2 + 1) a); destruct (Z.leb_spec (p / 2 + 1) b); lia.
Qed.

(* ---------- shifts ---------- *)
Lemma to_usize_small k : 0 <= k < 2 ^ 64 -> to_usize k = Some k.
Proof.
  intros H. unfold to_usize.
  destruct (Z.leb_spec 0 k); destruct (Z.ltb_spec k (2 ^ 64)); simpl; try reflexivity; lia.
Qed.

Lemma shr_direct_spec l k p : 0 <= l -> 0 <= k < 2 ^ 64 -> shr_direct l k p = Ok (shr_doc l k).
Proof.
  intros Hl Hk. unfold shr_direct, shr_doc. rewrite to_usize_small by lia.
  rewrite bits_spec by lia.
  destruct (Z.leb_spec (if l =? 0 then 0 else Z.log2 l + 1) k).
  - rewrite small_div_pow2 by lia. reflexivity.
  - rewrite Z.quot_div_nonneg; [reflexivity|lia|]. apply Z.pow_pos_nonneg; lia.
Qed.

Lemma shl_direct_spec l k p : 0 < p -> 0 <= l -> 0 <= k < 2 ^ 64 ->
  shl_direct l k p = Ok (shl_doc l k p).
Proof.
  intros Hp Hl Hk. unfold shl_direct, shl_doc, mask. rewrite to_usize_small by lia.
  rewrite radix_len_pos by lia.
  destruct (Z.leb_spec (nbits p) k).
  - rewrite land_shift_zero; [rewrite Z.mod_0_l by lia; reflexivity | lia |].
    unfold nbits in *. pose proof (Z.log2_nonneg p). lia.
  - rewrite modulus_spec by lia. reflexivity.
Qed.

(* ---------- the refinement theorem (everything except division) ---------- *)
Definition is_shift (o : fop) : bool := match o with OShl | OShr => true | _ => false end.

(* The implementation may answer an over-large shift count (one that does not
   fit a machine word) with an error instead of the defined value 0. *)
Definition refines (o : fop) (m s : outcome Z) : Prop :=
  m = s \/ (is_shift o = true /\ m = Err EDivisionByZero /\ s = Ok 0).

Lemma to_usize_big k : 2 ^ 64 <= k -> to_usize k = None.
Proof.
  intros H. unfold to_usize. destruct (Z.ltb_spec k (2 ^ 64)); [lia|]. rewrite andb_false_r. reflexivity.
Qed.

Lemma shr_direct_refines l k p : 0 < p -> Z.log2 p < 2 ^ 64 -> 0 <= l < p -> 0 <= k ->
  shr_direct l k p = Ok (shr_doc l k) \/
  (shr_direct l k p = Err EDivisionByZero /\ shr_doc l k = 0).
Proof.
  intros Hp Hlog Hl Hk. destruct (Z.ltb_spec k (2 ^ 64)).
  - left. apply shr_direct_spec; lia.
  - right. split.
    + unfold shr_direct. rewrite to_usize_big by lia. reflexivity.
    + unfold shr_doc. apply small_div_pow2; [lia|].
      destruct (Z.eqb_spec l 0); [lia|].
      assert (Z.log2 l <= Z.log2 p) by (apply Z.log2_le_mono; lia). lia.
Qed.

Lemma shl_direct_refines l k p : 0 < p -> Z.log2 p < 2 ^ 64 -> 0 <= l < p -> 0 <= k ->
  shl_direct l k p = Ok (shl_doc l k p) \/
  (shl_direct l k p = Err EDivisionByZero /\ shl_doc l k p = 0).
Proof.
  intros Hp Hlog Hl Hk. destruct (Z.ltb_spec k (2 ^ 64)).
  - left. apply shl_direct_spec; lia.
  - right. split.
    + unfold shl_direct. rewrite to_usize_big by lia. reflexivity.
    + unfold shl_doc. rewrite land_shift_zero; [apply Z.mod_0_l; lia | lia |].
      unfold nbits. pose proof (Z.log2_nonneg p). lia.
Qed.

Lemma Zpow_mod_spec a b p : 0 < p -> Zpow_mod a b p = a ^ b mod p.
Proof. intros. apply Zpow_mod_correct. lia. Qed.

Theorem field_refines_spec o a b p :
  2 < p -> Z.log2 p < 2 ^ 64 -> 0 <= a < p -> 0 <= b < p -> o <> ODiv ->
  refines o (eval o a b p) (spec o a b p).
Proof.
  intros Hp Hlog Ha Hb Hdiv.
  assert (Htop : Z.quot p 2 = p / 2) by (apply Z.quot_div_nonneg; lia).
  destruct o; try congruence; unfold refines; cbn [eval spec is_shift].
  - left. unfold add. rewrite modulus_spec by lia. reflexivity.
  - left. unfold mul. rewrite modulus_spec by lia. reflexivity.
  - left. unfold sub. rewrite modulus_spec by lia. reflexivity.
  - (* idiv *) left. unfold idiv. cbv zeta. rewrite (modulus_id a p), (modulus_id b p) by lia.
    destruct (Z.eqb_spec b 0); [reflexivity|].
    rewrite Z.quot_div_nonneg by lia. reflexivity.
  - (* mod *) left. unfold mod_op. cbv zeta. rewrite (modulus_id a p), (modulus_id b p) by lia.
    destruct (Z.eqb_spec b 0); [reflexivity|].
    rewrite modulus_spec by lia. reflexivity.
  - (* pow *) left. unfold pow. rewrite Zpow_mod_spec by lia. reflexivity.
  - (* neg *) left. unfold prefix_sub, mul. rewrite modulus_spec by lia. f_equal. f_equal. lia.
  - (* complement *) left. unfold complement_256.
    destruct (Z.ltb_spec a 0); [lia|]. rewrite Z.abs_eq by lia.
    rewrite modulus_spec by lia. reflexivity.
  - (* shl *) unfold shift_l. rewrite Htop.
    destruct (Z.leb_spec b (p / 2)).
    + destruct (shl_direct_refines a b p) as [->|[-> ->]]; try lia; auto.
    + destruct (Z.leb_spec (p - b) (p / 2)); [|lia].
      destruct (shr_direct_refines a (p - b) p) as [->|[-> ->]]; try lia; auto.
  - (* shr *) unfold shift_r. rewrite Htop.
    destruct (Z.leb_spec b (p / 2)).
    + destruct (shr_direct_refines a b p) as [->|[-> ->]]; try lia; auto.
    + destruct (Z.leb_spec (p - b) (p / 2)); [|lia].
      destruct (shl_direct_refines a (p - b) p) as [->|[-> ->]]; try lia; auto.
  - left. unfold bit_or. rewrite modulus_spec by lia. reflexivity.
  - left. unfold bit_and. rewrite modulus_spec by lia. reflexivity.
  - left. unfold bit_xor. rewrite modulus_spec by lia. reflexivity.
  - (* as_bool *) left. unfold as_bool. rewrite normalize_spec by lia.
    unfold truthy. destruct (Z.eqb_spec a 0); reflexivity.
  - (* not *) left. unfold not. rewrite normalize_spec by lia.
    unfold truthy. destruct (Z.eqb_spec a 0); reflexivity.
  - (* or *) left. unfold bool_or, bool_and. rewrite !normalize_spec by lia.
    unfold truthy. destruct (Z.eqb_spec a 0); destruct (Z.eqb_spec b 0); reflexivity.
  - (* and *) left. unfold bool_and. rewrite !normalize_spec by lia.
    unfold truthy. destruct (Z.eqb_spec a 0); destruct (Z.eqb_spec b 0); reflexivity.
  - left. rewrite eq_spec by lia. reflexivity.
  - left. rewrite lesser_spec by lia. reflexivity.
  - left. unfold not_eq. rewrite eq_spec, not_b2z by lia. reflexivity.
  - left. rewrite lesser_eq_spec by lia. reflexivity.
  - left. rewrite greater_spec by lia. reflexivity.
  - left. rewrite greater_eq_spec by lia. reflexivity.
Qed.

(* ---------- division: extended Euclid ---------- *)
Lemma egcd_bezout n : forall a b g x y, egcd n a b = Some (g, x, y) -> a * x + b * y = g.
Proof.
  induction n as [|n IH]; intros a b g x y; cbn [egcd].
  - destruct (Z.eqb_spec b 0); [|discriminate]. intros [= <- <- <-]. lia.
  - destruct (Z.eqb_spec b 0). { intros [= <- <- <-]. lia. }
    destruct (egcd n b (a mod b)) as [[[g' x'] y']|] eqn:E; [|discriminate].
    intros [= <- <- <-]. apply IH in E.
    pose proof (Z.div_mod a b ltac:(lia)). nia.
Qed.

Lemma egcd_gcd n : forall a b g x y, 0 <= a -> 0 <= b ->
  egcd n a b = Some (g, x, y) -> g = Z.gcd a b.
Proof.
  induction n as [|n IH]; intros a b g x y Ha Hb; cbn [egcd].
  - destruct (Z.eqb_spec b 0); [|discriminate]. intros [= <- <- <-]. subst.
    rewrite Z.gcd_0_r, Z.abs_eq; lia.
  - destruct (Z.eqb_spec b 0). { intros [= <- <- <-]. subst. rewrite Z.gcd_0_r, Z.abs_eq; lia. }
    destruct (egcd n b (a mod b)) as [[[g' x'] y']|] eqn:E; [|discriminate].
    intros [= <- <- <-]. apply IH in E; [|lia|apply Z.mod_pos_bound; lia].
    rewrite E, Z.gcd_comm, Z.gcd_mod by lia. apply Z.gcd_comm.
Qed.

Lemma egcd_fuel_le n : forall a b, 0 <= b <= a -> a * b < 2 ^ Z.of_nat n -> egcd n a b <> None.
Proof.
  induction n as [|n IH]; intros a b Hab Hlt; cbn [egcd].
  - destruct (Z.eqb_spec b 0); [discriminate|]. exfalso. cbn in Hlt. nia.
  - destruct (Z.eqb_spec b 0); [discriminate|].
    assert (Hr := Z.mod_pos_bound a b ltac:(lia)).
    assert (Hd := Z.div_mod a b ltac:(lia)).
    assert (1 <= a / b) by (apply Z.div_le_lower_bound; lia).
    specialize (IH b (a mod b) ltac:(lia)).
    destruct (egcd n b (a mod b)) as [[[g' x'] y']|]; [discriminate|].
    exfalso. apply IH; [|reflexivity].
    rewrite Nat2Z.inj_succ, Z.pow_succ_r in Hlt by lia. nia.
Qed.

Lemma lt_pow2_log2 a : 0 <= a -> a < 2 ^ (Z.log2 a + 1).
Proof.
  intros H. destruct (Z.eqb_spec a 0) as [->|]; [reflexivity|].
  pose proof (Z.log2_spec a ltac:(lia)). lia.
Qed.

Lemma egcd_total a b : 0 <= a -> 0 <= b -> egcd (egcd_fuel a b) a b <> None.
Proof.
  intros Ha Hb. unfold egcd_fuel. rewrite !Z.abs_eq by lia.
  pose proof (Z.log2_nonneg a). pose proof (Z.log2_nonneg b).
  pose proof (lt_pow2_log2 a Ha). pose proof (lt_pow2_log2 b Hb).
  assert (Hab : a * b < 2 ^ (Z.log2 a + Z.log2 b + 2)).
  { replace (Z.log2 a + Z.log2 b + 2) with ((Z.log2 a + 1) + (Z.log2 b + 1)) by lia.
    rewrite Z.pow_add_r by lia. nia. }
  destruct (Z.leb_spec b a).
  - apply egcd_fuel_le; [lia|]. rewrite Z2Nat.id by lia.
    eapply Z.lt_le_trans; [exact Hab|]. apply Z.pow_le_mono_r; lia.
  - replace (Z.to_nat (Z.log2 a + Z.log2 b + 4)) with (S (Z.to_nat (Z.log2 a + Z.log2 b + 3))) by lia.
    cbn [egcd]. destruct (Z.eqb_spec b 0); [discriminate|].
    rewrite Z.mod_small by lia.
    pose proof (egcd_fuel_le (Z.to_nat (Z.log2 a + Z.log2 b + 3)) b a ltac:(lia)) as Hf.
    destruct (egcd _ b a) as [[[g x] y]|]; [discriminate|].
    exfalso. apply Hf; [|reflexivity]. rewrite Z2Nat.id by lia.
    eapply Z.lt_le_trans with (2 ^ (Z.log2 a + Z.log2 b + 2)); [lia|].
    apply Z.pow_le_mono_r; lia.
Qed.

Theorem div_refines_spec a b p :
  prime p -> 2 < p -> 0 <= a < p -> 0 <= b < p -> div_spec a b p (div a b p).
Proof.
  intros Hprime Hp Ha Hb. unfold div, mod_inverse.
  pose proof (egcd_total b p ltac:(lia) ltac:(lia)) as Htot.
  destruct (egcd (egcd_fuel b p) b p) as [[[g x] y]|] eqn:E; [|congruence]. clear Htot.
  pose proof (egcd_bezout _ _ _ _ _ _ E) as Hbez.
  pose proof (egcd_gcd _ b p g x y ltac:(lia) ltac:(lia) E) as Hg.
  destruct (Z.eqb_spec b 0) as [->|Hb0].
  - rewrite Z.gcd_0_l, Z.abs_eq in Hg by lia. rewrite Hg in *.
    destruct (Z.eqb_spec p 1); [lia|]. cbn. reflexivity.
  - assert (Hrel : Z.gcd b p = 1).
    { apply Zgcd_1_rel_prime. apply rel_prime_le_prime; [assumption|lia]. }
    rewrite Hrel in Hg. rewrite Hg in *. cbn [Z.eqb bind Pos.eqb].
    set (ri := if x <? 0 then x + p else x).
    assert (Hri : exists k, ri * b = 1 + k * p).
    { unfold ri. destruct (Z.ltb_spec x 0); [exists (b - y)|exists (- y)]; lia. }
    destruct Hri as [k Hk]. cbn. split; [assumption|]. split.
    + unfold mul. apply modulus_range; lia.
    + unfold mul. rewrite modulus_spec by lia.
      rewrite Z.mul_mod_idemp_l by lia.
      replace (a * ri * b) with (a + (a * k) * p) by nia.
      rewrite Z_mod_plus_full. apply Z.mod_small; lia.
Qed.

(* ---------- canonical results, no panic, no exhausted fuel ---------- *)
Lemma b2z_range (x : bool) p : 2 < p -> 0 <= b2z x < p.
Proof. destruct x; cbn; lia. Qed.

Local Opaque Z.pow.
Lemma spec_canonical o a b p c :
  2 < p -> 0 <= a < p -> 0 <= b < p -> o <> ODiv -> spec o a b p = Ok c -> 0 <= c < p.
Proof.
  intros Hp Ha Hb Hd.
  assert (Hpow : forall k, 0 < 2 ^ k \/ 2 ^ k = 0).
  { intros k. destruct (Z.leb_spec 0 k); [left; apply Z.pow_pos_nonneg; lia|right; apply Z.pow_neg_r; lia]. }
  assert (Hshr : forall k, 0 <= shr_doc a k < p).
  { intros k. unfold shr_doc. destruct (Hpow k) as [H|H].
    - split; [apply Z.div_pos; lia|]. apply Z.le_lt_trans with a; [|lia]. apply Z.div_le_upper_bound; nia.
    - rewrite H, Zdiv_0_r. lia. }
  assert (Hshl : forall k, 0 <= shl_doc a k p < p) by (intros; unfold shl_doc; apply Z.mod_pos_bound; lia).
  assert (Hmod : forall x, 0 <= x mod p < p) by (intros; apply Z.mod_pos_bound; lia).
  assert (Hb2z : forall x, 0 <= b2z x < p) by (intros; apply b2z_range; lia).
  destruct o; try (exfalso; apply Hd; reflexivity); cbn [spec]; intros He.
  1-3: injection He as <-; apply Hmod.
  - destruct (Z.eqb_spec b 0); [discriminate|]. injection He as <-.
    split; [apply Z.div_pos; lia|]. apply Z.le_lt_trans with a; [|lia]. apply Z.div_le_upper_bound; nia.
  - destruct (Z.eqb_spec b 0); [discriminate|]. injection He as <-.
    pose proof (Z.mod_pos_bound a b ltac:(lia)). lia.
  - injection He as <-; apply Hmod.
  - injection He as <-; apply Hmod.
  - injection He as <-; apply Hmod.
  - destruct (b <=? p / 2); injection He as <-; auto.
  - destruct (b <=? p / 2); injection He as <-; auto.
  - injection He as <-; apply Hmod.
  - injection He as <-; apply Hmod.
  - injection He as <-; apply Hmod.
  - injection He as <-; apply Hb2z.
  - injection He as <-; apply Hb2z.
  - injection He as <-; apply Hb2z.
  - injection He as <-; apply Hb2z.
  - injection He as <-; apply Hb2z.
  - injection He as <-; apply Hb2z.
  - injection He as <-; apply Hb2z.
  - injection He as <-; apply Hb2z.
  - injection He as <-; apply Hb2z.
  - injection He as <-; apply Hb2z.
Qed.

Theorem field_canonical o a b p c :
  prime p -> 2 < p -> Z.log2 p < 2 ^ 64 -> 0 <= a < p -> 0 <= b < p ->
  eval o a b p = Ok c -> 0 <= c < p.
Proof.
  intros Hprime Hp Hlog Ha Hb He.
  destruct (match o with ODiv => true | _ => false end) eqn:Ho.
  - destruct o; try discriminate. cbn [eval] in He.
    pose proof (div_refines_spec a b p Hprime Hp Ha Hb) as Hs. rewrite He in Hs. cbn in Hs. tauto.
  - assert (Hd : o <> ODiv) by (intros ->; discriminate).
    destruct (field_refines_spec o a b p Hp Hlog Ha Hb Hd) as [Hr|(_ & Hr & _)].
    + rewrite Hr in He. exact (spec_canonical o a b p c Hp Ha Hb Hd He).
    + congruence.
Qed.

Theorem field_never_panics o a b p :
  prime p -> 2 < p -> Z.log2 p < 2 ^ 64 -> 0 <= a < p -> 0 <= b < p ->
  (exists c, eval o a b p = Ok c) \/
  (eval o a b p = Err EDivisionByZero /\
   (((o = ODiv \/ o = OIDiv \/ o = OMod) /\ b = 0) \/
    (o = OShl \/ o = OShr) /\ 2 ^ 64 <= b /\ 2 ^ 64 <= p - b)).
Proof.
  intros Hprime Hp Hlog Ha Hb.
  destruct (match o with ODiv => true | _ => false end) eqn:Ho.
  - destruct o; try discriminate. cbn [eval].
    pose proof (div_refines_spec a b p Hprime Hp Ha Hb) as Hs.
    destruct (div a b p) as [c|[]| |]; cbn in Hs; try contradiction; eauto.
    right. split; [reflexivity|]. left. tauto.
  - assert (Hd : o <> ODiv) by (intros ->; discriminate).
    assert (Htop : Z.quot p 2 = p / 2) by (apply Z.quot_div_nonneg; lia).
    destruct o; try congruence; cbn [eval]; eauto.
    + unfold idiv. cbv zeta. rewrite (modulus_id b p) by lia.
      destruct (Z.eqb_spec b 0); eauto. right. split; [reflexivity|]. left. tauto.
    + unfold mod_op. cbv zeta. rewrite (modulus_id b p) by lia.
      destruct (Z.eqb_spec b 0); eauto. right. split; [reflexivity|]. left. tauto.
    + unfold shift_l. rewrite Htop. destruct (Z.leb_spec b (p / 2)).
      * destruct (Z.ltb_spec b (2 ^ 64)).
        -- rewrite shl_direct_spec by lia. eauto.
        -- right. unfold shl_direct. rewrite to_usize_big by lia. split; [reflexivity|]. right. split; [tauto|lia].
      * destruct (Z.leb_spec (p - b) (p / 2)); [|lia].
        destruct (Z.ltb_spec (p - b) (2 ^ 64)).
        -- rewrite shr_direct_spec by lia. eauto.
        -- right. unfold shr_direct. rewrite to_usize_big by lia. split; [reflexivity|]. right. split; [tauto|lia].
    + unfold shift_r. rewrite Htop. destruct (Z.leb_spec b (p / 2)).
      * destruct (Z.ltb_spec b (2 ^ 64)).
        -- rewrite shr_direct_spec by lia. eauto.
        -- right. unfold shr_direct. rewrite to_usize_big by lia. split; [reflexivity|]. right. split; [tauto|lia].
      * destruct (Z.leb_spec (p - b) (p / 2)); [|lia].
        destruct (Z.ltb_spec (p - b) (2 ^ 64)).
        -- rewrite shl_direct_spec by lia. eauto.
        -- right. unfold shl_direct. rewrite to_usize_big by lia. split; [reflexivity|]. right. split; [tauto|lia].
Qed.

(* ---------- bounded work of the shifts: the recursion as written, for ALL integer operands ---------- *)
Lemma bits_ge0 x : 0 <= bits x.
Proof. unfold bits. destruct (x =? 0); [lia|]. pose proof (Z.log2_nonneg (Z.abs x)). lia. Qed.

Lemma radix_len_ge1 x : 1 <= radix_len x.
Proof. unfold radix_len. destruct (x =? 0); [lia|]. pose proof (Z.log2_nonneg (Z.abs x)). lia. Qed.

Lemma bits_mul_pow2 l k : 0 <= k -> bits (l * 2 ^ k) = if l =? 0 then 0 else bits l + k.
Proof.
  intros Hk. unfold bits. assert (H2 : 0 < 2 ^ k) by (apply Z.pow_pos_nonneg; lia).
  destruct (Z.eqb_spec l 0) as [->|Hl]; [reflexivity|].
  destruct (Z.eqb_spec (l * 2 ^ k) 0) as [E|_]; [nia|].
  rewrite Z.abs_mul, (Z.abs_eq (2 ^ k)) by lia. rewrite Z.log2_mul_pow2 by lia. lia.
Qed.

Lemma bits_pow2 k : 0 <= k -> bits (2 ^ k) = k + 1.
Proof.
  intros Hk. pose proof (bits_mul_pow2 1 k Hk) as H. rewrite Z.mul_1_l in H.
  rewrite H. assert (E : bits 1 = 1) by reflexivity. rewrite E. cbn [Z.eqb]. lia.
Qed.

(* one direct call.  Value and work come from one definition (shl_direct_w / shr_direct_w); the value
   part is the shl_direct / shr_direct of the refinement theorems *)
Lemma shl_direct_w_value l r p : fst (shl_direct_w l r p) = shl_direct l r p.
Proof.
  unfold shl_direct_w, shl_direct, mask, pow2_tick, sized.
  destruct (to_usize r) as [k|]; [|reflexivity]. destruct (radix_len p <=? k); reflexivity.
Qed.

Lemma shr_direct_w_value l r p : fst (shr_direct_w l r p) = shr_direct l r p.
Proof.
  unfold shr_direct_w, shr_direct, pow2_tick.
  destruct (to_usize r) as [k|]; [|reflexivity]. destruct (bits l <=? k); reflexivity.
Qed.

Definition direct_w (left : bool) (l r p : Z) : outcome Z * shift_work :=
  if left then shl_direct_w l r p else shr_direct_w l r p.

(* the record says `2^k was built` exactly when the value is the one formed from 2^k, and then k is
   the count, below the mask width (left) or the operand's bit size (right); when it says that no
   power was built, the value is 0 or the error; the sizes recorded are bounded by the bit sizes *)
Lemma direct_w_work left l r p :
  (sw_calls (snd (direct_w left l r p)) = 1)%nat /\
  (forall k, sw_built (snd (direct_w left l r p)) = Some k ->
     0 <= k < 2 ^ 64 /\ r = k /\
     ((k < radix_len p /\ fst (direct_w left l r p) = Ok (modulus (Z.land (l * 2 ^ k) (mask p)) p)) \/
      (k < bits l /\ fst (direct_w left l r p) = Ok (Z.quot l (2 ^ k))))) /\
  (sw_built (snd (direct_w left l r p)) = None ->
     sw_bits (snd (direct_w left l r p)) = 0 /\
     (fst (direct_w left l r p) = Ok 0 \/ fst (direct_w left l r p) = Err EDivisionByZero)) /\
  0 <= sw_bits (snd (direct_w left l r p)) <= bits l + radix_len p + 1.
Proof.
  pose proof (bits_ge0 l) as Hb. pose proof (radix_len_ge1 p) as Hr.
  unfold direct_w, shl_direct_w, shr_direct_w, to_usize, pow2_tick, sized, no_work, mask.
  destruct (Z.leb_spec 0 r); destruct (Z.ltb_spec r (2 ^ 64)); cbn [andb];
    try (destruct left; cbn [fst snd sw_calls sw_built sw_bits];
         (split; [reflexivity|split; [discriminate|split; [auto|lia]]])).
  destruct left.
  - destruct (Z.leb_spec (radix_len p) r); cbn [fst snd sw_calls sw_built sw_bits];
      [split; [reflexivity|split; [discriminate|split; [auto|lia]]]|].
    split; [reflexivity|]. split; [intros k [= <-]; split; [lia|split; [reflexivity|left; split; [lia|reflexivity]]]|].
    split; [discriminate|].
    rewrite bits_pow2, bits_mul_pow2, bits_pow2 by lia. destruct (l =? 0); lia.
  - destruct (Z.leb_spec (bits l) r); cbn [fst snd sw_calls sw_built sw_bits];
      [split; [reflexivity|split; [discriminate|split; [auto|lia]]]|].
    split; [reflexivity|]. split; [intros k [= <-]; split; [lia|split; [reflexivity|right; split; [lia|reflexivity]]]|].
    split; [discriminate|].
    rewrite bits_pow2 by lia. lia.
Qed.

Lemma direct_w_value left l r p :
  fst (direct_w left l r p) = if left then shl_direct l r p else shr_direct l r p.
Proof. unfold direct_w. destruct left; [apply shl_direct_w_value|apply shr_direct_w_value]. Qed.

Lemma shift_w_step n left l r p :
  shift_w (S n) left l r p =
  if r <=? Z.quot p 2 then direct_w left l r p
  else (fst (shift_w n (negb left) l (p - r) p),
        {| sw_calls := S (sw_calls (snd (shift_w n (negb left) l (p - r) p)));
           sw_built := sw_built (snd (shift_w n (negb left) l (p - r) p));
           sw_bits := sw_bits (snd (shift_w n (negb left) l (p - r) p)) |}).
Proof.
  cbn [shift_w]. cbv zeta. unfold direct_w. destruct (r <=? Z.quot p 2); [reflexivity|].
  destruct (shift_w n (negb left) l (p - r) p) as [res w]. reflexivity.
Qed.

(* the value of the recursion as written is the unfolded shift_l / shift_r of the refinement theorems *)
Lemma shift_w_value fuel left l r p :
  0 < p -> (2 <= fuel)%nat ->
  fst (shift_w fuel left l r p) = if left then shift_l l r p else shift_r l r p.
Proof.
  intros Hp Hf. destruct fuel as [|[|n]]; try lia.
  assert (Htop : Z.quot p 2 = p / 2) by (apply Z.quot_div_nonneg; lia).
  rewrite shift_w_step. unfold shift_l, shift_r. cbv zeta. rewrite Htop.
  destruct (Z.leb_spec r (p / 2)).
  - rewrite direct_w_value. destruct left; reflexivity.
  - rewrite shift_w_step. rewrite Htop. cbn [fst].
    destruct (Z.leb_spec (p - r) (p / 2)); [|lia].
    rewrite direct_w_value. destruct left; reflexivity.
Qed.

Lemma direct_not_outoffuel (left : bool) (l r p : Z) :
  fst (direct_w left l r p) <> OutOfFuel.
Proof.
  rewrite direct_w_value.
  destruct left; [unfold shl_direct|unfold shr_direct]; destruct (to_usize r); try discriminate;
    match goal with |- context [if ?c then _ else _] => destruct c end; discriminate.
Qed.

Theorem shift_bounded_work fuel left l r p :
  0 < p -> (2 <= fuel)%nat ->
  fst (shift_w fuel left l r p) = (if left then shift_l l r p else shift_r l r p) /\
  fst (shift_w fuel left l r p) <> OutOfFuel /\
  (1 <= sw_calls (snd (shift_w fuel left l r p)) <= 2)%nat /\
  (forall k, sw_built (snd (shift_w fuel left l r p)) = Some k ->
     0 <= k < 2 ^ 64 /\ (r = k \/ r = p - k) /\
     ((k < radix_len p /\ fst (shift_w fuel left l r p) = Ok (modulus (Z.land (l * 2 ^ k) (mask p)) p)) \/
      (k < bits l /\ fst (shift_w fuel left l r p) = Ok (Z.quot l (2 ^ k))))) /\
  (sw_built (snd (shift_w fuel left l r p)) = None ->
     sw_bits (snd (shift_w fuel left l r p)) = 0 /\
     (fst (shift_w fuel left l r p) = Ok 0 \/ fst (shift_w fuel left l r p) = Err EDivisionByZero)) /\
  0 <= sw_bits (snd (shift_w fuel left l r p)) <= bits l + radix_len p + 1.
Proof.
  intros Hp Hf. split; [apply shift_w_value; assumption|].
  destruct fuel as [|[|n]]; try lia.
  assert (Htop : Z.quot p 2 = p / 2) by (apply Z.quot_div_nonneg; lia).
  rewrite shift_w_step. rewrite Htop.
  destruct (Z.leb_spec r (p / 2)).
  - destruct (direct_w_work left l r p) as (Hc & Hk & Hn & Hs).
    split; [apply direct_not_outoffuel|]. split; [lia|]. split; [|split; assumption].
    intros k E. destruct (Hk k E) as (H1 & H2 & H3). split; [assumption|]. split; [left; assumption|assumption].
  - rewrite shift_w_step. rewrite Htop.
    destruct (Z.leb_spec (p - r) (p / 2)); [|lia]. cbn [fst snd sw_calls sw_built sw_bits].
    destruct (direct_w_work (negb left) l (p - r) p) as (Hc & Hk & Hn & Hs).
    split; [apply direct_not_outoffuel|]. split; [lia|]. split; [|split; assumption].
    intros k E. destruct (Hk k E) as (H1 & H2 & H3). split; [assumption|]. split; [right; lia|assumption].
Qed.

(* ---------- operands that are no field elements (negative, at or above p): what still holds ---------- *)
Lemma normalize_01 x p : normalize x p = 0 \/ normalize x p = 1.
Proof. unfold normalize. destruct (comparable_element x p =? 0); auto. Qed.

Lemma not_01 x p : not x p = 0 \/ not x p = 1.
Proof. unfold not. destruct (normalize_01 x p) as [-> | ->]; cbn; auto. Qed.

Lemma bool_and_01 l r p : bool_and l r p = 0 \/ bool_and l r p = 1.
Proof. unfold bool_and. destruct (normalize_01 l p) as [-> | ->], (normalize_01 r p) as [-> | ->]; cbn; auto. Qed.

Lemma bool_or_01 l r p : bool_or l r p = 0 \/ bool_or l r p = 1.
Proof.
  unfold bool_or, bool_and. destruct (normalize_01 l p) as [-> | ->], (normalize_01 r p) as [-> | ->]; cbn; auto.
Qed.

(* every function except `**` and the shifts answers canonically WHATEVER integers it is given
   (the value itself is fixed by the property only for field elements) *)
Theorem eval_canonical_any_integers o a b p c :
  1 < p -> o <> OPow -> o <> OShl -> o <> OShr ->
  eval o a b p = Ok c -> 0 <= c < p.
Proof.
  intros Hp Hpow Hshl Hshr.
  assert (H01 : forall z, z = 0 \/ z = 1 -> 0 <= z < p) by (intros z [-> | ->]; lia).
  destruct o; try congruence; cbn [eval].
  - intros [= <-]. apply modulus_range; lia.
  - intros [= <-]. apply modulus_range; lia.
  - intros [= <-]. apply modulus_range; lia.
  - unfold div, bind. destruct (mod_inverse b p) as [[ri|]| | |]; try discriminate.
    intros [= <-]. apply modulus_range; lia.
  - unfold idiv. cbv zeta. destruct (Z.eqb_spec (modulus b p) 0); [discriminate|]. intros [= <-].
    pose proof (modulus_range a p ltac:(lia)). pose proof (modulus_range b p ltac:(lia)).
    rewrite Z.quot_div_nonneg by lia. split; [apply Z.div_pos; lia|].
    apply Z.le_lt_trans with (modulus a p); [|lia]. apply Z.div_le_upper_bound; nia.
  - unfold mod_op. cbv zeta. destruct (Z.eqb_spec (modulus b p) 0); [discriminate|]. intros [= <-].
    pose proof (modulus_range b p ltac:(lia)).
    pose proof (modulus_range (modulus a p) (modulus b p) ltac:(lia)). lia.
  - intros [= <-]. apply modulus_range; lia.
  - intros [= <-]. apply modulus_range; lia.
  - intros [= <-]. apply modulus_range; lia.
  - intros [= <-]. apply modulus_range; lia.
  - intros [= <-]. apply modulus_range; lia.
  - intros [= <-]. destruct (as_bool a p); lia.
  - intros [= <-]. apply H01, not_01.
  - intros [= <-]. apply H01, bool_or_01.
  - intros [= <-]. apply H01, bool_and_01.
  - intros [= <-]. unfold eq. destruct (modulus a p =? modulus b p); lia.
  - intros [= <-]. unfold lesser. destruct (comparable_element a p <? comparable_element b p); lia.
  - intros [= <-]. apply H01, not_01.
  - intros [= <-]. apply H01, bool_or_01.
  - intros [= <-]. apply H01, not_01.
  - intros [= <-]. apply H01, bool_or_01.
Qed.

(* ---------- the computable oracle equals the documented semantics ---------- *)
Lemma spec_exec_correct o a b p :
  2 < p -> 0 <= a < p -> 0 <= b < p -> spec_exec o a b p = spec o a b p.
Proof.
  intros Hp Ha Hb.
  assert (Hshr : forall k, 0 <= k -> shr_exec a k = shr_doc a k).
  { intros k Hk. unfold shr_exec, shr_doc. destruct (Z.leb_spec (Z.log2 a + 1) k); [|reflexivity].
    symmetry. apply small_div_pow2; [lia|]. destruct (Z.eqb_spec a 0); lia. }
  assert (Hshl : forall k, 0 <= k -> shl_exec a k p = shl_doc a k p).
  { intros k Hk. unfold shl_exec. destruct (Z.leb_spec (nbits p) k); [|reflexivity].
    unfold shl_doc. rewrite land_shift_zero; [rewrite Z.mod_0_l; lia | lia |].
    unfold nbits in *. pose proof (Z.log2_nonneg p). lia. }
  destruct o; cbn [spec_exec spec]; try reflexivity.
  - rewrite Zpow_mod_spec by lia. reflexivity.
  - destruct (Z.leb_spec b (p / 2)); [rewrite Hshl by lia|rewrite Hshr by lia]; reflexivity.
  - destruct (Z.leb_spec b (p / 2)); [rewrite Hshr by lia|rewrite Hshl by lia]; reflexivity.
Qed.

(* ---------- comparisons are a total order on the signed representatives ---------- *)
Lemma sval_inj x y p : 2 < p -> 0 <= x < p -> 0 <= y < p -> sval x p = sval y p -> x = y.
Proof.
  intros Hp Hx Hy. unfold sval.
  destruct (Z.leb_spec (p / 2 + 1) x); destruct (Z.leb_spec (p / 2 + 1) y); lia.
Qed.

Lemma sval_range x p : 2 < p -> 0 <= x < p -> - (p / 2) <= sval x p <= p / 2.
Proof. intros Hp Hx. unfold sval. destruct (Z.leb_spec (p / 2 + 1) x); lia. Qed.
