(* C13: the walk of the lifted graph contains the structured execution. *)
From stdpp Require Import list sets.
Require Import Model.Lift Spec.CfgSpec Proofs.LiftBasics Proofs.LiftInv Proofs.LiftSteps Proofs.LiftProofs
  Proofs.LiftTheorems Proofs.LiftSim.
Import Base(outcome, Ok, Err, Panic, OutOfFuel, bind).

(* the final graph with the set of blocks that never got an exit *)
Lemma lift_final body g :
  lift body = Ok g ->
  exists ss ps, body = SBlock ss /\ visit body 0 g_init = Ok (g, ps) /\
                wf g (fun i => False \/ i ∈ pend g ps).
Proof.
  unfold lift. destruct body as [| |ss| |]; try done. intros H.
  apply bind_ok in H as ([g' ps] & Hv & [= <-]). simpl.
  exists ss, ps. split; [done|]. split; [done|].
  destruct (visit_post (SBlock ss) 0 g_init _ g' ps pre_init Hv) as [Q1 Q2 Q3 Q4 Q5 Q6 Q7].
  unfold pend. destruct (is_nil ps).
  - eapply wf_ext; [|apply (pre_wf _ _ _ Q4)]. intros i. simpl. set_solver.
  - done.
Qed.

Lemma start_pos_init : start_pos g_init = (0, 0).
Proof. done. Qed.

(* relational form: some finite walk from the entry observes exactly the trace *)
Theorem cfg_contains_source_walks body g ds :
  lift body = Ok g -> exists q ds', walks g (0, 0) ds (trace body ds) q ds'.
Proof.
  intros Hl. destruct (lift_final _ _ Hl) as (ss & ps & -> & Hv & Hwf).
  unfold trace. destruct (run (SBlock ss) ds) as [[tr ds'] st] eqn:Er. simpl.
  pose proof (sim_all (SBlock ss) 0 g_init _ g ps g _ ds tr ds' st pre_init Hv (gext_refl g) Hwf Er) as H.
  rewrite start_pos_init in H.
  destruct st; [destruct H as (i & q & _ & _ & Hw)|destruct H as (q & Hw)..]; eauto.
Qed.

Lemma walks_walk_from g p ds tr q ds' :
  walks g p ds tr q ds' -> exists n0, forall n, n0 <= n -> tr `prefix_of` walk_from n g p ds.
Proof.
  induction 1 as [|p ds o p1 ds1 tr p2 ds2 Hs Hw (n0 & IH)].
  - exists 0. intros n _. apply prefix_nil.
  - exists (S n0). intros n Hn. destruct n as [|n]; [lia|]. simpl. rewrite Hs.
    apply prefix_app, IH. lia.
Qed.

(* functional form: the trace is a prefix of every long enough walk *)
Theorem cfg_contains_source body g ds :
  lift body = Ok g -> exists n0, forall n, n0 <= n -> trace body ds `prefix_of` walk n g ds.
Proof.
  intros Hl. destruct (cfg_contains_source_walks body g ds Hl) as (q & ds' & Hw).
  by apply walks_walk_from in Hw.
Qed.

(* ---- equality when the program runs to its end ---- *)
Lemma pending_stuck g (P : nat -> Prop) i q ds :
  wf g P -> P i -> exit_pos g g i q -> stuck g q ds.
Proof.
  intros Hwf HP (b & Hb & Hq). pose proof (wf_blk _ _ Hwf _ _ Hb) as Hok.
  pose proof (ok_shape _ _ _ _ Hok) as Hs. unfold shape in Hs. unfold stuck.
  assert (Hplain : ends_plain b -> q = (i, length (b_items b)) -> step g q ds = None).
  { intros Hpl ->. apply (shape_plain _ _ _ _ Hpl) in Hs. destruct Hs as [[_ Hs]|[? _]]; [|done].
    unfold step. rewrite Hb. rewrite (lookup_ge_None_2 (b_items b)) by lia.
    rewrite decide_True by done. rewrite Hs.
    destruct (last (b_items b)) as [[|c t f]|] eqn:E; try done. }
  destruct (last (b_items b)) as [[id|c t f]|] eqn:E.
  - apply Hplain; [|done]. intros c t f. by rewrite E.
  - destruct Hq as (B & c' & t' & f' & HB & EB & ->). rewrite Hb in HB. injection HB as <-.
    rewrite E in EB. injection EB as <- <- <-.
    destruct Hs as (-> & _ & [(_ & -> & Hs)|[? _]]); [|done].
    assert (b_succs b = [S i]) as Hsucc.
    { apply nodup_singleton_ext; [apply ssorted_NoDup, (ok_ss _ _ _ _ Hok)|done]. }
    unfold false_target. rewrite Hsucc. rewrite filter_cons_False by (intros H; by apply H).
    rewrite filter_nil.
    unfold step. rewrite Hb. rewrite (lookup_ge_None_2 (b_items b)) by lia.
    rewrite decide_True by done. by rewrite E.
  - apply Hplain; [|done]. intros c t f. by rewrite E.
Qed.

Lemma walks_stuck_walk_from g p ds tr q ds' :
  walks g p ds tr q ds' -> stuck g q ds' -> exists n0, forall n, n0 <= n -> walk_from n g p ds = tr.
Proof.
  induction 1 as [p ds|p ds o p1 ds1 tr p2 ds2 Hs Hw IH]; intros Hst.
  - exists 1. intros n Hn. destruct n as [|n]; [lia|]. simpl. unfold stuck in Hst. by rewrite Hst.
  - destruct (IH Hst) as (n0 & Hn0). exists (S n0). intros n Hn. destruct n as [|n]; [lia|]. simpl.
    rewrite Hs. f_equal. apply Hn0. lia.
Qed.

Theorem cfg_equals_source_at_end body g ds :
  lift body = Ok g -> final_status body ds = Running ->
  exists n0, forall n, n0 <= n -> walk n g ds = trace body ds.
Proof.
  intros Hl Hfin. destruct (lift_final _ _ Hl) as (ss & ps & -> & Hv & Hwf).
  unfold trace, final_status in *. destruct (run (SBlock ss) ds) as [[tr ds'] st] eqn:Er. simpl in *. subst st.
  pose proof (sim_all (SBlock ss) 0 g_init _ g ps g _ ds tr ds' Running pre_init Hv (gext_refl g) Hwf Er) as H.
  rewrite start_pos_init in H. destruct H as (i & q & Hi & Hq & Hw).
  eapply walks_stuck_walk_from; [exact Hw|]. eapply pending_stuck; [exact Hwf| |exact Hq]. by right.
Qed.
