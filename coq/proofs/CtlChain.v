(* C07: the control-dependence fact along the whole chain  lifting -> SSA conversion ->
   propagation.  The graph the analysis annotates has, block by block, the predecessor and
   successor lists of the skeleton graph Model.Lift.lift builds from the body:
     - lifting:      Proofs.LiftFullIr.lifted_dom (the graph of try_lift_impl, erased onto
                     Model.Ir, has the lists of the lifted skeleton);
     - SSA:          Proofs.SsaConstruction.into_ssa_is_erasure (the output is the input
                     with versions added and phis prepended: SsaErase.erase_eqb compares the
                     predecessor and successor lists block by block);
     - propagation:  Proofs.PropagateShape (set_stmts only).
   Hence (Proofs.CtlBridge) on that graph every block whose decision can change the edge
   along which a join is entered, and that ends with a condition, is named by the table
   walk Spec.DegSem.decides. *)
From Coq Require Import ZArith NArith List Bool.
Require Import Model.Base Model.Ir Model.Propagate Model.DegGraph Model.DegJustify Model.SsaErase Model.SsaPre Model.Ssa.
Require Model.Lift Model.LiftFull Model.Dom Spec.CtlSpec Spec.DegSem.
Require Proofs.MirrorsDom Proofs.LiftFullIr Proofs.SsaEraseProofs Proofs.SsaConstruction Proofs.PropagateShape Proofs.CtlBridge.
Import ListNotations.

Lemma blocks_sim_dom_graph xs : forall ys, blocks_sim xs ys = true ->
  map (fun b => Dom.Node (map N.to_nat (b_preds b)) (map N.to_nat (b_succs b))) ys =
  map (fun b => Dom.Node (map N.to_nat (b_preds b)) (map N.to_nat (b_succs b))) xs.
Proof.
  induction xs as [|x tx IH]; intros [|y ty]; cbn [blocks_sim]; try discriminate; [reflexivity|].
  intros H. apply andb_true_iff in H as [H1 H2]. cbn [map]. rewrite (IH ty H2). f_equal.
  unfold block_sim in H1. apply andb_true_iff in H1 as [H1 _]. apply andb_true_iff in H1 as [Hp Hs].
  rewrite (SsaEraseProofs.ns_eqb_eq _ _ Hp), (SsaEraseProofs.ns_eqb_eq _ _ Hs). reflexivity.
Qed.

Lemma erase_keeps_dom_graph pre c : erase_eqb pre c = true -> dom_graph_of c = dom_graph_of pre.
Proof. unfold erase_eqb, dom_graph_of. apply blocks_sim_dom_graph. Qed.

(* the annotated graph has the lists of the lifted skeleton *)
Theorem chain_keeps_skeleton_edges key kind params pfile ploc body r frontier children c1 kv kd q idom c2 :
  LiftFull.try_lift_impl kind params pfile ploc body = Ok r ->
  phi_free (LiftFull.erase_cfg (LiftFull.l_cfg r)) = true -> decls_ok (LiftFull.erase_cfg (LiftFull.l_cfg r)) = true ->
  into_ssa frontier children (LiftFull.erase_cfg (LiftFull.l_cfg r)) = SOk c1 ->
  propagate kv kd q idom c1 = Ok c2 ->
  let g := map (LiftFull.skel_block key) (LiftFull.xc_blocks (LiftFull.l_cfg r)) in
  Lift.lift (LiftFull.skel key body) = Ok g /\ dom_graph_of c2 = MirrorsDom.to_dom g.
Proof.
  intros Hl Hpf Hd Hssa Hprop g.
  destruct (LiftFullIr.lifted_dom key kind params pfile ploc body r Hl) as (Hlift & Hdom & _).
  split; [exact Hlift|].
  rewrite (PropagateShape.propagate_keeps_dom_graph kv kd q idom c1 c2 Hprop).
  rewrite (erase_keeps_dom_graph _ c1 (SsaConstruction.into_ssa_is_erasure frontier children _ c1 Hpf Hd Hssa)).
  exact Hdom.
Qed.

(* ... so [decides] names every splitting condition of the annotated graph *)
Theorem chain_split_decides key kind params pfile ploc body r frontier children c1 kv kd q idom c2 :
  LiftFull.try_lift_impl kind params pfile ploc body = Ok r ->
  phi_free (LiftFull.erase_cfg (LiftFull.l_cfg r)) = true -> decls_ok (LiftFull.erase_cfg (LiftFull.l_cfg r)) = true ->
  into_ssa frontier children (LiftFull.erase_cfg (LiftFull.l_cfg r)) = SOk c1 ->
  propagate kv kd q idom c1 = Ok c2 ->
  graph_consistent c2 = true -> idom_is_dominator_table c2 idom = true -> idom_shape c2 idom = true ->
  let g := map (LiftFull.skel_block key) (LiftFull.xc_blocks (LiftFull.l_cfg r)) in
  forall j bj b bb m cond t f,
  nth_error (c_blocks c2) j = Some bj -> nth_error (c_blocks c2) b = Some bb ->
  CtlSpec.can_split g b j -> CtlSpec.is_join g j ->
  last (b_stmts bb) (SLog m []) = SIf m cond t f ->
  DegSem.decides c2 idom bj cond.
Proof.
  intros Hl Hpf Hd Hssa Hprop Hgc Htab Hshape g.
  destruct (chain_keeps_skeleton_edges key kind params pfile ploc body r frontier children c1 kv kd q idom c2
              Hl Hpf Hd Hssa Hprop) as [Hlift Hsame].
  exact (CtlBridge.lifted_split_decides c2 idom g Hsame Hgc Htab Hshape (LiftFull.skel key body) Hlift).
Qed.
