(* Basic facts about the data structures of Model.Lift: index sets, block
   updates, lookup characterisations of the primitive graph updates. *)
From stdpp Require Import list sets.
Require Import Model.Lift Spec.CfgSpec.
Import Base(outcome, Ok, Err, Panic, OutOfFuel, bind).

(* ---------------- index sets ---------------- *)
Fixpoint ssorted (l : list nat) : Prop :=
  match l with
  | [] => True
  | x :: r => (forall y, y ∈ r -> x < y) /\ ssorted r
  end.

Lemma elem_of_ins x y l : y ∈ ins x l <-> y = x \/ y ∈ l.
Proof.
  induction l as [|z r IH]; simpl.
  - set_solver.
  - destruct (x <? z) eqn:E1; [set_solver|].
    destruct (x =? z) eqn:E2.
    + apply Nat.eqb_eq in E2. set_solver.
    + rewrite !elem_of_cons, IH. naive_solver.
Qed.

Lemma ssorted_ins x l : ssorted l -> ssorted (ins x l).
Proof.
  induction l as [|z r IH]; simpl; intros Hs.
  - split; [set_solver|done].
  - destruct Hs as [Hz Hr].
    destruct (x <? z) eqn:E1.
    + apply Nat.ltb_lt in E1. simpl. split; [|done].
      intros y Hy. apply elem_of_cons in Hy as [->|Hy]; [done|]. specialize (Hz _ Hy). lia.
    + destruct (x =? z) eqn:E2; [done|].
      apply Nat.ltb_ge in E1. apply Nat.eqb_neq in E2. simpl. split; [|auto].
      intros y Hy. apply elem_of_ins in Hy as [->|Hy]; [lia|auto].
Qed.

Lemma ssorted_NoDup l : ssorted l -> NoDup l.
Proof.
  induction l as [|x r IH]; simpl; [constructor|].
  intros [Hx Hr]. constructor; [|auto]. intros Hin. specialize (Hx _ Hin). lia.
Qed.

Lemma ssorted_singleton x : ssorted [x].
Proof. simpl. split; [set_solver|done]. Qed.

Lemma elem_of_iunion a b y : y ∈ iunion a b <-> y ∈ a \/ y ∈ b.
Proof.
  unfold iunion. revert a. induction b as [|x r IH]; intros a; simpl.
  - set_solver.
  - rewrite IH, elem_of_ins. set_solver.
Qed.

Lemma ssorted_iunion a b : ssorted a -> ssorted (iunion a b).
Proof.
  unfold iunion. revert a. induction b as [|x r IH]; intros a Ha; simpl; [done|].
  apply IH, ssorted_ins, Ha.
Qed.

Lemma ins_not_nil x l : ins x l <> [].
Proof. destruct l; simpl; [done|]. repeat case_match; done. Qed.

Lemma is_nil_true {A} (l : list A) : is_nil l = true <-> l = [].
Proof. destruct l; simpl; naive_solver. Qed.
Lemma is_nil_false {A} (l : list A) : is_nil l = false <-> l <> [].
Proof. destruct l; simpl; naive_solver. Qed.

(* ---------------- items ---------------- *)
Lemma patch_last_snoc j l x : patch_last j (l ++ [x]) = l ++ [patch_item j x].
Proof.
  induction l as [|y r IH]; simpl; [done|].
  rewrite IH. destruct (r ++ [x]) eqn:E; [|done].
  destruct r; discriminate.
Qed.

Lemma patch_last_nil j : patch_last j [] = [].
Proof. done. Qed.

Lemma list_snoc_cases {A} (l : list A) : l = [] \/ exists l' x, l = l' ++ [x].
Proof.
  induction l as [|x l IH] using rev_ind; [by left|right; eauto].
Qed.

Lemma patch_last_length j l : length (patch_last j l) = length l.
Proof.
  destruct (list_snoc_cases l) as [->|(l' & x & ->)]; [done|].
  rewrite patch_last_snoc, !app_length. done.
Qed.

Lemma last_patch_last j l : last (patch_last j l) = patch_item j <$> last l.
Proof.
  destruct (list_snoc_cases l) as [->|(l' & x & ->)]; [done|].
  rewrite patch_last_snoc, !last_snoc. done.
Qed.

Lemma item_key_patch j it : item_key (patch_item j it) = item_key it.
Proof. destruct it as [|c t [f|]]; simpl; [done..|]. case_match; done. Qed.

Lemma map_key_patch_last j l : map item_key (patch_last j l) = map item_key l.
Proof.
  destruct (list_snoc_cases l) as [->|(l' & x & ->)]; [done|].
  rewrite patch_last_snoc, !map_app. simpl. by rewrite item_key_patch.
Qed.

Lemma lookup_patch_last j l k :
  patch_last j l !! k = (if decide (S k = length l) then patch_item j else id) <$> l !! k.
Proof.
  destruct (list_snoc_cases l) as [->|(l' & x & ->)]; [done|].
  rewrite patch_last_snoc, app_length. simpl.
  destruct (decide (k < length l')).
  - rewrite !lookup_app_l by done. case_decide; [lia|]. by destruct (l' !! k).
  - rewrite !lookup_app_r by lia. destruct (k - length l') eqn:E; simpl.
    + case_decide; [done|lia].
    + done.
Qed.

(* ---------------- upd / last ---------------- *)
Lemma upd_ok site i f g :
  i < length g -> upd site i f g = Ok (alter f i g).
Proof.
  intros Hi. unfold upd. destruct (lookup_lt_is_Some_2 g i Hi) as [b ->]. done.
Qed.

Lemma upd_inv site i f g g' :
  upd site i f g = Ok g' -> i < length g /\ g' = alter f i g.
Proof.
  unfold upd. destruct (g !! i) eqn:E; [|done]. intros [= <-].
  split; [by eapply lookup_lt_Some|done].
Qed.

Lemma last_lookup' {A} (l : list A) : last l = l !! (length l - 1).
Proof.
  rewrite last_lookup. destruct l; simpl; [done|]. by rewrite Nat.sub_0_r.
Qed.

Lemma upd_last_ok f g : g <> [] -> upd_last f g = Ok (alter f (length g - 1) g).
Proof. destruct g; done. Qed.

Lemma upd_last_inv f g g' : upd_last f g = Ok g' -> g <> [] /\ g' = alter f (length g - 1) g.
Proof. destruct g; simpl; [done|]. intros [= <-]. done. Qed.

Lemma lookup_alter_case {A} (f : A -> A) (l : list A) i k :
  alter f i l !! k = if decide (i = k) then f <$> l !! k else l !! k.
Proof.
  case_decide as E.
  - subst. apply list_lookup_alter.
  - by apply list_lookup_alter_ne.
Qed.

(* bind inversion *)
Lemma bind_ok {A B} (m : outcome A) (f : A -> outcome B) r :
  bind m f = Ok r -> exists a, m = Ok a /\ f a = Ok r.
Proof. destruct m; simpl; [eauto|done..]. Qed.
