(* C08 (third audit): the SSA construction keeps the assignment operators.

   The theorems of C08 over Model.LiftFull speak about the graph BEFORE SSA, the
   pass (and Model.SignalAssign) runs on the graph AFTER `into_ssa`.  This file
   closes that step over the mirror Model.Ssa (compared with the real `into_ssa`
   on every run by property C14's engine): for every graph, every frontier /
   children table and every outcome of the fuelled loops,

     block i of the SSA form = some number of inserted phi statements, each a
     substitution with `Meta::default()` and the operator `=`
     (AssignLocalOrComponent), followed by statements with exactly the metas
     and ASSIGNMENT OPERATORS (none for a statement that is no substitution) of
     block i of the input, in the same order.

   So the `<--` substitutions (AssignSignal) of the SSA graph are, in block order,
   exactly those of the input graph: same number, same order, same metas; none is
   turned into `<==` or `=`, no `<==` / `=` becomes a `<--`, and the inserted phi
   statements are none.  No hypothesis on the input graph.

   The structure is that of Proofs.LabelsSsa (C04: metas and statement kinds); the
   tag is a different one (meta and operator), nothing of C04's files is used. *)
From Coq Require Import ZArith NArith List Bool Lia Arith.
Require Import Model.Base Model.Ir Model.SsaCheck Model.Ssa Model.SignalAssign.
Require Import Spec.SigAssignSpec Proofs.SsaNoPanic.
Import ListNotations.

Definition phi_meta : meta := {| m_start := 0%N; m_end := 0%N; m_file := None |}.
Definition phi_otag : meta * option assign_op := (phi_meta, Some OpVar).

Definition block_otags (b : block) : list (meta * option assign_op) := map otag (b_stmts b).

Definition ofrom_block (b b' : block) : Prop :=
  exists k, block_otags b' = repeat phi_otag k ++ block_otags b.

Definition ofrom_blocks (bs bs' : list block) : Prop := Forall2 ofrom_block bs bs'.

Lemma ofrom_block_refl b : ofrom_block b b.
Proof. exists 0. reflexivity. Qed.

Lemma ofrom_block_trans a b c : ofrom_block a b -> ofrom_block b c -> ofrom_block a c.
Proof.
  intros [k Hk] [j Hj]. exists (j + k). rewrite Hj, Hk, app_assoc, <- repeat_app. reflexivity.
Qed.

Lemma ofrom_blocks_refl bs : ofrom_blocks bs bs.
Proof. induction bs; constructor; auto using ofrom_block_refl. Qed.

Lemma ofrom_blocks_trans : forall a b c, ofrom_blocks a b -> ofrom_blocks b c -> ofrom_blocks a c.
Proof.
  intros a b c H. revert c. induction H; intros c Hc; inversion Hc; subst; constructor.
  - eapply ofrom_block_trans; eassumption.
  - apply IHForall2. assumption.
Qed.

Lemma ofrom_block_same_tags b b' : block_otags b' = block_otags b -> ofrom_block b b'.
Proof. intros H. exists 0. exact H. Qed.

Lemma oupdate_nth_step (f : block -> block) : forall l i,
  (forall x, nth_error l i = Some x -> ofrom_block x (f x)) ->
  ofrom_blocks l (update_nth l i f).
Proof.
  induction l as [|x tl IH]; intros [|i] H; simpl.
  - constructor.
  - constructor.
  - constructor; [apply H; reflexivity|apply ofrom_blocks_refl].
  - constructor; [apply ofrom_block_refl|apply IH; exact H].
Qed.

(* ---- phi insertion ---- *)

Lemma phi_stmt_otag v : otag (phi_stmt_for v) = phi_otag.
Proof. reflexivity. Qed.

Lemma add_phis_ofrom : forall vars b n, ofrom_block b (fst (add_phis vars b n)).
Proof.
  induction vars as [|v tl IH]; intros b n; simpl.
  - apply ofrom_block_refl.
  - destruct (existsb (is_phi_for v) (b_stmts b)).
    + apply IH.
    + eapply ofrom_block_trans; [|apply IH].
      exists 1. reflexivity.
Qed.

Lemma process_frontier_ofrom vars : forall fr bs work,
  ofrom_blocks bs (fst (process_frontier vars fr bs work)).
Proof.
  induction fr as [|f tl IH]; intros bs work; simpl.
  - apply ofrom_blocks_refl.
  - destruct (nth_error bs (N.to_nat f)) as [b|] eqn:E.
    + destruct (add_phis vars b 0) as [b' pushes] eqn:Ea.
      eapply ofrom_blocks_trans; [|apply IH].
      apply oupdate_nth_step. intros x Hx. rewrite E in Hx. inversion Hx; subst x.
      change b' with (fst (b', pushes)). rewrite <- Ea. apply add_phis_ofrom.
    + apply IH.
Qed.

Lemma insert_phis_ofrom frontier : forall fuel bs work bs',
  insert_phis fuel frontier bs work = SOk bs' -> ofrom_blocks bs bs'.
Proof.
  induction fuel as [|fuel IH]; intros bs work bs' H.
  - destruct work; simpl in H; [|discriminate]. inversion H. apply ofrom_blocks_refl.
  - destruct work as [|cur rest]; simpl in H.
    + inversion H. apply ofrom_blocks_refl.
    + destruct (nth_error bs cur) as [b|]; [|discriminate].
      destruct (vars_written b) as [|v vs] eqn:Ev.
      * eapply IH. exact H.
      * destruct (process_frontier (v :: vs) (nth cur frontier []) bs rest) as [bs1 work1] eqn:Ep.
        eapply ofrom_blocks_trans; [|eapply IH; exact H].
        change bs1 with (fst (bs1, work1)). rewrite <- Ep. apply process_frontier_ofrom.
Qed.

(* ---- renaming ---- *)

Ltac sb H :=
  match type of H with
  | sbind ?m _ = SOk _ =>
      let r := fresh "r" in let e := fresh "e" in
      destruct m as [[r e]| | |]; cbn [sbind] in H; try discriminate H
  end.

(* the renaming of one statement keeps its meta and its operator *)
Lemma ssa_stmt_otag decls env s s' env' :
  ssa_stmt decls env s = SOk (s', env') -> otag s' = otag s.
Proof.
  intros H. destruct s; cbn [ssa_stmt] in H.
  - sb H. inversion H. reflexivity.
  - sb H. inversion H. reflexivity.
  - sb H. inversion H. reflexivity.
  - destruct (vn_version v); [discriminate|]. sb H.
    destruct (is_local_in decls v).
    + match type of H with context [next_version ?e ?v] => destruct (next_version e v) end.
      inversion H. reflexivity.
    + inversion H. reflexivity.
  - sb H. sb H. inversion H. reflexivity.
  - sb H. inversion H. reflexivity.
  - sb H. inversion H. reflexivity.
Qed.

Lemma ssa_stmts_otags decls : forall ss env ss' env',
  ssa_stmts decls env ss = SOk (ss', env') -> map otag ss' = map otag ss.
Proof.
  induction ss as [|s tl IH]; intros env ss' env' H; simpl in H.
  - inversion H. reflexivity.
  - destruct (ssa_stmt decls env s) as [[s1 env1]| | |] eqn:E1; cbn [sbind] in H; try discriminate.
    destruct (ssa_stmts decls env1 tl) as [[tl1 env2]| | |] eqn:E2; cbn [sbind] in H; try discriminate.
    inversion H; subst. simpl. f_equal.
    + eapply ssa_stmt_otag. exact E1.
    + eapply IH. exact E2.
Qed.

Lemma ensure_phi_arg_otag env s : otag (ensure_phi_arg env s) = otag s.
Proof.
  destruct s; try reflexivity. simpl. destruct rhe; try reflexivity.
  destruct (cur_version env v).
  - destruct (existsb _ args); reflexivity.
  - destruct (existsb _ args); reflexivity.
Qed.

Lemma update_phis_otags env : forall ss, map otag (update_phis env ss) = map otag ss.
Proof.
  induction ss as [|s tl IH]; simpl; [reflexivity|].
  destruct (is_phi_stmt s); [|reflexivity].
  simpl. rewrite ensure_phi_arg_otag, IH. reflexivity.
Qed.

Lemma update_succ_phis_ofrom env : forall succs bs, ofrom_blocks bs (update_succ_phis env succs bs).
Proof.
  induction succs as [|s tl IH]; intros bs; simpl.
  - apply ofrom_blocks_refl.
  - eapply ofrom_blocks_trans; [|apply IH].
    apply oupdate_nth_step. intros x _. apply ofrom_block_same_tags.
    unfold block_otags. simpl. apply update_phis_otags.
Qed.

Lemma rename_ofrom decls children : forall fuel,
  (forall cur bs env bs' env',
     rename_tree fuel decls children cur bs env = SOk (bs', env') -> ofrom_blocks bs bs').
Proof.
  induction fuel as [|fuel IH]; intros cur bs env bs' env' H.
  - discriminate H.
  - rewrite rename_tree_unfold in H.
    destruct (nth_error bs cur) as [b|] eqn:Eb; [|discriminate].
    destruct (ssa_stmts decls env (b_stmts b)) as [[ss1 env1]| | |] eqn:Es; cbn [sbind] in H; try discriminate.
    assert (K : forall kids l e l' e',
               rename_kids fuel decls children kids l e = SOk (l', e') -> ofrom_blocks l l').
    { induction kids as [|k tl IHk]; intros l e l' e' Hk; simpl in Hk.
      - inversion Hk. apply ofrom_blocks_refl.
      - destruct (rename_tree fuel decls children (N.to_nat k) l (push_scope e)) as [[l1 e1]| | |] eqn:Er;
          cbn [sbind] in Hk; try discriminate.
        eapply ofrom_blocks_trans; [eapply IH; exact Er|eapply IHk; exact Hk]. }
    eapply ofrom_blocks_trans; [|eapply K; exact H].
    eapply ofrom_blocks_trans; [|apply update_succ_phis_ofrom].
    apply oupdate_nth_step. intros x Hx. rewrite Eb in Hx. inversion Hx; subst x.
    apply ofrom_block_same_tags. unfold block_otags. simpl. eapply ssa_stmts_otags. exact Es.
Qed.

Lemma update_decl_stmt_otag env s : otag (update_decl_stmt env s) = otag s.
Proof.
  destruct s; try reflexivity. simpl. destruct names; [reflexivity|]. destruct t; reflexivity.
Qed.

Lemma update_decls_ofrom env : forall bs,
  ofrom_blocks bs (map (fun b => set_stmts b (map (update_decl_stmt env) (b_stmts b))) bs).
Proof.
  induction bs as [|b tl IH]; simpl; constructor; [|exact IH].
  apply ofrom_block_same_tags. unfold block_otags. simpl. rewrite map_map.
  apply map_ext. intros s. apply update_decl_stmt_otag.
Qed.

(* ---- into_ssa ---- *)

(* block by block: inserted `=` phis with the default meta, then the metas and operators of the input *)
Theorem ssa_blocks_keep_operators : forall frontier children c c',
  into_ssa frontier children c = SOk c' ->
  Forall2 (fun b b' => exists k,
             map otag (b_stmts b') = repeat (phi_meta, Some OpVar) k ++ map otag (b_stmts b))
          (c_blocks c) (c_blocks c').
Proof.
  intros frontier children c c' H. unfold into_ssa in H.
  destruct (insert_phis _ frontier (c_blocks c) _) as [bs1| | |] eqn:E1; cbn [sbind] in H; try discriminate.
  destruct (rename_tree _ (c_decls c) children 0 bs1 _) as [[bs2 env]| | |] eqn:E2; cbn [sbind] in H; try discriminate.
  inversion H; subst c'. cbn [c_blocks].
  change (ofrom_blocks (c_blocks c) (map (fun b => set_stmts b (map (update_decl_stmt env) (b_stmts b))) bs2)).
  eapply ofrom_blocks_trans; [eapply insert_phis_ofrom; exact E1|].
  eapply ofrom_blocks_trans; [eapply rename_ofrom; exact E2|].
  apply update_decls_ofrom.
Qed.

(* the metas of the `<--` statements, read off the tags *)
Fixpoint sig_metas (l : list (meta * option assign_op)) : list meta :=
  match l with
  | [] => []
  | (m, Some OpSig) :: r => m :: sig_metas r
  | _ :: r => sig_metas r
  end.

Lemma sig_metas_app a b : sig_metas (a ++ b) = sig_metas a ++ sig_metas b.
Proof.
  induction a as [|[m [[]|]] a IH]; simpl; rewrite ?IH; reflexivity.
Qed.

Lemma sig_metas_phis k : sig_metas (repeat phi_otag k) = [].
Proof. induction k; simpl; [reflexivity|exact IHk]. Qed.

Lemma sig_metas_stmts ss : sig_metas (map otag ss) = map stmt_meta (filter is_assign ss).
Proof.
  induction ss as [|s ss IH]; [reflexivity|].
  destruct s as [| | |m v [] rhe sv st| | |]; simpl; rewrite ?IH; reflexivity.
Qed.

Lemma filter_flat_map {A B} (p : B -> bool) (f : A -> list B) l :
  filter p (flat_map f l) = flat_map (fun x => filter p (f x)) l.
Proof. induction l as [|x l IH]; simpl; [reflexivity|]. rewrite filter_app, IH. reflexivity. Qed.

Lemma ofrom_blocks_assign_metas bs bs' : ofrom_blocks bs bs' ->
  map stmt_meta (filter is_assign (flat_map b_stmts bs')) = map stmt_meta (filter is_assign (flat_map b_stmts bs)).
Proof.
  induction 1 as [|b b' tl tl' [k Hk] _ IH]; [reflexivity|].
  simpl. rewrite !filter_app, !map_app, IH. f_equal.
  rewrite <- !sig_metas_stmts. unfold block_otags in Hk. rewrite Hk, sig_metas_app, sig_metas_phis. reflexivity.
Qed.

(* THE STEP: the `<--` statements of the SSA graph are, in block order, those of
   the graph it was built from - same number, same order, same metas *)
Theorem ssa_keeps_signal_assignments : forall frontier children c c',
  into_ssa frontier children c = SOk c' ->
  map stmt_meta (assign_stmts c') = map stmt_meta (assign_stmts c).
Proof.
  intros frontier children c c' H. unfold assign_stmts, all_stmts.
  apply ofrom_blocks_assign_metas. exact (ssa_blocks_keep_operators frontier children c c' H).
Qed.

Theorem ssa_keeps_signal_assignment_count : forall frontier children c c',
  into_ssa frontier children c = SOk c' -> length (assign_stmts c') = length (assign_stmts c).
Proof.
  intros frontier children c c' H. pose proof (ssa_keeps_signal_assignments _ _ _ _ H) as E.
  apply (f_equal (@length _)) in E. rewrite !map_length in E. exact E.
Qed.

(* the same for the constraint statements (`<==` substitutions and `===`): same number, order, metas.
   A `===` has no operator; its tag is (meta, None) like every other non-substitution, so the statement
   is about `<==` here; the kind of the other statements is C04_ssa_blocks_from_input. *)
Fixpoint csig_metas (l : list (meta * option assign_op)) : list meta :=
  match l with
  | [] => []
  | (m, Some OpCSig) :: r => m :: csig_metas r
  | _ :: r => csig_metas r
  end.

Definition is_csig (s : stmt) : bool := match s with SSubst _ _ OpCSig _ _ _ => true | _ => false end.

Lemma csig_metas_app a b : csig_metas (a ++ b) = csig_metas a ++ csig_metas b.
Proof. induction a as [|[m [[]|]] a IH]; simpl; rewrite ?IH; reflexivity. Qed.

Lemma csig_metas_phis k : csig_metas (repeat phi_otag k) = [].
Proof. induction k; simpl; [reflexivity|exact IHk]. Qed.

Lemma csig_metas_stmts ss : csig_metas (map otag ss) = map stmt_meta (filter is_csig ss).
Proof.
  induction ss as [|s ss IH]; [reflexivity|].
  destruct s as [| | |m v [] rhe sv st| | |]; simpl; rewrite ?IH; reflexivity.
Qed.

Theorem ssa_keeps_constraint_assignments : forall frontier children c c',
  into_ssa frontier children c = SOk c' ->
  map stmt_meta (filter is_csig (all_stmts c')) = map stmt_meta (filter is_csig (all_stmts c)).
Proof.
  intros frontier children c c' H. unfold all_stmts.
  pose proof (ssa_blocks_keep_operators frontier children c c' H) as F.
  change (ofrom_blocks (c_blocks c) (c_blocks c')) in F.
  induction F as [|b b' tl tl' [k Hk] _ IH]; [reflexivity|].
  simpl. rewrite !filter_app, !map_app, IH. f_equal.
  rewrite <- !csig_metas_stmts. unfold block_otags in Hk. rewrite Hk, csig_metas_app, csig_metas_phis. reflexivity.
Qed.

(* ---- from the source to the SSA graph: Model.LiftFull followed by Model.Ssa ---- *)
Require Model.Ast Model.LiftFull Proofs.LiftFullC08.

Theorem source_to_ssa_signal_assignments : forall kind params pfile ploc body c frontier children c',
  LiftFull.lift_to_ir kind params pfile ploc body = Ok c ->
  into_ssa frontier children c = SOk c' ->
  map stmt_meta (assign_stmts c')
  = map (fun s => LiftFullC08.ir_meta (Model.Ast.stmt_meta s)) (LiftFullC08.source_signal_assignments body).
Proof.
  intros kind params pfile ploc body c frontier children c' H Hs.
  rewrite (ssa_keeps_signal_assignments _ _ _ _ Hs).
  exact (LiftFullC08.signal_assignments_from_source _ _ _ _ _ _ H).
Qed.

(* distinct source locations of the `<--` statements give distinct keys IN THE SSA GRAPH, the one the pass
   walks: the hypothesis of C08_sigassign_bijection_source_keys from a hypothesis on the source *)
Theorem source_to_ssa_distinct_subkeys : forall kind params pfile ploc body c frontier children c',
  LiftFull.lift_to_ir kind params pfile ploc body = Ok c ->
  into_ssa frontier children c = SOk c' ->
  NoDup (map Model.Ast.stmt_meta (LiftFullC08.source_signal_assignments body)) ->
  subkeys_distinct c'.
Proof.
  intros kind params pfile ploc body c frontier children c' H Hs Hn. unfold subkeys_distinct.
  apply LiftFullC08.distinct_metas_distinct_subkeys. rewrite LiftFullC08.assignment_metas.
  fold (assign_stmts c'). rewrite (source_to_ssa_signal_assignments _ _ _ _ _ _ _ _ _ H Hs).
  rewrite <- (map_map Model.Ast.stmt_meta LiftFullC08.ir_meta).
  apply LiftFullC08.NoDup_map_inj_inv; [apply LiftFullC08.ir_meta_inj|exact Hn].
Qed.

(* Model.Ssa.into_ssa returns the renamed BLOCKS; the declaration table of the real SSA graph
   (`c_decls`, on which the classification of uses depends) is not computed by that mirror
   (`c_decls := []`, compared through the declaration statements).  The hypotheses about the
   `<--` statements depend on the blocks only, so they hold of every graph with those blocks,
   whatever its kind, parameters and declaration table - in particular of the dumped real one. *)
Theorem source_to_ssa_distinct_subkeys_any_decls :
  forall kind params pfile ploc body c frontier children c' g,
  LiftFull.lift_to_ir kind params pfile ploc body = Ok c ->
  into_ssa frontier children c = SOk c' ->
  c_blocks g = c_blocks c' ->
  NoDup (map Model.Ast.stmt_meta (LiftFullC08.source_signal_assignments body)) ->
  subkeys_distinct g /\
  map stmt_meta (assign_stmts g)
  = map (fun s => LiftFullC08.ir_meta (Model.Ast.stmt_meta s)) (LiftFullC08.source_signal_assignments body).
Proof.
  intros kind params pfile ploc body c frontier children c' g H Hs Hb Hn.
  pose proof (source_to_ssa_distinct_subkeys _ _ _ _ _ _ _ _ _ H Hs Hn) as D.
  pose proof (source_to_ssa_signal_assignments _ _ _ _ _ _ _ _ _ H Hs) as E.
  unfold subkeys_distinct, assign_stmts, all_stmts in *. rewrite Hb. split; assumption.
Qed.
