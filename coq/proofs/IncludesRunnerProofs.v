(* C19, the part the property text words as "definitions from files that were
   only included ... never produce findings of their own": Model.Includes
   (parse_files: which files are user inputs) composed with Model.Runner (main:
   filter_by_file and the analysis of user definitions only) through
   Model.IncludesRunner.file_library_user_inputs (FileLibrary::add_file).

   Also: a file named on the command line is a user input whatever the order of
   the arguments and whatever includes what. *)
Require Model.Base Model.Runner Spec.RunnerSpec Proofs.RunnerProofs Proofs.RunnerShownFiltered.
From Coq Require Import ZArith Ascii String.
From stdpp Require Import list strings.
Require Import Model.Includes Spec.IncludesSpec Proofs.IncludesProofs Model.IncludesRunner.

(* ------------------------------------------------------------------ *)
(* FileLibrary::user_inputs as positions of the file list              *)
(* ------------------------------------------------------------------ *)

Lemma user_ids_from_spec {path} (files : list (path * bool)) : forall n z,
  In z (user_ids_from n files) <-> exists i f, z = Z.of_nat (n + i) /\ files !! i = Some (f, true).
Proof.
  induction files as [|[f u] files IH]; intros n z; simpl.
  - split; [done|]. intros (i & f & _ & Hi). by rewrite lookup_nil in Hi.
  - rewrite in_app_iff, IH. split.
    + intros [Hz|(i & g & -> & Hi)].
      * destruct u; [|done]. destruct Hz as [<-|[]]. exists 0, f. split; [by rewrite Nat.add_0_r|done].
      * exists (S i), g. split; [f_equal; lia|done].
    + intros (i & g & -> & Hi). destruct i as [|i]; simpl in Hi.
      * inversion Hi; subst. left. rewrite Nat.add_0_r. by left.
      * right. exists i, g. split; [f_equal; lia|done].
Qed.

Lemma file_library_user_inputs_spec {path} (files : list (path * bool)) z :
  In z (file_library_user_inputs files) <-> exists i f, z = Z.of_nat i /\ files !! i = Some (f, true).
Proof. unfold file_library_user_inputs. by rewrite user_ids_from_spec. Qed.

Lemma file_library_user_inputs_flag {path} (files : list (path * bool)) i f u :
  files !! i = Some (f, u) -> (In (Z.of_nat i) (file_library_user_inputs files) <-> u = true).
Proof.
  intros Hi. rewrite file_library_user_inputs_spec. split.
  - intros (j & g & E & Hj). apply Nat2Z.inj in E. subst j. congruence.
  - intros ->. eauto.
Qed.

Section IncludesRunner.
  Context {path : Type} `{EqDecision path}.
  Variable canon : path -> option path.
  Variable is_dir : path -> bool.
  Variable is_file : path -> bool.
  Variable read_dir : path -> option (list path).
  Variable join : path -> path -> path.
  Variable parent : path -> path.
  Variable file_name : path -> option path.
  Variable ext_circom : path -> bool.
  Variable starts_dot : path -> bool.
  Variable has_sep : path -> bool.
  Variable content : path -> file_content path.

  Notation new := (new canon is_dir read_dir join ext_circom).
  Notation take_next := (take_next parent).
  Notation parse_file := (parse_file canon is_file join file_name starts_dot has_sep content).
  Notation parse_loop := (parse_loop canon is_file join parent file_name starts_dot has_sep content).
  Notation parse_files :=
    (parse_files canon is_dir is_file read_dir join parent file_name ext_circom starts_dot has_sep content).
  Notation expands := (expands canon is_dir read_dir join ext_circom).
  Notation named := (named canon is_dir read_dir join ext_circom).
  Notation dirs_revisited := (dirs_revisited canon is_dir read_dir join ext_circom).
  Notation reachable := (reachable canon is_file join parent file_name starts_dot has_sep content).
  Notation add_libraries := (add_libraries canon is_dir ext_circom).

  (* ---------------------------------------------------------------- *)
  (* the FileLibrary has exactly the files that were read and could be *)
  (* opened (no premise on the file system, either code version)       *)
  (* ---------------------------------------------------------------- *)

  Definition files_inv (s : parse_state (path:=path)) : Prop :=
    (forall f, f ∈ ps_read s -> content f <> Unreadable -> exists i u, ps_files s !! i = Some (f, u)) /\
    (forall f u, (f, u) ∈ ps_files s -> content f <> Unreadable).

  Lemma parse_file_files_inv d p s s' :
    files_inv s -> parse_file d p s = Ok s' -> files_inv s'.
  Proof.
    intros [Q1 Q2]. unfold Includes.parse_file.
    assert (K : forall e : path * bool,
               (forall f, f ∈ ps_read s ++ [p] -> content f <> Unreadable -> e.1 = p ->
                          exists i u, (ps_files s ++ [e]) !! i = Some (f, u))).
    { intros e f Hf Hc He. apply elem_of_app in Hf as [Hf|Hf].
      - destruct (Q1 f Hf Hc) as (i & u & Hi). exists i, u. by apply lookup_app_l_Some.
      - apply elem_of_list_singleton in Hf as ->. exists (length (ps_files s)), e.2.
        rewrite lookup_app_r, Nat.sub_diag by lia. simpl. destruct e; simpl in *; by subst. }
    destruct (content p) as [| |incs] eqn:Ec.
    - intros Hs; inversion Hs; subst; clear Hs. split; simpl.
      + intros f Hf Hc. apply elem_of_app in Hf as [Hf|Hf]; [by apply Q1|].
        apply elem_of_list_singleton in Hf as ->. congruence.
      + done.
    - intros Hs; inversion Hs; subst; clear Hs. split; simpl.
      + intros f Hf Hc. by eapply K.
      + intros f u Hf. apply elem_of_app in Hf as [Hf|Hf]; [by eapply Q2|].
        apply elem_of_list_singleton in Hf. inversion Hf; subst. congruence.
    - intros Hs. apply bind_ok in Hs as (r & _ & Hs). inversion Hs; subst; clear Hs. split; simpl.
      + intros f Hf Hc. by eapply K.
      + intros f u Hf. apply elem_of_app in Hf as [Hf|Hf]; [by eapply Q2|].
        apply elem_of_list_singleton in Hf. inversion Hf; subst. congruence.
  Qed.

  Lemma parse_loop_files_inv d fuel : forall s s',
    files_inv s -> parse_loop d fuel s = Ok s' -> files_inv s'.
  Proof.
    induction fuel as [|fuel IH]; intros s s' Q Hl; simpl in Hl; [discriminate|].
    destruct (take_next (ps_stack s)) as [[p|] st] eqn:Et.
    - apply bind_ok in Hl as (s1 & Hp & Hl). eapply IH; [|done].
      eapply parse_file_files_inv; [|done]. exact Q.
    - inversion Hl; subst. exact Q.
  Qed.

  Lemma parse_files_files_inv d dfuel fuel paths libs s :
    parse_files d dfuel fuel paths libs = Ok s -> files_inv s.
  Proof.
    unfold Includes.parse_files. intros Hp. apply bind_ok in Hp as (r & _ & Hl).
    eapply parse_loop_files_inv; [|done]. split; simpl.
    - intros f Hf. by apply elem_of_nil in Hf.
    - intros f u Hf. by apply elem_of_nil in Hf.
  Qed.

  Hypothesis canon_idem : forall p c, canon p = Some c -> canon c = Some c.

  (* what the FileLibrary holds, in one statement *)
  Lemma files_characterised dfuel fuel paths libs s :
    dirs_revisited dfuel paths libs = false ->
    parse_files false dfuel fuel paths libs = Ok s ->
    forall f u, (f, u) ∈ ps_files s <->
                f ∈ ps_read s /\ content f <> Unreadable /\ (u = true <-> named paths f).
  Proof.
    intros Hno Hp f u.
    pose proof (parse_files_files_inv _ _ _ _ _ _ Hp) as [Q1 Q2].
    pose proof (included_only_files_are_not_user_inputs canon is_dir is_file read_dir join parent file_name
                  ext_circom starts_dot has_sep content canon_idem _ _ _ _ _ Hno Hp) as [_ F].
    split.
    - intros Hf. pose proof (Q2 _ _ Hf). apply elem_of_list_lookup_1 in Hf as (i & Hi).
      destruct (F i f u Hi). done.
    - intros (Hr & Hc & Hu). destruct (Q1 f Hr Hc) as (i & u0 & Hi).
      destruct (F i f u0 Hi) as [_ Hu0].
      assert (u0 = u) as <-; [|by eapply elem_of_list_lookup_2].
      destruct u0, u; try done; [symmetry|]; tauto.
  Qed.

  (* ---------------------------------------------------------------- *)
  (* a named file is a user input, in every order, in every graph       *)
  (* ---------------------------------------------------------------- *)

  Lemma named_is_user_input dfuel fuel paths libs s c :
    dirs_revisited dfuel paths libs = false ->
    parse_files false dfuel fuel paths libs = Ok s ->
    named paths c ->
    is_user_input (ps_stack s) c = true /\
    c ∈ ps_read s /\
    (forall i u, ps_files s !! i = Some (c, u) -> u = true) /\
    (content c <> Unreadable ->
     exists i, ps_files s !! i = Some (c, true) /\ In (Z.of_nat i) (file_library_user_inputs (ps_files s))).
  Proof.
    intros Hno Hp Hn.
    pose proof (included_only_files_are_not_user_inputs canon is_dir is_file read_dir join parent file_name
                  ext_circom starts_dot has_sep content canon_idem _ _ _ _ _ Hno Hp) as [U F].
    assert (Hr : c ∈ ps_read s).
    { eapply reads_exactly_reachable; [done|done|done|]. by apply reach_named. }
    split; [by apply U|]. split; [done|]. split.
    - intros i u Hi. by apply (F i c u Hi).
    - intros Hc. pose proof (parse_files_files_inv _ _ _ _ _ _ Hp) as [Q1 _].
      destruct (Q1 c Hr Hc) as (i & u & Hi). assert (u = true) as -> by (by apply (F i c u Hi)).
      exists i. split; [done|]. by eapply file_library_user_inputs_flag.
  Qed.

  Lemma argument_is_named paths p c :
    p ∈ paths -> is_dir p = false -> canon p = Some c -> named paths c.
  Proof. intros Hp Hd Hc. exists p. split; [done|]. by apply expands_file. Qed.

  (* the form asked for: p on the command line, not a directory, canon p = Some c *)
  Lemma named_file_is_user_input dfuel fuel paths libs s p c :
    dirs_revisited dfuel paths libs = false ->
    parse_files false dfuel fuel paths libs = Ok s ->
    p ∈ paths -> is_dir p = false -> canon p = Some c ->
    is_user_input (ps_stack s) c = true /\
    c ∈ ps_read s /\
    (forall i u, ps_files s !! i = Some (c, u) -> u = true) /\
    (content c <> Unreadable ->
     exists i, ps_files s !! i = Some (c, true) /\ In (Z.of_nat i) (file_library_user_inputs (ps_files s))).
  Proof. intros Hno Hp H1 H2 H3. eapply named_is_user_input; [done|done|]. by eapply argument_is_named. Qed.

  Lemma named_perm paths paths' c : paths ≡ₚ paths' -> named paths c -> named paths' c.
  Proof. intros P (p & Hp & He). exists p. split; [by rewrite <- P|done]. Qed.

  (* any two orders of the same arguments (each run with whatever fuel made it
     finish): same files read, same FileLibrary entries with the same flags,
     same user-input predicate; only the numbering of the files may differ *)
  Lemma user_inputs_order_independent dfuel fuel dfuel' fuel' paths paths' libs s s' :
    paths ≡ₚ paths' ->
    dirs_revisited dfuel paths libs = false ->
    dirs_revisited dfuel' paths' libs = false ->
    parse_files false dfuel fuel paths libs = Ok s ->
    parse_files false dfuel' fuel' paths' libs = Ok s' ->
    (forall c, c ∈ ps_read s <-> c ∈ ps_read s') /\
    (forall f u, (f, u) ∈ ps_files s <-> (f, u) ∈ ps_files s') /\
    (forall c, is_user_input (ps_stack s) c = is_user_input (ps_stack s') c).
  Proof.
    intros P Hno1 Hno2 H1 H2.
    assert (N : forall c, named paths c <-> named paths' c).
    { intros c; split; apply named_perm; [done|by symmetry]. }
    assert (R : forall c, c ∈ ps_read s <-> c ∈ ps_read s').
    { intros c.
      rewrite (reads_exactly_reachable canon is_dir is_file read_dir join parent file_name ext_circom
                 starts_dot has_sep content canon_idem _ _ _ _ _ Hno1 H1 c).
      rewrite (reads_exactly_reachable canon is_dir is_file read_dir join parent file_name ext_circom
                 starts_dot has_sep content canon_idem _ _ _ _ _ Hno2 H2 c).
      split; apply reachable_ext; intros x; apply N. }
    split; [done|]. split.
    - intros f u. rewrite (files_characterised _ _ _ _ _ Hno1 H1), (files_characterised _ _ _ _ _ Hno2 H2), R, N. done.
    - intros c.
      pose proof (included_only_files_are_not_user_inputs canon is_dir is_file read_dir join parent file_name
                    ext_circom starts_dot has_sep content canon_idem _ _ _ _ _ Hno1 H1) as [U1 _].
      pose proof (included_only_files_are_not_user_inputs canon is_dir is_file read_dir join parent file_name
                    ext_circom starts_dot has_sep content canon_idem _ _ _ _ _ Hno2 H2) as [U2 _].
      specialize (U1 c). specialize (U2 c). specialize (N c).
      destruct (is_user_input (ps_stack s) c), (is_user_input (ps_stack s') c); try done; exfalso.
      + assert (false = true) by tauto. done.
      + assert (false = true) by tauto. done.
  Qed.

  (* ---------------------------------------------------------------- *)
  (* composition with main's filter and analysis loop                   *)
  (* ---------------------------------------------------------------- *)

  (* a report all of whose primary labels lie in files for which the stack
     answers is_user_input = false is filtered, whatever the options, the
     definitions, the analysis order *)
  Lemma included_only_report_never_displayed dfuel fuel paths libs s (r : Runner.report) :
    dirs_revisited dfuel paths libs = false ->
    parse_files false dfuel fuel paths libs = Ok s ->
    Runner.r_pfiles r <> [] ->
    (forall z, In z (Runner.r_pfiles r) ->
               exists i f u, z = Z.of_nat i /\ ps_files s !! i = Some (f, u) /\
                             is_user_input (ps_stack s) f = false) ->
    Runner.filter_by_file r (file_library_user_inputs (ps_files s)) = false /\
    (forall o, Runner.passes_filters o (file_library_user_inputs (ps_files s)) r = false) /\
    (forall (p : Runner.project) o order,
        Runner.p_user p = file_library_user_inputs (ps_files s) ->
        ~ In r (Runner.res_shown (Runner.run_keys p o order)) /\
        (forall results rules, Runner.res_sarif (Runner.run_keys p o order) = Some (results, rules) ->
                               ~ In r results)).
  Proof.
    intros Hno Hp Hne Hall.
    pose proof (included_only_files_are_not_user_inputs canon is_dir is_file read_dir join parent file_name
                  ext_circom starts_dot has_sep content canon_idem _ _ _ _ _ Hno Hp) as [U F].
    assert (FF : Runner.filter_by_file r (file_library_user_inputs (ps_files s)) = false).
    { apply RunnerShownFiltered.filter_by_file_false; [done|].
      intros z Hz Hu. destruct (Hall z Hz) as (i & f & u & -> & Hi & Hf).
      apply (file_library_user_inputs_flag _ _ _ _ Hi) in Hu. subst u.
      assert (Hn : named paths f) by (by apply (F i f true Hi)).
      apply U in Hn. congruence. }
    assert (PF : forall o, Runner.passes_filters o (file_library_user_inputs (ps_files s)) r = false).
    { intros o. unfold Runner.passes_filters. rewrite FF. by rewrite andb_false_r. }
    split; [done|]. split; [done|]. intros p o order Eu. split.
    - intros Hin. apply RunnerShownFiltered.shown_passes_filters in Hin. rewrite Eu, PF in Hin. done.
    - intros results rules Es Hin. eapply RunnerShownFiltered.sarif_passes_filters in Hin; [|done].
      rewrite Eu, PF in Hin. done.
  Qed.

  (* the other direction: a primary label in a named file passes the file filter *)
  Lemma named_file_report_passes_file_filter dfuel fuel paths libs s (r : Runner.report) i f u :
    dirs_revisited dfuel paths libs = false ->
    parse_files false dfuel fuel paths libs = Ok s ->
    In (Z.of_nat i) (Runner.r_pfiles r) -> ps_files s !! i = Some (f, u) -> named paths f ->
    Runner.filter_by_file r (file_library_user_inputs (ps_files s)) = true.
  Proof.
    intros Hno Hp Hin Hi Hn.
    pose proof (included_only_files_are_not_user_inputs canon is_dir is_file read_dir join parent file_name
                  ext_circom starts_dot has_sep content canon_idem _ _ _ _ _ Hno Hp) as [_ F].
    apply RunnerShownFiltered.filter_by_file_true. right. exists (Z.of_nat i). split; [done|].
    apply (file_library_user_inputs_flag _ _ _ _ Hi). by apply (F i f u Hi).
  Qed.

  (* everything main displays was produced by the parser or for a definition
     that lives in a named file, and is located nowhere or (also) in a named file *)
  Lemma displayed_findings_come_from_named_files dfuel fuel paths libs s
        (p : Runner.project) o order (r : Runner.report) :
    dirs_revisited dfuel paths libs = false ->
    parse_files false dfuel fuel paths libs = Ok s ->
    Runner.p_user p = file_library_user_inputs (ps_files s) ->
    RunnerSpec.wf_project p -> RunnerSpec.analysis_order p order ->
    In r (Runner.res_shown (Runner.run_keys p o order)) ->
    (In r (Runner.p_parse p) \/
     exists d i f, In d (Runner.p_defs p) /\ In r (RunnerSpec.produced_def d) /\
                   Runner.d_file d = Z.of_nat i /\ ps_files s !! i = Some (f, true) /\ named paths f) /\
    (Runner.r_pfiles r = [] \/
     exists i f, In (Z.of_nat i) (Runner.r_pfiles r) /\ ps_files s !! i = Some (f, true) /\ named paths f).
  Proof.
    intros Hno Hp Eu Hwf Hord Hin.
    pose proof (included_only_files_are_not_user_inputs canon is_dir is_file read_dir join parent file_name
                  ext_circom starts_dot has_sep content canon_idem _ _ _ _ _ Hno Hp) as [_ F].
    assert (G : forall z, In z (Runner.p_user p) ->
                          exists i f, z = Z.of_nat i /\ ps_files s !! i = Some (f, true) /\ named paths f).
    { intros z Hz. rewrite Eu in Hz. apply file_library_user_inputs_spec in Hz as (i & f & -> & Hi).
      exists i, f. split; [done|]. split; [done|]. by apply (F i f true Hi). }
    split.
    - apply (RunnerProofs.displayed_iff_kept p o order r Hwf Hord) in Hin as [Hprod _].
      unfold RunnerSpec.produced in Hprod. apply in_app_iff in Hprod as [Hprod|Hprod]; [by left|right].
      apply in_flat_map in Hprod as (d & Hd & Hr). unfold RunnerSpec.user_defs in Hd.
      apply filter_In in Hd as [Hd Hu]. unfold RunnerSpec.user_def_b in Hu.
      apply existsb_exists in Hu as (z & Hz & E). apply Z.eqb_eq in E. subst z.
      destruct (G _ Hz) as (i & f & E & Hi & Hn). exists d, i, f. done.
    - apply RunnerShownFiltered.shown_passes_filters, RunnerShownFiltered.passes_filters_file in Hin.
      apply RunnerShownFiltered.filter_by_file_true in Hin as [Hin|(z & Hz & Hu)]; [by left|right].
      destruct (G _ Hu) as (i & f & -> & Hi & Hn). by exists i, f.
  Qed.
End IncludesRunner.

(* ------------------------------------------------------------------------ *)
(* Witness: `main.circom` includes "lib.circom" and "inc.circom"; lib.circom  *)
(* and main.circom are named, in both orders.  With `lib.circom main.circom`  *)
(* the stack pops main.circom first and lib.circom is first met through the   *)
(* include entry — it is a user input all the same.                           *)
(* ------------------------------------------------------------------------ *)

Definition ord_fs : fs_data := FsData
  [ (str "main.circom", Some (str "/r/main.circom"));
    (str "lib.circom", Some (str "/r/lib.circom"));
    (str "/r/main.circom", Some (str "/r/main.circom"));
    (str "/r/lib.circom", Some (str "/r/lib.circom"));
    (str "/r/inc.circom", Some (str "/r/inc.circom")) ]
  [ ]
  [ str "/r/main.circom"; str "/r/lib.circom"; str "/r/inc.circom" ]
  [ (str "/r/main.circom", Parsed [(str "lib.circom", 21, 42); (str "inc.circom", 43, 64)]);
    (str "/r/lib.circom", Parsed []);
    (str "/r/inc.circom", Parsed []) ].

(* a finding located in file 1 only / in files 1 and 2 *)
Definition ord_report_inc : Runner.report := Runner.mkReport Category.Warning 5 5 [1%Z] 0.
Definition ord_report_both : Runner.report := Runner.mkReport Category.Warning 5 5 [1%Z; 2%Z] 0.

Lemma ord_witness :
  canon_idempotent_b ord_fs = true /\
  exists s s',
    run_project false ord_fs [str "lib.circom"; str "main.circom"] [] = Ok s /\
    run_project false ord_fs [str "main.circom"; str "lib.circom"] [] = Ok s' /\
    ps_files s = [(str "/r/main.circom", true); (str "/r/inc.circom", false); (str "/r/lib.circom", true)] /\
    ps_files s' = [(str "/r/lib.circom", true); (str "/r/main.circom", true); (str "/r/inc.circom", false)] /\
    file_library_user_inputs (ps_files s) = [0%Z; 2%Z] /\
    file_library_user_inputs (ps_files s') = [0%Z; 1%Z] /\
    is_user_input (ps_stack s) (str "/r/inc.circom") = false /\
    Runner.filter_by_file ord_report_inc (file_library_user_inputs (ps_files s)) = false /\
    Runner.filter_by_file ord_report_both (file_library_user_inputs (ps_files s)) = true.
Proof.
  split; [vm_compute; reflexivity|]. eexists _, _.
  split; [vm_compute; reflexivity|]. split; [vm_compute; reflexivity|].
  repeat split; vm_compute; reflexivity.
Qed.
