(* C14 / C15 bridge: the dominance hypotheses of C14_construction_paths_ok
   (Spec.SsaDomSpec: creach, children_sound, frontier_exact) follow from what C15 proves
   about the mirror of DominatorTree::new.  For a graph c whose predecessor / successor
   lists form a rooted graph (Spec.DomSpec.rooted) and the tree t returned by
   Dom.dominator_tree on them, the tables handed to Model.Ssa.into_ssa - the members of
   the frontier and children masks of t in any order - satisfy the three hypotheses. *)
From Coq Require Import ZArith Lia.
From stdpp Require Import list list_numbers sets.
Require Model.Base Model.Ir Model.Dom Spec.DomSpec Spec.SsaDomSpec.
Require Proofs.DomProofs.

(* DominatorTree::new(&self.basic_blocks) reads the predecessor and successor sets
   (the same function as Model.PipelineMirrors.dom_of_ir) *)
Definition graph_of (c : Ir.cfg) : list Dom.node :=
  (λ b, Dom.Node (N.to_nat <$> Ir.b_preds b) (N.to_nat <$> Ir.b_succs b)) <$> Ir.c_blocks c.

(* the tables handed to into_ssa: the members of each mask, in the order [horder] *)
Definition sets_of (horder : list nat → list nat) (masks : list N) : list (list N) :=
  (λ m, N.of_nat <$> horder (Dom.members m)) <$> masks.

Lemma lookup_nth_error {A} (l : list A) i : l !! i = nth_error l i.
Proof. revert i. induction l as [|x l IH]; intros [|i]; simpl; auto. Qed.

Lemma graph_of_length c : length (graph_of c) = length (Ir.c_blocks c).
Proof. apply fmap_length. Qed.

Lemma graph_of_lookup c a y :
  graph_of c !! a = Some y ↔
  ∃ x, nth_error (Ir.c_blocks c) a = Some x ∧ y = Dom.Node (N.to_nat <$> Ir.b_preds x) (N.to_nat <$> Ir.b_succs x).
Proof.
  unfold graph_of. rewrite list_lookup_fmap, lookup_nth_error.
  destruct (nth_error (Ir.c_blocks c) a) as [x|]; simpl; split.
  - intros [= <-]. eauto.
  - intros (x' & [= <-] & ->). done.
  - done.
  - intros (x' & ? & _). done.
Qed.

Lemma edge_iff c a b : SsaDomSpec.cedge c a b ↔ DomSpec.edge (graph_of c) a b.
Proof.
  split.
  - intros (x & Hx & Hin). eexists. split; [apply graph_of_lookup; eauto|]. simpl.
    apply elem_of_list_fmap. exists (N.of_nat b). split; [by rewrite Nat2N.id|]. by apply elem_of_list_In.
  - intros (y & Hy & Hin). apply graph_of_lookup in Hy. destruct Hy as (x & Hx & ->). simpl in Hin.
    apply elem_of_list_fmap in Hin. destruct Hin as (s & -> & Hs). exists x. split; [done|].
    rewrite N2Nat.id. by apply elem_of_list_In.
Qed.

Lemma path_iff c a b l : SsaDomSpec.cpath c a b l ↔ DomSpec.path (graph_of c) a b l.
Proof.
  split.
  - induction 1 as [a Ha|a m b l He _ IH].
    + apply DomSpec.path_one. by rewrite graph_of_length.
    + eapply DomSpec.path_cons; [by apply edge_iff|done].
  - induction 1 as [a Ha|a m b l He _ IH].
    + apply SsaDomSpec.cpath_one. by rewrite <- graph_of_length.
    + eapply SsaDomSpec.cpath_cons; [by apply edge_iff|done].
Qed.

Lemma dom_iff c i j : SsaDomSpec.cdom c i j ↔ DomSpec.dom (graph_of c) i j.
Proof.
  unfold SsaDomSpec.cdom, DomSpec.dom. split; intros H l Hp.
  - apply elem_of_list_In. apply H. by apply path_iff.
  - apply elem_of_list_In. apply H. by apply path_iff.
Qed.

Lemma sdom_iff c i j : SsaDomSpec.csdom c i j ↔ DomSpec.sdom (graph_of c) i j.
Proof. unfold SsaDomSpec.csdom, DomSpec.sdom. by rewrite dom_iff. Qed.

Lemma idom_iff c i j : SsaDomSpec.cidom c i j ↔ DomSpec.idom_spec (graph_of c) i j.
Proof.
  unfold SsaDomSpec.cidom, DomSpec.idom_spec. rewrite sdom_iff. split; intros [H1 H2]; (split; [done|]); intros k Hk.
  - apply dom_iff. apply H2. by apply sdom_iff.
  - apply dom_iff. apply H2. by apply sdom_iff.
Qed.

Section Rooted.
Context (c : Ir.cfg) (Hg : DomSpec.rooted (graph_of c)).

Lemma df_iff i j : SsaDomSpec.cdf c i j ↔ DomSpec.df_spec (graph_of c) i j.
Proof.
  unfold SsaDomSpec.cdf, DomSpec.df_spec. rewrite sdom_iff. split; intros [H1 H2]; (split; [|done]).
  - destruct H1 as (q & He & Hd). apply edge_iff in He. destruct He as (xq & Hxq & Hj).
    pose proof (DomSpec.rooted_succs _ Hg _ _ _ Hxq Hj) as Hlt. apply lookup_lt_is_Some_2 in Hlt. destruct Hlt as (xj & Hxj).
    exists xj, q. split; [done|]. split; [by apply (DomSpec.rooted_mirror _ Hg q j xq xj)|by apply dom_iff].
  - destruct H1 as (xj & q & Hxj & Hq & Hd).
    pose proof (DomSpec.rooted_preds _ Hg _ _ _ Hxj Hq) as Hlt. apply lookup_lt_is_Some_2 in Hlt. destruct Hlt as (xq & Hxq).
    exists q. split; [|by apply dom_iff]. apply edge_iff. exists xq. split; [done|].
    by apply (DomSpec.rooted_mirror _ Hg q j xq xj).
Qed.

Lemma reach_of_rooted : SsaDomSpec.creach c.
Proof.
  intros j Hj. rewrite <- graph_of_length in Hj. destruct (DomSpec.rooted_reach _ Hg j Hj) as (l & Hl).
  exists l. by apply path_iff.
Qed.

Context (ord : nat → list nat → list nat) (Hord : DomSpec.order_ok ord).
Context (t : Dom.dom_tree).
Context (Ht : Dom.dominator_tree (Dom.dom_fuel (graph_of c)) ord (graph_of c) = Base.Ok t).
Context (horder : list nat → list nat) (Hh : ∀ l, horder l ≡ₚ l).

(* the members of a children set are blocks of the graph with that immediate dominator
   (the invariant of idom_loop; as Proofs.MirrorsDom.child_spec, for any rooted graph) *)
Lemma child_spec j k : j < length (graph_of c) → Dom.mem k (Dom.dt_children t !!! j) = true →
  k < length (graph_of c) ∧ DomSpec.idom_spec (graph_of c) j k.
Proof.
  intros Hj Hk. set (g' := graph_of c) in *. set (n := length g').
  unfold Dom.dominator_tree in Ht.
  destruct (DomProofs.compute_dominators_correct g' Hg) as (D & HD1 & HDlen & HD).
  rewrite HD1 in Ht. cbn [Base.bind] in Ht.
  unfold Dom.compute_immediate_dominators in Ht.
  destruct (DomProofs.idom_loop_spec g' Hg D HDlen HD ord Hord (seq 0 n) (replicate n None) (replicate n 0%N))
    as (idom & ch & E & _ & _ & _ & _ & Hch).
  { apply replicate_length. } { apply replicate_length. }
  { intros i ?%elem_of_seq. lia. } { apply NoDup_seq. }
  { intros i ?%elem_of_seq. apply lookup_total_replicate_2. lia. }
  fold n in Ht. rewrite E in Ht. cbn [Base.bind fst snd] in Ht.
  destruct (Dom.compute_dominance_frontier _ _ _) as [DF| | |]; cbn [Base.bind] in Ht; try discriminate.
  destruct (Dom.get _ _ _) as [i0| | |]; cbn [Base.bind] in Ht; try discriminate.
  destruct i0; [discriminate|]. injection Ht as <-. cbn [Dom.dt_children] in Hk.
  apply Hch in Hk; [|lia].
  rewrite lookup_total_replicate_2, DomProofs.mem_0 in Hk by lia.
  destruct Hk as [?|[Hin Hs]]; [done|]. apply elem_of_seq in Hin. split; [lia|done].
Qed.

Lemma sets_of_row masks j k :
  In k (nth j (sets_of horder masks) []) → ∃ m, masks !! j = Some m ∧ Dom.mem (N.to_nat k) m = true.
Proof.
  unfold sets_of. revert j. induction masks as [|m masks IH]; intros j; simpl.
  - destruct j; simpl; intros [].
  - destruct j as [|j]; simpl; [|apply IH].
    intros Hin. apply elem_of_list_In, elem_of_list_fmap in Hin. destruct Hin as (i & -> & Hi).
    rewrite Hh in Hi. apply DomProofs.elem_of_members in Hi. exists m. by rewrite Nat2N.id.
Qed.

Lemma sets_of_row_iff masks j m s : masks !! j = Some m →
  (In (N.of_nat s) (nth j (sets_of horder masks) []) ↔ Dom.mem s m = true).
Proof.
  unfold sets_of. revert j. induction masks as [|m0 masks IH]; intros j; simpl.
  - destruct j; done.
  - destruct j as [|j]; simpl; [|apply IH]. intros [= ->].
    rewrite <- elem_of_list_In, elem_of_list_fmap. split.
    + intros (i & Hi & Hin). apply Nat2N.inj in Hi. subst i. rewrite Hh in Hin. by apply DomProofs.elem_of_members.
    + intros Hm. exists s. split; [done|]. rewrite Hh. by apply DomProofs.elem_of_members.
Qed.

(* C15 discharges the dominance hypotheses of C14_construction_paths_ok *)
Theorem c15_tables_meet_hypotheses :
  SsaDomSpec.creach c ∧
  SsaDomSpec.children_sound c (sets_of horder (Dom.dt_children t)) ∧
  SsaDomSpec.frontier_exact c (sets_of horder (Dom.dt_frontier t)).
Proof.
  pose proof (DomProofs.tree_is_ok _ ord t Hg Hord Ht) as Hok.
  split; [exact reach_of_rooted|]. split.
  - intros j k Hin. apply sets_of_row in Hin. destruct Hin as (m & Hm & Hk).
    assert (Hj : j < length (graph_of c)).
    { rewrite <- (DomProofs.ok_ch_len _ _ Hok). by eapply lookup_lt_Some. }
    apply idom_iff. apply (child_spec j (N.to_nat k) Hj). by rewrite (list_lookup_total_correct _ _ _ Hm).
  - intros a s Ha Hs. rewrite <- graph_of_length in Ha.
    assert (Hla : a < length (Dom.dt_frontier t)) by (by rewrite (DomProofs.ok_df_len _ _ Hok)).
    apply lookup_lt_is_Some_2 in Hla. destruct Hla as (m & Hm).
    rewrite (sets_of_row_iff _ a m s Hm), df_iff.
    exact (DomProofs.frontier_exact _ ord t Hg Hord Ht a m s Hm).
Qed.
End Rooted.

(* ------------------------------------------------------------------------ *)
(* the computed children table is a tree that holds every block once          *)
(* (the decidable hypothesis children_treeb): rank = number of dominators     *)
(* ------------------------------------------------------------------------ *)
Require Model.SsaCheck Model.Ssa Model.SsaPre Spec.SsaSpec Proofs.SsaNoPanic Proofs.SsaTreeRank Proofs.SsaDominance Proofs.DomOracle.

Section Tree.
Context (c : Ir.cfg) (Hg : DomSpec.rooted (graph_of c)).
Context (ord : nat → list nat → list nat) (Hord : DomSpec.order_ok ord).
Context (t : Dom.dom_tree).
Context (Ht : Dom.dominator_tree (Dom.dom_fuel (graph_of c)) ord (graph_of c) = Base.Ok t).
Context (horder : list nat → list nat) (Hh : ∀ l, horder l ≡ₚ l).

Lemma kids_sets_of masks j k :
  In k (SsaNoPanic.kids (sets_of horder masks) j) ↔ ∃ m, masks !! j = Some m ∧ Dom.mem k m = true.
Proof.
  unfold SsaNoPanic.kids, sets_of. revert j. induction masks as [|m masks IH]; intros j; simpl.
  - destruct j; simpl; split; try done; intros (? & ? & _); done.
  - destruct j as [|j]; simpl; [|apply IH].
    rewrite <- elem_of_list_In. change (k ∈ N.to_nat <$> (N.of_nat <$> horder (Dom.members m)) ↔ ∃ m0, Some m = Some m0 ∧ Dom.mem k m0 = true).
    rewrite <- list_fmap_compose, elem_of_list_fmap. split.
    + intros (y & Hy & Hin). simpl in Hy. rewrite Nat2N.id in Hy. subst y. rewrite Hh in Hin.
      apply DomProofs.elem_of_members in Hin. eauto.
    + intros (m0 & [= <-] & Hm). exists k. simpl. rewrite Nat2N.id. split; [done|]. rewrite Hh. by apply DomProofs.elem_of_members.
Qed.

Lemma kids_sets_of_nodup masks j : List.NoDup (SsaNoPanic.kids (sets_of horder masks) j).
Proof.
  unfold SsaNoPanic.kids, sets_of. revert j. induction masks as [|m masks IH]; intros j; simpl.
  - destruct j; constructor.
  - destruct j as [|j]; simpl; [|apply IH].
    change (List.NoDup (N.to_nat <$> (N.of_nat <$> horder (Dom.members m)))).
    rewrite <- list_fmap_compose. erewrite list_fmap_ext; [|intros ? x _; simpl; apply Nat2N.id]. rewrite list_fmap_id.
    apply NoDup_ListNoDup. rewrite Hh. apply DomProofs.NoDup_members.
Qed.

Theorem c15_children_tree :
  SsaPre.children_treeb (sets_of horder (Dom.dt_children t)) (length (Ir.c_blocks c)) = true.
Proof.
  pose proof (DomProofs.tree_is_ok _ ord t Hg Hord Ht) as Hok.
  set (g := graph_of c) in *. rewrite <- graph_of_length. fold g.
  set (rank := λ k, Dom.card (Dom.dt_dominators t !!! k)).
  assert (Hkid : ∀ j k, In k (SsaNoPanic.kids (sets_of horder (Dom.dt_children t)) j) ↔
                        j < length g ∧ Dom.mem k (Dom.dt_children t !!! j) = true).
  { intros j k. rewrite kids_sets_of. split.
    - intros (m & Hm & Hk). split; [rewrite <- (DomProofs.ok_ch_len _ _ Hok); by eapply lookup_lt_Some|].
      by rewrite (list_lookup_total_correct _ _ _ Hm).
    - intros [Hj Hk]. exists (Dom.dt_children t !!! j). split; [|done].
      apply list_lookup_lookup_total_lt. by rewrite (DomProofs.ok_ch_len _ _ Hok). }
  apply (SsaTreeRank.ranked_children_treeb _ _ rank).
  - apply (DomSpec.rooted_nonempty _ Hg).
  - intros j k [Hj Hk]%Hkid. destruct (child_spec c Hg ord Hord t Ht j k Hj Hk) as [Hkn Hid].
    split; [|done]. destruct Hid as [[Hd Hne] _]. unfold rank. apply DomProofs.card_lt.
    + intros i Hi. apply (DomProofs.ok_dom _ _ Hok) in Hi; [|done]. apply (DomProofs.ok_dom _ _ Hok); [done|].
      by eapply (DomProofs.dom_trans g Hg).
    + intros E. assert (Hkk : Dom.mem k (Dom.dt_dominators t !!! k) = true).
      { apply (DomProofs.ok_dom _ _ Hok); [done|]. apply (DomProofs.dom_refl g Hg). }
      rewrite <- E in Hkk. apply (DomProofs.ok_dom _ _ Hok) in Hkk; [|done].
      apply Hne. symmetry. by apply (DomProofs.dom_antisym g Hg k j).
  - intros j. apply kids_sets_of_nodup.
  - intros j j' k [Hj Hk]%Hkid [Hj' Hk']%Hkid.
    destruct (child_spec c Hg ord Hord t Ht j k Hj Hk) as [Hkn Hid].
    destruct (child_spec c Hg ord Hord t Ht j' k Hj' Hk') as [_ Hid'].
    by apply (DomProofs.idom_unique g Hg j j' k).
  - intros k Hk. destruct (DomProofs.idom_exists g Hg _ (DomProofs.ok_dom _ _ Hok) k Hk) as (j & Hj).
    assert (Hjn : j < length g) by (eapply (DomProofs.sdom_lt g Hg); [|apply Hj]; lia).
    exists j. apply Hkid. split; [done|]. apply (DomProofs.ok_ch _ _ Hok); [done|lia|done].
  - intros k Hk. unfold rank. apply DomProofs.card_bounded. intros i Hi.
    apply (DomProofs.ok_dom _ _ Hok) in Hi; [|done]. by eapply (DomProofs.dom_lt g Hg).
Qed.
End Tree.

(* ------------------------------------------------------------------------ *)
(* the two theorems together: the construction on the tables that the mirror *)
(* of DominatorTree::new computes                                            *)
(* ------------------------------------------------------------------------ *)
Theorem into_ssa_paths_ok_c15 : ∀ c ord horder t c',
  DomSpec.rooted (graph_of c) → DomSpec.order_ok ord → (∀ l, horder l ≡ₚ l) →
  Dom.dominator_tree (Dom.dom_fuel (graph_of c)) ord (graph_of c) = Base.Ok t →
  SsaPre.ssa_dyn_pre_ok c = true →
  Ssa.into_ssa (sets_of horder (Dom.dt_frontier t)) (sets_of horder (Dom.dt_children t)) c = Ssa.SOk c' →
  ∀ pi, SsaSpec.path_from_entry c' pi →
    ∃ L, SsaSpec.exec_path c' (SsaCheck.params_map (Ir.c_params c')) pi = Some L.
Proof.
  intros c ord horder t c' Hg Hord Hh Ht Hpre Hssa.
  destruct (c15_tables_meet_hypotheses c Hg ord Hord t Ht horder Hh) as (H1 & H2 & H3).
  pose proof (c15_children_tree c Hg ord Hord t Ht horder Hh) as Htree.
  exact (SsaDominance.into_ssa_paths_ok _ _ c c' Hpre Htree H1 H2 H3 Hssa).
Qed.

(* the hypotheses are satisfiable: the loop  var x; x = 0; do { x = x + 1 } while (x); return x  *)
Module Example.
Import Ir.
Definition k0 : know := {| kval := None; kdeg := None |}.
Definition m0 : meta := {| m_start := 0%N; m_end := 0%N; m_file := None |}.
Definition xu : vname := {| vn_name := [120%N]; vn_suffix := None; vn_version := None |}.
Definition loop_pre : cfg :=
  {| c_kind := KFunction; c_params := []; c_decls := [(xu, TLocal)];
     c_blocks :=
       [ {| b_index := 0%N; b_depth := 0%N;
            b_stmts := [ SDecl m0 [xu] TLocal [];
                         SSubst m0 xu OpVar (ENum 0 k0) None (Some TLocal) ];
            b_preds := []; b_succs := [1%N] |};
         {| b_index := 1%N; b_depth := 1%N;
            b_stmts := [ SSubst m0 xu OpVar (EInfix IAdd (EVar xu k0) (ENum 1 k0) k0) None (Some TLocal);
                         SIf m0 (EVar xu k0) 1%N (Some 2%N) ];
            b_preds := [0%N; 1%N]; b_succs := [1%N; 2%N] |};
         {| b_index := 2%N; b_depth := 0%N;
            b_stmts := [ SRet m0 (EVar xu k0) ];
            b_preds := [1%N]; b_succs := [] |} ] |}.
Definition loop_frontier : list (list N) := [[]; [1%N]; []].
Definition loop_children : list (list N) := [[1%N]; [2%N]; []].

Lemma loop_hypotheses :
  SsaPre.ssa_dyn_pre_ok loop_pre = true ∧ SsaPre.children_treeb loop_children (length (c_blocks loop_pre)) = true ∧
  SsaDomSpec.creach loop_pre ∧ SsaDomSpec.children_sound loop_pre loop_children ∧
  SsaDomSpec.frontier_exact loop_pre loop_frontier.
Proof.
  split; [vm_compute; reflexivity|]. split; [vm_compute; reflexivity|].
  assert (Hg : DomSpec.rooted (graph_of loop_pre)) by (apply DomOracle.rooted_b_sound; vm_compute; reflexivity).
  destruct (DomProofs.dominator_tree_correct _ Dom.id_order Hg (proj1 DomOracle.orders_ok)) as (t & Ht & _).
  pose proof (c15_tables_meet_hypotheses loop_pre Hg Dom.id_order (proj1 DomOracle.orders_ok) t Ht (λ l, l) (λ l, reflexivity l)) as H.
  assert (E : Dom.dominator_tree (Dom.dom_fuel (graph_of loop_pre)) Dom.id_order (graph_of loop_pre) =
              Base.Ok {| Dom.dt_dominators := [1; 3; 7]%N; Dom.dt_idom := [None; Some 0; Some 1];
                         Dom.dt_children := [2; 4; 0]%N; Dom.dt_frontier := [0; 2; 0]%N |}) by (vm_compute; reflexivity).
  rewrite E in Ht. injection Ht as <-. exact H.
Qed.
End Example.
