(* C04: the end-to-end label statement with BOTH proved provenance steps in
   place of hypotheses — the desugarer's (Proofs.DesugarMetas, agent-C18) and the
   SSA construction's (Proofs.LabelsSsa) — and what the lifting mirror says.

   The lifting mirror Model.Lift (C12/C13) works on statement SKELETONS: a leaf
   statement and a condition are kept as an identity (a number), their metas are
   abstracted away.  What it proves about locations is therefore only this: the
   nodes of the lifted graph are exactly the nodes of the source body, each
   once, in source order (Proofs.LiftTheorems.every_item_exactly_once) — lifting
   neither drops, duplicates nor invents a statement or a condition.  That the
   IR node built for an AST node copies its meta (`Meta::from(&ast::Meta)` in
   ir.rs, `for_into_while` cloning the meta of the `for` statement onto the
   block and the loop it builds) is NOT in any mirror; it stays the explicit
   hypothesis [Hlift] below, stated about the graph BEFORE SSA, and is observed
   directly on every run (provenance clause of lib/props/C04.py). *)
From Coq Require Import NArith List Bool Lia.
Require Import Model.Base Model.Ir Model.Ssa Model.Labels.
Require Import Spec.MetaSpec Proofs.LabelsProofs Proofs.LabelsDesugar Proofs.LabelsSsa.
Require Model.Ast Model.Desugar Spec.ExpandSpec Proofs.DesugarMetas.
Require Model.Lift Spec.CfgSpec Proofs.LiftTheorems.
Require Import Model.Preprocess Spec.LexSpec Proofs.PreprocessProofs.
Import ListNotations.

Theorem labels_wellformed_through_desugaring_and_ssa :
  forall (P : N -> N -> Prop) env lib body body' frontier children c c' ctor ls l,
    Forall (fun m => P (Model.Ast.m_start m) (Model.Ast.m_end m)) (Spec.ExpandSpec.stmt_metas body) ->
    Model.Desugar.desugar_template env lib body = Model.Desugar.DOk body' ->
    (forall m, In m (cfg_stmt_metas c) ->
       In m (map ir_meta_of (Spec.ExpandSpec.stmt_metas body')) \/ (m_start m = 0%N /\ m_end m = 0%N)) ->
    into_ssa frontier children c = SOk c' ->
    P 0%N 0%N ->
    (forall m, In m (nodes_of ctor) -> In m (cfg_stmt_metas c')) ->
    (forall r, In r (parser_ranges_of ctor) -> P (fst r) (snd r)) ->
    labels_of (sources_of ctor) = Ok ls -> In l ls -> P (l_start l) (l_end l).
Proof.
  intros P env lib body body' frontier children c c' ctor ls l Hparsed Hd Hlift Hssa H0 Hn Hr.
  apply (labels_wellformed_through_desugaring P env lib body body' (cfg_stmt_metas c') ctor ls l);
    try assumption.
  intros m Hm. destruct (ssa_metas_from_input frontier children c c' Hssa m Hm) as [Hin| ->].
  - apply Hlift. exact Hin.
  - right. split; reflexivity.
Qed.

(* the lifting mirror: the graph holds exactly the statements and conditions of
   the source body, once each, in source order *)
Theorem lift_nodes_are_source_nodes : forall body g,
  Model.Lift.lift body = Ok g ->
  concat (map (fun b => map Spec.CfgSpec.item_key (Model.Lift.b_items b)) g)
  = map fst (Spec.CfgSpec.nesting 0 body).
Proof. exact Proofs.LiftTheorems.every_item_exactly_once. Qed.

(* One constructor whose range is CREATED by modelled code instead of inherited
   from a node: the unclosed-comment error.  Its label is valid without any
   hypothesis about the parser: one primary label in the file being parsed, the
   two bytes of the opener, inside the ORIGINAL text, on scalar boundaries. *)
Theorem unclosed_comment_label_valid : forall s o file ls l,
  preprocess s = Err (unclosed o) ->
  labels_of (sources_of (CUnclosedComment file o)) = Ok ls -> In l ls ->
  ls = [l] /\ l_primary l = true /\ l_file l = file /\
  l_start l = N.of_nat o /\ l_end l = N.of_nat (o + 2) /\ (l_start l <= l_end l)%N /\
  boundary s o /\ boundary s (o + 2) /\ (o + 2 <= text_bytes s)%nat /\
  scalar_at s o 47%N /\ scalar_at s (o + 1) 42%N.
Proof.
  intros s o file ls l Hp Hl Hin.
  destruct (unclosed_comment_range_valid s o Hp) as (A & B & C & D & E).
  simpl in Hl. inversion Hl; subst ls. destruct Hin as [<-|[]]. simpl.
  repeat split; try assumption. lia.
Qed.
