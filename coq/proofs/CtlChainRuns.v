(* C07: the loop-free theorem for the graph the chain of mirrors produces.  For a body lifted by
   Model.LiftFull.try_lift_impl, converted by Model.Ssa.into_ssa and annotated by
   Model.Propagate.propagate, the hypothesis "the graph has the predecessor and successor lists of
   a lifted skeleton" of Proofs.DegRunDecided.loop_free_graph_claims_true is a theorem
   (Proofs.CtlChain.chain_keeps_skeleton_edges); what remains are decidable hypotheses about the
   annotated graph and the family of runs.  The mirror of into_ssa hands the declarations over
   through the statements and leaves the table c_decls empty, so the theorem is stated for every
   graph c' with the BLOCKS of the chain's output (the implementation's graph, with its table). *)
From Coq Require Import ZArith NArith List Bool.
Require Import Model.Base Model.Ir Model.SsaCheck Model.Propagate Model.Justify Model.DegJustify Model.DegGraph Model.SsaPre Model.Ssa.
Require Model.Lift Model.LiftFull.
Require Import Spec.PolyDeg Spec.DegSem Spec.DegRun Proofs.DegreeProofs Proofs.DegGraphProofs Proofs.DegRunProofs Proofs.DegRunDecided.
Require Proofs.CtlChain.
Import ListNotations.
Local Open Scope Z_scope.

Theorem chain_loop_free_claims_true
  (V : Type) (line : V -> V -> Z -> V) (p : Z)
  (sem2 : infix_op -> Z -> Z -> Z) (sem1 : prefix_op -> Z -> Z) (call_sem : ident -> list Z -> Z) (name_code : ident -> Z) :
  (forall op, op_den p op (sem2 op)) -> (forall op, prefix_den p op (sem1 op)) ->
  forall (key : meta -> nat) kind params pfile ploc body (r : LiftFull.lifted) frontier children (c1 : cfg)
         (kv kd : nat) (q : Z) (idom : list (option N)) (c2 : cfg) (infos : list binfo)
         (S0 : fstore V) (pth : V -> list nat) (s0 s : V -> cstore) (reps : list V),
  LiftFull.try_lift_impl kind params pfile ploc body = Ok r ->
  phi_free (LiftFull.erase_cfg (LiftFull.l_cfg r)) = true -> decls_ok (LiftFull.erase_cfg (LiftFull.l_cfg r)) = true ->
  into_ssa frontier children (LiftFull.erase_cfg (LiftFull.l_cfg r)) = SOk c1 ->
  propagate kv kd q idom c1 = Ok c2 ->
  forall c' : cfg, c_blocks c' = c_blocks c2 ->
  djust_cfg c' idom = true -> infos_ok infos c' = true ->
  deg_graph_ok c' idom = true -> loop_free_ok c' = true ->
  finit_ok V line p c' S0 ->
  (forall rho, exists tl, pth rho = 0%nat :: tl) ->
  (forall rho, exists r0, In r0 reps /\ pth r0 = pth rho) ->
  (forall rho, rel_store V rho (s0 rho) S0) ->
  (forall rho, cexec_path p sem2 sem1 call_sem name_code c' (params_map (c_params c')) (s0 rho) (pth rho) = Some (s rho)) ->
  forall e rg (val : V -> cell),
  djust_expr c' e = true -> expr_deg e = Some rg ->
  (forall rho, cval p sem2 sem1 call_sem name_code (s rho) e = Some (val rho)) ->
  forall i, SemDeg V line p (snd rg) (fun rho => val rho i).
Proof.
  intros H2 H1 key kind params pfile ploc body r frontier children c1 kv kd q idom c2 infos S0 pth s0 s reps
         Hl Hpf Hd Hssa Hprop.
  destruct (CtlChain.chain_keeps_skeleton_edges key kind params pfile ploc body r frontier children c1 kv kd q idom c2
              Hl Hpf Hd Hssa Hprop) as [Hlift Hsame].
  intros c' Hblocks Hv Hok Hdg Hlf.
  assert (Hsame' : dom_graph_of c' = Proofs.MirrorsDom.to_dom (map (LiftFull.skel_block key) (LiftFull.xc_blocks (LiftFull.l_cfg r)))).
  { rewrite <- Hsame. unfold dom_graph_of. rewrite Hblocks. reflexivity. }
  exact (loop_free_graph_claims_true V line p sem2 sem1 call_sem name_code H2 H1 c' idom infos _ _ S0 pth s0 s reps
           Hv Hok Hdg Hlf Hsame' Hlift).
Qed.
