(* The main induction over the statement: visit_statement preserves the
   invariant (C12), never panics on parser-shaped input, and the theorems of
   C12 about the final graph. *)
From stdpp Require Import list sets.
Require Import Model.Lift Spec.CfgSpec Proofs.LiftBasics Proofs.LiftInv Proofs.LiftSteps.
Import Base(outcome, Ok, Err, Panic, OutOfFuel, bind).

(* ---------------- induction principle for skeletons ---------------- *)
Section sk_induction.
  Variable Q : sk -> Prop.
  Hypothesis HL : forall id r, Q (SLeaf id r).
  Hypothesis HN : forall ss, Forall Q ss -> Q (SInit ss).
  Hypothesis HB : forall ss, Forall Q ss -> Q (SBlock ss).
  Hypothesis HW : forall c b, Q b -> Q (SWhile c b).
  Hypothesis HI : forall c t e, Q t -> (forall e', e = Some e' -> Q e') -> Q (SIf c t e).

  Fixpoint sk_ind' (s : sk) : Q s :=
    match s with
    | SLeaf id r => HL id r
    | SInit ss => HN ss ((fix go ss : Forall Q ss :=
                            match ss with
                            | [] => Forall_nil_2 Q
                            | s :: r => Forall_cons_2 Q s r (sk_ind' s) (go r)
                            end) ss)
    | SBlock ss => HB ss ((fix go ss : Forall Q ss :=
                            match ss with
                            | [] => Forall_nil_2 Q
                            | s :: r => Forall_cons_2 Q s r (sk_ind' s) (go r)
                            end) ss)
    | SWhile c b => HW c b (sk_ind' b)
    | SIf c t e => HI c t e (sk_ind' t)
                     (match e as e0 return forall e', e0 = Some e' -> Q e' with
                      | Some e1 => fun e' H => match H in _ = x return match x with Some y => Q y | None => True end
                                               with eq_refl => sk_ind' e1 end
                      | None => fun e' H => match H in _ = x return match x with Some y => Q y | None => True end
                                            with eq_refl => I end
                      end)
    end.
End sk_induction.

(* ---------------- the inner loops as functions ---------------- *)
Fixpoint visit_seq (d : nat) (ss : list sk) (ps : list nat) (g : graph) : outcome (graph * list nat) :=
  match ss with
  | [] => Ok (g, ps)
  | s :: r =>
      bind (if is_nil ps then Ok g else complete g ps d) (fun g =>
      bind (visit s d g) (fun res => visit_seq d r (snd res) (fst res)))
  end.

Fixpoint visit_init (d : nat) (ss : list sk) (g : graph) : outcome (graph * list nat) :=
  match ss with
  | [] => Ok (g, [])
  | s :: r =>
      bind (visit s d g) (fun res =>
      if is_nil (snd res) then visit_init d r (fst res) else Panic site_init_nonempty)
  end.

Lemma bind_ext {A B} (m : outcome A) (f f' : A -> outcome B) :
  (forall a, f a = f' a) -> bind m f = bind m f'.
Proof. intros H. destruct m; simpl; auto. Qed.

Lemma visit_block_eq ss d g :
  visit (SBlock ss) d g = bind (last_index g) (fun _ => visit_seq d ss [] g).
Proof.
  simpl. apply bind_ext. intros _. generalize (@nil nat). revert g.
  induction ss as [|s r IH]; intros g ps; [done|]. simpl.
  apply bind_ext. intros g1. apply bind_ext. intros res. apply IH.
Qed.

Lemma visit_init_eq ss d g :
  visit (SInit ss) d g = bind (last_index g) (fun _ => visit_init d ss g).
Proof.
  simpl. apply bind_ext. intros _. revert g.
  induction ss as [|s r IH]; intros g; [done|]. simpl.
  apply bind_ext. intros res. destruct (is_nil (snd res)); [apply IH|done].
Qed.

Fixpoint nestings (d : nat) (ss : list sk) : list (key * nat) :=
  match ss with [] => [] | s :: r => nesting d s ++ nestings d r end.

Lemma nesting_block d ss : nesting d (SBlock ss) = nestings d ss.
Proof. simpl. induction ss as [|s r IH]; [done|]. simpl. by rewrite IH. Qed.

Lemma nesting_init d ss : nesting d (SInit ss) = nestings d ss.
Proof. simpl. induction ss as [|s r IH]; [done|]. simpl. by rewrite IH. Qed.

(* ---------------- pre/post ---------------- *)
Lemma pre_last_index g d P0 : pre g d P0 -> last_index g = Ok (length g - 1).
Proof.
  intros [Hwf _ (b & Hb & _)]. unfold last_index. rewrite last_lookup', Hb.
  by rewrite (ok_index _ _ _ _ (wf_blk _ _ Hwf _ _ Hb)).
Qed.

Record post (s : sk) (g : graph) (d : nat) (P0 : nat -> Prop) (g' : graph) (ps : list nat) : Prop := {
  post_len : length g <= length g';
  post_range : forall i, i ∈ ps -> length g - 1 <= i < length g';
  post_ss : ssorted ps;
  post_state : if is_nil ps then pre g' d P0 else wf g' (fun i => P0 i \/ i ∈ ps);
  post_items : graph_items g' = graph_items g ++ nesting d s;
  post_ext : gext g g';
  post_frame : forall i, i < length g - 1 -> g' !! i = g !! i;
}.

Lemma pre_length g d P0 : pre g d P0 -> 0 < length g.
Proof. intros H. apply pre_nonempty in H. destruct g; [done|simpl; lia]. Qed.

(* `if pred_set.is_empty() { pred_set.insert(last) }` *)
Lemma or_last_spec g d P0 ps ps' :
  (if is_nil ps then pre g d P0 else wf g (fun i => P0 i \/ i ∈ ps)) -> ssorted ps ->
  or_last g ps = Ok ps' ->
  ps' <> [] /\ ssorted ps' /\ wf g (fun i => P0 i \/ i ∈ ps') /\
  (forall i, i ∈ ps' -> i ∈ ps \/ (ps = [] /\ i = length g - 1)) /\
  ps' = (if is_nil ps then [length g - 1] else ps).
Proof.
  unfold or_last. destruct (is_nil ps) eqn:E.
  - apply is_nil_true in E as ->. intros Hpre _. rewrite (pre_last_index _ _ _ Hpre). simpl.
    intros [= <-]. split; [done|]. split; [apply ssorted_singleton|]. split; [|split; [|done]].
    + eapply wf_ext; [|apply (pre_wf _ _ _ Hpre)]. intros i. simpl. set_solver.
    + intros i Hi. right. set_solver.
  - apply is_nil_false in E. intros Hwf Hss [= <-].
    split; [done|]. split; [done|]. split; [done|]. split; [|done]. intros i Hi. by left.
Qed.

Lemma wf_nonempty g (P : nat -> Prop) i : wf g P -> P i -> g <> [].
Proof. intros Hwf Hi ->. apply (wf_P _ _ Hwf) in Hi. simpl in Hi. lia. Qed.

Ltac inv_bind H :=
  let a := fresh "a" in let E := fresh "E" in
  apply bind_ok in H as (a & E & H).

Definition visit_ok (s : sk) : Prop :=
  forall d g P0 g' ps, pre g d P0 -> visit s d g = Ok (g', ps) -> post s g d P0 g' ps.

(* sequences of statements of a block *)
Lemma visit_seq_post ss : Forall visit_ok ss ->
  forall d (g0 : graph) (P0 : nat -> Prop) (g1 : graph) (ps1 : list nat) X (g' : graph) (ps : list nat),
  (forall i, P0 i -> i < length g0 - 1) ->
  length g0 <= length g1 -> (forall i, i ∈ ps1 -> length g0 - 1 <= i < length g1) -> ssorted ps1 ->
  (if is_nil ps1 then pre g1 d P0 else wf g1 (fun i => P0 i \/ i ∈ ps1)) ->
  gext g0 g1 -> graph_items g1 = graph_items g0 ++ X ->
  visit_seq d ss ps1 g1 = Ok (g', ps) ->
  length g0 <= length g' /\ (forall i, i ∈ ps -> length g0 - 1 <= i < length g') /\ ssorted ps /\
  (if is_nil ps then pre g' d P0 else wf g' (fun i => P0 i \/ i ∈ ps)) /\
  gext g0 g' /\ graph_items g' = graph_items g0 ++ X ++ nestings d ss /\
  (forall i, i < length g0 - 1 -> g' !! i = g1 !! i) /\ gext g1 g'.
Proof.
  induction 1 as [|s r Hs _ IH]; intros d g0 P0 g1 ps1 X g' ps HP0 Hlen Hrange Hss Hst Hext Hit Hv.
  - simpl in Hv. injection Hv as <- <-. rewrite app_nil_r. repeat (split; [done|]). apply gext_refl.
  - simpl in Hv. inv_bind Hv. rename a into g2. inv_bind Hv. destruct a as [g3 ps3]. simpl in Hv.
    assert (H2 : pre g2 d P0 /\ length g1 <= length g2 /\ graph_items g2 = graph_items g1 /\ gext g1 g2 /\
                 (forall i, i < length g0 - 1 -> g2 !! i = g1 !! i)).
    { destruct (is_nil ps1) eqn:En.
      - injection E as <-. split; [done|]. split; [done|]. split; [done|]. split; [apply gext_refl|done].
      - apply is_nil_false in En.
        destruct (step_complete g1 ps1 d P0 g2) as (Hp & Hl & Hi & He); try done.
        + destruct ps1 as [|p ?]; [done|]. eapply (wf_nonempty _ _ p); [done|]. right. set_solver.
        + intros i Hi HPi. specialize (HP0 _ HPi). specialize (Hrange _ Hi). lia.
        + split; [done|]. split; [lia|]. split; [done|]. split; [done|].
          intros i Hi'. eapply frame_complete; [| |exact E| |lia].
          * intros k Hk. apply (wf_P _ _ Hst). by right.
          * by apply ssorted_NoDup.
          * intros Hin. specialize (Hrange _ Hin). lia. }
    destruct H2 as (Hpre2 & Hl2 & Hi2 & He2 & Hf2).
    destruct (Hs d g2 P0 g3 ps3 Hpre2 E0) as [Q1 Q2 Q3 Q4 Q5 Q6 Q7].
    destruct (IH d g0 P0 g3 ps3 (X ++ nesting d s) g' ps) as (R1 & R2 & R3 & R4 & R5 & R6 & R7 & R8); try done.
    + lia.
    + intros i Hi. specialize (Q2 _ Hi). lia.
    + eapply gext_trans; [done|]. eapply gext_trans; done.
    + rewrite Q5, Hi2, Hit, <- app_assoc. done.
    + split; [done|]. split; [done|]. split; [done|]. split; [done|]. split; [done|].
      split; [rewrite R6; simpl; by rewrite <- app_assoc|]. split.
      * intros i Hi. rewrite R7, Q7, Hf2; [done|lia..].
      * eapply gext_trans; [exact He2|]. eapply gext_trans; [exact Q6|exact R8].
Qed.

Lemma visit_init_post ss : Forall visit_ok ss ->
  forall d (g0 : graph) (P0 : nat -> Prop) (g1 : graph) X (g' : graph) (ps : list nat),
  length g0 <= length g1 -> pre g1 d P0 ->
  gext g0 g1 -> graph_items g1 = graph_items g0 ++ X ->
  visit_init d ss g1 = Ok (g', ps) ->
  ps = [] /\ length g0 <= length g' /\ pre g' d P0 /\
  gext g0 g' /\ graph_items g' = graph_items g0 ++ X ++ nestings d ss /\
  (forall i, i < length g0 - 1 -> g' !! i = g1 !! i) /\ gext g1 g'.
Proof.
  induction 1 as [|s r Hs _ IH]; intros d g0 P0 g1 X g' ps Hlen Hpre Hext Hit Hv.
  - simpl in Hv. injection Hv as <- <-. rewrite app_nil_r. repeat (split; [done|]). apply gext_refl.
  - simpl in Hv. inv_bind Hv. destruct a as [g3 ps3]. simpl in Hv.
    destruct (is_nil ps3) eqn:En; [|done].
    destruct (Hs d g1 P0 g3 ps3 Hpre E) as [Q1 Q2 Q3 Q4 Q5 Q6 Q7]. rewrite En in Q4.
    destruct (IH d g0 P0 g3 (X ++ nesting d s) g' ps) as (R1 & R2 & R3 & R4 & R5 & R6 & R8); try done.
    + lia.
    + by eapply gext_trans.
    + rewrite Q5, Hit, <- app_assoc. done.
    + split; [done|]. split; [done|]. split; [done|]. split; [done|].
      split; [rewrite R5; simpl; by rewrite <- app_assoc|]. split.
      * intros i Hi. rewrite R6, Q7; [done|lia..].
      * by eapply gext_trans.
Qed.

Lemma singleton_ext (P0 : nat -> Prop) l i : (P0 i \/ i = l) <-> (P0 i \/ i ∈ [l]).
Proof. set_solver. Qed.

Lemma iunion_not_nil a b : a <> [] -> iunion a b <> [].
Proof.
  intros Ha Hu. destruct a as [|x r]; [done|].
  assert (x ∈ iunion (x :: r) b) by (apply elem_of_iunion; left; set_solver).
  rewrite Hu in H. set_solver.
Qed.

Theorem visit_post s : visit_ok s.
Proof.
  induction s as [id r|ss IH|ss IH|c body IH|c t e IHt IHe] using sk_ind';
    intros d g P0 g' ps Hpre Hv.
  - (* leaf *)
    simpl in Hv. inv_bind Hv. inv_bind Hv. injection Hv as <- <-.
    destruct (step_leaf _ _ _ _ _ Hpre E0) as (H1 & H2 & H3 & H4).
    split; [lia|set_solver|done|exact H1|exact H3|exact H4|].
    intros i Hi. apply upd_last_inv in E0 as [_ ->]. rewrite list_lookup_alter_ne by lia. done.
  - (* initialisation block *)
    rewrite visit_init_eq in Hv. inv_bind Hv.
    destruct (visit_init_post ss IH d g P0 g [] g' ps) as (-> & R1 & R2 & R3 & R4 & R5 & _); try done.
    + apply gext_refl.
    + by rewrite app_nil_r.
    + split; [done|set_solver|done|exact R2|by rewrite nesting_init|done|done].
  - (* block *)
    rewrite visit_block_eq in Hv. inv_bind Hv.
    destruct (visit_seq_post ss IH d g P0 g [] [] g' ps) as (R1 & R2 & R3 & R4 & R5 & R6 & R7 & _); try done.
    + apply (pre_P0 _ _ _ Hpre).
    + set_solver.
    + apply gext_refl.
    + by rewrite app_nil_r.
    + split; try done. by rewrite nesting_block.
  - (* while *)
    simpl in Hv. rewrite (pre_last_index _ _ _ Hpre) in Hv. simpl in Hv.
    set (l := length g - 1) in *.
    assert (Hlg : length g = S l) by (pose proof (pre_length _ _ _ Hpre); unfold l; lia).
    inv_bind Hv. rename a into g1, E into E1.
    inv_bind Hv. rename a into g2, E into E2.
    inv_bind Hv. rename a into g3, E into E3.
    inv_bind Hv. destruct a as [g4 ps4]. rename E into E4. simpl in Hv.
    inv_bind Hv. rename a into ps', E into E5.
    inv_bind Hv. rename a into g5, E into E6. injection Hv as <- <-.
    (* header block *)
    destruct (step_complete g [l] d P0 g1) as (Hp1 & Hl1 & Hi1 & He1); try done.
    { eapply wf_ext; [|apply (pre_wf _ _ _ Hpre)]. intros i. apply singleton_ext. }
    { by eapply pre_nonempty. }
    { apply ssorted_singleton. }
    { intros i Hi HPi. apply elem_of_list_singleton in Hi as ->. apply (pre_P0 _ _ _ Hpre) in HPi. lia. }
    (* branch, body block *)
    assert (Hh : l + 1 = length g1 - 1) by lia.
    replace (l + 2) with (S (length g1 - 1)) in E2 by lia. rewrite Hh in E3, E6 |- *.
    destruct (step_branch g1 d (d + 1) P0 c g2 g3 Hp1 E2 E3) as (Hp3 & Hl3 & Hi3 & He3 & _).
    set (h := length g1 - 1) in *.
    destruct (IH (d + 1) g3 _ g4 ps4 Hp3 E4) as [Q1 Q2 Q3 Q4 Q5 Q6 Q7].
    destruct (or_last_spec g4 (d + 1) _ ps4 ps' Q4 Q3 E5) as (O1 & O2 & O3 & O4 & _).
    assert (Hps' : forall i, i ∈ ps' -> h < i /\ ~ P0 i).
    { intros i Hi. assert (length g3 - 1 <= i).
      { destruct (O4 _ Hi) as [Hi'|[-> ->]]; [apply Q2 in Hi'; lia|lia]. }
      split; [lia|]. intros HPi. apply (pre_P0 _ _ _ Hpre) in HPi. lia. }
    destruct (step_back g4 h ps' P0 g5) as (Hw5 & Hl5 & Hi5 & He5 & _); try done.
    { eapply wf_ext; [|exact O3]. intros i. simpl. tauto. }
    { lia. }
    split.
    + lia.
    + intros i Hi. apply elem_of_list_singleton in Hi as ->. lia.
    + apply ssorted_singleton.
    + simpl. eapply wf_ext; [|exact Hw5]. intros i. apply singleton_ext.
    + rewrite Hi5, Q5, Hi3, Hi1. simpl. rewrite <- app_assoc. simpl. by rewrite Nat.add_1_r.
    + eapply gext_trans; [exact He1|]. eapply gext_trans; [exact He3|]. eapply gext_trans; done.
    + intros i Hi.
      destruct (back_lookup h ps' g4 g5) as (_ & Hbl); [lia| |by apply ssorted_NoDup|done|].
      { intros k Hk. split; [apply (wf_P _ _ O3); by right|]. apply Hps' in Hk. lia. }
      assert (Hi4 : g4 !! i = g !! i).
      { rewrite Q7 by lia. rewrite (frame_branch g1 _ g2 g3 (d + 1) i E2 E3) by (fold h; lia).
        eapply frame_complete; [| |exact E1| |lia].
        - intros k Hk. apply elem_of_list_singleton in Hk as ->. lia.
        - apply NoDup_singleton.
        - intros Hk. apply elem_of_list_singleton in Hk. lia. }
      destruct (g !! i) as [b|] eqn:Eb.
      * rewrite (Hbl _ _ Hi4). rewrite decide_False by lia.
        rewrite decide_False; [done|]. intros Hk. apply Hps' in Hk. lia.
      * apply lookup_ge_None in Eb. lia.
  - (* if *)
    simpl in Hv. rewrite (pre_last_index _ _ _ Hpre) in Hv. simpl in Hv.
    set (l := length g - 1) in *.
    assert (Hlg : length g = S l) by (pose proof (pre_length _ _ _ Hpre); unfold l; lia).
    inv_bind Hv. rename a into g1, E into E1.
    inv_bind Hv. rename a into g2, E into E2.
    inv_bind Hv. destruct a as [g3 ps3]. rename E into E3. simpl in Hv.
    inv_bind Hv. rename a into psi, E into E4.
    replace (l + 1) with (S l) in E1 by lia.
    destruct (step_branch g d d P0 c g1 g2 Hpre E1 E2) as (Hp2 & Hl2 & Hi2 & He2 & _).
    fold l in Hp2.
    destruct (IHt d g2 _ g3 ps3 Hp2 E3) as [Q1 Q2 Q3 Q4 Q5 Q6 Q7].
    assert (Hf3 : forall i, i < l -> g3 !! i = g !! i).
    { intros i Hi. rewrite Q7 by lia. apply (frame_branch g _ g1 g2 d i E1 E2). by fold l. }
    destruct (or_last_spec g3 d _ ps3 psi Q4 Q3 E4) as (O1 & O2 & O3 & O4 & _).
    assert (Hpsi : forall i, i ∈ psi -> length g2 - 1 <= i < length g3).
    { intros i Hi. destruct (O4 _ Hi) as [Hi'|[-> ->]]; [by apply Q2|lia]. }
    destruct e as [e|].
    + (* with else *)
      inv_bind Hv. rename a into g4, E into E5.
      inv_bind Hv. destruct a as [g5 ps5]. rename E into E6. simpl in Hv.
      inv_bind Hv. rename a into pse, E into E7. injection Hv as <- <-.
      destruct (step_complete g3 [l] d (fun i => P0 i \/ i ∈ psi) g4) as (Hp4 & Hl4 & Hi4 & He4); try done.
      { eapply wf_ext; [|exact O3]. intros i. simpl. set_solver. }
      { destruct psi as [|p ?]; [done|]. eapply (wf_nonempty _ _ p); [exact O3|]. right. set_solver. }
      { apply ssorted_singleton. }
      { intros i Hi [HPi|HPi]; apply elem_of_list_singleton in Hi as ->.
        - apply (pre_P0 _ _ _ Hpre) in HPi. lia.
        - apply Hpsi in HPi. lia. }
      destruct (IHe e eq_refl d g4 _ g5 ps5 Hp4 E6) as [R1 R2 R3 R4 R5 R6 R7].
      destruct (or_last_spec g5 d _ ps5 pse R4 R3 E7) as (U1 & U2 & U3 & U4 & _).
      split.
      * lia.
      * intros i Hi. apply elem_of_iunion in Hi as [Hi|Hi].
        -- apply Hpsi in Hi. lia.
        -- destruct (U4 _ Hi) as [Hi'|[-> ->]]; [apply R2 in Hi'; lia|lia].
      * by apply ssorted_iunion.
      * assert (is_nil (iunion psi pse) = false) as -> by (by apply is_nil_false, iunion_not_nil).
        eapply wf_ext; [|exact U3]. intros i. simpl. rewrite elem_of_iunion. tauto.
      * rewrite R5, Hi4, Q5, Hi2. simpl. rewrite <- !app_assoc. done.
      * eapply gext_trans; [exact He2|]. eapply gext_trans; [exact Q6|]. eapply gext_trans; done.
      * intros i Hi. fold l in Hi. rewrite R7 by lia. rewrite <- Hf3 by done.
        eapply frame_complete; [| |exact E5| |lia].
        -- intros k Hk. apply elem_of_list_singleton in Hk as ->. lia.
        -- apply NoDup_singleton.
        -- intros Hk. apply elem_of_list_singleton in Hk. lia.
    + (* without else *)
      injection Hv as <- <-. split.
      * lia.
      * intros i Hi. apply elem_of_ins in Hi as [->|Hi]; [lia|]. apply Hpsi in Hi. lia.
      * by apply ssorted_ins.
      * assert (is_nil (ins l psi) = false) as -> by (apply is_nil_false, ins_not_nil).
        eapply wf_ext; [|exact O3]. intros i. simpl. rewrite elem_of_ins. tauto.
      * rewrite Q5, Hi2. simpl. rewrite <- !app_assoc, app_nil_r. done.
      * by eapply gext_trans.
      * intros i Hi. apply Hf3. by fold l in Hi.
Qed.
