(* C04: the provenance of the statement metas through IR lifting, from the
   content-carrying lifting mirror Model.LiftFull (Proofs.LiftFullProofs), in the
   vocabulary of C04 (Spec.MetaSpec.cfg_stmt_metas, Proofs.LabelsDesugar.ir_meta_of,
   Spec.ExpandSpec.stmt_metas).  This discharges, for statement metas, the
   hypothesis about lifting that C04_labels_wellformed_through_desugaring_and_ssa
   still carried. *)
From Coq Require Import NArith List Bool.
Require Import Model.Base Model.Ir Model.Labels Model.Ssa.
Require Import Spec.MetaSpec Proofs.LabelsProofs Proofs.LabelsDesugar Proofs.LabelsPipeline.
Require Model.Ast Model.Desugar Spec.ExpandSpec Model.LiftFull Proofs.LiftFullProofs.
Import ListNotations.

Lemma erase_stmt_meta x : stmt_meta (LiftFull.erase_stmt x) = LiftFull.xstmt_meta x.
Proof. destruct x; reflexivity. Qed.

Lemma cfg_stmt_metas_erase c :
  cfg_stmt_metas (LiftFull.erase_cfg c) = map LiftFull.xstmt_meta (LiftFull.graph_stmts (LiftFull.xc_blocks c)).
Proof.
  unfold cfg_stmt_metas, LiftFull.erase_cfg, LiftFull.graph_stmts. simpl.
  induction (LiftFull.xc_blocks c) as [|b g IH]; [reflexivity|].
  simpl. rewrite map_app, IH. f_equal. rewrite map_map. apply map_ext. intros x. apply erase_stmt_meta.
Qed.

(* The statement metas of the lifted graph, read block by block, ARE the metas of
   the statements of the body (every statement except blocks and initialization
   blocks), in source order: each statement's location is the location of exactly
   one source statement, none is lost, none invented. *)
Theorem lift_stmt_metas_from_ast : forall kind params pfile ploc body c,
  LiftFull.lift_to_ir kind params pfile ploc body = Ok c ->
  cfg_stmt_metas c = map ir_meta_of (map Model.Ast.stmt_meta (LiftFull.lifted_stmts body)).
Proof.
  intros kind params pfile ploc body c H. unfold LiftFull.lift_to_ir in H.
  destruct (LiftFull.try_lift_impl kind params pfile ploc body) as [r| | |] eqn:E; try discriminate.
  simpl in H. injection H as <-.
  rewrite cfg_stmt_metas_erase, (LiftFullProofs.liftfull_stmt_metas _ _ _ _ _ _ E), map_map. reflexivity.
Qed.

Lemma In_flat_map_sub {A} (f g : A -> list Model.Ast.statement) l s :
  (forall x, In x l -> forall s, In s (f x) -> In s (g x)) ->
  In s (flat_map f l) -> In s (flat_map g l).
Proof.
  intros H Hs. apply in_flat_map in Hs as (x & Hx & Hs). apply in_flat_map. exists x. split; [exact Hx|]. exact (H x Hx s Hs).
Qed.

Lemma lifted_in_sub_stmts : forall body s, In s (LiftFull.lifted_stmts body) -> In s (Spec.ExpandSpec.sub_stmts body).
Proof.
  induction body as [m c t e IHt IHe|m c b IH|m t l IH|m l IH|m t n d c|s0 Hp] using LiftFullProofs.stmt_ind'; intros s Hs.
  - simpl in Hs |- *. destruct Hs as [<-|Hs]; [left; reflexivity|]. right.
    apply in_app_or in Hs as [Hs|Hs]; apply in_or_app; [left; exact (IHt _ Hs)|right].
    destruct e as [e|]; [exact (IHe e eq_refl _ Hs)|exact Hs].
  - simpl in Hs |- *. destruct Hs as [<-|Hs]; [left; reflexivity|]. right. exact (IH _ Hs).
  - simpl in Hs |- *. right. revert Hs. apply In_flat_map_sub. intros x Hx s1 Hs1.
    rewrite Forall_forall in IH. exact (IH x Hx s1 Hs1).
  - simpl in Hs |- *. right. revert Hs. apply In_flat_map_sub. intros x Hx s1 Hs1.
    rewrite Forall_forall in IH. exact (IH x Hx s1 Hs1).
  - simpl in Hs |- *. destruct Hs as [<-|[]]. left; reflexivity.
  - destruct s0; try contradiction; simpl in Hs |- *; destruct Hs as [<-|[]]; left; reflexivity.
Qed.

(* the form of the hypothesis of labels_wellformed_through_desugaring_and_ssa *)
Theorem lift_stmt_metas_in_body : forall kind params pfile ploc body c,
  LiftFull.lift_to_ir kind params pfile ploc body = Ok c ->
  forall m, In m (cfg_stmt_metas c) -> In m (map ir_meta_of (Spec.ExpandSpec.stmt_metas body)).
Proof.
  intros kind params pfile ploc body c H m Hm.
  rewrite (lift_stmt_metas_from_ast _ _ _ _ _ _ H) in Hm.
  apply in_map_iff in Hm as (am & <- & Ham). apply in_map. unfold Spec.ExpandSpec.stmt_metas.
  apply in_or_app. right. apply in_map_iff in Ham as (s & <- & Hs). apply in_map. apply lifted_in_sub_stmts. exact Hs.
Qed.

(* the end-to-end statement with the desugarer's, the lifting's (statement metas)
   and the SSA construction's provenance proved: what used to be hypothesis 3 of
   labels_wellformed_through_desugaring_and_ssa is now "the lifting mirror
   produced the graph" *)
Theorem labels_wellformed_through_desugaring_lifting_and_ssa :
  forall (P : N -> N -> Prop) env lib body body' kind params pfile ploc frontier children c c' ctor ls l,
    Forall (fun m => P (Model.Ast.m_start m) (Model.Ast.m_end m)) (Spec.ExpandSpec.stmt_metas body) ->
    Model.Desugar.desugar_template env lib body = Model.Desugar.DOk body' ->
    LiftFull.lift_to_ir kind params pfile ploc body' = Ok c ->
    into_ssa frontier children c = SOk c' ->
    P 0%N 0%N ->
    (forall m, In m (nodes_of ctor) -> In m (cfg_stmt_metas c')) ->
    (forall r, In r (parser_ranges_of ctor) -> P (fst r) (snd r)) ->
    labels_of (sources_of ctor) = Ok ls -> In l ls -> P (l_start l) (l_end l).
Proof.
  intros P env lib body body' kind params pfile ploc frontier children c c' ctor ls l Hp Hd Hl Hs H0 Hn Hr Hls Hin.
  apply (labels_wellformed_through_desugaring_and_ssa P env lib body body' frontier children c c' ctor ls l); try assumption.
  intros m Hm. left. exact (lift_stmt_metas_in_body _ _ _ _ _ _ Hl m Hm).
Qed.
