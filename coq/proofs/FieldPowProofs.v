(* C16: the windowed exponentiation mirrored in Model.FieldPow computes the
   value of Model.Field.pow with a number of multiplications that is linear in
   the number of limbs of the exponent. *)
From Coq Require Import ZArith Zpow_facts Lia Bool Znumtheory List.
Require Import Model.Base Model.Field Model.FieldPow Spec.FieldSpec Proofs.FieldProofs.
Import ListNotations.
Local Open Scope Z_scope.
Ltac Zify.zify_post_hook ::= Z.div_mod_to_equations.
Local Opaque Z.pow.

Lemma mm_pow p x n m : 0 < p -> 0 <= n -> 0 <= m -> mm p (x ^ n mod p) (x ^ m mod p) = x ^ (n + m) mod p.
Proof.
  intros Hp Hn Hm. unfold mm. rewrite <- Zmult_mod. rewrite Z.pow_add_r by lia. reflexivity.
Qed.

Lemma sq4_pow p x q : 0 < p -> 0 <= q ->
  mm p (mm p (mm p (mm p (x ^ q mod p) (x ^ q mod p)) (mm p (x ^ q mod p) (x ^ q mod p)))
             (mm p (mm p (x ^ q mod p) (x ^ q mod p)) (mm p (x ^ q mod p) (x ^ q mod p))))
       (mm p (mm p (mm p (x ^ q mod p) (x ^ q mod p)) (mm p (x ^ q mod p) (x ^ q mod p)))
             (mm p (mm p (x ^ q mod p) (x ^ q mod p)) (mm p (x ^ q mod p) (x ^ q mod p))))
  = x ^ (16 * q) mod p.
Proof.
  intros Hp Hq.
  rewrite (mm_pow p x q q) by lia.
  rewrite (mm_pow p x (q + q) (q + q)) by lia.
  rewrite (mm_pow p x (q + q + (q + q)) (q + q + (q + q))) by lia.
  rewrite (mm_pow p x (q + q + (q + q) + (q + q + (q + q))) (q + q + (q + q) + (q + q + (q + q)))) by lia.
  f_equal. f_equal. lia.
Qed.

Lemma powers_from_nth n : forall p x j i, 0 < p -> 0 <= j -> (i < n)%nat ->
  nth i (powers_from n p (x mod p) (x ^ j mod p)) 0 = x ^ (j + 1 + Z.of_nat i) mod p.
Proof.
  induction n as [|n IH]; intros p x j i Hp Hj Hi; [lia|].
  cbn [powers_from]. cbv zeta.
  assert (E : mm p (x ^ j mod p) (x mod p) = x ^ (j + 1) mod p).
  { replace (x mod p) with (x ^ 1 mod p) by (rewrite Z.pow_1_r; reflexivity). apply mm_pow; lia. }
  rewrite E. destruct i as [|i]; cbn [nth].
  - f_equal. f_equal. lia.
  - rewrite IH by lia. f_equal. f_equal. lia.
Qed.

Lemma powers_nth p x d : 0 < p -> 0 <= d < 16 -> nth (Z.to_nat d) (powers p x) 0 = x ^ d mod p.
Proof.
  intros Hp Hd. unfold powers. cbv zeta.
  destruct (Z.to_nat d) as [|[|i]] eqn:E.
  - cbn [nth]. replace d with 0 by lia. rewrite Z.pow_0_r. reflexivity.
  - cbn [nth]. replace d with 1 by lia. rewrite Z.pow_1_r. reflexivity.
  - cbn [nth]. replace (x mod p) with (x ^ 1 mod p) at 2 by (rewrite Z.pow_1_r; reflexivity).
    rewrite powers_from_nth by lia. f_equal. f_equal. lia.
Qed.

Lemma window_range e k : 0 <= window e k < 16.
Proof. unfold window. apply Z.mod_pos_bound. lia. Qed.

Lemma window_step e k : 0 <= e ->
  e / 16 ^ Z.of_nat k = 16 * (e / 16 ^ Z.of_nat (S k)) + window e k.
Proof.
  intros He. unfold window.
  replace (Z.of_nat (S k)) with (Z.of_nat k + 1) by lia.
  rewrite Z.pow_add_r, Z.pow_1_r by lia.
  rewrite <- Z.div_div by (try apply Z.pow_pos_nonneg; lia).
  apply Z.div_mod. lia.
Qed.

(* loop invariant: the accumulator stands for x^(the windows consumed so far) *)
Lemma windows_spec p x e : 0 < p -> 0 <= e ->
  forall k first z cnt,
  z = x ^ (e / 16 ^ Z.of_nat k) mod p ->
  (first = true -> e / 16 ^ Z.of_nat k = 0) ->
  windows k first p e (powers p x) z cnt =
  (x ^ e mod p, cnt + 5 * Z.of_nat k - (if first then (if (k =? 0)%nat then 0 else 4) else 0)).
Proof.
  intros Hp He. induction k as [|k IH]; intros first z cnt Hz Hfirst.
  - cbn [windows]. rewrite Hz. change (Z.of_nat 0) with 0. rewrite Z.pow_0_r, Z.div_1_r.
    f_equal. destruct first; cbn; lia.
  - cbn [windows].
    set (q := e / 16 ^ Z.of_nat (S k)) in *.
    assert (Hq : 0 <= q) by (apply Z.div_pos; [lia|apply Z.pow_pos_nonneg; lia]).
    pose proof (window_range e k) as Hw. pose proof (window_step e k He) as Hs. fold q in Hs.
    rewrite powers_nth by lia.
    assert (Hnext : forall z1, z1 = x ^ (16 * q) mod p ->
                     mm p z1 (x ^ window e k mod p) = x ^ (e / 16 ^ Z.of_nat k) mod p).
    { intros z1 ->. rewrite mm_pow by lia. rewrite Hs. reflexivity. }
    destruct first.
    + (* very first window: no squarings; the accumulator is Montgomery 1 *)
      rewrite (Hfirst eq_refl) in Hz. rewrite Z.pow_0_r in Hz.
      rewrite IH with (first := false); [ | | discriminate].
      * f_equal. replace ((S k =? 0)%nat) with false by reflexivity. lia.
      * apply Hnext. rewrite (Hfirst eq_refl). rewrite Z.mul_0_r, Z.pow_0_r. exact Hz.
    + cbv zeta. rewrite IH with (first := false); [ | | discriminate].
      * f_equal. lia.
      * apply Hnext. rewrite Hz. apply sq4_pow; assumption.
Qed.

Lemma lt_pow2_bits e : 0 <= e -> e < 2 ^ bits e.
Proof.
  intros He. rewrite bits_spec by lia. destruct (Z.eqb_spec e 0) as [->|Hn]; [rewrite Z.pow_0_r; lia|].
  apply lt_pow2_log2. lia.
Qed.

Lemma bits_nonneg e : 0 <= e -> 0 <= bits e.
Proof.
  intros He. rewrite bits_spec by lia. destruct (Z.eqb_spec e 0); [lia|]. pose proof (Z.log2_nonneg e). lia.
Qed.

Lemma nlimbs_nonneg e : 0 <= e -> 0 <= nlimbs e.
Proof. intros He. unfold nlimbs. pose proof (bits_nonneg e He). apply Z.div_pos; lia. Qed.

Lemma above_all_windows e : 0 <= e -> e / 16 ^ Z.of_nat (Z.to_nat (16 * nlimbs e)) = 0.
Proof.
  intros He. pose proof (nlimbs_nonneg e He) as Hl. rewrite Z2Nat.id by lia.
  apply Z.div_small. split; [lia|].
  replace 16 with (2 ^ 4) at 1 by reflexivity. rewrite <- Z.pow_mul_r by lia.
  apply Z.lt_le_trans with (2 ^ bits e); [apply lt_pow2_bits; lia|].
  apply Z.pow_le_mono_r; [lia|]. unfold nlimbs in *. pose proof (bits_nonneg e He). lia.
Qed.

Definition monty_steps (e : Z) : Z := if e =? 0 then 17 else 80 * nlimbs e + 13.

Lemma monty_modpow_spec x e p : 0 < p -> 0 <= e ->
  monty_modpow x e p = (x ^ e mod p, monty_steps e).
Proof.
  intros Hp He. unfold monty_modpow. cbv zeta.
  pose proof (above_all_windows e He) as Habove.
  rewrite windows_spec; [ | lia | lia | | intros _; exact Habove].
  - rewrite Z.mod_mod by lia. f_equal. unfold monty_steps.
    pose proof (nlimbs_nonneg e He) as Hl. rewrite Z2Nat.id by lia.
    destruct (Z.eqb_spec e 0) as [->|Hn].
    + reflexivity.
    + assert (0 < nlimbs e).
      { unfold nlimbs. rewrite bits_spec by lia. destruct (Z.eqb_spec e 0); [lia|].
        pose proof (Z.log2_nonneg e). lia. }
      destruct (Nat.eqb_spec (Z.to_nat (16 * nlimbs e)) 0%nat); lia.
  - rewrite Habove, Z.pow_0_r.
    change 0%nat with (Z.to_nat 0). rewrite powers_nth by lia. rewrite Z.pow_0_r. reflexivity.
Qed.

Lemma odd_prime_odd p : prime p -> 2 < p -> Z.odd p = true.
Proof.
  intros Hprime Hp. destruct (Z.odd p) eqn:E; [reflexivity|exfalso].
  assert (Hev : Z.even p = true) by (rewrite <- Z.negb_odd, E; reflexivity).
  apply Z.even_spec in Hev. destruct Hev as [k Hk].
  destruct Hprime as [_ Hrel]. specialize (Hrel 2 ltac:(lia)).
  apply Zgcd_1_rel_prime in Hrel.
  assert (Z.gcd 2 p = 2). { subst p. apply Z.gcd_mul_diag_l; lia. }
  lia.
Qed.

(* the multiplication sequence of `**` computes Model.Field.pow, never panics
   on field elements, and its length is fixed by the limb count of the exponent *)
Theorem modpow_steps_spec b e p :
  prime p -> 2 < p -> 0 <= b -> 0 <= e ->
  modpow_steps b e p = Ok (pow b e p, monty_steps e).
Proof.
  intros Hprime Hp Hb He. unfold modpow_steps.
  destruct (Z.ltb_spec e 0); [lia|]. destruct (Z.eqb_spec p 0); [lia|].
  rewrite (odd_prime_odd p Hprime Hp). cbn [negb].
  rewrite !Z.abs_eq by lia. rewrite monty_modpow_spec by lia.
  unfold pow. rewrite Zpow_mod_spec by lia.
  destruct (Z.ltb_spec b 0); [lia|]. destruct (Z.ltb_spec p 0); [lia|].
  destruct (Z.eqb_spec (b ^ e mod p) 0) as [->|]; reflexivity.
Qed.

Theorem monty_steps_bound e : 0 <= e -> 17 <= monty_steps e <= 2 * bits e + 93.
Proof.
  intros He. unfold monty_steps, nlimbs. pose proof (bits_nonneg e He) as Hb.
  destruct (Z.eqb_spec e 0) as [->|Hn]; [cbn; lia|].
  assert (1 <= bits e).
  { rewrite bits_spec by lia. destruct (Z.eqb_spec e 0); [lia|]. pose proof (Z.log2_nonneg e). lia. }
  lia.
Qed.
