(* RunnerC03 — lemmas added for C03 after the outside review (design.d/AUDIT.md):

   * the exit status and the summary number are functions of the number of
     displayed diagnostics on EVERY run of the mirror: no hypothesis on the
     project (duplicate keys allowed) or on the analysis order (any list of
     keys, repeated, unknown, incomplete), hence for every count (0, 1, 255,
     256, 257, 512, ...): [exit_status_all_runs];
   * "exactly once" as a statement about multiplicities: [each_finding_counted],
     [each_finding_exactly_once];
   * what the mirror displays when the analysis order is NOT an enumeration of
     the user keys: only the findings of the definitions that are in the order
     ([only_analysed_definitions_displayed]).  A definition the binary skips is
     skipped by the mirror fed with the binary's own order, so the hypothesis
     [analysis_order] has to be established independently of the binary; that
     is what lib/props/C03.py does on every run.

   Only appended material; Proofs.RunnerProofs is used unchanged. *)
From Coq Require Import ZArith List Bool Arith Permutation Lia.
Require Import Model.Base Gen.Category Model.Runner Spec.RunnerSpec Proofs.RunnerProofs.
Import ListNotations.

(* ====================================================================== *)
(* written = |shown| is an invariant of every transition                    *)
(* ====================================================================== *)

Definition counted (s : rstate) : Prop := written s = length (shown s).

Lemma counted_init : counted init.
Proof. reflexivity. Qed.

Lemma same_writer_counted : forall s s', same_writer s s' -> counted s -> counted s'.
Proof. unfold same_writer, counted. intros s s' [A [B _]] H. rewrite A, B. exact H. Qed.

Lemma write_reports_counted : forall o user rs s, counted s -> counted (write_reports o user rs s).
Proof. unfold counted, write_reports. simpl. intros o user rs s H. rewrite app_length, H. reflexivity. Qed.

Lemma write_message_counted : forall m s, counted s -> counted (write_message m s).
Proof. unfold counted, write_message. simpl. auto. Qed.

Lemma take_same_writer : forall ds k s, same_writer s (fst (take ds k s)).
Proof.
  intros ds k s. unfold take. pose proof (cache_same_writer ds k s) as H.
  destruct (cache ds k s) as [s1 ok]. simpl in H. destruct ok; simpl; exact H.
Qed.

Lemma analyze_counted : forall ds o user s k, counted s -> counted (analyze ds o user s k).
Proof.
  intros ds o user s k H. unfold analyze.
  pose proof (take_same_writer ds k (write_message (MAnalyzing k) s)) as T.
  destruct (take ds k (write_message (MAnalyzing k) s)) as [s1 ok]. cbn [fst] in T.
  assert (C1 : counted s1).
  { eapply same_writer_counted. exact T. apply write_message_counted. exact H. }
  unfold take_reports.
  set (s2 := mkState (cfgs s1) (rc_remove k (rcache s1)) (shown s1) (written s1) (cached s1) (log s1)).
  assert (C2 : counted s2) by exact C1.
  destruct ok.
  - destruct (find_def ds k) as [d|].
    + apply write_reports_counted.
      destruct (lookups_same_writer ds (d_lookups d) s2) as [A [B _]].
      unfold replace, counted. cbn [shown written]. rewrite A, B. exact C2.
    + apply write_reports_counted. exact C2.
  - apply write_reports_counted. exact C2.
Qed.

Lemma fold_analyze_counted : forall ds o user order s,
  counted s -> counted (fold_left (analyze ds o user) order s).
Proof.
  intros ds o user order. induction order as [|k rest IH]; simpl; intros s H; auto.
  apply IH. apply analyze_counted. exact H.
Qed.

(* main: the summary number is the number of displayed diagnostics and the
   exit status is 0 exactly when that number is 0 — whatever the project, the
   options and the order *)
Theorem exit_status_all_runs : forall p o order,
  res_summary (run_keys p o order) = length (res_shown (run_keys p o order)) /\
  (res_exit (run_keys p o order) = 0%Z <-> res_shown (run_keys p o order) = []) /\
  (res_exit (run_keys p o order) = 0%Z \/ res_exit (run_keys p o order) = 1%Z) /\
  (forall n, length (res_shown (run_keys p o order)) = S n -> res_exit (run_keys p o order) = 1%Z).
Proof.
  intros p o order. unfold run_keys.
  set (s1 := fold_left (analyze (p_defs p) o (p_user p)) order
                       (write_reports o (p_user p) (p_parse p) init)).
  assert (C : counted s1).
  { apply fold_analyze_counted. apply write_reports_counted. apply counted_init. }
  unfold counted in C.
  assert (G : forall s2 sar, written s2 = length (shown s2) ->
      let r := mkResult (shown (write_message (MSummary (written s2)) s2))
                        (log (write_message (MSummary (written s2)) s2))
                        (match written s2 with O => 0%Z | S _ => 1%Z end) (written s2) sar in
      res_summary r = length (res_shown r) /\
      (res_exit r = 0%Z <-> res_shown r = []) /\
      (res_exit r = 0%Z \/ res_exit r = 1%Z) /\
      (forall n, length (res_shown r) = S n -> res_exit r = 1%Z)).
  { intros s2 sar E. cbn [res_summary res_shown res_exit write_message shown]. rewrite E.
    destruct (shown s2) as [|x l]; cbn [length].
    - split; [reflexivity|]. split; [tauto|]. split; [auto|]. intros n Hn. discriminate.
    - split; [reflexivity|]. split; [split; intros; discriminate|]. split; [auto|]. intros; reflexivity. }
  destruct (o_sarif o).
  - destruct (0 <? length (filter (passes_filters o (p_user p)) (cached s1)))%nat.
    + apply (G (write_message MSarifWritten s1)). exact C.
    + apply (G s1). exact C.
  - apply (G s1). exact C.
Qed.

(* ====================================================================== *)
(* "exactly once" as multiplicities                                          *)
(* ====================================================================== *)

Definition level_eq_dec : forall a b : level, {a = b} + {a <> b}.
Proof. decide equality. Defined.

Definition report_eq_dec : forall a b : report, {a = b} + {a <> b}.
Proof.
  decide equality; try apply Z.eq_dec; try apply level_eq_dec.
  apply list_eq_dec. apply Z.eq_dec.
Defined.

Lemma count_occ_filter : forall (f : report -> bool) l x,
  count_occ report_eq_dec (filter f l) x = if f x then count_occ report_eq_dec l x else 0.
Proof.
  intros f l x. induction l as [|a l IH]; simpl.
  - destruct (f x); reflexivity.
  - destruct (f a) eqn:Ea; simpl; destruct (report_eq_dec a x) as [E|E].
    + subst a. rewrite IH, Ea. reflexivity.
    + exact IH.
    + subst a. rewrite IH, Ea. reflexivity.
    + exact IH.
Qed.

(* every finding is displayed as often as it was produced if it is to be
   kept, and never otherwise *)
Theorem each_finding_counted : forall p o order x, wf_project p -> analysis_order p order ->
  count_occ report_eq_dec (res_shown (run_keys p o order)) x =
  if keep_b o (p_user p) x then count_occ report_eq_dec (produced p) x else 0.
Proof.
  intros p o order x Hwf Hord.
  pose proof (conservation p o order Hwf Hord) as H.
  rewrite (proj1 (Permutation_count_occ report_eq_dec _ _) H x).
  apply count_occ_filter.
Qed.

(* distinct findings (the reports of the real stages are distinct values:
   position, message) are displayed exactly once *)
Theorem each_finding_exactly_once : forall p o order, wf_project p -> analysis_order p order ->
  NoDup (produced p) ->
  NoDup (res_shown (run_keys p o order)) /\
  forall x, In x (produced p) -> keep o (p_user p) x ->
            count_occ report_eq_dec (res_shown (run_keys p o order)) x = 1.
Proof.
  intros p o order Hwf Hord Hnd. split.
  - eapply Permutation_NoDup. apply Permutation_sym. apply conservation; assumption.
    apply NoDup_filter. exact Hnd.
  - intros x Hin Hk. rewrite each_finding_counted by assumption.
    apply keep_b_keep in Hk. rewrite Hk.
    apply NoDup_count_occ' with (decA := report_eq_dec) in Hin; [exact Hin | exact Hnd].
Qed.

(* ====================================================================== *)
(* orders that are not an enumeration of the user keys                       *)
(* ====================================================================== *)

(* whatever duplicate-free list of known keys is analysed, only the parser's
   reports and the findings of the definitions in that list are displayed:
   the mirror skips what its [order] argument skips *)
Theorem only_analysed_definitions_displayed : forall p o order x,
  NoDup order -> (forall k, In k order -> exists d, find_def (p_defs p) k = Some d) ->
  In x (res_shown (run_keys p o order)) ->
  In x (p_parse p) \/
  exists d, In d (p_defs p) /\ In (d_key d) order /\ In x (produced_def d).
Proof.
  intros p o order x Hnd Hdef Hin.
  destruct (run_keys_spec p o order (conj Hnd Hdef)) as [A _]. rewrite A in Hin.
  apply filter_In in Hin. destruct Hin as [Hin _]. unfold all_reports in Hin.
  apply in_app_or in Hin. destruct Hin as [Hin|Hin]; [left; exact Hin|right].
  apply in_flat_map in Hin. destruct Hin as [k [Hk Hx]].
  unfold produced_of_key in Hx. destruct (find_def (p_defs p) k) as [d|] eqn:E.
  - apply find_def_In in E. destruct E as [Hd Hkey]. exists d. subst k. auto.
  - destruct Hx.
Qed.

(* so a kept finding of a user definition that the order leaves out, and that
   no other stage produced, is not displayed: with an order that is not a
   permutation of the user keys conservation fails in the mirror itself *)
Theorem skipped_definition_not_displayed : forall p o order d x,
  NoDup order -> (forall k, In k order -> exists d, find_def (p_defs p) k = Some d) ->
  In d (p_defs p) -> ~ In (d_key d) order ->
  In x (produced_def d) -> ~ In x (p_parse p) ->
  (forall d', In d' (p_defs p) -> d' <> d -> ~ In x (produced_def d')) ->
  ~ In x (res_shown (run_keys p o order)).
Proof.
  intros p o order d x Hnd Hdef Hd Hskip Hx Hpar Hother Hin.
  destruct (only_analysed_definitions_displayed p o order x Hnd Hdef Hin) as [H|[d' [Hd' [Hk Hx']]]].
  - contradiction.
  - destruct (key_eq_dec (d_key d') (d_key d)) as [E|E].
    + rewrite E in Hk. contradiction.
    + apply (Hother d' Hd'); [|exact Hx']. intro; subst d'. apply E. reflexivity.
Qed.
