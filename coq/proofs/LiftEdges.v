(* C01 (on top of C12's development): in a lifted graph the number of edges is at
   least the number of blocks minus one, so `2 + edges - nodes` of
   definition_complexity.rs (usize arithmetic, overflow checks on in debug builds)
   cannot underflow.  Every block other than the entry is reachable (C12), hence
   is the target of an edge; distinct targets need distinct entries in the
   successor lists. *)
From stdpp Require Import list.
Require Import Model.Lift Spec.CfgSpec Proofs.LiftTheorems.
Import Base(outcome, Ok).

Lemma path_last_edge g i l j : path g i l j -> i <> j -> exists k, edge g k j.
Proof.
  induction 1 as [i Hi|i k l j He Hp IH]; intros Hne; [done|].
  destruct (decide (k = j)) as [->|Hkj]; [by exists i|]. by apply IH.
Qed.

Definition edge_count (g : graph) : nat := length (concat (map b_succs g)).

Lemma edge_count_sum g : edge_count g = list_sum (map (fun b => length (b_succs b)) g).
Proof.
  unfold edge_count. induction g as [|b g IH]; simpl; [done|]. by rewrite app_length, IH.
Qed.

Theorem lifted_edges_ge_nodes body g : lift body = Ok g -> length g <= S (edge_count g).
Proof.
  intros Hl. unfold edge_count.
  assert (Hincl : incl (seq 1 (length g - 1)) (concat (map b_succs g))).
  { intros j Hj. apply in_seq in Hj.
    destruct (all_reachable body g Hl j ltac:(lia)) as (l & Hp).
    destruct (path_last_edge g 0 l j Hp ltac:(lia)) as (k & b & Hb & Hjb).
    apply in_concat. exists (b_succs b). split; [|by apply elem_of_list_In].
    apply in_map_iff. exists b. split; [done|]. apply elem_of_list_In. by eapply elem_of_list_lookup_2. }
  pose proof (NoDup_incl_length (seq_NoDup (length g - 1) 1) Hincl) as Hle.
  rewrite seq_length in Hle. lia.
Qed.

(* the expression of definition_complexity.rs, evaluated left to right on usize *)
Corollary complexity_does_not_underflow body g : lift body = Ok g ->
  length g <= 2 + list_sum (map (fun b => length (b_succs b)) g).
Proof. intros Hl. pose proof (lifted_edges_ge_nodes body g Hl). rewrite <- edge_count_sum. lia. Qed.
