(* Proofs for C10, second half: from the stack resolver of the simulation
   proof (Proofs.ScopeStack: only blocks are scopes, as in unique_vars.rs) to
   the specification Spec.ScopeSpec.resolve (a static environment that is
   thrown away at the end of every block, loop body and branch).

   The two agree exactly on [branch_closed] statement trees -- no loop body and
   no branch declares a name outside a block of its own, which is what the
   grammar of Circom guarantees -- and differ outside
   (unbraced_declaration_leaks).  The theorems of props/C10.v that mention the
   resolver are stated here, against the specification. *)
From Coq Require Import List NArith Arith Bool Lia.
Require Import Model.Base Model.Ir Model.UniqueVars Spec.ScopeSpec Proofs.ScopeStack Proofs.UniqueVarsProofs.
Import ListNotations.

(* the environment of the specification is the flattened stack *)
Definition rel (st : sstate) (sc : scope) : Prop :=
  visible sc = concat (sstack st) /\ seen sc = scount st.

Lemma lookup_visible : forall st sc n, rel st sc -> lookup n (sstack st) = find_name n (visible sc).
Proof. intros st sc n [Hv _]. rewrite Hv, lookup_concat. symmetry. apply find_name_assoc. Qed.

Lemma use_occ_rel : forall st sc k n, rel st sc -> stk_use_occ k st n = use_occ k sc n.
Proof. intros. unfold stk_use_occ, use_occ. rewrite (lookup_visible st sc n H). reflexivity. Qed.

Lemma uses_rel : forall st sc k l, rel st sc -> map (stk_use_occ k st) l = map (use_occ k sc) l.
Proof. intros. apply map_ext. intros n. apply use_occ_rel. exact H. Qed.

Lemma no_open_decl_nil : forall s, no_open_decl s = true -> open_decls s = [].
Proof. intros s H. unfold no_open_decl in H. destruct (open_decls s); [reflexivity|discriminate]. Qed.

Definition bridge (s : ustmt) : Prop :=
  branch_closed s = true ->
  forall st sc, sstack st <> [] -> rel st sc ->
  forall o sh st', stk_resolve s st = (o, sh, st') ->
  exists sc', resolve s sc = (o, sh, sc') /\ rel st' sc' /\
    sstack st' <> [] /\ tl (sstack st') = tl (sstack st) /\
    (open_decls s = [] -> sstack st' = sstack st).

Definition bridge_list (ss : list ustmt) : Prop :=
  forallb branch_closed ss = true ->
  forall st sc, sstack st <> [] -> rel st sc ->
  forall o sh st', resolve_list stk_resolve ss st = (o, sh, st') ->
  exists sc', resolve_list resolve ss sc = (o, sh, sc') /\ rel st' sc' /\
    sstack st' <> [] /\ tl (sstack st') = tl (sstack st) /\
    (flat_map open_decls ss = [] -> sstack st' = sstack st).

Lemma bridge_list_of : forall ss, Forall bridge ss -> bridge_list ss.
Proof.
  induction 1 as [|s ss Hs _ IH]; intros C st sc NE R o sh st' E; simpl in E.
  - inversion E; subst. exists sc. simpl. auto.
  - cbn [forallb] in C. apply andb_prop in C. destruct C as [C1 C2].
    destruct (stk_resolve s st) as [[o1 sh1] st1] eqn:E1.
    destruct (resolve_list stk_resolve ss st1) as [[o2 sh2] st2] eqn:E2.
    inversion E; subst. clear E.
    destruct (Hs C1 st sc NE R _ _ _ E1) as (sc1 & S1 & R1 & NE1 & T1 & O1).
    destruct (IH C2 st1 sc1 NE1 R1 _ _ _ E2) as (sc2 & S2 & R2 & NE2 & T2 & O2).
    exists sc2. cbn [resolve_list]. rewrite S1, S2.
    split; [reflexivity|]. split; [exact R2|]. split; [exact NE2|]. split; [congruence|].
    cbn [flat_map]. intros Z. apply app_eq_nil in Z. destruct Z as [Z1 Z2].
    rewrite (O2 Z2). apply O1. exact Z1.
Qed.

Lemma stk_bridge : forall s, bridge s.
Proof.
  induction s using ustmt_ind_nested; intros C st sc NE R o sh st' E.
  - (* UBlock *)
    apply bridge_list_of in H. cbn [branch_closed] in C. cbn [stk_resolve] in E.
    destruct (resolve_list stk_resolve ss (push st)) as [[o1 sh1] st1] eqn:E1.
    inversion E; subst. clear E.
    assert (Rp : rel (push st) sc) by (destruct R as [V S]; split; simpl; assumption).
    assert (NEp : sstack (push st) <> []) by (simpl; discriminate).
    destruct (H C (push st) sc NEp Rp _ _ _ E1) as (sc1 & S1 & [V1 C1] & NE1 & T1 & _).
    cbn [push sstack tl] in T1.
    exists (leave sc sc1). cbn [resolve]. rewrite S1. unfold scoped.
    split; [reflexivity|]. unfold pop. cbn [sstack scount]. rewrite T1.
    split; [split; simpl; [apply R|exact C1]|]. auto.
  - (* UInit *)
    apply bridge_list_of in H. cbn [branch_closed] in C. cbn [stk_resolve] in E.
    destruct (H C st sc NE R _ _ _ E) as (sc1 & S1 & R1 & NE1 & T1 & O1).
    exists sc1. cbn [resolve open_decls]. auto.
  - (* UDecl *)
    cbn [stk_resolve] in E. inversion E; subst. clear E.
    exists (bind n l sc). cbn [resolve].
    rewrite (uses_rel st sc OUse dims R), (lookup_visible st sc n R).
    destruct R as [V S]. rewrite S.
    split; [reflexivity|].
    destruct (sstack st) as [|b r] eqn:Estk; [contradiction|].
    unfold declare, rel, bind. cbn [sstack scount visible seen]. rewrite Estk, V, S.
    split; [split; reflexivity|]. split; [discriminate|]. split; [reflexivity|].
    cbn [open_decls]. discriminate.
  - (* USubst *)
    cbn [stk_resolve] in E. inversion E; subst. clear E.
    exists sc. cbn [resolve]. rewrite (uses_rel st' sc OUse uses R), (use_occ_rel st' sc OTarget n R). auto.
  - (* UExpr *)
    cbn [stk_resolve] in E. inversion E; subst. clear E.
    exists sc. cbn [resolve]. rewrite (uses_rel st' sc OUse uses R). auto.
  - (* UWhile *)
    cbn [branch_closed] in C. apply andb_prop in C. destruct C as [N C].
    apply no_open_decl_nil in N.
    cbn [stk_resolve] in E. destruct (stk_resolve s st) as [[o1 sh1] st1] eqn:E1. inversion E; subst. clear E.
    destruct (IHs C st sc NE R _ _ _ E1) as (sc1 & S1 & [V1 C1] & NE1 & T1 & O1).
    specialize (O1 N).
    exists (leave sc sc1). cbn [resolve]. rewrite S1. unfold scoped.
    rewrite (uses_rel st sc OUse c R).
    split; [reflexivity|].
    split; [split; simpl; [rewrite O1; apply R|exact C1]|].
    split; [exact NE1|]. split; [exact T1|]. intros _. exact O1.
  - (* UIf, no else *)
    cbn [branch_closed] in C. rewrite andb_true_r in C. apply andb_prop in C. destruct C as [N C].
    apply no_open_decl_nil in N.
    cbn [stk_resolve] in E. destruct (stk_resolve s st) as [[o1 sh1] st1] eqn:E1. inversion E; subst. clear E.
    destruct (IHs C st sc NE R _ _ _ E1) as (sc1 & S1 & [V1 C1] & NE1 & T1 & O1).
    specialize (O1 N).
    exists (leave sc sc1). cbn [resolve]. rewrite S1. unfold scoped.
    rewrite (uses_rel st sc OUse c R).
    split; [reflexivity|].
    split; [split; simpl; [rewrite O1; apply R|exact C1]|].
    split; [exact NE1|]. split; [exact T1|]. intros _. exact O1.
  - (* UIf with else *)
    cbn [branch_closed] in C. apply andb_prop in C. destruct C as [Ct Ce].
    apply andb_prop in Ct. destruct Ct as [Nt Ct]. apply andb_prop in Ce. destruct Ce as [Ne Ce].
    apply no_open_decl_nil in Nt. apply no_open_decl_nil in Ne.
    cbn [stk_resolve] in E. destruct (stk_resolve s1 st) as [[o1 sh1] st1] eqn:E1.
    destruct (stk_resolve s2 st1) as [[o2 sh2] st2] eqn:E2. inversion E; subst. clear E.
    destruct (IHs1 Ct st sc NE R _ _ _ E1) as (sc1 & S1 & [V1 C1] & NE1 & T1 & O1).
    specialize (O1 Nt).
    assert (R1 : rel st1 (leave sc sc1)).
    { split; simpl; [rewrite O1; apply R|exact C1]. }
    destruct (IHs2 Ce st1 (leave sc sc1) NE1 R1 _ _ _ E2) as (sc2 & S2 & [V2 C2] & NE2 & T2 & O2).
    specialize (O2 Ne).
    exists (leave (leave sc sc1) sc2). cbn [resolve]. rewrite S1. unfold scoped. rewrite S2.
    rewrite (uses_rel st sc OUse c R).
    split; [reflexivity|].
    split; [split; simpl; [rewrite O2, O1; apply R|exact C2]|].
    split; [exact NE2|]. split; [congruence|]. intros _. congruence.
Qed.

(* the parameters *)
Lemma initial_rel : forall params ploc st sc, sstack st <> [] -> rel st sc ->
  sstack (fold_left (fun st p => declare p ploc st) params st) <> [] /\
  rel (fold_left (fun st p => declare p ploc st) params st)
      (fold_left (fun sc p => bind p ploc sc) params sc).
Proof.
  induction params as [|p r IH]; intros ploc st sc NE R; [auto|].
  cbn [fold_left]. destruct (sstack st) as [|b t] eqn:Estk; [contradiction|].
  apply IH.
  - rewrite (sstack_declare p ploc st b t Estk). discriminate.
  - destruct R as [V S]. split.
    + rewrite (sstack_declare p ploc st b t Estk). cbn [bind visible]. rewrite V, S, Estk. reflexivity.
    + cbn [bind seen]. rewrite S. reflexivity.
Qed.

(* on the shape of parsed programs the resolver of the proof IS the specification *)
Theorem stack_resolver_is_spec : forall params ploc body,
  branch_closed body = true ->
  stk_resolve_def params ploc body = resolve_def params ploc body.
Proof.
  intros params ploc body C. unfold stk_resolve_def, resolve_def, stk_initial, initial.
  assert (R0 : rel {| sstack := [[]]; scount := [] |} {| visible := []; seen := [] |}) by (split; reflexivity).
  assert (NE0 : sstack {| sstack := [[]]; scount := [] |} <> []) by (simpl; discriminate).
  destruct (initial_rel params ploc _ _ NE0 R0) as [NE R].
  destruct (stk_resolve body (fold_left (fun st p => declare p ploc st) params {| sstack := [[]]; scount := [] |}))
    as [[o sh] st'] eqn:E.
  destruct (stk_bridge body C _ _ NE R _ _ _ E) as (sc' & S & _).
  rewrite S. reflexivity.
Qed.

(* ------------------------------------------------------------------ *)
(* the theorems of the property, against the specification             *)
(* ------------------------------------------------------------------ *)

Theorem renaming_preserves_binding_spec : forall params ploc body body' reports,
  ensure_unique_variables params ploc body = Renamed body' reports ->
  branch_closed body = true ->
  occs body' = map ren_of (fst (resolve_def params ploc body)).
Proof.
  intros params ploc body body' reports H C.
  rewrite <- (stack_resolver_is_spec params ploc body C).
  exact (renaming_preserves_binding params ploc body body' reports H).
Qed.

Theorem shadowing_reports_exact_spec : forall params ploc body body' reports,
  ensure_unique_variables params ploc body = Renamed body' reports ->
  branch_closed body = true ->
  reports = map report_of (snd (resolve_def params ploc body)).
Proof.
  intros params ploc body body' reports H C.
  rewrite <- (stack_resolver_is_spec params ploc body C).
  exact (shadowing_reports_exact params ploc body body' reports H).
Qed.

(* The hypothesis is needed.  `{ var x; if (..) var x; else log(x); log(x); }`
   cannot be written in Circom; on that tree the pass lets the declaration of
   the then-branch reach the else-branch and the statement after the `if`,
   the specification does not. *)
Definition leak_x : name := [120%N].
Definition leak_body : ustmt :=
  UBlock [UInit [UDecl KVar leak_x (10, 15) []];
          UIf [] (UInit [UDecl KVar leak_x (30, 35) []]) (Some (UExpr ELog [leak_x]));
          UExpr ELog [leak_x]].

Theorem unbraced_declaration_leaks : exists body body' reports,
  branch_closed body = false /\
  ensure_unique_variables [] (0, 0) body = Renamed body' reports /\
  occs body' <> map ren_of (fst (resolve_def [] (0, 0) body)) /\
  occs body' = map ren_of (fst (stk_resolve_def [] (0, 0) body)).
Proof.
  exists leak_body. eexists. eexists.
  split; [reflexivity|]. split; [vm_compute; reflexivity|].
  split; [vm_compute; discriminate|vm_compute; reflexivity].
Qed.
