(* C01, bridge between C12 (lifting), C15 (dominator tree) and the three order
   facts that Proofs.SsaNoPanic / Proofs.SsaFuel ask of the children lists:

   * the predecessor / successor lists of a lifted graph form a [rooted] graph in
     the sense of Spec.DomSpec (C12_entry_no_pred, C12_preds_succs_mirror,
     C12_all_reachable), so DominatorTree::new returns a tree (C15_no_panic);
   * a member k of the children set of j in that tree is a block of the graph
     whose immediate dominator is j (the invariant of idom_loop, which also bounds
     the members), j strictly dominates k, hence j < k (C12_dom_implies_le);
   * a children set enumerates without duplicates, and a block has one immediate
     dominator (C15_idom_unique).
   The two path definitions (Spec.CfgSpec: nodes after the start; Spec.DomSpec: all
   nodes) are related by [path_to_dom]. *)
From Coq Require Import ZArith Lia.
From stdpp Require Import list list_numbers sets.
Require Model.Base Model.Lift Model.Dom Spec.CfgSpec Spec.DomSpec.
Require Proofs.LiftTheorems Proofs.DomProofs.
Require Model.PipelineMirrors Proofs.SsaNoPanic.

Definition to_dom (g : list Lift.block) : list Dom.node :=
  (λ b, Dom.Node (Lift.b_preds b) (Lift.b_succs b)) <$> g.

Lemma to_dom_length g : length (to_dom g) = length g.
Proof. apply fmap_length. Qed.

Lemma to_dom_lookup g i x :
  to_dom g !! i = Some x ↔ ∃ b, g !! i = Some b ∧ x = Dom.Node (Lift.b_preds b) (Lift.b_succs b).
Proof.
  unfold to_dom. rewrite list_lookup_fmap. destruct (g !! i) as [b|]; simpl; split.
  - intros [= <-]. eauto.
  - intros (b' & [= <-] & ->). done.
  - done.
  - intros (b' & ? & _). done.
Qed.

Lemma edge_to_dom g i k : CfgSpec.edge g i k → DomSpec.edge (to_dom g) i k.
Proof.
  intros (b & Hb & Hk). exists (Dom.Node (Lift.b_preds b) (Lift.b_succs b)). split; [|done].
  apply to_dom_lookup. eauto.
Qed.

Lemma path_to_dom g i l j : CfgSpec.path g i l j → DomSpec.path (to_dom g) i j (i :: l).
Proof.
  induction 1 as [i Hi|i k l j He _ IH].
  - apply DomSpec.path_one. by rewrite to_dom_length.
  - eapply DomSpec.path_cons; [by apply edge_to_dom|done].
Qed.

Lemma dom_to_dominates g i j : DomSpec.dom (to_dom g) i j → CfgSpec.dominates g i j.
Proof. intros H l Hp. apply H. by apply path_to_dom. Qed.

Section Lifted.
  Context (body : Lift.sk) (g : list Lift.block) (Hl : Lift.lift body = Base.Ok g).

  Lemma lifted_nonempty : 0 < length g.
  Proof.
    destruct (LiftTheorems.entry_no_pred body g Hl) as (_ & b0 & H0 & _).
    apply lookup_lt_Some in H0. lia.
  Qed.

  Lemma lifted_rooted : DomSpec.rooted (to_dom g).
  Proof.
    pose proof (LiftTheorems.preds_succs_mirror body g Hl) as Hm.
    split.
    - rewrite to_dom_length. apply lifted_nonempty.
    - intros a x b (ba & Ha & ->)%to_dom_lookup Hb. simpl in Hb. rewrite to_dom_length.
      destruct (proj1 (Hm a b)) as (bj & Hbj & _); [eauto|]. by eapply lookup_lt_Some.
    - intros a x b (ba & Ha & ->)%to_dom_lookup Hb. simpl in Hb. rewrite to_dom_length.
      destruct (proj2 (Hm b a)) as (bi & Hbi & _); [eauto|]. by eapply lookup_lt_Some.
    - intros a b xa xb (ba & Ha & ->)%to_dom_lookup (bb & Hb & ->)%to_dom_lookup. simpl. split.
      + intros H. destruct (proj1 (Hm a b)) as (bj & Hbj & Hin); [eauto|]. congruence.
      + intros H. destruct (proj2 (Hm a b)) as (bi & Hbi & Hin); [eauto|]. congruence.
    - intros x (b0 & H0 & ->)%to_dom_lookup. simpl.
      destruct (LiftTheorems.entry_no_pred body g Hl) as (_ & b0' & H0' & Hp). congruence.
    - intros j Hj. rewrite to_dom_length in Hj.
      destruct (LiftTheorems.all_reachable body g Hl j Hj) as (l & Hp).
      exists (0 :: l). by apply path_to_dom.
  Qed.

  Context (ord : nat → list nat → list nat) (Hord : DomSpec.order_ok ord).

  Lemma lifted_tree : ∃ t, Dom.dominator_tree (Dom.dom_fuel (to_dom g)) ord (to_dom g) = Base.Ok t.
  Proof.
    destruct (DomProofs.dominator_tree_correct (to_dom g) ord lifted_rooted Hord) as (t & Ht & _). eauto.
  Qed.

  Context (t : Dom.dom_tree)
          (Ht : Dom.dominator_tree (Dom.dom_fuel (to_dom g)) ord (to_dom g) = Base.Ok t).

  Lemma children_length : length (Dom.dt_children t) = length g.
  Proof.
    rewrite <- to_dom_length.
    apply (DomProofs.ok_ch_len _ _ (DomProofs.tree_is_ok (to_dom g) ord t lifted_rooted Hord Ht)).
  Qed.

  Lemma frontier_length : length (Dom.dt_frontier t) = length g.
  Proof.
    rewrite <- to_dom_length.
    apply (DomProofs.ok_df_len _ _ (DomProofs.tree_is_ok (to_dom g) ord t lifted_rooted Hord Ht)).
  Qed.

  (* the members of a children set are blocks of the graph with that immediate dominator *)
  Lemma child_spec j k : j < length g → Dom.mem k (Dom.dt_children t !!! j) = true →
    k < length g ∧ DomSpec.idom_spec (to_dom g) j k.
  Proof.
    intros Hj Hk. pose proof lifted_rooted as Hg.
    set (g' := to_dom g) in *. set (n := length g').
    assert (Hn : n = length g) by apply to_dom_length.
    unfold Dom.dominator_tree in Ht.
    destruct (DomProofs.compute_dominators_correct g' Hg) as (D & HD1 & HDlen & HD).
    rewrite HD1 in Ht. cbn [Base.bind] in Ht.
    unfold Dom.compute_immediate_dominators in Ht.
    destruct (DomProofs.idom_loop_spec g' Hg D HDlen HD ord Hord (seq 0 n) (replicate n None) (replicate n 0%N))
      as (idom & ch & E & _ & _ & _ & _ & Hch).
    { apply replicate_length. } { apply replicate_length. }
    { intros i ?%elem_of_seq. lia. } { apply NoDup_seq. }
    { intros i ?%elem_of_seq. apply lookup_total_replicate_2. lia. }
    fold n in Ht. rewrite E in Ht. cbn [Base.bind fst snd] in Ht.
    destruct (Dom.compute_dominance_frontier _ _ _) as [DF| | |]; cbn [Base.bind] in Ht; try discriminate.
    destruct (Dom.get _ _ _) as [i0| | |]; cbn [Base.bind] in Ht; try discriminate.
    destruct i0; [discriminate|]. injection Ht as <-. cbn [Dom.dt_children] in Hk.
    apply Hch in Hk; [|lia].
    rewrite lookup_total_replicate_2, DomProofs.mem_0 in Hk by lia.
    destruct Hk as [?|[Hin Hs]]; [done|]. apply elem_of_seq in Hin. split; [lia|done].
  Qed.

  Lemma child_gt j k : j < length g → Dom.mem k (Dom.dt_children t !!! j) = true → j < k.
  Proof.
    intros Hj Hk. destruct (child_spec j k Hj Hk) as [Hlt [[Hd Hne] _]].
    pose proof (LiftTheorems.dom_implies_le body g Hl j k Hlt (dom_to_dominates g j k Hd)). lia.
  Qed.

  Lemma child_one_parent j j' k : j < length g → j' < length g →
    Dom.mem k (Dom.dt_children t !!! j) = true → Dom.mem k (Dom.dt_children t !!! j') = true → j = j'.
  Proof.
    intros Hj Hj' Hk Hk'. destruct (child_spec j k Hj Hk) as [Hlt Hs]. destruct (child_spec j' k Hj' Hk') as [_ Hs'].
    apply (DomProofs.idom_spec_unique (to_dom g) j j' k lifted_rooted); [by rewrite to_dom_length|done|done].
  Qed.

  (* ---- the children lists handed to Model.Ssa.into_ssa ---- *)
  Context (horder : list nat → list nat) (Hh : ∀ l, horder l ≡ₚ l).

  Lemma kids_members j k :
    In k (SsaNoPanic.kids (PipelineMirrors.sets_of horder (Dom.dt_children t)) j) ↔
    j < length g ∧ Dom.mem k (Dom.dt_children t !!! j) = true.
  Proof.
    unfold SsaNoPanic.kids, PipelineMirrors.sets_of. rewrite <- children_length.
    generalize (Dom.dt_children t). intros masks. revert j.
    induction masks as [|m masks IH]; intros j; simpl.
    - destruct j; simpl; split; try done; lia.
    - destruct j as [|j]; simpl.
      + rewrite map_map. rewrite <- elem_of_list_In, elem_of_list_fmap. split.
        * intros (y & Hy & Hin). rewrite Nat2N.id in Hy. subst y. rewrite Hh in Hin.
          apply DomProofs.elem_of_members in Hin. split; [lia|done].
        * intros [_ Hm]. exists k. rewrite Nat2N.id. split; [done|]. rewrite Hh. by apply DomProofs.elem_of_members.
      + rewrite IH. split; intros [? ?]; (split; [lia|done]).
  Qed.

  Lemma kids_nodup j : List.NoDup (SsaNoPanic.kids (PipelineMirrors.sets_of horder (Dom.dt_children t)) j).
  Proof.
    unfold SsaNoPanic.kids, PipelineMirrors.sets_of.
    generalize (Dom.dt_children t). intros masks. revert j.
    induction masks as [|m masks IH]; intros j; simpl.
    - destruct j; constructor.
    - destruct j as [|j]; simpl; [|apply IH].
      rewrite map_map. erewrite map_ext; [|intros; apply Nat2N.id]. rewrite map_id.
      apply NoDup_ListNoDup. rewrite Hh. apply DomProofs.NoDup_members.
  Qed.

  (* the three order facts of Proofs.SsaNoPanic / Proofs.SsaFuel *)
  Theorem lifted_children_facts :
    let children := PipelineMirrors.sets_of horder (Dom.dt_children t) in
    (∀ j k, In k (SsaNoPanic.kids children j) → j < k ∧ k < length g) ∧
    (∀ j, List.NoDup (SsaNoPanic.kids children j)) ∧
    (∀ j j' k, In k (SsaNoPanic.kids children j) → In k (SsaNoPanic.kids children j') → j = j').
  Proof.
    cbn zeta. split_and!.
    - intros j k [Hj Hk]%kids_members. split; [by apply child_gt|by apply (child_spec j k)].
    - apply kids_nodup.
    - intros j j' k [Hj Hk]%kids_members [Hj' Hk']%kids_members. by apply (child_one_parent j j' k).
  Qed.
End Lifted.
