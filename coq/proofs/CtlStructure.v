(* C07, control dependence in the graphs lifting produces (Spec.CtlSpec).

   THEOREM [lifted_control_dependence]: in the graph g returned by
   Model.Lift.lift, every block b that can split a join j - two walks from b
   to j that have only their ends in common - dominates a predecessor of j (or
   is one) and is dominated by the immediate dominator of j: it lies on the
   dominator-tree path that Spec.DegSem.above walks.

   A. any graph: a dominator of j other than j dominates every block that splits
      j ([split_dom_above]); a block b that heads a REGION - blocks b+1..hi are
      entered through b only and left towards one block t only, b itself leaves
      towards t (an `if`) or t = b (a loop header with its body) - and splits j
      dominates a predecessor of j ([region_split]).
   D. any graph: two walks from a common block that enter j along different
      edges have a common block that splits j ([split_exists]): can_split is
      the relation "the decision taken at b changed the incoming edge of j".
   B. lifting: by induction over the statement (on top of the invariant of
      Proofs.LiftInv / LiftProofs), the blocks made for a statement are entered
      through the block the statement started in only, nothing leaves them
      before the statement's pending set is linked, a pending set is linked to
      one block at once; hence every block with two successors heads a region
      ([visit_reg_all], [lifted_region]).
   C. the lifted graph: immediate dominators exist (C15 on the lifted graph,
      Proofs.MirrorsDom), the theorem.
   E. examples: the variant of can_split whose walks may meet is refuted on a
      lifted graph; the nested `if` of the property text. *)
From stdpp Require Import list sets.
Require Import Model.Lift Spec.CfgSpec Spec.CtlSpec.
Require Import Proofs.LiftBasics Proofs.LiftInv Proofs.LiftSteps Proofs.LiftProofs Proofs.LiftTheorems.
Require Model.Dom Spec.DomSpec Proofs.DomProofs Proofs.DomOracle Proofs.MirrorsDom.
Import Base(outcome, Ok, Err, Panic, OutOfFuel, bind).

(* ================================================================== *)
(* A. graphs in general                                                *)
(* ================================================================== *)
Section paths.
  Context (g : graph).

  Lemma path_app a l b l' c : path g a l b -> path g b l' c -> path g a (l ++ l') c.
  Proof. induction 1; simpl; [done|]. intros. eapply path_cons; eauto. Qed.

  Lemma path_start_lt a l b : path g a l b -> a < length g.
  Proof. destruct 1 as [|i k l j (bi & Hb & _) _]; [done|]. by eapply lookup_lt_Some. Qed.

  Lemma path_end_in a l b : path g a l b -> b ∈ a :: l.
  Proof. induction 1; set_solver. Qed.

  Lemma dominates_refl b : dominates g b b.
  Proof. intros l H. by eapply path_end_in. Qed.

  Lemma path_app_inv a l1 l2 c : path g a (l1 ++ l2) c -> exists b, path g a l1 b /\ path g b l2 c.
  Proof.
    revert a. induction l1 as [|k l1 IH]; intros a H; simpl in H.
    - exists a. split; [|done]. apply path_nil. by eapply path_start_lt.
    - inversion H as [|? ? ? ? He Hp]; subst. destruct (IH _ Hp) as (b & H1 & H2).
      exists b. split; [|done]. by eapply path_cons.
  Qed.

  Lemma last_cons_last_of (a : nat) l : last (a :: l) = Some (last_of a l).
  Proof.
    unfold last_of. revert a. induction l as [|x l IH]; intros a; [done|].
    rewrite last_cons_cons, IH. done.
  Qed.

  Lemma path_last_of a l b : path g a l b -> b = last_of a l.
  Proof.
    intros H. assert (last (a :: l) = Some b) as E.
    { induction H as [|i k l j He Hp IH]; [done|]. by rewrite last_cons_cons. }
    rewrite last_cons_last_of in E. by injection E.
  Qed.

  Lemma last_of_in a l : l = [] /\ last_of a l = a \/ last_of a l ∈ l.
  Proof.
    unfold last_of. destruct (last l) as [x|] eqn:E; simpl.
    - right. apply last_Some in E as (l' & ->). set_solver.
    - left. by apply last_None in E.
  Qed.

  Lemma route_last_edge b m j : path g b (m ++ [j]) j -> edge g (last_of b m) j.
  Proof.
    intros H. apply path_app_inv in H as (x & H1 & H2).
    rewrite <- (path_last_of _ _ _ H1). by inversion H2.
  Qed.

  (* the immediate dominator of j - any dominator of j other than j - dominates
     every block from which two walks without a common interior block lead to j *)
  Lemma split_dom_above b j m1 m2 d :
    route g b m1 j -> route g b m2 j -> (forall x, x ∈ m1 -> x ∉ m2) ->
    dominates g d j -> d <> j -> dominates g d b.
  Proof.
    intros (P1 & _ & _) (P2 & _ & _) Hdis Hd Hne l Hl.
    destruct (decide (d ∈ 0 :: l)) as [|Hnot]; [done|exfalso].
    destruct (decide (d ∈ m1)) as [H1|H1].
    - specialize (Hd _ (path_app _ _ _ _ _ Hl P2)). rewrite app_comm_cons, !elem_of_app in Hd.
      destruct Hd as [?|[?|?%elem_of_list_singleton]]; [done|by eapply Hdis|done].
    - specialize (Hd _ (path_app _ _ _ _ _ Hl P1)). rewrite app_comm_cons, !elem_of_app in Hd.
      destruct Hd as [?|[?|?%elem_of_list_singleton]]; done.
  Qed.

  (* ---------------- regions ---------------- *)
  (* the blocks b+1 .. hi are entered from b only and left towards t only; b
     itself leaves towards t' *)
  Record region (b hi t t' : nat) : Prop := {
    rg_in : forall i x, b < i <= hi -> edge g x i -> b <= x <= hi;
    rg_out : forall x y, b < x <= hi -> edge g x y -> b < y <= hi \/ y = t;
    rg_top : forall y, edge g b y -> b < y <= hi \/ y = t';
    rg_tt : t' = t \/ t = b;
  }.

  Section region.
    Context (b hi t t' : nat) (Hr : region b hi t t').
    Let inr (x : nat) : Prop := b < x <= hi.

    Lemma region_dom_aux x l i : path g x l i -> inr i -> ~ inr x -> b ∈ x :: l.
    Proof.
      induction 1 as [|x k l i He Hp IH]; intros Hi Hx; [done|].
      destruct (decide (inr k)) as [Hk|Hk].
      - pose proof (rg_in _ _ _ _ Hr _ _ Hk He). assert (x = b) as -> by (unfold inr in *; lia). set_solver.
      - specialize (IH Hi Hk). set_solver.
    Qed.

    Lemma region_dom i : inr i -> dominates g b i.
    Proof. intros Hi l Hl. eapply region_dom_aux; [done|done|]. unfold inr. lia. Qed.

    Lemma inside_back x l j : path g x l j -> inr j -> b ∉ l -> (x = b \/ inr x) /\ Forall inr l.
    Proof.
      induction 1 as [|x k l j He Hp IH]; intros Hj Hb.
      - split; [by right|constructor].
      - destruct (IH Hj) as [[Ek|Hk] Hall]; [intros ?; apply Hb; by apply elem_of_list_further|destruct Hb; rewrite Ek; apply elem_of_list_here|].
        split; [|by constructor].
        pose proof (rg_in _ _ _ _ Hr _ _ Hk He). unfold inr. destruct (decide (x = b)); [by left|right; lia].
    Qed.

    Lemma inside_fwd x l j : path g x l j -> inr x ->
      Forall inr l \/ exists l1 l2, l = l1 ++ t :: l2 /\ Forall inr l1 /\ ~ inr t.
    Proof.
      induction 1 as [|x k l j He Hp IH]; intros Hx; [left; constructor|].
      destruct (decide (inr k)) as [Hk|Hk].
      - destruct (IH Hk) as [Hall|(l1 & l2 & -> & Hall & Ht)]; [left; by constructor|].
        right. exists (k :: l1), l2. split; [done|]. split; [by constructor|done].
      - destruct (rg_out _ _ _ _ Hr _ _ Hx He) as [?| ->]; [done|].
        right. exists [], l. split; [done|]. split; [constructor|done].
    Qed.

    Lemma exit_inside s m j : path g s (m ++ [j]) j -> inr s -> ~ inr j ->
      (t = j /\ inr (last_of s m)) \/ t ∈ m.
    Proof.
      intros Hp Hs Hj. destruct (inside_fwd _ _ _ Hp Hs) as [Hall|(l1 & l2 & E & Hall & Ht)].
      - apply Forall_app in Hall as [_ Hall]. rewrite Forall_singleton in Hall. by destruct Hj.
      - destruct (list_snoc_cases l2) as [->|(l2' & z & ->)].
        + apply (app_inj_tail m l1 j t) in E as [-> ->]. left. split; [done|].
          destruct (last_of_in s l1) as [[_ ->]|Hin]; [done|].
          by eapply (proj1 (Forall_forall _ _) Hall).
        + replace (l1 ++ t :: l2' ++ [z]) with ((l1 ++ t :: l2') ++ [z]) in E by (by rewrite <- app_assoc).
          apply app_inj_tail in E as [-> _]. right. set_solver.
    Qed.

    Lemma route_first m j : route g b m j ->
      edge g b (first_of m j) /\
      ((m = [] /\ first_of m j = j) \/ exists m', m = first_of m j :: m' /\ path g (first_of m j) (m' ++ [j]) j).
    Proof.
      intros (Hp & _ & _). destruct m as [|s m']; simpl in *.
      - inversion Hp; subst. split; [done|by left].
      - inversion Hp; subst. split; [done|]. right. by exists m'.
    Qed.

    Lemma one_side m j : route g b m j -> ~ inr j -> inr (first_of m j) ->
      (exists p, edge g p j /\ dominates g b p) \/ t ∈ m.
    Proof.
      intros Hr' Hj Hs. destruct (route_first _ _ Hr') as (_ & [[_ E]|(m' & E & Hp)]).
      - by rewrite E in Hs.
      - destruct (exit_inside _ _ _ Hp Hs Hj) as [[_ Hl]|Hin].
        + left. exists (last_of (first_of m j) m'). split; [by apply route_last_edge|by apply region_dom].
        + right. rewrite E. set_solver.
    Qed.

    Lemma region_split_l j m1 m2 :
      route g b m1 j -> route g b m2 j -> (forall x, x ∈ m1 -> x ∉ m2) -> ~ inr j ->
      inr (first_of m1 j) -> exists p, edge g p j /\ dominates g b p.
    Proof.
      intros R1 R2 Hdis Hj Hs1.
      destruct (one_side _ _ R1 Hj Hs1) as [?|Ht1]; [done|].
      assert (t' = t) as Htt.
      { destruct (rg_tt _ _ _ _ Hr) as [?| ->]; [done|]. by destruct R1 as (_ & ? & _). }
      destruct (decide (inr (first_of m2 j))) as [Hs2|Hs2].
      - destruct (one_side _ _ R2 Hj Hs2) as [?|Ht2]; [done|]. by destruct (Hdis _ Ht1).
      - exfalso. destruct (route_first _ _ R2) as (He & Hm).
        destruct (rg_top _ _ _ _ Hr _ He) as [?|E2]; [done|]. rewrite Htt in E2.
        destruct Hm as [[_ E]|(m' & E & _)].
        + rewrite E in E2. destruct R1 as (_ & _ & Hn). apply Hn. by rewrite E2.
        + apply (Hdis _ Ht1). rewrite E, E2. set_solver.
    Qed.

    Lemma region_split j m1 m2 :
      route g b m1 j -> route g b m2 j -> (forall x, x ∈ m1 -> x ∉ m2) -> (m1 <> [] \/ m2 <> []) ->
      exists p, edge g p j /\ dominates g b p.
    Proof.
      intros R1 R2 Hdis Hne.
      destruct (decide (inr j)) as [Hj|Hj].
      - destruct R1 as (P1 & Hb1 & _).
        destruct (inside_back _ _ _ P1 Hj) as [_ Hall].
        { rewrite elem_of_app, elem_of_list_singleton. unfold inr in Hj. intros [?|?]; [done|lia]. }
        exists (last_of b m1). split; [by apply route_last_edge|].
        destruct (last_of_in b m1) as [[_ ->]|Hin]; [apply dominates_refl|].
        apply region_dom. apply Forall_app in Hall as [Hall _]. by eapply (proj1 (Forall_forall _ _) Hall).
      - destruct (decide (inr (first_of m1 j))) as [Hs1|Hs1]; [exact (region_split_l j m1 m2 R1 R2 Hdis Hj Hs1)|].
        destruct (decide (inr (first_of m2 j))) as [Hs2|Hs2].
        { apply (region_split_l j m2 m1 R2 R1); [|done|done]. intros x H2 H1. by eapply Hdis. }
        exfalso. destruct (route_first _ _ R1) as (He1 & Hm1). destruct (route_first _ _ R2) as (He2 & Hm2).
        destruct (rg_top _ _ _ _ Hr _ He1) as [?|E1]; [done|].
        destruct (rg_top _ _ _ _ Hr _ He2) as [?|E2]; [done|].
        destruct R1 as (_ & _ & Hj1). destruct R2 as (_ & _ & Hj2).
        destruct Hm1 as [[-> F1]|(m1' & F1 & _)], Hm2 as [[-> F2]|(m2' & F2 & _)].
        + by destruct Hne.
        + simpl in E1. apply Hj2. rewrite F2. replace (first_of m2 j) with j by congruence. apply elem_of_list_here.
        + simpl in E2. apply Hj1. rewrite F1. replace (first_of m1 j) with j by congruence. apply elem_of_list_here.
        + apply (Hdis (first_of m1 j)); [rewrite F1 at 2; apply elem_of_list_here|].
          rewrite F2. replace (first_of m1 j) with (first_of m2 j) by congruence. apply elem_of_list_here.
    Qed.
  End region.
End paths.

(* ================================================================== *)
(* D. why can_split is the right relation (any graph)                  *)
(* ================================================================== *)
(* two walks from a common block d that enter j along different edges have a
   common block b - the one of them that the first walk visits last - from
   which they continue to j without meeting: b splits j *)
Lemma path_suffix g d a x r c : path g d (a ++ x :: r) c -> path g x r c.
Proof.
  revert d. induction a as [|k a IH]; intros d H; simpl in H; inversion H; subst; [done|]. by eapply IH.
Qed.

Lemma last_of_app d a x r : last_of d (a ++ x :: r) = last_of x r.
Proof.
  unfold last_of at 1. rewrite last_app, (last_cons_last_of x r). done.
Qed.

Lemma last_occurrence (x : nat) L : x ∈ L -> exists pre m, L = pre ++ x :: m /\ x ∉ m.
Proof.
  induction L as [|y L IH]; intros Hin; [set_solver|].
  destruct (decide (x ∈ L)) as [HL|HL].
  - destruct (IH HL) as (pre & m & -> & Hm). by exists (y :: pre), m.
  - assert (x = y) as -> by set_solver. by exists [], L.
Qed.

(* the part of the second walk after its last visit of d *)
Lemma after_last_visit g d l2 j :
  path g d (l2 ++ [j]) j -> exists m, path g d (m ++ [j]) j /\ d ∉ m /\
    last_of d l2 = last_of d m /\ forall y, y ∈ m -> y ∈ l2.
Proof.
  intros P2. destruct (last_occurrence d (d :: l2)) as (pre & m & E & Hm); [set_solver|].
  exists m. destruct pre as [|d' pre]; simpl in E; injection E as E; subst; [done|].
  split; [|split; [done|split]].
  - rewrite <- app_assoc in P2. by apply path_suffix in P2.
  - apply last_of_app.
  - set_solver.
Qed.

Lemma split_here g d l1 l2 j :
  path g d (l1 ++ [j]) j -> path g d (l2 ++ [j]) j -> j ∉ l1 -> j ∉ l2 ->
  last_of d l1 <> last_of d l2 -> (forall y, y ∈ l1 -> y ∉ d :: l2) -> can_split g d j.
Proof.
  intros P1 P2 Hj1 Hj2 Hlast Hd1.
  destruct (after_last_visit g d l2 j P2) as (m & P2' & Hm & El & Hsub).
  exists l1, m. split; [|split; [|split]].
  - split; [done|]. split; [|done]. intros Hd. apply (Hd1 _ Hd). set_solver.
  - split; [done|]. split; [done|]. intros H. by apply Hj2, Hsub.
  - intros y Hy Hy'. apply (Hd1 _ Hy). set_solver.
  - destruct l1 as [|? ?]; [|by left]. destruct m as [|? ?]; [|by right]. by rewrite El in Hlast.
Qed.

Lemma split_exists_n g : forall n d l1 l2 j,
  length l1 <= n -> path g d (l1 ++ [j]) j -> path g d (l2 ++ [j]) j -> j ∉ l1 -> j ∉ l2 ->
  last_of d l1 <> last_of d l2 ->
  exists b, b ∈ d :: l1 /\ b ∈ d :: l2 /\ can_split g b j.
Proof.
  induction n as [|n IH]; intros d l1 l2 j Hn P1 P2 Hj1 Hj2 Hlast;
    (destruct (decide (Exists (fun x => x ∈ d :: l2) l1)) as [Hex|Hnex];
     [apply Exists_exists in Hex as (x & Hx1 & Hx2)|
      exists d; split; [set_solver|]; split; [set_solver|];
      apply (split_here g d l1 l2 j P1 P2 Hj1 Hj2 Hlast);
      intros y Hy Hy'; apply Hnex, Exists_exists; by exists y]).
  - destruct l1; [set_solver|simpl in Hn; lia].
  - (* the walks meet again at x: continue from there *)
    apply elem_of_list_split in Hx1 as (a & l1' & ->).
    apply elem_of_list_split in Hx2 as (pre & l2' & E).
    assert (Q1 : path g x (l1' ++ [j]) j).
    { rewrite <- app_assoc in P1. by apply path_suffix in P1. }
    assert (Q2 : path g x (l2' ++ [j]) j /\ last_of d l2 = last_of x l2' /\
                 (forall y, y ∈ l2' -> y ∈ l2) /\ x ∈ d :: l2).
    { destruct pre as [|d' pre]; simpl in E; injection E as E; subst; [split; [done|]; split; [done|]; set_solver|].
      split; [|split; [|split]].
      - rewrite <- app_assoc in P2. by apply path_suffix in P2.
      - apply last_of_app.
      - set_solver.
      - set_solver. }
    destruct Q2 as (Q2 & El & Hsub & Hx).
    destruct (IH x l1' l2' j) as (b & Hb1 & Hb2 & Hcs); try done.
    + rewrite app_length in Hn. simpl in Hn. lia.
    + set_solver.
    + intros H. by apply Hj2, Hsub.
    + by rewrite <- last_of_app with (d := d) (a := a), <- El.
    + exists b. split; [set_solver|]. split; [|done].
      apply elem_of_cons in Hb2 as [->|Hb2]; [done|]. apply elem_of_cons. right. by apply Hsub.
Qed.

Theorem split_exists g d l1 l2 j :
  path g d (l1 ++ [j]) j -> path g d (l2 ++ [j]) j -> j ∉ l1 -> j ∉ l2 ->
  last_of d l1 <> last_of d l2 ->
  exists b, b ∈ d :: l1 /\ b ∈ d :: l2 /\ can_split g b j.
Proof. by apply (split_exists_n g (length l1)). Qed.

(* ================================================================== *)
(* B. what lifting builds: regions                                     *)
(* ================================================================== *)
Definition succs_of (g : graph) (i : nat) : list nat :=
  match g !! i with Some b => b_succs b | None => [] end.
Definition preds_of (g : graph) (i : nat) : list nat :=
  match g !! i with Some b => b_preds b | None => [] end.

Lemma edge_succs_of g i j : edge g i j <-> j ∈ succs_of g i.
Proof.
  unfold edge, succs_of. split.
  - intros (b & -> & H). done.
  - destruct (g !! i) as [b|]; [|set_solver]. intros H. by exists b.
Qed.

Lemma succs_of_ge g i : length g <= i -> succs_of g i = [].
Proof. intros H. unfold succs_of. by rewrite (proj2 (lookup_ge_None g i)). Qed.
Lemma preds_of_ge g i : length g <= i -> preds_of g i = [].
Proof. intros H. unfold preds_of. by rewrite (proj2 (lookup_ge_None g i)). Qed.

(* g' is g with an edge i -> t added for every i in ps (and possibly new blocks) *)
Record linked (g g' : graph) (ps : list nat) (t : nat) : Prop := {
  lk_len : length g <= length g';
  lk_succs : forall i y, i < length g -> (y ∈ succs_of g' i <-> y ∈ succs_of g i \/ (i ∈ ps /\ y = t));
  lk_preds : forall i x, i < length g -> i <> t -> (x ∈ preds_of g' i <-> x ∈ preds_of g i);
  lk_tpreds : forall x, x ∈ preds_of g' t <-> x ∈ preds_of g t \/ x ∈ ps;
}.

Lemma complete_linked g ps d g' :
  (forall i, i ∈ ps -> i < length g) -> NoDup ps -> complete g ps d = Ok g' ->
  linked g g' ps (length g) /\ length g' = S (length g) /\ succs_of g' (length g) = [].
Proof.
  intros Hlt Hnd Hc.
  destruct (complete_spec g ps d Hlt Hnd) as (h & nb & Hc' & Hlen & Hlk & N1 & N2 & N3 & N4 & N5 & N6).
  rewrite Hc' in Hc. injection Hc as <-.
  assert (Hnew : (h ++ [nb]) !! length g = Some nb).
  { rewrite lookup_app_r by lia. by replace (length g - length h) with 0 by lia. }
  assert (Hold : forall i b, g !! i = Some b ->
            (h ++ [nb]) !! i = Some (if decide (i ∈ ps) then close (length g) b else b)).
  { intros i b Hb. rewrite lookup_app_l; [by apply Hlk|]. rewrite Hlen. by eapply lookup_lt_Some. }
  split; [split|split].
  - rewrite app_length. simpl. lia.
  - intros i y Hi. destruct (lookup_lt_is_Some_2 g i Hi) as (b & Hb).
    unfold succs_of. rewrite (Hold _ _ Hb), Hb. case_decide.
    + rewrite succs_close. naive_solver.
    + naive_solver.
  - intros i x Hi _. destruct (lookup_lt_is_Some_2 g i Hi) as (b & Hb).
    unfold preds_of. rewrite (Hold _ _ Hb), Hb. by case_decide.
  - intros x. unfold preds_of at 1. rewrite Hnew, preds_of_ge by lia. rewrite N5. set_solver.
  - rewrite app_length. simpl. lia.
  - unfold succs_of. by rewrite Hnew.
Qed.

Lemma push_same g it g1 :
  upd_last (push_item it) g = Ok g1 ->
  length g1 = length g /\ forall i, succs_of g1 i = succs_of g i /\ preds_of g1 i = preds_of g i.
Proof.
  intros H. apply upd_last_inv in H as [_ ->]. split; [apply alter_length|].
  intros i. unfold succs_of, preds_of. rewrite lookup_alter_case.
  case_decide; destruct (g !! i); done.
Qed.

Lemma back_linked h ps g g' :
  h < length g -> (forall i, i ∈ ps -> i < length g /\ i <> h) -> NoDup ps ->
  fold_left (back_edge h) ps (Ok g) = Ok g' -> linked g g' ps h /\ length g' = length g.
Proof.
  intros Hh Hps Hnd Hf. destruct (back_lookup h ps g g' Hh Hps Hnd Hf) as (Hlen & Hlk).
  split; [split|done].
  - lia.
  - intros i y Hi. destruct (lookup_lt_is_Some_2 g i Hi) as (b & Hb).
    unfold succs_of. rewrite (Hlk _ _ Hb), Hb.
    destruct (decide (i = h)) as [->|Hne].
    + destruct (add_preds_spec ps b) as (_ & _ & _ & -> & _). split; [by left|].
      intros [?|[Hin _]]; [done|]. by destruct (Hps _ Hin).
    + case_decide; simpl; [rewrite elem_of_ins|]; naive_solver.
  - intros i x Hi Hne. destruct (lookup_lt_is_Some_2 g i Hi) as (b & Hb).
    unfold preds_of. rewrite (Hlk _ _ Hb), Hb. rewrite decide_False by done. by case_decide.
  - intros x. destruct (lookup_lt_is_Some_2 g h Hh) as (b & Hb).
    unfold preds_of. rewrite (Hlk _ _ Hb), Hb. rewrite decide_True by done.
    destruct (add_preds_spec ps b) as (_ & _ & _ & _ & E5 & _). apply E5.
Qed.

(* ---------------- regions of the graph under construction ---------------- *)
Definition preds_in (g : graph) (lo hi : nat) : Prop :=
  forall i x, lo < i <= hi -> x ∈ preds_of g i -> lo <= x <= hi.
(* nothing leaves lo+1..hi, nor lo, yet *)
Definition oreg (g : graph) (lo hi : nat) : Prop :=
  preds_in g lo hi /\ forall i y, lo <= i <= hi -> y ∈ succs_of g i -> lo < y <= hi.
(* everything that leaves goes to t *)
Definition creg (g : graph) (lo hi t : nat) : Prop :=
  preds_in g lo hi /\ forall i y, lo <= i <= hi -> y ∈ succs_of g i -> lo < y <= hi \/ y = t.
(* a loop body h+1..hi: left towards the header only *)
Definition lreg (g : graph) (h hi : nat) : Prop :=
  preds_in g h hi /\ S h ∈ succs_of g h /\
  forall i y, h < i <= hi -> y ∈ succs_of g i -> h < y <= hi \/ y = h.

(* Q: the blocks that wait for their exit edge together *)
Definition R (g : graph) (n : nat) (Q : nat -> Prop) (b : nat) : Prop :=
  exists hi, b < hi < n /\
    ((lreg g b hi /\ forall x, b < x <= hi -> ~ Q x) \/
     oreg g b hi \/
     exists t, creg g b hi t /\ forall x, b <= x <= hi -> ~ Q x).

Definition cand (g : graph) (Q : nat -> Prop) (b : nat) : Prop :=
  (exists y1 y2, y1 <> y2 /\ y1 ∈ succs_of g b /\ y2 ∈ succs_of g b) \/
  (Q b /\ exists y, y ∈ succs_of g b).

Definition regs (g : graph) (l n : nat) (Q : nat -> Prop) : Prop :=
  forall b, l <= b < n -> cand g Q b -> R g n Q b.

Lemma R_same g g' n n' (Q Q' : nat -> Prop) b :
  (forall i y, b <= i < n -> (y ∈ succs_of g' i <-> y ∈ succs_of g i)) ->
  (forall i x, b < i < n -> (x ∈ preds_of g' i <-> x ∈ preds_of g i)) ->
  (forall x, b <= x < n -> Q' x -> Q x) -> n <= n' -> R g n Q b -> R g' n' Q' b.
Proof.
  intros Hs Hp HQ Hn (hi & Hhi & H). exists hi. split; [lia|].
  assert (Hpi : preds_in g b hi -> preds_in g' b hi).
  { intros H0 i x Hi Hx. apply (H0 i x Hi). apply Hp; [lia|done]. }
  destruct H as [((Hpr & HS & Hsu) & HnQ)|[(Hpr & Hsu)|(t & (Hpr & Hsu) & HnQ)]].
  - left. split; [split; [auto|split]|].
    + apply Hs; [lia|done].
    + intros i y Hi Hy. apply (Hsu i y Hi). apply Hs; [lia|done].
    + intros x Hx HQ'. apply (HnQ x Hx). apply HQ; [lia|done].
  - right. left. split; [auto|]. intros i y Hi Hy. apply (Hsu i y Hi). apply Hs; [lia|done].
  - right. right. exists t. split; [split; [auto|]|].
    + intros i y Hi Hy. apply (Hsu i y Hi). apply Hs; [lia|done].
    + intros x Hx HQ'. apply (HnQ x Hx). apply HQ; [lia|done].
Qed.

Lemma R_link g g' ps t n (Q Q' : nat -> Prop) b :
  linked g g' ps t -> n <= length g -> (t < b \/ n <= t) ->
  (forall x, x ∈ ps -> Q x) -> (forall x, b <= x < n -> ~ Q' x) ->
  R g n Q b -> R g' n Q' b.
Proof.
  intros Hl Hn Ht Hps HQ' (hi & Hhi & H). exists hi. split; [done|].
  assert (Hpi : preds_in g b hi -> preds_in g' b hi).
  { intros H0 i x Hi Hx. apply (H0 i x Hi). apply (lk_preds _ _ _ _ Hl); [lia|lia|done]. }
  destruct H as [((Hpr & HS & Hsu) & HnQ)|[(Hpr & Hsu)|(t0 & (Hpr & Hsu) & HnQ)]].
  - left. split; [split; [auto|split]|].
    + apply (lk_succs _ _ _ _ Hl); [lia|by left].
    + intros i y Hi Hy. apply (lk_succs _ _ _ _ Hl) in Hy; [|lia]. destruct Hy as [Hy|[Hin _]].
      * by apply (Hsu i y Hi).
      * destruct (HnQ i Hi). by apply Hps.
    + intros x Hx. apply HQ'. lia.
  - right. right. exists t. split; [split; [auto|]|].
    + intros i y Hi Hy. apply (lk_succs _ _ _ _ Hl) in Hy; [|lia]. destruct Hy as [Hy|[_ ->]]; [|by right].
      left. by apply (Hsu i y Hi).
    + intros x Hx. apply HQ'. lia.
  - right. right. exists t0. split; [split; [auto|]|].
    + intros i y Hi Hy. apply (lk_succs _ _ _ _ Hl) in Hy; [|lia]. destruct Hy as [Hy|[Hin _]].
      * by apply (Hsu i y Hi).
      * destruct (HnQ i Hi). by apply Hps.
    + intros x Hx. apply HQ'. lia.
Qed.

Lemma regs_same g g' l n (Q Q' : nat -> Prop) :
  (forall i y, l <= i < n -> (y ∈ succs_of g' i <-> y ∈ succs_of g i)) ->
  (forall i x, l < i < n -> (x ∈ preds_of g' i <-> x ∈ preds_of g i)) ->
  (forall x, l <= x < n -> Q' x -> Q x) -> regs g l n Q -> regs g' l n Q'.
Proof.
  intros Hs Hp HQ H b Hb Hc. apply (R_same g g' n n Q Q' b).
  - intros i y Hi. apply Hs. lia.
  - intros i x Hi. apply Hp. lia.
  - intros x Hx. apply HQ. lia.
  - done.
  - apply (H b Hb). destruct Hc as [(y1 & y2 & Hne & H1 & H2)|[Hq (y & Hy)]].
    + left. exists y1, y2. split; [done|]. split; apply Hs; done.
    + right. split; [by apply HQ|]. exists y. by apply Hs.
Qed.

Lemma regs_extend g l n n' (Q : nat -> Prop) :
  n <= n' -> (forall b, n <= b < n' -> succs_of g b = []) -> regs g l n Q -> regs g l n' Q.
Proof.
  intros Hn He H b Hb Hc. destruct (decide (b < n)) as [Hlt|Hge].
  - apply (R_same g g n n' Q Q b); try done. apply H; [lia|done].
  - exfalso. unfold cand in Hc. rewrite (He b) in Hc by lia. destruct Hc as [(y1 & y2 & _ & H1 & _)|[_ (y & Hy)]]; set_solver.
Qed.

Lemma regs_join g l m n (Q1 Q2 Q : nat -> Prop) :
  m <= n -> (forall x, x < m -> Q x -> Q1 x) -> (forall x, m <= x -> Q x -> Q2 x) ->
  regs g l m Q1 -> regs g m n Q2 -> regs g l n Q.
Proof.
  intros Hmn H1 H2 HA HB b Hb Hc. destruct (decide (b < m)) as [Hlt|Hge].
  - apply (R_same g g m n Q1 Q b); try done.
    + intros x Hx. apply H1. lia.
    + apply HA; [lia|]. destruct Hc as [?|[Hq ?]]; [by left|right]. split; [by apply H1|done].
  - apply (R_same g g n n Q2 Q b); try done.
    + intros x Hx. apply H2. lia.
    + apply HB; [lia|]. destruct Hc as [?|[Hq ?]]; [by left|right]. split; [apply H2; [lia|done]|done].
Qed.

Lemma regs_link g g' ps t l n (Q Q' : nat -> Prop) :
  linked g g' ps t -> n <= length g -> (t < l \/ n <= t) ->
  (forall x, x ∈ ps -> Q x) -> (forall x, l <= x < n -> ~ Q' x) ->
  regs g l n Q -> regs g' l n Q'.
Proof.
  intros Hl Hn Ht Hps HQ' H b Hb Hc. apply (R_link g g' ps t n Q Q' b); try done.
  - lia.
  - intros x Hx. apply HQ'. lia.
  - apply (H b Hb). destruct Hc as [(y1 & y2 & Hne & H1 & H2)|[Hq _]]; [|by destruct (HQ' b Hb)].
    apply (lk_succs _ _ _ _ Hl) in H1; [|lia]. apply (lk_succs _ _ _ _ Hl) in H2; [|lia].
    destruct H1 as [H1|[Hin ->]], H2 as [H2|[Hin' ->]].
    + left. by exists y1, y2.
    + right. split; [by apply Hps|by exists y1].
    + right. split; [by apply Hps|by exists y2].
    + done.
Qed.

(* ---------------- the state after a statement ---------------- *)
Definition pend (g : graph) (ps : list nat) (x : nat) : Prop :=
  if is_nil ps then x = length g - 1 else x ∈ ps.
Definition bnd (g : graph) (ps : list nat) : nat :=
  if is_nil ps then length g - 1 else length g.

(* the blocks made for a statement that was entered in the last block of g:
   that block keeps its predecessors, and nothing enters or leaves the new part
   except through it *)
Definition Vp (g g' : graph) : Prop :=
  (forall x, x ∈ preds_of g' (length g - 1) <-> x ∈ preds_of g (length g - 1)) /\
  oreg g' (length g - 1) (length g' - 1).

Definition vreg (g g' : graph) (ps : list nat) : Prop :=
  Vp g g' /\ regs g' (length g - 1) (bnd g' ps) (pend g' ps).

Definition visit_reg (s : sk) : Prop :=
  forall d g P0 g' ps, pre g d P0 -> visit s d g = Ok (g', ps) -> vreg g g' ps.

Lemma pre_succs_nil g d P0 : pre g d P0 -> succs_of g (length g - 1) = [].
Proof.
  intros [Hwf _ (b & Hb & Hpl & _)]. unfold succs_of. rewrite Hb.
  eapply pending_plain_succs; [by apply (wf_blk _ _ Hwf)|by right|done].
Qed.

Lemma V_init g d P0 : pre g d P0 -> Vp g g.
Proof.
  intros Hpre. split; [done|]. split.
  - intros i x Hi. lia.
  - intros i y Hi. replace i with (length g - 1) by lia. rewrite (pre_succs_nil _ _ _ Hpre). set_solver.
Qed.

Lemma V_same g0 g g' :
  Vp g0 g -> length g' = length g ->
  (forall i, succs_of g' i = succs_of g i /\ preds_of g' i = preds_of g i) -> Vp g0 g'.
Proof.
  intros [H1 [H2 H3]] Hlen Hsame. split; [|split].
  - intros x. by rewrite (proj2 (Hsame _)).
  - intros i x. rewrite Hlen, (proj2 (Hsame _)). apply H2.
  - intros i y. rewrite Hlen, (proj1 (Hsame _)). apply H3.
Qed.

Lemma V_complete g0 g g' ps :
  Vp g0 g -> 0 < length g0 <= length g -> linked g g' ps (length g) -> length g' = S (length g) ->
  succs_of g' (length g) = [] -> (forall x, x ∈ ps -> length g0 - 1 <= x < length g) -> Vp g0 g'.
Proof.
  intros [H1 [H2 H3]] Hlen Hl Hlen' Hnil Hps. split; [|split].
  - intros x. rewrite <- H1. apply (lk_preds _ _ _ _ Hl); lia.
  - intros i x Hi Hx. rewrite Hlen' in Hi. destruct (decide (i = length g)) as [->|Hne].
    + apply (lk_tpreds _ _ _ _ Hl) in Hx. rewrite preds_of_ge in Hx by lia.
      destruct Hx as [?|Hx]; [set_solver|]. apply Hps in Hx. lia.
    + apply (lk_preds _ _ _ _ Hl) in Hx; [|lia|done]. apply H2 in Hx; lia.
  - intros i y Hi Hy. rewrite Hlen' in Hi |- *. destruct (decide (i = length g)) as [->|Hne].
    + rewrite Hnil in Hy. set_solver.
    + apply (lk_succs _ _ _ _ Hl) in Hy; [|lia]. destruct Hy as [Hy|[_ ->]]; [|lia].
      apply H3 in Hy; lia.
Qed.

Lemma V_visit g0 g2 g3 :
  Vp g0 g2 -> Vp g2 g3 -> 0 < length g0 <= length g2 -> length g2 <= length g3 ->
  (forall i, i < length g2 - 1 -> g3 !! i = g2 !! i) -> Vp g0 g3.
Proof.
  intros [A1 [A2 A3]] [B1 [B2 B3]] Hlen Hlen' Hfr.
  assert (Hs : forall i, i < length g2 - 1 -> succs_of g3 i = succs_of g2 i).
  { intros i Hi. unfold succs_of. by rewrite Hfr. }
  assert (Hp : forall i x, i <= length g2 - 1 -> x ∈ preds_of g3 i <-> x ∈ preds_of g2 i).
  { intros i x Hi. destruct (decide (i = length g2 - 1)) as [->|Hne]; [apply B1|].
    unfold preds_of. rewrite Hfr by lia. done. }
  split; [|split].
  - intros x. rewrite <- A1. apply Hp. lia.
  - intros i x Hi Hx. destruct (decide (i <= length g2 - 1)) as [Hle|Hgt].
    + apply Hp in Hx; [|done]. apply A2 in Hx; lia.
    + apply B2 in Hx; lia.
  - intros i y Hi Hy. destruct (decide (i < length g2 - 1)) as [Hlt|Hge].
    + rewrite Hs in Hy by done. apply A3 in Hy; lia.
    + apply B3 in Hy; lia.
Qed.

Lemma V_back g0 g g' ps h :
  Vp g0 g -> linked g g' ps h -> length g' = length g -> length g0 - 1 < h < length g ->
  (forall x, x ∈ ps -> length g0 - 1 <= x < length g) -> Vp g0 g'.
Proof.
  intros [H1 [H2 H3]] Hl Hlen Hh Hps. split; [|split].
  - intros x. rewrite <- H1. apply (lk_preds _ _ _ _ Hl); lia.
  - intros i x Hi Hx. rewrite Hlen in Hi |- *. destruct (decide (i = h)) as [->|Hne].
    + apply (lk_tpreds _ _ _ _ Hl) in Hx. destruct Hx as [Hx|Hx]; [apply H2 in Hx; lia|apply Hps in Hx; lia].
    + apply (lk_preds _ _ _ _ Hl) in Hx; [|lia|done]. apply H2 in Hx; lia.
  - intros i y Hi Hy. rewrite Hlen in Hi |- *.
    apply (lk_succs _ _ _ _ Hl) in Hy; [|lia]. destruct Hy as [Hy|[_ ->]]; [|lia]. apply H3 in Hy; lia.
Qed.

Lemma linked_push g g1 g2 ps t it :
  upd_last (push_item it) g = Ok g1 -> linked g1 g2 ps t -> linked g g2 ps t.
Proof.
  intros Hu [L1 L2 L3 L4]. destruct (push_same _ _ _ Hu) as (Hlen & Hsame).
  rewrite Hlen in *. split; [done|..].
  - intros i y Hi. rewrite <- (proj1 (Hsame i)). by apply L2.
  - intros i x Hi Hne. rewrite <- (proj2 (Hsame i)). by apply L3.
  - intros x. rewrite <- (proj2 (Hsame t)). apply L4.
Qed.

Lemma regs_full g l ps :
  0 < length g -> (is_nil ps = true -> succs_of g (length g - 1) = []) ->
  regs g l (bnd g ps) (pend g ps) -> regs g l (length g) (pend g ps).
Proof.
  intros Hpos Hnil. unfold bnd. destruct (is_nil ps) eqn:E; [|done].
  apply regs_extend; [lia|]. intros b Hb. replace b with (length g - 1) by lia. by apply Hnil.
Qed.

Lemma regs_cons g l n (Q : nat -> Prop) :
  oreg g l (n - 1) -> l < n - 1 -> regs g (S l) n Q -> regs g l n Q.
Proof.
  intros Ho Hl H b Hb Hc. destruct (decide (b = l)) as [->|Hne]; [|apply H; [lia|done]].
  exists (n - 1). split; [lia|]. right. by left.
Qed.

Lemma vreg_init g d P0 : pre g d P0 -> vreg g g [].
Proof. intros Hpre. split; [by eapply V_init|]. intros b Hb. unfold bnd in Hb. simpl in Hb. lia. Qed.

Lemma pend_or_last g ps ps' :
  ps' = (if is_nil ps then [length g - 1] else ps) -> forall x, x ∈ ps' <-> pend g ps x.
Proof. intros -> x. unfold pend. destruct (is_nil ps); [apply elem_of_list_singleton|done]. Qed.

Lemma post_pend_range s g d P0 g' ps x :
  0 < length g -> post s g d P0 g' ps -> pend g' ps x -> length g - 1 <= x < length g'.
Proof.
  intros Hpos [Q1 Q2 _ _ _ _ _]. unfold pend. destruct (is_nil ps); [lia|apply Q2].
Qed.

Lemma post_last_nil s g d P0 g' ps :
  post s g d P0 g' ps -> is_nil ps = true -> succs_of g' (length g' - 1) = [].
Proof. intros [_ _ _ Q4 _ _ _] E. rewrite E in Q4. by eapply pre_succs_nil. Qed.

Lemma visit_init_seq d ss g r : visit_init d ss g = Ok r -> visit_seq d ss [] g = Ok r.
Proof.
  revert g. induction ss as [|s ss IH]; intros g H; [done|]. simpl in *.
  apply bind_ok in H as ([g1 ps1] & E & H). rewrite E. simpl in *.
  destruct (is_nil ps1) eqn:En; [|done]. apply is_nil_true in En as ->. by apply IH.
Qed.

(* ---------------- sequences ---------------- *)
Lemma visit_seq_reg ss : Forall visit_reg ss ->
  forall d (g0 : graph) (P0 : nat -> Prop) (g1 : graph) (ps1 : list nat) (g' : graph) (ps : list nat),
  (forall i, P0 i -> i < length g0 - 1) -> 0 < length g0 ->
  length g0 <= length g1 -> (forall i, i ∈ ps1 -> length g0 - 1 <= i < length g1) -> ssorted ps1 ->
  (if is_nil ps1 then pre g1 d P0 else wf g1 (fun i => P0 i \/ i ∈ ps1)) ->
  vreg g0 g1 ps1 -> visit_seq d ss ps1 g1 = Ok (g', ps) -> vreg g0 g' ps.
Proof.
  induction 1 as [|s r Hs _ IH]; intros d g0 P0 g1 ps1 g' ps HP0 Hpos Hlen Hrange Hss Hst Hvr Hv.
  - simpl in Hv. by injection Hv as <- <-.
  - simpl in Hv. inv_bind Hv. rename a into g2. inv_bind Hv. destruct a as [g3 ps3]. simpl in Hv.
    assert (H2 : pre g2 d P0 /\ length g1 <= length g2 /\ vreg g0 g2 []).
    { destruct (is_nil ps1) eqn:En.
      - injection E as <-. apply is_nil_true in En as ->. done.
      - apply is_nil_false in En.
        destruct (step_complete g1 ps1 d P0 g2) as (Hp & Hl & _ & _); try done.
        + destruct ps1 as [|p ?]; [done|]. eapply (wf_nonempty _ _ p); [done|]. right. set_solver.
        + intros i Hi HPi. specialize (HP0 _ HPi). specialize (Hrange _ Hi). lia.
        + destruct (complete_linked g1 ps1 d g2) as (Hlk & Hl' & Hnil); [|by apply ssorted_NoDup|done|].
          { intros i Hi. by apply Hrange. }
          split; [done|]. split; [lia|]. destruct Hvr as [HV HR]. split.
          * eapply V_complete; try done.
          * unfold bnd, pend in *. simpl. rewrite (proj2 (is_nil_false ps1) En) in HR.
            rewrite Hl'. simpl. rewrite Nat.sub_0_r.
            apply (regs_link g1 g2 ps1 (length g1) (length g0 - 1) (length g1) (fun x => x ∈ ps1) _ Hlk); [lia|by right|done| |exact HR].
            intros x Hx. lia. }
    destruct H2 as (Hpre2 & Hl2 & Hvr2).
    pose proof (Hs d g2 P0 g3 ps3 Hpre2 E0) as Hvr3.
    destruct (visit_post s d g2 P0 g3 ps3 Hpre2 E0) as [Q1 Q2 Q3 Q4 Q5 Q6 Q7].
    apply (IH d g0 P0 g3 ps3 g' ps); try done.
    + lia.
    + intros i Hi. specialize (Q2 _ Hi). lia.
    + destruct Hvr2 as [HV2 HR2], Hvr3 as [HV3 HR3]. split.
      * eapply V_visit; try done. lia.
      * unfold bnd, pend in HR2. simpl in HR2.
        eapply (regs_join g3 (length g0 - 1) (length g2 - 1) _ (fun x => x = length g2 - 1)); [| | | |exact HR3].
        -- unfold bnd. destruct (is_nil ps3); lia.
        -- intros x Hx Hq. eapply (post_pend_range s g2) in Hq; [lia|lia|done].
        -- done.
        -- eapply regs_same; [| | |exact HR2].
           ++ intros i y Hi. unfold succs_of. rewrite Q7 by lia. done.
           ++ intros i x Hi. unfold preds_of. rewrite Q7 by lia. done.
           ++ done.
Qed.

(* ---------------- the induction over the statement ---------------- *)
Theorem visit_reg_all s : visit_reg s.
Proof.
  induction s as [id r|ss IH|ss IH|c body IH|c t e IHt IHe] using sk_ind';
    intros d g P0 g' ps Hpre Hv.
  - (* leaf *)
    simpl in Hv. inv_bind Hv. inv_bind Hv. injection Hv as <- <-.
    destruct (push_same _ _ _ E0) as (Hlen & Hsame). split.
    + eapply V_same; [by eapply V_init|done|done].
    + intros b Hb. unfold bnd in Hb. simpl in Hb. lia.
  - (* initialisation block *)
    rewrite visit_init_eq in Hv. inv_bind Hv. apply visit_init_seq in Hv.
    eapply (visit_seq_reg ss IH d g P0 g []); try done.
    + apply (pre_P0 _ _ _ Hpre).
    + by eapply pre_length.
    + set_solver.
    + by eapply vreg_init.
  - (* block *)
    rewrite visit_block_eq in Hv. inv_bind Hv.
    eapply (visit_seq_reg ss IH d g P0 g []); try done.
    + apply (pre_P0 _ _ _ Hpre).
    + by eapply pre_length.
    + set_solver.
    + by eapply vreg_init.
  - (* while *)
    simpl in Hv. rewrite (pre_last_index _ _ _ Hpre) in Hv. simpl in Hv.
    set (l := length g - 1) in *.
    assert (Hlg : length g = S l) by (pose proof (pre_length _ _ _ Hpre); unfold l; lia).
    inv_bind Hv. rename a into g1, E into E1.
    inv_bind Hv. rename a into g2, E into E2.
    inv_bind Hv. rename a into g3, E into E3.
    inv_bind Hv. destruct a as [g4 ps4]. rename E into E4. simpl in Hv.
    inv_bind Hv. rename a into ps', E into E5.
    inv_bind Hv. rename a into g5, E into E6. injection Hv as <- <-.
    destruct (step_complete g [l] d P0 g1) as (Hp1 & Hl1 & _ & _); try done.
    { eapply wf_ext; [|apply (pre_wf _ _ _ Hpre)]. intros i. apply singleton_ext. }
    { by eapply pre_nonempty. }
    { apply ssorted_singleton. }
    { intros i Hi HPi. apply elem_of_list_singleton in Hi as ->. apply (pre_P0 _ _ _ Hpre) in HPi. lia. }
    assert (Hh : l + 1 = length g1 - 1) by lia.
    replace (l + 2) with (S (length g1 - 1)) in E2 by lia. rewrite Hh in E3, E6 |- *.
    destruct (step_branch g1 d (d + 1) P0 c g2 g3 Hp1 E2 E3) as (Hp3 & Hl3 & _ & _ & _).
    set (h := length g1 - 1) in *.
    pose proof (visit_post body (d + 1) g3 _ g4 ps4 Hp3 E4) as Hpost.
    destruct Hpost as [Q1 Q2 Q3 Q4 Q5 Q6 Q7].
    destruct (or_last_spec g4 (d + 1) _ ps4 ps' Q4 Q3 E5) as (O1 & O2 & O3 & O4 & O5).
    assert (Hps' : forall i, i ∈ ps' -> h < i < length g4).
    { intros i Hi. destruct (O4 _ Hi) as [Hi'|[-> ->]]; [apply Q2 in Hi'; lia|lia]. }
    (* the edges added by each step *)
    destruct (complete_linked g [l] d g1) as (L1 & _ & N1); [|apply NoDup_singleton|done|].
    { intros i Hi. apply elem_of_list_singleton in Hi as ->. lia. }
    destruct (push_same _ _ _ E2) as (Hl2 & Hsame2).
    destruct (complete_linked g2 [h] (d + 1) g3) as (L3' & _ & N3); [|apply NoDup_singleton|done|].
    { intros i Hi. apply elem_of_list_singleton in Hi as ->. lia. }
    pose proof (linked_push _ _ _ _ _ _ E2 L3') as L3. rewrite Hl2 in L3, N3.
    destruct (back_linked h ps' g4 g5) as (L6 & Hl5); [lia| |by apply ssorted_NoDup|done|].
    { intros i Hi. apply Hps' in Hi. lia. }
    pose proof (IH (d + 1) g3 _ g4 ps4 Hp3 E4) as [[B1 [B2 B3]] HR4].
    (* the new part as a whole *)
    assert (HV4 : Vp g g4).
    { eapply (V_visit g g3 g4); [| |lia|lia|done].
      - eapply (V_complete g g1 g3 [h]); [|lia|exact L3|lia|done|].
        + eapply (V_complete g g g1 [l]); [by eapply V_init|lia|exact L1|lia|done|].
          intros x Hx. apply elem_of_list_singleton in Hx as ->. lia.
        + intros x Hx. apply elem_of_list_singleton in Hx as ->. lia.
      - done. }
    assert (HV5 : Vp g g5).
    { eapply (V_back g g4 g5 ps' h); [done|exact L6|done|lia|]. intros x Hx. apply Hps' in Hx. lia. }
    split; [done|].
    unfold bnd, pend. simpl. fold l.
    (* the block the loop was entered from has one successor *)
    assert (Hsl : forall y, y ∈ succs_of g5 l -> y = h).
    { intros y Hy. apply (lk_succs _ _ _ _ L6) in Hy; [|lia].
      destruct Hy as [Hy|[Hin _]]; [|apply Hps' in Hin; lia].
      unfold succs_of in Hy. rewrite Q7 in Hy by lia. fold (succs_of g3 l) in Hy.
      apply (lk_succs _ _ _ _ L3) in Hy; [|lia].
      destruct Hy as [Hy|[Hin _]]; [|apply elem_of_list_singleton in Hin; lia].
      apply (lk_succs _ _ _ _ L1) in Hy; [|lia]. pose proof (pre_succs_nil _ _ _ Hpre) as Hn0. fold l in Hn0. rewrite Hn0 in Hy.
      destruct Hy as [?|[_ ->]]; [set_solver|lia]. }
    intros b Hb Hc.
    destruct (decide (b = l)) as [->|Hbl]; [|destruct (decide (b = h)) as [->|Hbh]].
    + exfalso. destruct Hc as [(y1 & y2 & Hne & H1 & H2)|[Hq _]].
      * apply Hsl in H1, H2. lia.
      * apply elem_of_list_singleton in Hq. lia.
    + (* the header: its body is a loop region *)
      exists (length g4 - 1). split; [lia|]. left. split; [split; [|split]|].
      * intros i x Hi Hx. apply (lk_preds _ _ _ _ L6) in Hx; [|lia|lia].
        destruct (decide (i = S h)) as [->|Hne].
        -- replace (S h) with (length g3 - 1) in Hx by lia. apply B1 in Hx.
           replace (length g3 - 1) with (length g1) in Hx by lia.
           apply (lk_tpreds _ _ _ _ L3) in Hx. rewrite preds_of_ge in Hx by lia.
           destruct Hx as [?|Hx]; [set_solver|]. apply elem_of_list_singleton in Hx. lia.
        -- apply B2 in Hx; lia.
      * apply (lk_succs _ _ _ _ L6); [lia|]. left. unfold succs_of. rewrite Q7 by lia. fold (succs_of g3 h).
        apply (lk_succs _ _ _ _ L3); [lia|]. right. split; [set_solver|lia].
      * intros i y Hi Hy. apply (lk_succs _ _ _ _ L6) in Hy; [|lia].
        destruct Hy as [Hy|[_ ->]]; [|by right]. left. apply B3 in Hy; lia.
      * intros x Hx Hq. apply elem_of_list_singleton in Hq. lia.
    + (* inside the body *)
      assert (HR5 : regs g5 (S h) (length g4) (fun x => x ∈ [h])).
      { eapply (regs_link g4 g5 ps' h (S h) (length g4) (pend g4 ps4)); [exact L6|lia|lia| | |].
        - intros x Hx. by apply (pend_or_last g4 ps4 ps').
        - intros x Hx Hq. apply elem_of_list_singleton in Hq. lia.
        - apply regs_full; [lia| |].
          + intros En. rewrite En in Q4. by eapply pre_succs_nil.
          + replace (S h) with (length g3 - 1) by lia. done. }
      rewrite Hl5. apply HR5; [lia|done].
  - (* if *)
    simpl in Hv. rewrite (pre_last_index _ _ _ Hpre) in Hv. simpl in Hv.
    set (l := length g - 1) in *.
    assert (Hlg : length g = S l) by (pose proof (pre_length _ _ _ Hpre); unfold l; lia).
    inv_bind Hv. rename a into g1, E into E1.
    inv_bind Hv. rename a into g2, E into E2.
    inv_bind Hv. destruct a as [g3 ps3]. rename E into E3. simpl in Hv.
    inv_bind Hv. rename a into psi, E into E4.
    replace (l + 1) with (S l) in E1 by lia.
    destruct (step_branch g d d P0 c g1 g2 Hpre E1 E2) as (Hp2 & Hl2 & _ & _ & _).
    fold l in Hp2.
    destruct (visit_post t d g2 _ g3 ps3 Hp2 E3) as [Q1 Q2 Q3 Q4 Q5 Q6 Q7].
    destruct (or_last_spec g3 d _ ps3 psi Q4 Q3 E4) as (O1 & O2 & O3 & O4 & O5).
    assert (Hpsi : forall i, i ∈ psi -> length g2 - 1 <= i < length g3).
    { intros i Hi. destruct (O4 _ Hi) as [Hi'|[-> ->]]; [by apply Q2|lia]. }
    destruct (push_same _ _ _ E1) as (Hl1 & Hsame1).
    destruct (complete_linked g1 [l] d g2) as (L2' & _ & N2); [|apply NoDup_singleton|done|].
    { intros i Hi. apply elem_of_list_singleton in Hi as ->. lia. }
    pose proof (linked_push _ _ _ _ _ _ E1 L2') as L2. rewrite Hl1 in L2, N2.
    pose proof (IHt d g2 _ g3 ps3 Hp2 E3) as [HVt HR3].
    assert (HV3 : Vp g g3).
    { eapply (V_visit g g2 g3); [|done|lia|lia|done].
      eapply (V_complete g g g2 [l]); [by eapply V_init|lia|exact L2|lia|done|].
      intros x Hx. apply elem_of_list_singleton in Hx as ->. lia. }
    assert (HR3' : regs g3 (S l) (length g3) (fun x => x ∈ psi)).
    { eapply (regs_same g3 g3 (S l) (length g3) (pend g3 ps3)); [done|done| |].
      - intros x Hx Hq. by apply (pend_or_last g3 ps3 psi O5).
      - apply regs_full; [lia| |].
        + intros En. rewrite En in Q4. by eapply pre_succs_nil.
        + replace (S l) with (length g2 - 1) by lia. done. }
    destruct e as [e|].
    + (* with else *)
      inv_bind Hv. rename a into g4, E into E5.
      inv_bind Hv. destruct a as [g5 ps5]. rename E into E6. simpl in Hv.
      inv_bind Hv. rename a into pse, E into E7. injection Hv as <- <-.
      destruct (step_complete g3 [l] d (fun i => P0 i \/ i ∈ psi) g4) as (Hp4 & Hl4 & _ & _); try done.
      { eapply wf_ext; [|exact O3]. intros i. simpl. set_solver. }
      { destruct psi as [|p ?]; [done|]. eapply (wf_nonempty _ _ p); [exact O3|]. right. set_solver. }
      { apply ssorted_singleton. }
      { intros i Hi [HPi|HPi]; apply elem_of_list_singleton in Hi as ->.
        - apply (pre_P0 _ _ _ Hpre) in HPi. lia.
        - apply Hpsi in HPi. lia. }
      destruct (visit_post e d g4 _ g5 ps5 Hp4 E6) as [R1 R2 R3 R4 R5 R6 R7].
      destruct (or_last_spec g5 d _ ps5 pse R4 R3 E7) as (U1 & U2 & U3 & U4 & U5).
      destruct (complete_linked g3 [l] d g4) as (L4 & _ & N4); [|apply NoDup_singleton|done|].
      { intros i Hi. apply elem_of_list_singleton in Hi as ->. lia. }
      pose proof (IHe e eq_refl d g4 _ g5 ps5 Hp4 E6) as [HVe HR5].
      assert (HV5 : Vp g g5).
      { eapply (V_visit g g4 g5); [|done|lia|lia|done].
        eapply (V_complete g g3 g4 [l]); [done|lia|exact L4|lia|done|].
        intros x Hx. apply elem_of_list_singleton in Hx as ->. lia. }
      split; [done|].
      assert (is_nil (iunion psi pse) = false) as Hnn by (by apply is_nil_false, iunion_not_nil).
      unfold bnd, pend. rewrite Hnn. fold l.
      apply regs_cons; [by destruct HV5|lia|].
      eapply (regs_join g5 (S l) (length g3) (length g5) (fun x => x ∈ psi) (pend g5 ps5)); [lia| | | |].
      * intros x Hx Hq. apply elem_of_iunion in Hq as [?|Hq]; [done|].
        apply (pend_or_last g5 ps5 pse U5) in Hq. unfold pend in Hq. destruct (is_nil ps5); [lia|].
        apply R2 in Hq. lia.
      * intros x Hx Hq. apply elem_of_iunion in Hq as [Hq|Hq]; [apply Hpsi in Hq; lia|].
        by apply (pend_or_last g5 ps5 pse U5).
      * eapply (regs_same g4 g5 (S l) (length g3) (fun x => x ∈ psi)); [| |done|].
        -- intros i y Hi. unfold succs_of. rewrite R7 by lia. done.
        -- intros i x Hi. unfold preds_of. rewrite R7 by lia. done.
        -- eapply (regs_same g3 g4 (S l) (length g3) (fun x => x ∈ psi)); [| |done|exact HR3'].
           ++ intros i y Hi. rewrite (lk_succs _ _ _ _ L4) by lia. split; [|by left].
              intros [?|[Hin _]]; [done|]. apply elem_of_list_singleton in Hin. lia.
           ++ intros i x Hi. apply (lk_preds _ _ _ _ L4); lia.
      * apply regs_full; [lia| |].
        -- intros En. rewrite En in R4. by eapply pre_succs_nil.
        -- replace (length g3) with (length g4 - 1) by lia. done.
    + (* without else *)
      injection Hv as <- <-. split; [done|].
      assert (is_nil (ins l psi) = false) as Hnn by (apply is_nil_false, ins_not_nil).
      unfold bnd, pend. rewrite Hnn. fold l.
      apply regs_cons; [by destruct HV3|lia|].
      eapply (regs_same g3 g3 (S l) (length g3) (fun x => x ∈ psi)); [done|done| |exact HR3'].
      intros x Hx Hq. apply elem_of_ins in Hq as [->|?]; [lia|done].
Qed.

(* ================================================================== *)
(* C. the graph that lift returns                                      *)
(* ================================================================== *)
(* ---- immediate dominators exist: C15 on the lifted graph (Proofs.MirrorsDom) ---- *)
Lemma path_from_dom g i j l :
  DomSpec.path (MirrorsDom.to_dom g) i j l -> exists l', l = i :: l' /\ path g i l' j.
Proof.
  induction 1 as [a Ha|a c b l He _ IH].
  - exists []. split; [done|]. apply path_nil. by rewrite MirrorsDom.to_dom_length in Ha.
  - destruct IH as (l' & -> & Hp). exists (c :: l'). split; [done|]. eapply path_cons; [|done].
    destruct He as (x & Hx & Hin). apply MirrorsDom.to_dom_lookup in Hx as (bk & Hb & ->). by exists bk.
Qed.

Lemma dominates_to_dom g i j : dominates g i j -> DomSpec.dom (MirrorsDom.to_dom g) i j.
Proof. intros H l Hp. apply path_from_dom in Hp as (l' & -> & Hp). by apply H. Qed.

Lemma idom_of_spec g d j : DomSpec.idom_spec (MirrorsDom.to_dom g) d j -> idom_of g d j.
Proof.
  intros [[Hd Hne] Hcl]. split; [split; [by apply MirrorsDom.dom_to_dominates|done]|].
  intros k [Hk Hkj]. apply MirrorsDom.dom_to_dominates, Hcl. split; [by apply dominates_to_dom|done].
Qed.

Lemma lifted_idom_exists body g : lift body = Ok g ->
  forall j, 0 < j < length g -> exists d, idom_of g d j.
Proof.
  intros Hl j Hj. pose proof (MirrorsDom.lifted_rooted body g Hl) as Hg.
  assert (Hord : DomSpec.order_ok Dom.id_order) by apply DomOracle.orders_ok.
  destruct (DomProofs.dominator_tree_correct _ _ Hg Hord) as (t & Ht & Hok).
  destruct (lookup_lt_is_Some_2 (Dom.dt_idom t) j) as (o & Ho).
  { rewrite (DomProofs.ok_idom_len _ _ Hok), MirrorsDom.to_dom_length. lia. }
  destruct o as [d|].
  - exists d. apply idom_of_spec. by apply (DomProofs.idom_exact _ _ t Hg Hord Ht j (Some d) d Ho).
  - pose proof (proj1 (DomProofs.idom_total _ _ t Hg Hord Ht j None Ho) eq_refl). lia.
Qed.

(* ---- every block with two successors heads a region ---- *)
Lemma two_elems (l : list nat) y1 y2 :
  NoDup l -> length l <= 2 -> y1 <> y2 -> y1 ∈ l -> y2 ∈ l -> forall y, y ∈ l -> y = y1 \/ y = y2.
Proof.
  intros Hnd Hlen Hne H1 H2 y Hy.
  destruct l as [|a [|a' [|a'' r]]]; simpl in Hlen; [set_solver|set_solver| |lia].
  apply NoDup_cons in Hnd as [Hn _]. set_solver.
Qed.

Section lifted.
  Context (body : sk) (g : graph) (Hl : lift body = Ok g).

  Lemma lifted_regs : exists ps, regs g 0 (length g) (pend g ps) /\ 0 < length g.
  Proof.
    unfold lift in Hl. destruct body as [| |ss| |]; try done.
    apply bind_ok in Hl as ([g' ps] & Hv & [= <-]). simpl.
    pose proof (visit_reg_all (SBlock ss) 0 g_init _ g' ps pre_init Hv) as [_ HR].
    pose proof (visit_post (SBlock ss) 0 g_init _ g' ps pre_init Hv) as Hpost.
    assert (0 < length g') by (destruct Hpost as [Q1 _ _ _ _ _ _]; simpl in Q1; lia).
    exists ps. split; [|done]. apply regs_full; [done|by eapply post_last_nil|exact HR].
  Qed.

  Lemma edge_preds_of x i : edge g x i -> x ∈ preds_of g i.
  Proof.
    intros He. apply (preds_succs_mirror body g Hl) in He as (bj & Hb & Hin).
    unfold preds_of. by rewrite Hb.
  Qed.

  Lemma lifted_region b y1 y2 :
    y1 <> y2 -> edge g b y1 -> edge g b y2 -> exists hi t t', region g b hi t t'.
  Proof.
    intros Hne E1 E2. destruct lifted_regs as (ps & HR & Hpos).
    assert (Hb : b < length g) by (destruct E1 as (bb & ? & _); by eapply lookup_lt_Some).
    destruct (HR b) as (hi & Hhi & H); [lia|left; exists y1, y2; by rewrite <- !edge_succs_of|].
    exists hi.
    destruct H as [((Hpr & HS & Hsu) & _)|[(Hpr & Hsu)|(t & (Hpr & Hsu) & _)]].
    - destruct (lookup_lt_is_Some_2 g b Hb) as (bb & Hbb).
      destruct (at_most_two_succs body g Hl b bb Hbb) as (Hnd & Hlen & _).
      assert (Hall : forall y, edge g b y -> y = y1 \/ y = y2).
      { intros y Hy. apply edge_succs_of in Hy, E1, E2. unfold succs_of in *. rewrite Hbb in *.
        by apply (two_elems (b_succs bb)). }
      exists b, (if decide (y1 = S b) then y2 else y1). split.
      + intros i x Hi Hx. apply (Hpr i x Hi). by apply edge_preds_of.
      + intros x y Hx Hy. apply edge_succs_of in Hy. by apply (Hsu x y Hx).
      + intros y Hy. apply edge_succs_of in HS. apply Hall in HS, Hy.
        case_decide; destruct HS as [HS|HS], Hy as [-> | ->]; try (right; done); left; lia.
      + by right.
    - exists 0, 0. split.
      + intros i x Hi Hx. apply (Hpr i x Hi). by apply edge_preds_of.
      + intros x y Hx Hy. apply edge_succs_of in Hy. left. apply (Hsu x y); [lia|done].
      + intros y Hy. apply edge_succs_of in Hy. left. apply (Hsu b y); [lia|done].
      + by left.
    - exists t, t. split.
      + intros i x Hi Hx. apply (Hpr i x Hi). by apply edge_preds_of.
      + intros x y Hx Hy. apply edge_succs_of in Hy. apply (Hsu x y); [lia|done].
      + intros y Hy. apply edge_succs_of in Hy. apply (Hsu b y); [lia|done].
      + by left.
  Qed.
End lifted.

(* ---- the two walks of can_split leave b and enter j by different edges ---- *)
Lemma can_split_meeting_of g b j : can_split g b j -> can_split_meeting g b j.
Proof.
  intros (m1 & m2 & R1 & R2 & Hdis & Hne). exists m1, m2. split; [done|]. split; [done|].
  destruct R1 as (P1 & Hb1 & Hj1), R2 as (P2 & Hb2 & Hj2). split.
  - destruct m1 as [|s1 m1], m2 as [|s2 m2]; simpl.
    + by destruct Hne.
    + intros <-. set_solver.
    + intros ->. set_solver.
    + intros ->. apply (Hdis s2); set_solver.
  - destruct (last_of_in b m1) as [[-> E1]|H1], (last_of_in b m2) as [[-> E2]|H2].
    + by destruct Hne.
    + rewrite E1. intros E. by rewrite <- E in H2.
    + rewrite E2. intros E. by rewrite E in H1.
    + intros E. apply (Hdis _ H1). by rewrite E.
Qed.

Lemma can_split_edges g b j : can_split g b j ->
  exists s1 s2 p1 p2, s1 <> s2 /\ edge g b s1 /\ edge g b s2 /\ p1 <> p2 /\ edge g p1 j /\ edge g p2 j.
Proof.
  intros (m1 & m2 & (P1 & _) & (P2 & _) & Hs & Hp)%can_split_meeting_of.
  exists (first_of m1 j), (first_of m2 j), (last_of b m1), (last_of b m2).
  split; [done|]. split; [|split; [|split; [done|split]]].
  - destruct m1; simpl in *; by inversion P1.
  - destruct m2; simpl in *; by inversion P2.
  - by apply route_last_edge.
  - by apply route_last_edge.
Qed.

(* ================================================================== *)
(* the theorem                                                         *)
(* ================================================================== *)
Theorem lifted_control_dependence body g : lift body = Ok g ->
  forall b j, can_split g b j -> is_join g j -> on_dom_chain g j b.
Proof.
  intros Hl b j Hcs _.
  destruct (can_split_edges _ _ _ Hcs) as (s1 & s2 & p1 & p2 & Hs & Es1 & Es2 & _ & Ep1 & _).
  destruct Hcs as (m1 & m2 & R1 & R2 & Hdis & Hne).
  destruct (lifted_region body g Hl b s1 s2 Hs Es1 Es2) as (hi & t & t' & Hreg).
  destruct (region_split g b hi t t' Hreg j m1 m2 R1 R2 Hdis Hne) as (p & Hp & Hdom).
  assert (Hj : 0 < j < length g).
  { split.
    - destruct (decide (j = 0)) as [->|]; [|lia].
      apply (preds_succs_mirror body g Hl) in Hp as (b0 & Hb0 & Hin).
      destruct (entry_no_pred body g Hl) as (_ & b0' & Hb0' & Hnil). rewrite Hb0 in Hb0'. injection Hb0' as <-.
      rewrite Hnil in Hin. set_solver.
    - apply (preds_succs_mirror body g Hl) in Hp as (bj & Hbj & _). by eapply lookup_lt_Some. }
  destruct (lifted_idom_exists body g Hl j Hj) as (d & Hd).
  exists p, d. split; [done|]. split; [done|]. split; [done|].
  destruct Hd as [[Hdj Hnj] _]. exact (split_dom_above g b j m1 m2 d R1 R2 Hdis Hdj Hnj).
Qed.

(* ================================================================== *)
(* E. examples                                                         *)
(* ================================================================== *)
Lemma path_last_step g a l c : path g a l c ->
  (l = [] /\ a = c) \/ exists l' p, l = l' ++ [c] /\ path g a l' p /\ edge g p c.
Proof.
  intros H. destruct (list_snoc_cases l) as [->|(l' & z & ->)].
  - left. by inversion H.
  - right. apply path_app_inv in H as (p & H1 & H2). inversion H2 as [|? ? ? ? He Hn]; subst.
    inversion Hn; subst. by exists l', p.
Qed.

Ltac ex_in := simpl; repeat first [apply elem_of_list_here | apply elem_of_list_further].
Ltac ex_edge := eexists; split; [reflexivity|ex_in].
Ltac ex_nin := let H := fresh in intros H; rewrite ?elem_of_cons, ?elem_of_nil in H; lia.
Ltac ex_path := repeat (eapply path_cons; [ex_edge|]); apply path_nil; simpl; lia.

(* if (c1) { x } ; if (c3) { y } ; z  -  the first `if` does not decide how the
   join of the second is entered, yet walks that may meet exist *)
Definition ex_seq_body : sk :=
  SBlock [SIf 1 (SLeaf 2 false) None; SIf 3 (SLeaf 4 false) None; SLeaf 5 false].
Definition ex_seq_g : graph :=
  [Block 0 0 [IBranch 1 1 (Some 2)] [] [1; 2]; Block 1 0 [ILeaf 2] [0] [2];
   Block 2 0 [IBranch 3 3 (Some 4)] [0; 1] [3; 4]; Block 3 0 [ILeaf 4] [2] [4];
   Block 4 0 [ILeaf 5] [2; 3] []].

Lemma ex_seq_into_4 x : edge ex_seq_g x 4 -> x = 2 \/ x = 3.
Proof.
  intros (b & Hb & Hin).
  do 5 (destruct x as [|x]; [simpl in Hb; injection Hb as <-; simpl in Hin; rewrite ?elem_of_cons, ?elem_of_nil in Hin; lia|]).
  done.
Qed.
Lemma ex_seq_into_3 x : edge ex_seq_g x 3 -> x = 2.
Proof.
  intros (b & Hb & Hin).
  do 5 (destruct x as [|x]; [simpl in Hb; injection Hb as <-; simpl in Hin; rewrite ?elem_of_cons, ?elem_of_nil in Hin; lia|]).
  done.
Qed.

Lemma meeting_variant_refuted :
  lift ex_seq_body = Ok ex_seq_g /\ can_split_meeting ex_seq_g 0 4 /\ is_join ex_seq_g 4 /\
  ~ on_dom_chain ex_seq_g 4 0 /\ ~ can_split ex_seq_g 0 4.
Proof.
  assert (Hl : lift ex_seq_body = Ok ex_seq_g) by (vm_compute; reflexivity).
  assert (Hj : is_join ex_seq_g 4) by (eexists; split; [reflexivity|simpl; lia]).
  assert (Hn : ~ on_dom_chain ex_seq_g 4 0).
  { intros (p & d & _ & _ & [_ Hcl] & Hd0).
    assert (d = 0) as ->.
    { specialize (Hd0 [] (path_nil ex_seq_g 0 ltac:(simpl; lia))). by apply elem_of_list_singleton in Hd0. }
    assert (Hs : sdominates ex_seq_g 2 4).
    { split; [|done]. intros l Hp.
      destruct (path_last_step _ _ _ _ Hp) as [[_ ?]|(l' & p' & -> & Hp' & He)]; [done|].
      apply ex_seq_into_4 in He as [-> | ->].
      - apply path_end_in in Hp'. rewrite app_comm_cons. apply elem_of_app. by left.
      - destruct (path_last_step _ _ _ _ Hp') as [[_ ?]|(l'' & q & -> & Hq & He)]; [done|].
        apply ex_seq_into_3 in He as ->. apply path_end_in in Hq.
        rewrite !app_comm_cons. apply elem_of_app. left. apply elem_of_app. by left. }
    specialize (Hcl 2 Hs [] (path_nil ex_seq_g 0 ltac:(simpl; lia))). apply elem_of_list_singleton in Hcl. lia. }
  split; [done|]. split; [|split; [done|split; [done|]]].
  - exists [1; 2], [2; 3]. split; [|split; [|split]].
    + split; [ex_path|]. split; ex_nin.
    + split; [ex_path|]. split; ex_nin.
    + unfold first_of. simpl. lia.
    + unfold last_of. simpl. lia.
  - intros Hcs. apply Hn. by apply (lifted_control_dependence ex_seq_body).
Qed.

(* if (c1) { if (c2) { x } else { y } } else { z } ; w  -  the inner `if` is the
   last statement of the outer branch: its branches are predecessors of the
   outer join (block 5), the inner branching block 1 splits it and lies on the
   dominator chain from block 2 up to block 0 *)
Definition ex_nest_body : sk :=
  SBlock [SIf 1 (SBlock [SIf 2 (SBlock [SLeaf 3 false]) (Some (SBlock [SLeaf 4 false]))])
              (Some (SBlock [SLeaf 5 false])); SLeaf 6 false].
Definition ex_nest_g : graph :=
  [Block 0 0 [IBranch 1 1 (Some 4)] [] [1; 4]; Block 1 0 [IBranch 2 2 (Some 3)] [0] [2; 3];
   Block 2 0 [ILeaf 3] [1] [5]; Block 3 0 [ILeaf 4] [1] [5]; Block 4 0 [ILeaf 5] [0] [5];
   Block 5 0 [ILeaf 6] [2; 3; 4] []].

Lemma nested_if_example :
  lift ex_nest_body = Ok ex_nest_g /\ can_split ex_nest_g 1 5 /\ is_join ex_nest_g 5 /\
  on_dom_chain ex_nest_g 5 1.
Proof.
  assert (Hl : lift ex_nest_body = Ok ex_nest_g) by (vm_compute; reflexivity).
  assert (Hj : is_join ex_nest_g 5) by (eexists; split; [reflexivity|simpl; lia]).
  assert (Hc : can_split ex_nest_g 1 5).
  { exists [2], [3]. split; [|split; [|split]].
    - split; [ex_path|]. split; ex_nin.
    - split; [ex_path|]. split; ex_nin.
    - intros x H1 H2. rewrite ?elem_of_cons, ?elem_of_nil in H1, H2. lia.
    - by left. }
  split; [done|]. split; [done|]. split; [done|]. by apply (lifted_control_dependence ex_nest_body).
Qed.
