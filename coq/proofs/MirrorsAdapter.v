(* C01: the two adapters of Model.PipelineMirrors are sound.

   * the pre-order numbers that [skel] gives to leaves and conditions are the
     positions of [table] ([keys_ok]); with C12_every_item_exactly_once (the items of
     the lifted graph are the keys of the skeleton) every item of the graph finds its
     lifted statement / condition, so [ir_of_lift] never takes its model-only failure
     branch ([ir_of_lift_total]);
   * the blocks of the resulting Model.Ir.cfg carry exactly the lifted table entries
     ([stmt_from]) and the predecessor / successor lists of the skeleton graph
     ([dom_of_ir_of_lift]), so what is assumed of the (unmirrored) IR lifting of a
     single statement transfers to the graph: unversioned, free of value claims,
     written locals declared. *)
From Coq Require Import ZArith NArith List Bool Lia.
Require Import Model.Ast Proofs.DesugarProofs.
Require Model.Base Model.PipelineMirrors Model.Lift Spec.CfgSpec Proofs.LiftProofs Proofs.LiftTheorems.
Require Model.Ir Model.Justify Model.Clean Model.Ssa Proofs.SsaNoPanic Proofs.SsaFuel Proofs.MirrorsDom Proofs.MirrorsShape.
Import ListNotations.
Local Open Scope list_scope.

Module PM := Model.PipelineMirrors.

(* ------------------------------------------------------------------------ *)
(* numbering                                                                 *)
(* ------------------------------------------------------------------------ *)
Lemma table_length : forall s, length (PM.table s) = PM.size s.
Proof.
  apply (statement_ind' (fun s => length (PM.table s) = PM.size s)); try (intros; reflexivity).
  - intros m c i e IHi IHe. cbn [PM.table PM.size length]. rewrite app_length, IHi.
    destruct e as [e'|]; [rewrite (IHe e' eq_refl); reflexivity|reflexivity].
  - intros m c b IHb. cbn [PM.table PM.size length]. rewrite IHb. reflexivity.
  - intros m t l IH. cbn [PM.table PM.size]. induction IH as [|x r Hx _ IHr]; simpl; [reflexivity|].
    rewrite app_length, Hx, IHr. reflexivity.
  - intros m l IH. cbn [PM.table PM.size]. induction IH as [|x r Hx _ IHr]; simpl; [reflexivity|].
    rewrite app_length, Hx, IHr. reflexivity.
Qed.

Definition key_ok (tbl : list PM.node) (n : nat) (k : CfgSpec.key) : Prop :=
  match k with
  | CfgSpec.KLeaf id => n <= id /\ exists st, nth_error tbl (id - n) = Some (PM.NStmt st)
  | CfgSpec.KCond c => n <= c /\ exists m e, nth_error tbl (c - n) = Some (PM.NCond m e)
  end.

Lemma nth_error_app_l {A} (l r : list A) i x : nth_error l i = Some x -> nth_error (l ++ r) i = Some x.
Proof. intros H. rewrite nth_error_app1; [exact H|]. apply nth_error_Some. congruence. Qed.

Lemma key_ok_app_l tbl rest n k : key_ok tbl n k -> key_ok (tbl ++ rest) n k.
Proof.
  destruct k; simpl.
  - intros [H (st & E)]. split; [exact H|]. exists st. apply nth_error_app_l. exact E.
  - intros [H (m & e & E)]. split; [exact H|]. exists m, e. apply nth_error_app_l. exact E.
Qed.

Lemma key_ok_app_r tbl rest n k : key_ok rest (n + length tbl) k -> key_ok (tbl ++ rest) n k.
Proof.
  destruct k as [id|c]; simpl.
  - intros [H (st & E)]. split; [lia|]. exists st. rewrite nth_error_app2 by lia.
    replace (id - n - length tbl) with (id - (n + length tbl)) by lia. exact E.
  - intros [H (m & e & E)]. split; [lia|]. exists m, e. rewrite nth_error_app2 by lia.
    replace (c - n - length tbl) with (c - (n + length tbl)) by lia. exact E.
Qed.

Lemma key_ok_cons nd tbl n k : key_ok tbl (S n) k -> key_ok (nd :: tbl) n k.
Proof. intros H. apply (key_ok_app_r [nd] tbl n k). simpl. replace (n + 1) with (S n) by lia. exact H. Qed.

Definition keys_prop (s : statement) : Prop :=
  forall n d k, In k (map fst (CfgSpec.nesting d (PM.skel s n))) -> key_ok (PM.table s) n k.

Lemma keys_list : forall l, Forall keys_prop l ->
  forall n d k, In k (map fst (LiftProofs.nestings d (MirrorsShape.skel_list l n))) ->
                key_ok (flat_map PM.table l) n k.
Proof.
  induction 1 as [|x r Hx _ IH]; intros n d k Hk; simpl in Hk; [contradiction|].
  rewrite map_app in Hk. apply in_app_or in Hk. simpl. destruct Hk as [Hk|Hk].
  - apply key_ok_app_l. exact (Hx n d k Hk).
  - apply key_ok_app_r. rewrite table_length. exact (IH _ d k Hk).
Qed.

Lemma keys_ok : forall s, keys_prop s.
Proof.
  assert (Leaf : forall s n (d : nat) k, In k (map fst [(CfgSpec.KLeaf n, d)]) -> key_ok [PM.NStmt s] n k).
  { intros s n d k [<-|[]]. simpl. split; [lia|]. exists s. rewrite Nat.sub_diag. reflexivity. }
  apply statement_ind'; unfold keys_prop.
  - (* IfThenElse *)
    intros m c i e IHi IHe n d k Hk. cbn [PM.skel PM.table CfgSpec.nesting] in *.
    simpl in Hk. destruct Hk as [<-|Hk].
    { simpl. split; [lia|]. exists m, c. rewrite Nat.sub_diag. reflexivity. }
    apply key_ok_cons. rewrite map_app in Hk. apply in_app_or in Hk. destruct Hk as [Hk|Hk].
    + apply key_ok_app_l. exact (IHi (S n) d k Hk).
    + destruct e as [e'|]; [|contradiction]. apply key_ok_app_r. rewrite table_length.
      exact (IHe e' eq_refl _ d k Hk).
  - (* While *)
    intros m c b IHb n d k Hk. cbn [PM.skel PM.table CfgSpec.nesting] in *.
    simpl in Hk. destruct Hk as [<-|Hk].
    { simpl. split; [lia|]. exists m, c. rewrite Nat.sub_diag. reflexivity. }
    apply key_ok_cons. exact (IHb (S n) (S d) k Hk).
  - intros m v n d k. apply Leaf.
  - (* InitializationBlock *)
    intros m t l IH n d k Hk. rewrite MirrorsShape.skel_init, LiftProofs.nesting_init in Hk.
    cbn [PM.table]. exact (keys_list l IH n d k Hk).
  - intros m t nm dims c n d k. apply Leaf.
  - intros m v a o r n d k. apply Leaf.
  - intros m l o r n d k. apply Leaf.
  - intros m l r n d k. apply Leaf.
  - intros m a n d k. apply Leaf.
  - (* Block *)
    intros m l IH n d k Hk. rewrite MirrorsShape.skel_block, LiftProofs.nesting_block in Hk.
    cbn [PM.table]. exact (keys_list l IH n d k Hk).
  - intros m a n d k. apply Leaf.
Qed.

(* ------------------------------------------------------------------------ *)
(* all_some                                                                  *)
(* ------------------------------------------------------------------------ *)
Lemma all_some_Forall2 {A B} (g : A -> option B) : forall l ys,
  PM.all_some (map g l) = Some ys -> Forall2 (fun x y => g x = Some y) l ys.
Proof.
  induction l as [|x l IH]; simpl; intros ys H.
  - inversion H. constructor.
  - destruct (g x) as [y|] eqn:E; [|discriminate].
    destruct (PM.all_some (map g l)) as [ys'|] eqn:E'; [|discriminate]. inversion H. subst.
    constructor; [exact E|]. apply IH. reflexivity.
Qed.

Lemma all_some_total {A B} (g : A -> option B) : forall l,
  (forall x, In x l -> exists y, g x = Some y) -> exists ys, PM.all_some (map g l) = Some ys.
Proof.
  induction l as [|x l IH]; simpl; intros H; [eauto|].
  destruct (H x (or_introl eq_refl)) as (y & ->).
  destruct IH as (ys & ->); [intros z Hz; apply H; right; exact Hz|]. eauto.
Qed.

Lemma Forall2_nth_l {A B} (R : A -> B -> Prop) l r i x :
  Forall2 R l r -> nth_error l i = Some x -> exists y, nth_error r i = Some y /\ R x y.
Proof.
  intros H. revert i. induction H as [|a b l r Hab _ IH]; intros [|i] Hi; simpl in *; try discriminate.
  - inversion Hi. subst. eauto.
  - apply IH. exact Hi.
Qed.

Lemma Forall2_In_r {A B} (R : A -> B -> Prop) l r y :
  Forall2 R l r -> In y r -> exists x, In x l /\ R x y.
Proof.
  induction 1 as [|a b l r Hab _ IH]; simpl; intros Hy; [contradiction|].
  destruct Hy as [<-|Hy]; [eauto|]. destruct (IH Hy) as (x & Hx & Hr). eauto.
Qed.

Lemma Forall2_length' {A B} (R : A -> B -> Prop) l r : Forall2 R l r -> length l = length r.
Proof. induction 1; simpl; congruence. Qed.

(* ------------------------------------------------------------------------ *)
(* ir_of_lift                                                                *)
(* ------------------------------------------------------------------------ *)
Section Adapter.
  Variable ir_stmt : statement -> option Ir.stmt.
  Variable ir_cond : meta -> expression -> option (Ir.meta * Ir.expr).

  Notation ir_node := (PM.ir_node ir_stmt ir_cond).

  Variable body : statement.
  Variable tbl : list PM.irnode.
  Hypothesis Htbl : PM.all_some (map ir_node (PM.table body)) = Some tbl.
  Variable g : list Lift.block.
  Hypothesis Hl : Lift.lift (PM.skel body 0) = Base.Ok g.
  Variable h : PM.definition_head.

  Lemma item_found b it : In b g -> In it (Lift.b_items b) -> exists s, PM.ir_item tbl it = Some s.
  Proof.
    intros Hb Hit.
    assert (Hk : In (CfgSpec.item_key it) (map fst (CfgSpec.nesting 0 (PM.skel body 0)))).
    { rewrite <- (LiftTheorems.every_item_exactly_once _ _ Hl). apply in_concat.
      exists (map CfgSpec.item_key (Lift.b_items b)). split.
      - apply in_map_iff. exists b. split; [reflexivity|exact Hb].
      - apply in_map. exact Hit. }
    pose proof (keys_ok body 0 0 _ Hk) as Hok.
    pose proof (all_some_Forall2 _ _ _ Htbl) as HF.
    destruct it as [id|c t f]; simpl in Hok |- *.
    - destruct Hok as [_ (st & E)]. rewrite Nat.sub_0_r in E.
      destruct (Forall2_nth_l _ _ _ _ _ HF E) as (y & Ey & Hy). rewrite Ey.
      simpl in Hy. destruct (ir_stmt st); [|discriminate]. inversion Hy. eauto.
    - destruct Hok as [_ (m & e & E)]. rewrite Nat.sub_0_r in E.
      destruct (Forall2_nth_l _ _ _ _ _ HF E) as (y & Ey & Hy). rewrite Ey.
      simpl in Hy. destruct (ir_cond m e); [|discriminate]. inversion Hy. eauto.
  Qed.

  Theorem ir_of_lift_total : exists c, PM.ir_of_lift h tbl g = Some c.
  Proof.
    unfold PM.ir_of_lift.
    destruct (all_some_total (PM.ir_block tbl) g) as (bs & ->); [|simpl; eauto].
    intros b Hb. unfold PM.ir_block.
    destruct (all_some_total (PM.ir_item tbl) (Lift.b_items b)) as (ss & ->); [|simpl; eauto].
    intros it Hit. exact (item_found b it Hb Hit).
  Qed.

  Variable c : Ir.cfg.
  Hypothesis Hc : PM.ir_of_lift h tbl g = Some c.

  Lemma ir_blocks : Forall2 (fun b b' => PM.ir_block tbl b = Some b') g (Ir.c_blocks c) /\
                    Ir.c_decls c = PM.h_decls h.
  Proof.
    unfold PM.ir_of_lift in Hc.
    destruct (PM.all_some (map (PM.ir_block tbl) g)) as [bs|] eqn:E; [|discriminate].
    simpl in Hc. inversion Hc. subst c. simpl. split; [apply all_some_Forall2; exact E|reflexivity].
  Qed.

  Lemma ir_length : length (Ir.c_blocks c) = length g.
  Proof. symmetry. exact (Forall2_length' _ _ _ (proj1 ir_blocks)). Qed.

  Lemma ir_block_inv b b' : PM.ir_block tbl b = Some b' ->
    Ir.b_preds b' = map N.of_nat (Lift.b_preds b) /\ Ir.b_succs b' = map N.of_nat (Lift.b_succs b) /\
    Forall2 (fun it s => PM.ir_item tbl it = Some s) (Lift.b_items b) (Ir.b_stmts b').
  Proof.
    unfold PM.ir_block. destruct (PM.all_some (map (PM.ir_item tbl) (Lift.b_items b))) as [ss|] eqn:E; [|discriminate].
    simpl. intros [= <-]. simpl. repeat split. apply all_some_Forall2. exact E.
  Qed.

  Lemma map_to_of_nat l : map N.to_nat (map N.of_nat l) = l.
  Proof. rewrite map_map. rewrite <- (map_id l) at 2. apply map_ext. apply Nat2N.id. Qed.

  Theorem dom_of_ir_of_lift : PM.dom_of_ir c = MirrorsDom.to_dom g.
  Proof.
    unfold PM.dom_of_ir, MirrorsDom.to_dom. destruct ir_blocks as [HF _].
    revert HF. generalize (Ir.c_blocks c). generalize g. clear.
    intros l0 l0' HF. induction HF as [|b b' l l' Hb _ IH]; simpl; [reflexivity|].
    destruct (ir_block_inv b b' Hb) as (-> & -> & _). rewrite !map_to_of_nat.
    f_equal. exact IH.
  Qed.

  (* the statements of the graph are the lifted table entries *)
  Definition stmt_from (s : Ir.stmt) : Prop :=
    In (PM.IStmt s) tbl \/ exists m e t f, s = Ir.SIf m e t f /\ In (PM.ICond m e) tbl.

  Lemma ir_item_from it s : PM.ir_item tbl it = Some s -> stmt_from s.
  Proof.
    destruct it as [id|cn t f]; simpl.
    - destruct (nth_error tbl id) as [[s'|m e]|] eqn:E; try discriminate. intros [= <-].
      left. eapply nth_error_In. exact E.
    - destruct (nth_error tbl cn) as [[s'|m e]|] eqn:E; try discriminate. intros [= <-].
      right. exists m, e, (N.of_nat t), (option_map N.of_nat f). split; [reflexivity|].
      eapply nth_error_In. exact E.
  Qed.

  Theorem ir_stmts_from b' s : In b' (Ir.c_blocks c) -> In s (Ir.b_stmts b') -> stmt_from s.
  Proof.
    intros Hb Hs. destruct (Forall2_In_r _ _ _ _ (proj1 ir_blocks) Hb) as (b & _ & Hbb).
    destruct (ir_block_inv b b' Hbb) as (_ & _ & HF).
    destruct (Forall2_In_r _ _ _ _ HF Hs) as (it & _ & Hit). exact (ir_item_from it s Hit).
  Qed.

  (* ---- what is assumed of the lifted entries transfers to the graph ---- *)
  Definition node_unv (nd : PM.irnode) : bool :=
    match nd with PM.IStmt s => SsaNoPanic.stmt_unv s | PM.ICond _ e => SsaNoPanic.expr_unv e end.
  Definition node_clean (nd : PM.irnode) : bool :=
    match nd with PM.IStmt s => Clean.clean_stmt s | PM.ICond _ e => Clean.clean_expr e end.
  Definition node_declared (nd : PM.irnode) : bool :=
    match nd with
    | PM.IStmt s => match Ssa.stmt_local_written s with
                    | Some v => existsb (Ir.vname_eqb v) (map fst (PM.h_decls h))
                    | None => true
                    end
    | PM.ICond _ _ => true
    end.

  Lemma from_prop (f : PM.irnode -> bool) (q : Ir.stmt -> bool) :
    (forall s, q s = f (PM.IStmt s)) -> (forall m e t fl, q (Ir.SIf m e t fl) = f (PM.ICond m e)) ->
    forallb f tbl = true -> forall s, stmt_from s -> q s = true.
  Proof.
    intros H1 H2 Hf s Hs. rewrite forallb_forall in Hf. destruct Hs as [Hs|(m & e & t & fl & -> & Hs)].
    - rewrite H1. apply Hf. exact Hs.
    - rewrite H2. apply Hf. exact Hs.
  Qed.

  Theorem ir_unversioned : forallb node_unv tbl = true -> SsaNoPanic.unversioned c.
  Proof.
    intros Hf i b Hb. unfold SsaNoPanic.block_unv. apply forallb_forall. intros s Hs.
    apply (from_prop node_unv SsaNoPanic.stmt_unv); try reflexivity; [exact Hf|].
    apply (ir_stmts_from b s); [eapply nth_error_In; exact Hb|exact Hs].
  Qed.

  Theorem ir_clean : forallb node_clean tbl = true -> Clean.clean_cfg c = true.
  Proof.
    intros Hf. unfold Clean.clean_cfg, Justify.all_stmts. apply forallb_forall. intros s Hs.
    apply in_flat_map in Hs. destruct Hs as (b & Hb & Hs).
    apply (from_prop node_clean Clean.clean_stmt); try reflexivity; [exact Hf|].
    exact (ir_stmts_from b s Hb Hs).
  Qed.

  Theorem ir_written_declared : forallb node_declared tbl = true -> SsaFuel.written_declared c = true.
  Proof.
    intros Hf. unfold SsaFuel.written_declared. apply forallb_forall. intros s Hs.
    apply in_flat_map in Hs. destruct Hs as (b & Hb & Hs). rewrite (proj2 ir_blocks).
    apply (from_prop node_declared
             (fun s => match Ssa.stmt_local_written s with
                       | Some v => existsb (Ir.vname_eqb v) (map fst (PM.h_decls h)) | None => true end));
      try reflexivity; [exact Hf|].
    exact (ir_stmts_from b s Hb Hs).
  Qed.
End Adapter.
