(* C14, SSA construction, part 3: the invariant of the dominator-tree walk
   [rename_tree].  A ghost log records, for every block already renamed, the
   environment in which its statements were renamed, the renamed statements (phi
   arguments stripped) and the environment at its end.  For ALL children tables
   whose pre-order holds no block twice:
     - an unvisited block is still its block after phi insertion, up to phi arguments;
     - a visited block is the recorded output, up to phi arguments;
     - for every visited block p and every successor s of p, every phi at the head
       of s lists the version that ran at the end of p (ensure_phi_arg);
     - a block is renamed in the scope opened on top of the environment at the end
       of its parent in the tree (push_scope / pop_scope discipline). *)
From Coq Require Import ZArith NArith List Bool Lia Arith.
Require Import Model.Base Model.Ir Model.SsaCheck Model.SsaErase Model.Ssa Model.SsaPre.
Require Import Proofs.IrInd Proofs.IrFacts Proofs.SsaNoPanic Proofs.SsaConstruction Proofs.SsaProofs Proofs.SsaRenameSem.
Import ListNotations.

(* ------------------------------------------------------------------------ *)
(* statements up to phi arguments                                            *)
(* ------------------------------------------------------------------------ *)
Definition strip (s : stmt) : stmt :=
  match s with SSubst m x op (EPhi _ k) sv st => SSubst m x op (EPhi [] k) sv st | _ => s end.

Lemma strip_not_phi s : is_phi_stmt s = false -> strip s = s.
Proof. destruct s as [| | |m v op rhe sv st| | |]; try reflexivity. destruct rhe; try reflexivity. discriminate. Qed.

Lemma is_phi_strip s : is_phi_stmt (strip s) = is_phi_stmt s.
Proof. destruct s as [| | |m v op rhe sv st| | |]; try reflexivity. destruct rhe; reflexivity. Qed.

Lemma stmt_def_strip s : stmt_def (strip s) = stmt_def s.
Proof. destruct s as [| | |m v op rhe sv st| | |]; try reflexivity. destruct rhe; reflexivity. Qed.

Lemma track_strip m s : track m (strip s) = track m s.
Proof. unfold track. rewrite stmt_def_strip. reflexivity. Qed.

Lemma strip_ensure env s : strip (ensure_phi_arg env s) = strip s.
Proof.
  destruct s as [| | |m v op rhe sv st| | |]; try reflexivity. destruct rhe; try reflexivity.
  unfold ensure_phi_arg. destruct (cur_version env v);
    match goal with |- context [if ?c then _ else _] => destruct c end; reflexivity.
Qed.

Lemma strip_update_phis env : forall ss, map strip (update_phis env ss) = map strip ss.
Proof.
  induction ss as [|s tl IH]; simpl; [reflexivity|]. destruct (is_phi_stmt s); [|reflexivity].
  simpl. rewrite strip_ensure, IH. reflexivity.
Qed.

Section Strip.
Variable decls : list (vname * vtype).

Lemma ssa_stmt_is_phi s env s' env' : ssa_stmt decls env s = SOk (s', env') -> is_phi_stmt s' = is_phi_stmt s.
Proof.
  intros H. destruct s as [m names t dims|m c t f|m e|m v op rhe sval stype|m l r|m args|m e]; cbn [ssa_stmt] in H.
  - sb2 H. inversion H. reflexivity.
  - sb2 H. inversion H. reflexivity.
  - sb2 H. inversion H. reflexivity.
  - destruct (vn_version v); [discriminate|]. sb2 H.
    destruct (is_local_in decls v); [destruct (next_version env0 v)|]; inversion H; subst;
      rewrite !is_phi_stmt_subst; eapply ssa_expr_is_phi; exact E.
  - sb2 H. sb2 H. inversion H. reflexivity.
  - sb2 H. inversion H. reflexivity.
  - sb2 H. inversion H. reflexivity.
Qed.

Lemma ssa_stmt_strip s env s' env' :
  ssa_stmt decls env s = SOk (s', env') -> ssa_stmt decls env (strip s) = SOk (strip s', env').
Proof.
  intros H. destruct (is_phi_stmt s) eqn:Ep.
  - destruct s as [| | |m v op rhe sv st| | |]; try discriminate Ep. destruct rhe; try discriminate Ep.
    cbn [strip ssa_stmt ssa_expr sbind] in *. destruct (vn_version v); [discriminate|].
    destruct (is_local_in decls v); [destruct (next_version env v)|]; inversion H; reflexivity.
  - pose proof (ssa_stmt_is_phi _ _ _ _ H) as Hp. rewrite Ep in Hp.
    rewrite (strip_not_phi s Ep), (strip_not_phi s' Hp). exact H.
Qed.

Lemma ssa_stmts_strip : forall ss env ss' env',
  ssa_stmts decls env ss = SOk (ss', env') -> ssa_stmts decls env (map strip ss) = SOk (map strip ss', env').
Proof.
  induction ss as [|s tl IH]; intros env ss' env' H; simpl in H.
  - inversion H. reflexivity.
  - sb2 H. sb2 H. inversion H; subst. cbn [map ssa_stmts].
    rewrite (ssa_stmt_strip _ _ _ _ E). cbn [sbind]. rewrite (IH _ _ _ E0). reflexivity.
Qed.

(* a renamed phi keeps its key and its arguments *)
Definition phi_kept (s s' : stmt) : Prop :=
  is_phi_stmt s' = is_phi_stmt s /\
  forall x' a', phi_parts s' = Some (x', a') -> exists x, phi_parts s = Some (x, a') /\ key_of x = key_of x'.

Lemma ssa_stmt_phi_kept s env s' env' : ssa_stmt decls env s = SOk (s', env') -> phi_kept s s'.
Proof.
  intros H. split; [eapply ssa_stmt_is_phi; exact H|]. intros x' a' Hp.
  assert (Hphi : is_phi_stmt s = true).
  { rewrite <- (ssa_stmt_is_phi _ _ _ _ H). destruct s' as [| | |m v op rhe sv st| | |]; try discriminate Hp.
    destruct rhe; try discriminate Hp. reflexivity. }
  destruct s as [| | |m v op rhe sv st| | |]; try discriminate Hphi. destruct rhe; try discriminate Hphi.
  cbn [ssa_stmt ssa_expr sbind] in H. destruct (vn_version v); [discriminate|].
  destruct (is_local_in decls v); [destruct (next_version env v)|]; inversion H; subst; cbn in Hp; inversion Hp; subst;
    eexists; split; reflexivity.
Qed.

Lemma ssa_stmts_forall2 (R : stmt -> stmt -> Prop) :
  (forall env s s' env', ssa_stmt decls env s = SOk (s', env') -> R s s') ->
  forall ss env ss' env', ssa_stmts decls env ss = SOk (ss', env') -> Forall2 R ss ss'.
Proof.
  intros HR. induction ss as [|s tl IH]; intros env ss' env' H; simpl in H.
  - inversion H. constructor.
  - sb2 H. sb2 H. inversion H; subst. constructor; [eapply HR; exact E|eapply IH; exact E0].
Qed.

(* the scope stack below the innermost scope is not touched *)
Definition tail_kept (e e' : senv) : Prop :=
  se_scoped e <> [] -> se_scoped e' <> [] /\ tl (se_scoped e') = tl (se_scoped e).

Lemma ssa_stmts_tail ss env ss' env' : ssa_stmts decls env ss = SOk (ss', env') -> tail_kept env env'.
Proof.
  apply (ssa_stmts_rel decls tail_kept); unfold tail_kept.
  - intros e H. auto.
  - intros a b c H1 H2 Ha. destruct (H1 Ha) as [Hb E1]. destruct (H2 Hb) as [Hc E2]. split; [exact Hc|congruence].
  - intros e v He. unfold next_version. cbn [snd se_scoped]. destruct (se_scoped e); [congruence|]. split; [discriminate|reflexivity].
Qed.
End Strip.

(* ------------------------------------------------------------------------ *)
(* the phis at the head of a block                                           *)
(* ------------------------------------------------------------------------ *)
Definition phis_of (b : block) : list stmt := fst (leading_phis (b_stmts b)).

Lemma leading_phis_forall2 (R : stmt -> stmt -> Prop) :
  (forall s s', R s s' -> is_phi_stmt s' = is_phi_stmt s) ->
  forall ss ss', Forall2 R ss ss' -> Forall2 R (fst (leading_phis ss)) (fst (leading_phis ss')).
Proof.
  intros HR ss ss' H. induction H as [|s s' tl tl' Hs Ht IH]; simpl; [constructor|].
  rewrite (HR _ _ Hs). destruct (is_phi_stmt s); [|constructor].
  destruct (leading_phis tl), (leading_phis tl'). simpl in *. constructor; assumption.
Qed.

Lemma forall2_in_r {A B} (R : A -> B -> Prop) : forall l l' y, Forall2 R l l' -> In y l' -> exists x, In x l /\ R x y.
Proof.
  intros l l' y H. induction H as [|a b t t' Hab Ht IH]; intros Hy; [destruct Hy|].
  destruct Hy as [<-|Hy]; [exists a; split; [left; reflexivity|exact Hab]|].
  destruct (IH Hy) as (x & Hx & Hr). exists x. split; [right; exact Hx|exact Hr].
Qed.

Lemma leading_phis_update env : forall ss,
  leading_phis (update_phis env ss) = (map (ensure_phi_arg env) (fst (leading_phis ss)), snd (leading_phis ss)).
Proof.
  induction ss as [|s tl IH]; simpl; [reflexivity|]. destruct (is_phi_stmt s) eqn:Ep.
  - simpl. rewrite ensure_phi_arg_phi, Ep, IH. destruct (leading_phis tl). reflexivity.
  - simpl. rewrite Ep. reflexivity.
Qed.

(* the arguments of a phi name the variable of the phi *)
Definition args_keyed (b : block) : Prop :=
  forall p x args a, In p (phis_of b) -> phi_parts p = Some (x, args) -> In a args -> key_of a = key_of x.

(* every phi of b' is a phi of b with possibly more arguments *)
Definition phis_ge (b b' : block) : Prop :=
  forall p' x' args', In p' (phis_of b') -> phi_parts p' = Some (x', args') ->
    exists p x args, In p (phis_of b) /\ phi_parts p = Some (x, args) /\ key_of x = key_of x' /\ incl args args'.

(* every phi of the block lists the version that runs in [env] *)
Definition okenv (env : senv) (b : block) : Prop :=
  forall p x args, In p (phis_of b) -> phi_parts p = Some (x, args) -> phi_arg_ok (cur_version env x) x args = true.

Lemma phi_arg_ok_mono o x x' args args' :
  phi_arg_ok o x args = true -> key_of x = key_of x' -> incl args args' -> phi_arg_ok o x' args' = true.
Proof.
  unfold phi_arg_ok. destruct o as [n|]; [|reflexivity]. intros H Hk Hi. apply existsb_exists in H.
  destruct H as (a & Ha & Hok). apply existsb_exists. exists a. split; [apply Hi; exact Ha|]. rewrite <- Hk. exact Hok.
Qed.

Lemma okenv_ge env b b' : okenv env b -> phis_ge b b' -> okenv env b'.
Proof.
  intros Ho Hg p' x' args' Hp' Hpp. destruct (Hg _ _ _ Hp' Hpp) as (p & x & args & Hp & Hpa & Hk & Hi).
  assert (E : cur_version env x' = cur_version env x) by (unfold cur_version; rewrite Hk; reflexivity).
  rewrite E. eapply phi_arg_ok_mono; [eapply Ho; eassumption|exact Hk|exact Hi].
Qed.

Lemma phis_ge_refl b : phis_ge b b.
Proof. intros p x args Hp Hpp. exists p, x, args. repeat split; auto. apply incl_refl. Qed.

Lemma phis_ge_trans a b c : phis_ge a b -> phis_ge b c -> phis_ge a c.
Proof.
  intros H1 H2 p x args Hp Hpp. destruct (H2 _ _ _ Hp Hpp) as (p1 & x1 & a1 & Hp1 & Hpp1 & K1 & I1).
  destruct (H1 _ _ _ Hp1 Hpp1) as (p0 & x0 & a0 & Hp0 & Hpp0 & K0 & I0).
  exists p0, x0, a0. repeat split; auto; [congruence|]. eapply incl_tran; eassumption.
Qed.

(* ---- ensure_phi_arg ---- *)
Lemma ensure_phi_parts env p x args : phi_parts p = Some (x, args) ->
  exists args', phi_parts (ensure_phi_arg env p) = Some (x, args') /\ incl args args' /\
    ((forall a, In a args -> key_of a = key_of x) ->
     (forall a, In a args' -> key_of a = key_of x) /\ phi_arg_ok (cur_version env x) x args' = true).
Proof.
  intros Hp. destruct p as [| | |m v op rhe sv st| | |]; try discriminate Hp. destruct rhe; try discriminate Hp.
  cbn in Hp. inversion Hp; subst v args0. unfold ensure_phi_arg.
  destruct (cur_version env x) as [n|] eqn:Ec.
  - destruct (existsb (fun a => opt_eqb N.eqb (vn_version a) (Some n)) args) eqn:Ex.
    + exists args. split; [reflexivity|]. split; [apply incl_refl|]. intros Hk. split; [exact Hk|].
      cbn [phi_arg_ok]. apply existsb_exists in Ex. destruct Ex as (a & Ha & Hv). apply existsb_exists. exists a.
      split; [exact Ha|]. rewrite (Hk a Ha), key_eqb_refl, Hv. reflexivity.
    + exists (args ++ [with_version x n]). split; [reflexivity|]. split; [apply incl_appl; apply incl_refl|].
      intros Hk. split.
      * intros a Ha. apply in_app_or in Ha. destruct Ha as [Ha|[<-|[]]]; [apply Hk; exact Ha|reflexivity].
      * cbn [phi_arg_ok]. apply existsb_exists. exists (with_version x n). split; [apply in_or_app; right; left; reflexivity|].
        change (key_of (with_version x n)) with (key_of x). rewrite key_eqb_refl. cbn. apply N.eqb_refl.
  - destruct (existsb (vname_eqb (without_version x)) args).
    + exists args. split; [reflexivity|]. split; [apply incl_refl|]. intros Hk. split; [exact Hk|reflexivity].
    + exists (args ++ [without_version x]). split; [reflexivity|]. split; [apply incl_appl; apply incl_refl|].
      intros Hk. split; [|reflexivity].
      intros a Ha. apply in_app_or in Ha. destruct Ha as [Ha|[<-|[]]]; [apply Hk; exact Ha|reflexivity].
Qed.

Definition upd_block (env : senv) (b : block) : block := set_stmts b (update_phis env (b_stmts b)).

Lemma phis_of_upd env b : phis_of (upd_block env b) = map (ensure_phi_arg env) (phis_of b).
Proof. unfold phis_of, upd_block. cbn [set_stmts b_stmts]. rewrite leading_phis_update. reflexivity. Qed.

(* what every later step does to a block *)
Definition bstep (b b' : block) : Prop :=
  b_succs b' = b_succs b /\ phis_ge b b' /\ (args_keyed b -> args_keyed b').
Definition ustep (b b' : block) : Prop := bstep b b' /\ map strip (b_stmts b') = map strip (b_stmts b).

Lemma bstep_refl b : bstep b b.
Proof. split; [reflexivity|]. split; [apply phis_ge_refl|auto]. Qed.
Lemma bstep_trans a b c : bstep a b -> bstep b c -> bstep a c.
Proof.
  intros (S1 & G1 & K1) (S2 & G2 & K2). split; [congruence|]. split; [eapply phis_ge_trans; eassumption|auto].
Qed.
Lemma ustep_refl b : ustep b b.
Proof. split; [apply bstep_refl|reflexivity]. Qed.
Lemma ustep_trans a b c : ustep a b -> ustep b c -> ustep a c.
Proof. intros [B1 S1] [B2 S2]. split; [eapply bstep_trans; eassumption|congruence]. Qed.

Lemma upd_block_ustep env b : ustep b (upd_block env b).
Proof.
  split; [split; [reflexivity|split]|].
  - intros p' x' args' Hp' Hpp. rewrite phis_of_upd in Hp'. apply in_map_iff in Hp'. destruct Hp' as (p & <- & Hp).
    assert (Hphi : exists x args, phi_parts p = Some (x, args)).
    { destruct p as [| | |m v op rhe sv st| | |]; try discriminate Hpp. destruct rhe; try discriminate Hpp. cbn. eauto. }
    destruct Hphi as (x & args & Hx). destruct (ensure_phi_parts env p x args Hx) as (a2 & H2 & Hi & _).
    rewrite H2 in Hpp. inversion Hpp; subst. exists p, x', args. auto.
  - intros Hk p' x' args' a Hp' Hpp Ha. rewrite phis_of_upd in Hp'. apply in_map_iff in Hp'. destruct Hp' as (p & <- & Hp).
    assert (Hphi : exists x args, phi_parts p = Some (x, args)).
    { destruct p as [| | |m v op rhe sv st| | |]; try discriminate Hpp. destruct rhe; try discriminate Hpp. cbn. eauto. }
    destruct Hphi as (x & args & Hx). destruct (ensure_phi_parts env p x args Hx) as (a2 & H2 & _ & Hok).
    rewrite H2 in Hpp. inversion Hpp; subst. apply (proj1 (Hok (fun a0 Ha0 => Hk p x' args a0 Hp Hx Ha0))). exact Ha.
  - unfold upd_block. cbn [set_stmts b_stmts]. apply strip_update_phis.
Qed.

Lemma upd_block_okenv env b : args_keyed b -> okenv env (upd_block env b).
Proof.
  intros Hk p' x' args' Hp' Hpp. rewrite phis_of_upd in Hp'. apply in_map_iff in Hp'. destruct Hp' as (p & <- & Hp).
  assert (Hphi : exists x args, phi_parts p = Some (x, args)).
  { destruct p as [| | |m v op rhe sv st| | |]; try discriminate Hpp. destruct rhe; try discriminate Hpp. cbn. eauto. }
  destruct Hphi as (x & args & Hx). destruct (ensure_phi_parts env p x args Hx) as (a2 & H2 & _ & Hok).
  rewrite H2 in Hpp. inversion Hpp; subst. apply (Hok (fun a0 Ha0 => Hk p x' args a0 Hp Hx Ha0)).
Qed.

(* ---- block lists ---- *)
Definition lstep (R : block -> block -> Prop) (bs bs' : list block) : Prop :=
  length bs' = length bs /\ forall i b', nth_error bs' i = Some b' -> exists b, nth_error bs i = Some b /\ R b b'.

Lemma lstep_refl (R : block -> block -> Prop) bs : (forall b, R b b) -> lstep R bs bs.
Proof. intros HR. split; [reflexivity|]. intros i b' H. exists b'. auto. Qed.

Lemma lstep_trans (R : block -> block -> Prop) a b c : (forall x y z, R x y -> R y z -> R x z) -> lstep R a b -> lstep R b c -> lstep R a c.
Proof.
  intros HR [L1 H1] [L2 H2]. split; [congruence|]. intros i z Hz. destruct (H2 _ _ Hz) as (y & Hy & Ryz).
  destruct (H1 _ _ Hy) as (x & Hx & Rxy). exists x. split; [exact Hx|eapply HR; eassumption].
Qed.

Lemma lstep_update_nth (R : block -> block -> Prop) bs i f : (forall b, R b b) -> (forall b, nth_error bs i = Some b -> R b (f b)) ->
  lstep R bs (update_nth bs i f).
Proof.
  intros Hrefl Hf. split; [apply update_nth_length|]. intros j b' Hb'.
  destruct (Nat.eq_dec i j) as [->|Hne].
  - destruct (nth_error bs j) as [b|] eqn:E.
    + rewrite (update_nth_same f bs j b E) in Hb'. inversion Hb'; subst. exists b. auto.
    + exfalso. apply nth_error_None in E.
      assert (j < length (update_nth bs j f)) by (apply nth_error_Some; congruence). rewrite update_nth_length in H. lia.
  - rewrite update_nth_other in Hb' by exact Hne. exists b'. auto.
Qed.

Lemma usp_ustep env : forall succs bs, lstep ustep bs (update_succ_phis env succs bs).
Proof.
  induction succs as [|s tl IH]; intros bs; simpl; [apply lstep_refl; apply ustep_refl|].
  eapply lstep_trans; [apply ustep_trans| |apply IH].
  apply lstep_update_nth; [apply ustep_refl|]. intros b _. apply upd_block_ustep.
Qed.

Lemma usp_okenv env : forall succs bs,
  (forall i b, nth_error bs i = Some b -> args_keyed b) ->
  forall s b', In s succs -> nth_error (update_succ_phis env succs bs) (N.to_nat s) = Some b' -> okenv env b'.
Proof.
  induction succs as [|s0 tl IH]; intros bs Hk s b' Hs Hb'; [destruct Hs|]. simpl in Hb'.
  set (bs1 := update_nth bs (N.to_nat s0) (upd_block env)) in *.
  assert (Hk1 : forall i b, nth_error bs1 i = Some b -> args_keyed b).
  { intros i b Hb. destruct (lstep_update_nth ustep bs (N.to_nat s0) (upd_block env) ustep_refl
                              (fun b0 _ => upd_block_ustep env b0)) as [_ H1].
    destruct (H1 _ _ Hb) as (b0 & Hb0 & ((_ & _ & K) & _)). apply K. eapply Hk. exact Hb0. }
  destruct Hs as [->|Hs]; [|eapply IH; eassumption].
  destruct (usp_ustep env tl bs1) as [_ H2]. destruct (H2 _ _ Hb') as (bm & Hbm & ((_ & G & _) & _)).
  eapply okenv_ge; [|exact G].
  destruct (nth_error bs (N.to_nat s)) as [b|] eqn:E.
  - unfold bs1 in Hbm. rewrite (update_nth_same (upd_block env) bs _ b E) in Hbm. inversion Hbm; subst bm.
    apply upd_block_okenv. eapply Hk. exact E.
  - exfalso. apply nth_error_None in E. assert (N.to_nat s < length bs1) by (apply nth_error_Some; congruence).
    unfold bs1 in H. rewrite update_nth_length in H. lia.
Qed.

(* ------------------------------------------------------------------------ *)
(* the log and the invariant                                                 *)
(* ------------------------------------------------------------------------ *)
Record lentry := { le_idx : nat; le_in : senv; le_ss : list stmt; le_out : senv }.

Section Walk.
Variable decls : list (vname * vtype).
Variable children : list (list N).
Variable bs1 : list block.      (* the blocks after phi insertion *)

Definition parent_of (pe e : lentry) : Prop :=
  In (le_idx e) (kids children (le_idx pe)) /\ se_scoped (le_in e) = [] :: se_scoped (le_out pe).

(* ancestry among the entries of a log L *)
Inductive eanc (L : list lentry) (a : lentry) : lentry -> Prop :=
| eanc_refl : In a L -> eanc L a a
| eanc_step b c : eanc L a b -> In c L -> parent_of b c -> eanc L a c.

Lemma eanc_in_l L a b : eanc L a b -> In a L.
Proof. induction 1; assumption. Qed.
Lemma eanc_in_r L a b : eanc L a b -> In b L.
Proof. induction 1; assumption. Qed.

Lemma eanc_incl L L' a b : incl L L' -> eanc L a b -> eanc L' a b.
Proof.
  intros Hi H. induction H as [He|y z Hxy IH Hz Hyz].
  - apply eanc_refl. apply Hi. exact He.
  - eapply eanc_step; [exact IH|apply Hi; exact Hz|exact Hyz].
Qed.

Lemma eanc_cons L a b c : In a L -> parent_of a b -> eanc L b c -> eanc L a c.
Proof.
  intros Ha Hab Hbc. induction Hbc as [He|y z Hxy IH Hz Hyz].
  - eapply eanc_step; [apply eanc_refl; exact Ha|exact He|exact Hab].
  - eapply eanc_step; [exact IH|exact Hz|exact Hyz].
Qed.

Lemma eanc_trans L a b c : eanc L a b -> eanc L b c -> eanc L a c.
Proof.
  intros Hab Hbc. induction Hbc as [He|y z Hxy IH Hz Hyz]; [exact Hab|].
  eapply eanc_step; [exact IH|exact Hz|exact Hyz].
Qed.

Record inv2 (bs : list block) (log : list lentry) : Prop := {
  i_len : length bs = length bs1;
  i_succs : forall i b b1, nth_error bs i = Some b -> nth_error bs1 i = Some b1 -> b_succs b = b_succs b1;
  i_keyed : forall i b, nth_error bs i = Some b -> args_keyed b;
  i_run : forall e, In e log -> exists b1, nth_error bs1 (le_idx e) = Some b1 /\
            ssa_stmts decls (le_in e) (b_stmts b1) = SOk (le_ss e, le_out e) /\ se_scoped (le_in e) <> [];
  i_done : forall e, In e log -> exists b, nth_error bs (le_idx e) = Some b /\ map strip (b_stmts b) = le_ss e;
  i_todo : forall i b, ~ In i (map le_idx log) -> nth_error bs i = Some b ->
            exists b1, nth_error bs1 i = Some b1 /\ map strip (b_stmts b) = b_stmts b1;
  i_args : forall e s b1 bsucc, In e log -> nth_error bs1 (le_idx e) = Some b1 -> In s (b_succs b1) ->
            nth_error bs (N.to_nat s) = Some bsucc -> okenv (le_out e) bsucc
}.

(* phi-argument updates keep the invariant *)
Lemma inv2_ustep bs bs' log : inv2 bs log -> lstep ustep bs bs' -> inv2 bs' log.
Proof.
  intros [I1 I2 I3 I4 I5 I6 I7] [L H]. constructor.
  - congruence.
  - intros i b' b1 Hb' Hb1. destruct (H _ _ Hb') as (b & Hb & ((S & _) & _)). rewrite S. eapply I2; eassumption.
  - intros i b' Hb'. destruct (H _ _ Hb') as (b & Hb & ((_ & _ & K) & _)). apply K. eapply I3. exact Hb.
  - exact I4.
  - intros e He. destruct (I5 e He) as (b & Hb & Hs).
    destruct (nth_error bs' (le_idx e)) as [b'|] eqn:E.
    + destruct (H _ _ E) as (b0 & Hb0 & (_ & St)). rewrite Hb in Hb0. inversion Hb0; subst b0.
      exists b'. split; [reflexivity|congruence].
    + exfalso. apply nth_error_None in E. assert (le_idx e < length bs) by (apply nth_error_Some; congruence). lia.
  - intros i b' Hi Hb'. destruct (H _ _ Hb') as (b & Hb & (_ & St)). destruct (I6 i b Hi Hb) as (b1 & Hb1 & Hs).
    exists b1. split; [exact Hb1|congruence].
  - intros e s b1 bsucc' He Hb1 Hs Hbs'. destruct (H _ _ Hbs') as (bsucc & Hbs & ((_ & G & _) & _)).
    eapply okenv_ge; [eapply I7; eassumption|exact G].
Qed.

(* the end of a renamed block below the innermost scope is its beginning *)
Lemma run_tail e b1 : ssa_stmts decls (le_in e) (b_stmts b1) = SOk (le_ss e, le_out e) -> se_scoped (le_in e) <> [] ->
  se_scoped (le_out e) <> [] /\ tl (se_scoped (le_out e)) = tl (se_scoped (le_in e)).
Proof. intros H Hne. exact (ssa_stmts_tail decls _ _ _ _ H Hne). Qed.

Lemma rename_tree_inv : forall fuel cur bs env bs' env' log,
  rename_tree fuel decls children cur bs env = SOk (bs', env') ->
  inv2 bs log -> (forall i, In i (preorder fuel children cur) -> ~ In i (map le_idx log)) ->
  NoDup (preorder fuel children cur) -> se_scoped env <> [] ->
  exists ecur new,
    inv2 bs' (log ++ ecur :: new) /\ map le_idx (ecur :: new) = preorder fuel children cur /\
    le_idx ecur = cur /\ le_in ecur = env /\ se_scoped env' = se_scoped (le_out ecur) /\
    (forall e, In e (ecur :: new) -> eanc (ecur :: new) ecur e).
Proof.
  induction fuel as [|fuel IH]; intros cur bs env bs' env' log H Hi Hfresh Hnd Hne; [discriminate H|].
  rewrite rename_tree_unfold in H.
  destruct (nth_error bs cur) as [b|] eqn:Eb; [|discriminate].
  sb2 H. rename x into ss1. rename env0 into env1.
  cbn [preorder] in Hfresh, Hnd.
  assert (Hcur : ~ In cur (map le_idx log)) by (apply Hfresh; left; reflexivity).
  destruct (i_todo _ _ Hi cur b Hcur Eb) as (b1 & Hb1 & Hstrip).
  pose proof (ssa_stmts_strip decls _ _ _ _ E) as Erun. rewrite Hstrip in Erun.
  set (ecur := {| le_idx := cur; le_in := env; le_ss := map strip ss1; le_out := env1 |}).
  set (bsA := update_nth bs cur (fun b0 => set_stmts b0 ss1)) in *.
  set (bsB := update_succ_phis env1 (b_succs b) bsA) in *.
  destruct (ssa_stmts_tail decls _ _ _ _ E Hne) as [Hne1 Htl1].
  (* the renamed block keeps its phis (key and arguments) *)
  assert (Hkept : Forall2 phi_kept (phis_of b) (fst (leading_phis ss1))).
  { unfold phis_of. apply leading_phis_forall2; [intros s s' [Hp _]; exact Hp|].
    eapply ssa_stmts_forall2; [|exact E]. intros. eapply ssa_stmt_phi_kept. eassumption. }
  assert (HbA : bstep b (set_stmts b ss1)).
  { split; [reflexivity|]. split.
    - intros p' x' args' Hp' Hpp. unfold phis_of in Hp'. cbn [set_stmts b_stmts] in Hp'.
      destruct (forall2_in_r _ _ _ _ Hkept Hp') as (p & Hp & (_ & Hk)). destruct (Hk _ _ Hpp) as (x & Hx & Hkx).
      exists p, x, args'. repeat split; auto. apply incl_refl.
    - intros Hk p' x' args' a Hp' Hpp Ha. unfold phis_of in Hp'. cbn [set_stmts b_stmts] in Hp'.
      destruct (forall2_in_r _ _ _ _ Hkept Hp') as (p & Hp & (_ & Hkk)). destruct (Hkk _ _ Hpp) as (x & Hx & Hkx).
      rewrite <- Hkx. eapply Hk; eassumption. }
  assert (HA : lstep bstep bs bsA).
  { apply lstep_update_nth; [apply bstep_refl|]. intros b0 Hb0. rewrite Eb in Hb0. inversion Hb0; subst b0. exact HbA. }
  assert (HAcur : nth_error bsA cur = Some (set_stmts b ss1))
    by exact (update_nth_same (fun b0 => set_stmts b0 ss1) bs cur b Eb).
  assert (HAoth : forall i, i <> cur -> nth_error bsA i = nth_error bs i).
  { intros i Hne0. apply update_nth_other. congruence. }
  (* the invariant after the block itself and after the arguments are pushed into the successors *)
  pose proof (usp_ustep env1 (b_succs b) bsA) as HU. fold bsB in HU.
  assert (HkA : forall i bA, nth_error bsA i = Some bA -> args_keyed bA).
  { intros i bA HbA'. destruct HA as [_ HA]. destruct (HA _ _ HbA') as (b0 & Hb0 & (_ & _ & K)). apply K.
    eapply (i_keyed _ _ Hi). exact Hb0. }
  assert (HAB : forall i bB, nth_error bsB i = Some bB ->
                exists bA b0, nth_error bsA i = Some bA /\ nth_error bs i = Some b0 /\ bstep b0 bB /\
                              map strip (b_stmts bB) = map strip (b_stmts bA)).
  { intros i bB HbB. destruct HU as [_ HU]. destruct (HU _ _ HbB) as (bA & HbA' & (B2 & St)).
    destruct HA as [_ HA]. destruct (HA _ _ HbA') as (b0 & Hb0 & B1). exists bA, b0.
    split; [exact HbA'|]. split; [exact Hb0|]. split; [eapply bstep_trans; eassumption|exact St]. }
  assert (LB : length bsB = length bs) by (destruct HU as [LU _]; destruct HA as [LA _]; congruence).
  assert (IB : inv2 bsB (log ++ [ecur])).
  { destruct Hi as [I1 I2 I3 I4 I5 I6 I7]. constructor.
    - congruence.
    - intros i bB b1' HbB Hb1'. destruct (HAB _ _ HbB) as (bA & b0 & _ & Hb0 & (S & _) & _). rewrite S. eapply I2; eassumption.
    - intros i bB HbB. destruct (HAB _ _ HbB) as (bA & b0 & _ & Hb0 & (_ & _ & K) & _). apply K. eapply I3. exact Hb0.
    - intros e He. apply in_app_or in He. destruct He as [He|[<-|[]]]; [apply I4; exact He|].
      exists b1. cbn [ecur le_idx le_in le_ss le_out]. auto.
    - intros e He.
      assert (Hlt : le_idx e < length bsB).
      { rewrite LB. apply in_app_or in He. destruct He as [He|[<-|[]]].
        - destruct (I5 e He) as (b0 & Hb0 & _). apply nth_error_Some. congruence.
        - cbn [ecur le_idx]. apply nth_error_Some. congruence. }
      destruct (nth_error bsB (le_idx e)) as [bB|] eqn:EB; [|apply nth_error_None in EB; lia].
      exists bB. split; [reflexivity|]. destruct (HAB _ _ EB) as (bA & b0 & HbA' & Hb0 & _ & St). rewrite St.
      apply in_app_or in He. destruct He as [He|[<-|[]]].
      + destruct (I5 e He) as (b0' & Hb0' & Hs). rewrite Hb0 in Hb0'. inversion Hb0'; subst b0'.
        rewrite HAoth in HbA'; [|intros Heq; apply Hcur; rewrite <- Heq; apply in_map; exact He].
        rewrite Hb0 in HbA'. inversion HbA'; subst bA. exact Hs.
      + cbn [ecur le_idx le_ss] in *. rewrite HAcur in HbA'. inversion HbA'; subst bA. reflexivity.
    - intros i bB Hi0 HbB. rewrite map_app in Hi0.
      assert (Hi1 : ~ In i (map le_idx log)) by (intros Hin; apply Hi0; apply in_or_app; left; exact Hin).
      assert (Hi2 : i <> cur) by (intros ->; apply Hi0; apply in_or_app; right; left; reflexivity).
      destruct (HAB _ _ HbB) as (bA & b0 & HbA' & Hb0 & _ & St). rewrite HAoth in HbA' by exact Hi2.
      rewrite Hb0 in HbA'. inversion HbA'; subst bA. destruct (I6 i b0 Hi1 Hb0) as (b1' & Hb1' & Hs).
      exists b1'. split; [exact Hb1'|congruence].
    - intros e s b1' bsucc He Hb1' Hs Hbs. apply in_app_or in He. destruct He as [He|[<-|[]]].
      + destruct (HAB _ _ Hbs) as (bA & b0 & _ & Hb0 & (_ & G & _) & _).
        eapply okenv_ge; [eapply I7; eassumption|exact G].
      + cbn [ecur le_idx le_out] in *. rewrite Hb1 in Hb1'. inversion Hb1'; subst b1'.
        assert (Hsb : b_succs b = b_succs b1) by (eapply I2; eassumption).
        eapply (usp_okenv env1 (b_succs b) bsA); [exact HkA|rewrite Hsb; exact Hs|exact Hbs]. }
  (* the children *)
  assert (K : forall kidl l e l' e' logk,
             rename_kids fuel decls children kidl l e = SOk (l', e') -> inv2 l logk -> In ecur logk ->
             se_scoped e = se_scoped env1 ->
             (forall k, In k kidl -> In (N.to_nat k) (kids children cur)) ->
             (forall i, In i (flat_map (fun k => preorder fuel children (N.to_nat k)) kidl) -> ~ In i (map le_idx logk)) ->
             NoDup (flat_map (fun k => preorder fuel children (N.to_nat k)) kidl) ->
             exists newk, inv2 l' (logk ++ newk) /\
               map le_idx newk = flat_map (fun k => preorder fuel children (N.to_nat k)) kidl /\
               se_scoped e' = se_scoped e /\ (forall x, In x newk -> eanc (ecur :: newk) ecur x)).
  { induction kidl as [|k ktl IHk]; intros l e l' e' logk Hk Hl Hec Hsc Hkids Hfr Hndk; simpl in Hk.
    - inversion Hk; subst. exists []. rewrite app_nil_r.
      split; [exact Hl|]. split; [reflexivity|]. split; [reflexivity|]. intros x [].
    - sb2 Hk. rename x into la. rename env0 into ea. cbn [flat_map] in Hfr, Hndk.
      assert (Hnea : se_scoped (push_scope e) <> []) by (unfold push_scope; cbn; discriminate).
      destruct (IH _ _ _ _ _ logk E0 Hl) as (ek & newk1 & Ia & Hidx & Hik & Hin & Hsa & Hanc); auto.
      { intros i Hi0. apply Hfr. apply in_or_app. left. exact Hi0. }
      { eapply NoDup_app_l. exact Hndk. }
      (* the child is renamed in a fresh scope on top of the end of [cur] *)
      assert (Hpar : parent_of ecur ek).
      { split; [rewrite Hik; cbn [ecur le_idx]; apply Hkids; left; reflexivity|].
        rewrite Hin. cbn [push_scope se_scoped ecur le_out]. rewrite Hsc. reflexivity. }
      destruct (i_run _ _ Ia ek) as (bk1 & _ & Hrunk & Hnek); [apply in_or_app; right; left; reflexivity|].
      destruct (run_tail ek bk1 Hrunk Hnek) as [Hneo Htlo].
      assert (Hpop : se_scoped (pop_scope ea) = se_scoped e).
      { unfold pop_scope. cbn [se_scoped]. rewrite Hsa. rewrite Hin in Htlo. cbn [push_scope se_scoped tl] in Htlo.
        destruct (se_scoped (le_out ek)); [congruence|]. exact Htlo. }
      destruct (IHk la (pop_scope ea) l' e' (logk ++ ek :: newk1) Hk Ia) as (newk2 & Ib & Hidx2 & Hsc2 & Hanc2).
      + apply in_or_app. left. exact Hec.
      + rewrite Hpop. exact Hsc.
      + intros k0 Hk0. apply Hkids. right. exact Hk0.
      + intros i Hi0 Hin0. rewrite map_app in Hin0. apply in_app_or in Hin0. destruct Hin0 as [Hin0|Hin0].
        * apply (Hfr i); [apply in_or_app; right; exact Hi0|exact Hin0].
        * rewrite Hidx in Hin0. exact (NoDup_app_disjoint _ _ Hndk i Hin0 Hi0).
      + eapply NoDup_app_r. exact Hndk.
      + exists ((ek :: newk1) ++ newk2). rewrite app_assoc. split; [exact Ib|]. split; [|split].
        * rewrite map_app, Hidx, Hidx2. reflexivity.
        * rewrite Hsc2. exact Hpop.
        * intros x Hx. apply in_app_or in Hx. destruct Hx as [Hx|Hx].
          -- eapply eanc_cons; [left; reflexivity|exact Hpar|].
             eapply eanc_incl; [|apply Hanc; exact Hx]. intros y Hy. right. apply in_or_app. left. exact Hy.
          -- eapply eanc_incl; [|apply Hanc2; exact Hx]. intros y [<-|Hy]; [left; reflexivity|].
             right. apply in_or_app. right. exact Hy. }
  inversion Hnd as [|? ? Hcn Hndk]; subst.
  destruct (K _ _ _ _ _ (log ++ [ecur]) H IB) as (newk & If & Hidx & Hsc & Hanc).
  - apply in_or_app. right. left. reflexivity.
  - reflexivity.
  - intros k Hk. unfold kids. apply in_map. exact Hk.
  - intros i Hi0 Hin0. rewrite map_app in Hin0. apply in_app_or in Hin0. destruct Hin0 as [Hin0|[<-|[]]].
    + apply (Hfresh i); [right; exact Hi0|exact Hin0].
    + cbn [ecur le_idx] in Hi0. exact (Hcn Hi0).
  - exact Hndk.
  - exists ecur, newk. rewrite <- app_assoc in If. cbn [app] in If. split; [exact If|].
    split; [cbn [map preorder ecur le_idx]; rewrite Hidx; reflexivity|].
    split; [reflexivity|]. split; [reflexivity|]. split; [exact Hsc|].
    intros e [<-|He]; [apply eanc_refl; left; reflexivity|apply Hanc; exact He].
Qed.
End Walk.
