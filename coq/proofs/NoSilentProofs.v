(* NoSilentProofs — C02: the error report of a failure the mirrors can express
   is derived (not assumed) to be in the project handed to the runner, located
   so that it passes the file filter; with the runner theorems of
   Proofs.RunnerProofs it is displayed and the exit status is 1. *)
From Coq Require Import ZArith NArith Lia Permutation.
Require Coq.Strings.String.
Require Import Gen.Category Model.Runner Spec.RunnerSpec Proofs.RunnerProofs.
From stdpp Require Import list.
Require Import Model.Includes Model.Front Spec.IncludesSpec Model.FrontStages Spec.NoSilentSpec Proofs.IncludesProofs.
Require Model.Ast Model.Desugar Model.LiftFull Model.PipelineMirrors Spec.ExpandSpec.
Require Import Proofs.NoSilentStages.

(* ====================================================================== *)
(* Runner side: an error-level report that is produced and not located     *)
(* solely in included files is displayed                                    *)
(* ====================================================================== *)

Lemma error_report_displayed : forall p o order r,
  wf_project p -> analysis_order p order ->
  In r (produced p) -> r_level r = Error -> ~ located_only_in_included (p_user p) r ->
  ~ In (r_id r) (o_allow o) ->
  In r (res_shown (run_keys p o order)) /\ r_level r = Error /\ res_exit (run_keys p o order) = 1%Z.
Proof.
  intros p o order r Hwf Hord Hin He Hloc Hal.
  assert (Hs : In r (res_shown (run_keys p o order))).
  { apply displayed_iff_kept; auto. split; auto. split; [apply error_passes_level; auto|]. split; auto. }
  split; auto. split; auto.
  destruct (exit_zero_iff_nothing_displayed p o order Hwf Hord) as [Hz [H0 | H1]]; auto.
  apply Hz in H0. rewrite H0 in Hs. contradiction.
Qed.

Lemma analysed_is_logged : forall p o order k,
  wf_project p -> analysis_order p order -> In k order ->
  In (MAnalyzing k) (res_log (run_keys p o order)).
Proof.
  intros p o order k Hwf Hord Hk.
  destruct (run_keys_spec p o order (analysis_order_ok p order Hwf Hord)) as [_ [_ [_ [_ E]]]].
  rewrite E. apply in_or_app. left. apply in_map. assumption.
Qed.

(* exit status 0: nothing produced is to be kept; every definition of a user
   file was taken up by the runner (its `analyzing` line was written); with an
   empty allow list every error of the parse stage and every lift error of a
   user definition is located solely in included files *)
Theorem clean_only_if_all_analysed : forall p o order,
  wf_project p -> analysis_order p order ->
  res_exit (run_keys p o order) = 0%Z ->
  (forall r, In r (produced p) -> ~ keep o (p_user p) r) /\
  (forall d, In d (user_defs p) -> In (MAnalyzing (d_key d)) (res_log (run_keys p o order))) /\
  (o_allow o = [] ->
     (forall r, In r (p_parse p) -> r_level r = Error -> located_only_in_included (p_user p) r) /\
     (forall d e, In d (user_defs p) -> d_err d = Some e -> r_level e = Error -> located_only_in_included (p_user p) e)).
Proof.
  intros p o order Hwf Hord Hex.
  destruct (exit_zero_iff_nothing_displayed p o order Hwf Hord) as [Hz _]. apply Hz in Hex.
  assert (H1 : forall r, In r (produced p) -> ~ keep o (p_user p) r).
  { intros r Hin Hk. assert (H : In r (res_shown (run_keys p o order))) by (apply displayed_iff_kept; auto).
    rewrite Hex in H. contradiction. }
  split; auto. split.
  - intros d Hd. apply analysed_is_logged; auto.
    eapply Permutation_in. apply Permutation_sym. exact Hord. apply in_map. assumption.
  - intros Hal.
    assert (Hgen : forall r, In r (produced p) -> r_level r = Error -> located_only_in_included (p_user p) r).
    { intros r Hin He. specialize (H1 r Hin). unfold keep in H1. rewrite Hal in H1.
      destruct (r_pfiles r) as [|f fs] eqn:Ef.
      - exfalso. apply H1. split. apply error_passes_level; auto. split. intros []. intros [Hne _]. congruence.
      - unfold located_only_in_included. rewrite Ef. split. discriminate.
        intros x Hx Hu. apply H1. split. apply error_passes_level; auto. split. intros [].
        intros [_ Hall]. rewrite Ef in Hall. exact (Hall x Hx Hu). }
    split.
    + intros r Hin. apply Hgen. unfold produced. apply in_or_app. auto.
    + intros d e Hd Herr. apply Hgen. unfold produced. apply in_or_app. right. apply in_flat_map. exists d. split; auto.
      unfold produced_def. rewrite Herr. apply in_or_app. right. left. reflexivity.
Qed.

(* ====================================================================== *)
(* Includes side                                                            *)
(* ====================================================================== *)

Section NoSilentProofs.
  Context {path : Type} `{EqDecision path}.
  Variable canon : path -> option path.
  Variable is_dir : path -> bool.
  Variable is_file : path -> bool.
  Variable read_dir : path -> option (list path).
  Variable join : path -> path -> path.
  Variable parent : path -> path.
  Variable file_name : path -> option path.
  Variable ext_circom : path -> bool.
  Variable starts_dot : path -> bool.
  Variable has_sep : path -> bool.
  Variable content : path -> file_content path.

  Notation add_libraries := (add_libraries canon is_dir ext_circom).
  Notation add_files := (add_files canon is_dir read_dir join ext_circom).
  Notation new := (new canon is_dir read_dir join ext_circom).
  Notation new_all := (new_all canon is_dir read_dir join ext_circom).
  Notation dirs_revisited := (dirs_revisited canon is_dir read_dir join ext_circom).
  Notation take_next := (take_next parent).
  Notation add_includes := (add_includes canon is_file join file_name starts_dot has_sep).
  Notation parse_file := (parse_file canon is_file join file_name starts_dot has_sep content).
  Notation parse_loop := (parse_loop canon is_file join parent file_name starts_dot has_sep content).
  Notation parse_files :=
    (parse_files canon is_dir is_file read_dir join parent file_name ext_circom starts_dot has_sep content).
  Notation named := (named canon is_dir read_dir join ext_circom).
  Notation resolves := (resolves canon is_file join parent file_name starts_dot has_sep).
  Notation reachable := (reachable canon is_file join parent file_name starts_dot has_sep content).
  Notation fails_to_open := (fails_to_open canon is_dir read_dir join ext_circom).
  Notation the_libraries := (the_libraries canon is_dir ext_circom).

  (* ---- add_files: every path that cannot be canonicalised is reported ---- *)

  Lemma add_files_reports fuel : forall nm paths acc r,
    add_files fuel nm paths acc = Ok r ->
    (forall x, x ∈ acc.2 -> x ∈ r.2) /\
    (forall p q, p ∈ paths -> fails_to_open nm p q -> FileOsError q ∈ r.2).
  Proof.
    induction fuel as [|fuel IHf]; intros nm; [discriminate|].
    induction paths as [|p rest IH]; intros acc r Hr; simpl in Hr.
    - inversion Hr; subst. split; [auto|]. intros p q Hp. by apply elem_of_nil in Hp.
    - destruct (is_dir p) eqn:Ed.
      + destruct (read_dir p) as [names|] eqn:Er.
        * apply bind_ok in Hr as (acc' & Ha & Hr).
          apply IHf in Ha as (Ha1 & Ha2). apply IH in Hr as (Hr1 & Hr2).
          split; [auto|]. intros p0 q Hp Hf. apply elem_of_cons in Hp as [->|Hp]; [|eauto].
          inversion Hf; subst; [congruence|].
          match goal with H : read_dir p = Some _ |- _ => rewrite Er in H; inversion H; subst end.
          apply Hr1. eapply Ha2; [|eassumption]. apply elem_of_list_fmap. eauto.
        * apply IH in Hr as (Hr1 & Hr2). split; [auto|].
          intros p0 q Hp Hf. apply elem_of_cons in Hp as [->|Hp]; [|eauto].
          inversion Hf; subst; congruence.
      + destruct (nm || ext_circom p) eqn:Ee.
        * destruct (canon p) as [c0|] eqn:Ec.
          -- apply IH in Hr as (Hr1 & Hr2). simpl in *. split; [auto|].
             intros p0 q Hp Hf. apply elem_of_cons in Hp as [->|Hp]; [|eauto].
             inversion Hf; subst; congruence.
          -- apply IH in Hr as (Hr1 & Hr2). simpl in *. split.
             ++ intros x Hx. apply Hr1. apply elem_of_app. by left.
             ++ intros p0 q Hp Hf. apply elem_of_cons in Hp as [->|Hp]; [|eauto].
                inversion Hf; subst; [|congruence]. apply Hr1. apply elem_of_app. right. left.
        * apply IH in Hr as (Hr1 & Hr2). split; [auto|].
          intros p0 q Hp Hf. apply elem_of_cons in Hp as [->|Hp]; [|eauto].
          inversion Hf; subst; congruence.
  Qed.

  (* FileStack::new after 517e7a0 skips a directory it has met before: when none was met twice
     ([dirs_revisited] = false, evaluated on every run) it computes what the code before the fix computes *)
  Lemma new_reports fuel paths libs st reps :
    new fuel paths libs [] = Ok (st, reps) ->
    dirs_revisited fuel paths libs = false ->
    forall p q, p ∈ paths -> fails_to_open true p q -> FileOsError q ∈ reps.
  Proof.
    intros Hnew Hrev. apply (new_is_new_all canon is_dir read_dir join ext_circom) in Hnew; [|exact Hrev].
    revert Hnew. unfold Includes.new_all. destruct (add_libraries libs []) as [ls r0] eqn:El.
    intros Hn. apply bind_ok in Hn as (r & Ha & Hn). inversion Hn; subst.
    apply add_files_reports in Ha as (_ & A2). exact A2.
  Qed.

  (* ---- parse_file: what one step adds ---- *)

  Lemma unreadable_dec (c : file_content path) : c = Unreadable \/ c <> Unreadable.
  Proof. destruct c; [by left|by right|by right]. Qed.

  Lemma parse_file_grows p s s' :
    parse_file false p s = Ok s' ->
    ps_read s' = ps_read s ++ [p] /\
    exists fs rs,
      ps_files s' = ps_files s ++ fs /\ ps_reports s' = ps_reports s ++ rs /\
      (content p = Unreadable -> fs = [] /\ FileOsError p ∈ rs) /\
      (content p <> Unreadable -> exists u, fs = [(p, u)]) /\
      (content p = Unparsable -> ParsingError (length (ps_files s)) ∈ rs).
  Proof.
    unfold Includes.parse_file. destruct (content p) as [| |incs] eqn:Ec.
    - intros Hs; inversion Hs; subst; simpl. split; [done|]. exists [], [FileOsError p].
      rewrite app_nil_r. repeat split; try done. left.
    - intros Hs; inversion Hs; subst; simpl. split; [done|]. eexists _, [ParsingError _].
      repeat split; try done; [by eexists|]. intros _. left.
    - intros Hs. apply bind_ok in Hs as ([st' ws] & Ha & Hs). inversion Hs; subst; simpl.
      split; [done|]. eexists _, ws. repeat split; try done. by eexists.
  Qed.

  (* ---- the loop: every unreadable / unparsable file that was read has its report ---- *)

  Definition served (s : parse_state (path:=path)) : Prop :=
    (forall f, f ∈ ps_read s -> content f = Unreadable -> FileOsError f ∈ ps_reports s) /\
    (forall i f u, ps_files s !! i = Some (f, u) -> content f = Unparsable -> ParsingError i ∈ ps_reports s) /\
    (forall f, f ∈ ps_read s -> content f <> Unreadable -> exists i u, ps_files s !! i = Some (f, u)) /\
    (ps_files s).*1 `sublist_of` ps_read s.

  Lemma parse_step_served p st s s' :
    served s ->
    parse_file false p (ParseState st (ps_files s) (ps_reports s) (ps_read s)) = Ok s' ->
    served s' /\ (forall x, x ∈ ps_reports s -> x ∈ ps_reports s').
  Proof.
    intros (S1 & S2 & S3 & S4) Hp.
    apply parse_file_grows in Hp as (Hread & fs & rs & Hf & Hr & Hu & Hn & He). simpl in *.
    split; [split; [|split; [|split]]|].
    - intros f Hin Hc. rewrite Hread in Hin. rewrite Hr. apply elem_of_app in Hin as [Hin|Hin].
      + apply elem_of_app. left. by apply S1.
      + apply elem_of_list_singleton in Hin as ->. apply elem_of_app. right. by apply Hu.
    - intros i f u Hi Hc. rewrite Hr. rewrite Hf in Hi. apply lookup_app_Some in Hi as [Hi|[Hlen Hi]].
      + apply elem_of_app. left. by eapply S2.
      + destruct (unreadable_dec (content p)) as [Hpu|Hpu].
        * destruct (Hu Hpu) as [-> _]. by rewrite lookup_nil in Hi.
        * destruct (Hn Hpu) as [u' ->]. apply list_lookup_singleton_Some in Hi as [Hi0 Hi].
          inversion Hi; subst. assert (i = length (ps_files s)) as -> by lia.
          apply elem_of_app. right. by apply He.
    - intros f Hin Hc. rewrite Hread in Hin. rewrite Hf. apply elem_of_app in Hin as [Hin|Hin].
      + destruct (S3 f Hin Hc) as (i & u & Hi). exists i, u. by apply lookup_app_l_Some.
      + apply elem_of_list_singleton in Hin as ->. destruct (Hn Hc) as [u ->].
        exists (length (ps_files s)), u. by rewrite lookup_app_r, Nat.sub_diag.
    - rewrite Hread, Hf, fmap_app. destruct (unreadable_dec (content p)) as [Hpu|Hpu].
      + destruct (Hu Hpu) as [-> _]. simpl. rewrite app_nil_r. by apply sublist_inserts_r.
      + destruct (Hn Hpu) as [u ->]. simpl. by apply sublist_app.
    - intros x Hx. rewrite Hr. apply elem_of_app. by left.
  Qed.

  Lemma parse_loop_served fuel : forall s s',
    served s -> parse_loop false fuel s = Ok s' ->
    served s' /\ (forall x, x ∈ ps_reports s -> x ∈ ps_reports s').
  Proof.
    induction fuel as [|fuel IH]; intros s s' Hs Hl; simpl in Hl; [discriminate|].
    destruct (take_next (ps_stack s)) as [[p|] st] eqn:Et.
    - apply bind_ok in Hl as (s1 & Hp & Hl). apply parse_step_served in Hp as [H1 H2]; [|done].
      apply IH in Hl as [H3 H4]; [|done]. split; auto.
    - inversion Hl; subst. split; [exact Hs|auto].
  Qed.

  Lemma parse_files_served dfuel fuel paths libs s :
    parse_files false dfuel fuel paths libs = Ok s ->
    served s /\
    (dirs_revisited dfuel paths libs = false ->
     forall p q, p ∈ paths -> fails_to_open true p q -> FileOsError q ∈ ps_reports s).
  Proof.
    unfold Includes.parse_files. intros Hp. apply bind_ok in Hp as ([st0 reps0] & Hn & Hl). simpl in Hl.
    apply parse_loop_served in Hl as [H1 H2].
    - split; [done|]. intros Hrev p q Hin Hf. apply H2. simpl. eapply new_reports; eauto.
    - split; [|split; [|split]]; simpl.
      + intros f Hf. by apply elem_of_nil in Hf.
      + intros i f u Hi. by rewrite lookup_nil in Hi.
      + intros f Hf. by apply elem_of_nil in Hf.
      + constructor.
  Qed.

  Lemma sublist_NoDup {A} (l k : list A) : l `sublist_of` k -> NoDup k -> NoDup l.
  Proof.
    induction 1 as [|x l1 l2 Hs IH|x l1 l2 Hs IH]; intros Hk; [done| |].
    - apply NoDup_cons in Hk as [Hx Hk]. apply NoDup_cons. split; [|auto].
      intros Hin. apply Hx. eapply elem_of_submseteq; [exact Hin|]. by apply sublist_submseteq.
    - apply NoDup_cons in Hk as [_ Hk]. auto.
  Qed.

  (* ---- FileLibrary::user_inputs ---- *)

  Lemma user_ids_from_spec (fs : list (path * bool)) : forall k z,
    In z (user_ids_from k fs) <-> exists i f, z = Z.of_nat (k + i) /\ fs !! i = Some (f, true).
  Proof.
    induction fs as [|[f u] rest IH]; intros k z; simpl.
    - split; [intros []|]. intros (i & f & _ & Hi). by rewrite lookup_nil in Hi.
    - rewrite in_app_iff, IH. split.
      + intros [Hz|(i & f' & -> & Hi)].
        * destruct u; [|destruct Hz]. destruct Hz as [<-|[]]. exists 0, f. by rewrite Nat.add_0_r.
        * exists (S i), f'. split; [f_equal; lia|done].
      + intros (i & f' & -> & Hi). destruct i as [|i]; simpl in Hi.
        * inversion Hi; subst. left. left. by rewrite Nat.add_0_r.
        * right. exists i, f'. split; [f_equal; lia|done].
  Qed.

  Lemma user_ids_spec (s : parse_state (path:=path)) z :
    In z (user_ids s) <-> exists i f, z = Z.of_nat i /\ ps_files s !! i = Some (f, true).
  Proof. unfold user_ids. rewrite user_ids_from_spec. done. Qed.

  (* ====================================================================== *)
  (* the whole front                                                         *)
  (* ====================================================================== *)

  Hypothesis canon_idem : forall p c, canon p = Some c -> canon c = Some c.

  Variable pf_id pf_name : Z.
  Variable payload : Includes.report (path:=path) -> Z.
  (* the parameters of Model.FrontStages *)
  Variable pragma : path -> option version.
  Variable has_main : path -> bool.
  Variable cv : version.
  Variable cs : codes.
  Variable spay : stage_item path -> Z.
  Variable ord : nat -> list nat -> list nat.
  Variable horder : list nat -> list nat.
  Variable prime : Z.
  Variable kv kd : nat.
  Variable err_file : PM.definition -> option N.
  Variable name_id : String.string -> Z.
  Variable after : PM.definition -> def.

  Notation report_of := (report_of pf_id pf_name payload).
  Notation front_project := (front_project pf_id pf_name payload).
  Notation item_report := (item_report pf_id pf_name cs spay).
  Notation lift_outcome := (lift_outcome ord horder prime kv kd).
  Notation stage_def := (stage_def pf_id pf_name cs spay ord horder prime kv kd err_file name_id after).
  Notation stage_others := (stage_others content pragma has_main cv pf_id pf_name cs spay).
  Notation stage_defs := (stage_defs pf_id pf_name cs spay ord horder prime kv kd err_file name_id after).
  Notation stage_project :=
    (stage_project content pragma has_main cv pf_id pf_name cs spay ord horder prime kv kd err_file name_id after payload).
  Notation failure_event :=
    (failure_event canon is_dir is_file read_dir join parent file_name ext_circom starts_dot has_sep content
                   pf_id pf_name payload pragma has_main cv cs spay ord horder prime kv kd err_file).
  Notation file_is_named := (file_is_named canon is_dir read_dir join ext_circom).
  Notation not_in_included_only := (not_in_included_only canon is_dir read_dir join ext_circom).
  Notation def_in_named_file := (def_in_named_file canon is_dir read_dir join ext_circom).
  Notation all_named_read :=
    (all_named_read canon is_dir is_file read_dir join parent file_name ext_circom starts_dot has_sep content).
  Notation all_stages_passed :=
    (all_stages_passed canon is_dir is_file read_dir join parent file_name ext_circom starts_dot has_sep content
                       pragma has_main cv).

  (* the ids of the error codes of the stages of Model.FrontStages *)
  Definition stage_ids : list Z :=
    [ c_id (c_version_error cs); c_id (c_multiple_main cs); c_id (c_tuple cs); c_id (c_anonymous cs);
      c_id (c_param_collision cs) ].

  Section Run.
    Variable dfuel fuel : nat.
    Variable argv libs : list path.
    Variable s : parse_state (path:=path).
    Hypothesis Hrun : parse_files false dfuel fuel argv libs = Ok s.
    (* no directory was met twice while the command line was expanded (Model.Includes.dirs_revisited, evaluated on
       every run): FileStack::new then reads what the specification's [named] says *)
    Hypothesis Hrev : dirs_revisited dfuel argv libs = false.

    (* the file ids of the user-input set are those of the named files *)
    Lemma user_id_iff_named z : In z (user_ids s) <-> file_is_named argv s z.
    Proof.
      pose proof (included_only_files_are_not_user_inputs canon is_dir is_file read_dir join parent file_name
                    ext_circom starts_dot has_sep content canon_idem dfuel fuel argv libs s Hrev Hrun) as [_ HU].
      rewrite user_ids_spec. unfold NoSilentSpec.file_is_named. split.
      - intros (i & f & -> & Hi). exists i, f, true. repeat split; try done. by apply (HU i f true Hi).
      - intros (i & f & u & -> & Hi & Hn). exists i, f. split; [done|].
        destruct (HU i f u Hi) as [_ Hu]. apply Hu in Hn. by subst u.
    Qed.

    Lemma named_is_read f : named argv f -> f ∈ ps_read s.
    Proof.
      intros Hn.
      apply (reads_exactly_reachable canon is_dir is_file read_dir join parent file_name
               ext_circom starts_dot has_sep content canon_idem dfuel fuel argv libs s Hrev Hrun).
      by apply reach_named.
    Qed.

    Lemma reachable_is_read f : reachable (named argv) (the_libraries libs) f -> f ∈ ps_read s.
    Proof.
      apply (reads_exactly_reachable canon is_dir is_file read_dir join parent file_name
               ext_circom starts_dot has_sep content canon_idem dfuel fuel argv libs s Hrev Hrun).
    Qed.

    Lemma not_included_only r : not_in_included_only argv s r -> ~ located_only_in_included (user_ids s) r.
    Proof.
      intros [Hnil|(z & Hz & Hn)] [Hne Hall]; [done|].
      apply (Hall z Hz). by apply user_id_iff_named.
    Qed.

    (* the reports of the Includes mirror are in the project, whatever the rest *)
    Lemma front_report_produced others defs r :
      r ∈ ps_reports s -> In (report_of r) (produced (front_project s others defs)).
    Proof.
      intros Hr. unfold produced, Front.front_project, front_reports. simpl.
      apply in_or_app. left. apply in_or_app. left. apply in_map. by apply elem_of_list_In.
    Qed.

    Lemma other_report_produced others defs r :
      In r others -> In r (produced (front_project s others defs)).
    Proof.
      intros Hx. unfold produced, Front.front_project. simpl. apply in_or_app. left. apply in_or_app. by right.
    Qed.

    (* the error of a definition that lives in a named file is produced *)
    Lemma def_error_produced others defs d e :
      In d defs -> file_is_named argv s (d_file d) -> d_err d = Some e ->
      In e (produced (front_project s others defs)).
    Proof.
      intros Hd Hfile Herr. unfold produced. apply in_or_app. right. apply in_flat_map. exists d. split.
      - unfold user_defs. apply filter_In. split; [done|]. unfold user_def_b. apply existsb_exists.
        exists (d_file d). split; [by apply user_id_iff_named|apply Z.eqb_refl].
      - unfold produced_def. rewrite Herr. apply in_or_app. right. by left.
    Qed.

    Lemma read_NoDup : NoDup (ps_read s).
    Proof.
      pose proof (each_canonical_file_once canon is_dir is_file read_dir join parent file_name
                    ext_circom starts_dot has_sep content canon_idem dfuel fuel argv libs s Hrun) as [_ HU].
      apply NoDup_alt. intros i j x Hi Hj. by eapply HU.
    Qed.

    (* a file has one entry in the file library *)
    Lemma files_unique i j f u u' :
      ps_files s !! i = Some (f, u) -> ps_files s !! j = Some (f, u') -> i = j.
    Proof.
      intros Hi Hj. pose proof (parse_files_served _ _ _ _ _ Hrun) as [(_ & _ & _ & S4) _].
      pose proof (sublist_NoDup _ _ S4 read_NoDup) as Hnd.
      eapply (NoDup_lookup _ i j f Hnd); rewrite list_lookup_fmap; [by rewrite Hi|by rewrite Hj].
    Qed.

    (* a file that was reached and could be read has an entry in the file library *)
    Lemma reachable_has_entry f :
      reachable (named argv) (the_libraries libs) f -> content f <> Unreadable ->
      exists i u, ps_files s !! i = Some (f, u).
    Proof.
      intros Hre Hc. pose proof (parse_files_served _ _ _ _ _ Hrun) as [(_ & _ & SE & _) _].
      apply SE; [|done]. by apply reachable_is_read.
    Qed.

    Lemma parses_readable f : parses content f = true -> content f <> Unreadable.
    Proof. unfold parses. by destruct (content f). Qed.

    Section Stage.
      Variable pr : PM.program.
      Variable sd : Desugar.desugared.
      Variable rest : list Runner.report.
      Hypothesis Hsugar : sugar_input pr = Desugar.DOk sd.

      Notation others := (stage_others s sd rest).
      Notation defs := (stage_defs pr sd).

      Lemma stage_project_is : stage_project s pr sd rest = front_project s others defs.
      Proof. reflexivity. Qed.

      Lemma stage_item_produced it :
        In it (stage_items content pragma has_main cv (ps_files s)) ->
        In (item_report it) (produced (front_project s others defs)).
      Proof.
        intros Hin. apply other_report_produced. unfold FrontStages.stage_others.
        apply in_or_app. left. by apply in_map.
      Qed.

      Lemma sugar_item_produced it :
        In it (sugar_items sd) -> In (item_report it) (produced (front_project s others defs)).
      Proof.
        intros Hin. apply other_report_produced. unfold FrontStages.stage_others.
        apply in_or_app. right. apply in_or_app. right. by apply in_map.
      Qed.

      Lemma rest_produced r : In r rest -> In r (produced (front_project s others defs)).
      Proof.
        intros Hin. apply other_report_produced. unfold FrontStages.stage_others.
        apply in_or_app. right. apply in_or_app. by left.
      Qed.

      (* the error report of a definition of a named file that is handed to the runner *)
      Lemma lift_error_produced dd e :
        In dd (handed_on pr sd) -> def_in_named_file argv s dd -> lift_outcome dd = Some e ->
        In (item_report (SILiftError dd e (lift_error_file err_file dd e)))
           (produced (front_project s others defs)).
      Proof.
        intros Hin (fid & Hpf & Hnamed) Hout.
        apply (def_error_produced others defs (stage_def dd)).
        - unfold FrontStages.stage_defs. by apply in_map.
        - rewrite stage_def_file. unfold def_file. by rewrite Hpf.
        - by apply stage_def_err.
      Qed.

      (* every failure event yields a report that is in the project, is error
         level and is not located solely in included files *)
      Lemma failure_event_produced c r :
        failure_event argv libs s pr sd rest c r ->
        In r (produced (front_project s others defs)) /\ r_level r = Error /\
        not_in_included_only argv s r.
      Proof.
        pose proof (parse_files_served _ _ _ _ _ Hrun) as [(SU & SP & SE & _) SO]. specialize (SO Hrev).
        destruct c; simpl.
        - (* MissingFile *)
          intros (p & q & Hp & Hf & ->). split; [apply front_report_produced; eauto|]. split; [done|]. by left.
        - (* UnreadableFile *)
          intros (f & Hre & Hc & ->). split; [|split; [done|by left]].
          apply front_report_produced. apply SU; [|done]. by apply reachable_is_read.
        - (* SyntaxError *)
          intros (f & i & u & Hn & Hc & Hi & ->).
          split; [apply front_report_produced; by eapply SP|]. split; [done|]. right.
          exists (Z.of_nat i). split; [by left|]. by exists i, f, u.
        - (* UnresolvedInclude *)
          intros (f & incs & p & a & b & i & u & Hn & Hc & Hx & Hres & Hi & ->).
          pose proof (unresolved_include_error_located canon is_dir is_file read_dir join parent file_name
                        ext_circom starts_dot has_sep content canon_idem dfuel fuel argv libs s Hrun) as [_ HE].
          destruct (HE f incs p a b (named_is_read f Hn) Hc Hx Hres) as (j & u' & Hj & Hrep).
          assert (j = i) as -> by (eapply files_unique; eauto).
          split; [by apply front_report_produced|]. split; [done|]. right.
          exists (Z.of_nat i). split; [by left|]. by exists i, f, u.
        - (* DuplicateParameter *)
          intros (dd & Hin & Hnamed & Hb & Hnd & ->).
          pose proof (repeated_parameter_outcome ord horder prime kv kd dd Hb Hnd) as Hout.
          split; [exact (lift_error_produced dd LEParamCollision Hin Hnamed Hout)|]. split; [done|].
          destruct Hnamed as (fid & Hpf & Hnamed). right. exists (Z.of_N fid). split; [|done].
          simpl. rewrite Hpf. by left.
        - (* LiftFailure *)
          intros (dd & e & Hin & Hnamed & Hout & Hne & Hloc & ->).
          assert (Hfile : lift_error_file err_file dd e = err_file dd) by (by destruct e).
          pose proof (lift_error_produced dd e Hin Hnamed Hout) as Hp. rewrite Hfile in Hp.
          split; [exact Hp|]. split; [by destruct e|].
          destruct Hnamed as (fid & Hpf & Hnamed).
          destruct Hloc as [Hl|Hl].
          + left. destruct e; simpl; by rewrite Hl.
          + right. exists (Z.of_N fid). split; [|done]. destruct e; simpl; rewrite Hl, Hpf; by left.
        - (* BadPragma *)
          intros (f & incs & v & Hre & Hc & Hp & Hv & ->).
          destruct (reachable_has_entry f Hre) as (i & u & Hi); [congruence|].
          split; [|split; [done|by left]]. apply (stage_item_produced (SIVersionError f v)). unfold stage_items.
          apply in_or_app. left. by eapply version_item_in.
        - (* SeveralMains *)
          intros (f & g & Hne & Hrf & Hrg & Pf & Pg & Mf & Mg & ->).
          destruct (reachable_has_entry f Hrf (parses_readable f Pf)) as (i & u & Hi).
          destruct (reachable_has_entry g Hrg (parses_readable g Pg)) as (j & u' & Hj).
          assert (Hij : i <> j) by (intros ->; rewrite Hi in Hj; congruence).
          split; [|split; [done|by left]]. apply (stage_item_produced SIMultipleMain). unfold stage_items.
          apply in_or_app. right. rewrite (two_mains_reported content has_main _ i j f g u u' Hi Hj Hij Pf Pg Mf Mg).
          by left.
        - (* InvalidTupleOrAnonymous *)
          intros (n & body & fid & r0 & Hrej & Hbody & Hnamed & ->).
          assert (Hloc : Desugar.r_file r0 = fid).
          { destruct Hrej as [[_ Hd]|[_ (rs & Hc & Hr0)]].
            - by eapply sugar_template_located.
            - by eapply sugar_function_located. }
          split; [|split; [done|]].
          + apply (sugar_item_produced (SISugar r0)). destruct Hrej as [[Hin Hd]|[Hin (rs & Hc & Hr0)]].
            * by eapply sugar_template_reported.
            * by eapply sugar_function_reported.
          + right. exists (Z.of_N fid). split; [|done]. simpl. rewrite Hloc. by left.
        - (* DuplicateDefinition *)
          intros (He & Hin & Hz). split; [by apply rest_produced|]. split; [done|by right].
      Qed.

      (* C02: every failure class — the report is displayed, exit status 1 *)
      Theorem failure_classes_reported o order c r :
        wf_project (stage_project s pr sd rest) ->
        analysis_order (stage_project s pr sd rest) order ->
        failure_event argv libs s pr sd rest c r ->
        ~ In (r_id r) (o_allow o) ->
        In r (res_shown (run_keys (stage_project s pr sd rest) o order)) /\ r_level r = Error /\
        res_exit (run_keys (stage_project s pr sd rest) o order) = 1%Z.
      Proof.
        intros Hwf Hord Hev Hal. destruct (failure_event_produced _ _ Hev) as (Hin & He & Hloc).
        apply error_report_displayed; try done. by apply not_included_only.
      Qed.

      (* the general form (program and [rest] free), kept for the classes whose
         event says nothing about [rest]; the obligation of props/C02.v is
         Proofs.NoSilentMerger.tied_classes_reported (all ten classes, on the
         project tied to the files that were read).  For DuplicateDefinition
         the general event contains the report, its level and its location, so
         [failure_classes_reported] is for it [error_report_displayed]; the
         tied theorem instantiates it with the report of the Merger mirror. *)
      Theorem derived_classes_reported o order c r :
        class_derivation c <> Assumed ->
        wf_project (stage_project s pr sd rest) ->
        analysis_order (stage_project s pr sd rest) order ->
        failure_event argv libs s pr sd rest c r ->
        ~ In (r_id r) (o_allow o) ->
        In r (res_shown (run_keys (stage_project s pr sd rest) o order)) /\ r_level r = Error /\
        res_exit (run_keys (stage_project s pr sd rest) o order) = 1%Z.
      Proof. intros _. apply failure_classes_reported. Qed.

      (* the events are not hypothetical: whenever the input has the defect,
         the report exists *)
      Theorem front_failures_have_reports :
        (forall f, named argv f -> content f = Unparsable ->
           exists r, failure_event argv libs s pr sd rest SyntaxError r) /\
        (forall f incs p a b, named argv f -> content f = Parsed incs -> (p, a, b) ∈ incs ->
           resolves f (the_libraries libs) p None ->
           exists r, failure_event argv libs s pr sd rest UnresolvedInclude r) /\
        (* a template / function of a named file that the desugarer does not hand on *)
        (forall n body fid,
           In (n, body) (PM.named_bodies (PM.pr_templates pr)) -> body_in_file fid body ->
           file_is_named argv s (Z.of_N fid) -> ~ In n (map fst (Desugar.d_templates sd)) ->
           exists r, failure_event argv libs s pr sd rest InvalidTupleOrAnonymous r) /\
        (forall n body fid,
           In (n, body) (PM.named_bodies (PM.pr_functions pr)) -> body_in_file fid body ->
           file_is_named argv s (Z.of_N fid) -> ~ In n (map fst (Desugar.d_functions sd)) ->
           exists r, failure_event argv libs s pr sd rest InvalidTupleOrAnonymous r).
      Proof.
        pose proof (parse_files_served _ _ _ _ _ Hrun) as [(SU & SP & SE & _) SO]. specialize (SO Hrev).
        split; [|split; [|split]].
        - intros f Hn Hc. destruct (SE f (named_is_read f Hn)) as (i & u & Hi); [congruence|].
          eexists. simpl. exists f, i, u. done.
        - intros f incs p a b Hn Hc Hx Hres. destruct (SE f (named_is_read f Hn)) as (i & u & Hi); [congruence|].
          eexists. simpl. exists f, incs, p, a, b, i, u. done.
        - intros n body fid Hin Hb Hnamed Hno.
          destruct (dropped_template_rejected pr sd n body Hsugar Hin Hno) as (r0 & Hr0).
          eexists. simpl. exists n, body, fid, r0. split; [left; done|done].
        - intros n body fid Hin Hb Hnamed Hno.
          destruct (dropped_function_rejected pr sd n body Hsugar Hin Hno) as (rs & r0 & Hc & Hr0).
          eexists. simpl. exists n, body, fid, r0. split; [right; split; [done|by exists rs]|done].
      Qed.

      (* C02: exit status 0 only if every named file was opened, read, parsed and
         had its includes served, and every definition in a named file that is
         handed to the runner was taken up (its `analyzing` line is in the log)
         and lifted *)
      Theorem clean_only_if_all_read_and_analysed o order :
        wf_project (stage_project s pr sd rest) ->
        analysis_order (stage_project s pr sd rest) order ->
        res_exit (run_keys (stage_project s pr sd rest) o order) = 0%Z ->
        ~ In pf_id (o_allow o) ->
        all_named_read argv libs s /\
        (forall d, In d defs -> file_is_named argv s (d_file d) ->
           In (MAnalyzing (d_key d)) (res_log (run_keys (stage_project s pr sd rest) o order)) /\
           (forall e, d_err d = Some e -> r_level e = Error -> not_in_included_only argv s e ->
                      In (r_id e) (o_allow o))).
      Proof.
        intros Hwf Hord Hex Hal.
        assert (Hno : forall c r, failure_event argv libs s pr sd rest c r -> In (r_id r) (o_allow o)).
        { intros c r Hev. destruct (in_dec Z.eq_dec (r_id r) (o_allow o)) as [|Hn]; [done|].
          destruct (failure_classes_reported o order c r Hwf Hord Hev Hn) as (_ & _ & H1). congruence. }
        pose proof front_failures_have_reports as (FS & FI & _ & _).
        split; [split; [|split]|].
        - intros p q Hp Hf. apply Hal. apply (Hno MissingFile (report_of (FileOsError q))). simpl. eauto.
        - intros f Hre Hc. apply Hal. apply (Hno UnreadableFile (report_of (FileOsError f))). simpl. eauto.
        - intros f Hn. destruct (content f) as [| |incs] eqn:Hc.
          + exfalso. apply Hal. apply (Hno UnreadableFile (report_of (FileOsError f))). simpl.
            exists f. split; [by apply reach_named|done].
          + exfalso. destruct (FS f Hn Hc) as (r & Hev). apply Hal.
            pose proof (Hno _ _ Hev) as Hin. simpl in Hev. destruct Hev as (? & ? & ? & _ & _ & _ & ->). exact Hin.
          + exists incs. split; [done|]. intros p a b Hx.
            destruct (every_include_served canon is_dir is_file read_dir join parent file_name
                        ext_circom starts_dot has_sep content canon_idem dfuel fuel argv libs s f incs p a b
                        Hrun (named_is_read f Hn) Hc Hx) as [Hok|[Hres _]]; [done|].
            exfalso. destruct (FI f incs p a b Hn Hc Hx Hres) as (r & Hev). apply Hal.
            pose proof (Hno _ _ Hev) as Hin. simpl in Hev.
            destruct Hev as (? & ? & ? & ? & ? & ? & ? & _ & _ & _ & _ & _ & ->). exact Hin.
        - intros d Hd Hfile. split.
          + apply analysed_is_logged; try done. eapply Permutation_in; [apply Permutation_sym; exact Hord|].
            apply in_map. unfold user_defs. apply filter_In. split; [done|]. unfold user_def_b. apply existsb_exists.
            exists (d_file d). split; [by apply user_id_iff_named|apply Z.eqb_refl].
          + intros e Herr He Hloc. destruct (in_dec Z.eq_dec (r_id e) (o_allow o)) as [|Hn]; [done|]. exfalso.
            assert (Hp : In e (produced (stage_project s pr sd rest))) by (by eapply def_error_produced).
            destruct (error_report_displayed _ o order e Hwf Hord Hp He (not_included_only e Hloc) Hn) as (_ & _ & H1).
            congruence.
      Qed.

      (* C02: exit status 0 (with none of the error codes of the stages
         allow-listed) only if, besides, every file that was reached asks for
         a supported compiler version or none, at most one of them has a main
         component, the desugarer handed on every template and every function
         of the named files, no definition of a named file handed to the
         runner repeats a parameter name, and the lifting / SSA mirrors
         answered with no error for it (unless that error's id is allow-listed
         or its file id points into another file) *)
      Theorem clean_only_if_stages_passed o order :
        wf_project (stage_project s pr sd rest) ->
        analysis_order (stage_project s pr sd rest) order ->
        res_exit (run_keys (stage_project s pr sd rest) o order) = 0%Z ->
        (forall z, In z stage_ids -> ~ In z (o_allow o)) ->
        all_stages_passed argv libs s pr sd /\
        (forall dd, In dd (handed_on pr sd) -> def_in_named_file argv s dd ->
           In (MAnalyzing (runner_kind (PM.d_kind dd), name_id (PM.d_name dd)))
              (res_log (run_keys (stage_project s pr sd rest) o order)) /\
           (LiftFull.is_block (PM.d_body dd) = true -> List.NoDup (PM.d_params dd)) /\
           (forall e, lift_outcome dd = Some e -> e <> LEParamCollision ->
                      err_file dd = None \/ err_file dd = PM.d_pfile dd ->
                      In (r_id (item_report (SILiftError dd e (err_file dd)))) (o_allow o))).
      Proof.
        intros Hwf Hord Hex Hal.
        assert (Hno : forall c r, failure_event argv libs s pr sd rest c r -> In (r_id r) (o_allow o)).
        { intros c r Hev. destruct (in_dec Z.eq_dec (r_id r) (o_allow o)) as [|Hn]; [done|].
          destruct (failure_classes_reported o order c r Hwf Hord Hev Hn) as (_ & _ & H1). congruence. }
        pose proof front_failures_have_reports as (_ & _ & FT & FF).
        assert (Hsugar_id : forall r0, In (r_id (item_report (SISugar r0))) stage_ids).
        { intros r0. unfold stage_ids. simpl. destruct (Desugar.r_code r0); simpl; tauto. }
        split; [split; [|split; [|split]]|].
        - intros f incs v Hre Hc Hp. destruct (version_supported v cv) eqn:Hv; [done|]. exfalso.
          apply (Hal (c_id (c_version_error cs))); [unfold stage_ids; simpl; tauto|].
          apply (Hno BadPragma (item_report (SIVersionError f v))). simpl. exists f, incs, v. done.
        - intros f g Hrf Hrg Pf Pg Mf Mg.
          destruct (parse_files_served _ _ _ _ _ Hrun) as [(_ & _ & SE & _) _].
          destruct (reachable_has_entry f Hrf (parses_readable f Pf)) as (i & u & Hi).
          destruct (reachable_has_entry g Hrg (parses_readable g Pg)) as (j & u' & Hj).
          destruct (decide (i = j)) as [->|Hij]; [rewrite Hi in Hj; congruence|]. exfalso.
          apply (Hal (c_id (c_multiple_main cs))); [unfold stage_ids; simpl; tauto|].
          apply (Hno SeveralMains (item_report SIMultipleMain)). simpl. exists f, g.
          split; [|done]. intros ->. apply Hij. by eapply files_unique.
        - intros n body fid Hin Hb Hnamed.
          destruct (in_dec String.string_dec n (map fst (Desugar.d_templates sd))) as [|Hno']; [done|]. exfalso.
          destruct (FT n body fid Hin Hb Hnamed Hno') as (r & Hev).
          pose proof (Hno _ _ Hev) as Hin'. simpl in Hev. destruct Hev as (? & ? & ? & r0 & _ & _ & _ & ->).
          by apply (Hal _ (Hsugar_id r0)).
        - intros n body fid Hin Hb Hnamed.
          destruct (in_dec String.string_dec n (map fst (Desugar.d_functions sd))) as [|Hno']; [done|]. exfalso.
          destruct (FF n body fid Hin Hb Hnamed Hno') as (r & Hev).
          pose proof (Hno _ _ Hev) as Hin'. simpl in Hev. destruct Hev as (? & ? & ? & r0 & _ & _ & _ & ->).
          by apply (Hal _ (Hsugar_id r0)).
        - intros dd Hin Hnamed. split; [|split].
          + apply analysed_is_logged; try done. eapply Permutation_in; [apply Permutation_sym; exact Hord|].
            rewrite <- (stage_def_key pf_id pf_name cs spay ord horder prime kv kd err_file name_id after dd).
            apply in_map. unfold user_defs. apply filter_In. split.
            * simpl. unfold FrontStages.stage_defs. by apply in_map.
            * unfold user_def_b. apply existsb_exists. exists (d_file (stage_def dd)). split; [|apply Z.eqb_refl].
              apply user_id_iff_named. destruct Hnamed as (fid & Hpf & Hnamed).
              rewrite stage_def_file. unfold def_file. by rewrite Hpf.
          + intros Hb. destruct (ListDec.NoDup_dec String.string_dec (PM.d_params dd)) as [|Hnd]; [done|]. exfalso.
            apply (Hal (c_id (c_param_collision cs))); [unfold stage_ids; simpl; tauto|].
            apply (Hno DuplicateParameter (item_report (SILiftError dd LEParamCollision (PM.d_pfile dd)))).
            simpl. exists dd. done.
          + intros e Hout Hne Hloc.
            apply (Hno LiftFailure (item_report (SILiftError dd e (err_file dd)))). simpl. exists dd, e. done.
      Qed.
    End Stage.
  End Run.

  (* [class_shape] is the form in which [failure_event] states the report of a
     class (the table lib/props/C02.py reads through the extracted driver) *)
  Lemma failure_event_shape argv libs s pr sd rest c r :
    failure_event argv libs s pr sd rest c r ->
    match class_shape c with
    | ShOsError => exists q, r = report_of (FileOsError q)
    | ShParseError => exists i, r = report_of (ParsingError i)
    | ShIncludeError => exists p i a b, r = report_of (IncludeError p (Some i) a b)
    | ShVersionError => exists f v, r = item_report (SIVersionError f v)
    | ShMultipleMain => r = item_report SIMultipleMain
    | ShSugarError => exists r0, r = item_report (SISugar r0)
    | ShParamCollision => exists dd, r = item_report (SILiftError dd LEParamCollision (PM.d_pfile dd))
    | ShLiftError => exists dd e, e <> LEParamCollision /\ r = item_report (SILiftError dd e (err_file dd))
    | ShOtherInNamedFile | ShDuplicate =>
        r_level r = Error /\ In r rest /\ exists z, In z (r_pfiles r) /\ file_is_named argv s z
    end.
  Proof.
    destruct c; simpl.
    - intros (p & q & _ & _ & ->). by exists q.
    - intros (f & _ & _ & ->). by exists f.
    - intros (f & i & u & _ & _ & _ & ->). by exists i.
    - intros (f & incs & p & a & b & i & u & _ & _ & _ & _ & _ & ->). by exists p, i, a, b.
    - intros (dd & _ & _ & _ & _ & ->). by exists dd.
    - intros (dd & e & _ & _ & _ & Hne & _ & ->). by exists dd, e.
    - intros (f & incs & v & _ & _ & _ & _ & ->). by exists f, v.
    - intros (f & g & _ & _ & _ & _ & _ & _ & _ & ->). done.
    - intros (n & body & fid & r0 & _ & _ & _ & ->). by exists r0.
    - done.
  Qed.
End NoSilentProofs.

Lemma all_classes_complete : forall c, In c all_classes.
Proof. intros []; simpl; tauto. Qed.

Lemma derived_classes_are : forall c, class_derivation c = Derived <-> c <> LiftFailure.
Proof. intros []; simpl; split; intros H; try done; try discriminate. Qed.

Lemma no_class_assumed : forall c, class_derivation c <> Assumed.
Proof. intros []; discriminate. Qed.
