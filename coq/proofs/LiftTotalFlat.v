(* C01 (on top of C12's development): lifting never panics on the shape the
   DESUGARER hands on, which is wider than C12's [parser_shaped].

   The parser puts only declarations and (multi-)substitutions into an
   initialisation block, but remove_tuples_from_statement rewrites a
   multi-substitution `var (a, b) = (1, 2);` into a *block* of substitutions, and
   the anonymous-component pass does the same for `var x = A()(1);`. The
   `assert!(visit_statement(..)?.is_empty())` of lifting.rs still holds for such
   an entry, because a block of straight-line statements completes no basic block
   and returns no predecessors. [flat] is that class; [desugared_shape] asks
   initialisation blocks to hold flat entries only.  The proof follows
   Proofs.LiftTotal.visit_never_panics; only the initialisation-block case is new. *)
From stdpp Require Import list sets.
Require Import Model.Lift Spec.CfgSpec Proofs.LiftBasics Proofs.LiftInv Proofs.LiftSteps Proofs.LiftProofs
  Proofs.LiftTheorems Proofs.LiftTotal.
Import Base(outcome, Ok, Err, Panic, OutOfFuel, bind).

Fixpoint flat (s : sk) : bool :=
  match s with
  | SLeaf _ _ => true
  | SInit ss => forallb flat ss
  | SBlock ss => forallb flat ss
  | SWhile _ _ => false
  | SIf _ _ _ => false
  end.

Fixpoint init_flat (s : sk) : bool :=
  match s with
  | SLeaf _ _ => true
  | SInit ss => forallb flat ss
  | SBlock ss => forallb init_flat ss
  | SWhile _ b => init_flat b
  | SIf _ t e => init_flat t && match e with Some e => init_flat e | None => true end
  end.

Definition desugared_shape (body : sk) : Prop :=
  (exists ss, body = SBlock ss) /\ init_flat body = true.

(* a flat statement is visited without completing a block: no predecessors are
   returned and the graph stays in the [pre] state *)
Definition flat_total (s : sk) : Prop :=
  forall d g P0, pre g d P0 -> exists g', visit s d g = Ok (g', []) /\ pre g' d P0.

Lemma flat_init_total ss : Forall flat_total ss ->
  forall d g P0, pre g d P0 -> exists g', visit_init d ss g = Ok (g', []) /\ pre g' d P0.
Proof.
  induction 1 as [|s r Hs _ IH]; intros d g P0 Hpre; simpl; [eauto|].
  destruct (Hs d g P0 Hpre) as (g1 & -> & Hp1). simpl. by apply IH.
Qed.

Lemma flat_seq_total ss : Forall flat_total ss ->
  forall d g P0, pre g d P0 -> exists g', visit_seq d ss [] g = Ok (g', []) /\ pre g' d P0.
Proof.
  induction 1 as [|s r Hs _ IH]; intros d g P0 Hpre; simpl; [eauto|].
  destruct (Hs d g P0 Hpre) as (g1 & -> & Hp1). simpl. by apply IH.
Qed.

Lemma flat_visit s : flat s = true -> flat_total s.
Proof.
  induction s as [id r|ss IH|ss IH|c body IH|c t e IHt IHe] using sk_ind'; intros Hok d g P0 Hpre;
    try discriminate.
  - simpl. rewrite (pre_last_index _ _ _ Hpre). simpl.
    rewrite upd_last_ok by (by eapply pre_nonempty). simpl.
    destruct (step_leaf g d P0 id _ Hpre (upd_last_ok _ _ (pre_nonempty _ _ _ Hpre))) as (Hp & _).
    eauto.
  - rewrite visit_init_eq, (pre_last_index _ _ _ Hpre). simpl.
    apply flat_init_total; [|done].
    simpl in Hok. rewrite forallb_forall in Hok. rewrite Forall_forall in IH |- *.
    intros s Hs. apply IH; [done|]. apply Hok. by apply elem_of_list_In.
  - rewrite visit_block_eq, (pre_last_index _ _ _ Hpre). simpl.
    apply flat_seq_total; [|done].
    simpl in Hok. rewrite forallb_forall in Hok. rewrite Forall_forall in IH |- *.
    intros s Hs. apply IH; [done|]. apply Hok. by apply elem_of_list_In.
Qed.

Lemma is_leaf_flat s : is_leaf s = true -> flat s = true.
Proof. by destruct s. Qed.

(* C12's class is contained in this one *)
Lemma init_ok_init_flat s : init_ok s = true -> init_flat s = true.
Proof.
  induction s as [id r|ss IH|ss IH|c body IH|c t e IHt IHe] using sk_ind'; simpl; intros H; try done.
  - rewrite forallb_forall in H |- *. intros s Hs. apply is_leaf_flat. by apply H.
  - rewrite forallb_forall in H |- *. rewrite Forall_forall in IH.
    intros s Hs. apply IH; [by apply elem_of_list_In|]. by apply H.
  - by apply IH.
  - apply andb_true_iff in H as [Ht He]. apply andb_true_iff. split; [by apply IHt|].
    destruct e as [e|]; [|done]. by apply (IHe e eq_refl).
Qed.

Lemma parser_shaped_desugared_shape body : parser_shaped body -> desugared_shape body.
Proof. intros [H1 H2]. split; [done|]. by apply init_ok_init_flat. Qed.

Theorem visit_never_panics_flat s : init_flat s = true -> visit_total s.
Proof.
  induction s as [id r|ss IH|ss IH|c body IH|c t e IHt IHe] using sk_ind';
    intros Hok d g P0 Hpre.
  - (* leaf *)
    simpl. rewrite (pre_last_index _ _ _ Hpre). simpl.
    rewrite upd_last_ok by (by eapply pre_nonempty). simpl. eauto.
  - (* initialisation block: every entry is flat *)
    assert (Hf : flat (SInit ss) = true) by exact Hok.
    destruct (flat_visit (SInit ss) Hf d g P0 Hpre) as (g' & Hv & _). eauto.
  - (* block *)
    rewrite visit_block_eq, (pre_last_index _ _ _ Hpre). simpl.
    assert (Hall : Forall visit_total ss).
    { simpl in Hok. rewrite forallb_forall in Hok. rewrite Forall_forall in IH |- *.
      intros s Hs. apply IH; [done|]. apply Hok. by apply elem_of_list_In. }
    destruct (visit_seq_total ss Hall d g P0 g []) as ([g' ps] & Hv); try done.
    + apply (pre_P0 _ _ _ Hpre).
    + set_solver.
    + eauto.
  - (* while *)
    simpl in Hok. simpl. rewrite (pre_last_index _ _ _ Hpre). simpl.
    set (l := length g - 1) in *.
    assert (Hlg : length g = S l) by (pose proof (pre_length _ _ _ Hpre); unfold l; lia).
    destruct (complete_total g [l] d) as (g1 & E1).
    { intros i Hi. apply elem_of_list_singleton in Hi as ->. lia. } { apply NoDup_singleton. }
    rewrite E1. simpl.
    destruct (step_complete g [l] d P0 g1) as (Hp1 & Hl1 & _); try done.
    { eapply wf_ext; [|apply (pre_wf _ _ _ Hpre)]. intros i. apply singleton_ext. }
    { by eapply pre_nonempty. }
    { apply ssorted_singleton. }
    { intros i Hi HPi. apply elem_of_list_singleton in Hi as ->. apply (pre_P0 _ _ _ Hpre) in HPi. lia. }
    rewrite upd_last_ok by (by eapply pre_nonempty). simpl.
    set (g2 := alter _ _ g1).
    assert (E2 : upd_last (push_item (IBranch c (S (length g1 - 1)) None)) g1 = Ok g2).
    { rewrite upd_last_ok by (by eapply pre_nonempty). unfold g2. repeat f_equal. lia. }
    destruct (complete_total g2 [l + 1] (d + 1)) as (g3 & E3).
    { intros i Hi. apply elem_of_list_singleton in Hi as ->. unfold g2. rewrite alter_length. lia. }
    { apply NoDup_singleton. }
    rewrite E3. simpl.
    assert (Hh : l + 1 = length g1 - 1) by lia. rewrite Hh in E3 |- *.
    destruct (step_branch g1 d (d + 1) P0 c g2 g3 Hp1 E2 E3) as (Hp3 & Hl3 & _).
    destruct (IH Hok (d + 1) g3 _ Hp3) as (g4 & ps4 & E4). rewrite E4. simpl.
    destruct (visit_post body (d + 1) g3 _ g4 ps4 Hp3 E4) as [Q1 Q2 Q3 Q4 Q5 Q6 Q7].
    destruct (or_last_total g4 (d + 1) _ ps4 Q4) as (ps' & E5). rewrite E5. simpl.
    destruct (or_last_spec g4 (d + 1) _ ps4 ps' Q4 Q3 E5) as (O1 & O2 & O3 & O4 & _).
    destruct (back_fold (length g1 - 1) ps' g4) as (g5 & E6 & _).
    { lia. }
    { intros i Hi. split; [apply (wf_P _ _ O3); by right|].
      destruct (O4 _ Hi) as [Hi'|[-> ->]]; [apply Q2 in Hi'; lia|lia]. }
    { by apply ssorted_NoDup. }
    rewrite E6. simpl. eauto.
  - (* if *)
    simpl in Hok. apply andb_true_iff in Hok as [Hokt Hoke].
    simpl. rewrite (pre_last_index _ _ _ Hpre). simpl.
    set (l := length g - 1) in *.
    assert (Hlg : length g = S l) by (pose proof (pre_length _ _ _ Hpre); unfold l; lia).
    rewrite upd_last_ok by (by eapply pre_nonempty). simpl. fold l.
    set (g1 := alter _ _ g).
    assert (E1 : upd_last (push_item (IBranch c (S (length g - 1)) None)) g = Ok g1).
    { rewrite upd_last_ok by (by eapply pre_nonempty). unfold g1. fold l. repeat f_equal. lia. }
    destruct (complete_total g1 [l] d) as (g2 & E2).
    { intros i Hi. apply elem_of_list_singleton in Hi as ->. unfold g1. rewrite alter_length. lia. }
    { apply NoDup_singleton. }
    rewrite E2. simpl.
    destruct (step_branch g d d P0 c g1 g2 Hpre E1 E2) as (Hp2 & Hl2 & _). fold l in Hp2.
    destruct (IHt Hokt d g2 _ Hp2) as (g3 & ps3 & E3). rewrite E3. simpl.
    destruct (visit_post t d g2 _ g3 ps3 Hp2 E3) as [Q1 Q2 Q3 Q4 Q5 Q6 Q7].
    destruct (or_last_total g3 d _ ps3 Q4) as (psi & E4). rewrite E4. simpl.
    destruct (or_last_spec g3 d _ ps3 psi Q4 Q3 E4) as (O1 & O2 & O3 & O4 & _).
    assert (Hpsi : forall i, i ∈ psi -> length g2 - 1 <= i < length g3).
    { intros i Hi. destruct (O4 _ Hi) as [Hi'|[-> ->]]; [by apply Q2|lia]. }
    destruct e as [e|]; [|eauto].
    destruct (complete_total g3 [l] d) as (g4 & E5).
    { intros i Hi. apply elem_of_list_singleton in Hi as ->. lia. } { apply NoDup_singleton. }
    rewrite E5. simpl.
    destruct (step_complete g3 [l] d (fun i => P0 i \/ i ∈ psi) g4) as (Hp4 & Hl4 & _); try done.
    { eapply wf_ext; [|exact O3]. intros i. simpl. set_solver. }
    { destruct psi as [|p ?]; [done|]. eapply (wf_nonempty _ _ p); [exact O3|]. right. set_solver. }
    { apply ssorted_singleton. }
    { intros i Hi [HPi|HPi]; apply elem_of_list_singleton in Hi as ->.
      - apply (pre_P0 _ _ _ Hpre) in HPi. lia.
      - apply Hpsi in HPi. lia. }
    destruct (IHe e eq_refl Hoke d g4 _ Hp4) as (g5 & ps5 & E6). rewrite E6. simpl.
    destruct (visit_post e d g4 _ g5 ps5 Hp4 E6) as [R1 R2 R3 R4 R5 R6 R7].
    destruct (or_last_total g5 d _ ps5 R4) as (pse & E7). rewrite E7. simpl. eauto.
Qed.

Theorem lift_never_panics_desugared body : desugared_shape body -> exists g, lift body = Ok g.
Proof.
  intros [(ss & ->) Hok]. unfold lift.
  destruct (visit_never_panics_flat (SBlock ss) Hok 0 g_init _ pre_init) as (g' & ps & Hv).
  fold g_init. rewrite Hv. simpl. eauto.
Qed.

(* the premise form used by C01_pipeline_total *)
Theorem stage_lift_total body : desugared_shape body ->
  (forall s, lift body <> Panic s) /\ lift body <> OutOfFuel.
Proof.
  intros H. destruct (lift_never_panics_desugared body H) as (g & ->). split; [intros s|]; discriminate.
Qed.
