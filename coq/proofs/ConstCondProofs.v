(* The CS0009 finding says what the value claim says, and (on a graph accepted by
   the verified validator) what it says is true in every reachable state. *)
From Coq Require Import ZArith List Bool String Znumtheory Lia.
Require Import Model.Base Model.Field Model.Ir Model.Justify Model.ConstCond.
Require Import Spec.ValueSem Proofs.ValueProofs.
Import ListNotations.

Local Open Scope N_scope.

Lemma cc_stmts_spec ss : forall bi si0 i b,
  In (bi, i, b) (cc_stmts bi si0 ss) <->
  exists k m e t f, i = si0 + N.of_nat k /\ nth_error ss k = Some (SIf m e t f) /\ expr_val e = Some (VBool b).
Proof.
  induction ss as [|s rest IH]; intros bi si0 i b; cbn [cc_stmts].
  - split; [intros []|]. intros (k & m & e & t & f & _ & Hn & _). destruct k; discriminate.
  - assert (Hrest : In (bi, i, b) (cc_stmts bi (si0 + 1) rest) <->
                    exists k m e t f, i = si0 + N.of_nat (S k) /\ nth_error rest k = Some (SIf m e t f) /\ expr_val e = Some (VBool b)).
    { rewrite IH. split; intros (k & m & e & t & f & Hi & Hn & Hv); exists k, m, e, t, f; (split; [lia|auto]). }
    assert (Hsplit : (exists k m e t f, i = si0 + N.of_nat k /\ nth_error (s :: rest) k = Some (SIf m e t f) /\ expr_val e = Some (VBool b)) <->
                     ((exists m e t f, i = si0 /\ s = SIf m e t f /\ expr_val e = Some (VBool b)) \/
                      (exists k m e t f, i = si0 + N.of_nat (S k) /\ nth_error rest k = Some (SIf m e t f) /\ expr_val e = Some (VBool b)))).
    { split.
      - intros (k & m & e & t & f & Hi & Hn & Hv). destruct k as [|k].
        + left. cbn in Hn. injection Hn as ->. exists m, e, t, f. split; [lia|auto].
        + right. exists k, m, e, t, f. auto.
      - intros [(m & e & t & f & Hi & -> & Hv)|(k & m & e & t & f & Hi & Hn & Hv)].
        + exists 0%nat, m, e, t, f. split; [lia|auto].
        + exists (S k), m, e, t, f. auto. }
    rewrite Hsplit. clear Hsplit.
    destruct (cc_stmt s) as [b'|] eqn:Hs.
    + cbn [In]. rewrite Hrest. split.
      * intros [Heq|Hr]; [|right; exact Hr]. injection Heq as <- <-. left.
        destruct s; try discriminate. cbn in Hs. destruct (expr_val c) as [[|]|] eqn:Hv; try discriminate.
        injection Hs as ->. eauto 10.
      * intros [(m & e & t & f & -> & -> & Hv)|Hr]; [|right; exact Hr]. left.
        cbn in Hs. rewrite Hv in Hs. injection Hs as ->. reflexivity.
    + rewrite Hrest. split; [intros Hr; right; exact Hr|].
      intros [(m & e & t & f & -> & -> & Hv)|Hr]; [|exact Hr]. cbn in Hs. rewrite Hv in Hs. discriminate.
Qed.

Lemma cc_stmts_block ss : forall bi bi' si i b, In (bi', i, b) (cc_stmts bi si ss) -> bi' = bi.
Proof.
  induction ss as [|s r IH]; intros bi bi' si i b; cbn [cc_stmts]; [intros []|].
  destruct (cc_stmt s).
  - intros [H|H]; [congruence|eapply IH; exact H].
  - intros H. eapply IH; exact H.
Qed.

(* exactness: the reported positions are exactly the if statements whose condition
   carries a boolean claim, with that boolean *)
Theorem find_constant_conditional_exact c bi i b :
  In (bi, i, b) (find_constant_conditional c) <->
  exists blk k m e t f, In blk (c_blocks c) /\ b_index blk = bi /\ i = N.of_nat k /\
                        nth_error (b_stmts blk) k = Some (SIf m e t f) /\ expr_val e = Some (VBool b).
Proof.
  unfold find_constant_conditional. rewrite in_flat_map. split.
  - intros (blk & Hb & Hin).
    assert (b_index blk = bi) as Hbi by (symmetry; eapply cc_stmts_block; exact Hin).
    rewrite Hbi in Hin. apply cc_stmts_spec in Hin as (k & m & e & t & f & Hi & Hn & Hv).
    exists blk, k, m, e, t, f. repeat split; auto; lia.
  - intros (blk & k & m & e & t & f & Hb & Hbi & Hi & Hn & Hv). exists blk. split; [exact Hb|].
    rewrite Hbi. apply cc_stmts_spec. exists k, m, e, t, f. repeat split; auto; lia.
Qed.

(* the label text states the claimed boolean *)
Lemma cc_label_message_true b : cc_label_message b = "This condition is always true."%string <-> b = true.
Proof. destruct b; cbn; split; intros; congruence. Qed.
Lemma cc_label_message_false b : cc_label_message b = "This condition is always false."%string <-> b = false.
Proof. destruct b; cbn; split; intros; congruence. Qed.

Local Open Scope Z_scope.

(* soundness of the finding: on a validated graph, the reported condition never
   evaluates to the other truth value, in any reachable state *)
Theorem constant_condition_finding_true p c s0 s bi i b :
  prime p -> 2 < p -> Z.log2 p < 2 ^ 64 ->
  vjust_cfg p c = true ->
  init_ok (all_stmts (c_blocks c)) p s0 -> reachable (all_stmts (c_blocks c)) p s0 s ->
  In (bi, i, b) (find_constant_conditional c) ->
  exists blk k m e t f, In blk (c_blocks c) /\ b_index blk = bi /\ i = N.of_nat k /\
                        nth_error (b_stmts blk) k = Some (SIf m e t f) /\
                        forall v, evalR p s e v -> (v <> 0 <-> b = true).
Proof.
  intros Hprime Hp Hlog Hv Hi Hr Hin.
  apply find_constant_conditional_exact in Hin as (blk & k & m & e & t & f & Hb & Hbi & Hik & Hn & Hval).
  exists blk, k, m, e, t, f. repeat split; auto; intros Hx.
  - eapply (constant_condition_claim_true p c s0 s e v b); eauto.
    apply occ_top with (s := SIf m e t f); [|left; reflexivity].
    unfold all_stmts. apply in_flat_map. exists blk. split; [exact Hb|]. eapply nth_error_In; eauto.
  - assert (Ho : occurs_in c e).
    { apply occ_top with (s := SIf m e t f); [|left; reflexivity].
      unfold all_stmts. apply in_flat_map. exists blk. split; [exact Hb|]. eapply nth_error_In; eauto. }
    apply (constant_condition_claim_true p c s0 s e v b Hprime Hp Hlog Hv Hi Hr Ho H Hval). exact Hx.
Qed.
