(* Panic freedom of the desugarer (C18 / C01): on well-formed parser output
   remove_syntactic_sugar returns templates, functions and reports -- no `unwrap`,
   `unreachable!`, `get_file_id` or indexing site fires and the one fuelled loop
   terminates. *)
From Coq Require Import ZArith NArith List Bool String Lia.
Require Import Model.Ast Model.Desugar Spec.ExpandSpec Proofs.DesugarProofs Proofs.DesugarMetas.
Import ListNotations.
Local Open Scope list_scope.


Definition no_crash {A} (r : dres A) : Prop :=
  match r with DPanic _ | DOutOfFuel => False | _ => True end.

Lemma dbind_nc : forall {A B} (m : dres A) (f : A -> dres B),
  no_crash m -> (forall a, m = DOk a -> no_crash (f a)) -> no_crash (dbind m f).
Proof. intros A B [a|r|s|] f H1 H2; simpl in *; auto. Qed.

Lemma nc_ok : forall {A} (a : A), no_crash (DOk a).
Proof. intros; exact I. Qed.

(* log strings are at most 230 bytes (the parser has split them) *)
Fixpoint LS (s : statement) : Prop :=
  match s with
  | IfThenElse _ _ i e => LS i /\ match e with Some e => LS e | None => True end
  | While _ _ b => LS b
  | InitializationBlock _ _ l => allP LS l
  | Block _ l => allP LS l
  | LogCall _ args => allP short_arg args
  | _ => True
  end.

Definition WA (e : expression) : Prop := Forall wf_node (sub_exprs e).
Definition WAs (s : statement) : Prop := Forall wf_node (stmt_exprs s).

Lemma Forall_flat_map_iff : forall {A B} (R : B -> Prop) (g : A -> list B) l,
  Forall R (flat_map g l) <-> Forall (fun x => Forall R (g x)) l.
Proof.
  induction l as [|x l IH]; simpl.
  - split; constructor.
  - rewrite Forall_app, IH. split; [intros [? ?]; constructor; auto | intros H; inversion H; auto].
Qed.

Lemma WA_tuple : forall m vs, WA (Tuple m vs) -> Forall WA vs.
Proof. unfold WA. simpl. intros m vs H. inversion H; subst. apply Forall_flat_map_iff. auto. Qed.
Lemma WA_par : forall m e, WA (ParallelOp m e) -> WA e.
Proof. unfold WA. simpl. intros m e H. inversion H; auto. Qed.
Lemma WA_anon : forall m id p ps ss nm, WA (AnonymousComponent m id p ps ss nm) ->
  Forall WA ss /\ match nm with Some n => List.length n = List.length ss | None => True end.
Proof.
  unfold WA. simpl. intros m id p ps ss nm H. inversion H; subst. rewrite Forall_app in H3. destruct H3 as [_ H3].
  split; [apply Forall_flat_map_iff; auto | destruct nm; auto].
Qed.

Lemma WAs_block : forall m l, WAs (Block m l) -> Forall WAs l.
Proof. unfold WAs. simpl. intros. apply Forall_flat_map_iff. auto. Qed.
Lemma WAs_init : forall m t l, WAs (InitializationBlock m t l) -> Forall WAs l.
Proof. unfold WAs. simpl. intros. apply Forall_flat_map_iff. auto. Qed.
Lemma WAs_if : forall m c i e, WAs (IfThenElse m c i e) -> WAs i /\ (forall e', e = Some e' -> WAs e').
Proof.
  unfold WAs. simpl. intros m c i e H. rewrite !Forall_app in H. destruct H as (_ & Hi & He).
  split; auto. intros e' ->. auto.
Qed.
Lemma WAs_while : forall m c b, WAs (While m c b) -> WAs b.
Proof. unfold WAs. simpl. intros m c b H. rewrite Forall_app in H. tauto. Qed.
Lemma WAs_sub : forall m v a o r, WAs (Substitution m v a o r) -> WA r.
Proof. unfold WAs, WA. simpl. intros m v a o r H. rewrite Forall_app in H. tauto. Qed.
Lemma WAs_msub : forall m l o r, WAs (MultiSubstitution m l o r) -> WA r.
Proof. unfold WAs, WA. simpl. intros m l o r H. rewrite Forall_app in H. tauto. Qed.

(* the declarations pass 1 returns *)
Definition dshape (d : statement) : Prop :=
  match d with
  | Declaration _ t _ _ _ => variable_type_is_component t = true \/ variable_type_is_var t = true
  | Substitution _ _ _ _ _ => True
  | _ => False
  end.

Section Total.
  Variable lib : file_library.
  Notation K := (meta_known lib).
  Notation ME := (ME K).
  Notation MS := (MS K).

  Lemma fail_nc : forall {A} c m msg, K m -> no_crash (@fail A c m msg).
  Proof. intros A c m msg (f & Hf & _). unfold fail, mk_report. rewrite Hf. exact I. Qed.

  Lemma mk_report_nc : forall c m msg l, K m -> no_crash (mk_report c m msg l).
  Proof. intros c m msg l (f & Hf & _). unfold mk_report. rewrite Hf. exact I. Qed.

  Lemma gen_name_nc : forall prefix m, K m -> no_crash (gen_name lib prefix m).
  Proof.
    intros prefix m (f & Hf & Hl). unfold gen_name, get_line. rewrite Hf.
    destruct (nth_error lib (N.to_nat f)); [exact I | congruence].
  Qed.

  Lemma ME_meta : forall e, ME e -> K (expr_meta e).
  Proof. intros e H. destruct e; simpl in H; tauto. Qed.
  Lemma MS_meta : forall s, MS s -> K (stmt_meta s).
  Proof. intros s H. destruct s; simpl in H; tauto. Qed.
End Total.


Lemma drop_bytes_all : forall s, drop_bytes (String.length s) s = EmptyString.
Proof. induction s; simpl; auto. Qed.
Lemma take_bytes_all : forall s, take_bytes (String.length s) s = s.
Proof. induction s; simpl; congruence. Qed.
Lemma take_bytes_len : forall k s, String.length (take_bytes k s) <= k.
Proof. induction k; destruct s; simpl; try lia. specialize (IHk s). lia. Qed.
Lemma back_off_le : forall cur e, back_off cur e <= e.
Proof.
  induction e; simpl.
  - lia.
  - match goal with |- (if ?c then _ else _) <= _ => destruct c end; lia.
Qed.

Lemma split_string_nil : forall fuel, split_string fuel EmptyString = DOk [].
Proof. destruct fuel; reflexivity. Qed.
Lemma split_string_0 : forall c s, split_string 0 (String c s) = DOutOfFuel.
Proof. reflexivity. Qed.

Lemma split_string_short : forall s fuel, String.length s <= 230 ->
  split_string (S fuel) s = DOk (match s with EmptyString => [] | _ => [LogStr s] end).
Proof.
  intros s fuel Hlen. destruct s as [|c s']; [apply split_string_nil|].
  rewrite split_string_S. cbv zeta.
  assert (Hmin : Nat.min sub_len (String.length (String c s')) = String.length (String c s')).
  { unfold sub_len. apply Nat.min_r. exact Hlen. }
  rewrite Hmin.
  assert (Hb : back_off (String c s') (String.length (String c s')) = String.length (String c s')).
  { remember (String c s') as cur. destruct (String.length cur) eqn:El; [subst; discriminate|].
    cbn [back_off]. unfold is_char_boundary. rewrite <- El, Nat.leb_refl, drop_bytes_all. reflexivity. }
  rewrite Hb, drop_bytes_all, take_bytes_all, split_string_nil. reflexivity.
Qed.

(* every chunk is at most 230 bytes, whatever the input *)
Lemma split_string_chunks : forall fuel s v, split_string fuel s = DOk v -> Forall short_arg v.
Proof.
  induction fuel as [|fuel IH]; intros s v H.
  - destruct s; [rewrite split_string_nil in H | rewrite split_string_0 in H]; inv_ok. constructor.
  - destruct s as [|c s']; [rewrite split_string_nil in H; inv_ok; constructor|].
    rewrite split_string_S in H. cbv zeta in H.
    pose proof (back_off_le (String c s') (Nat.min sub_len (String.length (String c s')))) as Hb.
    pose proof (Nat.le_min_l sub_len (String.length (String c s'))) as Hm.
    remember (back_off (String c s') (Nat.min sub_len (String.length (String c s')))) as k eqn:Ek.
    remember (String c s') as cur eqn:Ec. clear Ek Ec.
    inv_ok. constructor; [|eapply IH; eauto].
    unfold short_arg. pose proof (take_bytes_len k cur). unfold sub_len in *. lia.
Qed.

Lemma build_log_args_chunks : forall args v, build_log_args args = DOk v -> Forall short_arg v.
Proof.
  induction args as [|a rest IH]; intros v H; simpl in H.
  - inv_ok. constructor.
  - destruct a as [s|e]; inv_ok.
    + apply Forall_app. split; [eapply split_string_chunks; eauto | eauto].
    + constructor; [exact I | eauto].
Qed.

Lemma build_log_args_nc : forall args, Forall short_arg args -> no_crash (build_log_args args).
Proof.
  induction args as [|a rest IH]; intros H; simpl; [exact I|].
  inversion H; subst. destruct a as [s|e].
  - simpl in H2. rewrite (split_string_short s (String.length s) H2). simpl.
    apply dbind_nc; [auto | intros; exact I].
  - apply dbind_nc; [auto | intros; exact I].
Qed.

Lemma position_lt : forall name names p, position name names = Some p -> p < List.length names.
Proof.
  induction names as [|n names IH]; intros p H; simpl in H; [discriminate|].
  destruct (String.eqb n name).
  - inversion H; subst. simpl. lia.
  - destruct (position name names) eqn:E; [|discriminate]. inversion H; subst. simpl. specialize (IH _ eq_refl). lia.
Qed.

Section Total1.
  Variable lib : file_library.
  Variable env : tenv.
  Notation K := (meta_known lib).
  Notation ME := (ME K).
  Notation MS := (MS K).
  Notation va_M := (va_M K).
  Notation rae_M := (rae_M K).

  Definition rae_T (r : dres (list statement * list statement * expression)) : Prop :=
    no_crash r /\
    forall ss ds e', r = DOk (ss, ds, e') -> Forall LS ss /\ Forall LS ds /\ Forall dshape ds.

  Lemma select_named_T : forall m inputs names operators n sel,
    K m -> List.length operators = List.length names -> List.length names = n ->
    (forall p o, In (p, o) sel -> p < n) ->
    no_crash (select_named m inputs names operators n sel) /\
    forall sel', select_named m inputs names operators n sel = DOk sel' ->
      (forall p o, In (p, o) sel' -> p < n) /\ List.length sel' = List.length sel + List.length inputs.
  Proof.
    intros m inputs names operators n. induction inputs as [|inp rest IH]; intros sel Hm Hop Hn Hsel; simpl.
    - split; [exact I|]. intros sel' E. inv_ok. split; auto.
    - destruct (position (fst inp) names) as [pos|] eqn:Hp.
      + apply position_lt in Hp.
        assert (Hlt : (pos <? n)%nat = true) by (apply Nat.ltb_lt; lia). rewrite Hlt.
        destruct (nth_error operators pos) as [o|] eqn:Ho.
        * assert (Hsel' : forall p o0, In (p, o0) (sel ++ [(pos, o)]) -> p < n).
          { intros p o0 Hin. apply in_app_or in Hin. destruct Hin as [Hin|[Hin|[]]]; eauto. inversion Hin; subst. lia. }
          destruct (IH (sel ++ [(pos, o)]) Hm Hop Hn Hsel') as [I1 I2]. split; auto.
          intros sel' E. destruct (I2 _ E) as [J1 J2]. split; auto. rewrite J2, app_length. simpl. lia.
        * exfalso. apply nth_error_None in Ho. lia.
      + split; [apply (fail_nc lib); auto | intros sel' E; inv_ok].
  Qed.

  Lemma assign_inputs_T : forall va m id results sel inputs i ss ds,
    va_M va -> K m -> Forall rae_T results -> Forall rae_M results ->
    (forall p o, In (p, o) sel -> p < List.length results) ->
    i + List.length inputs = List.length sel ->
    Forall LS ss -> Forall LS ds -> Forall dshape ds ->
    no_crash (assign_inputs va m id results sel inputs i ss ds) /\
    forall ss' ds', assign_inputs va m id results sel inputs i ss ds = DOk (ss', ds') ->
      Forall LS ss' /\ Forall LS ds' /\ Forall dshape ds'.
  Proof.
    intros va m id results sel inputs. induction inputs as [|inp rest IH];
      intros i ss ds Hva Hm HT HM Hsel Hlen Hss Hds Hsh; simpl.
    - split; [exact I|]. intros ss' ds' E. inv_ok. auto.
    - simpl in Hlen.
      destruct (nth_error sel i) as [[pos o]|] eqn:Hi; [|apply nth_error_None in Hi; lia].
      apply nth_error_In in Hi. pose proof (Hsel _ _ Hi) as Hpos.
      destruct (nth_error results pos) as [r|] eqn:Hr; [|apply nth_error_None in Hr; lia].
      apply nth_error_In in Hr.
      pose proof (proj1 (Forall_forall _ _) HT _ Hr) as [Hnc HrT].
      pose proof (proj1 (Forall_forall _ _) HM _ Hr) as HrM.
      destruct r as [[[st nd] ne]|rep|site|]; simpl in *; try tauto.
      + destruct (HrT _ _ _ eq_refl) as (L1 & L2 & L3). destruct (HrM _ _ _ eq_refl) as (M1 & _ & _).
        destruct (contains_anon ne).
        * split; [apply (fail_nc lib); apply ME_meta; auto | intros ? ? E; inv_ok].
        * apply IH; auto; try lia; repeat (apply Forall_app; split); auto; try (constructor; [exact I|constructor]).
      + split; [exact I | intros ? ? E; discriminate].
  Qed.

  Lemma anon_component_T : forall va m id par ps ss names results,
    va_M va -> K m -> Forall rae_T results -> Forall rae_M results ->
    List.length results = List.length ss ->
    match names with Some nm => List.length nm = List.length ss | None => True end ->
    rae_T (anon_component env lib va m id par ps ss names results).
  Proof.
    intros va m id par ps ss names results Hva Hm HT HM Hlen Hnm. unfold anon_component.
    destruct (lookup_template id env) as [template|].
    2:{ split; [|intros ? ? ? E; inv_ok]. apply dbind_nc; [apply (mk_report_nc lib); auto | intros; exact I]. }
    pose proof (gen_name_nc lib id m Hm) as Hg.
    destruct (gen_name lib id m) as [name| | |]; cbn [dbind no_crash] in *; try tauto; [|split; [exact I | intros ? ? ? E; discriminate]].
    destruct (contains_anon (Call m id ps)); [split; [apply (fail_nc lib); auto | intros ? ? ? E; inv_ok]|].
    set (seldef := match names with
                   | Some nm => select_named m (ti_inputs template) (map snd nm) (map fst nm) (List.length ss) []
                   | None => DOk (map (fun k => (k, AssignConstraintSignal)) (seq 0 (List.length ss)))
                   end).
    assert (Hsel : no_crash seldef /\ forall sel, seldef = DOk sel ->
              (forall p o, In (p, o) sel -> p < List.length ss) /\
              (match names with Some _ => List.length sel = List.length (ti_inputs template) | None => True end)).
    { unfold seldef. destruct names as [nm|].
      - destruct (select_named_T m (ti_inputs template) (map snd nm) (map fst nm) (List.length ss) [] Hm) as [I1 I2];
          try (rewrite !map_length; auto); [intros ? ? []|].
        split; auto; intros sel E; destruct (I2 _ E); split; auto.
      - split; [exact I|]. intros sel E. inv_ok. split; auto.
        intros p o Hin. apply in_map_iff in Hin. destruct Hin as (k & Hk & Hin). inversion Hk; subst.
        apply in_seq in Hin. lia. }
    destruct Hsel as [Hsnc Hsel].
    destruct seldef as [sel| | |] eqn:Esel; cbn [dbind no_crash] in *; try tauto; [|split; [exact I | intros ? ? ? E; discriminate]].
    destruct (Hsel _ eq_refl) as [Hbound _].
    destruct (negb (List.length (ti_inputs template) =? List.length sel)%nat
              || negb (List.length (ti_inputs template) =? List.length ss)%nat) eqn:Hchk;
      [split; [apply (fail_nc lib); auto | intros ? ? ? E; inv_ok]|].
    apply orb_false_iff in Hchk. destruct Hchk as [Hc1 _]. apply negb_false_iff in Hc1. apply Nat.eqb_eq in Hc1.
    match goal with |- rae_T (dbind (assign_inputs ?a ?b ?c ?d ?e ?f ?g ?h ?i) _) =>
      destruct (assign_inputs_T a b c d e f g h i Hva Hm HT HM) as [A1 A2] end.
    { rewrite Hlen. exact Hbound. }
    { simpl. auto. }
    { constructor; [exact I | constructor]. }
    { destruct va; constructor; simpl; auto; constructor. }
    { destruct va; constructor; simpl; auto; constructor. }
    match goal with |- rae_T (dbind ?x _) => destruct x as [[s2 d2]| | |] eqn:Ea end; cbn [dbind no_crash] in *; try tauto.
    - destruct (A2 _ _ eq_refl) as (L1 & L2 & L3).
      assert (Hb : Forall LS [Block m s2]) by (constructor; [simpl; apply allP_Forall; auto | constructor]).
      destruct (ti_outputs template) as [|o [|o2 outs]]; (split; [exact I|]); intros ? ? ? E; inv_ok; auto.
    - split; [exact I | intros ? ? ? E; discriminate].
  Qed.
End Total1.


Section Total2.
  Variable lib : file_library.
  Variable env : tenv.
  Notation K := (meta_known lib).
  Notation ME := (ME K).
  Notation MS := (MS K).
  Notation va_M := (va_M K).
  Notation rae_M := (rae_M K).
  Notation rae_T := (rae_T).

  Lemma rae_T_plain : forall e, rae_T (DOk ([], [], e)).
  Proof. intros e. split; [exact I|]. intros ? ? ? E. inv_ok. auto. Qed.

  Lemma rae_T_fail : forall c m msg, K m -> rae_T (fail c m msg).
  Proof. intros. split; [apply (fail_nc lib); auto | intros ? ? ? E; inv_ok]. Qed.

  Lemma collect_tuple_T : forall results ss ds vs,
    Forall rae_T results -> Forall LS ss -> Forall LS ds -> Forall dshape ds ->
    no_crash (collect_tuple results ss ds vs) /\
    forall ss' ds' vs', collect_tuple results ss ds vs = DOk (ss', ds', vs') ->
      Forall LS ss' /\ Forall LS ds' /\ Forall dshape ds'.
  Proof.
    induction results as [|r rest IH]; intros ss ds vs HT Hss Hds Hsh; simpl.
    - split; [exact I|]. intros ? ? ? E. inv_ok. auto.
    - inversion HT as [|? ? [Hnc HrT] HT']; subst.
      destruct r as [[[st nd] ne]| | |]; cbn [dbind no_crash] in *; try tauto.
      + destruct (HrT _ _ _ eq_refl) as (L1 & L2 & L3).
        apply IH; auto; apply Forall_app; auto.
      + split; [exact I | intros ? ? ? E; discriminate].
  Qed.

  Definition rae_PT va (e : expression) : Prop :=
    ME e -> WA e ->
    rae_T (remove_anonymous_from_expression env lib va e) /\
    match e with
    | AnonymousComponent _ _ _ _ ss _ =>
        Forall rae_T (map (remove_anonymous_from_expression env lib va) ss)
    | _ => True
    end.

  Ltac plain_T :=
    repeat match goal with
           | |- rae_T (if ?c then _ else _) => destruct c
           | |- rae_T (match ?c with Some _ => _ | None => _ end) => destruct c eqn:?
           | |- rae_T (DOk _) => apply rae_T_plain
           | |- rae_T (fail _ _ _) => apply rae_T_fail
           end.

  Lemma find_in : forall {A} (p : A -> bool) l x, find p l = Some x -> In x l.
  Proof. intros A p l x H. apply find_some in H. tauto. Qed.

  Lemma rae_T_strong : forall va e, va_M va -> rae_PT va e.
  Proof.
    intros va e Hva. induction e using expression_ind'; intros Hme Hwa; (split; [|try exact I]);
      cbn [remove_anonymous_from_expression]; unfold first_such.
    - plain_T. simpl in Hme. tauto.
    - plain_T. simpl in Hme. tauto.
    - plain_T. simpl in Hme. tauto.
    - (* ParallelOp *)
      pose proof Hme as Hall. destruct Hme as [Hm Hr]. simpl in Hm.
      destruct (negb (is_call e) && negb (is_anonymous_component e) && contains_anon e); [apply rae_T_fail; auto|].
      destruct (is_call e && contains_anon e); [apply rae_T_fail; auto|].
      destruct e; try apply rae_T_plain.
      apply WA_par in Hwa. pose proof (WA_anon _ _ _ _ _ _ Hwa) as [Hwss Hnm].
      pose proof Hr as Hr'. simpl in Hr'. destruct Hr' as (Hm0 & Hps & Hss).
      apply anon_component_T; auto.
      + apply (IHe Hr Hwa).
      + apply Forall_map. apply allP_Forall in Hss. rewrite Forall_forall in *. intros x Hx.
        apply rae_M_ok; auto.
      + apply map_length.
    - plain_T. simpl in Hme. tauto.
    - apply rae_T_plain.
    - plain_T. simpl in Hme. tauto.
    - (* Anon *)
      pose proof (WA_anon _ _ _ _ _ _ Hwa) as [Hwss Hnm].
      simpl in Hme. destruct Hme as (Hm & Hps & Hss). apply allP_Forall in Hss.
      apply anon_component_T; auto.
      + apply Forall_map. rewrite Forall_forall in *. intros x Hx. apply H0; auto.
      + apply Forall_map. rewrite Forall_forall in *. intros x Hx. apply rae_M_ok; auto.
      + apply map_length.
    - pose proof (WA_anon _ _ _ _ _ _ Hwa) as [Hwss Hnm].
      simpl in Hme. destruct Hme as (Hm & Hps & Hss). apply allP_Forall in Hss.
      apply Forall_map. rewrite Forall_forall in *. intros x Hx. apply H0; auto.
    - destruct (find contains_anon vs) eqn:Hf; [|apply rae_T_plain].
      apply rae_T_fail. apply find_in in Hf. simpl in Hme. destruct Hme as [_ Hvs]. apply allP_Forall in Hvs.
      rewrite Forall_forall in Hvs. apply ME_meta. auto.
    - (* Tuple *)
      simpl in Hme. destruct Hme as (Hm & Hvs). apply allP_Forall in Hvs. apply WA_tuple in Hwa.
      assert (HT : Forall rae_T (map (remove_anonymous_from_expression env lib va) vs)).
      { apply Forall_map. rewrite Forall_forall in *. intros x Hx. apply H; auto. }
      destruct (collect_tuple_T _ [] [] [] HT (Forall_nil _) (Forall_nil _) (Forall_nil _)) as [C1 C2].
      split.
      + apply dbind_nc; [exact C1 | intros [[a b] c] _; exact I].
      + intros ss ds e' E. inv_ok. eapply C2; exact Ha.
  Qed.
End Total2.


Lemma access_first_such_in : forall p acc i,
  access_first_such p acc = Some i -> In (ArrayAccess i) acc.
Proof.
  intros p acc i H. unfold access_first_such in H.
  destruct (find _ acc) as [a|] eqn:Hf; [|discriminate].
  apply find_some in Hf. destruct Hf as [Hin _]. destruct a; [discriminate|]. inversion H; subst. auto.
Qed.

Section Total3.
  Variable lib : file_library.
  Variable env : tenv.
  Notation K := (meta_known lib).
  Notation ME := (ME K).
  Notation MS := (MS K).
  Notation va_M := (va_M K).

  Definition ras_T (r : dres (statement * list statement)) : Prop :=
    no_crash r /\
    forall s' d, r = DOk (s', d) -> LS s' /\ Forall LS d /\ Forall dshape d.

  Lemma ras_T_fail : forall c m msg, K m -> ras_T (fail c m msg).
  Proof. intros. split; [apply (fail_nc lib); auto | intros ? ? E; inv_ok]. Qed.

  Lemma ras_T_ok_val : forall s, LS s -> ras_T (DOk (s, [])).
  Proof. intros s H. split; [exact I|]. intros ? ? E. inv_ok. auto. Qed.

  Lemma ras_list_T : forall (f : statement -> dres (statement * list statement)) l ns ds,
    Forall (fun s => ras_T (f s)) l -> Forall LS ns -> Forall LS ds -> Forall dshape ds ->
    no_crash (ras_list f l ns ds) /\
    forall ns' ds', ras_list f l ns ds = DOk (ns', ds') ->
      Forall LS ns' /\ Forall LS ds' /\ Forall dshape ds'.
  Proof.
    intros f. induction l as [|s rest IH]; intros ns ds Hl Hns Hds Hsh; simpl.
    - split; [exact I|]. intros ? ? E. inv_ok. auto.
    - inversion Hl as [|? ? [Hnc HT] Hl']; subst.
      destruct (f s) as [[s1 d1]| | |]; cbn [dbind no_crash] in *; try tauto.
      + destruct (HT _ _ eq_refl) as (L1 & L2 & L3).
        apply IH; auto; apply Forall_app; auto.
      + split; [exact I | intros ? ? E; discriminate].
  Qed.

  Lemma seq_LS : forall m (pre : list statement) s, Forall LS pre -> LS s -> LS (Block m (pre ++ [s])).
  Proof. intros. simpl. apply allP_Forall. apply Forall_app. auto. Qed.

  Lemma with_rae_T : forall va m e (mk : expression -> statement),
    va_M va -> ME e -> WA e -> (forall e', LS (mk e')) ->
    ras_T ('(stmts, declarations, new_rhe) <- remove_anonymous_from_expression env lib va e ;;
           let subs := mk new_rhe in
           if is_nil stmts then DOk (subs, declarations)
           else DOk (Block m (stmts ++ [subs]), declarations)).
  Proof.
    intros va m e mk Hva Hme Hwa Hmk.
    destruct (rae_T_strong lib env va e Hva Hme Hwa) as [[Hnc HT] _].
    destruct (remove_anonymous_from_expression env lib va e) as [[[st nd] ne]| | |];
      cbn [dbind no_crash] in *; try tauto.
    - destruct (HT _ _ _ eq_refl) as (L1 & L2 & L3).
      destruct (is_nil st); (split; [exact I|]); intros ? ? E; inv_ok; repeat split; auto.
      apply seq_LS; auto.
    - split; [exact I | intros ? ? E; discriminate].
  Qed.

  Lemma ras_T_ok : forall s va, va_M va -> MS s -> LS s -> WAs s ->
    ras_T (remove_anonymous_from_statement env lib va s).
  Proof.
    induction s using statement_ind'; intros va Hva Hms Hls Hwa;
      cbn [remove_anonymous_from_statement]; simpl in Hms.
    - (* IfThenElse *)
      destruct Hms as (Hm & Hc & Hi & He). simpl in Hls. destruct Hls as [Li Le].
      apply WAs_if in Hwa. destruct Hwa as [Wi We].
      destruct (contains_anon c); [apply ras_T_fail; auto|].
      destruct (IHs va Hva Hi Li Wi) as [Hnc HT].
      destruct (remove_anonymous_from_statement env lib va s) as [[s1 d1]| | |];
        cbn [dbind no_crash] in *; try tauto; [|split; [exact I | intros ? ? E; discriminate]].
      destruct (HT _ _ eq_refl) as (L1 & L2 & L3).
      destruct e as [e'|].
      + destruct (H e' eq_refl va Hva He Le (We _ eq_refl)) as [Hnc' HT'].
        destruct (remove_anonymous_from_statement env lib va e') as [[s2 d2]| | |];
          cbn [dbind no_crash] in *; try tauto; [|split; [exact I | intros ? ? E; discriminate]].
        destruct (HT' _ _ eq_refl) as (L1' & L2' & L3').
        split; [exact I|]. intros ? ? E. inv_ok. simpl. repeat split; auto; apply Forall_app; auto.
      + split; [exact I|]. intros ? ? E. inv_ok. simpl. auto.
    - (* While *)
      destruct Hms as (Hm & Hc & Hb). simpl in Hls. apply WAs_while in Hwa.
      destruct (contains_anon c); [apply ras_T_fail; apply ME_meta; auto|].
      pose proof (gen_name_nc lib "anon_var" m Hm) as Hg.
      destruct (gen_name lib "anon_var" m) as [name| | |]; cbn [dbind no_crash] in *; try tauto;
        [|split; [exact I | intros ? ? E; discriminate]].
      assert (Hva' : va_M (Some (Variable_ m name []))) by (simpl; auto).
      destruct (IHs _ Hva' Hb Hls Hwa) as [Hnc HT].
      destruct (remove_anonymous_from_statement env lib (Some (Variable_ m name [])) s) as [[s1 d1]| | |];
        cbn [dbind no_crash] in *; try tauto; [|split; [exact I | intros ? ? E; discriminate]].
      destruct (HT _ _ eq_refl) as (L1 & L2 & L3).
      destruct (existsb (decl_uses_counter name) d1); (split; [exact I|]); intros ? ? E; inv_ok; simpl; repeat split; auto;
        repeat (apply Forall_cons; [first [exact I | right; reflexivity]|]); auto.
    - destruct (contains_anon v); [apply ras_T_fail; tauto | apply ras_T_ok_val; exact I].
    - (* InitializationBlock *)
      destruct Hms as (Hm & Hl). apply allP_Forall in Hl. simpl in Hls. apply allP_Forall in Hls.
      apply WAs_init in Hwa.
      assert (HF : Forall (fun s => ras_T (remove_anonymous_from_statement env lib va s)) l).
      { rewrite Forall_forall in *. intros x Hx. apply H; auto. }
      destruct (ras_list_T _ l [] [] HF (Forall_nil _) (Forall_nil _) (Forall_nil _)) as [R1 R2].
      split.
      + apply dbind_nc; [exact R1 | intros [a b] _; exact I].
      + intros ? ? E. inv_ok. destruct (R2 _ _ Ha) as (L1 & L2 & L3). simpl. repeat split; auto. apply allP_Forall; auto.
    - unfold first_such. destruct (find contains_anon d) eqn:Hf; [|apply ras_T_ok_val; exact I].
      apply ras_T_fail. apply find_in in Hf. destruct Hms as [_ Hd]. apply allP_Forall in Hd.
      rewrite Forall_forall in Hd. apply ME_meta. auto.
    - (* Substitution *)
      destruct Hms as (Hm & Hacc & Hrhe). apply WAs_sub in Hwa.
      destruct (access_first_such contains_anon a) eqn:Hf.
      + apply ras_T_fail. apply access_first_such_in in Hf. apply allP_Forall in Hacc.
        rewrite Forall_forall in Hacc. specialize (Hacc _ Hf). simpl in Hacc. apply ME_meta. auto.
      + apply (with_rae_T va m r (fun e' => Substitution m v a o e')); auto; intros; exact I.
    - (* MultiSubstitution *)
      destruct Hms as (Hm & Hlhe & Hrhe). apply WAs_msub in Hwa.
      destruct (contains_anon l); [apply ras_T_fail; apply ME_meta; auto|].
      apply (with_rae_T va m r (fun e' => MultiSubstitution m l o e')); auto; intros; exact I.
    - destruct (contains_anon l || contains_anon r); [apply ras_T_fail; tauto | apply ras_T_ok_val; exact I].
    - (* LogCall *)
      destruct Hms as (Hm & Hargs). simpl in Hls. apply allP_Forall in Hls.
      destruct (existsb (log_arg_contains is_anonymous_component) a); [apply ras_T_fail; auto|].
      unfold build_log_call. pose proof (build_log_args_nc a Hls) as Hnc.
      destruct (build_log_args a) as [v| | |] eqn:Eb; cbn [dbind no_crash] in *; try tauto;
        [|split; [exact I | intros ? ? E; discriminate]].
      split; [exact I|]. intros ? ? E. inv_ok. simpl. repeat split; auto.
      apply allP_Forall. eapply build_log_args_chunks; eauto.
    - (* Block *)
      destruct Hms as (Hm & Hl). apply allP_Forall in Hl. simpl in Hls. apply allP_Forall in Hls.
      apply WAs_block in Hwa.
      assert (HF : Forall (fun s => ras_T (remove_anonymous_from_statement env lib va s)) l).
      { rewrite Forall_forall in *. intros x Hx. apply H; auto. }
      destruct (ras_list_T _ l [] [] HF (Forall_nil _) (Forall_nil _) (Forall_nil _)) as [R1 R2].
      split.
      + apply dbind_nc; [exact R1 | intros [a b] _; exact I].
      + intros ? ? E. inv_ok. destruct (R2 _ _ Ha) as (L1 & L2 & L3). simpl. repeat split; auto. apply allP_Forall; auto.
    - destruct (contains_anon a); [apply ras_T_fail; tauto | apply ras_T_ok_val; exact I].
  Qed.
End Total3.


Lemma separate_declarations_nc : forall decls c v s,
  Forall dshape decls -> no_crash (separate_declarations decls c v s).
Proof.
  induction decls as [|d rest IH]; intros c v s H; simpl; [exact I|].
  inversion H; subst. destruct d; simpl in H2; try contradiction.
  - destruct (variable_type_is_component xtype); [apply IH; auto|].
    destruct (variable_type_is_var xtype); [apply IH; auto|]. destruct H2; discriminate.
  - apply IH; auto.
Qed.

Section Total4.
  Variable lib : file_library.
  Notation K := (meta_known lib).
  Notation ME := (ME K).
  Notation MS := (MS K).
  Notation ML := (ML K).

  Ltac nc_fail := apply (fail_nc lib); auto.

  Lemma unfold_values_nc : forall results acc,
    Forall (fun r => no_crash r) results -> no_crash (unfold_values results acc).
  Proof.
    induction results as [|r rest IH]; intros acc H; simpl; [exact I|].
    inversion H; subst. destruct r as [v| | |]; cbn [dbind no_crash] in *; try tauto.
    destruct v; apply IH; auto.
  Qed.

  Lemma rte_T : forall e, NA e -> ME e -> no_crash (remove_tuple_from_expression e).
  Proof.
    induction e using expression_ind'; intros Hna Hme; cbn [remove_tuple_from_expression];
      try (match goal with |- no_crash (if ?c then _ else _) => destruct c end;
           [nc_fail; simpl in Hme; tauto | exact I]).
    - exact I.
    - apply CL_node in Hna. discriminate.
    - apply dbind_nc; [|intros; exact I]. apply unfold_values_nc. apply Forall_map.
      apply CL_tuple_inv in Hna. simpl in Hme. destruct Hme as [_ Hvs]. apply allP_Forall in Hvs.
      rewrite Forall_forall in *. intros x Hx. apply H; auto.
  Qed.

  Lemma tuple_substs_nc : forall m o ls rs acc, K m ->
    List.length ls = List.length rs -> no_crash (tuple_substs m o ls rs acc).
  Proof.
    intros m o. induction ls as [|l ls IH]; intros rs acc Hm Hlen; simpl; [exact I|].
    destruct l; try (nc_fail). destruct rs as [|r rs]; [discriminate Hlen|]. apply IH; auto.
  Qed.

  Lemma check_log_args_nc : forall args,
    Forall (log_all (fun x => NA x /\ is_tuple x = false)) args -> Forall ML args ->
    no_crash (check_log_args args).
  Proof.
    induction args as [|a rest IH]; intros H1 H2; simpl; [exact I|].
    inversion H1; inversion H2; subst. destruct a as [s|x]; [apply IH; auto|].
    simpl in *. apply dbind_nc; [apply rte_T; tauto | intros; apply IH; auto].
  Qed.

  Lemma log_new_args_T : forall args acc,
    Forall (log_all NA) args -> Forall ML args -> Forall short_arg args -> Forall short_arg acc ->
    no_crash (log_new_args args acc) /\
    forall acc', log_new_args args acc = DOk acc' -> Forall short_arg acc'.
  Proof.
    induction args as [|a rest IH]; intros acc Hna Hml Hsh Hacc; simpl.
    - split; [exact I|]. intros ? E. inv_ok. auto.
    - inversion Hna; inversion Hml; inversion Hsh; subst. destruct a as [s|x].
      + apply IH; auto. apply Forall_app. split; auto.
      + unfold separate_tuple_for_log_call. simpl flat_map. rewrite app_nil_r.
        assert (Hsep : Forall short_arg (sep_log x)).
        { clear. induction x using expression_ind'; simpl; try (constructor; [exact I|constructor]).
          constructor; [simpl; lia|]. apply Forall_app. split; [|constructor; [simpl; lia|constructor]].
          induction vs as [|v vs IHvs]; simpl; [constructor|]. inversion H; subst. apply Forall_app. split; auto. }
        destruct (IH (acc ++ sep_log x)) as [I1 I2]; auto; [apply Forall_app; split; auto|].
        pose proof (check_log_args_nc (sep_log x) (sep_log_spec x H1) (sep_log_M K x H5)) as Hc.
        destruct (check_log_args (sep_log x)) as [u| | |]; cbn [dbind no_crash] in *; try tauto.
        split; [exact I | intros ? E; discriminate].
  Qed.

  Lemma rts_list_nc : forall (f : statement -> dres statement) l acc,
    Forall (fun s => no_crash (f s)) l -> no_crash (rts_list f l acc).
  Proof.
    intros f. induction l as [|s rest IH]; intros acc H; simpl; [exact I|].
    inversion H; subst. apply dbind_nc; auto.
  Qed.

  Lemma rts_T : forall s, NAs s -> MS s -> LS s -> no_crash (remove_tuples_from_statement s).
  Proof.
    induction s using statement_ind'; intros Hna Hms Hls; cbn [remove_tuples_from_statement]; simpl in Hms.
    - apply CLs_if in Hna. destruct Hna as (Nc & Ni & Ne). destruct Hms as (Hm & Hc & Hi & He).
      simpl in Hls. destruct Hls as [Li Le].
      destruct (contains_tuple c); [nc_fail|].
      apply dbind_nc; [auto|]. intros a _. destruct e as [e'|]; [|exact I].
      apply dbind_nc; [apply (H e' eq_refl); auto | intros; exact I].
    - apply CLs_while in Hna. destruct Hna as (Nc & Nb). destruct Hms as (Hm & Hc & Hb).
      destruct (contains_tuple c); [nc_fail|]. apply dbind_nc; [auto | intros; exact I].
    - destruct (contains_tuple v); [nc_fail; tauto | exact I].
    - apply CLs_init in Hna. destruct Hms as (Hm & Hl). apply allP_Forall in Hl. simpl in Hls. apply allP_Forall in Hls.
      apply dbind_nc; [|intros; exact I]. apply rts_list_nc. rewrite Forall_forall in *. intros x Hx. apply H; auto.
    - destruct (existsb contains_tuple d); [nc_fail; tauto | exact I].
    - (* Substitution *)
      apply CLs_sub in Hna. destruct Hna as [Nacc Nr]. destruct Hms as (Hm & Hacc & Hr).
      apply dbind_nc; [apply rte_T; auto|]. intros e' He'.
      destruct (is_tuple e'); [nc_fail|].
      destruct (access_first_such contains_tuple a) eqn:Hf.
      + nc_fail. apply access_first_such_in in Hf. apply allP_Forall in Hacc.
        rewrite Forall_forall in Hacc. specialize (Hacc _ Hf). simpl in Hacc. apply ME_meta. auto.
      + destruct (negb (String.eqb v "_")); exact I.
    - (* MultiSubstitution *)
      apply CLs_msub in Hna. destruct Hna as [Nl Nr]. destruct Hms as (Hm & Hl & Hr).
      apply dbind_nc; [apply rte_T; auto|]. intros l' Hl'.
      apply dbind_nc; [apply rte_T; auto|]. intros r' Hr'.
      pose proof (ME_meta lib _ (rte_M K _ _ Hl Hl')) as Kl. pose proof (ME_meta lib _ (rte_M K _ _ Hr Hr')) as Kr.
      destruct l' as [| | | | | | | | |ml lvals];
        try solve [match goal with |- no_crash (if ?c then _ else _) => destruct c end; nc_fail].
      destruct r' as [| | | | | | | | |mr rvals];
        try solve [match goal with |- no_crash (if ?c then _ else _) => destruct c end; nc_fail].
      destruct (Nat.eqb (List.length lvals) (List.length rvals)) eqn:El.
      + apply dbind_nc; [|intros; exact I]. apply tuple_substs_nc; auto. apply Nat.eqb_eq; auto.
      + destruct (negb (is_nil lvals)); nc_fail.
    - destruct (contains_tuple l || contains_tuple r); [nc_fail; tauto | exact I].
    - (* LogCall *)
      apply CLs_log in Hna. destruct Hms as (Hm & Hargs). apply allP_Forall in Hargs.
      simpl in Hls. apply allP_Forall in Hls.
      destruct (log_new_args_T a [] Hna Hargs Hls (Forall_nil _)) as [L1 L2].
      apply dbind_nc; [exact L1|]. intros v Hv. unfold build_log_call.
      apply dbind_nc; [|intros; exact I]. apply build_log_args_nc. apply L2; auto.
    - apply CLs_block in Hna. destruct Hms as (Hm & Hl). apply allP_Forall in Hl. simpl in Hls. apply allP_Forall in Hls.
      apply dbind_nc; [|intros; exact I]. apply rts_list_nc. rewrite Forall_forall in *. intros x Hx. apply H; auto.
    - destruct (contains_tuple a); [nc_fail; tauto | exact I].
  Qed.
End Total4.


Lemma LS_of_nodes : forall s, Forall short_node (sub_stmts s) -> LS s.
Proof.
  induction s using statement_ind'; simpl; intros Hn; inversion Hn; subst; auto.
  - rewrite Forall_app in H3. destruct H3 as [Hi He]. split; auto. destruct e as [e'|]; auto; apply (H e' eq_refl); auto.
  - apply allP_Forall. apply Forall_flat_map_iff in H3. rewrite Forall_forall in *. intros x Hx. apply H; auto.
  - apply allP_Forall. simpl in H1. auto.
  - apply allP_Forall. apply Forall_flat_map_iff in H3. rewrite Forall_forall in *. intros x Hx. apply H; auto.
Qed.

Lemma ras_block : forall env lib va m l s1 d1,
  remove_anonymous_from_statement env lib va (Block m l) = DOk (s1, d1) -> exists l', s1 = Block m l'.
Proof. intros env lib va m l s1 d1 H. cbn [remove_anonymous_from_statement] in H. inv_ok. eauto. Qed.

Section Total5.
  Variable lib : file_library.
  Notation K := (meta_known lib).
  Notation ME := (ME K).
  Notation MS := (MS K).

  Theorem desugar_template_total : forall env body,
    wf_template lib body -> no_crash (desugar_template env lib body).
  Proof.
    intros env body (Hk & Hs & Hw & (m & l & ->)).
    apply MS_iff in Hk. apply LS_of_nodes in Hs.
    unfold desugar_template.
    destruct (ras_T_ok lib env (Block m l) None I Hk Hs Hw) as [Hnc HT].
    pose proof (ras_M_ok K env lib (Block m l) None I Hk) as HM.
    pose proof (ras_na env lib (Block m l) None I) as HN.
    destruct (remove_anonymous_from_statement env lib None (Block m l)) as [[s1 d1]| | |] eqn:Er;
      cbn [dbind no_crash] in *; try tauto.
    destruct (HT _ _ eq_refl) as (L1 & L2 & L3). destruct (HM _ _ eq_refl) as (M1 & M2). destruct (HN _ _ eq_refl) as (N1 & N2).
    destruct (ras_block _ _ _ _ _ _ _ Er) as [l' ->].
    pose proof (separate_declarations_nc d1 [] [] [] L3) as Hsep.
    destruct (separate_declarations d1 [] [] []) as [[[c v] su]| | |] eqn:Es; cbn [dbind no_crash] in *; try tauto.
    pose proof (separate_declarations_forall LS _ _ _ _ _ _ _ Es L2 (Forall_nil _) (Forall_nil _) (Forall_nil _)) as (Lc & Lv & Lsu).
    pose proof (separate_declarations_forall MS _ _ _ _ _ _ _ Es M2 (Forall_nil _) (Forall_nil _) (Forall_nil _)) as (Mc & Mv & Msu).
    pose proof (separate_declarations_forall NAs _ _ _ _ _ _ _ Es N2 (Forall_nil _) (Forall_nil _) (Forall_nil _)) as (Nc & Nv & Nsu).
    simpl in M1, L1. destruct M1 as [Km Ml]. apply allP_Forall in Ml, L1. apply CLs_block in N1.
    apply (rts_T lib).
    - apply CLs_block. simpl. constructor; [apply CLs_init; auto|]. apply Forall_app. split; auto.
      constructor; [apply CLs_init; auto|]. auto.
    - simpl. split; auto. split; [split; auto; apply allP_Forall; auto|].
      apply allP_Forall. apply Forall_app. split; auto. constructor; auto. simpl. split; auto. apply allP_Forall; auto.
    - simpl. split; [apply allP_Forall; auto|]. apply allP_Forall. apply Forall_app. split; auto.
      constructor; auto. simpl. apply allP_Forall; auto.
  Qed.

  Theorem desugar_template_total_expanded : forall env body,
    Forall K (stmt_metas body) ->
    Forall short_node (sub_stmts body) ->
    Forall wf_node (stmt_exprs body) ->
    (exists m l, body = Block m l) ->
    match desugar_template env lib body with DOk _ | DErr _ => True | DPanic _ | DOutOfFuel => False end.
  Proof. intros env body H1 H2 H3 H4. exact (desugar_template_total env body (conj H1 (conj H2 (conj H3 H4)))). Qed.

  (* ---- functions ---- *)

  Lemma reports_at_nc : forall msg label metas, Forall K metas -> no_crash (reports_at msg label metas).
  Proof.
    induction metas as [|m rest IH]; intros H; simpl; [exact I|]. inversion H; subst.
    apply dbind_nc; [apply (mk_report_nc lib); auto|]. intros r _. apply dbind_nc; [auto | intros; exact I].
  Qed.

  Lemma Forall_flat_map_K : forall {A} (g : A -> list meta) l,
    Forall (fun x => Forall K (g x)) l -> Forall K (flat_map g l).
  Proof. intros. apply Forall_flat_map_iff. auto. Qed.

  Lemma matching_metas_K : forall matcher e, ME e -> Forall K (matching_metas matcher e).
  Proof.
    intros matcher. induction e using expression_ind'; intros Hme; simpl;
      (destruct (matcher _); [constructor; [simpl in Hme; tauto | constructor]|]); simpl in Hme;
      rewrite ?Forall_app; try tauto.
    - unfold access_metas. apply Forall_flat_map_K. destruct Hme as [_ Hacc]. apply allP_Forall in Hacc.
      rewrite Forall_forall in *. intros [?|i] Hx; [constructor|]. apply (H _ Hx). apply (Hacc _ Hx).
    - constructor.
    - apply Forall_flat_map_K. destruct Hme as [_ Ha]. apply allP_Forall in Ha. rewrite Forall_forall in *. intros x Hx. apply H; auto.
    - destruct Hme as (_ & Hp & Hs). apply allP_Forall in Hp, Hs.
      split; apply Forall_flat_map_K; rewrite Forall_forall in *; intros x Hx; [apply H | apply H0]; auto.
    - apply Forall_flat_map_K. destruct Hme as [_ Ha]. apply allP_Forall in Ha. rewrite Forall_forall in *. intros x Hx. apply H; auto.
    - apply Forall_flat_map_K. destruct Hme as [_ Ha]. apply allP_Forall in Ha. rewrite Forall_forall in *. intros x Hx. apply H; auto.
  Qed.

  Lemma matching_metas_stmt_K : forall matcher s, MS s -> Forall K (matching_metas_stmt matcher s).
  Proof.
    intros matcher. induction s using statement_ind'; intros Hms; simpl in *; rewrite ?Forall_app.
    - destruct Hms as (_ & Hc & Hi & He). repeat split; auto using matching_metas_K.
      destruct e as [e'|]; [apply (H e' eq_refl); auto | constructor].
    - destruct Hms as (_ & Hc & Hb). split; auto using matching_metas_K.
    - apply matching_metas_K; tauto.
    - apply Forall_flat_map_K. destruct Hms as [_ Hl]. apply allP_Forall in Hl. rewrite Forall_forall in *. intros x Hx. apply H; auto.
    - apply Forall_flat_map_K. destruct Hms as [_ Hl]. apply allP_Forall in Hl. rewrite Forall_forall in *. intros x Hx. apply matching_metas_K; auto.
    - destruct Hms as (_ & Ha & Hr). split; [|apply matching_metas_K; auto].
      unfold access_metas. apply Forall_flat_map_K. apply allP_Forall in Ha. rewrite Forall_forall in *.
      intros [?|i] Hx; [constructor|]. apply matching_metas_K. apply (Ha _ Hx).
    - destruct Hms as (_ & Hl & Hr). split; apply matching_metas_K; auto.
    - destruct Hms as (_ & Hl & Hr). split; apply matching_metas_K; auto.
    - apply Forall_flat_map_K. destruct Hms as [_ Ha]. apply allP_Forall in Ha. rewrite Forall_forall in *.
      intros [?|x] Hx; [constructor|]. apply matching_metas_K. apply (Ha _ Hx).
    - apply Forall_flat_map_K. destruct Hms as [_ Hl]. apply allP_Forall in Hl. rewrite Forall_forall in *. intros x Hx. apply H; auto.
    - apply matching_metas_K; tauto.
  Qed.

  Lemma find_multi_substitution_K : forall s m, MS s -> find_multi_substitution s = Some m -> K m.
  Proof.
    induction s using statement_ind'; intros mm Hms Hf; cbn [find_multi_substitution] in Hf; simpl in Hms; try discriminate.
    - destruct Hms as (_ & _ & Hi & He). destruct (find_multi_substitution s) eqn:E1.
      + inversion Hf; subst. eauto.
      + destruct e as [e'|]; [|discriminate]. eapply (H e' eq_refl); eauto.
    - destruct Hms as (_ & _ & Hb). eauto.
    - destruct Hms as [_ Hl]. apply allP_Forall in Hl. apply find_list_some in Hf. destruct Hf as (x & Hx & Hfx).
      rewrite Forall_forall in *. eapply H; eauto.
    - inversion Hf; subst. tauto.
    - destruct Hms as [_ Hl]. apply allP_Forall in Hl. apply find_list_some in Hf. destruct Hf as (x & Hx & Hfx).
      rewrite Forall_forall in *. eapply H; eauto.
  Qed.

  Lemma check_function_total : forall body, Forall K (stmt_metas body) -> no_crash (check_function body).
  Proof.
    intros body Hk. apply MS_iff in Hk. unfold check_function.
    destruct (contains_expr_stmt is_tuple body).
    { apply dbind_nc; [apply reports_at_nc; apply matching_metas_stmt_K; auto | intros; exact I]. }
    destruct (contains_expr_stmt is_anonymous_component body).
    { apply dbind_nc; [apply reports_at_nc; apply matching_metas_stmt_K; auto | intros; exact I]. }
    destruct (find_multi_substitution body) eqn:Hf; [|exact I].
    apply dbind_nc; [apply (mk_report_nc lib); eapply find_multi_substitution_K; eauto | intros; exact I].
  Qed.

  Lemma desugar_templates_total : forall env ts acc reps,
    Forall (fun t => wf_template lib (snd t)) ts ->
    exists r, desugar_templates env lib ts acc reps = DOk r.
  Proof.
    intros env. induction ts as [|[n b] rest IH]; intros acc reps H; simpl; [eauto|].
    inversion H; subst. pose proof (desugar_template_total env b H2) as Hnc.
    destruct (desugar_template env lib b); simpl in Hnc; try contradiction; apply IH; auto.
  Qed.

  Lemma desugar_functions_total : forall fs acc reps,
    Forall (fun f => Forall K (stmt_metas (snd f))) fs ->
    exists r, desugar_functions fs acc reps = DOk r.
  Proof.
    induction fs as [|[n b] rest IH]; intros acc reps H; simpl; [eauto|].
    inversion H; subst. pose proof (check_function_total b H2) as Hnc.
    assert (Hne : forall rs, check_function b <> DErr rs).
    { intros rs. unfold check_function.
      assert (R : forall msg l ms rs', reports_at msg l ms <> DErr rs').
      { induction ms as [|m ms IHm]; intros rs'; simpl; [discriminate|].
        unfold mk_report. destruct (m_file m); simpl; [|discriminate].
        destruct (reports_at msg l ms) eqn:E; simpl; try discriminate. exfalso. eapply IHm; eauto. }
      destruct (contains_expr_stmt is_tuple b).
      { destruct (reports_at MFunTuple LTupleHere _) eqn:E; simpl; try discriminate. exfalso; eapply R; eauto. }
      destruct (contains_expr_stmt is_anonymous_component b).
      { destruct (reports_at MFunAnon LAnonHere _) eqn:E; simpl; try discriminate. exfalso; eapply R; eauto. }
      destruct (find_multi_substitution b); [|discriminate].
      unfold mk_report. destruct (m_file m); simpl; discriminate. }
    destruct (check_function b) as [[rs|]| | |]; simpl in *; try contradiction; try (exfalso; eapply Hne; eauto; fail);
      apply IH; auto.
  Qed.

  (* remove_syntactic_sugar never panics and never runs out of fuel on parser
     output: it always returns templates, functions and reports *)
  Theorem remove_syntactic_sugar_total : forall ts fs,
    Forall (fun t => wf_template lib (snd t)) ts ->
    Forall (fun f => Forall K (stmt_metas (snd f))) fs ->
    exists d, remove_syntactic_sugar lib ts fs = DOk d.
  Proof.
    intros ts fs Ht Hf. unfold remove_syntactic_sugar.
    destruct (desugar_templates_total (env_of ts) ts [] [] Ht) as [[t1 r1] E1]. rewrite E1. simpl.
    destruct (desugar_functions_total fs [] r1 Hf) as [[f2 r2] E2]. rewrite E2. simpl. eauto.
  Qed.
End Total5.
