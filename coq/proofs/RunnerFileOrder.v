(* "Input files given in another order", end to end over the models: the files
   get other FileIDs (an injective renumbering [f] of every [d_file], of the
   primary-label files of every report and of the user inputs), the map of
   parsed files is iterated in whatever order, and the name maps are rebuilt by
   Model.RunnerLib.library_of from the RENUMBERED entries.  When no name is
   defined twice the same findings are displayed (renumbered).  When a name is
   defined twice the statement is FALSE - the definition with the smaller new
   FileID is kept - which is the known finding C17-duplicate-name-file-order. *)
From Coq Require Import ZArith List Bool Permutation Lia.
Require Import Model.Base Gen.Category Model.Runner Model.RunnerLib Spec.RunnerSpec
               Proofs.RunnerProofs Proofs.RunnerLibProofs Proofs.RunnerFileIds.
Import ListNotations.
Local Open Scope Z_scope.

Definition rn_entry (f : Z -> Z) (e : entry) : entry := (f (fst e), map (rn_def f) (snd e)).

Lemma lib_fold_nodup_id : forall l m, NoDup (map d_name (m ++ l)) -> fold_left lib_add l m = m ++ l.
Proof.
  induction l as [|d l IH]; simpl; intros m H.
  - rewrite app_nil_r. reflexivity.
  - assert (Hn : first_named (d_name d) m = None).
    { apply first_named_none. rewrite map_app in H. simpl in H. apply NoDup_remove_2 in H.
      intro Hin. apply H. apply in_or_app. left. exact Hin. }
    unfold lib_add at 2. unfold name_used. rewrite Hn.
    rewrite IH; rewrite <- app_assoc; simpl; auto.
Qed.

(* without duplicated names the library is every definition, in file order *)
Lemma library_of_no_duplicates : forall es,
  NoDup (map d_name (flat_map snd es)) -> library_of es = definitions_in_file_order es.
Proof.
  intros es H. unfold library_of. rewrite lib_fold_nodup_id; auto. simpl.
  unfold definitions_in_file_order.
  eapply Permutation_NoDup; [|exact H]. apply Permutation_map. apply Permutation_flat_map. apply sort_entries_perm.
Qed.

Lemma flat_map_rn_entries : forall f es,
  flat_map snd (map (rn_entry f) es) = map (rn_def f) (flat_map snd es).
Proof. intros f es. induction es as [|e es IH]; simpl; auto. rewrite IH, map_app. reflexivity. Qed.

Lemma names_rn : forall f ds, map d_name (map (rn_def f) ds) = map d_name ds.
Proof. intros. rewrite map_map. apply map_ext. reflexivity. Qed.

Theorem library_of_renumbered_files : forall f es,
  NoDup (map d_name (flat_map snd es)) ->
  Permutation (library_of (map (rn_entry f) es)) (map (rn_def f) (library_of es)).
Proof.
  intros f es H.
  rewrite (library_of_no_duplicates es H).
  rewrite library_of_no_duplicates by (rewrite flat_map_rn_entries, names_rn; exact H).
  unfold definitions_in_file_order.
  eapply Permutation_trans. { apply Permutation_flat_map. apply Permutation_sym. apply sort_entries_perm. }
  rewrite flat_map_rn_entries. apply Permutation_map. apply Permutation_flat_map. apply sort_entries_perm.
Qed.

Theorem files_in_another_order : forall f parse es es' user o order order',
  injective f ->
  NoDup (map d_name (flat_map snd es)) ->
  Permutation es' (map (rn_entry f) es) ->
  let p := mkProject parse (library_of es) user in
  let p' := mkProject (map (rn_report f) parse) (library_of es') (map f user) in
  analysis_order p order -> analysis_order p' order' ->
  Permutation (res_shown (run_keys p' o order')) (map (rn_report f) (res_shown (run_keys p o order))) /\
  res_exit (run_keys p' o order') = res_exit (run_keys p o order).
Proof.
  intros f parse es es' user o order order' Hinj Hnd Hes p p' Ho Ho'.
  assert (Wp : wf_project p) by apply library_wf.
  assert (Wp' : wf_project p') by apply library_wf.
  assert (Hlib : Permutation (library_of es') (map (rn_def f) (library_of es))).
  { assert (Hnd' : NoDup (map d_name (flat_map snd es'))).
    { eapply Permutation_NoDup.
      - apply Permutation_map. apply Permutation_flat_map. apply Permutation_sym. exact Hes.
      - rewrite flat_map_rn_entries, names_rn. exact Hnd. }
    rewrite (library_of_no_duplicates es' Hnd').
    eapply Permutation_trans; [|apply library_of_renumbered_files; exact Hnd].
    rewrite library_of_no_duplicates by (rewrite flat_map_rn_entries, names_rn; exact Hnd).
    unfold definitions_in_file_order.
    eapply Permutation_trans. { apply Permutation_flat_map. apply Permutation_sym. apply sort_entries_perm. }
    eapply Permutation_trans. { apply Permutation_flat_map. exact Hes. }
    apply Permutation_flat_map. apply sort_entries_perm. }
  assert (HP : Permutation (res_shown (run_keys p' o order')) (map (rn_report f) (res_shown (run_keys p o order)))).
  { eapply Permutation_trans. apply conservation; auto.
    eapply Permutation_trans.
    { apply Permutation_filter'. unfold p'. apply (produced_perm _ (map (rn_report f) parse) _ (map (rn_def f) (library_of es)) (map f user)).
      apply Permutation_refl. exact Hlib. }
    change (mkProject (map (rn_report f) parse) (map (rn_def f) (library_of es)) (map f user)) with (rn_project f p).
    rewrite (produced_rn f Hinj).
    simpl. rewrite (filter_map_comm _ _ (rn_report f) (keep_b o (map f user)) (keep_b o user))
      by (intros r; apply (keep_b_rn f Hinj)).
    apply Permutation_map. apply Permutation_sym. apply (conservation p o order Wp Ho). }
  split; auto.
  destruct (run_keys_spec p' o order' (analysis_order_ok _ _ Wp' Ho')) as [A1 [_ [C1 _]]].
  destruct (run_keys_spec p o order (analysis_order_ok _ _ Wp Ho)) as [A2 [_ [C2 _]]].
  pose proof (Permutation_length HP) as HL. rewrite map_length in HL. rewrite A1, A2 in HL.
  rewrite C1, C2, HL. reflexivity.
Qed.

(* with a duplicated name the statement is false: the two files swap their ids
   and the OTHER definition of T is kept (known finding
   C17-duplicate-name-file-order) *)
Theorem files_in_another_order_refuted_with_duplicated_name :
  exists f es,
    injective f /\ NoDup (map fst es) /\
    ~ NoDup (map d_name (flat_map snd es)) /\
    ~ Permutation (library_of (map (rn_entry f) es)) (map (rn_def f) (library_of es)).
Proof.
  exists swap01, [(0, [ex_a]); (1, [ex_b])].
  split. exact swap01_injective.
  split. { simpl. repeat constructor; simpl; intuition discriminate. }
  split. { simpl. intro H. inversion H as [|? ? Hn _]; subst. apply Hn. left. reflexivity. }
  vm_compute. intro H. apply Permutation_length_1 in H. discriminate.
Qed.
