(* C02 (third pass): WHERE the desugarer's error reports are located, and which
   definitions it drops.  Lemmas about Model.Desugar (C18's mirror, imported
   unchanged) in the style of Proofs.DesugarMetas:

   * every error report `remove_anonymous_from_statement` /
     `remove_tuples_from_statement` raise for a template body, and every report
     `remove_syntactic_sugar` pushes for a function body, is located at a meta
     OF THAT BODY ([desugar_template_error_located],
     [check_function_reports_located]): for any predicate Q that holds of all
     metas of the body, Q holds of the (start, end, file) of the report;
   * a template / function that is an input of `remove_syntactic_sugar` and has
     no entry in its output was answered by such a report, and the report is
     in the collection handed back ([remove_syntactic_sugar_drop_reported]). *)
From Coq Require Import ZArith NArith List Bool String Lia.
Require Import Model.Ast Model.Desugar Spec.ExpandSpec Proofs.DesugarProofs Proofs.DesugarMetas.
Import ListNotations.
Local Open Scope list_scope.

(* the meta a report was raised at: `meta.file_location()`, `meta.get_file_id()` *)
Definition report_meta (r : Desugar.report) : meta := Meta (r_start r) (r_end r) (Some (r_file r)).

Lemma dbind_err : forall {A B} (m : dres A) (f : A -> dres B) rep,
  dbind m f = DErr rep -> m = DErr rep \/ exists a, m = DOk a /\ f a = DErr rep.
Proof.
  intros A B [a|r|s|] f rep H; simpl in H; try discriminate.
  - right. eauto.
  - left. congruence.
Qed.

Section ErrLoc.
  Variable Q : meta -> Prop.
  Notation ME := (ME Q).
  Notation MS := (MS Q).
  Notation MA := (MA Q).
  Notation ML := (ML Q).
  Notation va_M := (va_M Q).
  Notation rae_M := (rae_M Q).

  Definition EQ {A} (r : dres A) : Prop := forall rep, r = DErr rep -> Q (report_meta rep).

  Lemma ME_meta : forall e, ME e -> Q (expr_meta e).
  Proof. intros e H. destruct e; simpl in H; tauto. Qed.

  Lemma MS_meta : forall s, MS s -> Q (stmt_meta s).
  Proof. intros s H. destruct s; simpl in H; tauto. Qed.

  Lemma mk_report_loc : forall c m msg l rep, Q m -> mk_report c m msg l = DOk rep -> Q (report_meta rep).
  Proof.
    intros c [s e f] msg l rep Hq H. unfold mk_report in H. simpl in H.
    destruct f as [f|]; [|discriminate]. inversion H; subst. exact Hq.
  Qed.

  Lemma mk_report_no_err : forall c m msg l rep, mk_report c m msg l <> DErr rep.
  Proof. intros c m msg l rep. unfold mk_report. destruct (m_file m); discriminate. Qed.

  Lemma fail_EQ : forall {A} c m msg, Q m -> EQ (@fail A c m msg).
  Proof.
    intros A c m msg Hq rep H. unfold fail in H. apply dbind_err in H.
    destruct H as [H|(r & Hr & H)].
    - exfalso. exact (mk_report_no_err _ _ _ _ _ H).
    - inversion H; subst. eapply mk_report_loc; eauto.
  Qed.

  Lemma ok_EQ : forall {A} (a : A), EQ (DOk a).
  Proof. intros A a rep H. discriminate. Qed.

  Lemma bind_EQ : forall {A B} (m : dres A) (f : A -> dres B),
    EQ m -> (forall a, m = DOk a -> EQ (f a)) -> EQ (dbind m f).
  Proof.
    intros A B m f Hm Hf rep H. apply dbind_err in H. destruct H as [H|(a & Ha & H)].
    - apply Hm; auto.
    - eapply Hf; eauto.
  Qed.

  Lemma gen_name_EQ : forall lib prefix m, EQ (gen_name lib prefix m).
  Proof.
    intros lib prefix m rep H. unfold gen_name in H.
    destruct (m_file m); [|discriminate]. destruct (get_line lib (m_start m) n); discriminate.
  Qed.

  Lemma split_string_EQ : forall fuel s, EQ (split_string fuel s).
  Proof.
    induction fuel as [|fuel IH]; intros s rep H.
    - destruct s; simpl in H; discriminate.
    - destruct s as [|c s']; [simpl in H; discriminate|].
      rewrite split_string_S in H. cbv zeta in H. apply dbind_err in H.
      destruct H as [H|(a & _ & H)]; [eapply IH; eauto | discriminate].
  Qed.

  Lemma build_log_args_EQ : forall args, EQ (build_log_args args).
  Proof.
    induction args as [|a rest IH]; intros rep H; simpl in H; [discriminate|].
    destruct a as [s|e].
    - apply dbind_err in H. destruct H as [H|(c & _ & H)]; [eapply split_string_EQ; eauto|].
      apply dbind_err in H. destruct H as [H|(v & _ & H)]; [eapply IH; eauto | discriminate].
    - apply dbind_err in H. destruct H as [H|(v & _ & H)]; [eapply IH; eauto | discriminate].
  Qed.

  Lemma build_log_call_EQ : forall m args, EQ (build_log_call m args).
  Proof.
    intros m args rep H. unfold build_log_call in H. apply dbind_err in H.
    destruct H as [H|(v & _ & H)]; [eapply build_log_args_EQ; eauto | discriminate].
  Qed.

  (* ---- pass 1 ---- *)

  Lemma select_named_EQ : forall m inputs names ops n sel,
    Q m -> EQ (select_named m inputs names ops n sel).
  Proof.
    intros m. induction inputs as [|inp rest IH]; intros names ops n sel Hq rep H; simpl in H; [discriminate|].
    destruct (position (fst inp) names) as [pos|].
    - destruct (pos <? n)%nat; [|discriminate]. destruct (nth_error ops pos); [|discriminate].
      eapply IH; eauto.
    - (eapply fail_EQ; [|exact H]; eauto).
  Qed.

  Lemma assign_inputs_EQ : forall va m id results sel inputs i ss ds,
    Forall rae_M results -> Forall EQ results ->
    EQ (assign_inputs va m id results sel inputs i ss ds).
  Proof.
    intros va m id results sel inputs. induction inputs as [|inp rest IH];
      intros i ss ds Hres Herr rep H; simpl in H; [discriminate|].
    destruct (nth_error sel i) as [[pos o]|]; [|discriminate].
    destruct (nth_error results pos) as [r|] eqn:Hr; [|discriminate].
    apply nth_error_In in Hr.
    pose proof (proj1 (Forall_forall _ _) Hres _ Hr) as HrM.
    pose proof (proj1 (Forall_forall _ _) Herr _ Hr) as HrE.
    apply dbind_err in H. destruct H as [H|([[stmts decls] e] & Ha & H)]; [apply HrE; auto|].
    destruct (HrM _ _ _ Ha) as (He & _ & _).
    destruct (contains_anon e).
    - eapply fail_EQ; [|exact H]. apply ME_meta; auto.
    - eapply IH; eauto.
  Qed.

  Lemma anon_component_EQ : forall env lib va m id par ps ss names results,
    Q m -> Forall rae_M results -> Forall EQ results ->
    EQ (anon_component env lib va m id par ps ss names results).
  Proof.
    intros env lib va m id par ps ss names results Hq Hres Herr rep H.
    unfold anon_component in H.
    destruct (lookup_template id env) as [template|].
    - apply dbind_err in H. destruct H as [H|(nm & _ & H)]; [eapply gen_name_EQ; eauto|].
      destruct (contains_anon (Call m id ps)); [(eapply fail_EQ; [|exact H]; eauto)|].
      apply dbind_err in H. destruct H as [H|(sel & _ & H)].
      + destruct names as [nmz|]; [eapply select_named_EQ; eauto | discriminate].
      + match type of H with (if ?c then _ else _) = _ => destruct c end; [(eapply fail_EQ; [|exact H]; eauto)|].
        apply dbind_err in H. destruct H as [H|([s1 d1] & _ & H)]; [eapply assign_inputs_EQ; eauto|].
        destruct (ti_outputs template) as [|o [|o2 outs]]; discriminate.
    - apply dbind_err in H. destruct H as [H|(r & Hr & H)].
      + exfalso. exact (mk_report_no_err _ _ _ _ _ H).
      + inversion H; subst. eapply mk_report_loc; eauto.
  Qed.

  Lemma collect_tuple_EQ : forall results ss ds vs,
    Forall EQ results -> EQ (collect_tuple results ss ds vs).
  Proof.
    induction results as [|r rest IH]; intros ss ds vs Herr rep H; simpl in H; [discriminate|].
    inversion Herr; subst.
    apply dbind_err in H. destruct H as [H|([[s1 d1] v1] & _ & H)]; [auto|]. eapply IH; eauto.
  Qed.

  Definition rae_PE env lib va (e : expression) : Prop :=
    ME e ->
    EQ (remove_anonymous_from_expression env lib va e) /\
    match e with
    | AnonymousComponent _ _ _ _ ss _ =>
        Forall EQ (map (remove_anonymous_from_expression env lib va) ss)
    | _ => True
    end.

  Lemma find_ME : forall p l x, Forall ME l -> find p l = Some x -> ME x.
  Proof.
    intros p l x Hl Hf. apply find_some in Hf. destruct Hf as [Hin _].
    rewrite Forall_forall in Hl. auto.
  Qed.

  Ltac fail_case :=
    let rep := fresh "rep" in let E := fresh "E" in
    intros rep E;
    repeat match type of E with
           | (if ?c then _ else _) = _ => destruct c
           end;
    first [ discriminate E | (eapply fail_EQ; [|exact E]; auto) ].

  Lemma rae_E_strong : forall env lib va e, va_M va -> rae_PE env lib va e.
  Proof.
    intros env lib va e Hva. induction e using expression_ind'; intros Hme; (split; [|try exact I]);
      cbn [remove_anonymous_from_expression]; unfold first_such.
    - destruct Hme as (Hm & _). fail_case.
    - destruct Hme as (Hm & _). fail_case.
    - destruct Hme as (Hm & _). fail_case.
    - (* ParallelOp *)
      pose proof Hme as Hall. destruct Hme as [Hm Hr].
      destruct (negb (is_call e) && negb (is_anonymous_component e) && contains_anon e); [fail_case|].
      destruct (is_call e && contains_anon e); [fail_case|].
      destruct e; try (intros rep E; discriminate E).
      simpl in Hr. destruct Hr as (Hm0 & Hps & Hss).
      apply anon_component_EQ; auto.
      + apply Forall_map. apply allP_Forall in Hss. rewrite Forall_forall in *. intros x Hx.
        apply rae_M_ok; auto.
      + apply (IHe (conj Hm0 (conj Hps Hss))).
    - destruct Hme as (Hm & _). fail_case.
    - intros rep E. discriminate E.
    - destruct Hme as (Hm & _). intros rep E. destruct (find contains_anon args); [|discriminate E].
      eapply fail_EQ; [|exact E]; auto.
    - (* Anon *)
      simpl in Hme. destruct Hme as (Hm & Hps & Hss). apply allP_Forall in Hss.
      apply anon_component_EQ; auto.
      + apply Forall_map. rewrite Forall_forall in *. intros x Hx. apply rae_M_ok; auto.
      + apply Forall_map. rewrite Forall_forall in *. intros x Hx. apply H0; auto.
    - simpl in Hme. destruct Hme as (Hm & Hps & Hss). apply allP_Forall in Hss.
      apply Forall_map. rewrite Forall_forall in *. intros x Hx. apply H0; auto.
    - (* ArrayInLine *)
      simpl in Hme. destruct Hme as (Hm & Hvs). apply allP_Forall in Hvs.
      intros rep E. destruct (find contains_anon vs) as [value|] eqn:Hf; [|discriminate E].
      eapply fail_EQ; [|exact E]. apply ME_meta. eapply find_ME; eauto.
    - (* Tuple *)
      simpl in Hme. destruct Hme as (Hm & Hvs). apply allP_Forall in Hvs.
      intros rep E. apply dbind_err in E. destruct E as [E|([[s1 d1] v1] & _ & E)]; [|discriminate E].
      eapply collect_tuple_EQ; [|exact E].
      apply Forall_map. rewrite Forall_forall in *. intros x Hx. apply H; auto.
  Qed.

  Lemma rae_EQ : forall env lib va e, va_M va -> ME e ->
    EQ (remove_anonymous_from_expression env lib va e).
  Proof. intros. apply rae_E_strong; auto. Qed.

  Lemma ras_list_EQ : forall (f : statement -> dres (statement * list statement)) l ns ds,
    Forall (fun s => EQ (f s)) l -> EQ (ras_list f l ns ds).
  Proof.
    intros f. induction l as [|s rest IH]; intros ns ds Hl rep H; simpl in H; [discriminate|].
    inversion Hl; subst.
    apply dbind_err in H. destruct H as [H|([s1 d1] & _ & H)]; [auto|]. eapply IH; eauto.
  Qed.

  Lemma access_first_such_ME : forall p acc i,
    Forall MA acc -> access_first_such p acc = Some i -> ME i.
  Proof.
    intros p acc i Hacc H. unfold access_first_such in H.
    destruct (find _ acc) as [a|] eqn:Hf; [|discriminate].
    apply find_some in Hf. destruct Hf as [Hin _]. destruct a as [?|j]; [discriminate|].
    inversion H; subst. rewrite Forall_forall in Hacc. exact (Hacc _ Hin).
  Qed.

  Lemma ras_EQ : forall env lib s va, va_M va -> MS s ->
    EQ (remove_anonymous_from_statement env lib va s).
  Proof.
    intros env lib. induction s using statement_ind'; intros va Hva Hms rep Hr;
      cbn [remove_anonymous_from_statement] in Hr; simpl in Hms.
    - (* IfThenElse *)
      destruct Hms as (Hm & Hc & Hi & He).
      destruct (contains_anon c); [(eapply fail_EQ; [|exact Hr]; eauto)|].
      apply dbind_err in Hr. destruct Hr as [Hr|([s1 d1] & _ & Hr)]; [eapply IHs; eauto|].
      destruct e as [e'|]; [|discriminate Hr].
      apply dbind_err in Hr. destruct Hr as [Hr|([s2 d2] & _ & Hr)]; [eapply H; eauto | discriminate Hr].
    - (* While *)
      destruct Hms as (Hm & Hc & Hb).
      destruct (contains_anon c); [eapply fail_EQ; [|exact Hr]; apply ME_meta; auto|].
      apply dbind_err in Hr. destruct Hr as [Hr|(nm & _ & Hr)]; [eapply gen_name_EQ; eauto|].
      assert (Hva' : va_M (Some (Variable_ m nm []))) by (simpl; auto).
      apply dbind_err in Hr. destruct Hr as [Hr|([s1 d1] & _ & Hr)]; [eapply IHs; eauto|].
      destruct (existsb (decl_uses_counter nm) d1); discriminate Hr.
    - destruct Hms as (Hm & _). destruct (contains_anon v); [(eapply fail_EQ; [|exact Hr]; eauto) | discriminate Hr].
    - destruct Hms as (Hm & Hl). apply allP_Forall in Hl.
      apply dbind_err in Hr. destruct Hr as [Hr|([s1 d1] & _ & Hr)]; [|discriminate Hr].
      eapply ras_list_EQ; [|exact Hr]. rewrite Forall_forall in *. intros x Hx. apply H; auto.
    - destruct Hms as (Hm & Hd). apply allP_Forall in Hd.
      unfold first_such in Hr. destruct (find contains_anon d) as [exp|] eqn:Hf; [|discriminate Hr].
      eapply fail_EQ; [|exact Hr]. apply ME_meta. eapply find_ME; eauto.
    - (* Substitution *)
      destruct Hms as (Hm & Hacc & Hrhe). apply allP_Forall in Hacc.
      destruct (access_first_such contains_anon a) as [index|] eqn:Hf.
      + eapply fail_EQ; [|exact Hr]. apply ME_meta. eapply access_first_such_ME; eauto.
      + apply dbind_err in Hr. destruct Hr as [Hr|([[s1 d1] e1] & _ & Hr)]; [eapply rae_EQ; eauto|].
        destruct (is_nil s1); discriminate Hr.
    - (* MultiSubstitution *)
      destruct Hms as (Hm & Hlhe & Hrhe).
      destruct (contains_anon l); [eapply fail_EQ; [|exact Hr]; apply ME_meta; auto|].
      apply dbind_err in Hr. destruct Hr as [Hr|([[s1 d1] e1] & _ & Hr)]; [eapply rae_EQ; eauto|].
      destruct (is_nil s1); discriminate Hr.
    - destruct Hms as (Hm & _). destruct (contains_anon l || contains_anon r); [(eapply fail_EQ; [|exact Hr]; eauto) | discriminate Hr].
    - (* LogCall *)
      destruct Hms as (Hm & _).
      destruct (existsb (log_arg_contains is_anonymous_component) a); [(eapply fail_EQ; [|exact Hr]; eauto)|].
      apply dbind_err in Hr. destruct Hr as [Hr|(s1 & _ & Hr)]; [eapply build_log_call_EQ; eauto | discriminate Hr].
    - destruct Hms as (Hm & Hl). apply allP_Forall in Hl.
      apply dbind_err in Hr. destruct Hr as [Hr|([s1 d1] & _ & Hr)]; [|discriminate Hr].
      eapply ras_list_EQ; [|exact Hr]. rewrite Forall_forall in *. intros x Hx. apply H; auto.
    - destruct Hms as (Hm & _). destruct (contains_anon a); [(eapply fail_EQ; [|exact Hr]; eauto) | discriminate Hr].
  Qed.

  Lemma separate_declarations_EQ : forall decls c v s, EQ (separate_declarations decls c v s).
  Proof.
    induction decls as [|d rest IH]; intros c v s rep H; simpl in H; [discriminate|].
    destruct d; try discriminate H.
    - destruct (variable_type_is_component xtype); [eapply IH; eauto|].
      destruct (variable_type_is_var xtype); [eapply IH; eauto | discriminate H].
    - eapply IH; eauto.
  Qed.

  (* ---- pass 2 ---- *)

  Lemma unfold_values_EQ : forall results acc,
    Forall EQ results -> EQ (unfold_values results acc).
  Proof.
    induction results as [|r rest IH]; intros acc Herr rep H; simpl in H; [discriminate|].
    inversion Herr; subst.
    apply dbind_err in H. destruct H as [H|(v & _ & H)]; [auto|].
    destruct v; eapply IH; eauto.
  Qed.

  Lemma rte_EQ : forall e, ME e -> EQ (remove_tuple_from_expression e).
  Proof.
    induction e using expression_ind'; intros Hme; cbn [remove_tuple_from_expression];
      try (destruct Hme as (Hm & _); fail_case).
    simpl in Hme. destruct Hme as (Hm & Hvs). apply allP_Forall in Hvs.
      intros rep E. apply dbind_err in E. destruct E as [E|(u & _ & E)]; [|discriminate E].
      eapply unfold_values_EQ; [|exact E].
      apply Forall_map. rewrite Forall_forall in *. intros x Hx. apply H; auto.
  Qed.

  Lemma tuple_substs_EQ : forall m o ls rs acc, Q m -> EQ (tuple_substs m o ls rs acc).
  Proof.
    intros m o. induction ls as [|l ls IH]; intros rs acc Hq rep H; simpl in H; [discriminate|].
    destruct l; try (eapply fail_EQ; [|exact H]; auto; fail).
    destruct rs as [|r rs]; [discriminate|]. eapply IH; eauto.
  Qed.

  Lemma check_log_args_EQ : forall args, Forall ML args -> EQ (check_log_args args).
  Proof.
    induction args as [|a rest IH]; intros Hargs rep H; simpl in H; [discriminate|].
    inversion Hargs; subst. destruct a as [s|v]; [eapply IH; eauto|].
    apply dbind_err in H. destruct H as [H|(x & _ & H)]; [eapply rte_EQ; eauto | eapply IH; eauto].
  Qed.

  Lemma log_new_args_EQ : forall args acc, Forall ML args -> EQ (log_new_args args acc).
  Proof.
    induction args as [|a rest IH]; intros acc Hargs rep H; simpl in H; [discriminate|].
    inversion Hargs; subst. destruct a as [s|x]; [eapply IH; eauto|].
    apply dbind_err in H. destruct H as [H|(u & _ & H)]; [|eapply IH; eauto].
    eapply check_log_args_EQ; [|exact H].
    unfold separate_tuple_for_log_call. simpl. rewrite app_nil_r. apply sep_log_M; auto.
  Qed.

  Lemma rts_list_EQ : forall (f : statement -> dres statement) l acc,
    Forall (fun s => EQ (f s)) l -> EQ (rts_list f l acc).
  Proof.
    intros f. induction l as [|s rest IH]; intros acc Hl rep H; simpl in H; [discriminate|].
    inversion Hl; subst.
    apply dbind_err in H. destruct H as [H|(s1 & _ & H)]; [auto|]. eapply IH; eauto.
  Qed.

  Lemma rts_EQ : forall s, MS s -> EQ (remove_tuples_from_statement s).
  Proof.
    induction s using statement_ind'; intros Hms rep Hr; cbn [remove_tuples_from_statement] in Hr; simpl in Hms.
    - destruct Hms as (Hm & Hc & Hi & He).
      destruct (contains_tuple c); [(eapply fail_EQ; [|exact Hr]; eauto)|].
      apply dbind_err in Hr. destruct Hr as [Hr|(s1 & _ & Hr)]; [eapply IHs; eauto|].
      destruct e as [e'|]; [|discriminate Hr].
      apply dbind_err in Hr. destruct Hr as [Hr|(s2 & _ & Hr)]; [eapply H; eauto | discriminate Hr].
    - destruct Hms as (Hm & Hc & Hb).
      destruct (contains_tuple c); [(eapply fail_EQ; [|exact Hr]; eauto)|].
      apply dbind_err in Hr. destruct Hr as [Hr|(s1 & _ & Hr)]; [eapply IHs; eauto | discriminate Hr].
    - destruct Hms as (Hm & _). destruct (contains_tuple v); [(eapply fail_EQ; [|exact Hr]; eauto) | discriminate Hr].
    - destruct Hms as (Hm & Hl). apply allP_Forall in Hl.
      apply dbind_err in Hr. destruct Hr as [Hr|(s1 & _ & Hr)]; [|discriminate Hr].
      eapply rts_list_EQ; [|exact Hr]. rewrite Forall_forall in *. intros x Hx. apply H; auto.
    - destruct Hms as (Hm & _). destruct (existsb contains_tuple d); [(eapply fail_EQ; [|exact Hr]; eauto) | discriminate Hr].
    - (* Substitution *)
      destruct Hms as (Hm & Hacc & Hrhe). apply allP_Forall in Hacc.
      apply dbind_err in Hr. destruct Hr as [Hr|(e1 & _ & Hr)]; [eapply rte_EQ; eauto|].
      destruct (is_tuple e1); [(eapply fail_EQ; [|exact Hr]; eauto)|].
      destruct (access_first_such contains_tuple a) as [index|] eqn:Hf.
      + eapply fail_EQ; [|exact Hr]. apply ME_meta. eapply access_first_such_ME; eauto.
      + destruct (negb (String.eqb v "_")); discriminate Hr.
    - (* MultiSubstitution *)
      destruct Hms as (Hm & Hl & Hrhe).
      apply dbind_err in Hr. destruct Hr as [Hr|(l1 & Hl1 & Hr)]; [eapply rte_EQ; [exact Hl | exact Hr]|].
      apply dbind_err in Hr. destruct Hr as [Hr|(r1 & Hr1 & Hr)]; [eapply rte_EQ; [exact Hrhe | exact Hr]|].
      pose proof (rte_M Q _ _ Hl Hl1) as Hl'. pose proof (rte_M Q _ _ Hrhe Hr1) as Hr'.
      pose proof (ME_meta _ Hl') as Hql. pose proof (ME_meta _ Hr') as Hqr.
      destruct l1 as [| | | | | | | | |ml lvals];
        try solve [match type of Hr with (if ?c then _ else _) = _ => destruct c end; (eapply fail_EQ; [|exact Hr]; eauto)].
      destruct r1 as [| | | | | | | | |mr rvals];
        try solve [match type of Hr with (if ?c then _ else _) = _ => destruct c end; (eapply fail_EQ; [|exact Hr]; eauto)].
      destruct (Nat.eqb (List.length lvals) (List.length rvals)).
      + apply dbind_err in Hr. destruct Hr as [Hr|(su & _ & Hr)]; [eapply tuple_substs_EQ; [|exact Hr]; auto | discriminate Hr].
      + destruct (negb (is_nil lvals)); (eapply fail_EQ; [|exact Hr]; eauto).
    - destruct Hms as (Hm & _). destruct (contains_tuple l || contains_tuple r); [(eapply fail_EQ; [|exact Hr]; eauto) | discriminate Hr].
    - (* LogCall *)
      destruct Hms as (Hm & Hargs). apply allP_Forall in Hargs.
      apply dbind_err in Hr. destruct Hr as [Hr|(na & _ & Hr)]; [eapply log_new_args_EQ; eauto|].
      eapply build_log_call_EQ; eauto.
    - destruct Hms as (Hm & Hl). apply allP_Forall in Hl.
      apply dbind_err in Hr. destruct Hr as [Hr|(s1 & _ & Hr)]; [|discriminate Hr].
      eapply rts_list_EQ; [|exact Hr]. rewrite Forall_forall in *. intros x Hx. apply H; auto.
    - destruct Hms as (Hm & _). destruct (contains_tuple a); [(eapply fail_EQ; [|exact Hr]; eauto) | discriminate Hr].
  Qed.

  (* ---- a template body ---- *)

  Theorem desugar_template_EQ : forall env lib body, MS body -> EQ (desugar_template env lib body).
  Proof.
    intros env lib body Hms rep H. unfold desugar_template in H.
    apply dbind_err in H. destruct H as [H|([s d] & Ha & H)]; [eapply ras_EQ; eauto; exact I|].
    destruct (ras_M_ok Q env lib body None I Hms _ _ Ha) as [Hs Hd].
    destruct s; try discriminate H.
    apply dbind_err in H. destruct H as [H|([[c v] su] & Ha0 & H)]; [eapply separate_declarations_EQ; eauto|].
    eapply (separate_declarations_forall MS) in Ha0; eauto. destruct Ha0 as (Hc & Hv & Hsub).
    eapply rts_EQ; [|exact H]. simpl in Hs. destruct Hs as [Hm Hst]. apply allP_Forall in Hst.
    simpl. split; auto. split; [split; auto; apply allP_Forall; auto|].
    apply allP_Forall. apply Forall_app. split; auto.
    constructor; auto. simpl. split; auto. apply allP_Forall; auto.
  Qed.

  (* ---- a function body ---- *)

  Lemma Forall_flat_map_in : forall {A B} (R : B -> Prop) (g : A -> list B) l,
    Forall (fun x => Forall R (g x)) l -> Forall R (flat_map g l).
  Proof.
    induction l as [|x l IH]; intros H; simpl; [constructor|].
    inversion H; subst. apply Forall_app. auto.
  Qed.

  Lemma matching_metas_Q : forall matcher e, ME e -> Forall Q (matching_metas matcher e).
  Proof.
    intros matcher. induction e using expression_ind'; intros Hme; cbn [matching_metas];
      (destruct (matcher _); [constructor; [apply (ME_meta _ Hme) | constructor]|]); simpl in Hme.
    - destruct Hme as (_ & H1 & H2). apply Forall_app. auto.
    - destruct Hme as (_ & H1). auto.
    - destruct Hme as (_ & H1 & H2 & H3). apply Forall_app. split; auto. apply Forall_app. auto.
    - destruct Hme as (_ & H1). auto.
    - destruct Hme as (_ & Hacc). apply allP_Forall in Hacc. unfold access_metas.
      apply Forall_flat_map_in. rewrite Forall_forall in *. intros [?|i] Hx; [constructor|].
      apply (H _ Hx). apply (Hacc _ Hx).
    - constructor.
    - destruct Hme as (_ & Hargs). apply allP_Forall in Hargs.
      apply Forall_flat_map_in. rewrite Forall_forall in *. intros x Hx. apply H; auto.
    - destruct Hme as (_ & Hps & Hss). apply allP_Forall in Hps, Hss. apply Forall_app. split.
      + apply Forall_flat_map_in. rewrite Forall_forall in *. intros x Hx. apply H; auto.
      + apply Forall_flat_map_in. rewrite Forall_forall in *. intros x Hx. apply H0; auto.
    - destruct Hme as (_ & Hvs). apply allP_Forall in Hvs.
      apply Forall_flat_map_in. rewrite Forall_forall in *. intros x Hx. apply H; auto.
    - destruct Hme as (_ & Hvs). apply allP_Forall in Hvs.
      apply Forall_flat_map_in. rewrite Forall_forall in *. intros x Hx. apply H; auto.
  Qed.

  Lemma matching_metas_stmt_Q : forall matcher s, MS s -> Forall Q (matching_metas_stmt matcher s).
  Proof.
    intros matcher. induction s using statement_ind'; intros Hms; cbn [matching_metas_stmt]; simpl in Hms.
    - destruct Hms as (_ & Hc & Hi & He). apply Forall_app. split; [apply matching_metas_Q; auto|].
      apply Forall_app. split; auto. destruct e as [e'|]; [apply (H e' eq_refl); auto | constructor].
    - destruct Hms as (_ & Hc & Hb). apply Forall_app. split; [apply matching_metas_Q; auto | auto].
    - destruct Hms as (_ & Hv). apply matching_metas_Q; auto.
    - destruct Hms as (_ & Hl). apply allP_Forall in Hl.
      apply Forall_flat_map_in. rewrite Forall_forall in *. intros x Hx. apply H; auto.
    - destruct Hms as (_ & Hd). apply allP_Forall in Hd.
      apply Forall_flat_map_in. rewrite Forall_forall in *. intros x Hx. apply matching_metas_Q; auto.
    - destruct Hms as (_ & Hacc & Hr). apply allP_Forall in Hacc. apply Forall_app. split; [|apply matching_metas_Q; auto].
      unfold access_metas. apply Forall_flat_map_in. rewrite Forall_forall in *. intros [?|i] Hx; [constructor|].
      apply matching_metas_Q. apply (Hacc _ Hx).
    - destruct Hms as (_ & H1 & H2). apply Forall_app. split; apply matching_metas_Q; auto.
    - destruct Hms as (_ & H1 & H2). apply Forall_app. split; apply matching_metas_Q; auto.
    - destruct Hms as (_ & Hargs). apply allP_Forall in Hargs.
      apply Forall_flat_map_in. rewrite Forall_forall in *. intros [?|x] Hx; [constructor|].
      apply matching_metas_Q. apply (Hargs _ Hx).
    - destruct Hms as (_ & Hl). apply allP_Forall in Hl.
      apply Forall_flat_map_in. rewrite Forall_forall in *. intros x Hx. apply H; auto.
    - destruct Hms as (_ & Ha). apply matching_metas_Q; auto.
  Qed.

  Lemma find_list_Q : forall (f : statement -> option meta) l m,
    Forall (fun s => forall m, f s = Some m -> Q m) l -> find_list f l = Some m -> Q m.
  Proof.
    intros f. induction l as [|s rest IH]; intros m Hl H; simpl in H; [discriminate|].
    inversion Hl; subst. destruct (f s) eqn:Hf; [inversion H; subst; auto | eauto].
  Qed.

  Lemma find_multi_substitution_Q : forall s m, MS s -> find_multi_substitution s = Some m -> Q m.
  Proof.
    induction s using statement_ind'; intros mm Hms Hf; cbn [find_multi_substitution] in Hf;
      simpl in Hms; try discriminate Hf.
    - destruct Hms as (_ & _ & Hi & He).
      destruct (find_multi_substitution s) eqn:E1; [inversion Hf; subst; eauto|].
      destruct e as [e'|]; [|discriminate Hf]. eapply (H e' eq_refl); eauto.
    - destruct Hms as (_ & _ & Hb). eauto.
    - destruct Hms as (_ & Hl). apply allP_Forall in Hl. eapply find_list_Q; [|exact Hf].
      rewrite Forall_forall in *. intros x Hx m0 Hm0. eapply H; eauto.
    - destruct Hms as (Hm & _). inversion Hf; subst. exact Hm.
    - destruct Hms as (_ & Hl). apply allP_Forall in Hl. eapply find_list_Q; [|exact Hf].
      rewrite Forall_forall in *. intros x Hx m0 Hm0. eapply H; eauto.
  Qed.

  Lemma reports_at_loc : forall msg label metas rs,
    Forall Q metas -> reports_at msg label metas = DOk rs -> Forall (fun r => Q (report_meta r)) rs.
  Proof.
    intros msg label. induction metas as [|m rest IH]; intros rs Hq H; simpl in H.
    - inv_ok. constructor.
    - inversion Hq; subst. inv_ok. constructor; [eapply mk_report_loc; eauto | eauto].
  Qed.

  Theorem check_function_reports_located : forall body rs,
    MS body -> check_function body = DOk (Some rs) -> Forall (fun r => Q (report_meta r)) rs.
  Proof.
    intros body rs Hms H. unfold check_function in H.
    destruct (contains_expr_stmt is_tuple body).
    { inv_ok. eapply reports_at_loc; [|exact Ha]. apply matching_metas_stmt_Q; auto. }
    destruct (contains_expr_stmt is_anonymous_component body).
    { inv_ok. eapply reports_at_loc; [|exact Ha]. apply matching_metas_stmt_Q; auto. }
    destruct (find_multi_substitution body) eqn:Hm; inv_ok.
    constructor; [|constructor]. eapply mk_report_loc; [|exact Ha]. eapply find_multi_substitution_Q; eauto.
  Qed.
End ErrLoc.

(* the error report of a template body is raised at a meta of that body *)
Theorem desugar_template_error_located : forall (Q : meta -> Prop) env lib body r,
  Forall Q (stmt_metas body) -> desugar_template env lib body = DErr r -> Q (report_meta r).
Proof.
  intros Q env lib body r HQ H. eapply desugar_template_EQ; [|exact H]. apply MS_iff. exact HQ.
Qed.

Theorem check_function_located : forall (Q : meta -> Prop) body rs,
  Forall Q (stmt_metas body) -> check_function body = DOk (Some rs) -> Forall (fun r => Q (report_meta r)) rs.
Proof.
  intros Q body rs HQ H. eapply check_function_reports_located; [|exact H]. apply MS_iff. exact HQ.
Qed.

(* ---- which definitions are dropped ---- *)

Lemma desugar_templates_fate : forall env lib ts acc reps acc' reps',
  desugar_templates env lib ts acc reps = DOk (acc', reps') ->
  (forall p, In p acc -> In p acc') /\ (forall r, In r reps -> In r reps') /\
  (forall n b, In (n, b) ts ->
     (exists b', desugar_template env lib b = DOk b' /\ In (n, b') acc') \/
     (exists r, desugar_template env lib b = DErr r /\ In r reps')) /\
  (forall n b', In (n, b') acc' ->
     In (n, b') acc \/ exists b, In (n, b) ts /\ desugar_template env lib b = DOk b').
Proof.
  intros env lib. induction ts as [|[n b] rest IH]; intros acc reps acc' reps' H; simpl in H.
  - inversion H; subst. repeat split; auto. intros n b [].
  - destruct (desugar_template env lib b) as [nb|r|s|] eqn:Hd; try discriminate H.
    + destruct (IH _ _ _ _ H) as (I1 & I2 & I3 & I4). repeat split; auto.
      * intros p Hp. apply I1. apply in_or_app. auto.
      * intros n0 b0 [Heq|Hin]; [|auto]. inversion Heq; subst. left. exists nb. split; auto.
        apply I1. apply in_or_app. right. left. reflexivity.
      * intros n0 b' Hin. destruct (I4 _ _ Hin) as [Ha|(b0 & Hb0 & Hd0)].
        -- apply in_app_or in Ha. destruct Ha as [Ha|[Ha|[]]]; [auto|]. inversion Ha; subst.
           right. exists b. split; [left; reflexivity | auto].
        -- right. exists b0. split; [right; auto | auto].
    + destruct (IH _ _ _ _ H) as (I1 & I2 & I3 & I4). repeat split; auto.
      * intros r0 Hr0. apply I2. apply in_or_app. auto.
      * intros n0 b0 [Heq|Hin]; [|auto]. inversion Heq; subst. right. exists r. split; auto.
        apply I2. apply in_or_app. right. left. reflexivity.
      * intros n0 b' Hin. destruct (I4 _ _ Hin) as [Ha|(b0 & Hb0 & Hd0)]; [auto|].
        right. exists b0. split; [right; auto | auto].
Qed.

Lemma desugar_functions_fate : forall fs acc reps acc' reps',
  desugar_functions fs acc reps = DOk (acc', reps') ->
  (forall p, In p acc -> In p acc') /\ (forall r, In r reps -> In r reps') /\
  (forall n b, In (n, b) fs ->
     (check_function b = DOk None /\ In (n, b) acc') \/
     (exists rs, check_function b = DOk (Some rs) /\ forall r, In r rs -> In r reps')).
Proof.
  induction fs as [|[n b] rest IH]; intros acc reps acc' reps' H; simpl in H.
  - inversion H; subst. repeat split; auto. intros n b [].
  - apply dbind_ok in H. destruct H as (c & Hc & H). destruct c as [rs|].
    + destruct (IH _ _ _ _ H) as (I1 & I2 & I3). repeat split; auto.
      * intros r0 Hr0. apply I2. apply in_or_app. auto.
      * intros n0 b0 [Heq|Hin]; [|auto]. inversion Heq; subst. right. exists rs. split; auto.
        intros r0 Hr0. apply I2. apply in_or_app. auto.
    + destruct (IH _ _ _ _ H) as (I1 & I2 & I3). repeat split; auto.
      * intros p Hp. apply I1. apply in_or_app. auto.
      * intros n0 b0 [Heq|Hin]; [|auto]. inversion Heq; subst. left. split; auto.
        apply I1. apply in_or_app. right. left. reflexivity.
Qed.

(* a definition that goes into `remove_syntactic_sugar` and has no entry in what
   comes out was rejected with an error report, and the report is in the
   collection handed back *)
Theorem remove_syntactic_sugar_drop_reported : forall lib ts fs d,
  remove_syntactic_sugar lib ts fs = DOk d ->
  (forall n b, In (n, b) ts -> ~ In n (map fst (d_templates d)) ->
     exists r, desugar_template (env_of ts) lib b = DErr r /\ In r (d_reports d)) /\
  (forall n b, In (n, b) fs -> ~ In n (map fst (d_functions d)) ->
     exists rs r, check_function b = DOk (Some rs) /\ In r rs /\ forall r', In r' rs -> In r' (d_reports d)) /\
  (forall n b r, In (n, b) ts -> desugar_template (env_of ts) lib b = DErr r -> In r (d_reports d)) /\
  (forall n b rs r, In (n, b) fs -> check_function b = DOk (Some rs) -> In r rs -> In r (d_reports d)).
Proof.
  intros lib ts fs d H. unfold remove_syntactic_sugar in H.
  apply dbind_ok in H. destruct H as ([ts' reps1] & Ht & H).
  apply dbind_ok in H. destruct H as ([fs' reps2] & Hf & H). inversion H; subst; clear H. simpl.
  destruct (desugar_templates_fate _ _ _ _ _ _ _ Ht) as (_ & _ & T3 & _).
  destruct (desugar_functions_fate _ _ _ _ _ Hf) as (_ & F2 & F3).
  split; [|split; [|split]].
  - intros n b Hin Hno. destruct (T3 _ _ Hin) as [(b' & _ & Hb')|(r & Hr & Hin')].
    + exfalso. apply Hno. apply in_map_iff. exists (n, b'). split; auto.
    + exists r. split; auto.
  - intros n b Hin Hno. destruct (F3 _ _ Hin) as [(_ & Hb')|(rs & Hrs & Hall)].
    + exfalso. apply Hno. apply in_map_iff. exists (n, b). split; auto.
    + destruct (check_function_dropped _ _ Hrs) as (Hne & _ & _).
      destruct rs as [|r rs]; [congruence|]. exists (r :: rs), r. split; auto. split; [left; reflexivity | auto].
  - intros n b r Hin Hd. destruct (T3 _ _ Hin) as [(b' & Hb' & _)|(r' & Hr' & Hin')]; [congruence|].
    assert (r' = r) by congruence. subst. auto.
  - intros n b rs r Hin Hc Hr. destruct (F3 _ _ Hin) as [(Hn & _)|(rs' & Hrs' & Hall)]; [congruence|].
    assert (rs' = rs) by congruence. subst. auto.
Qed.
