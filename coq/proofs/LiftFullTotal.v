(* Totality of the content-carrying lifting mirror: on a definition that
   satisfies the decidable predicate LiftFull.definition_wf (evaluated on every
   parsed and desugared definition by the engine `liftfull`), try_lift_impl never
   reaches a Panic site (and there is no fuel): it returns a graph or one of the
   two errors.

   The graph panic sites (192, 228, 288, 382, the model-only one) are excluded
   through Model.Lift: LiftFull.visit and Lift.visit run in lock step on a graph
   and its skeleton ([rel]), and Model.Lift never panics on the shape the
   desugarer hands on (Proofs.LiftTotalFlat, C01).  The content panic sites (1119,
   1193: sugar reaching lifting; 2017: a declaration key tracked twice) are
   excluded by the hypotheses; 3184, 4001, 4002 by an invariant of the renaming
   pass. *)
From Coq Require Import ZArith NArith Ascii String.
From stdpp Require Import list.
Require Import Model.Lift Model.LiftFull Proofs.LiftBasics Proofs.LiftProofs Proofs.LiftFullProofs Proofs.LiftTotalFlat.
Require Model.Ast Model.Ir Proofs.DesugarProofs.
Import Base(outcome, Ok, Err, Panic, OutOfFuel, bind, EOther).
Local Open Scope nat_scope.

(* ======================================================================= *)
(* 1. content lifting never panics on sugar-free input                      *)
(* ======================================================================= *)
Definition np {A} (m : outcome A) : Prop :=
  match m with Panic _ | OutOfFuel => False | _ => True end.

Lemma np_bind {A B} (m : outcome A) (f : A -> outcome B) :
  np m -> (forall a, m = Ok a -> np (f a)) -> np (bind m f).
Proof. destruct m; simpl; auto. Qed.

Lemma lift_name_np n : np (lift_name n).
Proof. unfold lift_name. destruct (split_dot n) as [|a [|b [|c r]]]; done. Qed.

Lemma lift_expr_var_eq m n acc :
  lift_expr (Ast.Variable_ m n acc) =
  match acc with
  | [] => bind (lift_name n) (fun v => Ok (XVar (lift_meta m) v))
  | _ => bind (lift_name n) (fun v => bind (LiftFull.lift_accs acc) (fun acc' => Ok (XAccess (lift_meta m) v acc')))
  end.
Proof. destruct acc; reflexivity. Qed.

Lemma lift_expr_call_eq m id args :
  lift_expr (Ast.Call m id args) = bind (LiftFull.lift_exprs args) (fun a => Ok (XCall (lift_meta m) id a)).
Proof. reflexivity. Qed.

Lemma lift_expr_array_eq m vs :
  lift_expr (Ast.ArrayInLine m vs) = bind (LiftFull.lift_exprs vs) (fun a => Ok (XArray (lift_meta m) a)).
Proof. reflexivity. Qed.

Definition expr_np (e : Ast.expression) : Prop := expr_sugar_free e = true -> np (lift_expr e).

Lemma lift_exprs_np l : Forall expr_np l -> forallb expr_sugar_free l = true -> np (LiftFull.lift_exprs l).
Proof.
  induction 1 as [|e l He _ IH]; simpl; [done|]. intros H. apply andb_prop in H as [H1 H2].
  apply np_bind; [by apply He|]. intros x _. apply np_bind; [by apply IH|]. done.
Qed.

Lemma lift_accs_np l : Forall (DesugarProofs.access_all expr_np) l ->
  forallb access_sugar_free l = true -> np (LiftFull.lift_accs l).
Proof.
  induction 1 as [|a l Ha _ IH]; simpl; [done|]. intros H. apply andb_prop in H as [H1 H2].
  destruct a as [s|i]; simpl in *.
  - apply np_bind; [by apply IH|]. done.
  - apply np_bind; [by apply Ha|]. intros x _. apply np_bind; [by apply IH|]. done.
Qed.

Lemma expr_sugar_free_var m n acc :
  expr_sugar_free (Ast.Variable_ m n acc) = forallb access_sugar_free acc.
Proof. reflexivity. Qed.

Lemma lift_expr_np e : expr_np e.
Proof.
  induction e using DesugarProofs.expression_ind'; intros Hsf.
  - simpl in Hsf. apply andb_prop in Hsf as [H1 H2]. simpl.
    apply np_bind; [auto|]. intros a _. apply np_bind; [auto|]. done.
  - simpl in *. apply np_bind; [auto|]. done.
  - simpl in Hsf. apply andb_prop in Hsf as [H12 H3]. apply andb_prop in H12 as [H1 H2]. simpl.
    apply np_bind; [auto|]. intros a _. apply np_bind; [auto|]. intros b _. apply np_bind; [auto|]. done.
  - simpl in *. auto.
  - rewrite expr_sugar_free_var in Hsf. rewrite lift_expr_var_eq. destruct acc as [|a0 acc0].
    + apply np_bind; [apply lift_name_np|done].
    + apply np_bind; [apply lift_name_np|]. intros v _.
      apply np_bind; [by apply lift_accs_np|done].
  - done.
  - rewrite lift_expr_call_eq. apply np_bind; [by apply lift_exprs_np|done].
  - done.
  - rewrite lift_expr_array_eq. apply np_bind; [by apply lift_exprs_np|done].
  - done.
Qed.

Lemma lift_exprs_np' l : forallb expr_sugar_free l = true -> np (LiftFull.lift_exprs l).
Proof. apply lift_exprs_np. apply Forall_forall. intros e _. apply lift_expr_np. Qed.

Lemma lift_accs_np' l : forallb access_sugar_free l = true -> np (LiftFull.lift_accs l).
Proof.
  apply lift_accs_np. apply Forall_forall. intros [s|i] _; simpl; [done|apply lift_expr_np].
Qed.

Lemma lift_logargs_np l : forallb logarg_sugar_free l = true -> np (lift_logargs l).
Proof.
  induction l as [|a l IH]; simpl; [done|]. intros H. apply andb_prop in H as [H1 H2].
  destruct a as [s|e]; simpl in *.
  - apply np_bind; [auto|done].
  - apply np_bind; [by apply lift_expr_np|]. intros x _. apply np_bind; [auto|done].
Qed.

(* TryLift for a statement that is appended as it is, or a declaration *)
Lemma lift_stmt_np s : stmt_sugar_free s = true ->
  plain_stmt s \/ (exists m t n dd c, s = Ast.Declaration m t n dd c) -> np (lift_stmt s).
Proof.
  intros Hsf [Hp|(m & t & n & dd & c & ->)].
  - destruct s; try done; simpl in Hsf |- *.
    + apply np_bind; [by apply lift_expr_np|done].
    + apply andb_prop in Hsf as [H1 H2]. apply np_bind.
      * destruct acc as [|a0 acc0]; [by apply lift_expr_np|].
        apply np_bind; [apply lift_name_np|]. intros v _.
        apply np_bind; [by apply lift_accs_np'|]. intros a _.
        apply np_bind; [by apply lift_expr_np|done].
      * intros a _. apply np_bind; [apply lift_name_np|done].
    + apply andb_prop in Hsf as [H1 H2].
      apply np_bind; [by apply lift_expr_np|]. intros a _. apply np_bind; [by apply lift_expr_np|done].
    + apply np_bind; [by apply lift_logargs_np|done].
    + apply np_bind; [by apply lift_expr_np|done].
  - simpl in Hsf |- *. apply np_bind; [apply lift_name_np|]. intros v _.
    apply np_bind; [by apply lift_exprs_np'|done].
Qed.

(* ======================================================================= *)
(* 2. the renaming pass keeps sugar-freeness and never panics               *)
(* ======================================================================= *)
Lemma forallb_map_ext {A B} (f : B -> bool) (g : A -> B) (h : A -> bool) l :
  Forall (fun a => f (g a) = h a) l -> forallb f (map g l) = forallb h l.
Proof. induction 1 as [|a l Ha _ IH]; simpl; [done|]. by rewrite Ha, IH. Qed.

Lemma ren_expr_sf env e : expr_sugar_free (ren_expr env e) = expr_sugar_free e.
Proof.
  induction e using DesugarProofs.expression_ind'; simpl; try done.
  - by rewrite IHe1, IHe2.
  - by rewrite IHe1, IHe2, IHe3.
  - apply forallb_map_ext. eapply Forall_impl; [exact H|]. intros [s|i]; simpl; done.
  - apply forallb_map_ext. exact H.
  - apply forallb_map_ext. exact H.
Qed.

Lemma ren_exprs_sf env l : forallb expr_sugar_free (map (ren_expr env) l) = forallb expr_sugar_free l.
Proof. apply forallb_map_ext. apply Forall_forall. intros e _. apply ren_expr_sf. Qed.

Lemma ren_accs_sf env l : forallb access_sugar_free (map (ren_access env) l) = forallb access_sugar_free l.
Proof. apply forallb_map_ext. apply Forall_forall. intros [s|i] _; simpl; [done|apply ren_expr_sf]. Qed.

Lemma ren_logargs_sf env l : forallb logarg_sugar_free (map (ren_logarg env) l) = forallb logarg_sugar_free l.
Proof. apply forallb_map_ext. apply Forall_forall. intros [s|e] _; simpl; [done|apply ren_expr_sf]. Qed.

Definition ren_sf (s : Ast.statement) : Prop :=
  forall st r, ren_stmt s st = Ok r -> stmt_sugar_free (fst r) = stmt_sugar_free s.

Lemma ren_stmts_sf ss : Forall ren_sf ss -> forall st r, ren_stmts ss st = Ok r ->
  forallb stmt_sugar_free (fst r) = forallb stmt_sugar_free ss.
Proof.
  induction 1 as [|s l Hs Hl IH]; intros st r Hr; simpl in Hr.
  - by injection Hr as <-.
  - inv_bind Hr. inv_bind Hr. injection Hr as <-. simpl. by rewrite (Hs _ _ E), (IH _ _ E0).
Qed.

Lemma ren_sf_all s : ren_sf s.
Proof.
  induction s as [m c t e IHt IHe|m c body IH|m t ss IH|m ss IH|m t n dd cst|s Hplain] using stmt_ind';
    intros st r Hr.
  - simpl in Hr. inv_bind Hr. destruct e as [e|].
    + inv_bind Hr. injection Hr as <-. simpl. by rewrite ren_expr_sf, (IHt _ _ E), (IHe e eq_refl _ _ E0).
    + injection Hr as <-. simpl. by rewrite ren_expr_sf, (IHt _ _ E).
  - simpl in Hr. inv_bind Hr. injection Hr as <-. simpl. by rewrite ren_expr_sf, (IH _ _ E).
  - rewrite ren_init_eq in Hr. inv_bind Hr. injection Hr as <-. simpl. exact (ren_stmts_sf ss IH _ _ E).
  - rewrite ren_block_eq in Hr. inv_bind Hr. inv_bind Hr. injection Hr as <-. simpl. exact (ren_stmts_sf ss IH _ _ E).
  - simpl in Hr. inv_bind Hr. destruct (fst a); injection Hr as <-; simpl; apply ren_exprs_sf.
  - destruct s; try done; simpl in Hr; injection Hr as <-; simpl;
      rewrite ?ren_expr_sf, ?ren_accs_sf, ?ren_logargs_sf; done.
Qed.

(* the three environments keep their depth, so the asserts of VarEnvironment hold *)
Definition good (e : denv) : Prop :=
  1 <= length (declarations e) /\ 1 <= length (scoped_versions e) /\ 1 <= length (global_versions e).

Definition depths (e : denv) : nat * nat * nat :=
  (length (declarations e), length (scoped_versions e), length (global_versions e)).

Lemma add_variable_ok {V} n (v : V) e : 1 <= length e ->
  exists e', add_variable n v e = Ok e' /\ length e' = length e.
Proof. destruct e as [|b r]; simpl; [lia|]. eauto. Qed.

Lemma add_declaration_ok n d e : good e ->
  exists r, add_declaration n d e = Ok r /\ good (snd r) /\ depths (snd r) = depths e.
Proof.
  intros (G1 & G2 & G3). unfold add_declaration.
  destruct (add_variable_ok n d _ G1) as (ds & -> & L1). simpl.
  unfold get_next_version. simpl.
  set (version := match get_variable n (global_versions e) with
                  | Some (Some v) => Some (v + 1) | Some None => Some 0 | None => None end).
  destruct (add_variable_ok n version _ G3) as (g & -> & L3). simpl.
  destruct version as [v|].
  - destruct (add_variable_ok n v _ G2) as (sv & -> & L2). simpl.
    eexists. split; [done|]. unfold good, depths. simpl. rewrite L1, L2, L3. done.
  - eexists. split; [done|]. unfold good, depths. simpl. rewrite L1, L3. done.
Qed.

Definition ren_total (s : Ast.statement) : Prop :=
  forall st, good (fst st) -> exists r, ren_stmt s st = Ok r /\ good (fst (snd r)) /\ depths (fst (snd r)) = depths (fst st).

Lemma ren_stmts_total ss : Forall ren_total ss ->
  forall st, good (fst st) -> exists r, ren_stmts ss st = Ok r /\ good (fst (snd r)) /\ depths (fst (snd r)) = depths (fst st).
Proof.
  induction 1 as [|s l Hs _ IH]; intros st G; simpl.
  - eexists. split; [done|]. done.
  - destruct (Hs st G) as (a & -> & Ga & Da). simpl.
    destruct (IH (snd a) Ga) as (b & -> & Gb & Db). simpl.
    eexists. split; [done|]. simpl. split; [done|]. by rewrite Db.
Qed.

Lemma ren_total_all s : ren_total s.
Proof.
  induction s as [m c t e IHt IHe|m c body IH|m t ss IH|m ss IH|m t n dd cst|s Hplain] using stmt_ind';
    intros st G.
  - simpl. destruct (IHt st G) as (rt & -> & Gt & Dt). simpl. destruct e as [e|].
    + destruct (IHe e eq_refl (snd rt) Gt) as (re & -> & Ge & De). simpl.
      eexists. split; [done|]. simpl. split; [done|]. by rewrite De.
    + eexists. split; [done|]. done.
  - simpl. destruct (IH st G) as (rb & -> & Gb & Db). simpl. eexists. split; [done|]. done.
  - rewrite ren_init_eq. destruct (ren_stmts_total ss IH st G) as (r & -> & Gr & Dr). simpl.
    eexists. split; [done|]. done.
  - rewrite ren_block_eq.
    assert (G' : good (fst (denv_add_block (fst st), snd st))).
    { destruct G as (G1 & G2 & G3). unfold good, denv_add_block. simpl. lia. }
    destruct (ren_stmts_total ss IH _ G') as (r & -> & Gr & Dr). cbn [bind].
    unfold depths, denv_add_block in Dr. simpl in Dr. injection Dr as D1 D2 D3.
    unfold denv_remove_block.
    destruct (declarations (fst (snd r))) as [|b1 r1] eqn:E1; [simpl in D1; lia|].
    destruct (scoped_versions (fst (snd r))) as [|b2 r2] eqn:E2; [simpl in D2; lia|].
    simpl. eexists. split; [done|]. unfold good, depths. simpl in *.
    destruct G as (G1 & G2 & G3). split; [lia|]. f_equal; [f_equal|]; lia.
  - simpl. destruct (add_declaration_ok n (Ast.m_file m, meta_loc m) (fst st) G) as (r & -> & Gr & Dr). simpl.
    destruct (fst r); eexists; (split; [done|]); done.
  - destruct s; try done; simpl; eexists; (split; [done|]); done.
Qed.

Lemma env_of_params_np ps d e : good e -> np (env_of_params ps d e) /\
  forall e', env_of_params ps d e = Ok e' -> good e'.
Proof.
  revert e. induction ps as [|p r IH]; intros e G; simpl; [split; [done|by intros e' [= <-]]|].
  destruct (add_declaration_ok p d e G) as (a & -> & Ga & _). simpl.
  destruct (fst a); [split; [done|done]|]. by apply IH.
Qed.

Lemma good_new : good denv_new.
Proof. unfold good, denv_new. simpl. lia. Qed.

Lemma ensure_unique_np params pfile ploc body : is_block body = true ->
  np (ensure_unique_variables params pfile ploc body).
Proof.
  intros Hb. unfold ensure_unique_variables. rewrite Hb. simpl.
  destruct (env_of_params_np params (pfile, ploc) denv_new good_new) as [Hnp Hg].
  apply np_bind; [exact Hnp|]. intros env He.
  destruct (ren_total_all body (env, []) (Hg _ He)) as (r & -> & _). done.
Qed.

(* ======================================================================= *)
(* 3. declaration keys                                                      *)
(* ======================================================================= *)
Lemma nodup_names_app_l a b : nodup_names (a ++ b) = true -> nodup_names a = true.
Proof.
  induction a as [|x a IH]; simpl; [done|]. intros H. apply andb_prop in H as [H1 H2].
  rewrite (IH H2), andb_true_r. rewrite existsb_app, negb_orb in H1. by apply andb_prop in H1 as [-> _].
Qed.

Lemma nodup_names_snoc l v : nodup_names (l ++ [v]) = true -> existsb (fun x => Ir.vname_eqb x v) l = false.
Proof.
  induction l as [|x l IH]; simpl; [done|]. intros H. apply andb_prop in H as [H1 H2].
  rewrite (IH H2), orb_false_r. rewrite existsb_app, negb_orb in H1. apply andb_prop in H1 as [_ H1].
  simpl in H1. rewrite orb_false_r in H1. by apply negb_true_iff in H1.
Qed.

Lemma decl_tracked_names v ds : decl_tracked v ds = existsb (fun x => Ir.vname_eqb x v) (map xd_name ds).
Proof. unfold decl_tracked. induction ds as [|d ds IH]; simpl; [done|]. by rewrite IH. Qed.

Lemma decls_add_ok d ds : nodup_names (map xd_name ds ++ [xd_name d]) = true ->
  decls_add d ds = Ok (ds ++ [d]).
Proof. intros H. unfold decls_add. by rewrite decl_tracked_names, (nodup_names_snoc _ _ H). Qed.

Lemma names_of_lifted_app a b : names_of_lifted (a ++ b) = names_of_lifted a ++ names_of_lifted b.
Proof. unfold names_of_lifted. by rewrite flat_map_app. Qed.

Lemma decls_of_params_ok ps pfile ploc ds : nodup_names (map xd_name ds ++ ps) = true ->
  exists ds', decls_of_params ps pfile ploc ds = Ok ds' /\ map xd_name ds' = map xd_name ds ++ ps.
Proof.
  revert ds. induction ps as [|p r IH]; intros ds H; simpl.
  - exists ds. by rewrite app_nil_r.
  - rewrite decls_add_ok.
    + cbn [bind]. destruct (IH (ds ++ [{| xd_name := p; xd_type := (Ir.TLocal, []); xd_dims := []; xd_file := pfile; xd_loc := ploc |}]))
        as (ds' & -> & Hn).
      * rewrite map_app. simpl. by rewrite <- app_assoc.
      * exists ds'. split; [done|]. rewrite Hn, map_app. simpl. by rewrite <- app_assoc.
    + simpl. apply (nodup_names_app_l _ r). by rewrite <- app_assoc.
Qed.

(* ======================================================================= *)
(* 4. LiftFull.visit and Lift.visit in lock step                            *)
(* ======================================================================= *)
Section LockStep.
  Context (key : Ir.meta -> nat).
  Notation er := (map (skel_block key)).

  (* the relation between the outcome of the content-carrying visit and the
     outcome of the skeleton visit: equal graphs (up to content) and predecessor
     sets, the declaration keys grow by [names]; a panic of the content-carrying
     side is a panic of the skeleton side at the same site *)
  Definition rel (ds0 names : list Ir.vname) (xr : outcome (lstate * list nat)) (lr : outcome (graph * list nat)) : Prop :=
    match xr with
    | Ok res => lr = Ok (er (fst (fst res)), snd res) /\ map xd_name (snd (fst res)) = ds0 ++ names
    | Panic site => lr = Panic site
    | Err _ => True
    | OutOfFuel => lr = OutOfFuel
    end.

  Definition closed {X L} (R : outcome X -> outcome L -> Prop) : Prop :=
    (forall s, R (Panic s) (Panic s)) /\ R OutOfFuel OutOfFuel /\ (forall e l, R (Err e) l).

  Lemma rel_closed ds0 names : closed (rel ds0 names).
  Proof. done. Qed.

  (* a graph operation: the skeleton side is its image *)
  Lemma bind_graph {X L} (R : outcome X -> outcome L -> Prop) (m : outcome xgraph) kx kl :
    closed R -> (forall g, m = Ok g -> R (kx g) (kl (er g))) -> R (bind m kx) (bind (er_out key m) kl).
  Proof. intros (C1 & C2 & C3) H. destruct m; simpl; auto. Qed.

  (* an operation with the same outcome on both sides *)
  Lemma bind_same {A X L} (R : outcome X -> outcome L -> Prop) (m : outcome A) kx kl :
    closed R -> (forall a, m = Ok a -> R (kx a) (kl a)) -> R (bind m kx) (bind m kl).
  Proof. intros (C1 & C2 & C3) H. destruct m; simpl; auto. Qed.

  (* a content operation: only the content-carrying side performs it *)
  Lemma bind_content {A X L} (R : outcome X -> outcome L -> Prop) (m : outcome A) kx lr :
    closed R -> np m -> (forall a, m = Ok a -> R (kx a) lr) -> R (bind m kx) lr.
  Proof. intros (C1 & C2 & C3) Hnp H. destruct m; simpl in *; auto; done. Qed.

  (* a sub-visit *)
  Lemma bind_visit {X L} (R : outcome X -> outcome L -> Prop) ds0 names xr lr kx kl :
    closed R -> rel ds0 names xr lr ->
    (forall res, xr = Ok res -> map xd_name (snd (fst res)) = ds0 ++ names ->
                 R (kx res) (kl (er (fst (fst res)), snd res))) ->
    R (bind xr kx) (bind lr kl).
  Proof.
    intros (C1 & C2 & C3) Hr H. destruct xr as [res|e|s|]; simpl in *.
    - destruct Hr as [-> Hn]. simpl. by apply H.
    - apply C3.
    - rewrite Hr. apply C1.
    - rewrite Hr. apply C2.
  Qed.

  Definition dnames (s : Ast.statement) : list Ir.vname := names_of_lifted (declared_names s).

  Definition tot (s : Ast.statement) : Prop :=
    forall d st, stmt_sugar_free s = true ->
      nodup_names (map xd_name (snd st) ++ dnames s) = true ->
      rel (map xd_name (snd st)) (dnames s) (LiftFull.visit s d st) (Lift.visit (skel key s) d (er (fst st))).

  Definition dnames_l (ss : list Ast.statement) : list Ir.vname := names_of_lifted (flat_map declared_names ss).

  Lemma dnames_l_cons s ss : dnames_l (s :: ss) = dnames s ++ dnames_l ss.
  Proof. unfold dnames_l, dnames. simpl. apply names_of_lifted_app. Qed.

  Lemma tot_seq ss : Forall tot ss ->
    forall d ps st, forallb stmt_sugar_free ss = true ->
      nodup_names (map xd_name (snd st) ++ dnames_l ss) = true ->
      rel (map xd_name (snd st)) (dnames_l ss) (xvisit_seq d ss ps st) (visit_seq d (map (skel key) ss) ps (er (fst st))).
  Proof.
    induction 1 as [|s r Hs _ IH]; intros d ps st Hsf Hn.
    - simpl. split; [done|]. by rewrite app_nil_r.
    - simpl in Hsf. apply andb_prop in Hsf as [Hsf1 Hsf2]. rewrite dnames_l_cons in Hn |- *.
      simpl.
      assert (Hc : (if is_nil ps then Ok (er (fst st)) else Lift.complete (er (fst st)) ps d)
                   = er_out key (if is_nil ps then Ok (fst st)
                                 else LiftFull.complete (fst st) (lift_meta (Ast.stmt_meta s)) ps d)).
      { destruct (is_nil ps); [done|]. apply er_complete. }
      rewrite Hc. apply bind_graph; [apply rel_closed|]. intros g _.
      eapply bind_visit; [apply rel_closed| |].
      + apply (Hs d (g, snd st)); [exact Hsf1|]. simpl. apply (nodup_names_app_l _ (dnames_l r)). by rewrite <- app_assoc.
      + intros res _ Hres.
        pose proof (IH d (snd res) (fst res) Hsf2) as Hr. rewrite Hres, <- app_assoc in Hr. specialize (Hr Hn).
        destruct (xvisit_seq d r (snd res) (fst res)) as [res2| | |]; simpl in *; try done.
        destruct Hr as [-> Hn2]. split; [done|]. by rewrite Hn2, app_assoc.
  Qed.

  Lemma tot_init ss : Forall tot ss ->
    forall d st, forallb stmt_sugar_free ss = true ->
      nodup_names (map xd_name (snd st) ++ dnames_l ss) = true ->
      rel (map xd_name (snd st)) (dnames_l ss) (xvisit_init d ss st) (visit_init d (map (skel key) ss) (er (fst st))).
  Proof.
    induction 1 as [|s r Hs _ IH]; intros d st Hsf Hn.
    - simpl. split; [done|]. by rewrite app_nil_r.
    - simpl in Hsf. apply andb_prop in Hsf as [Hsf1 Hsf2]. rewrite dnames_l_cons in Hn |- *.
      simpl.
      eapply bind_visit; [apply rel_closed| |].
      + apply (Hs d st); [exact Hsf1|]. apply (nodup_names_app_l _ (dnames_l r)). by rewrite <- app_assoc.
      + intros res _ Hres. cbn [fst snd]. destruct (is_nil (snd res)); [|done].
        pose proof (IH d (fst res) Hsf2) as Hr. rewrite Hres, <- app_assoc in Hr. specialize (Hr Hn).
        destruct (xvisit_init d r (fst res)) as [res2| | |]; simpl in *; try done.
        destruct Hr as [-> Hn2]. split; [done|]. by rewrite Hn2, app_assoc.
  Qed.

  Lemma skel_item_of_lift s x : lift_stmt s = Ok x ->
    plain_stmt s \/ (exists m t n dd c, s = Ast.Declaration m t n dd c) ->
    skel_item key x = ILeaf (key (lift_meta (Ast.stmt_meta s))).
  Proof. apply skel_item_lift_stmt. Qed.

  Lemma tot_all s : tot s.
  Proof.
    induction s as [m c t e IHt IHe|m c body IH|m t ss IH|m ss IH|m t n dd cst|s Hplain] using stmt_ind';
      intros d st Hsf Hn.
    - (* if *)
      simpl in Hsf. apply andb_prop in Hsf as [Hsf12 Hsf3]. apply andb_prop in Hsf12 as [Hsf1 Hsf2].
      cbn [LiftFull.visit skel Lift.visit]. rewrite er_last_index.
      apply bind_same; [apply rel_closed|]. intros cur _.
      apply bind_content; [apply rel_closed|by apply lift_expr_np|]. intros c' _.
      rewrite (er_upd_last key (push_stmt (XIf (lift_meta m) c' (cur + 1) None))
                 (push_item (IBranch (key (lift_meta m)) (cur + 1) None))) by (intros b; apply skel_push).
      apply bind_graph; [apply rel_closed|]. intros g1 _.
      rewrite (er_complete key _ (lift_meta (Ast.stmt_meta t))).
      apply bind_graph; [apply rel_closed|]. intros g2 _.
      unfold dnames in Hn |- *. simpl declared_names in Hn |- *. rewrite names_of_lifted_app in Hn |- *.
      eapply bind_visit; [apply rel_closed| |].
      + apply (IHt d (g2, snd st)); [exact Hsf2|]. simpl. rewrite app_assoc in Hn. exact (nodup_names_app_l _ _ Hn).
      + intros rt _ Hrt. cbn [fst snd]. rewrite er_or_last.
        apply bind_same; [apply rel_closed|]. intros ps_if _.
        destruct e as [e|]; cbn [option_map].
        * rewrite (er_complete key _ (lift_meta (Ast.stmt_meta e))).
          apply bind_graph; [apply rel_closed|]. intros g3 _.
          eapply bind_visit; [apply rel_closed| |].
          -- apply (IHe e eq_refl d (g3, snd (fst rt))); [exact Hsf3|]. simpl. rewrite Hrt, <- app_assoc. exact Hn.
          -- intros re _ Hre. cbn [fst snd]. rewrite er_or_last.
             apply bind_same; [apply rel_closed|]. intros ps_else _.
             simpl. split; [done|]. simpl in Hre. by rewrite Hre, Hrt, app_assoc.
        * simpl. split; [done|]. by rewrite Hrt, app_nil_r.
    - (* while *)
      simpl in Hsf. apply andb_prop in Hsf as [Hsf1 Hsf2].
      cbn [LiftFull.visit skel Lift.visit]. rewrite er_last_index.
      apply bind_same; [apply rel_closed|]. intros cur _.
      rewrite (er_complete key _ (lift_meta m)).
      apply bind_graph; [apply rel_closed|]. intros g1 _.
      apply bind_content; [apply rel_closed|by apply lift_expr_np|]. intros c' _.
      rewrite (er_upd_last key (push_stmt (XIf (lift_meta m) c' (cur + 2) None))
                 (push_item (IBranch (key (lift_meta m)) (cur + 2) None))) by (intros b; apply skel_push).
      apply bind_graph; [apply rel_closed|]. intros g2 _.
      rewrite (er_complete key _ (lift_meta (Ast.stmt_meta body))).
      apply bind_graph; [apply rel_closed|]. intros g3 _.
      eapply bind_visit; [apply rel_closed| |].
      + apply (IH (d + 1) (g3, snd st)); [exact Hsf2|exact Hn].
      + intros rb _ Hrb. cbn [fst snd]. rewrite er_or_last.
        apply bind_same; [apply rel_closed|]. intros ps _.
        change (Ok (er (fst (fst rb)))) with (er_out key (Ok (fst (fst rb)))). rewrite er_fold_back.
        apply bind_graph; [apply rel_closed|]. intros g4 _. simpl. split; [done|exact Hrb].
    - (* initialization block *)
      rewrite xvisit_init_eq, skel_init_eq, visit_init_eq, er_last_index.
      apply bind_same; [apply rel_closed|]. intros cur _.
      apply (tot_init ss IH d st Hsf Hn).
    - (* block *)
      rewrite xvisit_block_eq, skel_block_eq, visit_block_eq, er_last_index.
      apply bind_same; [apply rel_closed|]. intros cur _.
      apply (tot_seq ss IH d [] st Hsf Hn).
    - (* declaration *)
      cbn [LiftFull.visit skel Lift.visit Ast.stmt_meta]. rewrite er_last_index.
      apply bind_same; [apply rel_closed|]. intros cur _.
      unfold dnames, names_of_lifted in Hn |- *. cbn [declared_names flat_map] in Hn |- *.
      rewrite app_nil_r in Hn |- *.
      pose proof (lift_name_np n) as Hnn.
      destruct (lift_name n) as [v| | |] eqn:En; cbn [bind]; try done.
      apply bind_content; [apply rel_closed|by apply lift_exprs_np'|]. intros dims' _.
      rewrite decls_add_ok by exact Hn. cbn [bind].
      assert (Hnp : np (lift_stmt (Ast.Declaration m t n dd cst))).
      { apply lift_stmt_np; [exact Hsf|]. right. by exists m, t, n, dd, cst. }
      apply bind_content; [apply rel_closed|exact Hnp|]. intros x Hx.
      assert (Hi : skel_item key x = ILeaf (key (lift_meta m))).
      { apply (skel_item_of_lift (Ast.Declaration m t n dd cst) x Hx). right. by exists m, t, n, dd, cst. }
      rewrite <- Hi.
      rewrite (er_upd_last key (push_stmt x) (push_item (skel_item key x))) by (intros b; apply skel_push).
      apply bind_graph; [apply rel_closed|]. intros g1 _. simpl. split; [done|]. by rewrite map_app.
    - (* other leaves *)
      rewrite (visit_plain_eq _ _ _ Hplain).
      assert (Hsk : skel key s = SLeaf (key (lift_meta (Ast.stmt_meta s))) (is_return s)) by (destruct s; done).
      rewrite Hsk. cbn [Lift.visit]. rewrite er_last_index.
      apply bind_same; [apply rel_closed|]. intros cur _.
      assert (Hnp : np (lift_stmt s)) by (apply lift_stmt_np; [exact Hsf|by left]).
      apply bind_content; [apply rel_closed|exact Hnp|]. intros x Hx.
      assert (Hi : skel_item key x = ILeaf (key (lift_meta (Ast.stmt_meta s)))).
      { apply (skel_item_of_lift s x Hx). by left. }
      rewrite <- Hi.
      rewrite (er_upd_last key (push_stmt x) (push_item (skel_item key x))) by (intros b; apply skel_push).
      apply bind_graph; [apply rel_closed|]. intros g1 _. simpl. split; [done|].
      assert (Hd : dnames s = []) by (destruct s; done). by rewrite Hd, app_nil_r.
  Qed.
End LockStep.

(* ======================================================================= *)
(* 5. the totality theorem                                                  *)
(* ======================================================================= *)
Lemma forallb_map' {A B} (f : B -> bool) (g : A -> B) (h : A -> bool) l :
  Forall (fun a => f (g a) = h a) l -> forallb f (map g l) = forallb h l.
Proof. apply forallb_map_ext. Qed.

Lemma skel_flat key s : flat (skel key s) = ast_flat s.
Proof.
  induction s as [m c t e IHt IHe|m c body IH|m t ss IH|m ss IH|m t n dd cst|s Hplain] using stmt_ind'; simpl; try done.
  - by apply forallb_map'.
  - by apply forallb_map'.
  - destruct s; done.
Qed.

Lemma skel_init_flat key s : init_flat (skel key s) = ast_init_flat s.
Proof.
  induction s as [m c t e IHt IHe|m c body IH|m t ss IH|m ss IH|m t n dd cst|s Hplain] using stmt_ind'; simpl; try done.
  - rewrite IHt. destruct e as [e|]; simpl; [by rewrite (IHe e eq_refl)|done].
  - apply forallb_map'. apply Forall_forall. intros x _. apply skel_flat.
  - by apply forallb_map'.
  - destruct s; done.
Qed.

Lemma ensure_unique_sf params pfile ploc body u :
  ensure_unique_variables params pfile ploc body = Ok u -> stmt_sugar_free (fst u) = stmt_sugar_free body.
Proof.
  unfold ensure_unique_variables. destruct (negb (is_block body)); [done|]. intros H.
  inv_bind H. inv_bind H. injection H as <-. by eapply ren_sf_all.
Qed.

(* On a definition that satisfies the decidable predicate [definition_wf] the
   lifting mirror never reaches a panic site (nor runs out of fuel: it has none):
   it returns a graph, or InvalidVariableNameError / ParameterNameCollisionError. *)
Theorem liftfull_never_panics : forall kind params pfile ploc body,
  definition_wf params pfile ploc body = true ->
  np (try_lift_impl kind params pfile ploc body).
Proof.
  intros kind params pfile ploc body Hwf. unfold definition_wf in Hwf.
  apply andb_prop in Hwf as [Hwf Hn]. apply andb_prop in Hwf as [Hwf Hflat]. apply andb_prop in Hwf as [Hb Hsf].
  unfold try_lift_impl.
  pose proof (ensure_unique_np params pfile ploc body Hb) as Hnp.
  destruct (ensure_unique_variables params pfile ploc body) as [u|e|s|] eqn:Eu; try done.
  cbn [bind].
  destruct (decls_of_params_ok (map vname_plain params) pfile ploc []) as (ds0 & -> & Hds0).
  { simpl. exact (nodup_names_app_l _ _ Hn). }
  cbn [bind]. simpl in Hds0.
  pose proof (ensure_unique_same _ _ _ _ _ Eu) as (Hsk & _ & Hh).
  pose proof (ensure_unique_sf _ _ _ _ _ Eu) as Hsf'. rewrite Hsf in Hsf'.
  destruct body as [| | | | | | | | |mb lb|]; try done.
  destruct (fst u) as [| | | | | | | | |mu lu|] eqn:Efu; try done.
  set (key := fun _ : Ir.meta => 0).
  unfold build_basic_blocks.
  pose proof (tot_all key (Ast.Block mu lu) 0 ([new_block (lift_meta mu) 0 0], ds0) Hsf') as Hrel.
  cbn [fst snd] in Hrel. rewrite Hds0 in Hrel.
  assert (Hn' : nodup_names (map vname_plain params ++ dnames (Ast.Block mu lu)) = true).
  { unfold dnames. exact Hn. }
  specialize (Hrel Hn').
  (* the skeleton side succeeds *)
  assert (Hshape : desugared_shape (skel key (Ast.Block mu lu))).
  { rewrite (Hsk key). split; [by eexists|]. rewrite skel_init_flat. exact Hflat. }
  destruct (lift_never_panics_desugared _ Hshape) as (g & Hg).
  rewrite skel_block_eq in Hg, Hrel. unfold Lift.lift in Hg.
  change (map (skel_block key) [new_block (lift_meta mu) 0 0]) with [Lift.new_block 0 0] in Hrel.
  destruct (Lift.visit (SBlock (map (skel key) lu)) 0 [Lift.new_block 0 0]) as [lres| | |] eqn:El; try done.
  destruct (LiftFull.visit (Ast.Block mu lu) 0 ([new_block (lift_meta mu) 0 0], ds0)) as [xres| | |]; simpl in *; try done.
Qed.

(* in the form used by C01: no Panic site, no fuel *)
Theorem liftfull_never_panics' : forall kind params pfile ploc body,
  definition_wf params pfile ploc body = true ->
  (forall site, try_lift_impl kind params pfile ploc body <> Panic site) /\
  try_lift_impl kind params pfile ploc body <> OutOfFuel.
Proof.
  intros kind params pfile ploc body Hwf.
  pose proof (liftfull_never_panics kind params pfile ploc body Hwf) as H.
  destruct (try_lift_impl kind params pfile ploc body); simpl in H; try done.
Qed.

(* and the erased form *)
Theorem lift_to_ir_never_panics : forall kind params pfile ploc body,
  definition_wf params pfile ploc body = true ->
  (forall site, lift_to_ir kind params pfile ploc body <> Panic site) /\
  lift_to_ir kind params pfile ploc body <> OutOfFuel.
Proof.
  intros kind params pfile ploc body Hwf. unfold lift_to_ir.
  pose proof (liftfull_never_panics kind params pfile ploc body Hwf) as H.
  destruct (try_lift_impl kind params pfile ploc body); simpl in H |- *; try done.
Qed.
