(* Reflection lemmas for the boolean equalities of Model.Ir / Model.SsaCheck. *)
From Coq Require Import ZArith NArith List Bool.
Require Import Model.Base Model.Ir Model.SsaCheck.
Import ListNotations.

Lemma ident_eqb_eq' a b : ident_eqb a b = true <-> a = b.
Proof. unfold ident_eqb. destruct (list_eq_dec N.eq_dec a b); split; congruence. Qed.

Lemma opt_eqb_eq' {A} (f : A -> A -> bool) (Hf : forall x y, f x y = true <-> x = y) a b :
  opt_eqb f a b = true <-> a = b.
Proof.
  destruct a, b; cbn; split; try congruence; intros H.
  - f_equal. apply Hf. exact H.
  - apply Hf. congruence.
Qed.

Lemma key_eqb_eq a b : key_eqb a b = true <-> a = b.
Proof.
  unfold key_eqb. rewrite andb_true_iff, ident_eqb_eq', (opt_eqb_eq' ident_eqb ident_eqb_eq').
  destruct a, b; cbn. split; [intros [-> ->]; reflexivity|intros [= -> ->]; auto].
Qed.

Lemma key_eqb_refl a : key_eqb a a = true.
Proof. apply key_eqb_eq. reflexivity. Qed.

Lemma optN_eqb_eq a b : opt_eqb N.eqb a b = true <-> a = b.
Proof. apply opt_eqb_eq'. apply N.eqb_eq. Qed.

Lemma vmap_eqb_eq a : forall b, vmap_eqb a b = true -> a = b.
Proof.
  induction a as [|[k n] ta IH]; intros [|[k' n'] tb]; cbn; try discriminate; [reflexivity|].
  intros H. apply andb_true_iff in H as [H1 H2]. unfold kn_eqb in H1. cbn in H1.
  apply andb_true_iff in H1 as [Hk Hn]. apply key_eqb_eq in Hk. apply N.eqb_eq in Hn. subst.
  f_equal. auto.
Qed.

Lemma vget_some_in m k n : vget m k = Some n -> In k (map fst m).
Proof.
  induction m as [|[k' n'] tl IH]; cbn; [discriminate|].
  destruct (key_eqb k' k) eqn:E.
  - apply key_eqb_eq in E. auto.
  - intros H. right. auto.
Qed.

Lemma vget_vset m k n k' : vget (vset m k n) k' = if key_eqb k k' then Some n else vget m k'.
Proof. reflexivity. Qed.
