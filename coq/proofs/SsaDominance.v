(* C14: the SSA construction mirror Model.Ssa.into_ssa yields a graph that satisfies the
   DYNAMIC statement of C14 (Spec.SsaSpec.exec_path) on EVERY path from the entry -
   the correctness theorem of Cytron et al. for this mirror:

     Theorem into_ssa_paths_ok : forall frontier children c c',
       ssa_dyn_pre_ok c = true -> children_treeb children (length (c_blocks c)) = true ->
       creach c -> children_sound c children -> frontier_exact c frontier ->
       into_ssa frontier children c = SOk c' ->
       forall pi, path_from_entry c' pi -> exists L, exec_path c' (params_map (c_params c')) pi = Some L.

   STATUS: COMPLETE (no open statement; Print Assumptions: closed under the global context).
   The development, bottom-up:
     Spec.SsaDomSpec          path-based dominance on Ir.cfg (definitions; the same as Spec.DomSpec of C15)
     Proofs.SsaDomTheory      dominance is reflexive / transitive / antisymmetric on reachable blocks, the
                              immediate dominator of a block dominates its predecessors
     Proofs.SsaPhiPlacement   H1: when the work list [insert_phis] ends, phi placement is closed under the
                              frontier table (invariant: every block NOT on the work list is closed); blocks in
                              no frontier row are untouched; the fuel is not an issue (the result is SOk)
     Proofs.SsaRenameSem      renaming one block, in the validator's words: the environment after = SsaCheck.track
                              of the renamed statements over the environment before; renamed body statements pass
                              SsaCheck.body_run (rename_read takes the running version; the fresh base version of an
                              element-wise update of a never-assigned array is the update_base exception)
     Proofs.SsaRenameInv      invariant of the tree walk [rename_tree] with a ghost log (block, environment at entry,
                              renamed statements up to phi arguments, environment at exit): unvisited blocks are
                              untouched up to phi arguments, update_succ_phis pushes the version at the end of p into
                              every phi of every successor of p (and later steps only add arguments), a block is
                              renamed in a scope opened on the environment at the end of its tree parent
     this file                H2: if s has no phi for x then along every edge p -> s the version of x at the end of p
                              is the version where renaming enters s (every block on the tree path from idom(s) down
                              to p that assigned x would have s in its dominance frontier, so s would have a phi by
                              H1): [no_phi_same_version]; one step along an edge: [step]; the entry block: [entry_ok];
                              the walk: [walk_ok]; the theorem.
     Proofs.SsaDomBridge      the three dominance hypotheses follow from C15's theorems about the mirror of
                              DominatorTree::new (c15_tables_meet_hypotheses, into_ssa_paths_ok_c15) + an example

   Hypotheses of the theorem
     ssa_dyn_pre_ok c = true        (Model.SsaPre; decidable) the graph before conversion: pre_ssa_ok, at least one
                                    block, no versions yet, update expressions only as  x = update(x, ..),
                                    assignment tags agree with the declarations, parameters pairwise distinct,
                                    successors in range and never the entry block
     children_treeb children n      (decidable) the pre-order of the children table holds every block exactly once
     creach c                       every block is reachable from block 0
     children_sound c children      a child's parent is its immediate dominator (path-based)
     frontier_exact c frontier      the frontier table is the dominance frontier (path-based)
   Each is used: without the tag agreement phi insertion (reads the tag) and renaming (reads the declarations)
   disagree about which variables are versioned; an update expression below the top of an assignment, or of another
   variable, introduces a version the validator's running map does not know; a repeated parameter gets version 1 in
   the environment and 0 in the parameter list.

   Proofs.SsaTreeRank + Proofs.SsaDomBridge.c15_children_tree derive children_treeb for the tables computed by the
   mirror of DominatorTree::new (rank = number of dominators), so into_ssa_paths_ok_c15 (= props/C14.v
   C14_construction_paths_ok_on_computed_tables) needs only  rooted  and  ssa_dyn_pre_ok .
   POSSIBLE FOLLOW-UP (not needed for the theorem): package the maps of the log as a list of SsaCheck.binfo and
   prove infos_ok for the output (needs b_index = position and one phi per key). *)
From Coq Require Import ZArith NArith List Bool Lia Arith.
Require Import Model.Base Model.Ir Model.SsaCheck Model.SsaErase Model.Ssa Model.SsaPre.
Require Import Spec.SsaSpec Spec.SsaDomSpec.
Require Import Proofs.IrInd Proofs.IrFacts Proofs.SsaNoPanic Proofs.SsaFuel Proofs.SsaConstruction Proofs.SsaProofs.
Require Import Proofs.SsaDomTheory Proofs.SsaPhiPlacement Proofs.SsaRenameSem Proofs.SsaRenameInv.
Import ListNotations.

(* ------------------------------------------------------------------------ *)
(* small facts                                                               *)
(* ------------------------------------------------------------------------ *)
Lemma keys_nodup_NoDup : forall l, keys_nodup l = true -> NoDup l.
Proof.
  induction l as [|k tl IH]; intros H; constructor; cbn [keys_nodup] in H; apply andb_true_iff in H as [H1 H2].
  - intros Hin. apply negb_true_iff in H1.
    assert (existsb (key_eqb k) tl = true) by (apply existsb_exists; exists k; split; [exact Hin|apply key_eqb_refl]).
    congruence.
  - apply IH. exact H2.
Qed.

Lemma nats_nodup_NoDup : forall l, nats_nodup l = true -> NoDup l.
Proof.
  induction l as [|k tl IH]; intros H; constructor; cbn [nats_nodup] in H; apply andb_true_iff in H as [H1 H2].
  - intros Hin. apply negb_true_iff in H1.
    assert (existsb (Nat.eqb k) tl = true) by (apply existsb_exists; exists k; split; [exact Hin|apply Nat.eqb_refl]).
    congruence.
  - apply IH. exact H2.
Qed.

Lemma NoDup_map_inj {A B} (f : A -> B) : forall l x y, NoDup (map f l) -> In x l -> In y l -> f x = f y -> x = y.
Proof.
  induction l as [|a tl IH]; intros x y Hnd Hx Hy Hf; [destruct Hx|].
  cbn [map] in Hnd. inversion Hnd as [|? ? Hn Hnd']; subst.
  destruct Hx as [<-|Hx], Hy as [<-|Hy].
  - reflexivity.
  - exfalso. apply Hn. rewrite Hf. apply in_map. exact Hy.
  - exfalso. apply Hn. rewrite <- Hf. apply in_map. exact Hx.
  - eapply IH; eassumption.
Qed.

Lemma stmt_nophi_not_phi s : stmt_nophi s = true -> is_phi_stmt s = false.
Proof.
  destruct s as [| | |m v op rhe sv st| | |]; try reflexivity. destruct rhe; try reflexivity. discriminate.
Qed.

Lemma fold_track_strip : forall ss m, fold_left track (map strip ss) m = fold_left track ss m.
Proof. induction ss as [|s tl IH]; intros m; [reflexivity|]. cbn [map fold_left]. rewrite track_strip. apply IH. Qed.

(* a statement list that is P' ++ B' up to phi arguments *)
Lemma strip_split : forall P' F B', map strip F = P' ++ B' -> all_phis P' ->
  Forall (fun s => is_phi_stmt s = false) B' ->
  exists P, F = P ++ B' /\ map strip P = P' /\ all_phis P.
Proof.
  induction P' as [|p tl IH]; intros F B' H HP HB.
  - exists []. split; [|split; [reflexivity|constructor]]. cbn [app] in *. rewrite <- H.
    clear -H HB. revert B' H HB. induction F as [|f F IH]; intros B' H HB; [reflexivity|].
    destruct B' as [|b B']; [discriminate|]. cbn [map] in *. inversion H; subst. inversion HB; subst.
    rewrite is_phi_strip in H2. rewrite (strip_not_phi f H2). f_equal.
    exact (IH _ eq_refl H3).
  - destruct F as [|f F]; [discriminate|]. cbn [map app] in H. inversion H; subst. inversion HP; subst.
    destruct (IH F B' H2 H4 HB) as (P & -> & HS & HA). exists (f :: P). split; [reflexivity|]. split.
    + cbn [map]. rewrite HS. reflexivity.
    + constructor; [rewrite <- is_phi_strip; exact H3|exact HA].
Qed.

(* update_decl_stmt changes nothing the dynamic statement looks at *)
Lemma leading_phis_map (f : stmt -> stmt) : (forall s, is_phi_stmt (f s) = is_phi_stmt s) ->
  forall ss, leading_phis (map f ss) = (map f (fst (leading_phis ss)), map f (snd (leading_phis ss))).
Proof.
  intros Hf. induction ss as [|s tl IH]; [reflexivity|]. cbn [map leading_phis]. rewrite Hf.
  destruct (is_phi_stmt s); [|reflexivity]. rewrite IH. destruct (leading_phis tl). reflexivity.
Qed.

Lemma update_decl_stmt_phi_id env s : is_phi_stmt s = true -> update_decl_stmt env s = s.
Proof. destruct s; try discriminate. reflexivity. Qed.

Lemma body_run_update_decl env : forall ss m,
  body_run m (map (update_decl_stmt env) ss) = body_run m ss.
Proof.
  induction ss as [|s tl IH]; intros m; [reflexivity|]. cbn [map body_run].
  assert (E : body_stmt_ok m (update_decl_stmt env s) = body_stmt_ok m s /\ track m (update_decl_stmt env s) = track m s).
  { destruct s as [mm names t dims| | | | | |]; try (split; reflexivity).
    destruct names as [|nm rest]; [split; reflexivity|]. destruct t; split; reflexivity. }
  destruct E as [E1 E2]. rewrite E1, E2, IH. reflexivity.
Qed.

Lemma enter_block_update_decl env L b :
  enter_block L (set_stmts b (map (update_decl_stmt env) (b_stmts b))) = enter_block L b.
Proof.
  unfold enter_block. cbn [set_stmts b_stmts]. rewrite (leading_phis_map _ (update_decl_stmt_phi env)).
  pose proof (leading_phis_are_phis (b_stmts b) _ _ (surjective_pairing _)) as HP.
  destruct (leading_phis (b_stmts b)) as [phis body]. cbn [fst snd] in *.
  assert (E : map (update_decl_stmt env) phis = phis).
  { clear -HP. induction HP as [|p tl Hp _ IH]; [reflexivity|]. cbn [map]. rewrite (update_decl_stmt_phi_id env p Hp), IH. reflexivity. }
  rewrite E, body_run_update_decl. reflexivity.
Qed.

(* the parameters *)
Lemma fold_next_params : forall ps env m,
  se_scoped env = [m] -> (forall p, In p ps -> vget (se_global env) (key_of p) = None) -> NoDup (map key_of ps) ->
  se_scoped (fold_left (fun e x => snd (next_version e x)) ps env) =
  [fold_left (fun m0 x => vset m0 (key_of x) 0%N) ps m].
Proof.
  induction ps as [|p tl IH]; intros env m Hs Hg Hnd; [exact Hs|]. cbn [fold_left map] in *.
  inversion Hnd as [|? ? Hn Hnd']; subst. apply IH.
  - unfold next_version. cbn [snd se_scoped]. rewrite Hs, (Hg p (or_introl eq_refl)). reflexivity.
  - intros q Hq. unfold next_version. cbn [snd se_global]. rewrite vget_vset.
    destruct (key_eqb (key_of p) (key_of q)) eqn:Ek.
    + apply key_eqb_eq in Ek. exfalso. apply Hn. rewrite Ek. apply in_map. exact Hq.
    + apply Hg. right. exact Hq.
  - exact Hnd'.
Qed.

Lemma params_map_versioned : forall ps m,
  fold_left (fun m0 x => match vn_version x with Some n => vset m0 (key_of x) n | None => m0 end)
            (map (fun x => with_version x 0%N) ps) m =
  fold_left (fun m0 x => vset m0 (key_of x) 0%N) ps m.
Proof. induction ps as [|p tl IH]; intros m; [reflexivity|]. cbn [map fold_left]. apply IH. Qed.

Lemma params_env0 ps : NoDup (map key_of ps) ->
  flat (fold_left (fun e x => snd (next_version e x)) ps {| se_global := []; se_scoped := [[]] |}) =
  params_map (map (fun x => with_version x 0%N) ps) ++ [].
Proof.
  intros Hnd. unfold flat.
  rewrite (fold_next_params ps {| se_global := []; se_scoped := [[]] |} [] eq_refl); [|intros; reflexivity|exact Hnd].
  unfold params_map. rewrite params_map_versioned. reflexivity.
Qed.

Lemma fold_next_scoped_ne : forall ps env, se_scoped env <> [] ->
  se_scoped (fold_left (fun e x => snd (next_version e x)) ps env) <> [].
Proof. induction ps as [|p tl IH]; intros env H; [exact H|]. cbn [fold_left]. apply IH. apply next_scoped_ne. Qed.

Lemma meq_app_nil m : meq m (m ++ []).
Proof. rewrite app_nil_r. apply meq_refl. Qed.

(* ------------------------------------------------------------------------ *)
(* unpacking the decidable hypotheses                                        *)
(* ------------------------------------------------------------------------ *)
Lemma forallb2_In {A B} (f : A -> list B) (g : B -> bool) l :
  forallb (fun a => forallb g (f a)) l = true -> forall a b, In a l -> In b (f a) -> g b = true.
Proof.
  intros H a b Ha Hb. rewrite forallb_forall in H. specialize (H a Ha). rewrite forallb_forall in H. exact (H b Hb).
Qed.

Lemma wr_stmt b v : In v (wr b) ->
  exists m op rhe sv, In (SSubst m v op rhe sv (Some TLocal)) (b_stmts b).
Proof.
  unfold wr. intros H. apply in_flat_map in H. destruct H as (s & Hs & Hv).
  destruct s as [| | |m x op rhe sv st| | |]; try (destruct Hv; fail). cbn [stmt_local_written] in Hv.
  destruct st as [[]|]; try (destruct Hv; fail). destruct Hv as [<-|[]]. eauto.
Qed.

Lemma stmt_wr b m v op rhe sv : In (SSubst m v op rhe sv (Some TLocal)) (b_stmts b) -> In v (wr b).
Proof. intros H. unfold wr. apply in_flat_map. eexists. split; [exact H|]. left. reflexivity. Qed.

Record dyn_hyps (c : cfg) : Prop := {
  dh_nophi : forall b s, In b (c_blocks c) -> In s (b_stmts b) -> stmt_nophi s = true;
  dh_pos : 0 < length (c_blocks c);
  dh_unv : forall b s, In b (c_blocks c) -> In s (b_stmts b) -> stmt_unvb s = true;
  dh_upd : forall b s, In b (c_blocks c) -> In s (b_stmts b) -> stmt_upd_ok s = true;
  dh_tag : forall b s, In b (c_blocks c) -> In s (b_stmts b) -> stmt_tag_ok (c_decls c) s = true;
  dh_par : NoDup (map key_of (c_params c));
  dh_suc : forall b s, In b (c_blocks c) -> In s (b_succs b) -> N.to_nat s < length (c_blocks c) /\ s <> 0%N
}.

Lemma dyn_pre_unpack c : ssa_dyn_pre_ok c = true -> dyn_hyps c.
Proof.
  unfold ssa_dyn_pre_ok. rewrite !andb_true_iff. intros ((((((Hp & Hn) & Hu) & Hd) & Ht) & Hk) & Hs).
  unfold pre_ssa_ok in Hp. rewrite !andb_true_iff in Hp. destruct Hp as ((Hpf & _) & _).
  constructor.
  - exact (forallb2_In b_stmts stmt_nophi _ Hpf).
  - apply Nat.ltb_lt. exact Hn.
  - exact (forallb2_In b_stmts stmt_unvb _ Hu).
  - exact (forallb2_In b_stmts stmt_upd_ok _ Hd).
  - exact (forallb2_In b_stmts (stmt_tag_ok (c_decls c)) _ Ht).
  - apply keys_nodup_NoDup. exact Hk.
  - intros b s Hb Hs0. pose proof (forallb2_In b_succs _ _ Hs b s Hb Hs0) as H. cbn beta in H.
    apply andb_true_iff in H as [H1 H2]. split; [apply Nat.ltb_lt; exact H1|].
    apply negb_true_iff in H2. apply N.eqb_neq. exact H2.
Qed.

Lemma children_tree_unpack children n : children_treeb children n = true ->
  NoDup (preorder (S n) children 0) /\ (forall i, In i (preorder (S n) children 0) -> i < n) /\
  (forall i, i < n -> In i (preorder (S n) children 0)).
Proof.
  unfold children_treeb. rewrite !andb_true_iff. intros ((H1 & H2) & H3). split; [apply nats_nodup_NoDup; exact H1|]. split.
  - intros i Hi. rewrite forallb_forall in H2. apply Nat.ltb_lt. exact (H2 i Hi).
  - exact (children_coverb_spec children n H3).
Qed.

(* ------------------------------------------------------------------------ *)
(* the construction, stage by stage                                          *)
(* ------------------------------------------------------------------------ *)
Section Main.
Variable c : cfg.
Variables frontier children : list (list N).
Notation bs0 := (c_blocks c).
Notation decls := (c_decls c).
Notation n := (length (c_blocks c)).

Hypothesis HH : dyn_hyps c.
Hypothesis Hnd : NoDup (preorder (S n) children 0).
Hypothesis Hrange : forall i, In i (preorder (S n) children 0) -> i < n.
Hypothesis Hcover : forall i, i < n -> In i (preorder (S n) children 0).
Hypothesis Hreach : creach c.
Hypothesis Hkids : children_sound c children.
Hypothesis Hfr : frontier_exact c frontier.

Variable fuel : nat.
Variables bs1 bs2 : list block.
Variable envF : senv.
Definition env0 : senv :=
  fold_left (fun env x => snd (next_version env x)) (c_params c) {| se_global := []; se_scoped := [[]] |}.
Hypothesis Hins : insert_phis fuel frontier bs0 (rev (seq 0 n)) = SOk bs1.
Hypothesis Hren : rename_tree (S n) decls children 0 bs1 env0 = SOk (bs2, envF).

(* ---- after phi insertion ---- *)
Lemma wr_unv b0 v : In b0 bs0 -> In v (wr b0) -> vn_version v = None.
Proof.
  intros Hb Hv. destruct (wr_stmt _ _ Hv) as (m & op & rhe & sv & Hs).
  pose proof (dh_unv c HH _ _ Hb Hs) as Hu. cbn [stmt_unvb] in Hu. apply andb_true_iff in Hu as [Hu _].
  apply isnoneb_true. exact Hu.
Qed.

Lemma wr_local b0 v : In b0 bs0 -> In v (wr b0) -> is_local_in decls v = true.
Proof.
  intros Hb Hv. destruct (wr_stmt _ _ Hv) as (m & op & rhe & sv & Hs).
  pose proof (dh_tag c HH _ _ Hb Hs) as Ht. cbn [stmt_tag_ok] in Ht. apply eqb_prop in Ht. exact Ht.
Qed.

Lemma placement : Forall2 (placed bs0) bs0 bs1 /\ forall a, closed_at frontier bs1 a.
Proof. exact (phi_placement frontier bs0 wr_unv fuel bs1 Hins). Qed.

Lemma len1 : length bs1 = n.
Proof. destruct placement as [H _]. clear -H. induction H; simpl; congruence. Qed.

(* block i after phi insertion *)
Lemma block1 i b1 : nth_error bs1 i = Some b1 ->
  exists b0 vs, nth_error bs0 i = Some b0 /\ b_succs b1 = b_succs b0 /\
    b_stmts b1 = map phi_stmt_for vs ++ b_stmts b0 /\
    forall v, In v vs -> vn_version v = None /\ is_local_in decls v = true.
Proof.
  intros Hb1. destruct placement as [HP _]. destruct (forall2_nth_l _ _ _ _ _ HP Hb1) as (b0 & Hb0 & (Su & vs & Hs & Hvs)).
  exists b0, vs. repeat split; auto.
  - apply Hvs. exact H.
  - destruct (Hvs v H) as [_ (b00 & Hb00 & Hw)]. eapply wr_local; eassumption.
Qed.

Lemma block0_stmts i b0 s : nth_error bs0 i = Some b0 -> In s (b_stmts b0) ->
  stmt_nophi s = true /\ stmt_unvb s = true /\ stmt_upd_ok s = true /\ stmt_tag_ok decls s = true.
Proof.
  intros Hb Hs. apply nth_error_In in Hb. repeat split.
  - eapply (dh_nophi c HH); eassumption. - eapply (dh_unv c HH); eassumption.
  - eapply (dh_upd c HH); eassumption. - eapply (dh_tag c HH); eassumption.
Qed.

Lemma phis_ok_stmts vs : forallb stmt_upd_ok (map phi_stmt_for vs) = true /\ forallb stmt_unvb (map phi_stmt_for vs) = true.
Proof. induction vs as [|v tl [IH1 IH2]]; [split; reflexivity|]. cbn [map forallb]. rewrite IH1, IH2. split; reflexivity. Qed.

Lemma block0_forallb i b0 (f : stmt -> bool) : nth_error bs0 i = Some b0 ->
  (forall s, In s (b_stmts b0) -> f s = true) -> forallb f (b_stmts b0) = true.
Proof. intros _ H. apply forallb_forall. exact H. Qed.

Lemma block1_strip i b1 : nth_error bs1 i = Some b1 -> map strip (b_stmts b1) = b_stmts b1.
Proof.
  intros Hb1. destruct (block1 i b1 Hb1) as (b0 & vs & Hb0 & _ & Hs & _). rewrite Hs, map_app. f_equal.
  - rewrite map_map. apply map_ext. intros v. reflexivity.
  - rewrite <- (map_id (b_stmts b0)) at 2. apply map_ext_in. intros s Hin. apply strip_not_phi.
    apply stmt_nophi_not_phi. apply (block0_stmts i b0 s Hb0 Hin).
Qed.

Lemma block0_no_phi i b0 : nth_error bs0 i = Some b0 -> Forall (fun s => is_phi_stmt s = false) (b_stmts b0).
Proof. intros Hb0. apply Forall_forall. intros s Hs. apply stmt_nophi_not_phi. apply (block0_stmts i b0 s Hb0 Hs). Qed.

Lemma all_phis_placed vs : all_phis (map phi_stmt_for vs).
Proof. apply Forall_forall. intros s Hs. apply in_map_iff in Hs. destruct Hs as (v & <- & _). reflexivity. Qed.

Lemma head_ok (B : list stmt) : Forall (fun s => is_phi_stmt s = false) B ->
  match B with [] => True | s :: _ => is_phi_stmt s = false end.
Proof. intros H. destruct B; [exact I|]. inversion H. assumption. Qed.

Lemma block1_phis i b1 b0 vs : nth_error bs0 i = Some b0 -> b_stmts b1 = map phi_stmt_for vs ++ b_stmts b0 ->
  phis_of b1 = map phi_stmt_for vs.
Proof.
  intros Hb0 Hs. unfold phis_of. rewrite Hs, leading_phis_split; [reflexivity|apply all_phis_placed|].
  apply head_ok. eapply block0_no_phi. exact Hb0.
Qed.

Lemma block1_keyed i b1 : nth_error bs1 i = Some b1 -> args_keyed b1.
Proof.
  intros Hb1. destruct (block1 i b1 Hb1) as (b0 & vs & Hb0 & _ & Hs & _).
  intros p x args a Hp Hpp Ha. rewrite (block1_phis i b1 b0 vs Hb0 Hs) in Hp. apply in_map_iff in Hp.
  destruct Hp as (v & <- & _). cbn in Hpp. inversion Hpp; subst. destruct Ha.
Qed.

(* a phi for v stands in block b1 exactly when v is among the inserted variables *)
Lemma has_phi_vs i b1 b0 vs v : nth_error bs0 i = Some b0 -> b_stmts b1 = map phi_stmt_for vs ++ b_stmts b0 ->
  (forall w, In w vs -> vn_version w = None) -> has_phi v b1 = true -> In v vs.
Proof.
  intros Hb0 Hs Hvs H. apply has_phi_exists in H. destruct H as (s & Hin & Hp). rewrite Hs in Hin.
  apply in_app_or in Hin. destruct Hin as [Hin|Hin].
  - apply in_map_iff in Hin. destruct Hin as (w & <- & Hw). cbn [phi_stmt_for is_phi_for] in Hp.
    apply vname_eqb_eq in Hp. rewrite (without_version_unv w (Hvs w Hw)) in Hp. subst v. exact Hw.
  - exfalso. pose proof (block0_no_phi i b0 Hb0) as HF. rewrite Forall_forall in HF. specialize (HF s Hin).
    destruct s as [| | |m x op rhe sv st| | |]; try discriminate Hp. destruct rhe; try discriminate Hp. discriminate HF.
Qed.

(* ---- the tree walk ---- *)
Lemma env0_ne : se_scoped env0 <> [].
Proof. unfold env0. apply fold_next_scoped_ne. discriminate. Qed.

Lemma inv2_init : inv2 decls bs1 bs1 [].
Proof.
  constructor.
  - reflexivity.
  - intros i b b1 H1 H2. congruence.
  - exact block1_keyed.
  - intros e [].
  - intros e [].
  - intros i b _ Hb. exists b. split; [exact Hb|]. eapply block1_strip. exact Hb.
  - intros e s b1 bsucc [].
Qed.

Lemma walk_log : exists e0 rest,
  let LOG := e0 :: rest in
  inv2 decls bs1 bs2 LOG /\ map le_idx LOG = preorder (S n) children 0 /\ le_idx e0 = 0 /\ le_in e0 = env0 /\
  (forall e, In e LOG -> eanc children LOG e0 e).
Proof.
  destruct (rename_tree_inv decls children bs1 (S n) 0 bs1 env0 bs2 envF [] Hren inv2_init) as (e0 & rest & H1 & H2 & H3 & H4 & _ & H6).
  - intros i _ [].
  - exact Hnd.
  - exact env0_ne.
  - exists e0, rest. cbn [app] in H1. auto.
Qed.

(* ------------------------------------------------------------------------ *)
(* with the log of the walk                                                  *)
(* ------------------------------------------------------------------------ *)
Section WithLog.
Variable e0 : lentry.
Variable rest : list lentry.
Notation LOG := (e0 :: rest).
Hypothesis HI : inv2 decls bs1 bs2 LOG.
Hypothesis Hidx : map le_idx LOG = preorder (S n) children 0.
Hypothesis He0i : le_idx e0 = 0.
Hypothesis He0e : le_in e0 = env0.
Hypothesis Hanc : forall e, In e LOG -> eanc children LOG e0 e.

Lemma log_unique x y : In x LOG -> In y LOG -> le_idx x = le_idx y -> x = y.
Proof. intros Hx Hy. apply (NoDup_map_inj le_idx LOG x y); [rewrite Hidx; exact Hnd|exact Hx|exact Hy]. Qed.

Lemma log_cover i : i < n -> exists e, In e LOG /\ le_idx e = i.
Proof.
  intros Hi. pose proof (Hcover i Hi) as H. rewrite <- Hidx in H. apply in_map_iff in H.
  destruct H as (e & He & Hin). eauto.
Qed.

Lemma log_lt e : In e LOG -> le_idx e < n.
Proof. intros He. apply Hrange. rewrite <- Hidx. apply in_map. exact He. Qed.

Lemma parent_idom pe e : parent_of children pe e -> cidom c (le_idx pe) (le_idx e).
Proof.
  intros [Hk _]. unfold kids in Hk. apply in_map_iff in Hk. destruct Hk as (k & <- & Hk). apply Hkids. exact Hk.
Qed.

Lemma eanc_dom x y : eanc children LOG x y -> cdom c (le_idx x) (le_idx y).
Proof.
  induction 1 as [He|b d Hab IH Hd Hbd]; [apply cdom_refl|].
  eapply cdom_trans; [exact IH|]. apply cidom_dom. apply parent_idom. exact Hbd.
Qed.

(* every dominator of a block is met on the way up the tree *)
Lemma dom_chain e : eanc children LOG e0 e -> forall d, cdom c d (le_idx e) ->
  exists pe, In pe LOG /\ le_idx pe = d /\ eanc children LOG pe e.
Proof.
  induction 1 as [He|b x Hab IH Hx Hbx]; intros d Hd.
  - exists e0. split; [exact He|]. split; [|apply eanc_refl; exact He].
    rewrite He0i in *. symmetry. apply (cdom_entry c d (dh_pos c HH) Hd).
  - destruct (Nat.eq_dec d (le_idx x)) as [->|Hne].
    + exists x. split; [exact Hx|]. split; [reflexivity|apply eanc_refl; exact Hx].
    + destruct (parent_idom b x Hbx) as [_ Hall]. assert (Hdb : cdom c d (le_idx b)) by (apply Hall; split; assumption).
      destruct (IH d Hdb) as (pe & Hpe & Hpi & Hpa). exists pe. split; [exact Hpe|]. split; [exact Hpi|].
      eapply eanc_step; eassumption.
Qed.

(* ---- one logged block ---- *)
Definition writes_key (i : nat) (k : key) : Prop :=
  exists b1 v, nth_error bs1 i = Some b1 /\ In v (wr b1) /\ key_of v = k.

Lemma entry_run e : In e LOG ->
  exists b1 b0 vs P' B' emid,
    nth_error bs1 (le_idx e) = Some b1 /\ nth_error bs0 (le_idx e) = Some b0 /\
    b_stmts b1 = map phi_stmt_for vs ++ b_stmts b0 /\
    (forall v, In v vs -> vn_version v = None /\ is_local_in decls v = true) /\
    le_ss e = P' ++ B' /\
    ssa_stmts decls (le_in e) (map phi_stmt_for vs) = SOk (P', emid) /\
    ssa_stmts decls emid (b_stmts b0) = SOk (B', le_out e) /\
    ssa_stmts decls (le_in e) (b_stmts b1) = SOk (le_ss e, le_out e) /\
    se_scoped (le_in e) <> [].
Proof.
  intros He. destruct (i_run _ _ _ _ HI e He) as (b1 & Hb1 & Hrun & Hne).
  destruct (block1 _ _ Hb1) as (b0 & vs & Hb0 & _ & Hs & Hvs).
  pose proof Hrun as Hrun'. rewrite Hs in Hrun'.
  destruct (ssa_stmts_app _ _ _ _ _ _ Hrun') as (P' & B' & emid & HE & HP & HB).
  exists b1, b0, vs, P', B', emid. repeat split; auto; apply Hvs; assumption.
Qed.

Lemma phis_define : forall vs env P' emid,
  ssa_stmts decls env (map phi_stmt_for vs) = SOk (P', emid) ->
  (forall v, In v vs -> vn_version v = None /\ is_local_in decls v = true) ->
  forall v, In v vs -> defines P' (key_of v).
Proof.
  induction vs as [|w tl IH]; intros env P' emid H Hvs v Hv; [destruct Hv|].
  cbn [map ssa_stmts] in H. sb2 H. sb2 H. inversion H; subst.
  destruct Hv as [<-|Hv].
  - unfold phi_stmt_for in E. cbn [ssa_stmt without_version vn_version ssa_expr sbind] in E.
    rewrite (is_local_in_key decls (without_version w) w eq_refl), (proj2 (Hvs w (or_introl eq_refl))) in E.
    destruct (next_version env (without_version w)) as [nv e2]. inversion E; subst.
    eexists _, _, nv. split; [left; reflexivity|]. split; [reflexivity|]. split; reflexivity.
  - destruct (IH _ _ _ E0 (fun u Hu => Hvs u (or_intror Hu)) v Hv) as (s & y & ny & Hs & Hd & Hver & Hk).
    exists s, y, ny. split; [right; exact Hs|auto].
Qed.

Lemma block1_forallb e b1 : nth_error bs1 (le_idx e) = Some b1 ->
  forallb stmt_upd_ok (b_stmts b1) = true /\ forallb stmt_unvb (b_stmts b1) = true.
Proof.
  intros Hb1. destruct (block1 _ _ Hb1) as (b0 & vs & Hb0 & _ & Hs & _). rewrite Hs, !forallb_app.
  destruct (phis_ok_stmts vs) as [-> ->].
  split; apply forallb_forall; intros s Hin; apply (block0_stmts _ b0 s Hb0 Hin).
Qed.

(* a block changes the version of the variables it assigns only *)
Lemma entry_nowrite e k : In e LOG -> ~ writes_key (le_idx e) k ->
  vget (flat (le_out e)) k = vget (flat (le_in e)) k.
Proof.
  intros He Hnw. destruct (entry_run e He) as (b1 & b0 & vs & P' & B' & emid & Hb1 & Hb0 & Hs & Hvs & _ & _ & _ & Hrun & Hne).
  destruct (block1_forallb e b1 Hb1) as [Hup Hun].
  destruct (ssa_stmts_sem decls _ _ _ _ Hrun Hup Hun Hne) as (Hm & _ & _).
  rewrite <- (Hm k). apply fold_track_other. intros s' x' Hs' Hd Hk.
  destruct (ssa_stmts_def_src decls _ _ _ _ _ _ Hrun Hun Hs' Hd) as (s & m & x & op & rhe & sv & st & Hin & -> & Hkx & Hl).
  apply Hnw. exists b1, x. split; [exact Hb1|]. split; [|congruence].
  rewrite Hs in Hin. apply in_app_or in Hin. destruct Hin as [Hin|Hin].
  - apply in_map_iff in Hin. destruct Hin as (w & Hw & Hwin). unfold phi_stmt_for in Hw. inversion Hw; subst.
    eapply stmt_wr. rewrite Hs. apply in_or_app. left. apply in_map_iff. exists w. split; [reflexivity|exact Hwin].
  - pose proof (proj2 (proj2 (proj2 (block0_stmts _ b0 _ Hb0 Hin)))) as Ht. cbn [stmt_tag_ok] in Ht. rewrite Hl in Ht.
    destruct st as [[]|]; try discriminate Ht.
    eapply stmt_wr. rewrite Hs. apply in_or_app. right. exact Hin.
Qed.

Lemma parent_flat pe e : parent_of children pe e -> flat (le_in e) = flat (le_out pe).
Proof. intros [_ H]. unfold flat. rewrite H. reflexivity. Qed.

(* going down the tree from a to b, a variable that no block strictly below a (down to b) assigns keeps its version *)
Lemma chain_keeps k a b : eanc children LOG a b ->
  (forall x, eanc children LOG a x -> eanc children LOG x b -> x <> a -> ~ writes_key (le_idx x) k) ->
  vget (flat (le_out b)) k = vget (flat (le_out a)) k.
Proof.
  induction 1 as [Ha|b x Hab IH Hx Hbx]; intros Hnw; [reflexivity|].
  assert (Hdec : x = a \/ x <> a).
  { destruct (Nat.eq_dec (le_idx x) (le_idx a)) as [E|E].
    - left. apply log_unique; [exact Hx|eapply eanc_in_l; exact Hab|exact E].
    - right. intros ->. apply E. reflexivity. }
  destruct Hdec as [->|Hne]; [reflexivity|].
  rewrite (entry_nowrite x k Hx).
  - rewrite (parent_flat b x Hbx). apply IH. intros y Hay Hyb Hya. apply Hnw; [exact Hay| |exact Hya].
    eapply eanc_step; eassumption.
  - apply Hnw; [eapply eanc_step; eassumption|apply eanc_refl; exact Hx|exact Hne].
Qed.

Lemma cedge_facts p s : cedge c p s -> s < n /\ s <> 0.
Proof.
  intros (x & Hx & Hin). destruct (dh_suc c HH x _ (nth_error_In _ _ Hx) Hin) as [H1 H2].
  rewrite Nat2N.id in H1. split; [exact H1|]. intros ->. apply H2. reflexivity.
Qed.

(* H2: a block s without a phi for the variable sees, along every incoming edge, the version that is
   current where the renaming enters s *)
Lemma no_phi_same_version e es k : In e LOG -> In es LOG -> cedge c (le_idx e) (le_idx es) ->
  (forall b1 v, nth_error bs1 (le_idx es) = Some b1 -> has_phi v b1 = true -> key_of v <> k) ->
  vget (flat (le_out e)) k = vget (flat (le_in es)) k.
Proof.
  intros He Hes Hedge Hnophi. destruct (cedge_facts _ _ Hedge) as [Hsn Hs0].
  pose proof (Hanc es Hes) as Ha. inversion Ha as [E|pe x Hpe Hx Hpar]; [rewrite <- H in Hs0; congruence|]. subst x.
  pose proof (eanc_in_r _ _ _ _ Hpe) as Hpein.
  pose proof (parent_idom pe es Hpar) as Hid.
  pose proof (cidom_dom_pred c _ _ _ Hid Hedge Hsn) as Hdp.
  destruct (dom_chain e (Hanc e He) _ Hdp) as (pe' & Hpe' & Hpi & Hpa).
  assert (pe' = pe) by (apply log_unique; assumption). subst pe'.
  rewrite (parent_flat pe es Hpar). apply (chain_keeps k pe e Hpa).
  intros x Hpx Hxe Hxne (b1 & v & Hb1 & Hv & Hk).
  pose proof (eanc_in_r _ _ _ _ Hpx) as Hxin.
  pose proof (log_lt x Hxin) as Hxn.
  (* x dominates the predecessor but not strictly s: s is in the frontier of x *)
  assert (Hdf : cdf c (le_idx x) (le_idx es)).
  { split; [exists (le_idx e); split; [exact Hedge|apply eanc_dom; exact Hxe]|].
    intros Hsd. destruct Hid as [_ Hall]. pose proof (Hall _ Hsd) as Hxd. pose proof (eanc_dom pe x Hpx) as Hdx.
    apply Hxne. apply log_unique; [exact Hxin|exact Hpein|].
    apply (cdom_antisym c _ _ (Hreach _ (log_lt pe Hpein)) Hxd Hdx). }
  apply (Hfr _ _ Hxn Hsn) in Hdf.
  assert (Hbf : exists bf, nth_error bs1 (le_idx es) = Some bf).
  { destruct (nth_error bs1 (le_idx es)) as [bf|] eqn:E; [eauto|]. apply nth_error_None in E. rewrite len1 in E. lia. }
  destruct Hbf as (bf & Hbf).
  pose proof (proj2 placement (le_idx x) b1 v (N.of_nat (le_idx es)) bf Hb1 (proj2 (vars_written_iff b1 v) Hv) Hdf) as Hclosed.
  rewrite Nat2N.id in Hclosed. specialize (Hclosed Hbf).
  exact (Hnophi bf v Hbf Hclosed Hk).
Qed.

Lemma ssa_stmts_nophi : forall ss env ss' env', ssa_stmts decls env ss = SOk (ss', env') ->
  Forall (fun s => is_phi_stmt s = false) ss -> Forall (fun s => is_phi_stmt s = false) ss'.
Proof.
  induction ss as [|s tl IH]; intros env ss' env' H HF; simpl in H.
  - inversion H. constructor.
  - sb2 H. sb2 H. inversion H; subst. inversion HF; subst. constructor.
    + rewrite (ssa_stmt_is_phi decls _ _ _ _ E). assumption.
    + eapply IH; eassumption.
Qed.

(* the final statements of a logged block: phis Phi (the renamed inserted phis, with arguments), then the
   renamed original statements B' *)
Lemma entry_block e : In e LOG ->
  exists b2 b1 b0 vs Phi P' B' emid,
    nth_error bs2 (le_idx e) = Some b2 /\ nth_error bs1 (le_idx e) = Some b1 /\ nth_error bs0 (le_idx e) = Some b0 /\
    b_stmts b1 = map phi_stmt_for vs ++ b_stmts b0 /\
    leading_phis (b_stmts b2) = (Phi, B') /\ map strip Phi = P' /\ (vs = [] -> Phi = []) /\
    meq (fold_left track P' (flat (le_in e))) (flat emid) /\
    (forall k, ~ defines P' k -> forall v, has_phi v b1 = true -> key_of v <> k) /\
    (forall L, meq L (flat emid) -> exists L', body_run L B' = Some L' /\ meq L' (flat (le_out e))).
Proof.
  intros He. destruct (entry_run e He) as (b1 & b0 & vs & P' & B' & emid & Hb1 & Hb0 & Hs & Hvs & Hss & HP & HB & _ & Hne).
  destruct (i_done _ _ _ _ HI e He) as (b2 & Hb2 & Hst). rewrite Hss in Hst.
  pose proof (ssa_stmts_phis decls _ _ _ _ HP (all_phis_placed vs)) as HallP.
  pose proof (ssa_stmts_nophi _ _ _ _ HB (block0_no_phi _ b0 Hb0)) as HnoB.
  destruct (strip_split P' (b_stmts b2) B' Hst HallP HnoB) as (Phi & HF & HSP & HallPhi).
  destruct (phis_ok_stmts vs) as [Hup1 Hun1].
  destruct (ssa_stmts_sem decls _ _ _ _ HP Hup1 Hun1 Hne) as (Hm1 & Hne1 & _).
  assert (Hup2 : forallb stmt_upd_ok (b_stmts b0) = true)
    by (apply forallb_forall; intros s Hin; apply (block0_stmts _ b0 s Hb0 Hin)).
  assert (Hun2 : forallb stmt_unvb (b_stmts b0) = true)
    by (apply forallb_forall; intros s Hin; apply (block0_stmts _ b0 s Hb0 Hin)).
  assert (Hnp2 : forallb (fun s => negb (is_phi_stmt s)) (b_stmts b0) = true).
  { apply forallb_forall. intros s Hin. apply negb_true_iff. apply stmt_nophi_not_phi. apply (block0_stmts _ b0 s Hb0 Hin). }
  destruct (ssa_stmts_sem decls _ _ _ _ HB Hup2 Hun2 Hne1) as (_ & _ & Hbody).
  exists b2, b1, b0, vs, Phi, P', B', emid. repeat split; auto.
  - rewrite HF. apply leading_phis_split; [exact HallPhi|apply head_ok; exact HnoB].
  - intros ->. cbn [map ssa_stmts] in HP. inversion HP; subst. destruct Phi; [reflexivity|discriminate].
  - intros k Hk v Hv Hkv. apply Hk. rewrite <- Hkv.
    eapply phis_define; [exact HP|exact Hvs|].
    eapply has_phi_vs; [exact Hb0|exact Hs| |exact Hv]. intros w Hw. apply Hvs. exact Hw.
Qed.

(* one step along an edge *)
Lemma step e L s : In e LOG -> meq L (flat (le_out e)) -> cedge c (le_idx e) s ->
  exists b2 L' es, nth_error bs2 s = Some b2 /\ enter_block L b2 = Some L' /\
                   In es LOG /\ le_idx es = s /\ meq L' (flat (le_out es)).
Proof.
  intros He HL Hedge. destruct (cedge_facts _ _ Hedge) as [Hsn Hs0].
  destruct (log_cover s Hsn) as (es & Hes & His). subst s.
  destruct (entry_block es Hes) as (b2 & b1 & b0 & vs & Phi & P' & B' & emid & Hb2 & Hb1 & Hb0 & Hs & Hlp & HSP & _ & Hm1 & Hdef & Hbody).
  exists b2. unfold enter_block. rewrite Hlp.
  (* the phis find the arriving version among their arguments *)
  assert (Hphis : forallb (phi_read_ok L) Phi = true).
  { apply forallb_forall. intros p Hp.
    pose proof (leading_phis_are_phis _ _ _ Hlp) as HF. rewrite Forall_forall in HF.
    destruct (is_phi_parts p (HF p Hp)) as (x & args & Hpp). unfold phi_read_ok. rewrite Hpp.
    destruct Hedge as (x0 & Hx0 & Hin).
    destruct (i_run _ _ _ _ HI e He) as (b1p & Hb1p & _).
    destruct (block1 _ _ Hb1p) as (b0p & _ & Hb0p & Hsu & _). rewrite Hx0 in Hb0p. inversion Hb0p; subst b0p.
    assert (Hb2' : nth_error bs2 (N.to_nat (N.of_nat (le_idx es))) = Some b2) by (rewrite Nat2N.id; exact Hb2).
    rewrite <- Hsu in Hin.
    pose proof (i_args _ _ _ _ HI e _ b1p b2 He Hb1p Hin Hb2' p x args) as Hok.
    rewrite (HL (key_of x)), vget_flat. apply Hok; [unfold phis_of; rewrite Hlp; exact Hp|exact Hpp]. }
  rewrite Hphis.
  (* after the phis the running map is the environment in which the body was renamed *)
  assert (Hmid : meq (apply_phis L Phi) (flat emid)).
  { unfold apply_phis. rewrite <- (fold_track_strip Phi L), HSP.
    eapply meq_trans; [|exact Hm1]. apply fold_track_agree. intros k Hk. rewrite (HL k).
    apply (no_phi_same_version e es k He Hes Hedge). intros b1' v Hb1' Hv. rewrite Hb1 in Hb1'. inversion Hb1'; subst b1'.
    exact (Hdef k Hk v Hv). }
  destruct (Hbody _ Hmid) as (L' & HL' & Hm'). exists L', es. auto.
Qed.

(* the entry block *)
Lemma block0_untouched : nth_error bs1 0 = nth_error bs0 0.
Proof.
  apply (insert_phis_untouched frontier 0 fuel bs0 (rev (seq 0 n)) bs1 Hins).
  - apply Forall_forall. intros x Hx. apply in_rev in Hx. apply in_seq in Hx. lia.
  - intros a Ha Hin. apply in_map_iff in Hin. destruct Hin as (f & Hf0 & Hf).
    assert (f = N.of_nat 0) by lia. subst f.
    apply (Hfr a 0 Ha (dh_pos c HH)) in Hf. destruct Hf as [(q & Hq & _) _].
    destruct (cedge_facts _ _ Hq) as [_ H0]. congruence.
Qed.

Lemma entry_ok : exists b2 L', nth_error bs2 0 = Some b2 /\
  enter_block (params_map (map (fun x => with_version x 0%N) (c_params c))) b2 = Some L' /\ meq L' (flat (le_out e0)).
Proof.
  assert (He : In e0 LOG) by (left; reflexivity).
  destruct (entry_block e0 He) as (b2 & b1 & b0 & vs & Phi & P' & B' & emid & Hb2 & Hb1 & Hb0 & Hs & Hlp & HSP & Hvs & Hm1 & _ & Hbody).
  rewrite He0i in *. pose proof block0_untouched as Hu. rewrite Hb1, Hb0 in Hu. inversion Hu; subst b1.
  assert (vs = []).
  { destruct vs as [|v tl]; [reflexivity|]. apply (f_equal (@length stmt)) in Hs. rewrite app_length in Hs. simpl in Hs. lia. }
  specialize (Hvs H). subst vs Phi. cbn [map] in HSP. subst P'. cbn [fold_left] in Hm1.
  exists b2. unfold enter_block. rewrite Hlp. cbn [forallb apply_phis fold_left].
  destruct (Hbody (params_map (map (fun x => with_version x 0%N) (c_params c)))) as (L' & HL' & Hm').
  - eapply meq_trans; [|exact Hm1]. rewrite He0e. unfold env0. rewrite (params_env0 _ (dh_par c HH)). apply meq_app_nil.
  - exists L'. auto.
Qed.

(* every walk from a logged block executes *)
Lemma walk_ok (cF : cfg) :
  c_blocks cF = map (fun b => set_stmts b (map (update_decl_stmt envF) (b_stmts b))) bs2 ->
  forall pi e L, In e LOG -> meq L (flat (le_out e)) -> is_walk cF (le_idx e) pi ->
  exists L', exec_path cF L pi = Some L'.
Proof.
  intros HcF. induction pi as [|s tl IH]; intros e L He HL Hw; cbn [exec_path]; [eauto|].
  cbn [is_walk] in Hw. destruct Hw as [(bp & Hbp & Hin) Hw].
  rewrite HcF, nth_error_map in Hbp.
  destruct (nth_error bs2 (le_idx e)) as [b2p|] eqn:Eb2p; [|discriminate]. cbn [option_map] in Hbp. inversion Hbp; subst bp.
  cbn [set_stmts b_succs] in Hin.
  destruct (i_run _ _ _ _ HI e He) as (b1p & Hb1p & _).
  destruct (block1 _ _ Hb1p) as (b0p & _ & Hb0p & Hsu & _).
  rewrite (i_succs _ _ _ _ HI _ _ _ Eb2p Hb1p), Hsu in Hin.
  assert (Hedge : cedge c (le_idx e) s) by (exists b0p; auto).
  destruct (step e L s He HL Hedge) as (b2 & L' & es & Hb2 & Hen & Hes & His & Hm').
  rewrite HcF, (map_nth_error _ _ _ Hb2), enter_block_update_decl, Hen.
  subst s. eapply IH; eassumption.
Qed.
End WithLog.
End Main.

(* ------------------------------------------------------------------------ *)
(* the theorem                                                               *)
(* ------------------------------------------------------------------------ *)
Theorem into_ssa_paths_ok : forall frontier children c c',
  ssa_dyn_pre_ok c = true ->
  children_treeb children (length (c_blocks c)) = true ->
  creach c -> children_sound c children -> frontier_exact c frontier ->
  into_ssa frontier children c = SOk c' ->
  forall pi, path_from_entry c' pi -> exists L, exec_path c' (params_map (c_params c')) pi = Some L.
Proof.
  intros frontier children c c' Hpre Htree Hreach Hkids Hfr H pi Hpi.
  pose proof (dyn_pre_unpack c Hpre) as HH.
  destruct (children_tree_unpack _ _ Htree) as (Hnd & Hrange & Hcover).
  destruct (into_ssa_stages _ _ _ _ H) as (fuel & bs1 & e0' & bs2 & envF & Hins & He0' & Hren & Hc'). subst e0'.
  fold (env0 c) in Hren.
  destruct (walk_log c frontier children HH Hnd fuel bs1 bs2 envF Hins Hren) as (e0 & rest & HI & Hidx & He0i & He0e & Hanc).
  destruct pi as [|[|k] tl]; cbn [path_from_entry] in Hpi; try contradiction.
  cbn [exec_path].
  destruct (entry_ok c frontier HH Hfr fuel bs1 bs2 Hins e0 rest HI He0i He0e) as (b2 & L' & Hb2 & Hen & Hm').
  assert (Hblocks : c_blocks c' = map (fun b => set_stmts b (map (update_decl_stmt envF) (b_stmts b))) bs2)
    by (rewrite Hc'; reflexivity).
  assert (Hpar : c_params c' = map (fun x => with_version x 0%N) (c_params c)) by (rewrite Hc'; reflexivity).
  rewrite Hblocks, (map_nth_error _ _ _ Hb2), enter_block_update_decl, Hpar, Hen.
  apply (walk_ok c frontier children HH Hnd Hrange Hcover Hreach Hkids Hfr fuel bs1 bs2 envF Hins e0 rest HI Hidx He0i Hanc
                 c' Hblocks tl e0 L' (or_introl eq_refl) Hm').
  rewrite He0i. exact Hpi.
Qed.

(* ------------------------------------------------------------------------ *)
(* the hypotheses are needed                                                 *)
(* ------------------------------------------------------------------------ *)
Module Needed.
Definition k0 : know := {| kval := None; kdeg := None |}.
Definition m0 : meta := {| m_start := 0%N; m_end := 0%N; m_file := None |}.
Definition xu : vname := {| vn_name := [120%N]; vn_suffix := None; vn_version := None |}.
Definition yu : vname := {| vn_name := [121%N]; vn_suffix := None; vn_version := None |}.
Definition blk i ss su := {| b_index := i; b_depth := 0%N; b_stmts := ss; b_preds := []; b_succs := su |}.
(* a diamond  0 -> 1 -> 2, 0 -> 2  with dominator tree 0 - {1, 2} and DF(1) = {2} *)
Definition diamond (s0 s1 s2 : list stmt) (ps : list vname) : cfg :=
  {| c_kind := KFunction; c_params := ps; c_decls := [(xu, TLocal); (yu, TLocal)];
     c_blocks := [ blk 0%N s0 [1%N; 2%N]; blk 1%N s1 [2%N]; blk 2%N s2 [] ] |}.
Definition fr : list (list N) := [[]; [2%N]; []].
Definition ch : list (list N) := [[1%N; 2%N]; []; []].
Definition fails (c : cfg) (pi : list nat) : Prop :=
  exists c', into_ssa fr ch c = SOk c' /\ path_from_entry c' pi /\ exec_path c' (params_map (c_params c')) pi = None.

(* an assignment to a declared local whose tag does not say Local: no phi is inserted for x
   at block 2, the read there names x.0 although x.1 arrives from block 1 *)
Example tag_agreement_needed :
  let c := diamond [SSubst m0 xu OpVar (ENum 0 k0) None None] [SSubst m0 xu OpVar (ENum 1 k0) None None]
                   [SRet m0 (EVar xu k0)] [] in
  ssa_dyn_pre_ok c = false /\ children_treeb ch 3 = true /\ fails c [0; 1; 2].
Proof.
  split; [vm_compute; reflexivity|]. split; [vm_compute; reflexivity|].
  eexists. split; [vm_compute; reflexivity|]. split; [|vm_compute; reflexivity].
  cbn. repeat split; eexists; (split; [reflexivity|]); cbn; auto.
Qed.

(* an update expression of ANOTHER variable: y gets a fresh version that no statement defines *)
Example update_placement_needed :
  let c := diamond [SSubst m0 xu OpVar (EUpdate yu [] (ENum 0 k0) k0) None (Some TLocal); SRet m0 (EVar yu k0)] [] [] [] in
  ssa_dyn_pre_ok c = false /\ fails c [0].
Proof.
  split; [vm_compute; reflexivity|].
  eexists. split; [vm_compute; reflexivity|]. split; [|vm_compute; reflexivity]. exact I.
Qed.

(* a parameter listed twice: version 1 in the environment, version 0 in the parameter list *)
Example distinct_parameters_needed :
  let c := diamond [SRet m0 (EVar xu k0)] [] [] [xu; xu] in
  ssa_dyn_pre_ok c = false /\ fails c [0].
Proof.
  split; [vm_compute; reflexivity|].
  eexists. split; [vm_compute; reflexivity|]. split; [|vm_compute; reflexivity]. exact I.
Qed.
End Needed.

(* ------------------------------------------------------------------------ *)
(* corollary: every read is dominated by its definition                      *)
(* ------------------------------------------------------------------------ *)
(* SsaProofs.ssa_check_read_defined_on_path, from the dynamic statement alone *)
Lemma paths_ok_read_defined c pi bi b s v n :
  (forall p, path_from_entry c p -> exists L, exec_path c (params_map (c_params c)) p = Some L) ->
  path_from_entry c (pi ++ [bi]) ->
  nth_error (c_blocks c) bi = Some b -> In s (b_stmts b) -> is_phi_stmt s = false ->
  In v (stmt_reads s) -> vn_version v = Some n ->
  update_base s = Some v \/
  vget (params_map (c_params c)) (key_of v) = Some n \/
  defined_on c (pi ++ [bi]) (key_of v) n.
Proof.
  intros Hall Hp Hb Hs Hnphi Hv Hn.
  destruct (Hall _ Hp) as [Lf Hex].
  destruct (exec_path_app c pi [bi] _ _ Hex) as (L1 & Hpre & Hlast).
  cbn [exec_path] in Hlast. rewrite Hb in Hlast.
  destruct (enter_block L1 b) as [L2|] eqn:Ee; [|discriminate]. clear Hlast.
  unfold enter_block in Ee. destruct (leading_phis (b_stmts b)) as [phis body] eqn:El.
  destruct (forallb (phi_read_ok L1) phis) eqn:Ephi; [|discriminate].
  pose proof (leading_phis_app _ _ _ El) as Happ.
  assert (Hsb : In s body).
  { rewrite Happ in Hs. apply in_app_or in Hs as [Hs|Hs]; [|exact Hs].
    pose proof (leading_phis_are_phis _ _ _ El) as Hf. rewrite Forall_forall in Hf. specialize (Hf s Hs). congruence. }
  apply in_split in Hsb as (pre & post & Hsplit). rewrite Hsplit in Ee.
  destruct (body_run_split pre s post _ _ Ee) as (m1 & Hm1 & Hok).
  unfold body_stmt_ok in Hok. apply andb_true_iff in Hok as [_ Hreads]. rewrite forallb_forall in Hreads.
  specialize (Hreads v Hv). unfold read_ok in Hreads. rewrite Hn in Hreads.
  destruct (vget m1 (key_of v)) as [n'|] eqn:Eg.
  - apply N.eqb_eq in Hreads. subst n'.
    destruct (body_run_vget _ _ _ _ _ Hm1 Eg) as [H1|(s' & Hin & Hset)].
    + destruct (apply_phis_vget _ _ _ _ H1) as [H2|(s' & Hin & Hset)].
      * destruct (exec_path_vget c pi _ _ _ _ Hpre H2) as [H3|(j & b' & s' & Hj & Hb' & Hs' & Hset)].
        -- right. left. exact H3.
        -- right. right. exists j, b', s'. repeat split; auto. apply in_or_app. left. exact Hj.
      * right. right. exists bi, b, s'. repeat split; auto.
        -- apply in_or_app. right. left. reflexivity.
        -- rewrite Happ. apply in_or_app. left. exact Hin.
    + right. right. exists bi, b, s'. repeat split; auto.
      * apply in_or_app. right. left. reflexivity.
      * rewrite Happ, Hsplit. apply in_or_app. right. apply in_or_app. left. exact Hin.
  - destruct (update_base s) as [w|] eqn:Eu; [|discriminate]. left. f_equal.
    apply vname_eqb_true_eq. exact Hreads.
Qed.

(* in the output of the construction, on every path from the entry that ends in the block of a read,
   the version the read names has been assigned by a statement of that path (or is the parameter's
   version, or the fresh base version of an element-wise update): the definition dominates the read *)
Theorem into_ssa_read_defined_on_path : forall frontier children c c' pi bi b s v n,
  ssa_dyn_pre_ok c = true ->
  children_treeb children (length (c_blocks c)) = true ->
  creach c -> children_sound c children -> frontier_exact c frontier ->
  into_ssa frontier children c = SOk c' ->
  path_from_entry c' (pi ++ [bi]) ->
  nth_error (c_blocks c') bi = Some b -> In s (b_stmts b) -> is_phi_stmt s = false ->
  In v (stmt_reads s) -> vn_version v = Some n ->
  update_base s = Some v \/
  vget (params_map (c_params c')) (key_of v) = Some n \/
  defined_on c' (pi ++ [bi]) (key_of v) n.
Proof.
  intros frontier children c c' pi bi b s v n H1 H2 H3 H4 H5 H6.
  apply paths_ok_read_defined. exact (into_ssa_paths_ok frontier children c c' H1 H2 H3 H4 H5 H6).
Qed.
