(* Proofs for C15: the mirror Model.Dom computes dominators, immediate
   dominators, dominator-tree children and dominance frontiers as defined in
   Spec.DomSpec, for every rooted graph. *)
From Coq Require Import ZArith Lia.
From stdpp Require Import list list_numbers sets.
Require Import Model.Dom Spec.DomSpec.

Global Instance node_inhabited : Inhabited node := populate (Node [] []).

(* ------------------------------------------------------------------ *)
(* bit masks as sets                                                  *)
(* ------------------------------------------------------------------ *)

Lemma of_nat_eqb i j : (N.of_nat i =? N.of_nat j)%N = bool_decide (i = j).
Proof.
  case_bool_decide; [apply N.eqb_eq; congruence|].
  apply N.eqb_neq. intros ?%Nat2N.inj. done.
Qed.

Lemma mem_ins i j s : mem i (ins j s) = bool_decide (i = j) || mem i s.
Proof.
  unfold mem, ins. rewrite N.setbit_eqb, of_nat_eqb.
  f_equal. apply bool_decide_ext. naive_solver.
Qed.

Lemma mem_del i j s : mem i (del j s) = mem i s && negb (bool_decide (i = j)).
Proof.
  unfold mem, del. rewrite N.clearbit_eqb, of_nat_eqb.
  do 2 f_equal. apply bool_decide_ext. naive_solver.
Qed.

Lemma mem_full i n : mem i (full n) = bool_decide (i < n).
Proof.
  unfold mem, full. case_bool_decide.
  - apply N.ones_spec_low. lia.
  - apply N.ones_spec_high. lia.
Qed.

Lemma mem_land i s t : mem i (N.land s t) = mem i s && mem i t.
Proof. apply N.land_spec. Qed.
Lemma mem_lor i s t : mem i (N.lor s t) = mem i s || mem i t.
Proof. apply N.lor_spec. Qed.
Lemma mem_ldiff i s t : mem i (N.ldiff s t) = mem i s && negb (mem i t).
Proof. apply N.ldiff_spec. Qed.
Lemma mem_0 i : mem i 0 = false.
Proof. apply N.bits_0. Qed.

Lemma mask_ext s t : (∀ i, mem i s = mem i t) → s = t.
Proof.
  intros H. apply N.bits_inj. intros k.
  specialize (H (N.to_nat k)). unfold mem in H. by rewrite N2Nat.id in H.
Qed.

Lemma pred_N_of_succ_nat m : Pos.pred_N (Pos.of_succ_nat m) = N.of_nat m.
Proof.
  change (Pos.pred_N (Pos.of_succ_nat m)) with (N.pred (N.of_nat (S m))).
  by rewrite Nat2N.inj_succ, N.pred_succ.
Qed.
Lemma testbit_xI_S p m : Pos.testbit p~1 (N.of_nat (S m)) = Pos.testbit p (N.of_nat m).
Proof. simpl. by rewrite pred_N_of_succ_nat. Qed.
Lemma testbit_xO_S p m : Pos.testbit p~0 (N.of_nat (S m)) = Pos.testbit p (N.of_nat m).
Proof. simpl. by rewrite pred_N_of_succ_nat. Qed.

Lemma elem_of_pos_members p k i :
  i ∈ pos_members p k ↔ k ≤ i ∧ Pos.testbit p (N.of_nat (i - k)) = true.
Proof.
  revert k. induction p as [p IH|p IH|]; intros k; cbn [pos_members].
  - rewrite elem_of_cons, IH.
    destruct (decide (i = k)) as [->|].
    { replace (k - k) with 0 by lia. naive_solver lia. }
    destruct (decide (k ≤ i)); [|naive_solver lia].
    replace (i - k) with (S (i - S k)) by lia. rewrite testbit_xI_S. naive_solver lia.
  - rewrite IH.
    destruct (decide (i = k)) as [->|].
    { replace (k - k) with 0 by lia. simpl. naive_solver lia. }
    destruct (decide (k ≤ i)); [|naive_solver lia].
    replace (i - k) with (S (i - S k)) by lia. rewrite testbit_xO_S. naive_solver lia.
  - rewrite elem_of_list_singleton.
    destruct (decide (i = k)) as [->|].
    { replace (k - k) with 0 by lia. naive_solver lia. }
    destruct (decide (k ≤ i)); [|naive_solver lia].
    replace (i - k) with (S (i - S k)) by lia. simpl. naive_solver lia.
Qed.

Lemma elem_of_members i s : i ∈ members s ↔ mem i s = true.
Proof.
  unfold members, mem. destruct s as [|p]; simpl.
  - rewrite elem_of_nil. done.
  - rewrite elem_of_pos_members. replace (i - 0) with i by lia. naive_solver lia.
Qed.

Lemma NoDup_pos_members p k : NoDup (pos_members p k).
Proof.
  revert k. induction p as [p IH|p IH|]; intros k; simpl; [|apply IH|apply NoDup_singleton].
  apply NoDup_cons. split; [|apply IH].
  rewrite elem_of_pos_members. lia.
Qed.

Lemma NoDup_members s : NoDup (members s).
Proof. destruct s; simpl; [constructor|apply NoDup_pos_members]. Qed.

Lemma card_le s t : (∀ i, mem i s = true → mem i t = true) → card s ≤ card t.
Proof.
  intros H. apply submseteq_length, NoDup_submseteq; [apply NoDup_members|].
  intros x. rewrite !elem_of_members. apply H.
Qed.

(* a subset of the same cardinality is the whole set *)
Lemma card_eq_subset s t :
  (∀ i, mem i s = true → mem i t = true) → card t ≤ card s → s = t.
Proof.
  intros H Hc.
  assert (members s ≡ₚ members t) as HP.
  { apply submseteq_Permutation_length_le; [done|].
    apply NoDup_submseteq; [apply NoDup_members|].
    intros x. rewrite !elem_of_members. apply H. }
  apply mask_ext. intros i.
  destruct (mem i s) eqn:E1, (mem i t) eqn:E2; try done.
  - apply H in E1. congruence.
  - apply elem_of_members in E2. rewrite <- HP in E2. apply elem_of_members in E2. congruence.
Qed.

Lemma card_lt s t :
  (∀ i, mem i s = true → mem i t = true) → s ≠ t → card s < card t.
Proof.
  intros H Hne. destruct (decide (card t ≤ card s)); [|lia].
  destruct Hne. by apply card_eq_subset.
Qed.

Lemma card_bounded n s : (∀ i, mem i s = true → i < n) → card s ≤ n.
Proof.
  intros H. rewrite <- (seq_length n 0).
  apply submseteq_length, NoDup_submseteq; [apply NoDup_members|].
  intros x Hx%elem_of_members. apply elem_of_seq. specialize (H _ Hx). lia.
Qed.

Lemma card_0 s : card s = 0 ↔ s = 0%N.
Proof.
  split; [|by intros ->].
  intros H. apply mask_ext. intros i. rewrite mem_0.
  destruct (mem i s) eqn:E; [|done].
  apply elem_of_members in E. unfold card in H.
  destruct (members s); [by apply elem_of_nil in E|done].
Qed.

Lemma sum_list_with_insert {A} (f : A → nat) l i x y :
  l !! i = Some x →
  sum_list_with f (<[i:=y]> l) + f x = sum_list_with f l + f y.
Proof.
  revert i. induction l as [|a l IH]; intros [|i] H; simplify_eq/=; [lia|].
  specialize (IH _ H). lia.
Qed.

(* ------------------------------------------------------------------ *)
(* get                                                                *)
(* ------------------------------------------------------------------ *)
Lemma get_ok {A} `{!Inhabited A} site (l : list A) i :
  i < length l → get site l i = Ok (l !!! i).
Proof.
  intros H. unfold get. apply list_lookup_lookup_total_lt in H. by rewrite H.
Qed.

(* ------------------------------------------------------------------ *)
(* paths                                                              *)
(* ------------------------------------------------------------------ *)
Section paths.
  Context (g : graph).

  Lemma edge_lt a b : edge g a b → a < length g.
  Proof. intros (x & Hx & _). by eapply lookup_lt_Some. Qed.

  Lemma path_start a b l : path g a b l → ∃ l', l = a :: l'.
  Proof. destruct 1; eauto. Qed.

  Lemma path_src_lt a b l : path g a b l → a < length g.
  Proof. destruct 1; eauto using edge_lt. Qed.

  Lemma path_dst_lt a b l : path g a b l → b < length g.
  Proof. induction 1; eauto. Qed.

  Lemma path_end a b l : path g a b l → ∃ l', l = l' ++ [b].
  Proof.
    induction 1 as [a|a c b l He Hp [l' ->]]; [by exists []|].
    by exists (a :: l').
  Qed.

  Lemma path_snoc a b c l : path g a b l → edge g b c → c < length g → path g a c (l ++ [c]).
  Proof.
    induction 1 as [a|a c' b l He Hp IH]; intros Hbc Hc; simpl.
    - apply path_cons with c; [done|by constructor].
    - apply path_cons with c'; auto.
  Qed.

  Lemma path_snoc_inv a c l :
    path g a c l → (l = [a] ∧ a = c) ∨ ∃ l' b, l = l' ++ [c] ∧ path g a b l' ∧ edge g b c.
  Proof.
    induction 1 as [a|a c' b l He Hp IH]; [by left|right].
    destruct IH as [[-> ->]|(l' & b' & -> & Hp' & He')].
    - exists [a], a. split_and!; [done| |done]. constructor. by eapply edge_lt.
    - exists (a :: l'), b'. split_and!; [done| |done]. by apply path_cons with c'.
  Qed.

  (* cutting a path at an occurrence of x *)
  Lemma path_split a c l1 x l2 :
    path g a c (l1 ++ x :: l2) → path g a x (l1 ++ [x]) ∧ path g x c (x :: l2).
  Proof.
    revert a. induction l1 as [|y l1 IH]; intros a H; simpl in *.
    - pose proof (path_start _ _ _ H) as [l' [= -> ->]].
      split; [|done]. constructor. by eapply path_src_lt.
    - inversion H as [|? c' ? ? He Hp]; subst.
      { by destruct l1. }
      destruct (IH _ Hp) as [H1 H2]. split; [|done].
      by apply path_cons with c'.
  Qed.

  (* joining two paths at their common end point *)
  Lemma path_app a b c l1 l2 :
    path g a b (l1 ++ [b]) → path g b c (b :: l2) → path g a c (l1 ++ b :: l2).
  Proof.
    revert a. induction l1 as [|y l1 IH]; intros a H1 H2; simpl in *.
    - inversion H1; subst; [done|]. match goal with H : path _ _ _ [] |- _ => inversion H end.
    - inversion H1 as [|? c' ? ? He Hp]; subst.
      { by destruct l1. }
      apply path_cons with c'; [done|]. by apply IH.
  Qed.

  Lemma path_elem_lt a b l x : path g a b l → x ∈ l → x < length g.
  Proof.
    induction 1 as [a|a c' b l He Hp IH].
    - intros ->%elem_of_list_singleton. done.
    - intros [->|?]%elem_of_cons; [by eapply edge_lt|auto].
  Qed.
End paths.

(* ------------------------------------------------------------------ *)
(* basic facts about dominance in rooted graphs                        *)
(* ------------------------------------------------------------------ *)
Section dominance.
  Context (g : graph) (Hg : rooted g).
  Notation n := (length g).

  Lemma pred_edge q j x : g !! j = Some x → q ∈ preds x → edge g q j.
  Proof.
    intros Hj Hq.
    assert (q < n) as Hlt by (by eapply rooted_preds).
    destruct (lookup_lt_is_Some_2 g q Hlt) as [xq Hxq].
    exists xq. split; [done|]. by eapply (rooted_mirror g Hg q j).
  Qed.

  Lemma edge_pred q j : edge g q j → ∃ x, g !! j = Some x ∧ q ∈ preds x.
  Proof.
    intros (xq & Hxq & Hj).
    assert (j < n) as Hlt by (by eapply rooted_succs).
    destruct (lookup_lt_is_Some_2 g j Hlt) as [x Hx].
    exists x. split; [done|]. by eapply (rooted_mirror g Hg q j).
  Qed.

  Lemma edge_dst_lt a b : edge g a b → b < n.
  Proof. intros (x & Hx & Hb). by eapply rooted_succs. Qed.

  Lemma dom_lt i j : j < n → dom g i j → i < n.
  Proof.
    intros Hj Hd. destruct (rooted_reach g Hg j Hj) as [l Hl].
    eapply path_elem_lt; [done|]. by apply Hd.
  Qed.

  Lemma dom_refl j : dom g j j.
  Proof.
    intros l Hl. destruct (path_end _ _ _ _ Hl) as [l' ->]. set_solver.
  Qed.

  Lemma dom_entry j : dom g 0 j.
  Proof.
    intros l Hl. destruct (path_start _ _ _ _ Hl) as [l' ->]. set_solver.
  Qed.

  Lemma dom_of_entry i : dom g i 0 → i = 0.
  Proof.
    intros H. specialize (H [0]). rewrite elem_of_list_singleton in H.
    apply H. constructor. apply (rooted_nonempty g Hg).
  Qed.

  Lemma entry_no_pred q : ¬ edge g q 0.
  Proof.
    intros (x & Hx & Hq)%edge_pred. rewrite (rooted_entry g Hg _ Hx) in Hq.
    by apply elem_of_nil in Hq.
  Qed.

  (* a dominator of j other than j dominates every predecessor of j *)
  Lemma dom_pred i j q : dom g i j → i ≠ j → edge g q j → dom g i q.
  Proof.
    intros Hd Hne He l Hl.
    assert (i ∈ l ++ [j]) as Hin.
    { apply Hd. eapply path_snoc; eauto using edge_dst_lt. }
    set_solver.
  Qed.

  Lemma dom_trans i j k : dom g i j → dom g j k → dom g i k.
  Proof.
    intros Hij Hjk l Hl.
    pose proof (Hjk _ Hl) as (l1 & l2 & ->)%elem_of_list_split.
    destruct (path_split _ _ _ _ _ _ Hl) as [H1 _].
    apply Hij in H1. set_solver.
  Qed.

  Lemma dom_antisym i j : j < n → dom g i j → dom g j i → i = j.
  Proof.
    intros Hj Hij Hji. destruct (decide (i = j)) as [|Hne]; [done|exfalso].
    destruct (rooted_reach g Hg j Hj) as [l Hl].
    (* cut at the first occurrence of j *)
    assert (j ∈ l) as (l1 & l2 & -> & Hnj)%elem_of_list_split_l by (by eapply dom_refl).
    destruct (path_split _ _ _ _ _ _ Hl) as [H1 _].
    assert (i ∈ l1) as (k1 & k2 & ->)%elem_of_list_split.
    { apply Hij in H1. set_solver. }
    rewrite <- app_assoc in H1. simpl in H1.
    destruct (path_split _ _ _ _ _ _ H1) as [H2 _].
    apply Hji in H2. set_solver.
  Qed.

  (* two dominators of the same node are comparable *)
  Lemma dom_chain a b i : i < n → dom g a i → dom g b i → dom g a b ∨ dom g b a.
  Proof.
    intros Hi Ha Hb.
    destruct (decide (a = b)) as [->|Hne]; [left; apply dom_refl|].
    destruct (rooted_reach g Hg i Hi) as [l Hl].
    (* last occurrence of a, then look for b after it *)
    pose proof (Ha _ Hl) as (l1 & l2 & -> & Hna)%elem_of_list_split_r.
    destruct (decide (b ∈ l2)) as [Hbin|Hbout].
    - (* b occurs after the last a: a dominates b *)
      left. apply elem_of_list_split_r in Hbin as (k1 & k2 & -> & Hnb).
      replace (l1 ++ a :: k1 ++ b :: k2) with ((l1 ++ a :: k1) ++ b :: k2) in Hl
        by (by rewrite <- app_assoc).
      destruct (path_split _ _ _ _ _ _ Hl) as [_ H2].
      intros p Hp. destruct (path_end _ _ _ _ Hp) as [p' ->].
      pose proof (path_app _ _ _ _ _ _ Hp H2) as Hfull.
      apply Ha in Hfull. set_solver.
    - (* no b after the last a: b dominates a *)
      right. destruct (path_split _ _ _ _ _ _ Hl) as [_ H2].
      intros p Hp. destruct (path_end _ _ _ _ Hp) as [p' ->].
      pose proof (path_app _ _ _ _ _ _ Hp H2) as Hfull.
      apply Hb in Hfull. set_solver.
  Qed.
End dominance.
