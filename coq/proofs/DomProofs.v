(* Proofs for C15: the mirror Model.Dom computes dominators, immediate
   dominators, dominator-tree children and dominance frontiers as defined in
   Spec.DomSpec, for every rooted graph. *)
From Coq Require Import ZArith Lia.
From stdpp Require Import list list_numbers sets.
Require Import Model.Dom Spec.DomSpec.

Global Instance node_inhabited : Inhabited node := populate (Node [] []).

(* ------------------------------------------------------------------ *)
(* bit masks as sets                                                  *)
(* ------------------------------------------------------------------ *)

Lemma of_nat_eqb i j : (N.of_nat i =? N.of_nat j)%N = bool_decide (i = j).
Proof.
  case_bool_decide; [apply N.eqb_eq; congruence|].
  apply N.eqb_neq. intros ?%Nat2N.inj. done.
Qed.

Lemma mem_ins i j s : mem i (ins j s) = bool_decide (i = j) || mem i s.
Proof.
  unfold mem, ins. rewrite N.setbit_eqb, of_nat_eqb.
  f_equal. apply bool_decide_ext. naive_solver.
Qed.

Lemma mem_del i j s : mem i (del j s) = mem i s && negb (bool_decide (i = j)).
Proof.
  unfold mem, del. rewrite N.clearbit_eqb, of_nat_eqb.
  do 2 f_equal. apply bool_decide_ext. naive_solver.
Qed.

Lemma mem_full i n : mem i (full n) = bool_decide (i < n).
Proof.
  unfold mem, full. case_bool_decide.
  - apply N.ones_spec_low. lia.
  - apply N.ones_spec_high. lia.
Qed.

Lemma mem_land i s t : mem i (N.land s t) = mem i s && mem i t.
Proof. apply N.land_spec. Qed.
Lemma mem_lor i s t : mem i (N.lor s t) = mem i s || mem i t.
Proof. apply N.lor_spec. Qed.
Lemma mem_ldiff i s t : mem i (N.ldiff s t) = mem i s && negb (mem i t).
Proof. apply N.ldiff_spec. Qed.
Lemma mem_0 i : mem i 0 = false.
Proof. apply N.bits_0. Qed.

Lemma mask_ext s t : (∀ i, mem i s = mem i t) → s = t.
Proof.
  intros H. apply N.bits_inj. intros k.
  specialize (H (N.to_nat k)). unfold mem in H. by rewrite N2Nat.id in H.
Qed.

Lemma pred_N_of_succ_nat m : Pos.pred_N (Pos.of_succ_nat m) = N.of_nat m.
Proof.
  change (Pos.pred_N (Pos.of_succ_nat m)) with (N.pred (N.of_nat (S m))).
  by rewrite Nat2N.inj_succ, N.pred_succ.
Qed.
Lemma testbit_xI_S p m : Pos.testbit p~1 (N.of_nat (S m)) = Pos.testbit p (N.of_nat m).
Proof. simpl. by rewrite pred_N_of_succ_nat. Qed.
Lemma testbit_xO_S p m : Pos.testbit p~0 (N.of_nat (S m)) = Pos.testbit p (N.of_nat m).
Proof. simpl. by rewrite pred_N_of_succ_nat. Qed.

Lemma elem_of_pos_members p k i :
  i ∈ pos_members p k ↔ k ≤ i ∧ Pos.testbit p (N.of_nat (i - k)) = true.
Proof.
  revert k. induction p as [p IH|p IH|]; intros k; cbn [pos_members].
  - rewrite elem_of_cons, IH.
    destruct (decide (i = k)) as [->|].
    { replace (k - k) with 0 by lia. naive_solver lia. }
    destruct (decide (k ≤ i)); [|naive_solver lia].
    replace (i - k) with (S (i - S k)) by lia. rewrite testbit_xI_S. naive_solver lia.
  - rewrite IH.
    destruct (decide (i = k)) as [->|].
    { replace (k - k) with 0 by lia. simpl. naive_solver lia. }
    destruct (decide (k ≤ i)); [|naive_solver lia].
    replace (i - k) with (S (i - S k)) by lia. rewrite testbit_xO_S. naive_solver lia.
  - rewrite elem_of_list_singleton.
    destruct (decide (i = k)) as [->|].
    { replace (k - k) with 0 by lia. naive_solver lia. }
    destruct (decide (k ≤ i)); [|naive_solver lia].
    replace (i - k) with (S (i - S k)) by lia. simpl. naive_solver lia.
Qed.

Lemma elem_of_members i s : i ∈ members s ↔ mem i s = true.
Proof.
  unfold members, mem. destruct s as [|p]; simpl.
  - rewrite elem_of_nil. done.
  - rewrite elem_of_pos_members. replace (i - 0) with i by lia. naive_solver lia.
Qed.

Lemma NoDup_pos_members p k : NoDup (pos_members p k).
Proof.
  revert k. induction p as [p IH|p IH|]; intros k; simpl; [|apply IH|apply NoDup_singleton].
  apply NoDup_cons. split; [|apply IH].
  rewrite elem_of_pos_members. lia.
Qed.

Lemma NoDup_members s : NoDup (members s).
Proof. destruct s; simpl; [constructor|apply NoDup_pos_members]. Qed.

Lemma card_le s t : (∀ i, mem i s = true → mem i t = true) → card s ≤ card t.
Proof.
  intros H. apply submseteq_length, NoDup_submseteq; [apply NoDup_members|].
  intros x. rewrite !elem_of_members. apply H.
Qed.

(* a subset of the same cardinality is the whole set *)
Lemma card_eq_subset s t :
  (∀ i, mem i s = true → mem i t = true) → card t ≤ card s → s = t.
Proof.
  intros H Hc.
  assert (members s ≡ₚ members t) as HP.
  { apply submseteq_Permutation_length_le; [done|].
    apply NoDup_submseteq; [apply NoDup_members|].
    intros x. rewrite !elem_of_members. apply H. }
  apply mask_ext. intros i.
  destruct (mem i s) eqn:E1, (mem i t) eqn:E2; try done.
  - apply H in E1. congruence.
  - apply elem_of_members in E2. rewrite <- HP in E2. apply elem_of_members in E2. congruence.
Qed.

Lemma card_lt s t :
  (∀ i, mem i s = true → mem i t = true) → s ≠ t → card s < card t.
Proof.
  intros H Hne. destruct (decide (card t ≤ card s)); [|lia].
  destruct Hne. by apply card_eq_subset.
Qed.

Lemma card_bounded n s : (∀ i, mem i s = true → i < n) → card s ≤ n.
Proof.
  intros H. rewrite <- (seq_length n 0).
  apply submseteq_length, NoDup_submseteq; [apply NoDup_members|].
  intros x Hx%elem_of_members. apply elem_of_seq. specialize (H _ Hx). lia.
Qed.

Lemma card_0 s : card s = 0 ↔ s = 0%N.
Proof.
  split; [|by intros ->].
  intros H. apply mask_ext. intros i. rewrite mem_0.
  destruct (mem i s) eqn:E; [|done].
  apply elem_of_members in E. unfold card in H.
  destruct (members s); [by apply elem_of_nil in E|done].
Qed.

Lemma sum_list_with_insert {A} (f : A → nat) l i x y :
  l !! i = Some x →
  sum_list_with f (<[i:=y]> l) + f x = sum_list_with f l + f y.
Proof.
  revert i. induction l as [|a l IH]; intros [|i] H; simplify_eq/=; [lia|].
  specialize (IH _ H). lia.
Qed.

(* ------------------------------------------------------------------ *)
(* get                                                                *)
(* ------------------------------------------------------------------ *)
Lemma get_ok {A} `{!Inhabited A} site (l : list A) i :
  i < length l → get site l i = Ok (l !!! i).
Proof.
  intros H. unfold get. apply list_lookup_lookup_total_lt in H. by rewrite H.
Qed.

(* ------------------------------------------------------------------ *)
(* paths                                                              *)
(* ------------------------------------------------------------------ *)
Section paths.
  Context (g : graph).

  Lemma edge_lt a b : edge g a b → a < length g.
  Proof. intros (x & Hx & _). by eapply lookup_lt_Some. Qed.

  Lemma path_start a b l : path g a b l → ∃ l', l = a :: l'.
  Proof. destruct 1; eauto. Qed.

  Lemma path_src_lt a b l : path g a b l → a < length g.
  Proof. destruct 1; eauto using edge_lt. Qed.

  Lemma path_dst_lt a b l : path g a b l → b < length g.
  Proof. induction 1; eauto. Qed.

  Lemma path_end a b l : path g a b l → ∃ l', l = l' ++ [b].
  Proof.
    induction 1 as [a|a c b l He Hp [l' ->]]; [by exists []|].
    by exists (a :: l').
  Qed.

  Lemma path_snoc a b c l : path g a b l → edge g b c → c < length g → path g a c (l ++ [c]).
  Proof.
    induction 1 as [a|a c' b l He Hp IH]; intros Hbc Hc; simpl.
    - apply path_cons with c; [done|by constructor].
    - apply path_cons with c'; auto.
  Qed.

  Lemma path_snoc_inv a c l :
    path g a c l → (l = [a] ∧ a = c) ∨ ∃ l' b, l = l' ++ [c] ∧ path g a b l' ∧ edge g b c.
  Proof.
    induction 1 as [a|a c' b l He Hp IH]; [by left|right].
    destruct IH as [[-> ->]|(l' & b' & -> & Hp' & He')].
    - exists [a], a. split_and!; [done| |done]. constructor. by eapply edge_lt.
    - exists (a :: l'), b'. split_and!; [done| |done]. by apply path_cons with c'.
  Qed.

  (* cutting a path at an occurrence of x *)
  Lemma path_split a c l1 x l2 :
    path g a c (l1 ++ x :: l2) → path g a x (l1 ++ [x]) ∧ path g x c (x :: l2).
  Proof.
    revert a. induction l1 as [|y l1 IH]; intros a H; simpl in *.
    - pose proof (path_start _ _ _ H) as [l' [= -> ->]].
      split; [|done]. constructor. by eapply path_src_lt.
    - inversion H as [|? c' ? ? He Hp]; subst.
      { by destruct l1. }
      destruct (IH _ Hp) as [H1 H2]. split; [|done].
      by apply path_cons with c'.
  Qed.

  (* joining two paths at their common end point *)
  Lemma path_app a b c l1 l2 :
    path g a b (l1 ++ [b]) → path g b c (b :: l2) → path g a c (l1 ++ b :: l2).
  Proof.
    revert a. induction l1 as [|y l1 IH]; intros a H1 H2; simpl in *.
    - inversion H1; subst; [done|]. match goal with H : path _ _ _ [] |- _ => inversion H end.
    - inversion H1 as [|? c' ? ? He Hp]; subst.
      { by destruct l1. }
      apply path_cons with c'; [done|]. by apply IH.
  Qed.

  Lemma path_elem_lt a b l x : path g a b l → x ∈ l → x < length g.
  Proof.
    induction 1 as [a|a c' b l He Hp IH].
    - intros ->%elem_of_list_singleton. done.
    - intros [->|?]%elem_of_cons; [by eapply edge_lt|auto].
  Qed.
End paths.

(* ------------------------------------------------------------------ *)
(* basic facts about dominance in rooted graphs                        *)
(* ------------------------------------------------------------------ *)
Section dominance.
  Context (g : graph) (Hg : rooted g).
  Notation n := (length g).

  Lemma pred_edge q j x : g !! j = Some x → q ∈ preds x → edge g q j.
  Proof.
    intros Hj Hq.
    assert (q < n) as Hlt by (by eapply rooted_preds).
    destruct (lookup_lt_is_Some_2 g q Hlt) as [xq Hxq].
    exists xq. split; [done|]. by eapply (rooted_mirror g Hg q j).
  Qed.

  Lemma edge_pred q j : edge g q j → ∃ x, g !! j = Some x ∧ q ∈ preds x.
  Proof.
    intros (xq & Hxq & Hj).
    assert (j < n) as Hlt by (by eapply rooted_succs).
    destruct (lookup_lt_is_Some_2 g j Hlt) as [x Hx].
    exists x. split; [done|]. by eapply (rooted_mirror g Hg q j).
  Qed.

  Lemma edge_dst_lt a b : edge g a b → b < n.
  Proof. intros (x & Hx & Hb). by eapply rooted_succs. Qed.

  Lemma dom_lt i j : j < n → dom g i j → i < n.
  Proof.
    intros Hj Hd. destruct (rooted_reach g Hg j Hj) as [l Hl].
    eapply path_elem_lt; [done|]. by apply Hd.
  Qed.

  Lemma dom_refl j : dom g j j.
  Proof.
    intros l Hl. destruct (path_end _ _ _ _ Hl) as [l' ->]. set_solver.
  Qed.

  Lemma dom_entry j : dom g 0 j.
  Proof.
    intros l Hl. destruct (path_start _ _ _ _ Hl) as [l' ->]. set_solver.
  Qed.

  Lemma dom_of_entry i : dom g i 0 → i = 0.
  Proof.
    intros H. specialize (H [0]). rewrite elem_of_list_singleton in H.
    apply H. constructor. apply (rooted_nonempty g Hg).
  Qed.

  Lemma entry_no_pred q : ¬ edge g q 0.
  Proof.
    intros (x & Hx & Hq)%edge_pred. rewrite (rooted_entry g Hg _ Hx) in Hq.
    by apply elem_of_nil in Hq.
  Qed.

  (* a dominator of j other than j dominates every predecessor of j *)
  Lemma dom_pred i j q : dom g i j → i ≠ j → edge g q j → dom g i q.
  Proof.
    intros Hd Hne He l Hl.
    assert (i ∈ l ++ [j]) as Hin.
    { apply Hd. eapply path_snoc; eauto using edge_dst_lt. }
    set_solver.
  Qed.

  Lemma dom_trans i j k : dom g i j → dom g j k → dom g i k.
  Proof.
    intros Hij Hjk l Hl.
    pose proof (Hjk _ Hl) as (l1 & l2 & ->)%elem_of_list_split.
    destruct (path_split _ _ _ _ _ _ Hl) as [H1 _].
    apply Hij in H1. set_solver.
  Qed.

  Lemma dom_antisym i j : j < n → dom g i j → dom g j i → i = j.
  Proof.
    intros Hj Hij Hji. destruct (decide (i = j)) as [|Hne]; [done|exfalso].
    destruct (rooted_reach g Hg j Hj) as [l Hl].
    (* cut at the first occurrence of j *)
    assert (j ∈ l) as (l1 & l2 & -> & Hnj)%elem_of_list_split_l by (by eapply dom_refl).
    destruct (path_split _ _ _ _ _ _ Hl) as [H1 _].
    assert (i ∈ l1) as (k1 & k2 & ->)%elem_of_list_split.
    { apply Hij in H1. set_solver. }
    rewrite <- app_assoc in H1. simpl in H1.
    destruct (path_split _ _ _ _ _ _ H1) as [H2 _].
    apply Hji in H2. set_solver.
  Qed.

  (* two dominators of the same node are comparable *)
  Lemma dom_chain a b i : i < n → dom g a i → dom g b i → dom g a b ∨ dom g b a.
  Proof.
    intros Hi Ha Hb.
    destruct (decide (a = b)) as [->|Hne]; [left; apply dom_refl|].
    destruct (rooted_reach g Hg i Hi) as [l Hl].
    (* last occurrence of a, then look for b after it *)
    pose proof (Ha _ Hl) as (l1 & l2 & -> & Hna)%elem_of_list_split_r.
    destruct (decide (b ∈ l2)) as [Hbin|Hbout].
    - (* b occurs after the last a: a dominates b *)
      left. apply elem_of_list_split_r in Hbin as (k1 & k2 & -> & Hnb).
      replace (l1 ++ a :: k1 ++ b :: k2) with ((l1 ++ a :: k1) ++ b :: k2) in Hl
        by (by rewrite <- app_assoc).
      destruct (path_split _ _ _ _ _ _ Hl) as [_ H2].
      intros p Hp. destruct (path_end _ _ _ _ Hp) as [p' ->].
      pose proof (path_app _ _ _ _ _ _ Hp H2) as Hfull.
      apply Ha in Hfull. set_solver.
    - (* no b after the last a: b dominates a *)
      right. destruct (path_split _ _ _ _ _ _ Hl) as [_ H2].
      intros p Hp. destruct (path_end _ _ _ _ Hp) as [p' ->].
      pose proof (path_app _ _ _ _ _ _ Hp H2) as Hfull.
      apply Hb in Hfull. set_solver.
  Qed.
End dominance.

(* ------------------------------------------------------------------ *)
(* compute_dominators: the iterative data flow                         *)
(* ------------------------------------------------------------------ *)
Lemma sum_list_with_replicate {A} (f : A → nat) k x :
  sum_list_with f (replicate k x) = k * f x.
Proof. induction k; simpl; lia. Qed.

Lemma inter_preds_spec D ps acc :
  (∀ j, j ∈ ps → j < length D) →
  ∃ s, inter_preds D ps acc = Ok s ∧
       ∀ x, mem x s = true ↔ mem x acc = true ∧ ∀ j, j ∈ ps → mem x (D !!! j) = true.
Proof.
  revert acc. induction ps as [|j ps IH]; intros acc Hps.
  - exists acc. split; [done|]. intros x. set_solver.
  - cbn [inter_preds]. rewrite get_ok by (apply Hps; set_solver).
    destruct (IH (N.land acc (D !!! j))) as (s & -> & Hs); [intros; apply Hps; set_solver|].
    exists s. split; [done|]. intros x. rewrite Hs, mem_land, andb_true_iff.
    split.
    + intros [[? ?] HH]. split; [done|]. intros j' [->|?]%elem_of_cons; auto.
    + intros [? HH]. split_and!; [done|apply HH; set_solver|intros; apply HH; set_solver].
Qed.

Section dataflow.
  Context (g : graph) (Hg : rooted g).
  Notation n := (length g).

  Lemma lookup_total_node i : i < n → g !! i = Some (g !!! i).
  Proof. apply list_lookup_lookup_total_lt. Qed.

  Lemma preds_lt i q : i < n → q ∈ preds (g !!! i) → q < n.
  Proof. intros Hi. eapply rooted_preds; [done|]. by apply lookup_total_node. Qed.

  Lemma preds_edge i q : i < n → q ∈ preds (g !!! i) → edge g q i.
  Proof. intros Hi. eapply pred_edge; [done|]. by apply lookup_total_node. Qed.

  Lemma edge_preds q i : edge g q i → i < n ∧ q ∈ preds (g !!! i).
  Proof.
    intros He. destruct (edge_pred g Hg _ _ He) as (x & Hx & Hq).
    split; [by eapply lookup_lt_Some|]. by rewrite (list_lookup_total_correct _ _ _ Hx).
  Qed.

  (* the set `new_dominators` of block i in state D *)
  Definition New (D : list N) (i x : nat) : Prop :=
    x = i ∨ (x < n ∧ ∀ q, q ∈ preds (g !!! i) → mem x (D !!! q) = true).

  Lemma new_dominators_spec D i :
    length D = n → i < n →
    ∃ s, new_dominators g n D i = Ok s ∧ ∀ x, mem x s = true ↔ New D i x.
  Proof.
    intros HD Hi. unfold new_dominators. rewrite get_ok by done. cbn [Base.bind].
    destruct (inter_preds_spec D (preds (g !!! i)) (full n)) as (s & -> & Hs).
    { intros j Hj. rewrite HD. by eapply preds_lt. }
    cbn [Base.bind]. eexists; split; [done|]. intros x.
    rewrite mem_ins, orb_true_iff, Hs, mem_full, !bool_decide_eq_true. done.
  Qed.

  Record inv (D : list N) : Prop := {
    inv_len : length D = n;
    inv_entry : D !!! 0 = ins 0 0%N;
    inv_sound : ∀ j x, j < n → dom g x j → mem x (D !!! j) = true;
    inv_dec : ∀ i x, 1 ≤ i < n → New D i x → mem x (D !!! i) = true;
  }.

  Definition mu (D : list N) : nat := sum_list_with card D.

  Lemma dom_New D i x : inv D → i < n → dom g x i → New D i x.
  Proof.
    intros HI Hi Hd. destruct (decide (x = i)) as [|Hne]; [by left|right].
    split; [by eapply dom_lt|]. intros q Hq.
    apply (inv_sound _ HI); [by eapply preds_lt|].
    eapply dom_pred; eauto using preds_edge.
  Qed.

  Lemma inv_update D i s :
    inv D → 1 ≤ i < n → (∀ x, mem x s = true ↔ New D i x) → inv (<[i:=s]> D).
  Proof.
    intros HI Hi Hs.
    pose proof (inv_len _ HI) as HL.
    assert (∀ q x, mem x (<[i:=s]> D !!! q) = true → mem x (D !!! q) = true) as Hle.
    { intros q x. destruct (decide (q = i)) as [->|].
      - rewrite list_lookup_total_insert by lia. intros ?%Hs. by apply (inv_dec _ HI).
      - by rewrite list_lookup_total_insert_ne. }
    split.
    - by rewrite insert_length.
    - rewrite list_lookup_total_insert_ne by lia. apply (inv_entry _ HI).
    - intros j x Hj Hd. destruct (decide (j = i)) as [->|].
      + rewrite list_lookup_total_insert by lia. apply Hs. by apply dom_New.
      + rewrite list_lookup_total_insert_ne by done. by apply (inv_sound _ HI).
    - intros i' x Hi' HN.
      assert (New D i' x) as HN'.
      { destruct HN as [|[? H]]; [by left|right]. split; [done|]. intros q Hq. apply Hle; auto. }
      destruct (decide (i' = i)) as [->|].
      + rewrite list_lookup_total_insert by lia. by apply Hs.
      + rewrite list_lookup_total_insert_ne by done. by apply (inv_dec _ HI).
  Qed.

  Lemma mu_update D i s :
    inv D → 1 ≤ i < n → (∀ x, mem x s = true ↔ New D i x) → s ≠ D !!! i →
    mu (<[i:=s]> D) < mu D.
  Proof.
    intros HI Hi Hs Hne. unfold mu.
    assert (D !! i = Some (D !!! i)) as HDi.
    { apply list_lookup_lookup_total_lt. rewrite (inv_len _ HI). lia. }
    pose proof (sum_list_with_insert card D i (D !!! i) s HDi).
    assert (card s < card (D !!! i)); [|lia].
    apply card_lt; [|done]. intros x ?%Hs. by apply (inv_dec _ HI).
  Qed.

  Lemma dom_pass_spec is D done :
    inv D → (∀ i, i ∈ is → 1 ≤ i < n) →
    ∃ D' done', dom_pass g n is D done = Ok (D', done') ∧ inv D' ∧ mu D' ≤ mu D ∧
      ((done' = done ∧ D' = D ∧ ∀ i x, i ∈ is → (mem x (D !!! i) = true ↔ New D i x))
       ∨ (done' = false ∧ mu D' < mu D)).
  Proof.
    revert D done. induction is as [|i is IH]; intros D done HI His.
    - exists D, done. split_and!; [done|done|done|]. left. set_solver.
    - assert (1 ≤ i < n) as Hi by (apply His; set_solver).
      destruct (new_dominators_spec D i) as (s & Hnew & Hs); [apply HI|lia|].
      cbn [dom_pass]. rewrite Hnew. cbn [Base.bind].
      rewrite get_ok by (rewrite (inv_len _ HI); lia). cbn [Base.bind].
      destruct (N.eqb s (D !!! i)) eqn:E.
      + apply N.eqb_eq in E.
        destruct (IH D done HI) as (D' & done' & -> & HI' & Hmu & Hcase); [intros; apply His; set_solver|].
        exists D', done'. split_and!; [done|done|done|].
        destruct Hcase as [(-> & -> & Hfix)|?]; [left|by right].
        split_and!; [done|done|]. intros i' x [->|?]%elem_of_cons; [|by apply Hfix].
        by rewrite <- E.
      + apply N.eqb_neq in E.
        pose proof (inv_update D i s HI Hi Hs) as HI1.
        pose proof (mu_update D i s HI Hi Hs E) as Hmu1.
        destruct (IH (<[i:=s]> D) false HI1) as (D' & done' & -> & HI' & Hmu & Hcase);
          [intros; apply His; set_solver|].
        exists D', done'. split_and!; [done|done|lia|]. right.
        destruct Hcase as [(-> & -> & _)|[-> ?]]; split; (done || lia).
  Qed.

  Definition is_fix (D : list N) : Prop :=
    ∀ i x, 1 ≤ i < n → (mem x (D !!! i) = true ↔ New D i x).

  Lemma dom_loop_spec fuel D :
    inv D → mu D < fuel → ∃ D', dom_loop fuel g n D = Ok D' ∧ inv D' ∧ is_fix D'.
  Proof.
    revert D. induction fuel as [|fuel IH]; intros D HI Hmu; [lia|].
    pose proof (rooted_nonempty g Hg) as Hn.
    destruct (dom_pass_spec (seq 1 (n - 1)) D true HI) as (D' & done' & Hp & HI' & Hmu' & Hcase).
    { intros i ?%elem_of_seq. lia. }
    cbn [dom_loop]. rewrite Hp. cbn [Base.bind fst snd].
    destruct Hcase as [(-> & -> & Hfix)|[-> ?]].
    - exists D. split_and!; [done|done|]. intros i x Hi. apply Hfix, elem_of_seq. lia.
    - apply IH; [done|lia].
  Qed.

  Lemma inv_init : inv (dom_init n).
  Proof.
    pose proof (rooted_nonempty g Hg) as Hn. unfold dom_init. split.
    - simpl. rewrite replicate_length. lia.
    - done.
    - intros j x Hj Hd. destruct j as [|j].
      + apply (dom_of_entry g Hg) in Hd as ->. done.
      + change ((?a :: ?l) !!! S j) with (l !!! j).
        rewrite lookup_total_replicate_2 by lia. rewrite mem_full, bool_decide_eq_true.
        by eapply dom_lt.
    - intros i x Hi HN. destruct i as [|i]; [lia|].
      change ((?a :: ?l) !!! S i) with (l !!! i).
      rewrite lookup_total_replicate_2 by lia. rewrite mem_full, bool_decide_eq_true.
      destruct HN as [->|[? _]]; lia.
  Qed.

  Lemma mu_init : mu (dom_init n) < dom_fuel g.
  Proof.
    pose proof (rooted_nonempty g Hg) as Hn. unfold mu, dom_init, dom_fuel.
    cbn [sum_list_with]. rewrite sum_list_with_replicate.
    assert (card (full n) ≤ n).
    { apply card_bounded. intros i. rewrite mem_full, bool_decide_eq_true. done. }
    assert (card (ins 0 0%N) = 1) as -> by done. nia.
  Qed.

  Lemma fixpoint_exact D :
    inv D → is_fix D → ∀ j x, j < n → (mem x (D !!! j) = true ↔ dom g x j).
  Proof.
    intros HI Hfix j x Hj. split; [|by apply (inv_sound _ HI)].
    intros Hm l Hl. revert j x Hj Hm Hl.
    induction l as [|y l0 IH] using rev_ind; intros j x Hj Hm Hl.
    { inversion Hl. }
    destruct (path_snoc_inv _ _ _ _ Hl) as [[Hl1 <-]|(l' & b & Heq & Hp & He)].
    - rewrite (inv_entry _ HI), mem_ins, mem_0, orb_false_r, bool_decide_eq_true in Hm.
      subst x. rewrite Hl1. set_solver.
    - apply app_inj_tail in Heq as [-> ->].
      assert (1 ≤ j < n) as Hj1.
      { split; [|done]. destruct j; [|lia]. by apply (entry_no_pred g Hg) in He. }
      apply (Hfix j x Hj1) in Hm as [->|[_ Hq]]; [set_solver|].
      apply edge_preds in He as [_ Hb]. specialize (Hq _ Hb).
      apply elem_of_app; left. eapply IH; [|done|done]. by eapply path_dst_lt.
  Qed.

  (* enough fuel, exact result *)
  Theorem compute_dominators_correct :
    ∃ D, compute_dominators (dom_fuel g) g = Ok D ∧ length D = n ∧
         ∀ j x, j < n → (mem x (D !!! j) = true ↔ dom g x j).
  Proof.
    destruct (dom_loop_spec (dom_fuel g) (dom_init n) inv_init mu_init) as (D & HD & HI & Hfix).
    exists D. split_and!; [done|apply HI|]. by apply fixpoint_exact.
  Qed.
End dataflow.

(* ------------------------------------------------------------------ *)
(* compute_immediate_dominators                                        *)
(* ------------------------------------------------------------------ *)
Lemma card_le_1_eq c x y : card c ≤ 1 → mem x c = true → mem y c = true → x = y.
Proof.
  intros Hc Hx%elem_of_members Hy%elem_of_members. unfold card in Hc.
  destruct (members c) as [|a [|b l]]; simpl in Hc; [set_solver|set_solver|lia].
Qed.

Lemma card_le_1_intro c : (∀ x y, mem x c = true → mem y c = true → x = y) → card c ≤ 1.
Proof.
  intros H. unfold card. pose proof (NoDup_members c) as Hnd.
  destruct (members c) as [|a [|b l]] eqn:E; simpl; [lia|lia|exfalso].
  assert (a = b) as ->.
  { apply H; apply elem_of_members; rewrite E; set_solver. }
  apply NoDup_cons in Hnd as [Hnd _]. set_solver.
Qed.

Lemma list_max_by (f : nat → nat) (l : list nat) :
  l ≠ [] → ∃ x, x ∈ l ∧ ∀ y, y ∈ l → f y ≤ f x.
Proof.
  induction l as [|a l IH]; [done|]. intros _.
  destruct l as [|b l].
  { exists a. set_solver. }
  destruct IH as (x & Hx & Hmax); [done|].
  destruct (decide (f x ≤ f a)).
  - exists a. split; [set_solver|]. intros y [->|Hy]%elem_of_cons; [done|].
    specialize (Hmax _ Hy). lia.
  - exists x. split; [set_solver|]. intros y [->|Hy]%elem_of_cons; [lia|]. by apply Hmax.
Qed.

Section idom.
  Context (g : graph) (Hg : rooted g).
  Notation n := (length g).
  Context (D : list N) (HDlen : length D = n)
          (HD : ∀ j x, j < n → (mem x (D !!! j) = true ↔ dom g x j)).
  Context (ord : nat → list nat → list nat) (Hord : ∀ i l, ord i l ≡ₚ l).

  Lemma sdom_lt i j : j < n → sdom g i j → i < n.
  Proof. intros ? [? _]. by eapply (dom_lt g Hg). Qed.

  Lemma sdom_trans i j k : k < n → sdom g i j → sdom g j k → sdom g i k.
  Proof.
    intros Hk [Hij Hne1] [Hjk Hne2]. split; [by eapply (dom_trans g Hg)|].
    intros ->. apply Hne2. eapply (dom_antisym g Hg); eauto.
  Qed.

  Lemma idom_unique a b i : i < n → idom_spec g a i → idom_spec g b i → a = b.
  Proof.
    intros Hi [Ha Ha'] [Hb Hb']. eapply (dom_antisym g Hg); [by eapply sdom_lt|by apply Hb'|by apply Ha'].
  Qed.

  Lemma card_dom_lt a b : b < n → sdom g a b → card (D !!! a) < card (D !!! b).
  Proof.
    intros Hb [Hab Hne]. assert (a < n) as Ha by (by eapply (dom_lt g Hg)).
    apply card_lt.
    - intros x. rewrite !HD by done. intros. by eapply (dom_trans g Hg).
    - intros Heq. assert (mem b (D !!! a) = true) as Hm.
      { rewrite Heq. apply (proj2 (HD b b Hb)), (dom_refl g Hg). }
      apply (proj1 (HD a b Ha)) in Hm. apply Hne. eapply (dom_antisym g Hg); eauto.
  Qed.

  (* every node but the entry has an immediate dominator *)
  Lemma idom_exists i : 0 < i < n → ∃ j, idom_spec g j i.
  Proof using Hg HD.
    clear Hord ord HDlen. intros Hi.
    assert (mem 0 (del i (D !!! i)) = true) as H0.
    { rewrite mem_del, andb_true_iff, negb_true_iff, bool_decide_eq_false.
      split; [|lia]. apply HD; [lia|]. apply (dom_entry g Hg). }
    destruct (list_max_by (λ x, card (D !!! x)) (members (del i (D !!! i)))) as (x & Hx & Hmax).
    { apply elem_of_members in H0. intros E. rewrite E in H0. set_solver. }
    apply elem_of_members in Hx.
    rewrite mem_del, andb_true_iff, negb_true_iff, bool_decide_eq_false, HD in Hx by lia.
    exists x. split; [done|]. intros k Hk.
    destruct (decide (k = x)) as [->|Hne]; [apply (dom_refl g Hg)|].
    destruct (dom_chain g Hg k x i) as [|Hxk]; [lia|apply Hk|apply Hx|done|exfalso].
    assert (k < n) as Hkn by (eapply sdom_lt; [|done]; lia).
    assert (card (D !!! x) < card (D !!! k)) by (apply card_dom_lt; [done|]; split; done).
    assert (card (D !!! k) ≤ card (D !!! x)); [|lia].
    apply (Hmax k), elem_of_members.
    rewrite mem_del, andb_true_iff, negb_true_iff, bool_decide_eq_false, HD by lia.
    destruct Hk. done.
  Qed.

  Lemma no_idom_entry j : ¬ idom_spec g j 0.
  Proof. intros [[Hd Hne] _]. by apply (dom_of_entry g Hg) in Hd. Qed.

  (* the accumulated set is the set of strict dominators of the processed
     candidates, whatever the order and in spite of the `continue` *)
  Lemma all_dominators_spec S cs all :
    (∀ j, j ∈ S ++ cs → j < n) →
    (∀ k, mem k all = true ↔ ∃ j, j ∈ S ∧ sdom g k j) →
    ∃ all', all_dominators D cs all = Ok all' ∧
            ∀ k, mem k all' = true ↔ ∃ j, j ∈ S ++ cs ∧ sdom g k j.
  Proof.
    revert S all. induction cs as [|j cs IH]; intros S all Hlt Hall.
    { exists all. split; [done|]. by rewrite app_nil_r. }
    assert (j < n) as Hj by (apply Hlt; set_solver).
    cbn [all_dominators]. destruct (mem j all) eqn:Hmem.
    - destruct (IH (S ++ [j]) all) as (all' & -> & Hall').
      { intros j'. rewrite <- app_assoc. apply Hlt. }
      { intros k. rewrite Hall. split; [set_solver|].
        intros (j' & [Hj'| ->%elem_of_list_singleton]%elem_of_app & Hs); [by eauto|].
        apply Hall in Hmem as (j'' & Hj'' & Hs'). exists j''. split; [done|].
        eapply sdom_trans; eauto. apply Hlt. set_solver. }
      exists all'. split; [done|]. intros k. rewrite Hall', <- app_assoc. done.
    - rewrite get_ok by lia. cbn [Base.bind].
      destruct (IH (S ++ [j]) (N.lor (del j (D !!! j)) all)) as (all' & -> & Hall').
      { intros j'. rewrite <- app_assoc. apply Hlt. }
      { intros k. rewrite mem_lor, orb_true_iff, mem_del, andb_true_iff, negb_true_iff,
          bool_decide_eq_false, HD, Hall by done.
        split.
        - intros [[? ?]|(j' & ? & ?)]; [exists j; split; [set_solver|done]|exists j'; set_solver].
        - intros (j' & [Hj'| ->%elem_of_list_singleton]%elem_of_app & Hs); [right; eauto|].
          left. destruct Hs. done. }
      exists all'. split; [done|]. intros k. rewrite Hall', <- app_assoc. done.
  Qed.

  Lemma idom_candidates_spec i :
    i < n → ∃ c, idom_candidates ord D i = Ok c ∧ ∀ j, mem j c = true ↔ idom_spec g j i.
  Proof.
    intros Hi. unfold idom_candidates. rewrite get_ok by lia. cbn [Base.bind].
    assert (∀ x, mem x (del i (D !!! i)) = true ↔ sdom g x i) as Hc.
    { intros x. rewrite mem_del, andb_true_iff, negb_true_iff, bool_decide_eq_false, HD by done. done. }
    destruct (1 <? card (del i (D !!! i))) eqn:Hcard.
    - destruct (all_dominators_spec [] (ord i (members (del i (D !!! i)))) 0%N) as (all & -> & Hall).
      { intros j. rewrite app_nil_l, Hord, elem_of_members, Hc. by apply sdom_lt. }
      { intros k. rewrite mem_0. set_solver. }
      cbn [Base.bind].
      assert (∀ j, mem j (N.ldiff (del i (D !!! i)) all) = true ↔ idom_spec g j i) as Hres.
      { intros j. rewrite mem_ldiff, andb_true_iff, negb_true_iff, Hc. split.
        - intros [Hs Hnot]. split; [done|]. intros k Hk.
          destruct (decide (k = j)) as [->|Hne]; [apply (dom_refl g Hg)|].
          destruct (dom_chain g Hg k j i Hi) as [|Hjk]; [apply Hk|apply Hs|done|exfalso].
          assert (mem j all = true) as Hin; [|congruence].
          apply Hall. exists k. split; [|split; [done|congruence]].
          rewrite app_nil_l, Hord, elem_of_members. by apply Hc.
        - intros [Hs Hclose]. split; [done|].
          destruct (mem j all) eqn:Hm; [exfalso|done].
          apply Hall in Hm as (k & Hk & [Hjk Hne]).
          rewrite app_nil_l, Hord, elem_of_members, Hc in Hk.
          apply Hne. eapply (dom_antisym g Hg); [|done|by apply Hclose].
          by eapply sdom_lt. }
      assert (card (N.ldiff (del i (D !!! i)) all) ≤ 1) as Hle.
      { apply card_le_1_intro. intros x y ?%Hres ?%Hres. by eapply idom_unique. }
      apply Nat.leb_le in Hle. rewrite Hle. eauto.
    - apply Nat.ltb_ge in Hcard. eexists; split; [done|].
      intros j. rewrite Hc. split.
      + intros Hs. split; [done|]. intros k Hk.
        assert (k = j) as ->; [|apply (dom_refl g Hg)].
        eapply card_le_1_eq; [done| |]; by apply Hc.
      + by intros [? _].
  Qed.

  Lemma idom_loop_spec is idom ch :
    length idom = n → length ch = n → (∀ i, i ∈ is → i < n) → NoDup is →
    (∀ i, i ∈ is → idom !!! i = None) →
    ∃ idom' ch', idom_loop ord D is idom ch = Ok (idom', ch') ∧
      length idom' = n ∧ length ch' = n ∧
      (∀ i j, i ∈ is → (idom' !!! i = Some j ↔ idom_spec g j i)) ∧
      (∀ i, i ∉ is → idom' !!! i = idom !!! i) ∧
      (∀ j i, j < n → (mem i (ch' !!! j) = true ↔
                       mem i (ch !!! j) = true ∨ (i ∈ is ∧ idom_spec g j i))).
  Proof.
    revert idom ch. induction is as [|i is IH]; intros idom ch Hli Hlc Hlt Hnd Hnone.
    { exists idom, ch. split_and!; try done; set_solver. }
    apply NoDup_cons in Hnd as [Hni Hnd].
    assert (i < n) as Hi by (apply Hlt; set_solver).
    destruct (idom_candidates_spec i Hi) as (c & Hcand & Hc).
    cbn [idom_loop]. rewrite Hcand. cbn [Base.bind].
    destruct (members c) as [|j rest] eqn:Hmem.
    - (* no immediate dominator *)
      assert (∀ j, ¬ idom_spec g j i) as Hno.
      { intros j Hj%Hc%elem_of_members. rewrite Hmem in Hj. set_solver. }
      destruct (IH idom ch) as (idom' & ch' & -> & ? & ? & Hid & Hkeep & Hch); try done.
      { intros; apply Hlt; set_solver. }
      { intros; apply Hnone; set_solver. }
      exists idom', ch'. split_and!; try done.
      + intros i' j [->|?]%elem_of_cons; [|by apply Hid].
        rewrite Hkeep, Hnone by set_solver. split; [done|]. intros ?. by destruct (Hno j).
      + intros i' ?. apply Hkeep. set_solver.
      + intros j i' Hj. rewrite Hch by done. split; [set_solver|].
        intros [?|[[->|?]%elem_of_cons ?]]; [by left|by destruct (Hno j)|set_solver].
    - assert (idom_spec g j i) as Hji.
      { apply Hc, elem_of_members. rewrite Hmem. set_solver. }
      assert (j < n) as Hj by (destruct Hji as [? _]; by eapply sdom_lt).
      rewrite (get_ok _ idom) by lia. cbn [Base.bind].
      rewrite (get_ok _ ch) by lia. cbn [Base.bind].
      destruct (IH (<[i:=Some j]> idom) (<[j:=ins i (ch !!! j)]> ch))
        as (idom' & ch' & -> & ? & ? & Hid & Hkeep & Hch); try done.
      { by rewrite insert_length. }
      { by rewrite insert_length. }
      { intros; apply Hlt; set_solver. }
      { intros i' Hi'. rewrite list_lookup_total_insert_ne by set_solver. apply Hnone. set_solver. }
      exists idom', ch'. split_and!; try done.
      + intros i' j' [->|?]%elem_of_cons; [|by apply Hid].
        rewrite Hkeep, list_lookup_total_insert by (done || lia). split.
        * by intros [= <-].
        * intros ?. f_equal. by apply (idom_unique j j' i).
      + intros i' ?. rewrite Hkeep by set_solver. apply list_lookup_total_insert_ne. set_solver.
      + intros j' i' Hj'. rewrite Hch by done.
        destruct (decide (j' = j)) as [->|Hne].
        * rewrite list_lookup_total_insert, mem_ins, orb_true_iff, bool_decide_eq_true by lia.
          split; [set_solver|].
          intros [?|[[->|?]%elem_of_cons ?]]; [by left; right|by left; left|by right].
        * rewrite list_lookup_total_insert_ne by done.
          split; [set_solver|].
          intros [?|[[->|?]%elem_of_cons ?]]; [by left| |by right].
          destruct Hne. by apply (idom_unique j' j i).
  Qed.

  Theorem compute_immediate_dominators_correct :
    ∃ idom ch, compute_immediate_dominators ord g D = Ok (idom, ch) ∧
      length idom = n ∧ length ch = n ∧
      (∀ i j, i < n → (idom !!! i = Some j ↔ idom_spec g j i)) ∧
      (∀ j i, j < n → i < n → (mem i (ch !!! j) = true ↔ idom_spec g j i)).
  Proof.
    unfold compute_immediate_dominators.
    destruct (idom_loop_spec (seq 0 n) (replicate n None) (replicate n 0%N))
      as (idom & ch & -> & ? & ? & Hid & _ & Hch).
    { apply replicate_length. }
    { apply replicate_length. }
    { intros i ?%elem_of_seq. lia. }
    { apply NoDup_seq. }
    { intros i ?%elem_of_seq. apply lookup_total_replicate_2. lia. }
    exists idom, ch. split_and!; try done.
    - intros i j Hi. apply Hid, elem_of_seq. lia.
    - intros j i Hj Hi. rewrite Hch, lookup_total_replicate_2, mem_0, elem_of_seq by done.
      split; [intros [|[]]; done|]. intros. right. split; [lia|done].
  Qed.
End idom.

(* ------------------------------------------------------------------ *)
(* compute_dominance_frontier                                          *)
(* ------------------------------------------------------------------ *)
Section frontier.
  Context (g : graph) (Hg : rooted g).
  Notation n := (length g).
  Context (D : list N) (HDlen : length D = n)
          (HD : ∀ j x, j < n → (mem x (D !!! j) = true ↔ dom g x j)).
  Context (idom : list (option nat)) (Hilen : length idom = n)
          (Hidom : ∀ i j, i < n → (idom !!! i = Some j ↔ idom_spec g j i)).

  (* with t the immediate dominator of i: x strictly dominates i iff x dominates t *)
  Lemma sdom_iff_dom_idom t i x : i < n → idom_spec g t i → (sdom g x i ↔ dom g x t).
  Proof.
    intros Hi [[Hti Hne] Hcl]. split; [apply Hcl|].
    intros Hxt. split; [by eapply (dom_trans g Hg)|].
    intros ->. apply Hne. by eapply (dom_antisym g Hg).
  Qed.

  Lemma card_pos k : k < n → 0 < card (D !!! k).
  Proof.
    intros Hk. assert (mem k (D !!! k) = true) as Hm%elem_of_members.
    { apply HD; [done|]. apply (dom_refl g Hg). }
    unfold card. destruct (members _); [set_solver|simpl; lia].
  Qed.

  (* the walk from k up the dominator tree, stopping below t *)
  Lemma df_walk_spec fuel i t k DF :
    i < n → idom !!! i = Some t → k < n → dom g t k → card (D !!! k) ≤ fuel → length DF = n →
    ∃ DF', df_walk fuel idom i k DF = Ok DF' ∧ length DF' = n ∧
      ∀ x y, x < n → (mem y (DF' !!! x) = true ↔
                      mem y (DF !!! x) = true ∨ (y = i ∧ dom g x k ∧ ¬ dom g x t)).
  Proof.
    intros Hi Ht. revert k DF. induction fuel as [|fuel IH]; intros k DF Hk Htk Hfuel HDF.
    { pose proof (card_pos k Hk). lia. }
    cbn [df_walk]. rewrite (get_ok _ idom i) by lia. cbn [Base.bind]. rewrite Ht.
    destruct (decide (Some k = Some t)) as [[= ->]|Hne].
    { exists DF. split_and!; [done|done|]. intros x y Hx. split; [by left|]. intros [|(_ & ? & ?)]; done. }
    assert (k ≠ t) as Hkt by congruence.
    assert (t < n) as Htn by (by eapply (dom_lt g Hg)).
    assert (0 < k) as Hk0.
    { destruct k; [|lia]. apply (dom_of_entry g Hg) in Htk. congruence. }
    destruct (idom_exists g Hg D HD k) as (k' & Hk'); [lia|].
    rewrite (get_ok _ DF k) by lia. cbn [Base.bind].
    rewrite (get_ok _ idom k) by lia. cbn [Base.bind].
    rewrite (proj2 (Hidom k k' Hk) Hk').
    pose proof Hk' as [[Hdk' Hnek'] Hclk'].
    assert (k' < n) as Hk'n by apply (dom_lt g Hg k' k Hk Hdk').
    destruct (IH k' (<[k:=ins i (DF !!! k)]> DF)) as (DF' & -> & HL & HDF'); try done.
    { apply Hclk'. split; [done|congruence]. }
    { pose proof (card_dom_lt g Hg D HD k' k Hk (conj Hdk' Hnek')). lia. }
    { by rewrite insert_length. }
    exists DF'. split_and!; [done|done|]. intros x y Hx. rewrite HDF' by done.
    destruct (decide (x = k)) as [->|Hxk].
    - rewrite list_lookup_total_insert, mem_ins, orb_true_iff, bool_decide_eq_true by lia.
      split.
      + intros [[->|?]|(-> & ? & ?)]; [right|by left|right].
        * split_and!; [done|apply (dom_refl g Hg)|]. intros ?. apply Hkt. by apply (dom_antisym g Hg).
        * split_and!; [done|apply (dom_refl g Hg)|done].
      + intros [?|(-> & _ & _)]; left; [by right|by left].
    - rewrite list_lookup_total_insert_ne by done. split.
      + intros [?|(-> & ? & ?)]; [by left|right]. split_and!; [done| |done].
        by eapply (dom_trans g Hg).
      + intros [?|(-> & Hxk' & ?)]; [by left|right]. split_and!; [done| |done].
        apply Hclk'. split; done.
  Qed.

  Lemma df_preds_spec fuel i t ps DF :
    i < n → idom !!! i = Some t → n ≤ fuel → (∀ j, j ∈ ps → edge g j i) → length DF = n →
    ∃ DF', df_preds fuel idom i ps DF = Ok DF' ∧ length DF' = n ∧
      ∀ x y, x < n → (mem y (DF' !!! x) = true ↔
                      mem y (DF !!! x) = true ∨ (y = i ∧ ∃ j, j ∈ ps ∧ dom g x j ∧ ¬ dom g x t)).
  Proof.
    intros Hi Ht Hfuel. revert DF. induction ps as [|j ps IH]; intros DF Hps HDF.
    { exists DF. split_and!; [done|done|]. intros x y _. set_solver. }
    assert (edge g j i) as He by (apply Hps; set_solver).
    assert (j < n) as Hj by (by eapply edge_lt).
    pose proof (proj1 (Hidom i t Hi) Ht) as [[Hti Hne] _].
    destruct (df_walk_spec fuel i t j DF) as (DF1 & H1 & HL1 & HDF1); try done.
    { by eapply (dom_pred g Hg). }
    { etrans; [|done]. apply card_bounded. intros x Hx%HD; [|done]. by eapply (dom_lt g Hg). }
    destruct (IH DF1) as (DF' & H2 & HL2 & HDF'); [intros; apply Hps; set_solver|done|].
    exists DF'. cbn [df_preds]. rewrite H1. cbn [Base.bind]. split_and!; [done|done|].
    intros x y Hx. rewrite HDF', HDF1 by done. split.
    - intros [[?|(-> & ? & ?)]|(-> & j' & ? & ? & ?)]; [by left|right|right].
      + split; [done|]. exists j. set_solver.
      + split; [done|]. exists j'. set_solver.
    - intros [?|(-> & j' & [->|?]%elem_of_cons & ? & ?)]; [by left; left|left; right|right]; eauto.
  Qed.

  (* a node with a single predecessor is strictly dominated by it *)
  Lemma single_pred i q : i < n → preds (g !!! i) = [q] → sdom g q i.
  Proof.
    intros Hi Hp.
    assert (i ≠ 0) as Hi0.
    { intros ->. rewrite (rooted_entry g Hg (g !!! 0)) in Hp by (by apply lookup_total_node). done. }
    assert (∀ l, path g 0 i l → ∃ l', l = l' ++ [i] ∧ q ∈ l') as Hshape.
    { intros l Hl. destruct (path_snoc_inv _ _ _ _ Hl) as [[_ ?]|(l' & b & -> & Hp' & He)]; [done|].
      exists l'. split; [done|]. apply (edge_preds g Hg) in He as [_ Hb]. rewrite Hp in Hb.
      apply elem_of_list_singleton in Hb as ->. destruct (path_end _ _ _ _ Hp') as [? ->]. set_solver. }
    split.
    - intros l Hl. destruct (Hshape l Hl) as (l' & -> & ?). set_solver.
    - intros ->. destruct (rooted_reach g Hg i Hi) as [l Hl].
      assert (i ∈ l) as (l1 & l2 & -> & Hni)%elem_of_list_split_l.
      { destruct (path_end _ _ _ _ Hl) as [? ->]. set_solver. }
      destruct (path_split _ _ _ _ _ _ Hl) as [H1 _].
      destruct (Hshape _ H1) as (l' & [-> _]%app_inj_tail & ?). done.
  Qed.

  Lemma df_loop_spec fuel is DF :
    n ≤ fuel → (∀ i, i ∈ is → i < n) → length DF = n →
    ∃ DF', df_loop fuel g idom is DF = Ok DF' ∧ length DF' = n ∧
      ∀ x y, x < n → (mem y (DF' !!! x) = true ↔
                      mem y (DF !!! x) = true ∨ (y ∈ is ∧ df_spec g x y)).
  Proof.
    intros Hfuel. revert DF. induction is as [|i is IH]; intros DF His HDF.
    { exists DF. split_and!; [done|done|]. intros x y _. set_solver. }
    assert (i < n) as Hi by (apply His; set_solver).
    cbn [df_loop]. rewrite get_ok by done. cbn [Base.bind].
    assert (∀ x, df_spec g x i ↔
                 (∃ q, q ∈ preds (g !!! i) ∧ dom g x q) ∧ ¬ sdom g x i) as Hdf.
    { intros x. unfold df_spec. split.
      - intros [(x0 & q & Hx0 & ? & ?) ?]. split; [|done]. exists q.
        by rewrite (list_lookup_total_correct _ _ _ Hx0).
      - intros [(q & ? & ?) ?]. split; [|done]. exists (g !!! i), q. split_and!; [|done|done].
        by apply lookup_total_node. }
    destruct (1 <? length (preds (g !!! i))) eqn:Hlen.
    - apply Nat.ltb_lt in Hlen.
      assert (0 < i) as Hi0.
      { destruct i; [|lia]. rewrite (rooted_entry g Hg (g !!! 0)) in Hlen by (by apply lookup_total_node).
        simpl in Hlen. lia. }
      destruct (idom_exists g Hg D HD i) as (t & Ht); [lia|].
      pose proof (proj2 (Hidom i t Hi) Ht) as Hit.
      destruct (df_preds_spec fuel i t (preds (g !!! i)) DF) as (DF1 & -> & HL1 & HDF1); try done.
      { intros j Hj. by apply (preds_edge g Hg). }
      cbn [Base.bind].
      destruct (IH DF1) as (DF' & -> & HL' & HDF'); [intros; apply His; set_solver|done|].
      exists DF'. split_and!; [done|done|]. intros x y Hx. rewrite HDF', HDF1 by done.
      assert ((∃ j, j ∈ preds (g !!! i) ∧ dom g x j ∧ ¬ dom g x t) ↔ df_spec g x i) as ->.
      { rewrite Hdf. rewrite (sdom_iff_dom_idom t i x Hi Ht). naive_solver. }
      split.
      + intros [[?|[-> ?]]|[? ?]]; [by left|right|right]; split; set_solver.
      + intros [?|[[->|?]%elem_of_cons ?]]; [by left; left|left; right|right]; done.
    - apply Nat.ltb_ge in Hlen.
      assert (∀ x, ¬ df_spec g x i) as Hno.
      { intros x [(q & Hq & Hxq) Hns]%Hdf.
        destruct (preds (g !!! i)) as [|q' [|??]] eqn:Hp; [set_solver| |simpl in Hlen; lia].
        apply elem_of_list_singleton in Hq as ->.
        pose proof (single_pred i q' Hi Hp) as [Hqi Hne].
        assert (x = i) as ->.
        { destruct (decide (x = i)); [done|]. destruct Hns. split; [|done]. by eapply (dom_trans g Hg). }
        apply Hne. by eapply (dom_antisym g Hg). }
      destruct (IH DF) as (DF' & -> & HL' & HDF'); [intros; apply His; set_solver|done|].
      exists DF'. split_and!; [done|done|]. intros x y Hx. rewrite HDF' by done.
      split; [set_solver|].
      intros [?|[[->|?]%elem_of_cons ?]]; [by left|by destruct (Hno x)|by right].
  Qed.

  Theorem compute_dominance_frontier_correct fuel :
    n ≤ fuel →
    ∃ DF, compute_dominance_frontier fuel g idom = Ok DF ∧ length DF = n ∧
      ∀ x y, x < n → (mem y (DF !!! x) = true ↔ df_spec g x y).
  Proof.
    intros Hfuel. unfold compute_dominance_frontier.
    destruct (df_loop_spec fuel (seq 0 n) (replicate n 0%N) Hfuel) as (DF & -> & HL & HDF).
    { intros i ?%elem_of_seq. lia. }
    { apply replicate_length. }
    exists DF. split_and!; [done|done|]. intros x y Hx.
    rewrite HDF, lookup_total_replicate_2, mem_0, elem_of_seq by done.
    split; [intros [|[]]; done|]. intros Hdf. right. split; [|done].
    destruct Hdf as [(x0 & _ & Hx0%lookup_lt_Some & _) _]. lia.
  Qed.
End frontier.

(* ------------------------------------------------------------------ *)
(* DominatorTree::new                                                  *)
(* ------------------------------------------------------------------ *)
Record tree_ok (g : graph) (t : dom_tree) : Prop := {
  ok_dom_len : length (dt_dominators t) = length g;
  ok_idom_len : length (dt_idom t) = length g;
  ok_ch_len : length (dt_children t) = length g;
  ok_df_len : length (dt_frontier t) = length g;
  ok_dom : ∀ j x, j < length g → (mem x (dt_dominators t !!! j) = true ↔ dom g x j);
  ok_idom : ∀ i j, i < length g → (dt_idom t !!! i = Some j ↔ idom_spec g j i);
  ok_ch : ∀ j i, j < length g → i < length g → (mem i (dt_children t !!! j) = true ↔ idom_spec g j i);
  ok_df : ∀ x y, x < length g → (mem y (dt_frontier t !!! x) = true ↔ df_spec g x y);
}.

Theorem dominator_tree_correct g ord :
  rooted g → order_ok ord → ∃ t, dominator_tree (dom_fuel g) ord g = Ok t ∧ tree_ok g t.
Proof.
  intros Hg Hord. unfold dominator_tree.
  destruct (compute_dominators_correct g Hg) as (D & -> & HDlen & HD). cbn [Base.bind].
  destruct (compute_immediate_dominators_correct g Hg D HDlen HD ord Hord)
    as (idom & ch & -> & Hilen & Hclen & Hidom & Hch). cbn [Base.bind fst snd].
  destruct (compute_dominance_frontier_correct g Hg D HDlen HD idom Hilen Hidom (dom_fuel g))
    as (DF & -> & HFlen & HDF).
  { unfold dom_fuel. pose proof (rooted_nonempty g Hg). nia. }
  cbn [Base.bind]. pose proof (rooted_nonempty g Hg) as Hn.
  rewrite get_ok by lia. cbn [Base.bind].
  destruct (idom !!! 0) as [j|] eqn:E.
  { apply Hidom in E; [|done]. by apply no_idom_entry in E. }
  eexists. split; [done|]. by split.
Qed.

(* the statements of props/C15.v, phrased with partial lookups *)
Section statements.
  Context (g : graph) (ord : nat → list nat → list nat) (t : dom_tree).
  Context (Hg : rooted g) (Hord : order_ok ord).
  Context (Ht : dominator_tree (dom_fuel g) ord g = Ok t).

  Lemma tree_is_ok : tree_ok g t.
  Proof.
    destruct (dominator_tree_correct g ord Hg Hord) as (t' & Ht' & Hok). congruence.
  Qed.

  Lemma dominators_exact j dj i :
    dt_dominators t !! j = Some dj → (mem i dj = true ↔ dom g i j).
  Proof.
    intros Hj. pose proof tree_is_ok as Hok.
    rewrite <- (list_lookup_total_correct _ _ _ Hj). apply (ok_dom _ _ Hok).
    rewrite <- (ok_dom_len _ _ Hok). by eapply lookup_lt_Some.
  Qed.

  Lemma idom_exact i o j :
    dt_idom t !! i = Some o → (o = Some j ↔ idom_spec g j i).
  Proof.
    intros Hi. pose proof tree_is_ok as Hok.
    rewrite <- (list_lookup_total_correct _ _ _ Hi). apply (ok_idom _ _ Hok).
    rewrite <- (ok_idom_len _ _ Hok). by eapply lookup_lt_Some.
  Qed.

  Lemma idom_total i o :
    dt_idom t !! i = Some o → (o = None ↔ i = 0).
  Proof.
    intros Hi. pose proof tree_is_ok as Hok.
    assert (i < length g) as Hlt.
    { rewrite <- (ok_idom_len _ _ Hok). by eapply lookup_lt_Some. }
    pose proof (λ j, idom_exact i o j Hi) as Hex. split.
    - intros ->. destruct (decide (i = 0)) as [|Hne]; [done|exfalso].
      destruct (idom_exists g Hg (dt_dominators t) (ok_dom _ _ Hok) i) as (j & Hj); [lia|].
      by apply Hex in Hj.
    - intros ->. destruct o as [j|]; [exfalso|done].
      eapply no_idom_entry; [done|]. by apply Hex.
  Qed.

  Lemma children_invert_idom j cj i :
    dt_children t !! j = Some cj → i < length g →
    (mem i cj = true ↔ dt_idom t !! i = Some (Some j)).
  Proof.
    intros Hj Hi. pose proof tree_is_ok as Hok.
    assert (j < length g) as Hlt.
    { rewrite <- (ok_ch_len _ _ Hok). by eapply lookup_lt_Some. }
    rewrite <- (list_lookup_total_correct _ _ _ Hj), (ok_ch _ _ Hok), <- (ok_idom _ _ Hok) by done.
    assert (dt_idom t !! i = Some (dt_idom t !!! i)) as ->.
    { apply list_lookup_lookup_total_lt. by rewrite (ok_idom_len _ _ Hok). }
    split; [by intros ->|by intros [= ->]].
  Qed.

  Lemma frontier_exact i fi j :
    dt_frontier t !! i = Some fi → (mem j fi = true ↔ df_spec g i j).
  Proof.
    intros Hi. pose proof tree_is_ok as Hok.
    rewrite <- (list_lookup_total_correct _ _ _ Hi). apply (ok_df _ _ Hok).
    rewrite <- (ok_df_len _ _ Hok). by eapply lookup_lt_Some.
  Qed.
End statements.

Lemma dom_fuel_suffices g :
  rooted g → ∃ D, compute_dominators (dom_fuel g) g = Ok D ∧ length D = length g.
Proof. intros Hg. destruct (compute_dominators_correct g Hg) as (D & ? & ? & _). eauto. Qed.

Lemma idom_spec_unique g a b i :
  rooted g → i < length g → idom_spec g a i → idom_spec g b i → a = b.
Proof. intros Hg. by apply idom_unique. Qed.


Lemma dominator_tree_no_panic g ord :
  rooted g → order_ok ord →
  ∃ t, dominator_tree (dom_fuel g) ord g = Ok t ∧
    length (dt_dominators t) = length g ∧ length (dt_idom t) = length g ∧
    length (dt_children t) = length g ∧ length (dt_frontier t) = length g.
Proof.
  intros Hg Hord. destruct (dominator_tree_correct g ord Hg Hord) as (t & Ht & Hok).
  exists t. split; [exact Ht|]. destruct Hok; auto.
Qed.
