(* RunnerProofs — lemmas about Model.Runner against Spec.RunnerSpec. *)
From Coq Require Import ZArith List Bool String Arith Lia Permutation.
Require Import Model.Base Gen.Category Model.Runner Spec.RunnerSpec.
Import ListNotations.

(* ====================================================================== *)
(* The regenerated MessageCategory tables                                   *)
(* ====================================================================== *)

Lemma cmp_is_rank_order : forall a b, Category.cmp a b = Nat.compare (rank a) (rank b).
Proof. destruct a, b; reflexivity. Qed.
Lemma ge_is_rank_order : forall a b, Category.ge a b = (rank b <=? rank a)%nat.
Proof. destruct a, b; reflexivity. Qed.
Lemma gt_is_rank_order : forall a b, Category.gt a b = (rank b <? rank a)%nat.
Proof. destruct a, b; reflexivity. Qed.
Lemma le_is_rank_order : forall a b, Category.le a b = (rank a <=? rank b)%nat.
Proof. destruct a, b; reflexivity. Qed.
Lemma lt_is_rank_order : forall a b, Category.lt a b = (rank a <? rank b)%nat.
Proof. destruct a, b; reflexivity. Qed.
Lemma eqb_is_rank_eq : forall a b, Category.eqb a b = Nat.eqb (rank a) (rank b).
Proof. destruct a, b; reflexivity. Qed.
Lemma rank_injective : forall a b, rank a = rank b -> a = b.
Proof. destruct a, b; simpl; congruence. Qed.
Lemma to_level_table :
  Category.to_level Info = SNote /\ Category.to_level Warning = SWarning /\ Category.to_level Error = SError.
Proof. repeat split; reflexivity. Qed.
Lemma from_str_table_correct :
  forallb (fun e => option_level_eqb (snd e) (spec_from_str (fst e))) Category.from_str_table = true.
Proof. vm_compute. reflexivity. Qed.
Lemma from_str_table_covers :
  forall s, In s ["info"; "INFO"; "Info"; "warning"; "WARNING"; "Warning"; "error"; "ERROR"; "Error"; "note"; "warn"; ""]%string ->
  In s (map fst Category.from_str_table).
Proof. intros s H. vm_compute in H. vm_compute. tauto. Qed.
Lemma default_level_is_warning : spec_from_str Category.default_level = Some Warning.
Proof. vm_compute. reflexivity. Qed.

Theorem category_total_order :
  (forall a b, Category.cmp a b = Nat.compare (rank a) (rank b)) /\
  (forall a b, Category.ge a b = (rank b <=? rank a)%nat) /\
  (forall a b, Category.gt a b = (rank b <? rank a)%nat) /\
  (forall a b, Category.le a b = (rank a <=? rank b)%nat) /\
  (forall a b, Category.lt a b = (rank a <? rank b)%nat) /\
  (forall a b, Category.eqb a b = Nat.eqb (rank a) (rank b)) /\
  (Category.to_level Info = SNote /\ Category.to_level Warning = SWarning /\ Category.to_level Error = SError) /\
  forallb (fun e => option_level_eqb (snd e) (spec_from_str (fst e))) Category.from_str_table = true /\
  spec_from_str Category.default_level = Some Warning.
Proof.
  repeat split; auto using cmp_is_rank_order, ge_is_rank_order, gt_is_rank_order, le_is_rank_order,
    lt_is_rank_order, eqb_is_rank_eq, from_str_table_correct, default_level_is_warning.
Qed.

(* ====================================================================== *)
(* Keys and the association lists                                           *)
(* ====================================================================== *)

Lemma kind_eqb_eq : forall a b, kind_eqb a b = true <-> a = b.
Proof. destruct a, b; simpl; split; congruence. Qed.

Lemma key_eqb_eq : forall a b : key, key_eqb a b = true <-> a = b.
Proof.
  intros [ka na] [kb nb]. unfold key_eqb. simpl. rewrite andb_true_iff, kind_eqb_eq, Z.eqb_eq.
  split. intros [-> ->]; reflexivity. intros H; inversion H; auto.
Qed.

Lemma key_eqb_refl : forall a, key_eqb a a = true.
Proof. intros. apply key_eqb_eq. reflexivity. Qed.

Lemma key_eqb_neq : forall a b : key, a <> b -> key_eqb a b = false.
Proof. intros a b H. destruct (key_eqb a b) eqn:E; auto. apply key_eqb_eq in E. contradiction. Qed.

Lemma key_eqb_sym : forall a b, key_eqb a b = key_eqb b a.
Proof.
  intros. destruct (key_eqb a b) eqn:E.
  - apply key_eqb_eq in E. subst. symmetry. apply key_eqb_refl.
  - destruct (key_eqb b a) eqn:E2; auto. apply key_eqb_eq in E2. subst. rewrite key_eqb_refl in E. discriminate.
Qed.

Lemma key_eq_dec : forall a b : key, {a = b} + {a <> b}.
Proof. intros. destruct (key_eqb a b) eqn:E. left; apply key_eqb_eq; auto. right; intro; subst; rewrite key_eqb_refl in E; discriminate. Qed.

Lemma kmem_In : forall k l, kmem k l = true <-> In k l.
Proof.
  intros. unfold kmem. rewrite existsb_exists. split.
  - intros [x [Hx E]]. apply key_eqb_eq in E. subst. auto.
  - intros H. exists k. split; auto. apply key_eqb_refl.
Qed.

Lemma kmem_insert : forall x k l, kmem x (kinsert k l) = key_eqb x k || kmem x l.
Proof.
  intros. unfold kinsert. destruct (kmem k l) eqn:E.
  - destruct (key_eqb x k) eqn:E2; auto. apply key_eqb_eq in E2. subst. simpl. auto.
  - reflexivity.
Qed.

Lemma kmem_remove : forall x k l, kmem x (kremove k l) = negb (key_eqb k x) && kmem x l.
Proof.
  intros. induction l as [|a l IH]; simpl.
  - rewrite andb_false_r. reflexivity.
  - destruct (key_eqb k a) eqn:E; simpl.
    + rewrite IH. apply key_eqb_eq in E. subst a.
      rewrite (key_eqb_sym x k). destruct (key_eqb k x); simpl; auto.
    + rewrite IH. destruct (key_eqb x a) eqn:E2; simpl.
      * apply key_eqb_eq in E2. subst a. rewrite E. reflexivity.
      * reflexivity.
Qed.

Lemma rc_mem_get : forall k c, rc_mem k c = true <-> exists rs, rc_get k c = Some rs.
Proof.
  intros. induction c as [|[k' rs'] c IH]; simpl.
  - split. discriminate. intros [rs H]. discriminate.
  - destruct (key_eqb k k') eqn:E; simpl.
    + split; eauto.
    + exact IH.
Qed.

Lemma rc_mem_false_get : forall k c, rc_mem k c = false -> rc_get k c = None.
Proof.
  intros. destruct (rc_get k c) eqn:E; auto.
  assert (rc_mem k c = true) by (apply rc_mem_get; eauto). congruence.
Qed.

Lemma rc_mem_append : forall x k rs c, rc_mem x (rc_append k rs c) = key_eqb x k || rc_mem x c.
Proof.
  intros. induction c as [|[k' rs'] c IH]; simpl.
  - rewrite orb_false_r. reflexivity.
  - destruct (key_eqb k k') eqn:E; simpl.
    + apply key_eqb_eq in E. subst k'. destruct (key_eqb x k); reflexivity.
    + rewrite IH. destruct (key_eqb x k), (key_eqb x k'); reflexivity.
Qed.

Lemma rc_get_append_absent : forall k rs c, rc_mem k c = false -> rc_get k (rc_append k rs c) = Some rs.
Proof.
  intros k rs c. induction c as [|[k' rs'] c IH]; simpl; intros H.
  - rewrite key_eqb_refl. reflexivity.
  - apply orb_false_iff in H. destruct H as [H1 H2]. simpl in H1. rewrite H1. simpl. rewrite H1. auto.
Qed.

Lemma rc_get_append_other : forall x k rs c, x <> k -> rc_get x (rc_append k rs c) = rc_get x c.
Proof.
  intros x k rs c Hne. induction c as [|[k' rs'] c IH]; simpl.
  - rewrite key_eqb_neq; auto.
  - destruct (key_eqb k k') eqn:E; simpl.
    + apply key_eqb_eq in E. subst k'. rewrite key_eqb_neq; auto.
    + rewrite IH. reflexivity.
Qed.

Lemma rc_mem_remove : forall x k c, rc_mem x (rc_remove k c) = negb (key_eqb k x) && rc_mem x c.
Proof.
  intros. induction c as [|[k' rs'] c IH]; simpl.
  - rewrite andb_false_r. reflexivity.
  - destruct (key_eqb k k') eqn:E; simpl.
    + rewrite IH. apply key_eqb_eq in E. subst k'.
      rewrite (key_eqb_sym x k). destruct (key_eqb k x); simpl; auto.
    + rewrite IH. destruct (key_eqb x k') eqn:E2; simpl.
      * apply key_eqb_eq in E2. subst k'. rewrite E. reflexivity.
      * reflexivity.
Qed.

Lemma rc_get_remove_other : forall x k c, x <> k -> rc_get x (rc_remove k c) = rc_get x c.
Proof.
  intros x k c Hne. induction c as [|[k' rs'] c IH]; simpl; auto.
  destruct (key_eqb k k') eqn:E; simpl.
  - apply key_eqb_eq in E. subst k'. rewrite key_eqb_neq; auto.
  - rewrite IH. reflexivity.
Qed.

Lemma find_def_In : forall ds k d, find_def ds k = Some d -> In d ds /\ d_key d = k.
Proof.
  induction ds as [|a ds IH]; simpl; intros k d H. discriminate.
  destruct (key_eqb k (d_key a)) eqn:E.
  - inversion H; subst. apply key_eqb_eq in E. auto.
  - apply IH in H. tauto.
Qed.

Lemma find_def_NoDup : forall ds d, NoDup (map d_key ds) -> In d ds -> find_def ds (d_key d) = Some d.
Proof.
  induction ds as [|a ds IH]; simpl; intros d Hnd Hin. contradiction.
  inversion Hnd; subst. destruct Hin as [-> | Hin].
  - rewrite key_eqb_refl. reflexivity.
  - destruct (key_eqb (d_key d) (d_key a)) eqn:E.
    + apply key_eqb_eq in E. exfalso. apply H1. rewrite <- E. apply in_map. assumption.
    + apply IH; assumption.
Qed.

(* ====================================================================== *)
(* Filters vs. the specification                                            *)
(* ====================================================================== *)

Lemma zmem_In : forall x l, zmem x l = true <-> In x l.
Proof.
  intros. unfold zmem. rewrite existsb_exists. split.
  - intros [y [Hy E]]. apply Z.eqb_eq in E. subst. auto.
  - intros H. exists x. split; auto. apply Z.eqb_refl.
Qed.

Lemma filter_by_file_spec : forall r user,
  filter_by_file r user = true <-> ~ located_only_in_included user r.
Proof.
  intros r user. unfold filter_by_file, located_only_in_included.
  destruct (r_pfiles r) as [|f fs] eqn:E.
  - split; auto. intros _ [H _]. apply H. reflexivity.
  - rewrite existsb_exists. split.
    + intros [x [Hx Hm]] [_ H]. apply zmem_In in Hm. exact (H x Hx Hm).
    + intros H. destruct (existsb (fun f0 => zmem f0 user) (f :: fs)) eqn:Ex.
      * apply existsb_exists in Ex. exact Ex.
      * exfalso. apply H. split. discriminate.
        intros x Hx Hu. assert (existsb (fun f0 => zmem f0 user) (f :: fs) = true).
        { apply existsb_exists. exists x. split; auto. apply zmem_In. auto. }
        congruence.
Qed.

Lemma passes_filters_keep : forall o user r, passes_filters o user r = true <-> keep o user r.
Proof.
  intros. unfold passes_filters, keep, filter_by_level, filter_by_id.
  rewrite !andb_true_iff, ge_is_rank_order, Nat.leb_le, filter_by_file_spec, negb_true_iff.
  split.
  - intros [[H1 H2] H3]. repeat split; auto. intro Hin. apply zmem_In in Hin. congruence.
  - intros [H1 [H2 H3]]. repeat split; auto. destruct (zmem (r_id r) (o_allow o)) eqn:E; auto.
    apply zmem_In in E. contradiction.
Qed.

Lemma keep_b_keep : forall o user r, keep_b o user r = true <-> keep o user r.
Proof.
  intros. unfold keep_b, keep, located_only_in_included.
  rewrite !andb_true_iff, Nat.leb_le, !negb_true_iff. split.
  - intros [[H1 H2] H3]. repeat split; auto.
    + intro Hin. assert (existsb (Z.eqb (r_id r)) (o_allow o) = true).
      { apply existsb_exists. exists (r_id r). split; auto. apply Z.eqb_refl. } congruence.
    + intros [Hne Hall]. apply andb_false_iff in H3. destruct H3 as [H3 | H3].
      * apply negb_false_iff in H3. destruct (r_pfiles r); [contradiction | discriminate].
      * assert (forallb (fun f => negb (existsb (Z.eqb f) user)) (r_pfiles r) = true).
        { apply forallb_forall. intros x Hx. apply negb_true_iff.
          destruct (existsb (Z.eqb x) user) eqn:E; auto. apply existsb_exists in E.
          destruct E as [y [Hy E]]. apply Z.eqb_eq in E. subst. exfalso. exact (Hall y Hx Hy). }
        congruence.
  - intros [H1 [H2 H3]]. repeat split; auto.
    + destruct (existsb (Z.eqb (r_id r)) (o_allow o)) eqn:E; auto.
      apply existsb_exists in E. destruct E as [y [Hy E]]. apply Z.eqb_eq in E. subst. contradiction.
    + apply andb_false_iff. destruct (r_pfiles r) as [|f fs] eqn:Ef. left; reflexivity.
      right. destruct (forallb (fun f0 => negb (existsb (Z.eqb f0) user)) (f :: fs)) eqn:E; auto.
      exfalso. apply H3. split. discriminate. intros x Hx Hu.
      rewrite forallb_forall in E. specialize (E x Hx). apply negb_true_iff in E.
      assert (existsb (Z.eqb x) user = true). { apply existsb_exists. exists x. split; auto. apply Z.eqb_refl. }
      congruence.
Qed.

Lemma user_def_b_is_user : forall user d, user_def_b user d = is_user user d.
Proof. reflexivity. Qed.

Lemma user_keys_spec : forall p, user_keys p = map d_key (user_defs p).
Proof. reflexivity. Qed.

(* ====================================================================== *)
(* The invariant of the caches                                              *)
(* ====================================================================== *)

Definition lifts (ds : list def) (k : key) : Prop := exists d, find_def ds k = Some d /\ d_err d = None.

Definition lift_reports (d : def) : list report := d_lift d ++ match d_err d with Some e => [e] | None => [] end.

(* P: the definitions still to be analysed *)
Record Inv (ds : list def) (P : key -> Prop) (s : rstate) : Prop := {
  inv_cfg : forall k, kmem k (cfgs s) = true -> lifts ds k;
  inv_failed : forall k, rc_mem k (rcache s) = true -> kmem k (cfgs s) = false -> ~ lifts ds k;
  inv_cached : forall k, P k -> rc_mem k (rcache s) = true ->
      exists d, find_def ds k = Some d /\ rc_get k (rcache s) = Some (lift_reports d) /\
                (d_err d = None -> kmem k (cfgs s) = true);
  inv_fresh : forall k, P k -> rc_mem k (rcache s) = false -> kmem k (cfgs s) = false
}.

Lemma Inv_weaken : forall ds (P Q : key -> Prop) s, Inv ds P s -> (forall k, Q k -> P k) -> Inv ds Q s.
Proof. intros ds P Q s [H1 H2 H3 H4] HQ. constructor; eauto. Qed.

Lemma Inv_init : forall ds P, Inv ds P init.
Proof. intros. constructor; simpl; intros; try discriminate; auto. Qed.

(* states that differ only in the writer part *)
Definition same_caches (s s' : rstate) : Prop := cfgs s' = cfgs s /\ rcache s' = rcache s.

Lemma Inv_same_caches : forall ds P s s', same_caches s s' -> Inv ds P s -> Inv ds P s'.
Proof. intros ds P s s' [E1 E2] [H1 H2 H3 H4]. constructor; rewrite ?E1, ?E2; auto. Qed.

Definition same_writer (s s' : rstate) : Prop :=
  shown s' = shown s /\ written s' = written s /\ cached s' = cached s /\ log s' = log s.

Lemma cache_same_writer : forall ds k s, same_writer s (fst (cache ds k s)).
Proof.
  intros. unfold cache, same_writer.
  destruct (kmem k (cfgs s)); simpl; auto.
  destruct (rc_mem k (rcache s)); simpl; auto.
  destruct (find_def ds k) as [d|]; simpl; auto.
  destruct (d_err d); simpl; auto.
Qed.

(* the result of a lookup is a function of the sources *)
Lemma cache_result : forall ds P k s, Inv ds P s -> (snd (cache ds k s) = true <-> lifts ds k).
Proof.
  intros ds P k s [H1 H2 H3 H4]. unfold cache.
  destruct (kmem k (cfgs s)) eqn:E1; simpl.
  - split; auto.
  - destruct (rc_mem k (rcache s)) eqn:E2; simpl.
    + split. discriminate. intros H. exfalso. exact (H2 k E2 E1 H).
    + destruct (find_def ds k) as [d|] eqn:E3; simpl.
      * destruct (d_err d) eqn:E4; simpl.
        -- split. discriminate. intros [d' [Hd He]]. rewrite E3 in Hd. inversion Hd; subst. congruence.
        -- split; auto. intros _. exists d. auto.
      * split. discriminate. intros [d' [Hd _]]. congruence.
Qed.

Lemma cache_preserves : forall ds P k s, Inv ds P s -> Inv ds P (fst (cache ds k s)).
Proof.
  intros ds P k s HI. pose proof HI as [H1 H2 H3 H4]. unfold cache.
  destruct (kmem k (cfgs s)) eqn:E1; simpl; auto.
  destruct (rc_mem k (rcache s)) eqn:E2; simpl; auto.
  destruct (find_def ds k) as [d|] eqn:E3; simpl; auto.
  destruct (d_err d) as [e|] eqn:E4; simpl.
  - (* failed lift: the error is cached *)
    constructor; simpl.
    + auto.
    + intros x Hm Hc. rewrite rc_mem_append in Hm. destruct (key_eqb x k) eqn:Ex.
      * apply key_eqb_eq in Ex. subst x. intros [d' [Hd He]]. rewrite E3 in Hd. inversion Hd; subst. congruence.
      * simpl in Hm. auto.
    + intros x Px Hm. rewrite rc_mem_append in Hm. destruct (key_eqb x k) eqn:Ex.
      * apply key_eqb_eq in Ex. subst x. exists d. split; auto. split.
        -- rewrite rc_get_append_absent; auto. unfold lift_reports. rewrite E4. reflexivity.
        -- congruence.
      * simpl in Hm. destruct (H3 x Px Hm) as [d' [Hd [Hg Hc]]]. exists d'. split; auto. split; auto.
        rewrite rc_get_append_other; auto. intro; subst. rewrite key_eqb_refl in Ex. discriminate.
    + intros x Px Hm. rewrite rc_mem_append in Hm. apply orb_false_iff in Hm. destruct Hm. auto.
  - (* successful lift *)
    constructor; simpl.
    + intros x Hm. rewrite kmem_insert in Hm. destruct (key_eqb x k) eqn:Ex.
      * apply key_eqb_eq in Ex. subst x. exists d. auto.
      * simpl in Hm. auto.
    + intros x Hm Hc. rewrite kmem_insert in Hc. apply orb_false_iff in Hc. destruct Hc as [Hc1 Hc2].
      rewrite rc_mem_append, Hc1 in Hm. simpl in Hm. auto.
    + intros x Px Hm. rewrite rc_mem_append in Hm. destruct (key_eqb x k) eqn:Ex.
      * apply key_eqb_eq in Ex. subst x. exists d. split; auto. split.
        -- rewrite rc_get_append_absent; auto. unfold lift_reports. rewrite E4. rewrite app_nil_r. reflexivity.
        -- intros _. rewrite kmem_insert, key_eqb_refl. reflexivity.
      * simpl in Hm. destruct (H3 x Px Hm) as [d' [Hd [Hg Hc]]]. exists d'. split; auto. split.
        -- rewrite rc_get_append_other; auto. intro; subst. rewrite key_eqb_refl in Ex. discriminate.
        -- intros He. rewrite kmem_insert, Ex. simpl. auto.
    + intros x Px Hm. rewrite rc_mem_append in Hm. apply orb_false_iff in Hm. destruct Hm as [Hm1 Hm2].
      rewrite kmem_insert, Hm1. simpl. auto.
Qed.

Lemma lookups_preserve : forall ds P ns s, Inv ds P s -> Inv ds P (fold_left (lookup ds) ns s).
Proof.
  intros ds P ns. induction ns as [|n ns IH]; simpl; intros s HI; auto.
  apply IH. unfold lookup. apply cache_preserves. assumption.
Qed.

Lemma lookups_same_writer : forall ds ns s, same_writer s (fold_left (lookup ds) ns s).
Proof.
  intros ds ns. induction ns as [|n ns IH]; simpl; intros s.
  - unfold same_writer; auto.
  - destruct (IH (lookup ds s n)) as [A [B [C D]]].
    destruct (cache_same_writer ds (KTemplate, n) s) as [A' [B' [C' D']]].
    unfold lookup in *. unfold same_writer. rewrite A, B, C, D. auto.
Qed.

(* every lookup made while the passes run returns Ok exactly when the
   template lifts *)
Lemma lookups_results : forall ds P ns s, Inv ds P s ->
  forall pre n post, ns = pre ++ n :: post ->
  (snd (cache ds (KTemplate, n) (fold_left (lookup ds) pre s)) = true <-> lifts ds (KTemplate, n)).
Proof.
  intros ds P ns s HI pre n post _. eapply cache_result. apply lookups_preserve. eassumption.
Qed.

(* ====================================================================== *)
(* One definition is analysed                                               *)
(* ====================================================================== *)

Ltac split4 := split; [auto | split; [auto | split; [auto | split; [auto | ]]]].

Lemma produced_def_alt : forall d, produced_def d = lift_reports d ++ match d_err d with Some _ => [] | None => d_pass d end.
Proof.
  intros. unfold produced_def, lift_reports. destruct (d_err d); simpl.
  - rewrite app_nil_r. reflexivity.
  - rewrite app_nil_r. reflexivity.
Qed.

Lemma analyze_spec : forall ds o user (P : key -> Prop) s k d,
  Inv ds P s -> P k -> find_def ds k = Some d ->
  let s' := analyze ds o user s k in
  let out := filter (passes_filters o user) (produced_def d) in
  shown s' = shown s ++ out /\
  written s' = (written s + length out)%nat /\
  cached s' = cached s ++ produced_def d /\
  log s' = log s ++ [MAnalyzing k] /\
  Inv ds (fun x => P x /\ x <> k) s'.
Proof.
  intros ds o user P s k d HI Pk Hd.
  assert (HI0 : Inv ds P (write_message (MAnalyzing k) s)).
  { eapply Inv_same_caches; [|exact HI]. split; reflexivity. }
  unfold analyze. set (s0 := write_message (MAnalyzing k) s) in *.
  assert (Hs0 : shown s0 = shown s /\ written s0 = written s /\ cached s0 = cached s /\ log s0 = log s ++ [MAnalyzing k])
    by (repeat split; reflexivity).
  destruct Hs0 as [Sh0 [Wr0 [Ca0 Lo0]]].
  pose proof HI0 as [H1 H2 H3 H4].
  unfold take, cache.
  destruct (kmem k (cfgs s0)) eqn:E1.
  - (* the CFG is in the cache: generated by an earlier lookup *)
    assert (Hrm : rc_mem k (rcache s0) = true).
    { destruct (rc_mem k (rcache s0)) eqn:E; auto. rewrite (H4 k Pk E) in E1. discriminate. }
    destruct (H3 k Pk Hrm) as [d' [Hd' [Hg Hc]]]. rewrite Hd in Hd'. inversion Hd'; subst d'.
    destruct (H1 k E1) as [d'' [Hd'' He]]. rewrite Hd in Hd''. inversion Hd''; subst d''.
    cbn [fst snd]. unfold take_reports. cbn [cfgs rcache shown written cached log]. rewrite Hg, Hd.
    set (s2 := mkState (kremove k (cfgs s0)) (rc_remove k (rcache s0)) (shown s0) (written s0) (cached s0) (log s0)).
    assert (HI2 : Inv ds (fun x => P x /\ x <> k) s2).
    { constructor; unfold s2; simpl.
      - intros x Hm. rewrite kmem_remove in Hm. apply andb_true_iff in Hm. destruct Hm. auto.
      - intros x Hm Hc'. rewrite rc_mem_remove in Hm. apply andb_true_iff in Hm. destruct Hm as [Hn Hm].
        rewrite kmem_remove, Hn in Hc'. simpl in Hc'. auto.
      - intros x [Px Hne] Hm. rewrite rc_mem_remove in Hm. apply andb_true_iff in Hm. destruct Hm as [Hn Hm].
        destruct (H3 x Px Hm) as [dx [Hdx [Hgx Hcx]]]. exists dx. split; auto. split.
        + rewrite rc_get_remove_other; auto.
        + intros Hex. rewrite kmem_remove, Hn. simpl. auto.
      - intros x [Px Hne] Hm. rewrite rc_mem_remove in Hm. rewrite kmem_remove.
        destruct (key_eqb k x) eqn:Ex. apply key_eqb_eq in Ex. congruence. simpl in *. auto. }
    pose proof (lookups_preserve ds _ (d_lookups d) s2 HI2) as HI3.
    destruct (lookups_same_writer ds (d_lookups d) s2) as [A [B [C D]]].
    set (s3 := fold_left (lookup ds) (d_lookups d) s2) in *.
    unfold write_reports, replace. cbn [cfgs rcache shown written cached log].
    rewrite A, B, C, D. unfold s2. cbn [shown written cached log].
    rewrite Sh0, Wr0, Ca0, Lo0.
    assert (Hpd : lift_reports d ++ d_pass d = produced_def d).
    { rewrite produced_def_alt, He. reflexivity. }
    rewrite Hpd. split4.
    destruct HI3 as [J1 J2 J3 J4]. constructor; cbn [cfgs rcache].
    + intros x Hm. rewrite kmem_insert in Hm. destruct (key_eqb x k) eqn:Ex.
      * apply key_eqb_eq in Ex. subst. exists d. auto.
      * simpl in Hm. auto.
    + intros x Hm Hc'. rewrite kmem_insert in Hc'. apply orb_false_iff in Hc'. destruct Hc'. auto.
    + intros x [Px Hne] Hm. destruct (J3 x (conj Px Hne) Hm) as [dx [Hdx [Hgx Hcx]]]. exists dx. split; auto. split; auto.
      intros Hex. rewrite kmem_insert. rewrite (Hcx Hex). apply orb_true_r.
    + intros x [Px Hne] Hm. rewrite kmem_insert, (key_eqb_neq x k Hne). simpl. apply J4; auto.
  - destruct (rc_mem k (rcache s0)) eqn:E2.
    + (* an earlier lookup failed to lift it: the cached reports contain the error *)
      destruct (H3 k Pk E2) as [d' [Hd' [Hg Hc]]]. rewrite Hd in Hd'. inversion Hd'; subst d'.
      assert (He : d_err d <> None). { intro He. rewrite (Hc He) in E1. discriminate. }
      cbn [fst snd]. unfold take_reports. rewrite Hg.
      unfold write_reports. cbn [cfgs rcache shown written cached log].
      rewrite Sh0, Wr0, Ca0, Lo0.
      assert (Hpd : lift_reports d = produced_def d).
      { rewrite produced_def_alt. destruct (d_err d); [rewrite app_nil_r; reflexivity | congruence]. }
      rewrite Hpd. split4.
      constructor; cbn [cfgs rcache].
      * auto.
      * intros x Hm Hc'. rewrite rc_mem_remove in Hm. apply andb_true_iff in Hm. destruct Hm. auto.
      * intros x [Px Hne] Hm. rewrite rc_mem_remove in Hm. apply andb_true_iff in Hm. destruct Hm as [Hn Hm].
        destruct (H3 x Px Hm) as [dx [Hdx [Hgx Hcx]]]. exists dx. split; auto. split; auto.
        rewrite rc_get_remove_other; auto.
      * intros x [Px Hne] Hm. rewrite rc_mem_remove in Hm.
        destruct (key_eqb k x) eqn:Ex. apply key_eqb_eq in Ex. congruence. simpl in Hm. auto.
    + (* not seen before: the CFG is generated now *)
      rewrite Hd. destruct (d_err d) as [e|] eqn:E4.
      * cbn [fst snd]. unfold take_reports. cbn [cfgs rcache shown written cached log].
        rewrite rc_get_append_absent by assumption.
        unfold write_reports. cbn [cfgs rcache shown written cached log].
        rewrite Sh0, Wr0, Ca0, Lo0.
        assert (Hpd : d_lift d ++ [e] = produced_def d). { unfold produced_def. rewrite E4. reflexivity. }
        rewrite Hpd. split4.
        constructor; cbn [cfgs rcache].
        -- auto.
        -- intros x Hm Hc'. rewrite rc_mem_remove in Hm. apply andb_true_iff in Hm. destruct Hm as [Hn Hm].
           rewrite rc_mem_append in Hm. apply negb_true_iff in Hn. rewrite (key_eqb_sym k x) in Hn. rewrite Hn in Hm. simpl in Hm. auto.
        -- intros x [Px Hne] Hm. rewrite rc_mem_remove in Hm. apply andb_true_iff in Hm. destruct Hm as [Hn Hm].
           rewrite rc_mem_append, (key_eqb_neq x k Hne) in Hm. simpl in Hm.
           destruct (H3 x Px Hm) as [dx [Hdx [Hgx Hcx]]]. exists dx. split; auto. split; auto.
           rewrite rc_get_remove_other, rc_get_append_other; auto.
        -- intros x [Px Hne] Hm. rewrite rc_mem_remove, rc_mem_append, (key_eqb_neq x k Hne) in Hm.
           destruct (key_eqb k x) eqn:Ex. apply key_eqb_eq in Ex. congruence. simpl in Hm. auto.
      * cbn [fst snd]. unfold take_reports. cbn [cfgs rcache shown written cached log].
        rewrite rc_get_append_absent by assumption.
        set (s2 := mkState (kremove k (kinsert k (cfgs s0))) (rc_remove k (rc_append k (d_lift d) (rcache s0)))
                           (shown s0) (written s0) (cached s0) (log s0)).
        assert (HI2 : Inv ds (fun x => P x /\ x <> k) s2).
        { constructor; unfold s2; cbn [cfgs rcache].
          - intros x Hm. rewrite kmem_remove, kmem_insert in Hm. apply andb_true_iff in Hm. destruct Hm as [Hn Hm].
            apply negb_true_iff in Hn. rewrite (key_eqb_sym k x) in Hn. rewrite Hn in Hm. simpl in Hm. auto.
          - intros x Hm Hc'. rewrite rc_mem_remove, rc_mem_append in Hm. apply andb_true_iff in Hm. destruct Hm as [Hn Hm].
            rewrite kmem_remove, kmem_insert, Hn in Hc'. simpl in Hc'.
            apply negb_true_iff in Hn. rewrite (key_eqb_sym k x) in Hn. rewrite Hn in Hm, Hc'. simpl in Hm, Hc'. auto.
          - intros x [Px Hne] Hm. rewrite rc_mem_remove, rc_mem_append, (key_eqb_neq x k Hne) in Hm.
            apply andb_true_iff in Hm. destruct Hm as [Hn Hm]. simpl in Hm.
            destruct (H3 x Px Hm) as [dx [Hdx [Hgx Hcx]]]. exists dx. split; auto. split.
            + rewrite rc_get_remove_other, rc_get_append_other; auto.
            + intros Hex. rewrite kmem_remove, kmem_insert, Hn, (key_eqb_neq x k Hne). simpl. auto.
          - intros x [Px Hne] Hm. rewrite rc_mem_remove, rc_mem_append, (key_eqb_neq x k Hne) in Hm.
            rewrite kmem_remove, kmem_insert, (key_eqb_neq x k Hne).
            destruct (key_eqb k x) eqn:Ex. apply key_eqb_eq in Ex. congruence. simpl in *. auto. }
        pose proof (lookups_preserve ds _ (d_lookups d) s2 HI2) as HI3.
        destruct (lookups_same_writer ds (d_lookups d) s2) as [A [B [C D]]].
        set (s3 := fold_left (lookup ds) (d_lookups d) s2) in *.
        unfold write_reports, replace. cbn [cfgs rcache shown written cached log].
        rewrite A, B, C, D. unfold s2. cbn [shown written cached log].
        rewrite Sh0, Wr0, Ca0, Lo0.
        assert (Hpd : d_lift d ++ d_pass d = produced_def d). { unfold produced_def. rewrite E4. reflexivity. }
        rewrite Hpd. split4.
        destruct HI3 as [J1 J2 J3 J4]. constructor; cbn [cfgs rcache].
        -- intros x Hm. rewrite kmem_insert in Hm. destruct (key_eqb x k) eqn:Ex.
           ++ apply key_eqb_eq in Ex. subst. exists d. auto.
           ++ simpl in Hm. auto.
        -- intros x Hm Hc'. rewrite kmem_insert in Hc'. apply orb_false_iff in Hc'. destruct Hc'. auto.
        -- intros x [Px Hne] Hm. destruct (J3 x (conj Px Hne) Hm) as [dx [Hdx [Hgx Hcx]]]. exists dx. split; auto. split; auto.
           intros Hex. rewrite kmem_insert. rewrite (Hcx Hex). apply orb_true_r.
        -- intros x [Px Hne] Hm. rewrite kmem_insert, (key_eqb_neq x k Hne). simpl. apply J4; auto.
Qed.

(* ====================================================================== *)
(* The whole run                                                            *)
(* ====================================================================== *)

Definition produced_of_key (ds : list def) (k : key) : list report :=
  match find_def ds k with Some d => produced_def d | None => [] end.

Lemma fold_analyze_spec : forall ds o user order s,
  NoDup order -> (forall k, In k order -> exists d, find_def ds k = Some d) ->
  Inv ds (fun x => In x order) s ->
  let s' := fold_left (analyze ds o user) order s in
  let all := flat_map (produced_of_key ds) order in
  shown s' = shown s ++ filter (passes_filters o user) all /\
  written s' = (written s + length (filter (passes_filters o user) all))%nat /\
  cached s' = cached s ++ all /\
  log s' = log s ++ map MAnalyzing order.
Proof.
  intros ds o user order. induction order as [|k rest IH]; intros s Hnd Hdef HI; simpl.
  - rewrite !app_nil_r. rewrite Nat.add_0_r. auto.
  - inversion Hnd as [|? ? Hnotin Hnd']; subst.
    destruct (Hdef k (or_introl eq_refl)) as [d Hd].
    destruct (analyze_spec ds o user _ s k d HI (or_introl eq_refl) Hd) as [A [B [C [D HI1]]]].
    assert (HI1' : Inv ds (fun x => In x rest) (analyze ds o user s k)).
    { eapply Inv_weaken. exact HI1. intros x Hx. split. right; auto. intro; subst. contradiction. }
    destruct (IH (analyze ds o user s k) Hnd' (fun x Hx => Hdef x (or_intror Hx)) HI1') as [A' [B' [C' D']]].
    unfold produced_of_key at 1 3 5. rewrite Hd.
    rewrite A', B', C', D', A, B, C, D. rewrite filter_app, app_length, <- !app_assoc. simpl.
    repeat split; auto. lia.
Qed.

Definition all_reports (p : project) (order : list key) : list report :=
  p_parse p ++ flat_map (produced_of_key (p_defs p)) order.

Definition ok_order (p : project) (order : list key) : Prop :=
  NoDup order /\ forall k, In k order -> exists d, find_def (p_defs p) k = Some d.

Lemma run_keys_spec : forall p o order, ok_order p order ->
  let out := filter (passes_filters o (p_user p)) (all_reports p order) in
  let r := run_keys p o order in
  res_shown r = out /\
  res_summary r = length out /\
  res_exit r = (match length out with O => 0 | _ => 1 end)%Z /\
  res_sarif r = (if o_sarif o then Some (out, rules_of out) else None) /\
  res_log r = map MAnalyzing order
              ++ (if o_sarif o && (0 <? length out)%nat then [MSarifWritten] else [])
              ++ [MSummary (length out)].
Proof.
  intros p o order [Hnd Hdef]. unfold run_keys, all_reports.
  set (ds := p_defs p). set (user := p_user p). set (pf := passes_filters o user).
  set (s0 := write_reports o user (p_parse p) init).
  assert (HI0 : Inv ds (fun x => In x order) s0).
  { eapply Inv_same_caches; [|apply Inv_init]. split; reflexivity. }
  destruct (fold_analyze_spec ds o user order s0 Hnd Hdef HI0) as [A [B [C D]]].
  set (s1 := fold_left (analyze ds o user) order s0) in *.
  assert (Sh : shown s1 = filter pf (p_parse p ++ flat_map (produced_of_key ds) order)).
  { rewrite A. unfold s0, write_reports. simpl. rewrite filter_app. reflexivity. }
  assert (Wr : written s1 = length (filter pf (p_parse p ++ flat_map (produced_of_key ds) order))).
  { rewrite B. unfold s0, write_reports. simpl. rewrite filter_app, app_length. reflexivity. }
  assert (Ca : cached s1 = p_parse p ++ flat_map (produced_of_key ds) order).
  { rewrite C. unfold s0, write_reports. simpl. reflexivity. }
  assert (Lo : log s1 = map MAnalyzing order).
  { rewrite D. unfold s0, write_reports. simpl. reflexivity. }
  destruct (o_sarif o) eqn:Es; simpl.
  - rewrite Ca. fold pf.
    destruct (0 <? length (filter pf (p_parse p ++ flat_map (produced_of_key ds) order)))%nat eqn:El; simpl;
      rewrite ?Sh, ?Wr, ?Lo; repeat split; auto; rewrite <- app_assoc; reflexivity.
  - rewrite ?Sh, ?Wr, ?Lo. repeat split; auto.
Qed.

(* ---- from an enumeration of the user keys to the specification ---------- *)

Lemma NoDup_map_filter : forall (A B : Type) (f : A -> B) g l, NoDup (map f l) -> NoDup (map f (filter g l)).
Proof.
  intros A B f g l. induction l as [|a l IH]; simpl; intros H; auto.
  inversion H; subst. destruct (g a); simpl; auto.
  constructor; auto. intro Hin. apply H2. apply in_map_iff in Hin. destruct Hin as [x [Hx Hin]].
  apply filter_In in Hin. destruct Hin. apply in_map_iff. eauto.
Qed.

Lemma analysis_order_ok : forall p order, wf_project p -> analysis_order p order -> ok_order p order.
Proof.
  intros p order Hwf Hperm. unfold ok_order. split.
  - eapply Permutation_NoDup. apply Permutation_sym. exact Hperm.
    apply NoDup_map_filter. exact Hwf.
  - intros k Hk. eapply Permutation_in in Hk; [|exact Hperm].
    apply in_map_iff in Hk. destruct Hk as [d [Hd Hin]]. apply filter_In in Hin. destruct Hin as [Hin _].
    exists d. subst k. apply find_def_NoDup; assumption.
Qed.

Lemma Permutation_filter' : forall (A : Type) (f : A -> bool) l l', Permutation l l' -> Permutation (filter f l) (filter f l').
Proof.
  intros A f l l' H. induction H; simpl.
  - constructor.
  - destruct (f x); auto.
  - destruct (f x), (f y); auto. apply perm_swap.
  - eapply Permutation_trans; eauto.
Qed.

Lemma flat_map_keys : forall ds uds, (forall d, In d uds -> find_def ds (d_key d) = Some d) ->
  flat_map (produced_of_key ds) (map d_key uds) = flat_map produced_def uds.
Proof.
  intros ds uds. induction uds as [|d uds IH]; simpl; intros H; auto.
  unfold produced_of_key at 1. rewrite (H d (or_introl eq_refl)). rewrite IH; auto.
Qed.

Lemma all_reports_produced : forall p order, wf_project p -> analysis_order p order ->
  Permutation (all_reports p order) (produced p).
Proof.
  intros p order Hwf Hperm. unfold all_reports, produced. apply Permutation_app_head.
  eapply Permutation_trans. apply Permutation_flat_map. exact Hperm.
  rewrite flat_map_keys. apply Permutation_refl.
  intros d Hd. apply filter_In in Hd. destruct Hd. apply find_def_NoDup; assumption.
Qed.

Lemma pf_keep_b : forall o user r, passes_filters o user r = keep_b o user r.
Proof.
  intros. destruct (passes_filters o user r) eqn:E1, (keep_b o user r) eqn:E2; auto.
  - apply passes_filters_keep, keep_b_keep in E1. congruence.
  - apply keep_b_keep, passes_filters_keep in E2. congruence.
Qed.

Lemma filter_pf_keep_b : forall o user l, filter (passes_filters o user) l = filter (keep_b o user) l.
Proof. intros. apply filter_ext. intros. apply pf_keep_b. Qed.

(* ====================================================================== *)
(* C03                                                                      *)
(* ====================================================================== *)

Theorem conservation : forall p o order, wf_project p -> analysis_order p order ->
  Permutation (res_shown (run_keys p o order)) (filter (keep_b o (p_user p)) (produced p)).
Proof.
  intros p o order Hwf Hord.
  destruct (run_keys_spec p o order (analysis_order_ok p order Hwf Hord)) as [A _]. rewrite A.
  rewrite filter_pf_keep_b. apply Permutation_filter'. apply all_reports_produced; assumption.
Qed.

Theorem displayed_iff_kept : forall p o order r, wf_project p -> analysis_order p order ->
  (In r (res_shown (run_keys p o order)) <-> In r (produced p) /\ keep o (p_user p) r).
Proof.
  intros p o order r Hwf Hord. pose proof (conservation p o order Hwf Hord) as H. split.
  - intros Hin. eapply Permutation_in in Hin; [|exact H]. apply filter_In in Hin.
    destruct Hin as [Hin Hk]. split; auto. apply keep_b_keep. assumption.
  - intros [Hin Hk]. eapply Permutation_in. apply Permutation_sym. exact H.
    apply filter_In. split; auto. apply keep_b_keep. assumption.
Qed.

Theorem exit_zero_iff_nothing_displayed : forall p o order, wf_project p -> analysis_order p order ->
  (res_exit (run_keys p o order) = 0%Z <-> res_shown (run_keys p o order) = []) /\
  (res_exit (run_keys p o order) = 0%Z \/ res_exit (run_keys p o order) = 1%Z).
Proof.
  intros p o order Hwf Hord.
  destruct (run_keys_spec p o order (analysis_order_ok p order Hwf Hord)) as [A [_ [C _]]].
  rewrite A, C. destruct (filter _ _) as [|x l]; simpl; split; try tauto; split; intros; try discriminate; auto.
Qed.

Theorem summary_counts_displayed : forall p o order, wf_project p -> analysis_order p order ->
  res_summary (run_keys p o order) = length (res_shown (run_keys p o order)) /\
  exists pre, res_log (run_keys p o order) = pre ++ [MSummary (length (res_shown (run_keys p o order)))].
Proof.
  intros p o order Hwf Hord.
  destruct (run_keys_spec p o order (analysis_order_ok p order Hwf Hord)) as [A [B [_ [_ E]]]].
  rewrite A, B, E. split; auto. eexists. rewrite app_assoc. reflexivity.
Qed.

Lemma rules_of_spec : forall rs, NoDup (rules_of rs) /\ forall x, In x (rules_of rs) <-> exists r, In r rs /\ x = (r_name r, r_id r).
Proof.
  induction rs as [|r rs [IH1 IH2]]; simpl.
  - split. constructor. intros x. split. contradiction. intros [r [[] _]].
  - destruct (existsb (rule_eqb (r_name r, r_id r)) (rules_of rs)) eqn:E.
    + split; auto. intros x. rewrite IH2. split.
      * intros [r' [Hr' Hx]]. eauto.
      * intros [r' [[<- | Hr'] Hx]]; eauto.
        apply existsb_exists in E. destruct E as [y [Hy Ey]]. unfold rule_eqb in Ey.
        apply andb_true_iff in Ey. destruct Ey as [E1 E2]. apply Z.eqb_eq in E1, E2. simpl in E1, E2.
        apply IH2 in Hy. destruct Hy as [r'' [Hr'' Hy]]. exists r''. split; auto. subst x y. simpl in *. congruence.
    + split.
      * constructor; auto. intro Hin. assert (existsb (rule_eqb (r_name r, r_id r)) (rules_of rs) = true).
        { apply existsb_exists. exists (r_name r, r_id r). split; auto. unfold rule_eqb. simpl. rewrite !Z.eqb_refl. reflexivity. }
        congruence.
      * intros x. simpl. rewrite IH2. split.
        -- intros [<- | [r' [Hr' Hx]]]; eauto.
        -- intros [r' [[<- | Hr'] Hx]]; eauto.
Qed.

Theorem sarif_equals_displayed : forall p o order, wf_project p -> analysis_order p order ->
  match res_sarif (run_keys p o order) with
  | None => o_sarif o = false
  | Some (results, rules) =>
      o_sarif o = true /\
      results = res_shown (run_keys p o order) /\
      NoDup rules /\
      (forall x, In x rules <-> exists r, In r results /\ x = (r_name r, r_id r)) /\
      (In MSarifWritten (res_log (run_keys p o order)) <-> results <> [])
  end.
Proof.
  intros p o order Hwf Hord.
  destruct (run_keys_spec p o order (analysis_order_ok p order Hwf Hord)) as [A [_ [_ [D E]]]].
  rewrite D, A, E. destruct (o_sarif o); auto.
  split; auto. split; auto. destruct (rules_of_spec (filter (passes_filters o (p_user p)) (all_reports p order))) as [R1 R2].
  split; auto. split; auto. simpl.
  destruct (filter (passes_filters o (p_user p)) (all_reports p order)) as [|x l]; simpl.
  - split. 2: congruence. intros Hin. apply in_app_or in Hin. destruct Hin as [Hin | [Hin | []]]; [|discriminate].
    apply in_map_iff in Hin. destruct Hin as [k [Hk _]]. discriminate.
  - split. discriminate. intros _. apply in_or_app. right. left. reflexivity.
Qed.

Lemma filter_filter_implies : forall (A : Type) (f g : A -> bool) l,
  (forall x, f x = true -> g x = true) -> filter f (filter g l) = filter f l.
Proof.
  intros A f g l H. induction l as [|a l IH]; simpl; auto.
  destruct (g a) eqn:Eg; simpl.
  - destruct (f a); rewrite IH; reflexivity.
  - destruct (f a) eqn:Ef. rewrite (H a Ef) in Eg. discriminate. assumption.
Qed.

(* the displayed list under any options is the displayed list under the most
   permissive options, filtered (as lists, not only as multisets) *)
Theorem filter_law : forall p o order, wf_project p -> analysis_order p order ->
  res_shown (run_keys p o order) =
  filter (keep_b o (p_user p)) (res_shown (run_keys p (bottom o) order)) /\
  Permutation (res_shown (run_keys p (bottom o) order)) (filter (fun r => negb (match r_pfiles r with [] => false | _ => true end && forallb (fun f => negb (existsb (Z.eqb f) (p_user p))) (r_pfiles r))) (produced p)).
Proof.
  intros p o order Hwf Hord. pose proof (analysis_order_ok p order Hwf Hord) as Hok.
  destruct (run_keys_spec p o order Hok) as [A _].
  destruct (run_keys_spec p (bottom o) order Hok) as [A' _].
  split.
  - rewrite A, A'. rewrite <- filter_pf_keep_b. symmetry. apply filter_filter_implies.
    intros x Hx. unfold passes_filters in *. simpl. apply andb_true_iff in Hx. destruct Hx as [Hx _].
    apply andb_true_iff in Hx. destruct Hx as [_ Hx]. rewrite Hx. unfold filter_by_level.
    destruct (r_level x); reflexivity.
  - rewrite A'. eapply Permutation_trans. apply Permutation_filter'. apply all_reports_produced; assumption.
    erewrite filter_ext. apply Permutation_refl.
    intros r. rewrite pf_keep_b. unfold keep_b, bottom. simpl. destruct (r_pfiles r); reflexivity.
Qed.

(* monotonicity over the lattice of levels and allow-sets *)
Theorem filter_monotone : forall p o1 o2 order r, wf_project p -> analysis_order p order ->
  (rank (o_level o1) <= rank (o_level o2))%nat -> incl (o_allow o1) (o_allow o2) ->
  In r (res_shown (run_keys p o2 order)) -> In r (res_shown (run_keys p o1 order)).
Proof.
  intros p o1 o2 order r Hwf Hord Hl Ha Hin.
  apply displayed_iff_kept in Hin; auto. apply displayed_iff_kept; auto.
  destruct Hin as [Hp [K1 [K2 K3]]]. split; auto. split. lia. split; auto.
Qed.

Theorem verbose_invariant : forall p o order,
  let o' := mkOpts (o_level o) (o_allow o) (negb (o_verbose o)) (o_sarif o) in
  res_shown (run_keys p o' order) = res_shown (run_keys p o order) /\
  res_exit (run_keys p o' order) = res_exit (run_keys p o order) /\
  res_summary (run_keys p o' order) = res_summary (run_keys p o order) /\
  res_sarif (run_keys p o' order) = res_sarif (run_keys p o order) /\
  res_log (run_keys p o' order) = res_log (run_keys p o order).
Proof.
  intros p o order o'.
  assert (Hw : forall rs s, write_reports o' (p_user p) rs s = write_reports o (p_user p) rs s) by reflexivity.
  assert (Ha : forall s k, analyze (p_defs p) o' (p_user p) s k = analyze (p_defs p) o (p_user p) s k) by reflexivity.
  assert (Hf : forall l s, fold_left (analyze (p_defs p) o' (p_user p)) l s = fold_left (analyze (p_defs p) o (p_user p)) l s).
  { induction l; simpl; intros; auto. }
  unfold run_keys. rewrite Hf. repeat split; reflexivity.
Qed.

(* ====================================================================== *)
(* C02                                                                      *)
(* ====================================================================== *)

Lemma error_passes_level : forall r lv, r_level r = Error -> (rank lv <= rank (r_level r))%nat.
Proof. intros r lv H. rewrite H. destruct lv; simpl; lia. Qed.

(* The C02 theorems about this model (an error-level report that is produced
   and not located solely in included files is displayed; exit 0 only if ...)
   are in Proofs.NoSilentProofs, where the presence of the report is derived
   from Model.Includes through Model.Front. *)

(* ====================================================================== *)
(* C17                                                                      *)
(* ====================================================================== *)

Theorem runner_order_independent : forall p o order1 order2,
  wf_project p -> analysis_order p order1 -> analysis_order p order2 ->
  Permutation (res_shown (run_keys p o order1)) (res_shown (run_keys p o order2)) /\
  res_exit (run_keys p o order1) = res_exit (run_keys p o order2) /\
  res_summary (run_keys p o order1) = res_summary (run_keys p o order2) /\
  match res_sarif (run_keys p o order1), res_sarif (run_keys p o order2) with
  | Some (r1, _), Some (r2, _) => Permutation r1 r2
  | None, None => True
  | _, _ => False
  end.
Proof.
  intros p o o1 o2 Hwf H1 H2.
  assert (HP : Permutation (res_shown (run_keys p o o1)) (res_shown (run_keys p o o2))).
  { eapply Permutation_trans. apply conservation; auto. apply Permutation_sym. apply conservation; auto. }
  destruct (run_keys_spec p o o1 (analysis_order_ok p o1 Hwf H1)) as [A1 [B1 [C1 [D1 _]]]].
  destruct (run_keys_spec p o o2 (analysis_order_ok p o2 Hwf H2)) as [A2 [B2 [C2 [D2 _]]]].
  pose proof (Permutation_length HP) as HL. rewrite A1, A2 in HL.
  split; auto. rewrite C1, C2, B1, B2, D1, D2, HL. repeat split; auto.
  destruct (o_sarif o); auto. rewrite <- A1, <- A2. assumption.
Qed.

(* the answer to a lookup does not depend on the state of the caches (hence
   not on what was analysed or looked up before) *)
Theorem lookup_result_is_lift_result : forall ds P s k,
  Inv ds P s -> (snd (cache ds k s) = true <-> lifts ds k).
Proof. intros. eapply cache_result. eassumption. Qed.

Lemma NoDup_app_l : forall (A : Type) (l l' : list A), NoDup (l ++ l') -> NoDup l.
Proof.
  intros A l l'. induction l as [|a l IH]; simpl; intros H. constructor.
  inversion H; subst. constructor. intro Hin. apply H2. apply in_or_app. auto. auto.
Qed.

Definition add_defs (p : project) (extra : list def) : project :=
  mkProject (p_parse p) (p_defs p ++ extra) (p_user p).

Theorem unreferenced_definitions_irrelevant : forall p extra o order order',
  wf_project (add_defs p extra) -> analysis_order p order -> analysis_order (add_defs p extra) order' ->
  Permutation (res_shown (run_keys (add_defs p extra) o order'))
              (res_shown (run_keys p o order)
               ++ filter (keep_b o (p_user p)) (flat_map produced_def (filter (user_def_b (p_user p)) extra))).
Proof.
  intros p extra o order order' Hwf' Hord Hord'.
  assert (Hwf : wf_project p).
  { unfold wf_project in *. simpl in Hwf'. rewrite map_app in Hwf'. eapply NoDup_app_l. exact Hwf'. }
  eapply Permutation_trans. apply conservation; auto.
  eapply Permutation_trans. 2: { apply Permutation_app_tail. apply Permutation_sym. apply conservation; auto. }
  unfold produced, user_defs, add_defs. simpl.
  rewrite (filter_app (user_def_b (p_user p)) (p_defs p) extra), flat_map_app, app_assoc.
  rewrite (filter_app (keep_b o (p_user p))). apply Permutation_refl.
Qed.

Corollary included_definitions_irrelevant : forall p extra o order,
  wf_project (add_defs p extra) -> analysis_order p order ->
  (forall d, In d extra -> user_def_b (p_user p) d = false) ->
  analysis_order (add_defs p extra) order /\
  Permutation (res_shown (run_keys (add_defs p extra) o order)) (res_shown (run_keys p o order)).
Proof.
  intros p extra o order Hwf' Hord Hnu.
  assert (Hf : filter (user_def_b (p_user p)) extra = []).
  { induction extra as [|a l IH]; simpl; auto. rewrite (Hnu a (or_introl eq_refl)). apply IH.
    - unfold wf_project, add_defs in *. simpl in *. rewrite map_app in *. simpl in Hwf'.
      apply NoDup_remove_1 in Hwf'. assumption.
    - intros d Hd. apply Hnu. right. assumption. }
  assert (Hord' : analysis_order (add_defs p extra) order).
  { unfold analysis_order, user_defs, add_defs in *. simpl. rewrite filter_app, Hf, app_nil_r. assumption. }
  split; auto.
  eapply Permutation_trans. apply (unreferenced_definitions_irrelevant p extra o order order); auto.
  rewrite Hf. simpl. rewrite app_nil_r. apply Permutation_refl.
Qed.

(* ---- order of the files / of the sources --------------------------------- *)

Lemma lib_insert_fresh : forall d m, ~ In (d_key d) (map d_key m) -> lib_insert d m = m ++ [d].
Proof.
  intros d m. induction m as [|a m IH]; simpl; intros H; auto.
  rewrite key_eqb_neq. rewrite IH; auto. intro E. apply H. left. auto.
Qed.

Lemma has_duplicate_b_NoDup : forall l, has_duplicate_b l = false <-> NoDup l.
Proof.
  induction l as [|k l IH]; simpl.
  - split; auto. constructor.
  - rewrite orb_false_iff, IH. split.
    + intros [H1 H2]. constructor; auto. intro Hin. apply kmem_In in Hin. congruence.
    + intros H. inversion H; subst. split; auto. destruct (kmem k l) eqn:E; auto. apply kmem_In in E. contradiction.
Qed.

Lemma KF_duplicate_definition_decides : forall srcs,
  KF_duplicate_definition_b srcs = false <-> NoDup (map d_key srcs).
Proof. intros. apply has_duplicate_b_NoDup. Qed.

Lemma build_library_nodup_gen : forall srcs m, NoDup (map d_key (m ++ srcs)) ->
  fold_left (fun m d => lib_insert d m) srcs m = m ++ srcs.
Proof.
  induction srcs as [|d srcs IH]; simpl; intros m H.
  - rewrite app_nil_r. reflexivity.
  - rewrite lib_insert_fresh.
    + rewrite IH. rewrite <- app_assoc. reflexivity. rewrite <- app_assoc. simpl. assumption.
    + rewrite map_app in H. simpl in H. apply NoDup_remove_2 in H. intro Hin. apply H. apply in_or_app. left. assumption.
Qed.

Lemma build_library_nodup : forall srcs, KF_duplicate_definition_b srcs = false -> build_library srcs = srcs.
Proof.
  intros srcs H. unfold build_library. rewrite build_library_nodup_gen; auto.
  simpl. apply has_duplicate_b_NoDup. assumption.
Qed.

Definition with_defs (p : project) (ds : list def) : project := mkProject (p_parse p) ds (p_user p).

Lemma produced_perm : forall parse1 parse2 ds1 ds2 user,
  Permutation parse1 parse2 -> Permutation ds1 ds2 ->
  Permutation (produced (mkProject parse1 ds1 user)) (produced (mkProject parse2 ds2 user)).
Proof.
  intros. unfold produced, user_defs. simpl. apply Permutation_app; auto.
  apply Permutation_flat_map. apply Permutation_filter'. assumption.
Qed.

Theorem file_order_irrelevant : forall parse1 parse2 srcs1 srcs2 user o order1 order2,
  Permutation parse1 parse2 -> Permutation srcs1 srcs2 ->
  KF_duplicate_definition_b srcs1 = false ->
  let p1 := mkProject parse1 (build_library srcs1) user in
  let p2 := mkProject parse2 (build_library srcs2) user in
  analysis_order p1 order1 -> analysis_order p2 order2 ->
  Permutation (res_shown (run_keys p1 o order1)) (res_shown (run_keys p2 o order2)) /\
  res_exit (run_keys p1 o order1) = res_exit (run_keys p2 o order2).
Proof.
  intros parse1 parse2 srcs1 srcs2 user o order1 order2 Hp Hs Hkf p1 p2 H1 H2.
  assert (Hnd1 : NoDup (map d_key srcs1)) by (apply has_duplicate_b_NoDup; assumption).
  assert (Hnd2 : NoDup (map d_key srcs2)) by (eapply Permutation_NoDup; [apply Permutation_map; exact Hs | assumption]).
  assert (Hkf2 : KF_duplicate_definition_b srcs2 = false) by (apply has_duplicate_b_NoDup; assumption).
  assert (E1 : build_library srcs1 = srcs1) by (apply build_library_nodup; assumption).
  assert (E2 : build_library srcs2 = srcs2) by (apply build_library_nodup; assumption).
  assert (W1 : wf_project p1) by (unfold wf_project, p1; simpl; rewrite E1; assumption).
  assert (W2 : wf_project p2) by (unfold wf_project, p2; simpl; rewrite E2; assumption).
  assert (HP : Permutation (res_shown (run_keys p1 o order1)) (res_shown (run_keys p2 o order2))).
  { eapply Permutation_trans. apply conservation; auto.
    eapply Permutation_trans. 2: { apply Permutation_sym. apply conservation; auto. }
    unfold p1, p2. simpl. apply Permutation_filter'. rewrite E1, E2. apply produced_perm; assumption. }
  split; auto.
  destruct (run_keys_spec p1 o order1 (analysis_order_ok p1 order1 W1 H1)) as [A1 [_ [C1 _]]].
  destruct (run_keys_spec p2 o order2 (analysis_order_ok p2 order2 W2 H2)) as [A2 [_ [C2 _]]].
  pose proof (Permutation_length HP) as HL. rewrite A1, A2 in HL. rewrite C1, C2, HL. reflexivity.
Qed.

(* D22: with a duplicated name the order in which the sources are inserted
   decides which definition is analysed *)
Definition kf_report : report := mkReport Warning 5 5 [0%Z] 1.
Definition kf_def_a : def := mkDef KTemplate 7 0 [] None [] [].
Definition kf_def_b : def := mkDef KTemplate 7 1 [] None [kf_report] [].
Definition kf_opts : opts := mkOpts Warning [] false false.

Theorem file_order_refuted_with_duplicates :
  exists srcs1 srcs2 user o order,
    Permutation srcs1 srcs2 /\ KF_duplicate_definition_b srcs1 = true /\
    analysis_order (mkProject [] (build_library srcs1) user) order /\
    analysis_order (mkProject [] (build_library srcs2) user) order /\
    ~ Permutation (res_shown (run_keys (mkProject [] (build_library srcs1) user) o order))
                  (res_shown (run_keys (mkProject [] (build_library srcs2) user) o order)) /\
    res_exit (run_keys (mkProject [] (build_library srcs1) user) o order) <>
    res_exit (run_keys (mkProject [] (build_library srcs2) user) o order).
Proof.
  exists [kf_def_a; kf_def_b], [kf_def_b; kf_def_a], [0%Z; 1%Z], kf_opts, [(KTemplate, 7%Z)].
  split. apply perm_swap. split. reflexivity.
  split. vm_compute. apply Permutation_refl.
  split. vm_compute. apply Permutation_refl.
  split.
  - vm_compute. intro H. apply Permutation_length in H. discriminate.
  - vm_compute. discriminate.
Qed.

(* the same at the level of the duplicate-overwriting map: one definition is
   dropped without any report (C02) *)
Theorem duplicate_definition_dropped_silently :
  exists srcs user o order d,
    KF_duplicate_definition_b srcs = true /\ In d srcs /\ user_def_b user d = true /\
    analysis_order (mkProject [] (build_library srcs) user) order /\
    ~ In d (build_library srcs) /\
    res_exit (run_keys (mkProject [] (build_library srcs) user) o order) = 0%Z.
Proof.
  exists [kf_def_b; kf_def_a], [0%Z; 1%Z], kf_opts, [(KTemplate, 7%Z)], kf_def_b.
  split. reflexivity. split. left; reflexivity. split. reflexivity.
  split. vm_compute. apply Permutation_refl.
  split.
  - vm_compute. intros [H | []]. discriminate.
  - vm_compute. reflexivity.
Qed.
