(* C07, graph level, stated on the TABLE-FREE relation of Spec.DegSemDom: on a graph that
   is consistent (Model.DegGraph.graph_consistent), validated with a table that IS the
   immediate-dominator table of the graph (Model.DegGraph.idom_is_dominator_table; both
   evaluated by the check on every graph), every degree claim is true in every store
   reachable by the step relation whose phi rule names the deciding conditions by
   path-based dominance alone. *)
From Coq Require Import ZArith NArith List Bool.
Require Import Model.Base Model.Ir Model.Propagate Model.Justify Model.DegJustify Model.DegGraph.
Require Import Spec.PolyDeg Spec.DegSem Spec.DegSemDom Proofs.DegreeProofs Proofs.DegGraphProofs Proofs.DegGraphIdom.
Import ListNotations.
Local Open Scope Z_scope.

Theorem justified_degrees_true_table_free
  (V : Type) (line : V -> V -> Z -> V) (p : Z)
  (sem2 : infix_op -> Z -> Z -> Z) (sem1 : prefix_op -> Z -> Z) (call_sem : ident -> list Z -> Z) (name_code : ident -> Z) :
  (forall op, op_den p op (sem2 op)) -> (forall op, prefix_den p op (sem1 op)) ->
  forall c idom,
  graph_consistent c = true -> idom_is_dominator_table c idom = true -> djust_cfg c idom = true ->
  forall s0 s e F r,
  finit_ok V line p c s0 -> freachable_dom V p sem2 sem1 call_sem name_code c s0 s ->
  djust_expr c e = true -> den V p sem2 sem1 call_sem name_code s e = Some F -> expr_deg e = Some r ->
  forall i, SemDeg V line p (snd r) (F i).
Proof.
  intros H2 H1 c idom Hgc Htab Hv s0 s e F r Hi Hr Hj Hd He.
  assert (Hshape : idom_shape c idom = true).
  { unfold djust_cfg in Hv. apply andb_true_iff in Hv. apply Hv. }
  apply (justified_degrees_true V line p sem2 sem1 call_sem name_code H2 H1 c idom Hv s0 s e F r Hi); auto.
  apply (freachable_dom_freachable c idom Hgc Htab Hshape). exact Hr.
Qed.
