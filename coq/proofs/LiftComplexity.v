(* C12: the counting step behind `let complexity = 2 + edges - nodes;` of
   /repo/program_analysis/src/definition_complexity.rs (usize arithmetic,
   evaluated as (2 + edges) - nodes, where edges is the sum of
   `basic_block.successors().len()` and nodes the number of blocks): the
   subtraction cannot underflow on a lifted graph.

   Proved from LiftTheorems.descending_path only: every block j > 0 is the end
   of a non-empty path from block 0, hence the target of an edge; edges with
   different targets are different members of the successor lists; so the
   successor lists together have at least (number of blocks - 1) members.
   ([b_succs] is duplicate-free by C12_at_most_two_succs, so its length is the
   size of the `HashSet` the code asks for.) *)
From stdpp Require Import list list_numbers.
Require Import Model.Lift Spec.CfgSpec Proofs.LiftTheorems.
Import Base(outcome, Ok).

(* edges, as run_complexity_analysis accumulates it *)
Definition edge_count (g : graph) : nat := list_sum (map (fun b => length (b_succs b)) g).

Lemma path_nil_eq g i j : path g i [] j -> i = j.
Proof. by inversion 1. Qed.

Lemma path_last_edge g i l j : path g i l j -> l <> [] -> exists k, edge g k j.
Proof.
  induction 1 as [i Hi|i k l j He Hp IH]; intros Hne; [done|].
  destruct l as [|x l]; [|by apply IH].
  apply path_nil_eq in Hp as <-. by exists i.
Qed.

Lemma nonentry_block_has_incoming_edge body g :
  lift body = Ok g -> forall j, 0 < j -> j < length g -> exists i, edge g i j.
Proof.
  intros Hl j H0 Hj. destruct (descending_path body g Hl j Hj) as (l & Hp & _).
  destruct l as [|x l]; [apply path_nil_eq in Hp; lia|]. by eapply path_last_edge.
Qed.

Lemma edge_target_in_succs g i j : edge g i j -> j ∈ concat (map b_succs g).
Proof.
  intros (b & Hb & Hj). apply elem_of_list_In, in_concat. exists (b_succs b).
  split; [|by apply elem_of_list_In]. apply in_map, elem_of_list_In. by eapply elem_of_list_lookup_2.
Qed.

Lemma edge_count_concat g : edge_count g = length (concat (map b_succs g)).
Proof.
  unfold edge_count. induction g as [|b g IH]; simpl; [done|]. by rewrite app_length, IH.
Qed.

Lemma nodes_le_one_plus_edges body g : lift body = Ok g -> length g <= 1 + edge_count g.
Proof.
  intros Hl. rewrite edge_count_concat.
  assert (H : seq 1 (length g - 1) ⊆+ concat (map b_succs g)).
  { apply NoDup_submseteq; [apply NoDup_seq|]. intros j Hj. apply elem_of_seq in Hj.
    destruct (nonentry_block_has_incoming_edge body g Hl j) as (i & He); [lia|lia|].
    by eapply edge_target_in_succs. }
  apply submseteq_length in H. rewrite seq_length in H. lia.
Qed.

(* the statement in the terms of the code: with nodes = length g and
   edges = edge_count g, nodes <= 2 + edges (no usize underflow) and the
   computed complexity is at least 1 *)
Lemma complexity_no_underflow body g :
  lift body = Ok g ->
  length g <= 1 + list_sum (map (fun b => length (b_succs b)) g) /\
  1 <= 2 + list_sum (map (fun b => length (b_succs b)) g) - length g.
Proof. intros Hl. pose proof (nodes_le_one_plus_edges body g Hl) as H. unfold edge_count in H. lia. Qed.
