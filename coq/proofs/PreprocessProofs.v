(* Lemmas about the comment stripper (C05, and the pre-processor clauses of
   C04).  Mirror: Model.Preprocess (look-ahead loop of the Rust code).
   Specification: Spec.LexSpec (one-scalar-per-step automaton plus declarative
   vocabulary). *)
Require Import Model.Base Model.Preprocess Spec.LexSpec.
From Coq Require Import NArith Lia List Bool.
Import ListNotations.
Local Open Scope N_scope.

(* ------------------------------------------------------------------ *)
(* basic facts                                                         *)
(* ------------------------------------------------------------------ *)

Lemma scalar_bytes_utf8_len : forall c, scalar_bytes c = utf8_len c.
Proof.
  intro c. unfold scalar_bytes, utf8_len.
  destruct (N.leb_spec c 127), (N.ltb_spec c 128); try lia.
  destruct (N.leb_spec c 2047), (N.ltb_spec c 2048); try lia.
  destruct (N.leb_spec c 65535), (N.ltb_spec c 65536); try lia.
Qed.

Lemma text_bytes_bytes : forall l, text_bytes l = bytes l.
Proof.
  induction l as [|c r IH]; simpl; [reflexivity|].
  fold (text_bytes r). rewrite IH, scalar_bytes_utf8_len. reflexivity.
Qed.

Lemma utf8_len_pos : forall c, (1 <= utf8_len c)%nat.
Proof. intro c. unfold utf8_len. repeat destruct (_ <? _); lia. Qed.

Lemma emit_put : forall out m, emit out m = put out m.
Proof. intros out [t|e|s|]; reflexivity. Qed.

Lemma put_put : forall a b m, put a (put b m) = put (a ++ b) m.
Proof. intros a b [t|e|s|]; simpl; try reflexivity. now rewrite app_assoc. Qed.

Lemma put_nil : forall m, put [] m = m.
Proof. intros [t|e|s|]; reflexivity. Qed.

Lemma spaces_blank : forall c, spaces (scalar_bytes c) = blank c.
Proof. intro c. unfold spaces, blank. now rewrite scalar_bytes_utf8_len. Qed.

(* ------------------------------------------------------------------ *)
(* the mirror computes the reference lexer                             *)
(* ------------------------------------------------------------------ *)

(* One statement per automaton state; the pending `/` and the pending `*` of
   the automaton correspond to the look-ahead of the loop. *)
Lemma pp_refines_all : forall l off,
  pp Code off l = lex_from DCode off l /\
  pp LineComment off l = lex_from DLine off l /\
  (forall o, pp (BlockComment o) off l = lex_from (DBlock o) off l) /\
  (forall at_, (off = at_ + 1)%nat -> pp Code at_ (47 :: l) = lex_from (DSlash at_) off l) /\
  (forall o, (1 <= off)%nat -> pp (BlockComment o) (off - 1) (42 :: l) = put [32] (lex_from (DStar o) off l)).
Proof.
  induction l as [|c r IH]; intro off.
  - repeat split; try reflexivity; intros; simpl; reflexivity.
  - destruct (IH (off + scalar_bytes c)%nat) as (IHc & IHl & IHb & IHs & IHst).
    assert (Hlen : utf8_len c = scalar_bytes c) by (symmetry; apply scalar_bytes_utf8_len).
    (* Code *)
    assert (HC : pp Code off (c :: r) = lex_from DCode off (c :: r)).
    { cbn [lex_from dstep]. destruct (N.eqb_spec c 47) as [->|Hc].
      - cbn [fst snd]. rewrite put_nil. apply IHs. reflexivity.
      - cbn [pp fst snd]. rewrite (proj2 (N.eqb_neq c 47) Hc). rewrite emit_put, Hlen, IHc. reflexivity. }
    (* LineComment *)
    assert (HL : pp LineComment off (c :: r) = lex_from DLine off (c :: r)).
    { cbn [pp lex_from dstep]. destruct (N.eqb_spec c 10) as [->|Hc]; cbn [fst snd].
      - rewrite emit_put, Hlen, IHc. reflexivity.
      - rewrite emit_put, Hlen, IHl, spaces_blank. reflexivity. }
    (* BlockComment *)
    assert (HB : forall o, pp (BlockComment o) off (c :: r) = lex_from (DBlock o) off (c :: r)).
    { intro o. cbn [lex_from dstep]. destruct (N.eqb_spec c 42) as [->|Hc]; cbn [fst snd].
      - change (scalar_bytes 42) with 1%nat.
        specialize (IHst o). change (scalar_bytes 42) with 1%nat in IHst.
        rewrite <- IHst by lia. replace (off + 1 - 1)%nat with off by lia. reflexivity.
      - cbn [pp]. rewrite (proj2 (N.eqb_neq c 42) Hc).
        rewrite emit_put, Hlen, IHb, spaces_blank. reflexivity. }
    repeat split; try assumption.
    + (* DSlash *)
      intros at_ Hoff. subst off. cbn [pp lex_from dstep]. change (47 =? 47) with true. cbv iota.
      change (utf8_len 47) with 1%nat.
      destruct (N.eqb_spec c 47) as [->|Hc47]; cbn [fst snd].
      * change (utf8_len 47) with 1%nat. change (scalar_bytes 47) with 1%nat in *.
        rewrite emit_put, IHl. reflexivity.
      * destruct (N.eqb_spec c 42) as [->|Hc42]; cbn [fst snd].
        -- change (utf8_len 42) with 1%nat. change (scalar_bytes 42) with 1%nat in *.
           rewrite emit_put, IHb. reflexivity.
        -- rewrite !emit_put, put_put, Hlen, IHc. reflexivity.
    + (* DStar *)
      intros o Hoff. cbn [pp lex_from dstep]. change (42 =? 42) with true. cbv iota.
      change (utf8_len 42) with 1%nat. replace (off - 1 + 1)%nat with off by lia.
      destruct (N.eqb_spec c 47) as [->|Hc47]; cbn [fst snd].
      * change (utf8_len 47) with 1%nat. change (scalar_bytes 47) with 1%nat in *.
        rewrite emit_put, IHc, put_put. reflexivity.
      * rewrite emit_put. change (blank 42) with [32]. f_equal.
        rewrite HB. cbn [lex_from dstep].
        destruct (N.eqb_spec c 42) as [->|Hc42]; cbn [fst snd]; reflexivity.
Qed.

Theorem preprocess_refines_lexer : forall s, preprocess s = lex_spec s.
Proof. intro s. exact (proj1 (pp_refines_all s 0%nat)). Qed.
