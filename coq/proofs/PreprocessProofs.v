(* Lemmas about the comment stripper (C05, and the pre-processor clauses of
   C04).  Mirror: Model.Preprocess (look-ahead loop of the Rust code).
   Specification: Spec.LexSpec (one-scalar-per-step automaton plus declarative
   vocabulary). *)
Require Import Model.Base Model.Preprocess Spec.LexSpec.
From Coq Require Import NArith Lia List Bool.
Import ListNotations.
Local Open Scope N_scope.

(* ------------------------------------------------------------------ *)
(* basic facts                                                         *)
(* ------------------------------------------------------------------ *)

Lemma scalar_bytes_utf8_len : forall c, scalar_bytes c = utf8_len c.
Proof.
  intro c. unfold scalar_bytes, utf8_len.
  destruct (N.leb_spec c 127), (N.ltb_spec c 128); try lia.
  destruct (N.leb_spec c 2047), (N.ltb_spec c 2048); try lia.
  destruct (N.leb_spec c 65535), (N.ltb_spec c 65536); try lia.
Qed.

Lemma text_bytes_bytes : forall l, text_bytes l = bytes l.
Proof.
  induction l as [|c r IH]; simpl; [reflexivity|].
  fold (text_bytes r). rewrite IH, scalar_bytes_utf8_len. reflexivity.
Qed.

Lemma utf8_len_pos : forall c, (1 <= utf8_len c)%nat.
Proof. intro c. unfold utf8_len. repeat destruct (_ <? _); lia. Qed.

Lemma emit_put : forall out m, emit out m = put out m.
Proof. intros out [t|e|s|]; reflexivity. Qed.

Lemma put_put : forall a b m, put a (put b m) = put (a ++ b) m.
Proof. intros a b [t|e|s|]; simpl; try reflexivity. now rewrite app_assoc. Qed.

Lemma put_nil : forall m, put [] m = m.
Proof. intros [t|e|s|]; reflexivity. Qed.

Lemma spaces_blank : forall c, spaces (scalar_bytes c) = blank c.
Proof. intro c. unfold spaces, blank. now rewrite scalar_bytes_utf8_len. Qed.

(* ------------------------------------------------------------------ *)
(* the mirror computes the reference lexer                             *)
(* ------------------------------------------------------------------ *)

Lemma pp_code_slash : forall off c r,
  pp Code off (47 :: c :: r) =
  if c =? 47 then emit [32; 32] (pp LineComment (off + 1 + utf8_len c) r)
  else if c =? 42 then emit [32; 32] (pp (BlockComment off) (off + 1 + utf8_len c) r)
  else emit [47] (pp Code (off + 1) (c :: r)).
Proof. reflexivity. Qed.

Lemma pp_block_star : forall o off c r,
  pp (BlockComment o) off (42 :: c :: r) =
  if c =? 47 then emit [32; 32] (pp Code (off + 1 + utf8_len c) r)
  else emit [32] (pp (BlockComment o) (off + 1) (c :: r)).
Proof. reflexivity. Qed.

(* One statement per automaton state; the pending `/` and the pending `*` of
   the automaton correspond to the look-ahead of the loop. *)
Lemma pp_refines_all : forall l off,
  pp Code off l = lex_from DCode off l /\
  pp LineComment off l = lex_from DLine off l /\
  (forall o, pp (BlockComment o) off l = lex_from (DBlock o) off l) /\
  (forall at_, (off = at_ + 1)%nat -> pp Code at_ (47 :: l) = lex_from (DSlash at_) off l) /\
  (forall o, (1 <= off)%nat -> pp (BlockComment o) (off - 1) (42 :: l) = put [32] (lex_from (DStar o) off l)).
Proof.
  induction l as [|c r IH]; intro off.
  - repeat split; try reflexivity; intros; simpl; reflexivity.
  - destruct (IH (off + scalar_bytes c)%nat) as (IHc & IHl & IHb & IHs & IHst).
    assert (Hlen : utf8_len c = scalar_bytes c) by (symmetry; apply scalar_bytes_utf8_len).
    (* Code *)
    assert (HC : pp Code off (c :: r) = lex_from DCode off (c :: r)).
    { cbn [lex_from dstep]. destruct (N.eqb_spec c 47) as [->|Hc].
      - cbn [fst snd]. rewrite put_nil. apply IHs. reflexivity.
      - cbn [pp fst snd]. rewrite (proj2 (N.eqb_neq c 47) Hc). rewrite emit_put, Hlen, IHc. reflexivity. }
    (* LineComment *)
    assert (HL : pp LineComment off (c :: r) = lex_from DLine off (c :: r)).
    { cbn [pp lex_from dstep]. destruct (N.eqb_spec c 10) as [->|Hc]; cbn [fst snd].
      - rewrite emit_put, Hlen, IHc. reflexivity.
      - rewrite emit_put, Hlen, IHl, spaces_blank. reflexivity. }
    (* BlockComment *)
    assert (HB : forall o, pp (BlockComment o) off (c :: r) = lex_from (DBlock o) off (c :: r)).
    { intro o. cbn [lex_from dstep]. destruct (N.eqb_spec c 42) as [->|Hc]; cbn [fst snd].
      - change (scalar_bytes 42) with 1%nat.
        specialize (IHst o). change (scalar_bytes 42) with 1%nat in IHst.
        rewrite <- IHst by lia. replace (off + 1 - 1)%nat with off by lia. reflexivity.
      - cbn [pp]. rewrite (proj2 (N.eqb_neq c 42) Hc).
        rewrite emit_put, Hlen, IHb, spaces_blank. reflexivity. }
    repeat split; try assumption.
    + (* DSlash *)
      intros at_ Hoff. subst off. rewrite pp_code_slash. cbn [lex_from dstep].
      destruct (N.eqb_spec c 47) as [->|Hc47]; cbn [fst snd].
      * change (utf8_len 47) with (scalar_bytes 47). rewrite emit_put, IHl. reflexivity.
      * destruct (N.eqb_spec c 42) as [->|Hc42]; cbn [fst snd].
        -- change (utf8_len 42) with (scalar_bytes 42). rewrite emit_put, IHb. reflexivity.
        -- rewrite emit_put, HC. cbn [lex_from dstep].
           rewrite (proj2 (N.eqb_neq c 47) Hc47). cbn [fst snd].
           rewrite put_put. reflexivity.
    + (* DStar *)
      intros o Hoff. rewrite pp_block_star. replace (off - 1 + 1)%nat with off by lia.
      cbn [lex_from dstep].
      destruct (N.eqb_spec c 47) as [->|Hc47]; cbn [fst snd].
      * change (utf8_len 47) with (scalar_bytes 47). rewrite emit_put, IHc, put_put. reflexivity.
      * rewrite emit_put. f_equal. rewrite HB. cbn [lex_from dstep].
        destruct (N.eqb_spec c 42) as [->|Hc42]; cbn [fst snd]; reflexivity.
Qed.

Theorem preprocess_refines_lexer : forall s, preprocess s = lex_spec s.
Proof. intro s. exact (proj1 (pp_refines_all s 0%nat)). Qed.

(* ------------------------------------------------------------------ *)
(* the automaton, compositionally                                      *)
(* ------------------------------------------------------------------ *)

Lemma text_bytes_app : forall a b, text_bytes (a ++ b) = (text_bytes a + text_bytes b)%nat.
Proof. induction a as [|c r IH]; intro b; simpl; [reflexivity|]. fold (text_bytes (r ++ b)) (text_bytes r). rewrite IH. lia. Qed.

Lemma text_bytes_cons : forall c r, text_bytes (c :: r) = (scalar_bytes c + text_bytes r)%nat.
Proof. reflexivity. Qed.

Lemma state_after_app : forall a b q off,
  state_after q off (a ++ b) = state_after (state_after q off a) (off + text_bytes a) b.
Proof.
  induction a as [|c r IH]; intros b q off; simpl.
  - now rewrite Nat.add_0_r.
  - fold (text_bytes r). rewrite IH. now rewrite Nat.add_assoc.
Qed.

Lemma output_after_app : forall a b q off,
  output_after q off (a ++ b) =
  output_after q off a ++ output_after (state_after q off a) (off + text_bytes a) b.
Proof.
  induction a as [|c r IH]; intros b q off; simpl.
  - now rewrite Nat.add_0_r.
  - fold (text_bytes r). rewrite IH, <- app_assoc. now rewrite Nat.add_assoc.
Qed.

Lemma lex_from_app : forall a b q off,
  lex_from q off (a ++ b) =
  put (output_after q off a) (lex_from (state_after q off a) (off + text_bytes a) b).
Proof.
  induction a as [|c r IH]; intros b q off; simpl.
  - now rewrite put_nil, Nat.add_0_r.
  - fold (text_bytes r). rewrite IH, put_put. now rewrite Nat.add_assoc.
Qed.

Lemma lex_from_finish : forall l q off,
  lex_from q off l = put (output_after q off l) (dfinish (state_after q off l)).
Proof. intros l q off. rewrite <- (app_nil_r l) at 1. now rewrite lex_from_app. Qed.

(* ------------------------------------------------------------------ *)
(* two-scalar sequences                                                *)
(* ------------------------------------------------------------------ *)

Lemma has_pair_cons : forall x y c r,
  has_pair x y (c :: r) <-> (c = x /\ exists r', r = y :: r') \/ has_pair x y r.
Proof.
  intros x y c r. split.
  - intros (u & v & H). destruct u as [|c' u]; simpl in H; injection H as -> H.
    + left. split; [reflexivity|]. now exists v.
    + right. now exists u, v.
  - intros [(-> & r' & ->)|(u & v & ->)].
    + now exists [], r'.
    + now exists (c :: u), v.
Qed.

Lemma has_pair_nil : forall x y, ~ has_pair x y [].
Proof. intros x y (u & v & H). destruct u; discriminate. Qed.

Lemma ends_with_cons : forall x c r, r <> [] -> (ends_with x (c :: r) <-> ends_with x r).
Proof.
  intros x c r Hr. split.
  - intros (u & H). destruct u as [|c' u]; simpl in H; injection H as -> H.
    + now destruct Hr.
    + now exists u.
  - intros (u & ->). now exists (c :: u).
Qed.

Lemma plain_code_tail : forall c r, plain_code (c :: r) -> plain_code r.
Proof.
  intros c r (H1 & H2 & H3). repeat split.
  - intro H. apply H1, has_pair_cons. now right.
  - intro H. apply H2, has_pair_cons. now right.
  - intros (u & ->). apply H3. now exists (c :: u).
Qed.

Lemma plain_code_slash : forall r, plain_code (47 :: r) ->
  exists c1 r', r = c1 :: r' /\ c1 <> 47 /\ c1 <> 42.
Proof.
  intros r (H1 & H2 & H3). destruct r as [|c1 r'].
  - destruct H3. now exists [].
  - exists c1, r'. repeat split.
    + intros ->. apply H1. now exists [], r'.
    + intros ->. apply H2. now exists [], r'.
Qed.

(* a `/` pending in code followed by a scalar that cannot complete an opener *)
Lemma slash_then_other : forall at_ off c r, c <> 47 -> c <> 42 ->
  state_after (DSlash at_) off (c :: r) = state_after DCode off (c :: r) /\
  output_after (DSlash at_) off (c :: r) = 47 :: output_after DCode off (c :: r).
Proof.
  intros at_ off c r H47 H42. cbn [state_after output_after dstep].
  rewrite (proj2 (N.eqb_neq c 47) H47), (proj2 (N.eqb_neq c 42) H42). cbn [fst snd]. split; reflexivity.
Qed.

Lemma state_after_cons : forall q off c r,
  state_after q off (c :: r) = state_after (fst (dstep q off c)) (off + scalar_bytes c) r.
Proof. reflexivity. Qed.

Lemma output_after_cons : forall q off c r,
  output_after q off (c :: r) =
  snd (dstep q off c) ++ output_after (fst (dstep q off c)) (off + scalar_bytes c) r.
Proof. reflexivity. Qed.

Lemma plain_code_run : forall a off, plain_code a ->
  state_after DCode off a = DCode /\ output_after DCode off a = a.
Proof.
  induction a as [|c r IH]; intros off Hp; [split; reflexivity|].
  pose proof (plain_code_tail _ _ Hp) as Hr.
  destruct (N.eq_dec c 47) as [->|Hc].
  - destruct (plain_code_slash _ Hp) as (c1 & r' & -> & H47 & H42).
    rewrite state_after_cons, output_after_cons. cbn [dstep]. change (47 =? 47) with true. cbn [fst snd app].
    destruct (slash_then_other off (off + scalar_bytes 47) c1 r' H47 H42) as (E1 & E2).
    rewrite E1, E2. destruct (IH (off + scalar_bytes 47)%nat Hr) as (I1 & I2).
    rewrite I1, I2. split; reflexivity.
  - cbn [state_after output_after dstep]. rewrite (proj2 (N.eqb_neq c 47) Hc). cbn [fst snd].
    destruct (IH (off + scalar_bytes c)%nat Hr) as (I1 & I2). rewrite I1, I2. split; reflexivity.
Qed.

Lemma blanks_cons : forall c r, blanks (c :: r) = spaces (scalar_bytes c) ++ blanks r.
Proof. reflexivity. Qed.

Lemma blanks_app : forall a b, blanks (a ++ b) = blanks a ++ blanks b.
Proof. intros a b. unfold blanks. now rewrite flat_map_app. Qed.

Lemma no_newline_run : forall c off, no_newline c ->
  state_after DLine off c = DLine /\ output_after DLine off c = blanks c.
Proof.
  induction c as [|x r IH]; intros off Hn; [split; reflexivity|].
  assert (Hx : x <> 10) by (intros ->; apply Hn; now left).
  assert (Hr : no_newline r) by (intro H; apply Hn; now right).
  cbn [state_after output_after dstep]. rewrite (proj2 (N.eqb_neq x 10) Hx). cbn [fst snd].
  destruct (IH (off + scalar_bytes x)%nat Hr) as (I1 & I2). rewrite I1, I2, blanks_cons. split; reflexivity.
Qed.

Definition in_block (o : nat) (q : dstate) : Prop := q = DBlock o \/ q = DStar o.

Lemma no_close_run : forall c o q off, in_block o q ->
  (q = DStar o -> forall r, c <> 47 :: r) -> no_close c ->
  in_block o (state_after q off c) /\ output_after q off c = blanks c.
Proof.
  induction c as [|x r IH]; intros o q off Hq Hhead Hn; [split; [assumption|reflexivity]|].
  assert (Hr : no_close r) by (intro H; apply Hn, has_pair_cons; now right).
  assert (Hnext : x = 42 -> forall r', r <> 47 :: r').
  { intros -> r' ->. apply Hn. now exists [], r'. }
  cbn [state_after output_after]. rewrite blanks_cons.
  destruct Hq as [->| ->]; cbn [dstep].
  - destruct (N.eqb_spec x 42) as [->|Hx]; cbn [fst snd].
    + destruct (IH o (DStar o) (off + scalar_bytes 42)%nat) as (I1 & I2); auto.
      * now right.
      * rewrite I2. split; [assumption|reflexivity].
    + destruct (IH o (DBlock o) (off + scalar_bytes x)%nat) as (I1 & I2); auto.
      * now left.
      * intro H; discriminate H.
      * rewrite I2. split; [assumption|reflexivity].
  - destruct (N.eqb_spec x 47) as [->|Hx47]; [exfalso; now apply (Hhead eq_refl r)|].
    destruct (N.eqb_spec x 42) as [->|Hx]; cbn [fst snd].
    + destruct (IH o (DStar o) (off + scalar_bytes 42)%nat) as (I1 & I2); auto.
      * now right.
      * rewrite I2. split; [assumption|reflexivity].
    + destruct (IH o (DBlock o) (off + scalar_bytes x)%nat) as (I1 & I2); auto.
      * now left.
      * intro H; discriminate H.
      * rewrite I2. split; [assumption|reflexivity].
Qed.

Lemma close_run : forall o q off, in_block o q ->
  state_after q off [42; 47] = DCode /\ output_after q off [42; 47] = [32; 32].
Proof. intros o q off [->| ->]; split; reflexivity. Qed.

(* ------------------------------------------------------------------ *)
(* declarative characterisation of the reference lexer                 *)
(* ------------------------------------------------------------------ *)

(* moving the start offset only moves the error *)
Definition shift (n : nat) (m : outcome (list N)) : outcome (list N) :=
  match m with
  | Err (EOther z) => Err (EOther (Z.of_nat n + z))
  | other => other
  end.

Lemma after_put_shift : forall pre out m, after pre out m = put out (shift (text_bytes pre) m).
Proof. intros pre out [t|[| |z]|s|]; reflexivity. Qed.

Lemma dfinish_shift_code : shift 0 (dfinish DCode) = dfinish DCode.
Proof. reflexivity. Qed.

(* offsets only matter through the opener recorded in the state *)
Definition shift_state (n : nat) (q : dstate) : dstate :=
  match q with
  | DSlash a => DSlash (n + a)
  | DBlock o => DBlock (n + o)
  | DStar o => DStar (n + o)
  | other => other
  end.

Lemma dstep_shift : forall n q off c,
  dstep (shift_state n q) (n + off) c = (shift_state n (fst (dstep q off c)), snd (dstep q off c)).
Proof.
  intros n q off c. destruct q; cbn [dstep shift_state];
    repeat match goal with |- context [if ?b then _ else _] => destruct b end; reflexivity.
Qed.

Lemma shift_put : forall n out m, shift n (put out m) = put out (shift n m).
Proof. intros n out [t|[| |z]|s|]; reflexivity. Qed.

Lemma lex_from_shift : forall l n q off,
  lex_from (shift_state n q) (n + off) l = shift n (lex_from q off l).
Proof.
  induction l as [|c r IH]; intros n q off.
  - destruct q; cbn [lex_from shift_state dfinish]; unfold UnclosedAt, shift; try reflexivity;
      now rewrite Nat2Z.inj_add.
  - cbn [lex_from]. rewrite dstep_shift. cbn [fst snd].
    replace (n + off + scalar_bytes c)%nat with (n + (off + scalar_bytes c))%nat by lia.
    now rewrite IH, shift_put.
Qed.

Lemma lex_code_shift : forall l n, lex_from DCode n l = shift n (lex_spec l).
Proof.
  intros l n. unfold lex_spec. rewrite <- (lex_from_shift l n DCode 0). cbn [shift_state].
  now rewrite Nat.add_0_r.
Qed.

(* code without comment openers is copied *)
Lemma lex_prefix : forall a rest, plain_code a ->
  lex_spec (a ++ rest) = after a a (lex_spec rest).
Proof.
  intros a rest Hp. unfold lex_spec at 1. rewrite lex_from_app.
  destruct (plain_code_run a 0%nat Hp) as (-> & ->).
  rewrite after_put_shift. cbn [Nat.add]. now rewrite lex_code_shift.
Qed.

Lemma lex_plain : forall s, ~ has_pair 47 47 s -> ~ has_pair 47 42 s -> lex_spec s = Ok s.
Proof.
  intros s H1 H2.
  destruct (list_eq_dec N.eq_dec s []) as [->|Hne]; [reflexivity|].
  destruct (exists_last Hne) as (u & x & ->).
  destruct (N.eq_dec x 47) as [->|Hx].
  - assert (Hu : plain_code u).
    { repeat split.
      - intros (a & b & ->). apply H1. exists a, (b ++ [47]). now rewrite <- !app_assoc.
      - intros (a & b & ->). apply H2. exists a, (b ++ [47]). now rewrite <- !app_assoc.
      - intros (w & ->). apply H1. exists w, []. now rewrite <- app_assoc. }
    rewrite (lex_prefix u [47] Hu). reflexivity.
  - assert (Hp : plain_code (u ++ [x])).
    { repeat split; try assumption. intros (w & H). apply app_inj_tail in H. now destruct H. }
    rewrite <- (app_nil_r (u ++ [x])) at 1. rewrite (lex_prefix _ [] Hp). cbn. now rewrite app_nil_r.
Qed.

(* a line comment ends before the next newline *)
Lemma lex_line : forall a c b, plain_code a -> no_newline c ->
  lex_spec (a ++ [47; 47] ++ c ++ [10] ++ b) =
  after (a ++ [47; 47] ++ c ++ [10]) (a ++ blanks ([47; 47] ++ c) ++ [10]) (lex_spec b).
Proof.
  intros a c b Hp Hn.
  replace (a ++ [47; 47] ++ c ++ [10] ++ b) with ((a ++ [47; 47] ++ c ++ [10]) ++ b)
    by (now rewrite <- !app_assoc).
  unfold lex_spec at 1. rewrite lex_from_app, after_put_shift.
  rewrite !state_after_app, !output_after_app.
  destruct (plain_code_run a 0%nat Hp) as (-> & ->).
  cbn [state_after output_after dstep fst snd N.eqb Pos.eqb app].
  match goal with |- context [state_after DLine ?o c] => destruct (no_newline_run c o Hn) as (E1 & E2) end.
  rewrite E1, E2. cbn [state_after output_after dstep fst snd N.eqb Pos.eqb app].
  cbn [Nat.add]. rewrite lex_code_shift. reflexivity.
Qed.

(* ... or at the end of the input *)
Lemma lex_line_eof : forall a c, plain_code a -> no_newline c ->
  lex_spec (a ++ [47; 47] ++ c) = Ok (a ++ blanks ([47; 47] ++ c)).
Proof.
  intros a c Hp Hn. unfold lex_spec. rewrite lex_from_finish.
  rewrite !state_after_app, !output_after_app.
  destruct (plain_code_run a 0%nat Hp) as (-> & ->).
  cbn [state_after output_after dstep fst snd N.eqb Pos.eqb app].
  match goal with |- context [state_after DLine ?o c] => destruct (no_newline_run c o Hn) as (E1 & E2) end.
  rewrite E1, E2. cbn [dfinish put]. now rewrite app_nil_r.
Qed.

(* a block comment ends at the FIRST `*/` after its opener, whatever it contains *)
Lemma lex_block : forall a c b, plain_code a -> no_close c ->
  lex_spec (a ++ [47; 42] ++ c ++ [42; 47] ++ b) =
  after (a ++ [47; 42] ++ c ++ [42; 47]) (a ++ blanks ([47; 42] ++ c ++ [42; 47])) (lex_spec b).
Proof.
  intros a c b Hp Hn.
  replace (a ++ [47; 42] ++ c ++ [42; 47] ++ b) with ((a ++ [47; 42] ++ c ++ [42; 47]) ++ b)
    by (now rewrite <- !app_assoc).
  unfold lex_spec at 1. rewrite lex_from_app, after_put_shift.
  rewrite !state_after_app, !output_after_app.
  destruct (plain_code_run a 0%nat Hp) as (-> & ->).
  cbn [state_after output_after dstep fst snd N.eqb Pos.eqb app].
  assert (Hh : forall o, DBlock o = DStar o -> forall r, c <> 47 :: r) by (intros ? H; discriminate H).
  match goal with |- context [state_after (DBlock ?o) ?off c] =>
    destruct (no_close_run c o (DBlock o) off (or_introl eq_refl : in_block o (DBlock o)) (Hh o) Hn) as (E1 & E2) end.
  rewrite E2. cbn [Nat.add] in *.
  assert (B : blanks (47 :: 42 :: c ++ [42; 47]) = 32 :: 32 :: blanks c ++ [32; 32])
    by (cbn [blanks flat_map]; fold (blanks (c ++ [42; 47])); rewrite blanks_app; reflexivity).
  rewrite B. destruct E1 as [E1|E1]; rewrite E1; cbn [dstep fst snd N.eqb Pos.eqb];
    rewrite lex_code_shift; reflexivity.
Qed.

(* a block comment that is never closed: error at the byte offset of its opener *)
Lemma lex_unclosed : forall a c, plain_code a -> no_close c ->
  lex_spec (a ++ [47; 42] ++ c) = Err (UnclosedAt (text_bytes a)).
Proof.
  intros a c Hp Hn. unfold lex_spec. rewrite lex_from_finish.
  rewrite !state_after_app, !output_after_app.
  destruct (plain_code_run a 0%nat Hp) as (-> & ->).
  cbn [state_after output_after dstep fst snd N.eqb Pos.eqb app].
  assert (Hh : forall o, DBlock o = DStar o -> forall r, c <> 47 :: r) by (intros ? H; discriminate H).
  match goal with |- context [state_after (DBlock ?o) ?off c] =>
    destruct (no_close_run c o (DBlock o) off (or_introl eq_refl : in_block o (DBlock o)) (Hh o) Hn) as (E1 & E2) end.
  cbn [Nat.add] in *. destruct E1 as [-> | ->]; reflexivity.
Qed.

(* --- the five shapes cover every string --- *)

Lemma split_first_newline : forall l,
  no_newline l \/ exists c b, no_newline c /\ l = c ++ [10] ++ b.
Proof.
  induction l as [|x r IH]; [left; intros []|].
  destruct (N.eq_dec x 10) as [->|Hx].
  - right. exists [], r. split; [intros []|reflexivity].
  - destruct IH as [Hn|(c & b & Hn & ->)].
    + left. intros [H|H]; [now apply Hx|now apply Hn].
    + right. exists (x :: c), b. split; [|reflexivity]. intros [H|H]; [now apply Hx|now apply Hn].
Qed.

Lemma split_first_close : forall l,
  no_close l \/ exists c b, no_close c /\ l = c ++ [42; 47] ++ b.
Proof.
  induction l as [|x r IH]; [left; apply has_pair_nil|].
  destruct (N.eq_dec x 42) as [->|Hx].
  - destruct r as [|y r'].
    + left. intro H. apply has_pair_cons in H. destruct H as [(_ & r'' & H)|H]; [discriminate|].
      now apply has_pair_nil in H.
    + destruct (N.eq_dec y 47) as [->|Hy].
      * right. exists [], r'. split; [apply has_pair_nil|reflexivity].
      * destruct IH as [Hn|(c & b & Hn & E)].
        -- left. intro H. apply has_pair_cons in H. destruct H as [(_ & r'' & H)|H].
           ++ injection H as -> _. now apply Hy.
           ++ now apply Hn.
        -- right. exists (42 :: c), b. split; [|now rewrite E].
           intro H. apply has_pair_cons in H. destruct H as [(_ & r'' & H)|H]; [|now apply Hn].
           subst c. injection E as -> _. now apply Hy.
  - destruct IH as [Hn|(c & b & Hn & ->)].
    + left. intro H. apply has_pair_cons in H. destruct H as [(H & _)|H]; [now apply Hx|now apply Hn].
    + right. exists (x :: c), b. split; [|reflexivity].
      intro H. apply has_pair_cons in H. destruct H as [(H & _)|H]; [now apply Hx|now apply Hn].
Qed.

(* first comment opener: code before it, or no opener at all *)
Lemma split_first_opener : forall l,
  (~ has_pair 47 47 l /\ ~ has_pair 47 42 l) \/
  exists a x rest, plain_code a /\ (x = 47 \/ x = 42) /\ l = a ++ [47; x] ++ rest.
Proof.
  induction l as [|c r IH]; [left; split; apply has_pair_nil|].
  destruct (N.eq_dec c 47) as [->|Hc].
  - destruct r as [|y r'].
    + left. split; intro H; apply has_pair_cons in H; destruct H as [(_ & r'' & H)|H];
        try discriminate; now apply has_pair_nil in H.
    + destruct (N.eq_dec y 47) as [->|Hy47].
      { right. exists [], 47, r'. repeat split; try apply has_pair_nil.
        - intros (u & H). destruct u; discriminate.
        - now left. }
      destruct (N.eq_dec y 42) as [->|Hy42].
      { right. exists [], 42, r'. repeat split; try apply has_pair_nil.
        - intros (u & H). destruct u; discriminate.
        - now right. }
      destruct IH as [(H1 & H2)|(a & x & rest & Hp & Hx & E)].
      * left. split; intro H; apply has_pair_cons in H; destruct H as [(_ & r'' & H)|H]; auto;
          injection H as -> _; auto.
      * right. exists (47 :: a), x, rest. split; [|split; [assumption|now rewrite E]].
        destruct Hp as (P1 & P2 & P3).
        assert (Ha : a <> []).
        { intros ->. simpl in E. injection E as -> _. now apply Hy47. }
        destruct a as [|a0 a']; [now destruct Ha|]. simpl in E. injection E as <- E.
        repeat split.
        -- intro H. apply has_pair_cons in H. destruct H as [(_ & r'' & H)|H]; [|now apply P1].
           injection H as -> _. now apply Hy47.
        -- intro H. apply has_pair_cons in H. destruct H as [(_ & r'' & H)|H]; [|now apply P2].
           injection H as -> _. now apply Hy42.
        -- intro H. apply (proj1 (ends_with_cons 47 47 (y :: a') ltac:(discriminate))) in H. now apply P3.
  - destruct IH as [(H1 & H2)|(a & x & rest & Hp & Hx & ->)].
    + left. split; intro H; apply has_pair_cons in H; destruct H as [(H & _)|H]; auto.
    + right. exists (c :: a), x, rest. split; [|split; [assumption|reflexivity]].
      destruct Hp as (P1 & P2 & P3). repeat split.
      * intro H. apply has_pair_cons in H. destruct H as [(H & _)|H]; auto.
      * intro H. apply has_pair_cons in H. destruct H as [(H & _)|H]; auto.
      * destruct a as [|a0 a'].
        -- intros (u & H). destruct u as [|u0 u']; simpl in H.
           ++ injection H as ->. now apply Hc.
           ++ injection H as _ H. destruct u'; discriminate.
        -- intro H. apply (proj1 (ends_with_cons 47 c (a0 :: a') ltac:(discriminate))) in H. now apply P3.
Qed.

Theorem lex_decompose : forall s,
  (~ has_pair 47 47 s /\ ~ has_pair 47 42 s) \/
  (exists a c, plain_code a /\ no_newline c /\ s = a ++ [47; 47] ++ c) \/
  (exists a c b, plain_code a /\ no_newline c /\ s = a ++ [47; 47] ++ c ++ [10] ++ b) \/
  (exists a c b, plain_code a /\ no_close c /\ s = a ++ [47; 42] ++ c ++ [42; 47] ++ b) \/
  (exists a c, plain_code a /\ no_close c /\ s = a ++ [47; 42] ++ c).
Proof.
  intro s. destruct (split_first_opener s) as [H|(a & x & rest & Hp & [->| ->] & ->)]; [now left|..].
  - destruct (split_first_newline rest) as [Hn|(c & b & Hn & ->)].
    + right; left. now exists a, rest.
    + right; right; left. now exists a, c, b.
  - destruct (split_first_close rest) as [Hn|(c & b & Hn & ->)].
    + right; right; right; right. now exists a, rest.
    + right; right; right; left. now exists a, c, b.
Qed.

(* ------------------------------------------------------------------ *)
(* the unclosed-comment error                                          *)
(* ------------------------------------------------------------------ *)

Lemma put_err : forall out m e, put out m = Err e <-> m = Err e.
Proof. intros out [t|e'|s|] e; simpl; split; intro H; try discriminate; assumption. Qed.

Lemma UnclosedAt_inj : forall a b, UnclosedAt a = UnclosedAt b -> a = b.
Proof. intros a b H. injection H as H. now apply Nat2Z.inj. Qed.

Lemma lex_unclosed_iff : forall s o,
  lex_spec s = Err (UnclosedAt o) <-> open_block_at_end s o.
Proof.
  intros s o. unfold lex_spec, open_block_at_end. rewrite lex_from_finish, put_err.
  destruct (state_after DCode 0 s) as [|a| |o'|o']; cbn [dfinish]; split; intro H;
    try discriminate; try (destruct H; discriminate).
  - injection H as H. apply Nat2Z.inj in H. subst. now left.
  - destruct H as [H|H]; [injection H as ->; reflexivity|discriminate].
  - injection H as H. apply Nat2Z.inj in H. subst. now right.
  - destruct H as [H|H]; [discriminate|injection H as ->; reflexivity].
Qed.

(* the only failure mode is the unclosed comment *)
Lemma lex_total : forall s,
  (exists t, lex_spec s = Ok t) \/ exists o, lex_spec s = Err (UnclosedAt o).
Proof.
  intro s. unfold lex_spec. rewrite lex_from_finish.
  destruct (state_after DCode 0 s); cbn [dfinish put]; eauto.
Qed.

(* where the error is: at the first byte of a `/*` that follows comment-free
   code ... or an earlier closed comment; stated for the whole file: *)
Lemma lex_error_at_opener : forall s o,
  lex_spec s = Err (UnclosedAt o) ->
  exists a c, s = a ++ [47; 42] ++ c /\ o = text_bytes a /\ no_close c.
Proof.
  intros s. remember (length s) as n eqn:Hlen. revert s Hlen.
  induction n as [n IH] using lt_wf_ind. intros s Hlen o Herr.
  destruct (lex_decompose s) as [(H1 & H2)|[(a & c & Hp & Hn & ->)|[(a & c & b & Hp & Hn & ->)|
    [(a & c & b & Hp & Hn & ->)|(a & c & Hp & Hn & ->)]]]].
  - rewrite (lex_plain s H1 H2) in Herr. discriminate.
  - rewrite (lex_line_eof a c Hp Hn) in Herr. discriminate.
  - rewrite (lex_line a c b Hp Hn) in Herr.
    destruct (lex_total b) as [(t & E)|(o' & E)]; rewrite E in Herr; [discriminate|].
    cbn [after UnclosedAt] in Herr.
    destruct (IH (length b)) with (s := b) (o := o') as (a' & c' & -> & -> & Hc'); auto.
    { subst n. rewrite !app_length. simpl. lia. }
    exists ((a ++ [47; 47] ++ c ++ [10]) ++ a'), c'. repeat split; try assumption.
    + now rewrite <- !app_assoc.
    + unfold UnclosedAt in Herr. injection Herr as Herr. rewrite text_bytes_app.
      apply Nat2Z.inj. rewrite Nat2Z.inj_add. symmetry. exact Herr.
  - rewrite (lex_block a c b Hp Hn) in Herr.
    destruct (lex_total b) as [(t & E)|(o' & E)]; rewrite E in Herr; [discriminate|].
    cbn [after UnclosedAt] in Herr.
    destruct (IH (length b)) with (s := b) (o := o') as (a' & c' & -> & -> & Hc'); auto.
    { subst n. rewrite !app_length. simpl. lia. }
    exists ((a ++ [47; 42] ++ c ++ [42; 47]) ++ a'), c'. repeat split; try assumption.
    + now rewrite <- !app_assoc.
    + unfold UnclosedAt in Herr. injection Herr as Herr. rewrite text_bytes_app.
      apply Nat2Z.inj. rewrite Nat2Z.inj_add. symmetry. exact Herr.
  - rewrite (lex_unclosed a c Hp Hn) in Herr. injection Herr as Herr. apply Nat2Z.inj in Herr. subst o.
    now exists a, c.
Qed.

(* [lex_error_at_opener] does not say WHICH `/*` is meant: for slash star blank
   slash star blank x both a = [] and a = slash star blank fit.  The opener is the
   one whose prefix ends outside every comment ([ends_in_code]); with that clause
   the decomposition is unique and the statement is an equivalence. *)
Lemma after_unclosed : forall pre out o,
  after pre out (Err (UnclosedAt o)) = Err (UnclosedAt (text_bytes pre + o)).
Proof. intros pre out o. unfold UnclosedAt. cbn [after]. now rewrite Nat2Z.inj_add. Qed.

Lemma lex_unclosed_after : forall a, ends_in_code a -> forall c, no_close c ->
  lex_spec (a ++ [47; 42] ++ c) = Err (UnclosedAt (text_bytes a)).
Proof.
  intros a Ha. induction Ha as [a Hp|a c0 b Hp Hn Hb IH|a c0 b Hp Hn Hb IH]; intros c Hc.
  - now apply lex_unclosed.
  - replace ((a ++ [47; 47] ++ c0 ++ [10] ++ b) ++ [47; 42] ++ c)
      with (a ++ [47; 47] ++ c0 ++ [10] ++ (b ++ [47; 42] ++ c)) by (now rewrite <- !app_assoc).
    rewrite (lex_line a c0 _ Hp Hn), (IH c Hc), after_unclosed. do 2 f_equal.
    replace (a ++ [47; 47] ++ c0 ++ [10] ++ b) with ((a ++ [47; 47] ++ c0 ++ [10]) ++ b)
      by (now rewrite <- !app_assoc).
    now rewrite (text_bytes_app _ b).
  - replace ((a ++ [47; 42] ++ c0 ++ [42; 47] ++ b) ++ [47; 42] ++ c)
      with (a ++ [47; 42] ++ c0 ++ [42; 47] ++ (b ++ [47; 42] ++ c)) by (now rewrite <- !app_assoc).
    rewrite (lex_block a c0 _ Hp Hn), (IH c Hc), after_unclosed. do 2 f_equal.
    replace (a ++ [47; 42] ++ c0 ++ [42; 47] ++ b) with ((a ++ [47; 42] ++ c0 ++ [42; 47]) ++ b)
      by (now rewrite <- !app_assoc).
    now rewrite (text_bytes_app _ b).
Qed.

Lemma lex_error_at_first_unclosed_opener : forall s o,
  lex_spec s = Err (UnclosedAt o) ->
  exists a c, s = a ++ [47; 42] ++ c /\ ends_in_code a /\ no_close c /\ o = text_bytes a.
Proof.
  intros s. remember (length s) as n eqn:Hlen. revert s Hlen.
  induction n as [n IH] using lt_wf_ind. intros s Hlen o Herr.
  destruct (lex_decompose s) as [(H1 & H2)|[(a & c & Hp & Hn & ->)|[(a & c & b & Hp & Hn & ->)|
    [(a & c & b & Hp & Hn & ->)|(a & c & Hp & Hn & ->)]]]].
  - rewrite (lex_plain s H1 H2) in Herr. discriminate.
  - rewrite (lex_line_eof a c Hp Hn) in Herr. discriminate.
  - rewrite (lex_line a c b Hp Hn) in Herr.
    destruct (lex_total b) as [(t & E)|(o' & E)]; rewrite E in Herr; [discriminate|].
    rewrite after_unclosed in Herr. apply (f_equal (fun m => match m with Err e => e | _ => EOther 0 end)) in Herr.
    apply UnclosedAt_inj in Herr.
    destruct (IH (length b)) with (s := b) (o := o') as (a' & c' & -> & Ha' & Hc' & ->); auto.
    { subst n. rewrite !app_length. simpl. lia. }
    exists (a ++ [47; 47] ++ c ++ [10] ++ a'), c'. repeat split; try assumption.
    + now rewrite <- !app_assoc.
    + now apply eic_line.
    + subst o. replace (a ++ [47; 47] ++ c ++ [10] ++ a') with ((a ++ [47; 47] ++ c ++ [10]) ++ a')
        by (now rewrite <- !app_assoc). now rewrite (text_bytes_app _ a').
  - rewrite (lex_block a c b Hp Hn) in Herr.
    destruct (lex_total b) as [(t & E)|(o' & E)]; rewrite E in Herr; [discriminate|].
    rewrite after_unclosed in Herr. apply (f_equal (fun m => match m with Err e => e | _ => EOther 0 end)) in Herr.
    apply UnclosedAt_inj in Herr.
    destruct (IH (length b)) with (s := b) (o := o') as (a' & c' & -> & Ha' & Hc' & ->); auto.
    { subst n. rewrite !app_length. simpl. lia. }
    exists (a ++ [47; 42] ++ c ++ [42; 47] ++ a'), c'. repeat split; try assumption.
    + now rewrite <- !app_assoc.
    + now apply eic_block.
    + subst o. replace (a ++ [47; 42] ++ c ++ [42; 47] ++ a') with ((a ++ [47; 42] ++ c ++ [42; 47]) ++ a')
        by (now rewrite <- !app_assoc). now rewrite (text_bytes_app _ a').
  - rewrite (lex_unclosed a c Hp Hn) in Herr.
    apply (f_equal (fun m => match m with Err e => e | _ => EOther 0 end)) in Herr.
    apply UnclosedAt_inj in Herr. subst o.
    exists a, c. repeat split; try assumption. now apply eic_code.
Qed.

Lemma scalar_bytes_pos : forall c, (1 <= scalar_bytes c)%nat.
Proof. intro c. rewrite scalar_bytes_utf8_len. apply utf8_len_pos. Qed.

(* two prefixes of one text with the same byte length are the same prefix *)
Lemma prefix_same_bytes : forall a a' x x',
  a ++ x = a' ++ x' -> text_bytes a = text_bytes a' -> a = a'.
Proof.
  induction a as [|c r IH]; intros [|c' r'] x x' E B; try reflexivity.
  - rewrite text_bytes_cons in B. pose proof (scalar_bytes_pos c'). cbn in B. lia.
  - rewrite text_bytes_cons in B. pose proof (scalar_bytes_pos c). cbn in B. lia.
  - simpl in E. injection E as <- E. rewrite !text_bytes_cons in B.
    f_equal. apply (IH r' x x' E). lia.
Qed.

(* at most one `/*` of a text is an opener that is never closed *)
Lemma unclosed_opener_unique_lex : forall a c a' c',
  a ++ [47; 42] ++ c = a' ++ [47; 42] ++ c' ->
  ends_in_code a -> ends_in_code a' -> no_close c -> no_close c' -> a = a' /\ c = c'.
Proof.
  intros a c a' c' E Ha Ha' Hc Hc'.
  pose proof (lex_unclosed_after a Ha c Hc) as L. rewrite E, (lex_unclosed_after a' Ha' c' Hc') in L.
  apply (f_equal (fun m => match m with Err e => e | _ => EOther 0 end)) in L.
  apply UnclosedAt_inj in L.
  assert (a = a') by (apply (prefix_same_bytes a a' _ _ E); now symmetry). subst a'.
  split; [reflexivity|]. apply app_inv_head in E. now injection E.
Qed.

(* ------------------------------------------------------------------ *)
(* positions: the output is the input with comment scalars blanked     *)
(* (the pre-processor clauses of C04)                                  *)
(* ------------------------------------------------------------------ *)

Lemma blanked_refl : forall s, blanked s s.
Proof. induction s; constructor; assumption. Qed.

Lemma blanked_blanks : forall s, blanked s (blanks s).
Proof. induction s as [|c r IH]; [constructor|]. rewrite blanks_cons. now constructor. Qed.

Lemma blanked_app : forall a a' b b', blanked a a' -> blanked b b' -> blanked (a ++ b) (a' ++ b').
Proof.
  intros a a' b b' Ha Hb. induction Ha; simpl; [assumption| |].
  - now constructor.
  - rewrite <- app_assoc. now constructor.
Qed.

Lemma text_bytes_spaces : forall n, text_bytes (spaces n) = n.
Proof. induction n as [|n IH]; [reflexivity|]. change (spaces (S n)) with (32 :: spaces n).
  rewrite text_bytes_cons, IH. reflexivity. Qed.

Lemma blanked_bytes : forall s t, blanked s t -> text_bytes t = text_bytes s.
Proof.
  intros s t H. induction H; [reflexivity| |].
  - rewrite !text_bytes_cons. lia.
  - rewrite text_bytes_app, text_bytes_spaces, text_bytes_cons. lia.
Qed.

Lemma blanked_split : forall s t, blanked s t -> forall u v, s = u ++ v ->
  exists u' v', t = u' ++ v' /\ blanked u u' /\ blanked v v'.
Proof.
  intros s t H. induction H as [|c s t H IH|c s t H IH]; intros u v E.
  - destruct u; [|discriminate]. destruct v; [|discriminate]. exists [], []. repeat split; constructor.
  - destruct u as [|c' u].
    + simpl in E. subst v. exists [], (c :: t). repeat split; constructor. assumption.
    + simpl in E. injection E as <- E. destruct (IH u v E) as (u' & v' & -> & Hu & Hv).
      exists (c :: u'), v'. repeat split; try assumption. now constructor.
  - destruct u as [|c' u].
    + simpl in E. subst v. exists [], (spaces (scalar_bytes c) ++ t). repeat split; constructor. assumption.
    + simpl in E. injection E as <- E. destruct (IH u v E) as (u' & v' & -> & Hu & Hv).
      exists (spaces (scalar_bytes c) ++ u'), v'. repeat split; try assumption.
      * now rewrite app_assoc.
      * now constructor.
Qed.

(* every scalar boundary of the file is a scalar boundary of the text *)
Lemma blanked_boundary : forall s t o, blanked s t -> boundary s o -> boundary t o.
Proof.
  intros s t o H (u & v & E & <-). destruct (blanked_split s t H u v E) as (u' & v' & -> & Hu & _).
  exists u', v'. split; [reflexivity|]. now apply blanked_bytes.
Qed.

Lemma spaces_prefix : forall k t0 u c v, spaces k ++ t0 = u ++ c :: v -> c <> 32 ->
  exists u1, u = spaces k ++ u1 /\ t0 = u1 ++ c :: v.
Proof.
  induction k as [|k IH]; intros t0 u c v E Hc.
  - now exists u.
  - change (spaces (S k)) with (32 :: spaces k) in *. destruct u as [|x u]; simpl in E.
    + injection E as E _. now destruct Hc.
    + injection E as <- E. destruct (IH t0 u c v E Hc) as (u1 & -> & ->). now exists u1.
Qed.

(* every non-blank scalar of the text is that scalar of the file, at the same
   byte offset *)
Lemma blanked_scalar_at : forall s t, blanked s t -> forall o c,
  scalar_at t o c -> c <> 32 -> scalar_at s o c.
Proof.
  intros s t H. induction H as [|c0 s t H IH|c0 s t H IH]; intros o c (u & v & E & Ho) Hc.
  - destruct u; discriminate.
  - destruct u as [|x u]; simpl in E; injection E as -> E.
    + exists [], s. split; [reflexivity|assumption].
    + destruct (IH (text_bytes u) c) as (u' & v' & -> & Hu'); [now exists u, v|assumption|].
      exists (x :: u'), v'. split; [reflexivity|]. rewrite text_bytes_cons in *. lia.
  - destruct (spaces_prefix _ _ _ _ _ E Hc) as (u1 & -> & E1).
    destruct (IH (text_bytes u1) c) as (u' & v' & -> & Hu'); [now exists u1, v|assumption|].
    exists (c0 :: u'), v'. split; [reflexivity|].
    rewrite text_bytes_app, text_bytes_spaces in Ho. rewrite text_bytes_cons. lia.
Qed.

Lemma blanked_line_shape : forall a c b t', blanked b t' ->
  blanked (a ++ [47; 47] ++ c ++ [10] ++ b) ((a ++ blanks ([47; 47] ++ c) ++ [10]) ++ t').
Proof.
  intros a c b t' Hb.
  replace (a ++ [47; 47] ++ c ++ [10] ++ b) with (a ++ ([47; 47] ++ c) ++ [10] ++ b)
    by (now rewrite <- !app_assoc).
  replace ((a ++ blanks ([47; 47] ++ c) ++ [10]) ++ t') with (a ++ blanks ([47; 47] ++ c) ++ [10] ++ t')
    by (now rewrite <- !app_assoc).
  apply blanked_app; [apply blanked_refl|].
  apply blanked_app; [apply blanked_blanks|]. apply blanked_app; [apply blanked_refl|assumption].
Qed.

Lemma blanked_block_shape : forall a c b t', blanked b t' ->
  blanked (a ++ [47; 42] ++ c ++ [42; 47] ++ b) ((a ++ blanks ([47; 42] ++ c ++ [42; 47])) ++ t').
Proof.
  intros a c b t' Hb.
  replace (a ++ [47; 42] ++ c ++ [42; 47] ++ b) with (a ++ ([47; 42] ++ c ++ [42; 47]) ++ b)
    by (now rewrite <- !app_assoc).
  replace ((a ++ blanks ([47; 42] ++ c ++ [42; 47])) ++ t') with (a ++ blanks ([47; 42] ++ c ++ [42; 47]) ++ t')
    by (now rewrite <- !app_assoc).
  apply blanked_app; [apply blanked_refl|].
  apply blanked_app; [apply blanked_blanks|assumption].
Qed.

Lemma lex_ok_blanked : forall s t, lex_spec s = Ok t -> blanked s t.
Proof.
  intros s. remember (length s) as n eqn:Hlen. revert s Hlen.
  induction n as [n IH] using lt_wf_ind. intros s Hlen t Hok.
  destruct (lex_decompose s) as [(H1 & H2)|[(a & c & Hp & Hn & ->)|[(a & c & b & Hp & Hn & ->)|
    [(a & c & b & Hp & Hn & ->)|(a & c & Hp & Hn & ->)]]]].
  - rewrite (lex_plain s H1 H2) in Hok. injection Hok as <-. apply blanked_refl.
  - rewrite (lex_line_eof a c Hp Hn) in Hok. injection Hok as <-.
    apply blanked_app; [apply blanked_refl|apply blanked_blanks].
  - rewrite (lex_line a c b Hp Hn) in Hok.
    destruct (lex_total b) as [(t' & E)|(o' & E)]; rewrite E in Hok; [|discriminate].
    cbn [after] in Hok. injection Hok as <-.
    assert (Hb : blanked b t').
    { apply (IH (length b)) with (s := b); auto. subst n. rewrite !app_length. simpl. lia. }
    exact (blanked_line_shape a c b t' Hb).
  - rewrite (lex_block a c b Hp Hn) in Hok.
    destruct (lex_total b) as [(t' & E)|(o' & E)]; rewrite E in Hok; [|discriminate].
    cbn [after] in Hok. injection Hok as <-.
    assert (Hb : blanked b t').
    { apply (IH (length b)) with (s := b); auto. subst n. rewrite !app_length. simpl. lia. }
    exact (blanked_block_shape a c b t' Hb).
  - rewrite (lex_unclosed a c Hp Hn) in Hok. discriminate.
Qed.

(* ------------------------------------------------------------------ *)
(* blanking the comments changes nothing                               *)
(* ------------------------------------------------------------------ *)

Lemma has_pair_in : forall x y l, has_pair x y l -> In x l.
Proof. intros x y l (u & v & ->). apply in_or_app. right. now left. Qed.

Lemma ends_with_in : forall x l, ends_with x l -> In x l.
Proof. intros x l (u & ->). apply in_or_app. right. now left. Qed.

Lemma plain_code_no_slash : forall l, ~ In 47 l -> plain_code l.
Proof.
  intros l H. repeat split; intro H'; apply H;
    [apply (has_pair_in _ _ _ H')|apply (has_pair_in _ _ _ H')|apply (ends_with_in _ _ H')].
Qed.

Lemma in_blanks : forall x l, In x (blanks l) -> x = 32.
Proof.
  intros x l. induction l as [|c r IH]; [intros []|]. rewrite blanks_cons. intro H.
  apply in_app_or in H. destruct H as [H|H]; [|now apply IH].
  apply repeat_spec in H. assumption.
Qed.

Lemma plain_code_blanks : forall l, plain_code (blanks l).
Proof. intro l. apply plain_code_no_slash. intro H. apply in_blanks in H. discriminate. Qed.

Lemma text_bytes_blanks : forall l, text_bytes (blanks l) = text_bytes l.
Proof. intro l. apply blanked_bytes, blanked_blanks. Qed.

Lemma lex_blanked_line_shape : forall a c t', plain_code a -> lex_spec t' = Ok t' ->
  lex_spec ((a ++ blanks ([47; 47] ++ c) ++ [10]) ++ t') = Ok ((a ++ blanks ([47; 47] ++ c) ++ [10]) ++ t').
Proof.
  intros a c t' Hp Hb.
  assert (Hnl : plain_code [10]) by (apply plain_code_no_slash; intros [H|[]]; discriminate).
  rewrite <- !app_assoc. rewrite (lex_prefix a _ Hp), (lex_prefix _ _ (plain_code_blanks _)),
    (lex_prefix [10] _ Hnl), Hb. reflexivity.
Qed.

Lemma lex_blanked_block_shape : forall a c t', plain_code a -> lex_spec t' = Ok t' ->
  lex_spec ((a ++ blanks c) ++ t') = Ok ((a ++ blanks c) ++ t').
Proof.
  intros a c t' Hp Hb.
  rewrite <- !app_assoc. rewrite (lex_prefix a _ Hp), (lex_prefix _ _ (plain_code_blanks _)), Hb.
  reflexivity.
Qed.

Lemma lex_idempotent : forall s t, lex_spec s = Ok t -> lex_spec t = Ok t.
Proof.
  intros s. remember (length s) as n eqn:Hlen. revert s Hlen.
  induction n as [n IH] using lt_wf_ind. intros s Hlen t Hok.
  assert (Hnl : plain_code [10]) by (apply plain_code_no_slash; intros [H|[]]; discriminate).
  destruct (lex_decompose s) as [(H1 & H2)|[(a & c & Hp & Hn & ->)|[(a & c & b & Hp & Hn & ->)|
    [(a & c & b & Hp & Hn & ->)|(a & c & Hp & Hn & ->)]]]].
  - rewrite (lex_plain s H1 H2) in Hok. injection Hok as <-. now apply lex_plain.
  - rewrite (lex_line_eof a c Hp Hn) in Hok. injection Hok as <-.
    pose proof (lex_blanked_block_shape a ([47; 47] ++ c) [] Hp eq_refl) as H. rewrite !app_nil_r in H. exact H.
  - rewrite (lex_line a c b Hp Hn) in Hok.
    destruct (lex_total b) as [(t' & E)|(o' & E)]; rewrite E in Hok; [|discriminate].
    cbn [after] in Hok. injection Hok as <-.
    assert (Hb : lex_spec t' = Ok t').
    { apply (IH (length b)) with (s := b); auto. subst n. rewrite !app_length. simpl. lia. }
    exact (lex_blanked_line_shape a c t' Hp Hb).
  - rewrite (lex_block a c b Hp Hn) in Hok.
    destruct (lex_total b) as [(t' & E)|(o' & E)]; rewrite E in Hok; [|discriminate].
    cbn [after] in Hok. injection Hok as <-.
    assert (Hb : lex_spec t' = Ok t').
    { apply (IH (length b)) with (s := b); auto. subst n. rewrite !app_length. simpl. lia. }
    exact (lex_blanked_block_shape a ([47; 42] ++ c ++ [42; 47]) t' Hp Hb).
  - rewrite (lex_unclosed a c Hp Hn) in Hok. discriminate.
Qed.

(* the whole file with its comments blanked out gives the same parser input *)
Lemma lex_blank_invariant : forall s, lex_spec (blank_comments s) = lex_spec s.
Proof.
  intro s. unfold blank_comments. destruct (lex_spec s) as [t| | |] eqn:E; try assumption.
  now apply lex_idempotent with (s := s).
Qed.

(* ANY single comment replaced by blanks of the same byte length, the rest of
   the file (other comments included) left alone: same parser input, same error *)
Lemma lex_one_block_comment_blanked : forall a c b, plain_code a -> block_comment c ->
  lex_spec (a ++ blanks c ++ b) = lex_spec (a ++ c ++ b).
Proof.
  intros a c b Hp (body & Hn & ->).
  replace (a ++ ([47; 42] ++ body ++ [42; 47]) ++ b) with (a ++ [47; 42] ++ body ++ [42; 47] ++ b)
    by (now rewrite <- !app_assoc).
  rewrite (lex_block a body b Hp Hn), (lex_prefix a _ Hp), (lex_prefix _ b (plain_code_blanks _)).
  destruct (lex_spec b) as [t|[| |z]|s|]; cbn [after]; try reflexivity.
  - now rewrite <- app_assoc.
  - rewrite text_bytes_blanks, (text_bytes_app a), Nat2Z.inj_add, Z.add_assoc. reflexivity.
Qed.

Lemma lex_one_line_comment_blanked : forall a c b, plain_code a -> line_comment c ->
  (b = [] \/ exists b', b = 10 :: b') ->
  lex_spec (a ++ blanks c ++ b) = lex_spec (a ++ c ++ b).
Proof.
  intros a c b Hp (body & Hn & ->) Hb.
  rewrite (lex_prefix a _ Hp), (lex_prefix _ b (plain_code_blanks _)).
  destruct Hb as [->|(b' & ->)].
  - rewrite !app_nil_r. rewrite (lex_line_eof a body Hp Hn).
    change (lex_spec []) with (Ok (@nil N)). cbn [after]. now rewrite app_nil_r.
  - replace (a ++ ([47; 47] ++ body) ++ 10 :: b') with (a ++ [47; 47] ++ body ++ [10] ++ b')
      by (now rewrite <- !app_assoc).
    rewrite (lex_line a body b' Hp Hn).
    assert (Hnl : plain_code [10]) by (apply plain_code_no_slash; intros [H|[]]; discriminate).
    change (10 :: b') with ([10] ++ b'). rewrite (lex_prefix [10] b' Hnl).
    destruct (lex_spec b') as [t|[| |z]|s|]; cbn [after]; try reflexivity.
    + now rewrite <- !app_assoc.
    + rewrite text_bytes_blanks, !text_bytes_app. do 2 f_equal. cbn [text_bytes fold_right]. lia.
Qed.

(* ------------------------------------------------------------------ *)
(* the same facts for the mirror of the Rust function                  *)
(* ------------------------------------------------------------------ *)

Lemma unclosed_UnclosedAt : forall o, unclosed o = UnclosedAt o.
Proof. reflexivity. Qed.

Theorem preprocess_length : forall s t, preprocess s = Ok t -> text_bytes t = text_bytes s.
Proof. intros s t H. rewrite preprocess_refines_lexer in H. now apply blanked_bytes, lex_ok_blanked. Qed.

Theorem preprocess_blanked : forall s t, preprocess s = Ok t -> blanked s t.
Proof. intros s t H. rewrite preprocess_refines_lexer in H. now apply lex_ok_blanked. Qed.

Theorem preprocess_boundaries : forall s t o, preprocess s = Ok t -> boundary s o -> boundary t o.
Proof. intros s t o H. apply blanked_boundary. now apply preprocess_blanked. Qed.

Theorem preprocess_scalar_positions : forall s t o c,
  preprocess s = Ok t -> scalar_at t o c -> c <> 32 -> scalar_at s o c.
Proof. intros s t o c H. apply blanked_scalar_at. now apply preprocess_blanked. Qed.

Theorem unclosed_comment_iff_open_block : forall s o,
  preprocess s = Err (unclosed o) <-> open_block_at_end s o.
Proof. intros s o. rewrite preprocess_refines_lexer. apply lex_unclosed_iff. Qed.

Theorem unclosed_comment_location_is_byte_offset_of_opener : forall s o,
  preprocess s = Err (unclosed o) ->
  exists a c, s = a ++ [47; 42] ++ c /\ o = text_bytes a /\ no_close c.
Proof. intros s o H. rewrite preprocess_refines_lexer in H. now apply lex_error_at_opener. Qed.

(* the reported offset is that of THE opener: the `/*` whose prefix ends outside
   every comment and that no `*/` follows; there is exactly one such
   decomposition (next lemma), so o is determined *)
Theorem unclosed_comment_at_first_unclosed_opener : forall s o,
  preprocess s = Err (unclosed o) <->
  exists a c, s = a ++ [47; 42] ++ c /\ ends_in_code a /\ no_close c /\ o = text_bytes a.
Proof.
  intros s o. rewrite preprocess_refines_lexer, unclosed_UnclosedAt. split.
  - apply lex_error_at_first_unclosed_opener.
  - intros (a & c & -> & Ha & Hc & ->). now apply lex_unclosed_after.
Qed.

Theorem unclosed_opener_unique : forall a c a' c',
  a ++ [47; 42] ++ c = a' ++ [47; 42] ++ c' ->
  ends_in_code a -> ends_in_code a' -> no_close c -> no_close c' -> a = a' /\ c = c'.
Proof. exact unclosed_opener_unique_lex. Qed.

Theorem preprocess_total : forall s,
  (exists t, preprocess s = Ok t) \/ exists o, preprocess s = Err (unclosed o).
Proof. intro s. rewrite preprocess_refines_lexer. apply lex_total. Qed.

Theorem blank_invariant : forall s, preprocess (blank_comments s) = preprocess s.
Proof. intro s. rewrite !preprocess_refines_lexer. apply lex_blank_invariant. Qed.

Theorem code_after_block_comment_kept : forall c s, block_comment c ->
  preprocess (c ++ s) = after c (blanks c) (preprocess s).
Proof.
  intros c s (body & Hn & ->). rewrite !preprocess_refines_lexer.
  assert (Hp : plain_code []) by (apply plain_code_no_slash; intros []).
  pose proof (lex_block [] body s Hp Hn) as H. cbn [app] in H.
  replace (([47; 42] ++ body ++ [42; 47]) ++ s) with (47 :: 42 :: body ++ [42; 47] ++ s)
    by (cbn [app]; now rewrite <- !app_assoc).
  exact H.
Qed.

Theorem code_after_line_comment_kept : forall c s, line_comment c ->
  preprocess (c ++ [10] ++ s) = after (c ++ [10]) (blanks c ++ [10]) (preprocess s).
Proof.
  intros c s (body & Hn & ->). rewrite !preprocess_refines_lexer.
  assert (Hp : plain_code []) by (apply plain_code_no_slash; intros []).
  pose proof (lex_line [] body s Hp Hn) as H. cbn [app] in H.
  cbn [app] in *. exact H.
Qed.

(* the label range start .. start + 2 of the report lies inside the file, on
   scalar boundaries, and covers exactly the two bytes of the opener *)
Theorem unclosed_comment_range_valid : forall s o,
  preprocess s = Err (unclosed o) ->
  scalar_at s o 47 /\ scalar_at s (o + 1) 42 /\
  boundary s o /\ boundary s (o + 2) /\ (o + 2 <= text_bytes s)%nat.
Proof.
  intros s o H. destruct (unclosed_comment_location_is_byte_offset_of_opener s o H) as (a & c & -> & -> & _).
  repeat split.
  - now exists a, (42 :: c).
  - exists (a ++ [47]), c. split; [now rewrite <- app_assoc|]. rewrite text_bytes_app. reflexivity.
  - now exists a, ([47; 42] ++ c).
  - exists (a ++ [47; 42]), c. split; [now rewrite <- app_assoc|]. rewrite text_bytes_app. reflexivity.
  - rewrite !text_bytes_app. cbn [text_bytes fold_right scalar_bytes N.leb N.compare Pos.compare Pos.compare_cont]. lia.
Qed.

(* the declarative lemmas, for the mirror *)
Theorem preprocess_plain : forall s, ~ has_pair 47 47 s -> ~ has_pair 47 42 s -> preprocess s = Ok s.
Proof. intros s. rewrite preprocess_refines_lexer. apply lex_plain. Qed.

Theorem preprocess_line_comment : forall a c b, plain_code a -> no_newline c ->
  preprocess (a ++ [47; 47] ++ c ++ [10] ++ b) =
  after (a ++ [47; 47] ++ c ++ [10]) (a ++ blanks ([47; 47] ++ c) ++ [10]) (preprocess b).
Proof. intros a c b. rewrite !preprocess_refines_lexer. apply lex_line. Qed.

Theorem preprocess_line_comment_eof : forall a c, plain_code a -> no_newline c ->
  preprocess (a ++ [47; 47] ++ c) = Ok (a ++ blanks ([47; 47] ++ c)).
Proof. intros a c. rewrite !preprocess_refines_lexer. apply lex_line_eof. Qed.

Theorem preprocess_block_comment : forall a c b, plain_code a -> no_close c ->
  preprocess (a ++ [47; 42] ++ c ++ [42; 47] ++ b) =
  after (a ++ [47; 42] ++ c ++ [42; 47]) (a ++ blanks ([47; 42] ++ c ++ [42; 47])) (preprocess b).
Proof. intros a c b. rewrite !preprocess_refines_lexer. apply lex_block. Qed.

Theorem preprocess_unclosed_comment : forall a c, plain_code a -> no_close c ->
  preprocess (a ++ [47; 42] ++ c) = Err (unclosed (text_bytes a)).
Proof. intros a c. rewrite !preprocess_refines_lexer. apply lex_unclosed. Qed.

Theorem one_block_comment_blanked : forall a c b, plain_code a -> block_comment c ->
  preprocess (a ++ blanks c ++ b) = preprocess (a ++ c ++ b).
Proof. intros a c b. rewrite !preprocess_refines_lexer. apply lex_one_block_comment_blanked. Qed.

Theorem one_line_comment_blanked : forall a c b, plain_code a -> line_comment c ->
  (b = [] \/ exists b', b = 10 :: b') ->
  preprocess (a ++ blanks c ++ b) = preprocess (a ++ c ++ b).
Proof. intros a c b. rewrite !preprocess_refines_lexer. apply lex_one_line_comment_blanked. Qed.
