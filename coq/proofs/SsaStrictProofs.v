(* C14 (fourth audit): what the conditions of Model.SsaStrict say, on EVERY path from the entry.
     path_end_map            the running map at the end of any path from the entry IS (up to lookup)
                             the exit map the validator computed for the last block
     phi_args_arrive         every argument of a phi has the key of the target and is, for SOME
                             predecessor p of the block, the running version of that key (or, when it
                             carries no version, the absence of one) at the end of EVERY path from the
                             entry that ends in p: a phi argument is read along an incoming edge
     read_defined_strict     on every path from the entry that ends in the block of a read, the version
                             the read names is a parameter's, or has been assigned by a statement of the
                             path, or is the base of an element-wise update and NO statement of the graph
                             defines it (ssa_check alone allows any name there)
     locals_versioned_spec, decl_table_spec, locals_versioned_unversioned_reads   unfoldings *)
From Coq Require Import ZArith NArith List Bool Lia Arith.
Require Import Model.Base Model.Ir Model.SsaCheck Model.SsaErase Model.SsaDecls Model.SsaStrict Spec.SsaSpec.
Require Import Proofs.IrFacts Proofs.SsaProofs.
Import ListNotations.

Section Graph.
Variable c : cfg.
Variable infos : list binfo.
Hypothesis Hok : infos_ok infos c = true.
Hypothesis Hidx : forall i b, nth_error (c_blocks c) i = Some b -> b_index b = N.of_nat i.

(* every key satisfies the edge condition (the list that edge_ok enumerates is complete) *)
Lemma edge_all_keys p s ip is_ bs_ :
  nth_error infos p = Some ip -> nth_error infos s = Some is_ -> nth_error (c_blocks c) s = Some bs_ ->
  edge_ok infos (c_blocks c) p s = true -> forall k, edge_key_ok ip is_ bs_ k = true.
Proof.
  intros Hip His Hbs He k.
  unfold edge_ok in He. rewrite Hip, His, Hbs in He. rewrite forallb_forall in He.
  destruct (leading_phis (b_stmts bs_)) as [phis body] eqn:Elp.
  unfold edge_key_ok at 1.
  destruct (vget (bi_out ip) k) as [n|] eqn:Eo.
  - assert (Hin : In k (map fst (bi_out ip) ++ map fst (bi_in is_) ++ phi_key_list bs_))
      by (apply in_or_app; left; eapply vget_some_in; eauto).
    specialize (He k Hin). unfold edge_key_ok in He. rewrite Eo in He. exact He.
  - rewrite Elp. cbn [fst].
    destruct (find_phi phis k) as [[x args]|] eqn:Ef.
    + assert (Hin : In k (map fst (bi_out ip) ++ map fst (bi_in is_) ++ phi_key_list bs_)).
      { apply in_or_app; right. apply in_or_app; right.
        unfold phi_key_list. rewrite Elp. cbn [fst]. eapply find_phi_key_in; eauto. }
      specialize (He k Hin). unfold edge_key_ok in He. rewrite Eo, Elp in He. cbn [fst] in He. rewrite Ef in He. exact He.
    + destruct (vget (bi_in is_) k) as [n|] eqn:Ei; [|reflexivity].
      assert (Hin : In k (map fst (bi_out ip) ++ map fst (bi_in is_) ++ phi_key_list bs_))
        by (apply in_or_app; right; apply in_or_app; left; eapply vget_some_in; eauto).
      specialize (He k Hin). unfold edge_key_ok in He. rewrite Eo, Elp in He. cbn [fst] in He.
      rewrite Ef, Ei in He. exact He.
Qed.

(* entering s from p: behind the phis the running map is the validator's entry map of s *)
Lemma enter_in_meq p s ip is_ bs_ L phis body :
  nth_error infos p = Some ip -> nth_error infos s = Some is_ -> nth_error (c_blocks c) s = Some bs_ ->
  edge_ok infos (c_blocks c) p s = true -> block_ok is_ bs_ = true -> meq L (bi_out ip) ->
  leading_phis (b_stmts bs_) = (phis, body) -> meq (apply_phis L phis) (bi_in is_).
Proof.
  intros Hip His Hbs He Hblk HL Elp k.
  pose proof (edge_all_keys p s ip is_ bs_ Hip His Hbs He k) as Hall.
  unfold block_ok in Hblk. rewrite Elp in Hblk. apply andb_true_iff in Hblk as [Hnd _].
  rewrite (vget_apply_phis phis L k Hnd).
  unfold edge_key_ok in Hall. rewrite Elp in Hall. cbn [fst] in Hall.
  destruct (find_phi phis k) as [[x args]|].
  - apply andb_true_iff in Hall as [_ Hall]. apply optN_eqb_eq in Hall. symmetry. exact Hall.
  - apply optN_eqb_eq in Hall. rewrite (HL k). exact Hall.
Qed.

(* one step of a walk *)
Lemma walk_step p ip L s tl L' :
  nth_error infos p = Some ip -> meq L (bi_out ip) -> is_walk c p (s :: tl) -> exec_path c L (s :: tl) = Some L' ->
  exists bs_ is_ L1, nth_error (c_blocks c) s = Some bs_ /\ nth_error infos s = Some is_ /\
    edge_ok infos (c_blocks c) p s = true /\ block_ok is_ bs_ = true /\
    enter_block L bs_ = Some L1 /\ meq L1 (bi_out is_) /\ is_walk c s tl /\ exec_path c L1 tl = Some L'.
Proof.
  intros Hip HL Hw Hex. cbn [is_walk] in Hw. destruct Hw as [(bp & Hbp & Hin) Hw].
  pose proof (edge_facts c infos Hok p bp s Hbp Hin (Hidx _ _ Hbp)) as He.
  cbn [exec_path] in Hex. destruct (nth_error (c_blocks c) s) as [bs_|] eqn:Hbs; [|discriminate].
  destruct (block_facts c infos Hok s bs_ Hbs) as (is_ & His & Hblk).
  destruct (enter_step c infos p s ip is_ bs_ L Hip His Hbs He Hblk HL) as (L1 & HL1 & Hm).
  rewrite HL1 in Hex. exists bs_, is_, L1. repeat split; assumption.
Qed.

Lemma walk_end : forall pi p ip L q L',
  nth_error infos p = Some ip -> meq L (bi_out ip) -> is_walk c p (pi ++ [q]) -> exec_path c L (pi ++ [q]) = Some L' ->
  exists iq, nth_error infos q = Some iq /\ meq L' (bi_out iq).
Proof.
  induction pi as [|s tl IH]; intros p ip L q L' Hip HL Hw Hex; cbn [app] in *.
  - destruct (walk_step _ _ _ _ _ _ Hip HL Hw Hex) as (bs_ & is_ & L1 & _ & His & _ & _ & _ & Hm & _ & Hex1).
    cbn [exec_path] in Hex1. inversion Hex1; subst. exists is_. split; assumption.
  - destruct (walk_step _ _ _ _ _ _ Hip HL Hw Hex) as (bs_ & is_ & L1 & _ & His & _ & _ & _ & Hm & Hw1 & Hex1).
    exact (IH s is_ L1 q L' His Hm Hw1 Hex1).
Qed.

(* the entry block *)
Lemma entry_step tl L' : exec_path c (params_map (c_params c)) (0%nat :: tl) = Some L' ->
  exists i0, nth_error infos 0 = Some i0 /\ exec_path c (bi_out i0) tl = Some L'.
Proof.
  intros Hex. destruct (entry_facts c infos Hok Hidx) as (i0 & b0 & Hi0 & Hb0 & Hin0 & Hnophi).
  cbn [exec_path] in Hex. rewrite Hb0 in Hex.
  destruct (block_facts c infos Hok 0 b0 Hb0) as (i0' & Hi0' & Hblk).
  rewrite Hi0 in Hi0'. injection Hi0' as <-.
  unfold block_ok in Hblk. unfold enter_block in Hex.
  destruct (leading_phis (b_stmts b0)) as [phis body] eqn:Elp. cbn [fst] in Hnophi. subst phis.
  cbn [forallb apply_phis fold_left] in Hex.
  apply andb_true_iff in Hblk as [_ Hbody]. rewrite <- Hin0 in Hex.
  destruct (body_run (bi_in i0) body) as [o|] eqn:Ebr; [|discriminate].
  apply vmap_eqb_eq in Hbody. subst o. exists i0. split; [exact Hi0|exact Hex].
Qed.

Theorem path_end_map pi q L :
  path_from_entry c (pi ++ [q]) -> exec_path c (params_map (c_params c)) (pi ++ [q]) = Some L ->
  exists iq, nth_error infos q = Some iq /\ meq L (bi_out iq).
Proof.
  intros Hp Hex. destruct pi as [|[|n] tl]; cbn [app] in *.
  - destruct q as [|q]; [|contradiction]. destruct (entry_step [] L Hex) as (i0 & Hi0 & Hex1).
    cbn [exec_path] in Hex1. inversion Hex1; subst. exists i0. split; [exact Hi0|apply meq_refl].
  - cbn [path_from_entry] in Hp. destruct (entry_step _ L Hex) as (i0 & Hi0 & Hex1).
    exact (walk_end tl 0%nat i0 (bi_out i0) q L Hi0 (meq_refl _) Hp Hex1).
  - contradiction.
Qed.

(* ---- phi arguments ---- *)
Theorem phi_args_arrive j b s x args a :
  phi_args_ok infos c = true -> nth_error (c_blocks c) j = Some b ->
  In s (fst (leading_phis (b_stmts b))) -> phi_parts s = Some (x, args) -> In a args ->
  key_of a = key_of x /\
  exists p, In p (b_preds b) /\
    forall pi L, path_from_entry c (pi ++ [N.to_nat p]) ->
                 exec_path c (params_map (c_params c)) (pi ++ [N.to_nat p]) = Some L ->
                 vget L (key_of x) = vn_version a.
Proof.
  intros Hphi Hb Hs Hp Ha. unfold phi_args_ok in Hphi. rewrite forallb_forall in Hphi.
  specialize (Hphi b (nth_error_In _ _ Hb)). rewrite forallb_forall in Hphi. specialize (Hphi s Hs).
  unfold phi_stmt_args_ok in Hphi. rewrite Hp in Hphi. apply andb_true_iff in Hphi as [Hphi _].
  apply andb_true_iff in Hphi as [_ Hargs]. rewrite forallb_forall in Hargs. specialize (Hargs a Ha).
  apply andb_true_iff in Hargs as [Hk Harr]. apply key_eqb_eq in Hk. split; [exact Hk|].
  unfold arrives in Harr. apply existsb_exists in Harr. destruct Harr as (p & Hpin & Hout).
  exists p. split; [exact Hpin|]. intros pi L Hpath Hex.
  destruct (nth_error infos (N.to_nat p)) as [ip|] eqn:Eip; [|discriminate].
  apply optN_eqb_eq in Hout.
  destruct (path_end_map pi (N.to_nat p) L Hpath Hex) as (iq & Hiq & Hm). rewrite Eip in Hiq. inversion Hiq; subst iq.
  rewrite (Hm (key_of x)). exact Hout.
Qed.

(* ---- fresh bases ---- *)
Lemma body_run_fold : forall ss m m', body_run m ss = Some m' -> m' = fold_left track ss m.
Proof.
  induction ss as [|x tl IH]; intros m m' H; cbn [body_run fold_left] in *; [inversion H; reflexivity|].
  destruct (body_stmt_ok m x); [|discriminate]. exact (IH _ _ H).
Qed.

Lemma fold_track_meq : forall ss a b, meq a b -> meq (fold_left track ss a) (fold_left track ss b).
Proof. induction ss as [|x tl IH]; intros a b H; cbn [fold_left]; [exact H|]. apply IH. apply meq_track. exact H. Qed.

Lemma fresh_bases_body_spec defs w n : forall pre s post m,
  fresh_bases_body defs m (pre ++ s :: post) = true -> update_base s = Some w -> vn_version w = Some n ->
  vget (fold_left track pre m) (key_of w) = None -> ~ In w defs.
Proof.
  induction pre as [|x tl IH]; intros s post m H Hu Hn Hg; cbn [app fresh_bases_body fold_left] in *.
  - apply andb_true_iff in H as [H _]. rewrite Hu, Hn, Hg in H. apply negb_true_iff in H. intros Hin.
    assert (existsb (vname_eqb w) defs = true) by (apply existsb_exists; exists w; split; [exact Hin|apply vname_eqb_refl']).
    congruence.
  - apply andb_true_iff in H as [_ H]. exact (IH s post _ H Hu Hn Hg).
Qed.

Lemma combine_nth {A B} : forall (l : list A) (l' : list B) i x y,
  nth_error l i = Some x -> nth_error l' i = Some y -> In (x, y) (combine l l').
Proof.
  induction l as [|a tl IH]; intros [|b tl'] [|i] x y H1 H2; cbn in *; try discriminate.
  - inversion H1; inversion H2; subst. left. reflexivity.
  - right. eapply IH; eassumption.
Qed.

Lemma is_walk_app : forall pi p q r, is_walk c p (pi ++ [q; r]) ->
  is_walk c p (pi ++ [q]) /\ exists bq, nth_error (c_blocks c) q = Some bq /\ In (N.of_nat r) (b_succs bq).
Proof.
  induction pi as [|s tl IH]; intros p q r H; cbn [app is_walk] in *.
  - destruct H as (H1 & H2 & _). split; [split; [exact H1|exact I]|exact H2].
  - destruct H as (H1 & H2). destruct (IH _ _ _ H2) as (H3 & H4). split; [split; assumption|exact H4].
Qed.

Hypothesis Hfresh : fresh_bases_ok infos c = true.

(* the map in front of the body of the last block of a path is the validator's entry map *)
Lemma path_in_map pi bi b L1 phis body :
  path_from_entry c (pi ++ [bi]) -> exec_path c (params_map (c_params c)) pi = Some L1 ->
  nth_error (c_blocks c) bi = Some b -> leading_phis (b_stmts b) = (phis, body) ->
  exists ib, nth_error infos bi = Some ib /\ meq (apply_phis L1 phis) (bi_in ib).
Proof.
  intros Hp Hpre Hb El. destruct (block_facts c infos Hok bi b Hb) as (ib & Hib & Hblk). exists ib. split; [exact Hib|].
  destruct pi as [|x0 tl0].
  - (* the entry block *)
    cbn [app] in Hp. destruct bi as [|bi]; [|contradiction]. cbn [exec_path] in Hpre. inversion Hpre; subst L1.
    destruct (entry_facts c infos Hok Hidx) as (i0 & b0 & Hi0 & Hb0 & Hin0 & Hnophi).
    rewrite Hb0 in Hb. inversion Hb; subst b0. rewrite Hi0 in Hib. inversion Hib; subst i0.
    rewrite El in Hnophi. cbn [fst] in Hnophi. subst phis. cbn [apply_phis fold_left]. rewrite Hin0. apply meq_refl.
  - destruct (@exists_last _ (x0 :: tl0)) as (pi' & p & Hpi); [discriminate|]. rewrite Hpi in *. clear Hpi x0 tl0.
    rewrite <- app_assoc in Hp. cbn [app] in Hp.
    assert (Hp' : path_from_entry c (pi' ++ [p]) /\ exists bq, nth_error (c_blocks c) p = Some bq /\ In (N.of_nat bi) (b_succs bq)).
    { destruct pi' as [|[|x] tl]; cbn [app path_from_entry] in *.
      - destruct p as [|p]; [|contradiction]. cbn [is_walk] in Hp. destruct Hp as (H1 & _). split; [exact I|exact H1].
      - exact (is_walk_app tl 0%nat p bi Hp).
      - contradiction. }
    destruct Hp' as (Hpp & bq & Hbq & Hin).
    destruct (path_end_map pi' p L1 Hpp Hpre) as (ip & Hip & Hm).
    pose proof (edge_facts c infos Hok p bq bi Hbq Hin (Hidx _ _ Hbq)) as He.
    exact (enter_in_meq p bi ip ib b L1 phis body Hip Hib Hb He Hblk Hm El).
Qed.

Theorem read_defined_strict pi bi b s v n :
  path_from_entry c (pi ++ [bi]) ->
  nth_error (c_blocks c) bi = Some b -> In s (b_stmts b) -> is_phi_stmt s = false ->
  In v (stmt_reads s) -> vn_version v = Some n ->
  (update_base s = Some v /\ ~ In v (all_defs c)) \/
  vget (params_map (c_params c)) (key_of v) = Some n \/
  defined_on c (pi ++ [bi]) (key_of v) n.
Proof.
  intros Hp Hb Hs Hnphi Hv Hn.
  destruct (paths_ok c infos Hok Hidx _ Hp) as [Lf Hex].
  destruct (exec_path_app c pi [bi] _ _ Hex) as (L1 & Hpre & Hlast).
  cbn [exec_path] in Hlast. rewrite Hb in Hlast.
  destruct (enter_block L1 b) as [L2|] eqn:Ee; [|discriminate]. clear Hlast.
  unfold enter_block in Ee. destruct (leading_phis (b_stmts b)) as [phis body] eqn:El.
  destruct (forallb (phi_read_ok L1) phis) eqn:Ephi; [|discriminate].
  pose proof (leading_phis_app _ _ _ El) as Happ.
  assert (Hsb : In s body).
  { rewrite Happ in Hs. apply in_app_or in Hs as [Hs|Hs]; [|exact Hs].
    pose proof (leading_phis_are_phis _ _ _ El) as Hf. rewrite Forall_forall in Hf. specialize (Hf s Hs). congruence. }
  apply in_split in Hsb as (pre & post & Hsplit). rewrite Hsplit in Ee.
  destruct (body_run_split pre s post _ _ Ee) as (m1 & Hm1 & Hok1).
  unfold body_stmt_ok in Hok1. apply andb_true_iff in Hok1 as [_ Hreads]. rewrite forallb_forall in Hreads.
  specialize (Hreads v Hv). unfold read_ok in Hreads. rewrite Hn in Hreads.
  destruct (vget m1 (key_of v)) as [n'|] eqn:Eg.
  - apply N.eqb_eq in Hreads. subst n'. right.
    destruct (body_run_vget _ _ _ _ _ Hm1 Eg) as [H1|(s' & Hin & Hset)].
    + destruct (apply_phis_vget _ _ _ _ H1) as [H2|(s' & Hin & Hset)].
      * destruct (exec_path_vget c pi _ _ _ _ Hpre H2) as [H3|(j & b' & s' & Hj & Hb' & Hs' & Hset)].
        -- left. exact H3.
        -- right. exists j, b', s'. repeat split; auto. apply in_or_app. left. exact Hj.
      * right. exists bi, b, s'. repeat split; auto.
        -- apply in_or_app. right. left. reflexivity.
        -- rewrite Happ. apply in_or_app. left. exact Hin.
    + right. exists bi, b, s'. repeat split; auto.
      * apply in_or_app. right. left. reflexivity.
      * rewrite Happ, Hsplit. apply in_or_app. right. apply in_or_app. left. exact Hin.
  - destruct (update_base s) as [w|] eqn:Eu; [|discriminate]. left.
    apply vname_eqb_true_eq in Hreads. subst w. split; [reflexivity|].
    destruct (path_in_map pi bi b L1 phis body Hp Hpre Hb El) as (ib & Hib & Hmin).
    unfold fresh_bases_ok in Hfresh. rewrite forallb_forall in Hfresh.
    specialize (Hfresh (ib, b) (combine_nth _ _ _ _ _ Hib Hb)). cbn [fst snd] in Hfresh. rewrite El in Hfresh. cbn [snd] in Hfresh.
    rewrite Hsplit in Hfresh.
    apply (fresh_bases_body_spec (all_defs c) v n pre s post (bi_in ib) Hfresh Eu Hn).
    rewrite <- (fold_track_meq pre _ _ Hmin (key_of v)). rewrite <- (body_run_fold _ _ _ Hm1). exact Eg.
Qed.
End Graph.

(* ---------- packaging for ssa_check / ssa_strict ---------- *)
Lemma ssa_check_infos c idom : ssa_check c idom = true ->
  exists infos, compute_infos (c_params c) idom (c_blocks c) [] = Some infos /\ infos_ok infos c = true /\
    forall i b, nth_error (c_blocks c) i = Some b -> b_index b = N.of_nat i.
Proof.
  intros Hc. unfold ssa_check in Hc.
  apply andb_true_iff in Hc as [Hc _]. apply andb_true_iff in Hc as [Hc _].
  apply andb_true_iff in Hc as [Hshape Hinf].
  destruct (compute_infos (c_params c) idom (c_blocks c) []) as [infos|]; [|discriminate].
  exists infos. split; [reflexivity|]. split; [exact Hinf|].
  intros i b Hb. unfold shape_ok in Hshape. repeat (apply andb_true_iff in Hshape as [Hshape ?]).
  exact (indices_ok_nth (c_blocks c) 0 i b Hshape Hb).
Qed.

Lemma ssa_strict_parts c idom : ssa_strict c idom = StrictOk ->
  exists infos, compute_infos (c_params c) idom (c_blocks c) [] = Some infos /\
    phi_args_ok infos c = true /\ fresh_bases_ok infos c = true /\ locals_versioned_ok c = true /\ decl_table_ok c = true.
Proof.
  unfold ssa_strict. destruct (compute_infos (c_params c) idom (c_blocks c) []) as [infos|]; [|discriminate].
  destruct (phi_args_ok infos c) eqn:E1; [|discriminate]. destruct (fresh_bases_ok infos c) eqn:E2; [|discriminate].
  destruct (locals_versioned_ok c) eqn:E3; [|discriminate]. destruct (decl_table_ok c) eqn:E4; [|discriminate].
  intros _. exists infos. repeat split; assumption.
Qed.

Theorem ssa_strict_phi_args_arrive c idom j b s x args a :
  ssa_check c idom = true -> ssa_strict c idom = StrictOk ->
  nth_error (c_blocks c) j = Some b -> In s (fst (leading_phis (b_stmts b))) ->
  phi_parts s = Some (x, args) -> In a args ->
  key_of a = key_of x /\
  exists p, In p (b_preds b) /\
    forall pi L, path_from_entry c (pi ++ [N.to_nat p]) ->
                 exec_path c (params_map (c_params c)) (pi ++ [N.to_nat p]) = Some L ->
                 vget L (key_of x) = vn_version a.
Proof.
  intros Hc Hs. destruct (ssa_check_infos c idom Hc) as (infos & E1 & Hok & Hidx).
  destruct (ssa_strict_parts c idom Hs) as (infos' & E2 & Hphi & _). rewrite E1 in E2. inversion E2; subst infos'.
  exact (phi_args_arrive c infos Hok Hidx j b s x args a Hphi).
Qed.

Theorem ssa_strict_read_defined c idom pi bi b s v n :
  ssa_check c idom = true -> ssa_strict c idom = StrictOk ->
  path_from_entry c (pi ++ [bi]) ->
  nth_error (c_blocks c) bi = Some b -> In s (b_stmts b) -> is_phi_stmt s = false ->
  In v (stmt_reads s) -> vn_version v = Some n ->
  (update_base s = Some v /\ ~ In v (all_defs c)) \/
  vget (params_map (c_params c)) (key_of v) = Some n \/
  defined_on c (pi ++ [bi]) (key_of v) n.
Proof.
  intros Hc Hs. destruct (ssa_check_infos c idom Hc) as (infos & E1 & Hok & Hidx).
  destruct (ssa_strict_parts c idom Hs) as (infos' & E2 & _ & Hfresh & _). rewrite E1 in E2. inversion E2; subst infos'.
  exact (read_defined_strict c infos Hok Hidx Hfresh pi bi b s v n).
Qed.

(* ---------- unfoldings ---------- *)
Lemma locals_versioned_spec c b s v :
  locals_versioned_ok c = true -> In b (c_blocks c) -> In s (b_stmts b) ->
  (In v (stmt_reads s) \/ assigns s = Some v) -> lkey c (key_of v) = true -> vn_version v <> None.
Proof.
  intros H Hb Hs Hv Hk. unfold locals_versioned_ok in H. apply andb_true_iff in H as [_ H].
  rewrite forallb_forall in H. specialize (H b Hb). rewrite forallb_forall in H. specialize (H s Hs).
  unfold stmt_versioned_ok in H. apply andb_true_iff in H as [Hr Ht].
  assert (Hn : name_versioned_ok c v = true).
  { destruct Hv as [Hv|Hv].
    - rewrite forallb_forall in Hr. exact (Hr v Hv).
    - destruct s; try discriminate Hv. cbn in Hv. inversion Hv; subst. exact Ht. }
  unfold name_versioned_ok, versioned_b in Hn. rewrite Hk in Hn. cbn in Hn. destruct (vn_version v); [discriminate|discriminate Hn].
Qed.

Lemma local_key_lkey c k : local_key c k = true -> lkey c k = true.
Proof.
  unfold local_key, lkey. intros H. apply orb_true_iff in H as [H|H].
  - apply existsb_exists in H. destruct H as (d & Hd & H). apply andb_true_iff in H as [H _].
    apply orb_true_iff. left. apply orb_true_iff. left. apply existsb_exists. exists d. split; assumption.
  - apply orb_true_iff. left. apply orb_true_iff. right. exact H.
Qed.

(* the condition of the third audit follows *)
Lemma locals_versioned_unversioned_reads c : locals_versioned_ok c = true -> unversioned_reads_ok c = true.
Proof.
  intros H. unfold unversioned_reads_ok. apply forallb_forall. intros b Hb. apply forallb_forall. intros s Hs.
  apply forallb_forall. intros v Hv. unfold unversioned_read_ok. destruct (vn_version v) eqn:Ev; [reflexivity|].
  apply negb_true_iff. destruct (local_key c (key_of v)) eqn:Ek; [|reflexivity]. exfalso.
  exact (locals_versioned_spec c b s v H Hb Hs (or_introl Hv) (local_key_lkey _ _ Ek) Ev).
Qed.

Lemma vtype_eqb_eq a b : vtype_eqb a b = true -> a = b.
Proof. destruct a, b; try discriminate; reflexivity. Qed.

Lemma entry_eqb_eq a b : entry_eqb a b = true -> a = b.
Proof.
  unfold entry_eqb. intros H. apply andb_true_iff in H as [H1 H2]. apply vname_eqb_true_eq in H1. apply vtype_eqb_eq in H2.
  destruct a, b; cbn in *; subst; reflexivity.
Qed.

Lemma decl_table_spec c : decl_table_ok c = true ->
  (forall e, In e (stmt_entries c) -> In e (c_decls c)) /\
  (forall p, In p (c_params c) -> In (p, TLocal) (c_decls c)) /\
  (forall d, In d (c_decls c) ->
     In d (stmt_entries c) \/
     (snd d = TLocal /\ (exists p, In p (c_params c) /\ key_of p = key_of (fst d)) /\
      (vn_version (fst d) = Some 0%N \/ In (fst d) (all_defs c)))).
Proof.
  intros H. unfold decl_table_ok in H. apply andb_true_iff in H as [H1 H2]. rewrite forallb_forall in H1, H2.
  split; [|split].
  - intros e He. specialize (H1 e (in_or_app _ _ _ (or_introl He))). apply existsb_exists in H1.
    destruct H1 as (d & Hd & E). apply entry_eqb_eq in E. subst. exact Hd.
  - intros p Hp. assert (Hin : In (p, TLocal) (stmt_entries c ++ map (fun p => (p, TLocal)) (c_params c))).
    { apply in_or_app. right. apply in_map_iff. exists p. split; [reflexivity|exact Hp]. }
    specialize (H1 _ Hin). apply existsb_exists in H1. destruct H1 as (d & Hd & E). apply entry_eqb_eq in E. subst. exact Hd.
  - intros d Hd. specialize (H2 d Hd). apply orb_true_iff in H2 as [H2|H2].
    + left. apply existsb_exists in H2. destruct H2 as (e & He & E). apply entry_eqb_eq in E. subst. exact He.
    + right. unfold param_entry_ok in H2. apply andb_true_iff in H2 as [H2 Hv]. apply andb_true_iff in H2 as [Ht Hp].
      split; [apply vtype_eqb_eq; exact Ht|]. split.
      * apply existsb_exists in Hp. destruct Hp as (p & Hp & E). apply key_eqb_eq in E. exists p. split; assumption.
      * destruct (vn_version (fst d)) as [n|]; [|discriminate]. apply orb_true_iff in Hv as [Hv|Hv].
        -- left. apply N.eqb_eq in Hv. subst. reflexivity.
        -- right. apply existsb_exists in Hv. destruct Hv as (w & Hw & E). apply vname_eqb_true_eq in E. subst. exact Hw.
Qed.
