(* The desugarer computes exactly the specified expansion (C18): at the level
   of options -- an error report is a rejection -- the two passes of
   remove_syntactic_sugar composed equal Spec.ExpandSpec.expand_spec, with the
   implementation's naming scheme for the introduced components and counters.
   Hence refinement (accepted output = expand_spec) and exactness of errors. *)
From Coq Require Import ZArith NArith List Bool String Lia.
Require Import Model.Ast Model.Desugar Spec.ExpandSpec Proofs.DesugarProofs Proofs.DesugarMetas Proofs.DesugarTotal.
Import ListNotations.
Local Open Scope list_scope.


Definition to_opt {A} (r : dres A) : option A := match r with DOk a => Some a | _ => None end.
Definition obind {A B} (o : option A) (f : A -> option B) : option B :=
  match o with Some a => f a | None => None end.
Definition mapO {A B} (f : A -> option B) (l : list A) : option (list B) := all_some (map f l).

Lemma to_opt_dbind : forall {A B} (m : dres A) (f : A -> dres B),
  to_opt (dbind m f) = obind (to_opt m) (fun a => to_opt (f a)).
Proof. intros A B [a|r|s|] f; reflexivity. Qed.

Lemma to_opt_fail : forall {A} c m msg, to_opt (@fail A c m msg) = None.
Proof. intros. unfold fail, mk_report. destruct (m_file m); reflexivity. Qed.

Lemma obind_assoc : forall {A B C} (o : option A) (f : A -> option B) (g : B -> option C),
  obind (obind o f) g = obind o (fun a => obind (f a) g).
Proof. intros A B C [a|] f g; reflexivity. Qed.

Lemma obind_ext : forall {A B} (o : option A) (f g : A -> option B),
  (forall a, o = Some a -> f a = g a) -> obind o f = obind o g.
Proof. intros A B [a|] f g H; simpl; auto. Qed.

Lemma option_map_obind : forall {A B} (f : A -> B) (o : option A),
  option_map f o = obind o (fun a => Some (f a)).
Proof. intros A B f [a|]; reflexivity. Qed.

Lemma all_some_app : forall {A} (a b : list (option A)),
  all_some (a ++ b) = obind (all_some a) (fun x => option_map (app x) (all_some b)).
Proof.
  induction a as [|[x|] a IH]; intros b; simpl.
  - destruct (all_some b); reflexivity.
  - rewrite IH. destruct (all_some a); simpl; [|reflexivity]. destruct (all_some b); reflexivity.
  - reflexivity.
Qed.

Lemma mapO_app : forall {A B} (f : A -> option B) a b,
  mapO f (a ++ b) = obind (mapO f a) (fun x => option_map (app x) (mapO f b)).
Proof. intros. unfold mapO. rewrite map_app. apply all_some_app. Qed.

Lemma mapO_cons : forall {A B} (f : A -> option B) x l,
  mapO f (x :: l) = obind (f x) (fun y => option_map (cons y) (mapO f l)).
Proof. intros. unfold mapO. simpl. destruct (f x); reflexivity. Qed.

Lemma mapO_nil : forall {A B} (f : A -> option B), mapO f [] = Some [].
Proof. reflexivity. Qed.

Lemma mapO_length : forall {A B} (f : A -> option B) l r, mapO f l = Some r -> List.length r = List.length l.
Proof.
  induction l as [|x l IH]; intros r H.
  - inversion H; reflexivity.
  - rewrite mapO_cons in H. destruct (f x); [|discriminate]. simpl in H.
    destruct (mapO f l) eqn:E; [|discriminate]. inversion H; subst. simpl. f_equal. apply IH; auto.
Qed.

Lemma mapO_ext : forall {A B} (f g : A -> option B) l,
  Forall (fun x => f x = g x) l -> mapO f l = mapO g l.
Proof.
  induction 1; [reflexivity|]. rewrite !mapO_cons, H, IHForall. reflexivity.
Qed.

Lemma mapO_In : forall {A B} (f : A -> option B) l r x, mapO f l = Some r -> In x l -> exists y, f x = Some y /\ In y r.
Proof.
  induction l as [|a l IH]; intros r x H Hin; [destruct Hin|].
  rewrite mapO_cons in H. destruct (f a) eqn:Ea; [|discriminate]. simpl in H.
  destruct (mapO f l) eqn:E; [|discriminate]. inversion H; subst.
  destruct Hin as [<-|Hin]; [eexists; split; eauto; left; auto|].
  destruct (IH _ _ eq_refl Hin) as (y & Hy & Hiy). exists y. split; auto. right; auto.
Qed.

Lemma rts_list_opt : forall (f : statement -> dres statement) l acc,
  to_opt (rts_list f l acc) = option_map (app acc) (mapO (fun s => to_opt (f s)) l).
Proof.
  intros f. induction l as [|s l IH]; intros acc; simpl.
  - rewrite app_nil_r. reflexivity.
  - rewrite to_opt_dbind, mapO_cons. destruct (to_opt (f s)); simpl; [|reflexivity].
    rewrite IH. destruct (mapO _ l); simpl; [|reflexivity]. rewrite <- app_assoc. reflexivity.
Qed.

Lemma ras_list_opt : forall (f : statement -> dres (statement * list statement)) l ns ds,
  to_opt (ras_list f l ns ds) =
  option_map (fun rs => (ns ++ map fst rs, ds ++ flat_map snd rs)) (mapO (fun s => to_opt (f s)) l).
Proof.
  intros f. induction l as [|s l IH]; intros ns ds; simpl.
  - rewrite !app_nil_r. reflexivity.
  - rewrite to_opt_dbind, mapO_cons. destruct (to_opt (f s)) as [[s1 d1]|]; simpl; [|reflexivity].
    rewrite IH. destruct (mapO _ l); simpl; [|reflexivity]. rewrite <- !app_assoc. reflexivity.
Qed.

Definition vals_of (e : expression) : list expression :=
  match e with Tuple _ vs => vs | _ => [e] end.

Lemma unfold_values_opt : forall results acc,
  to_opt (unfold_values results acc) =
  option_map (fun vs => acc ++ flat_map vals_of vs) (all_some (map to_opt results)).
Proof.
  induction results as [|r rest IH]; intros acc; simpl.
  - rewrite app_nil_r. reflexivity.
  - rewrite to_opt_dbind. destruct (to_opt r) as [v|]; simpl; [|reflexivity].
    assert (E : to_opt (match v with Tuple _ inner => unfold_values rest (acc ++ inner)
                                     | _ => unfold_values rest (acc ++ [v]) end)
                = to_opt (unfold_values rest (acc ++ vals_of v))) by (destruct v; reflexivity).
    rewrite E, IH. destruct (all_some _); simpl; [|reflexivity]. rewrite <- app_assoc. reflexivity.
Qed.

Lemma collect_tuple_opt : forall results a b c,
  to_opt (collect_tuple results a b c) =
  option_map (fun ts => (a ++ flat_map (fun t => fst (fst t)) ts, b ++ flat_map (fun t => snd (fst t)) ts,
                         c ++ map snd ts))
             (all_some (map to_opt results)).
Proof.
  induction results as [|r rest IH]; intros a b c; simpl.
  - rewrite !app_nil_r. reflexivity.
  - rewrite to_opt_dbind. destruct (to_opt r) as [[[st nd] v]|]; simpl; [|reflexivity].
    rewrite IH. destruct (all_some _); simpl; [|reflexivity]. rewrite <- !app_assoc. reflexivity.
Qed.


Lemma forallb_negb_existsb : forall {A} (p q : A -> bool) l,
  forallb (fun x => negb (p x) && negb (q x)) l = negb (existsb q l) && negb (existsb p l).
Proof.
  induction l as [|x l IH]; simpl; [reflexivity|]. rewrite IH.
  destruct (p x), (q x), (existsb q l), (existsb p l); reflexivity.
Qed.

Lemma plain_spec : forall e, plain e = negb (contains_anon e) && negb (contains_tuple e).
Proof.
  intros e. unfold plain, contains_anon, contains_tuple. rewrite !contains_expr_existsb.
  apply forallb_negb_existsb.
Qed.

Lemma find_match : forall {A B} (p : A -> bool) l (f : A -> B) (b : B),
  (forall x y, f x = f y) ->
  match find p l with Some v => f v | None => b end =
  if existsb p l then match find p l with Some v => f v | None => b end else b.
Proof.
  intros A B p l f b _. destruct (find p l) eqn:E.
  - apply find_some in E. destruct E as [Hin Hp].
    assert (existsb p l = true) by (apply existsb_exists; eauto). rewrite H. reflexivity.
  - destruct (existsb p l); reflexivity.
Qed.

Lemma find_none_existsb : forall {A} (p : A -> bool) l, find p l = None <-> existsb p l = false.
Proof. intros. rewrite find_none_Forall, existsb_false_Forall. tauto. Qed.

Lemma contains_list : forall m (f : meta -> list expression -> expression) mm vs,
  (forall mm vs, m (f mm vs) = false) ->
  (forall mm vs, sub_exprs (f mm vs) = f mm vs :: flat_map sub_exprs vs) ->
  contains_expr m (f mm vs) = existsb (contains_expr m) vs.
Proof.
  intros m f mm vs H1 H2. rewrite contains_expr_existsb, H2. simpl. rewrite H1. simpl.
  rewrite existsb_flat_map. apply existsb_ext_Forall. apply Forall_forall. intros x _.
  symmetry. apply contains_expr_existsb.
Qed.

Lemma ce_infix : forall m mm l o r, m (InfixOp mm l o r) = false ->
  contains_expr m (InfixOp mm l o r) = contains_expr m l || contains_expr m r.
Proof. intros m mm l o r H. simpl. rewrite H. destruct (contains_expr m l), (contains_expr m r); reflexivity. Qed.
Lemma ce_prefix : forall m mm o r, m (PrefixOp mm o r) = false ->
  contains_expr m (PrefixOp mm o r) = contains_expr m r.
Proof. intros m mm o r H. simpl. rewrite H. reflexivity. Qed.
Lemma ce_switch : forall m mm c t f, m (InlineSwitchOp mm c t f) = false ->
  contains_expr m (InlineSwitchOp mm c t f) = contains_expr m c || contains_expr m t || contains_expr m f.
Proof.
  intros m mm c t f H. simpl. rewrite H.
  destruct (contains_expr m c), (contains_expr m t), (contains_expr m f); reflexivity.
Qed.
Lemma ce_par : forall m mm r, m (ParallelOp mm r) = false ->
  contains_expr m (ParallelOp mm r) = contains_expr m r.
Proof. intros m mm r H. simpl. rewrite H. reflexivity. Qed.

Definition sugar_top (e : expression) : bool :=
  match e with
  | Tuple _ _ | AnonymousComponent _ _ _ _ _ _ => true
  | ParallelOp _ (AnonymousComponent _ _ _ _ _ _) => true
  | _ => false
  end.

Definition ok0 (e : expression) : option (list statement * list statement * expression) := Some ([], [], e).

Lemma rae_plain_opt : forall env lib va e, sugar_top e = false ->
  to_opt (remove_anonymous_from_expression env lib va e) = if contains_anon e then None else ok0 e.
Proof.
  intros env lib va e Hs. destruct e; try discriminate Hs; cbn [remove_anonymous_from_expression].
  - unfold contains_anon. rewrite ce_infix by reflexivity.
    destruct (contains_expr _ e1), (contains_expr _ e2); simpl; rewrite ?to_opt_fail; reflexivity.
  - unfold contains_anon. rewrite ce_prefix by reflexivity.
    destruct (contains_expr _ e); simpl; rewrite ?to_opt_fail; reflexivity.
  - unfold contains_anon. rewrite ce_switch by reflexivity.
    destruct (contains_expr _ e1), (contains_expr _ e2), (contains_expr _ e3); simpl; rewrite ?to_opt_fail; reflexivity.
  - (* ParallelOp, not an anonymous component *)
    unfold contains_anon. rewrite ce_par by reflexivity.
    remember (contains_expr is_anonymous_component e) as c eqn:Ec. clear Ec.
    destruct e; try discriminate Hs; destruct c; simpl; rewrite ?to_opt_fail; reflexivity.
  - destruct (contains_anon (Variable_ m name acc)); rewrite ?to_opt_fail; reflexivity.
  - reflexivity.
  - unfold first_such.
    assert (E : contains_anon (Call m id args) = existsb contains_anon args).
    { unfold contains_anon. apply (contains_list _ (fun mm vs => Call mm id vs)); reflexivity. }
    rewrite E. destruct (find contains_anon args) eqn:Ef.
    + apply find_some in Ef. destruct Ef. assert (existsb contains_anon args = true) by (apply existsb_exists; eauto).
      rewrite H1, to_opt_fail. reflexivity.
    + apply find_none_existsb in Ef. rewrite Ef. reflexivity.
  - unfold first_such.
    assert (E : contains_anon (ArrayInLine m values) = existsb contains_anon values).
    { unfold contains_anon. apply (contains_list _ ArrayInLine); reflexivity. }
    rewrite E. destruct (find contains_anon values) eqn:Ef.
    + apply find_some in Ef. destruct Ef. assert (existsb contains_anon values = true) by (apply existsb_exists; eauto).
      rewrite H1, to_opt_fail. reflexivity.
    + apply find_none_existsb in Ef. rewrite Ef. reflexivity.
Qed.

Lemma rte_plain_opt : forall e, is_tuple e = false -> is_anonymous_component e = false ->
  to_opt (remove_tuple_from_expression e) = if contains_tuple e then None else Some e.
Proof.
  intros e Ht Ha. destruct e; try discriminate; cbn [remove_tuple_from_expression].
  - unfold contains_tuple. rewrite ce_infix by reflexivity.
    destruct (contains_expr _ e1), (contains_expr _ e2); simpl; rewrite ?to_opt_fail; reflexivity.
  - unfold contains_tuple. rewrite ce_prefix by reflexivity.
    destruct (contains_expr _ e); simpl; rewrite ?to_opt_fail; reflexivity.
  - unfold contains_tuple. rewrite ce_switch by reflexivity.
    destruct (contains_expr _ e1), (contains_expr _ e2), (contains_expr _ e3); simpl; rewrite ?to_opt_fail; reflexivity.
  - unfold contains_tuple. rewrite ce_par by reflexivity.
    destruct (contains_expr _ e); simpl; rewrite ?to_opt_fail; reflexivity.
  - destruct (contains_tuple (Variable_ m name acc)); rewrite ?to_opt_fail; reflexivity.
  - reflexivity.
  - assert (E : contains_tuple (Call m id args) = existsb contains_tuple args).
    { unfold contains_tuple. apply (contains_list _ (fun mm vs => Call mm id vs)); reflexivity. }
    rewrite E. destruct (existsb contains_tuple args); rewrite ?to_opt_fail; reflexivity.
  - assert (E : contains_tuple (ArrayInLine m values) = existsb contains_tuple values).
    { unfold contains_tuple. apply (contains_list _ ArrayInLine); reflexivity. }
    rewrite E. destruct (existsb contains_tuple values); rewrite ?to_opt_fail; reflexivity.
Qed.


Lemma mapO_flat_map : forall {A B C} (f : B -> option C) (g : A -> list B) l,
  mapO f (flat_map g l) = option_map (@List.concat C) (mapO (fun x => mapO f (g x)) l).
Proof.
  induction l as [|x l IH]; simpl; [reflexivity|].
  rewrite mapO_app, IH, mapO_cons. destruct (mapO f (g x)); simpl; [|reflexivity].
  destruct (mapO _ l); reflexivity.
Qed.

Lemma position_index_of : forall name names, position name names = index_of name names.
Proof.
  induction names as [|n names IH]; simpl; [reflexivity|].
  destruct (String.eqb n name); [reflexivity|]. rewrite IH. destruct (index_of name names); reflexivity.
Qed.

Lemma select_named_opt : forall m inputs names operators n sel,
  to_opt (select_named m inputs names operators n sel) =
  option_map (app sel)
    (mapO (fun inp : string * nat =>
             obind (position (fst inp) names)
                   (fun pos => if (pos <? n)%nat then option_map (pair pos) (nth_error operators pos) else None))
          inputs).
Proof.
  intros m inputs names operators n. induction inputs as [|inp rest IH]; intros sel; simpl.
  - rewrite app_nil_r. reflexivity.
  - rewrite mapO_cons. destruct (position (fst inp) names) as [pos|]; simpl; [|apply to_opt_fail].
    destruct (pos <? n)%nat; [|reflexivity].
    destruct (nth_error operators pos) as [o|]; simpl; [|reflexivity].
    rewrite IH. destruct (mapO _ rest); simpl; [|reflexivity]. rewrite <- app_assoc. reflexivity.
Qed.

Section AI.
  Variable va : option expression.
  Variable m : meta.
  Variable c : string.
  Variable results : list (dres (list statement * list statement * expression)).
  Variable sel : list (nat * assign_op).

  Definition feedI (ki : nat * (string * nat)) : option (list statement * list statement) :=
    let '(k, inp) := ki in
    obind (nth_error sel k) (fun po =>
    obind (nth_error results (fst po)) (fun r =>
    obind (to_opt r) (fun t =>
      let '(st, nd, ne) := t in
      if contains_anon ne then None
      else Some (st ++ [Substitution m c (acc_prefix va ++ [ComponentAccess (fst inp)]) (snd po) ne], nd)))).

  Lemma assign_inputs_opt : forall inputs i ss ds,
    to_opt (assign_inputs va m c results sel inputs i ss ds) =
    option_map (fun fed => (ss ++ flat_map fst fed, ds ++ flat_map snd fed))
               (mapO feedI (combine (seq i (List.length inputs)) inputs)).
  Proof.
    induction inputs as [|inp rest IH]; intros i ss ds; simpl.
    - rewrite !app_nil_r. reflexivity.
    - rewrite mapO_cons. unfold feedI at 1.
      destruct (nth_error sel i) as [[pos o]|]; simpl; [|reflexivity].
      destruct (nth_error results pos) as [r|]; simpl; [|reflexivity].
      rewrite to_opt_dbind. destruct (to_opt r) as [[[st nd] ne]|]; simpl; [|reflexivity].
      destruct (contains_anon ne); [apply to_opt_fail|].
      rewrite IH. destruct (mapO feedI _); simpl; [|reflexivity].
      rewrite <- !app_assoc. reflexivity.
  Qed.
End AI.


Definition name_opt (lib : file_library) (prefix : string) (m : meta) : option string :=
  to_opt (gen_name lib prefix m).

Definition va_form (va : option expression) : Prop :=
  va = None \/ exists m k, va = Some (Variable_ m k []).

Definition rtsO (s : statement) : option statement := to_opt (remove_tuples_from_statement s).

(* ---- generated names are never `_` ---- *)
Lemma append_nonempty : forall a b, b <> EmptyString -> (a ++ b)%string <> EmptyString.
Proof. intros a b H. destruct a; simpl; [exact H | discriminate]. Qed.

Lemma underscore_name : forall p x, x <> EmptyString -> String.eqb (p ++ "_" ++ x)%string "_" = false.
Proof.
  intros p x Hx. apply String.eqb_neq. destruct p as [|a p]; simpl.
  - intros E. inversion E. contradiction.
  - intros E. inversion E. destruct p; discriminate.
Qed.

Lemma gen_name_not_underscore : forall lib p m c, gen_name lib p m = DOk c -> String.eqb c "_" = false.
Proof.
  intros lib p m c H. unfold gen_name in H. destruct (m_file m); [|discriminate].
  destruct (get_line lib (m_start m) n); [|discriminate]. inversion H; subst.
  apply underscore_name. apply append_nonempty. discriminate.
Qed.

(* ---- pass 2 on generated statements ---- *)
Lemma rtsO_block : forall m l, rtsO (Block m l) = option_map (Block m) (mapO rtsO l).
Proof.
  intros. unfold rtsO. cbn [remove_tuples_from_statement]. rewrite to_opt_dbind, rts_list_opt. simpl.
  destruct (mapO _ l); reflexivity.
Qed.

Lemma rtsO_init : forall m t l, rtsO (InitializationBlock m t l) = option_map (InitializationBlock m t) (mapO rtsO l).
Proof.
  intros. unfold rtsO. cbn [remove_tuples_from_statement]. rewrite to_opt_dbind, rts_list_opt. simpl.
  destruct (mapO _ l); reflexivity.
Qed.

Definition acc_tuple_free (acc : list access) : bool :=
  negb (existsb (fun a => match a with ArrayAccess i => contains_tuple i | ComponentAccess _ => false end) acc).

Lemma access_first_such_existsb : forall p acc,
  match access_first_such p acc with Some _ => true | None => false end =
  existsb (fun a => match a with ArrayAccess i => p i | ComponentAccess _ => false end) acc.
Proof.
  intros p acc. unfold access_first_such.
  destruct (find _ acc) as [a|] eqn:Ef.
  - apply find_some in Ef. destruct Ef as [Hin Hp]. destruct a; [discriminate|].
    symmetry. apply existsb_exists. eauto.
  - apply find_none_existsb in Ef. rewrite Ef. reflexivity.
Qed.

Lemma rtsO_sub : forall m v acc o e,
  rtsO (Substitution m v acc o e) =
  obind (to_opt (remove_tuple_from_expression e)) (fun e2 =>
    if is_tuple e2 then None
    else if acc_tuple_free acc
         then Some (if String.eqb v "_" then Block m [] else Substitution m v acc o e2)
         else None).
Proof.
  intros. unfold rtsO, acc_tuple_free. cbn [remove_tuples_from_statement]. rewrite to_opt_dbind.
  destruct (to_opt (remove_tuple_from_expression e)) as [e2|]; simpl; [|reflexivity].
  destruct (is_tuple e2); [apply to_opt_fail|].
  rewrite <- access_first_such_existsb.
  destruct (access_first_such contains_tuple acc); simpl; [apply to_opt_fail|].
  destruct (String.eqb v "_"); reflexivity.
Qed.

Lemma acc_prefix_tuple_free : forall va x, va_form va ->
  acc_tuple_free (acc_prefix va ++ x) = acc_tuple_free x.
Proof.
  intros va x [->|(m & k & ->)]; unfold acc_tuple_free; simpl; reflexivity.
Qed.

Lemma rte_var_plain : forall m c acc, acc_tuple_free acc = true ->
  to_opt (remove_tuple_from_expression (Variable_ m c acc)) = Some (Variable_ m c acc).
Proof.
  intros m c acc H.
  assert (E : contains_tuple (Variable_ m c acc) = false).
  { unfold contains_tuple. simpl. rewrite access_fold_existsb. unfold acc_tuple_free in H.
    apply negb_true_iff in H. exact H. }
  rewrite rte_plain_opt; [rewrite E; reflexivity | reflexivity | reflexivity].
Qed.

Lemma all_some_map_Some : forall {A} (l : list A), all_some (map Some l) = Some l.
Proof. induction l; simpl; [reflexivity|]. rewrite IHl. reflexivity. Qed.

Lemma rte_out_tuple : forall m (outs : list expression),
  Forall (fun o => to_opt (remove_tuple_from_expression o) = Some o /\ is_tuple o = false) outs ->
  to_opt (remove_tuple_from_expression (Tuple m outs)) = Some (Tuple m outs).
Proof.
  intros m outs H. cbn [remove_tuple_from_expression]. rewrite to_opt_dbind, unfold_values_opt.
  assert (E : map to_opt (map remove_tuple_from_expression outs) = map Some outs).
  { induction H; simpl; [reflexivity|]. destruct H as [-> _]. rewrite IHForall. reflexivity. }
  rewrite E, all_some_map_Some. simpl.
  assert (F : flat_map vals_of outs = outs).
  { clear E. induction H; simpl; [reflexivity|]. destruct H as [_ Ht]. rewrite IHForall.
    destruct x; simpl in *; try discriminate Ht; reflexivity. }
  rewrite F. reflexivity.
Qed.

(* stage fusion: run [f] on all elements, then [g] on all produced statements
   = run [f] then [g] element by element *)
Lemma fuse : forall {X S S' D} (f : X -> option (list S * list D)) (g : S -> option S') L,
  obind (mapO f L) (fun fed => option_map (fun s2 => (s2, flat_map snd fed)) (mapO g (flat_map fst fed))) =
  option_map (fun fed' => (flat_map fst fed', flat_map snd fed'))
    (mapO (fun x => obind (f x) (fun sd => option_map (fun s2 => (s2, snd sd)) (mapO g (fst sd)))) L).
Proof.
  induction L as [|x L IH]; [reflexivity|].
  rewrite !mapO_cons. destruct (f x) as [[sts d]|]; [|reflexivity].
  cbn [obind fst snd].
  remember (mapO f L) as F eqn:EF. remember (mapO (fun x0 => obind (f x0) (fun sd => option_map (fun s2 => (s2, snd sd)) (mapO g (fst sd)))) L) as G eqn:EG.
  clear EF EG. destruct F as [fed|]; cbn [obind option_map flat_map fst snd] in *.
  - rewrite mapO_app. destruct (mapO g sts) as [a|]; cbn [obind option_map]; [|reflexivity].
    destruct (mapO g (flat_map fst fed)) as [b|]; destruct G as [g'|]; cbn [obind option_map flat_map fst snd] in *;
      try discriminate IH; [|reflexivity].
    inversion IH; subst. reflexivity.
  - destruct G; [discriminate IH|]. destruct (mapO g sts); reflexivity.
Qed.


Lemma all_some_map_option_map : forall {A B C} (f : B -> C) (g : A -> option B) l,
  all_some (map (fun x => option_map f (g x)) l) = option_map (map f) (mapO g l).
Proof.
  induction l as [|x l IH]; simpl; [reflexivity|]. unfold mapO in *. simpl.
  destruct (g x); simpl; [|reflexivity]. rewrite IH. destruct (all_some (map g l)); reflexivity.
Qed.


Lemma in_combine_seq : forall {A} (l : list A) i k x,
  In (k, x) (combine (seq i (List.length l)) l) -> nth_error l (k - i) = Some x /\ i <= k.
Proof.
  induction l as [|a l IH]; intros i k x H; simpl in H; [destruct H|].
  destruct H as [H|H].
  - inversion H; subst. rewrite Nat.sub_diag. split; [reflexivity | lia].
  - destruct (IH _ _ _ H) as [H1 H2]. split; [|lia].
    replace (k - i) with (S (k - S i)) by lia. exact H1.
Qed.

Lemma in_combine_seq_ex : forall {A} (l : list A) i x,
  In x l -> exists k, In (k, x) (combine (seq i (List.length l)) l).
Proof.
  induction l as [|a l IH]; intros i x H; [destruct H|]. simpl.
  destruct H as [<-|H]; [exists i; left; reflexivity|].
  destruct (IH (S i) x H) as [k Hk]. exists k. right. exact Hk.
Qed.

Lemma mapO_nth : forall {A B} (f : A -> option B) l r k x,
  mapO f l = Some r -> nth_error l k = Some x -> exists y, nth_error r k = Some y /\ f x = Some y.
Proof.
  induction l as [|a l IH]; intros r k x H Hk; [destruct k; discriminate|].
  rewrite mapO_cons in H. destruct (f a) as [b|] eqn:Ea; [|discriminate]. cbn [obind] in H.
  destruct (mapO f l) as [r'|] eqn:El; [|discriminate]. inversion H; subst.
  destruct k; simpl in *.
  - inversion Hk; subst. eauto.
  - eapply IH; eauto.
Qed.

Lemma mapO_none_ex : forall {A B} (f : A -> option B) l,
  mapO f l = None -> exists x, In x l /\ f x = None.
Proof.
  induction l as [|a l IH]; intros H; [discriminate|].
  rewrite mapO_cons in H. destruct (f a) eqn:Ea; [|exists a; split; [left; auto | auto]].
  cbn [obind] in H. destruct (mapO f l) eqn:El; [discriminate|].
  destruct (IH eq_refl) as (x & Hx & Hfx). exists x. split; [right; auto | auto].
Qed.

Lemma mapO_has_none : forall {A B} (f : A -> option B) l x, In x l -> f x = None -> mapO f l = None.
Proof.
  induction l as [|a l IH]; intros x Hin Hf; [destruct Hin|].
  rewrite mapO_cons. destruct Hin as [<-|Hin]; [rewrite Hf; reflexivity|].
  destruct (f a); [|reflexivity]. cbn [obind]. rewrite (IH _ Hin Hf). reflexivity.
Qed.


Lemma forallb_plain_spec : forall ps,
  forallb plain ps = negb (existsb contains_anon ps) && negb (existsb contains_tuple ps).
Proof.
  induction ps as [|p ps IH]; [reflexivity|]. simpl. rewrite IH, plain_spec.
  destruct (contains_anon p), (contains_tuple p), (existsb contains_anon ps), (existsb contains_tuple ps); reflexivity.
Qed.

Lemma combine_seq_map : forall {A B} (f : A -> B) (l : list A) i,
  combine (seq i (List.length (map f l))) (map f l) =
  map (fun ki => (fst ki, f (snd ki))) (combine (seq i (List.length l)) l).
Proof.
  induction l as [|a l IH]; intros i; [reflexivity|]. simpl. rewrite IH. reflexivity.
Qed.


Lemma obind_comm : forall {A B C} (a : option A) (b : option B) (f : A -> B -> option C),
  obind a (fun x => obind b (fun y => f x y)) = obind b (fun y => obind a (fun x => f x y)).
Proof. intros A B C [x|] [y|] f; reflexivity. Qed.

Lemma fuse2 : forall {X S S' D} (f : X -> option (S * list D)) (g : S -> option S') L,
  obind (mapO f L) (fun rs => option_map (fun ns2 => (ns2, flat_map snd rs)) (mapO g (map fst rs))) =
  option_map (fun cs => (map fst cs, flat_map snd cs))
    (mapO (fun x => obind (f x) (fun sd => option_map (fun s2 => (s2, snd sd)) (g (fst sd)))) L).
Proof.
  induction L as [|x L IH]; [reflexivity|].
  rewrite !mapO_cons. destruct (f x) as [[s1 d]|]; [|reflexivity]. cbn [obind fst snd].
  remember (mapO f L) as F eqn:EF.
  remember (mapO (fun x0 => obind (f x0) (fun sd => option_map (fun s2 => (s2, snd sd)) (g (fst sd)))) L) as G eqn:EG.
  clear EF EG. destruct F as [rs|]; cbn [obind option_map map flat_map fst snd] in *.
  - rewrite mapO_cons. destruct (g s1) as [s2|]; cbn [obind option_map]; [|reflexivity].
    destruct (mapO g (map fst rs)) as [b|]; destruct G as [g'|]; cbn [obind option_map map flat_map fst snd] in *;
      try discriminate IH; [|reflexivity].
    inversion IH; subst. reflexivity.
  - destruct G; [discriminate IH|]. destruct (g s1); reflexivity.
Qed.


Definition LVe (r : option expression) : option (list expression) :=
  obind r (fun v2 => if forallb is_variable (vals_of v2) then Some (vals_of v2) else None).

Lemma lvalues_list : forall vs,
  Forall (fun v => LVe (to_opt (remove_tuple_from_expression v)) = lvalues v) vs ->
  option_map (@List.concat _) (all_some (map lvalues vs)) =
  obind (mapO (fun v => to_opt (remove_tuple_from_expression v)) vs)
        (fun rs => if forallb is_variable (flat_map vals_of rs) then Some (flat_map vals_of rs) else None).
Proof.
  induction 1 as [|v vs Hv Hvs IH]; [reflexivity|].
  rewrite mapO_cons. cbn [map all_some]. rewrite <- Hv. unfold LVe at 1.
  destruct (to_opt (remove_tuple_from_expression v)) as [r|]; cbn [obind]; [|reflexivity].
  destruct (mapO _ vs) as [rs|]; cbn [obind option_map flat_map] in *.
  - rewrite forallb_app. destruct (forallb is_variable (vals_of r)); cbn [andb].
    + destruct (all_some (map lvalues vs)) as [ls|]; cbn [option_map] in *.
      * destruct (forallb is_variable (flat_map vals_of rs)); inversion IH; subst; reflexivity.
      * destruct (forallb is_variable (flat_map vals_of rs)); [discriminate IH | reflexivity].
    + reflexivity.
  - destruct (forallb is_variable (vals_of r)); [|reflexivity].
    destruct (all_some (map lvalues vs)); [discriminate IH | reflexivity].
Qed.

Lemma lvalues_rte : forall v, NA v -> LVe (to_opt (remove_tuple_from_expression v)) = lvalues v.
Proof.
  induction v using expression_ind'; intros Hna;
    try (rewrite rte_plain_opt by reflexivity; unfold LVe;
         match goal with |- context [contains_tuple ?e] => destruct (contains_tuple e) end; reflexivity).
  - (* Variable *)
    rewrite rte_plain_opt by reflexivity. cbn [lvalues]. rewrite plain_spec.
    unfold CL in Hna. fold (contains_anon (Variable_ m n acc)) in Hna. rewrite Hna. cbn [negb andb].
    destruct (contains_tuple (Variable_ m n acc)); reflexivity.
  - reflexivity.
  - (* Tuple *)
    cbn [remove_tuple_from_expression lvalues]. rewrite to_opt_dbind, unfold_values_opt, map_map.
    apply CL_tuple_inv in Hna.
    assert (HF : Forall (fun v => LVe (to_opt (remove_tuple_from_expression v)) = lvalues v) vs).
    { rewrite Forall_forall in *. intros x Hx. apply H; auto. }
    rewrite (lvalues_list vs HF). unfold mapO, LVe.
    destruct (all_some (map (fun x => to_opt (remove_tuple_from_expression x)) vs)); reflexivity.
Qed.

Lemma lvalues_NA : forall l ls, lvalues l = Some ls -> NA l.
Proof.
  induction l using expression_ind'; intros ls Hl; cbn [lvalues] in Hl; try discriminate.
  - destruct (plain (Variable_ m n acc)) eqn:Ep; [|discriminate]. rewrite plain_spec in Ep.
    apply andb_true_iff in Ep. destruct Ep as [Ep _]. apply negb_true_iff in Ep. exact Ep.
  - apply NA_tuple. destruct (all_some (map lvalues vs)) as [lss|] eqn:Ea; [|discriminate].
    clear Hl ls. revert lss Ea. induction H as [|v vs Hv Hvs IHvs]; intros lss Ea; constructor.
    + cbn [map all_some] in Ea. destruct (lvalues v) eqn:Ev; [|discriminate]. eapply Hv; eauto.
    + cbn [map all_some] in Ea. destruct (lvalues v); [|discriminate].
      destruct (all_some (map lvalues vs)) eqn:E2; [|discriminate]. eapply IHvs; eauto.
Qed.

Lemma tuple_substs_opt : forall m o ls rs acc, List.length ls = List.length rs ->
  to_opt (tuple_substs m o ls rs acc) =
  if forallb is_variable ls then Some (acc ++ assignments o ls rs) else None.
Proof.
  intros m o. induction ls as [|l ls IH]; intros rs acc Hlen.
  - destruct rs; [|discriminate]. simpl. rewrite app_nil_r. reflexivity.
  - destruct rs as [|r rs]; [discriminate|]. simpl in Hlen. injection Hlen as Hlen.
    destruct l; try (simpl; apply to_opt_fail).
    cbn [tuple_substs forallb is_variable andb]. rewrite IH by exact Hlen.
    unfold assignments. cbn [combine flat_map].
    destruct (forallb is_variable ls); [|reflexivity].
    destruct (String.eqb name "_"); cbn [app]; [reflexivity|]. rewrite <- app_assoc. reflexivity.
Qed.

Definition MM (m : meta) (o : assign_op) (l2 e2 : expression) : option statement :=
  match l2, e2 with
  | Tuple _ ls, Tuple _ rs =>
      if (List.length ls =? List.length rs)%nat
      then if forallb is_variable ls then Some (Block m (assignments o ls rs)) else None
      else None
  | _, _ => None
  end.

Lemma rtsO_msub : forall m lhe o e1,
  rtsO (MultiSubstitution m lhe o e1) =
  obind (to_opt (remove_tuple_from_expression e1)) (fun e2 =>
    obind (to_opt (remove_tuple_from_expression lhe)) (fun l2 => MM m o l2 e2)).
Proof.
  intros m lhe o e1. unfold rtsO. cbn [remove_tuples_from_statement]. rewrite to_opt_dbind.
  rewrite obind_comm.
  destruct (to_opt (remove_tuple_from_expression lhe)) as [l2|]; cbn [obind].
  2:{ destruct (to_opt (remove_tuple_from_expression e1)); reflexivity. }
  rewrite to_opt_dbind. destruct (to_opt (remove_tuple_from_expression e1)) as [e2|]; cbn [obind]; [|reflexivity].
  unfold MM.
  destruct l2; try (match goal with |- to_opt (if ?c then _ else _) = _ => destruct c end; rewrite to_opt_fail; reflexivity).
  destruct e2; try (match goal with |- to_opt (if ?c then _ else _) = _ => destruct c end; rewrite to_opt_fail; reflexivity).
  destruct (List.length values =? List.length values0)%nat eqn:El.
  - rewrite to_opt_dbind, tuple_substs_opt by (apply Nat.eqb_eq; exact El).
    destruct (forallb is_variable values); reflexivity.
  - destruct (negb (is_nil values)); apply to_opt_fail.
Qed.


Lemma rtsO_if : forall m c i1 eo,
  rtsO (IfThenElse m c i1 eo) =
  if contains_tuple c then None
  else obind (rtsO i1) (fun i2 =>
         match eo with
         | Some e1 => option_map (fun e2 => IfThenElse m c i2 (Some e2)) (rtsO e1)
         | None => Some (IfThenElse m c i2 None)
         end).
Proof.
  intros. unfold rtsO. cbn [remove_tuples_from_statement].
  destruct (contains_tuple c); [apply to_opt_fail|]. rewrite to_opt_dbind.
  destruct (to_opt (remove_tuples_from_statement i1)); cbn [obind]; [|reflexivity].
  destruct eo; [|reflexivity]. rewrite to_opt_dbind.
  destruct (to_opt (remove_tuples_from_statement s0)); reflexivity.
Qed.

Lemma rtsO_while : forall m c x,
  rtsO (While m c x) = if contains_tuple c then None else option_map (While m c) (rtsO x).
Proof.
  intros. unfold rtsO. cbn [remove_tuples_from_statement].
  destruct (contains_tuple c); [apply to_opt_fail|]. rewrite to_opt_dbind.
  destruct (to_opt (remove_tuples_from_statement x)); reflexivity.
Qed.


(* ---- log calls ---- *)
Definition norm (a : log_argument) : list log_argument :=
  match a with
  | LogStr s => if String.eqb s "" then [] else [LogStr s]
  | LogExp e => [LogExp e]
  end.

Definition good_arg (a : log_argument) : Prop :=
  match a with LogStr s => s <> EmptyString /\ String.length s <= 230 | LogExp _ => True end.

Lemma build_log_args_short_eq : forall args, Forall short_arg args ->
  build_log_args args = DOk (flat_map norm args).
Proof.
  induction 1 as [|a args Ha Hargs IH]; [reflexivity|]. cbn [build_log_args flat_map].
  destruct a as [s|e].
  - simpl in Ha. rewrite (split_string_short s (String.length s) Ha), IH. cbn [dbind norm].
    destruct s; reflexivity.
  - rewrite IH. reflexivity.
Qed.

Lemma norm_good : forall l, Forall good_arg l -> flat_map norm l = l.
Proof.
  induction 1 as [|a l Ha Hl IH]; [reflexivity|]. cbn [flat_map]. rewrite IH.
  destruct a as [s|e]; [|reflexivity]. destruct Ha as [Hne _]. cbn [norm].
  destruct s; [contradiction|reflexivity].
Qed.

Lemma good_short : forall l, Forall good_arg l -> Forall short_arg l.
Proof. apply Forall_impl. intros [s|e]; simpl; tauto. Qed.

Definition stepL (a : log_argument) : option (list log_argument) :=
  match a with
  | LogStr s => Some [LogStr s]
  | LogExp e => obind (to_opt (check_log_args (sep_log e))) (fun _ => Some (sep_log e))
  end.

Lemma log_new_args_opt : forall args acc,
  to_opt (log_new_args args acc) = option_map (fun ls => acc ++ List.concat ls) (mapO stepL args).
Proof.
  induction args as [|a args IH]; intros acc.
  - simpl. rewrite app_nil_r. reflexivity.
  - rewrite mapO_cons. cbn [log_new_args]. destruct a as [s|e]; cbn [stepL obind].
    + rewrite IH. destruct (mapO stepL args); cbn [option_map List.concat]; [|reflexivity].
      rewrite <- app_assoc. reflexivity.
    + unfold separate_tuple_for_log_call. cbn [flat_map]. rewrite app_nil_r, to_opt_dbind.
      destruct (to_opt (check_log_args (sep_log e))); cbn [obind]; [|reflexivity].
      rewrite IH. destruct (mapO stepL args); cbn [option_map List.concat]; [|reflexivity].
      rewrite <- app_assoc. reflexivity.
Qed.

Lemma check_log_args_app : forall a b,
  to_opt (check_log_args (a ++ b)) = obind (to_opt (check_log_args a)) (fun _ => to_opt (check_log_args b)).
Proof.
  induction a as [|x a IH]; intros b; [reflexivity|]. cbn [app check_log_args].
  destruct x as [s|e]; [apply IH|]. rewrite !to_opt_dbind.
  destruct (to_opt (remove_tuple_from_expression e)); cbn [obind]; [apply IH | reflexivity].
Qed.

Definition stepE (e : expression) : option (list log_argument) := stepL (LogExp e).

Lemma stepE_list : forall vs,
  obind (to_opt (check_log_args (flat_map sep_log vs))) (fun _ => Some (flat_map sep_log vs)) =
  option_map (@List.concat _) (mapO stepE vs).
Proof.
  induction vs as [|v vs IH]; [reflexivity|]. cbn [flat_map]. rewrite check_log_args_app, mapO_cons.
  unfold stepE at 1. cbn [stepL].
  destruct (to_opt (check_log_args (sep_log v))) as [[]|]; cbn [obind]; [|reflexivity].
  destruct (to_opt (check_log_args (flat_map sep_log vs))) as [[]|]; cbn [obind] in *.
  - destruct (mapO stepE vs); cbn [option_map] in *; [|discriminate IH]. inversion IH as [H0]. cbn [List.concat]. rewrite H0. reflexivity.
  - destruct (mapO stepE vs); [discriminate IH | reflexivity].
Qed.

Lemma stepE_log_values : forall e, NA e -> stepE e = log_values e.
Proof.
  induction e using expression_ind'; intros Hna;
    try (unfold stepE, stepL; cbn [sep_log check_log_args log_values]; rewrite to_opt_dbind, rte_plain_opt by reflexivity;
         rewrite plain_spec; unfold CL in Hna;
         match goal with |- context [contains_tuple ?x] => fold (contains_anon x) in Hna; rewrite Hna; destruct (contains_tuple x) end;
         reflexivity).
  - apply CL_node in Hna. discriminate Hna.
  - (* Tuple *)
    apply CL_tuple_inv in Hna. unfold stepE, stepL. cbn [sep_log log_values app check_log_args].
    rewrite check_log_args_app. cbn [check_log_args to_opt].
    assert (E : all_some (map log_values vs) = mapO stepE vs).
    { unfold mapO. f_equal. apply map_ext_in. intros v Hv. rewrite Forall_forall in *. symmetry. apply H; auto. }
    rewrite E. pose proof (stepE_list vs) as SL.
    destruct (to_opt (check_log_args (flat_map sep_log vs))) as [[]|]; cbn [obind] in *.
    + destruct (mapO stepE vs); cbn [option_map] in *; [|discriminate SL]. inversion SL; subst. reflexivity.
    + destruct (mapO stepE vs); [discriminate SL | reflexivity].
Qed.

Lemma log_values_NA : forall e l, log_values e = Some l -> NA e.
Proof.
  induction e using expression_ind'; intros l0 Hl; cbn [log_values] in Hl;
    try (match type of Hl with (if plain ?x then _ else _) = _ => destruct (plain x) eqn:Ep; [|discriminate Hl];
           rewrite plain_spec in Ep; apply andb_true_iff in Ep; destruct Ep as [Ep _]; apply negb_true_iff in Ep; exact Ep end).
  apply NA_tuple. destruct (all_some (map log_values vs)) as [ls|] eqn:Ea; [|discriminate Hl].
  clear Hl l0. revert ls Ea. induction H as [|v vs Hv Hvs IHvs]; intros ls Ea; constructor.
  - cbn [map all_some] in Ea. destruct (log_values v) eqn:Ev; [|discriminate]. eapply Hv; eauto.
  - cbn [map all_some] in Ea. destruct (log_values v); [|discriminate].
    destruct (all_some (map log_values vs)) eqn:E2; [|discriminate]. eapply IHvs; eauto.
Qed.

Lemma log_values_good : forall e l, log_values e = Some l -> Forall good_arg l.
Proof.
  induction e using expression_ind'; intros l0 Hl; cbn [log_values] in Hl;
    try (match type of Hl with (if plain ?x then _ else _) = _ => destruct (plain x); [|discriminate Hl];
           inversion Hl; subst; constructor; [exact I | constructor] end).
  destruct (all_some (map log_values vs)) as [ls|] eqn:Ea; [|discriminate Hl]. inversion Hl; subst.
  constructor; [split; [discriminate | simpl; lia]|]. apply Forall_app. split; [|constructor; [split; [discriminate | simpl; lia] | constructor]].
  clear Hl. revert ls Ea. induction H as [|v vs Hv Hvs IHvs]; intros ls Ea.
  - inversion Ea; subst. constructor.
  - cbn [map all_some] in Ea. destruct (log_values v) eqn:Ev; [|discriminate].
    destruct (all_some (map log_values vs)) eqn:E2; [|discriminate]. inversion Ea; subst.
    cbn [List.concat]. apply Forall_app. split; eauto.
Qed.

Lemma concat_concat' : forall {A} (l : list (list (list A))),
  List.concat (List.concat l) = List.concat (map (@List.concat A) l).
Proof.
  induction l as [|x l IH]; [reflexivity|]. cbn [List.concat map]. rewrite concat_app, IH. reflexivity.
Qed.

Lemma mapO_option_map : forall {A B C} (f : B -> C) (g : A -> option B) l,
  mapO (fun x => option_map f (g x)) l = option_map (map f) (mapO g l).
Proof. intros. unfold mapO at 1. apply all_some_map_option_map. Qed.

Definition dfix (d : statement) : Prop := rtsO d = Some d /\ dshape d.

Section Refine.
  Variable lib : file_library.
  Variable env : tenv.
  Variable sig_of : string -> option (list string * list string).
  Hypothesis Hsig : forall id, sig_of id =
    option_map (fun ti => (map fst (ti_inputs ti), map fst (ti_outputs ti))) (lookup_template id env).

  Notation cname := (name_opt lib).
  Notation XV := (xvals sig_of cname).
  Notation RAE := (remove_anonymous_from_expression env lib).

  Definition C_e (va : option expression) (e : expression)
    : option (list statement * list statement * expression) :=
    obind (to_opt (RAE va e)) (fun t =>
      obind (mapO rtsO (fst (fst t))) (fun pre2 =>
        option_map (fun e2 => (pre2, snd (fst t), e2)) (to_opt (remove_tuple_from_expression (snd t))))).

  Definition V3 (t : list statement * list statement * expression) :=
    (fst (fst t), snd (fst t), vals_of (snd t)).

  Definition T_e (e : expression) : Prop :=
    forall va, va_form va ->
      option_map V3 (C_e va e) = XV (acc_prefix va) e /\
      forall p d e2, C_e va e = Some (p, d, e2) ->
        is_tuple e2 = tuple_valued sig_of e /\
        (is_tuple e2 = true -> is_tuple e = false -> List.length (vals_of e2) <> 1) /\
        (is_tuple e = true -> is_tuple e2 = true) /\
        Forall dfix d.

  (* ---- expressions without sugar at the top ---- *)
  Lemma C_e_plain : forall va e, sugar_top e = false ->
    C_e va e = if plain e then Some ([], [], e) else None.
  Proof.
    intros va e Hs. unfold C_e. rewrite rae_plain_opt by exact Hs. rewrite plain_spec.
    destruct (contains_anon e) eqn:Ea; [reflexivity|]. unfold ok0. cbn [obind fst snd mapO map all_some option_map negb andb].
    assert (Ht : is_tuple e = false) by (destruct e; try reflexivity; discriminate Hs).
    assert (Hn : is_anonymous_component e = false) by (destruct e; try reflexivity; discriminate Hs).
    rewrite rte_plain_opt by assumption. destruct (contains_tuple e); reflexivity.
  Qed.

  Lemma XV_plain : forall ix e, sugar_top e = false ->
    XV ix e = if plain e then Some ([], [], [e]) else None.
  Proof.
    intros ix e Hs. destruct e; try discriminate Hs; try reflexivity.
    destruct e; try discriminate Hs; reflexivity.
  Qed.

  Lemma tuple_valued_plain : forall e, sugar_top e = false -> tuple_valued sig_of e = false.
  Proof.
    intros e Hs. destruct e; try discriminate Hs; try reflexivity.
    destruct e; try discriminate Hs; reflexivity.
  Qed.

  Lemma T_e_plain : forall e, sugar_top e = false -> T_e e.
  Proof.
    intros e Hs va Hva. rewrite C_e_plain, XV_plain by exact Hs.
    assert (Ht : is_tuple e = false) by (destruct e; try reflexivity; discriminate Hs).
    split.
    - destruct (plain e); [|reflexivity]. unfold V3. simpl. destruct e; try reflexivity; discriminate Ht.
    - intros p d e2 H. destruct (plain e); [|discriminate]. inversion H; subst.
      rewrite tuple_valued_plain by exact Hs. repeat split; auto; try congruence; constructor.
  Qed.

  (* ---- tuples ---- *)
  Lemma tuple_fuse : forall va vs,
    obind (mapO (fun v => to_opt (RAE va v)) vs) (fun ts =>
      obind (mapO rtsO (flat_map (fun t => fst (fst t)) ts)) (fun pre2 =>
        option_map (fun vs2 => (pre2, flat_map (fun t => snd (fst t)) ts, vs2))
                   (mapO (fun t => to_opt (remove_tuple_from_expression (snd t))) ts)))
    = option_map (fun cs => (flat_map (fun c => fst (fst c)) cs, flat_map (fun c => snd (fst c)) cs, map snd cs))
                 (mapO (C_e va) vs).
  Proof.
    intros va. induction vs as [|v vs IH]; [reflexivity|].
    rewrite !mapO_cons. unfold C_e at 1.
    destruct (to_opt (RAE va v)) as [[[pre dec] e1]|]; [|reflexivity].
    cbn [obind fst snd].
    remember (mapO (fun v0 => to_opt (RAE va v0)) vs) as F eqn:EF.
    remember (mapO (C_e va) vs) as G eqn:EG. clear EF EG.
    destruct F as [ts|]; cbn [obind option_map flat_map fst snd map] in *.
    - rewrite mapO_app, mapO_cons. cbn [fst snd].
      destruct (mapO rtsO pre) as [pre2|]; cbn [obind option_map]; [|reflexivity].
      destruct (to_opt (remove_tuple_from_expression e1)) as [e2|]; cbn [obind option_map].
      + destruct (mapO rtsO (flat_map (fun t => fst (fst t)) ts)) as [b|]; cbn [obind option_map] in *.
        * destruct (mapO (fun t => to_opt (remove_tuple_from_expression (snd t))) ts) as [vs2|];
            destruct G as [g'|]; cbn [obind option_map flat_map fst snd map] in *; try discriminate IH; [|reflexivity].
          inversion IH; subst. reflexivity.
        * destruct G as [g'|]; cbn [obind option_map] in *; [discriminate IH | reflexivity].
      + destruct (mapO rtsO (flat_map (fun t => fst (fst t)) ts)); reflexivity.
    - destruct G; [discriminate IH|].
      destruct (mapO rtsO pre); cbn [obind option_map]; [|reflexivity].
      destruct (to_opt (remove_tuple_from_expression e1)); reflexivity.
  Qed.

  Lemma C_e_tuple : forall va m vs,
    C_e va (Tuple m vs) =
    option_map (fun cs => (flat_map (fun c => fst (fst c)) cs, flat_map (fun c => snd (fst c)) cs,
                           Tuple m (flat_map (fun c => vals_of (snd c)) cs)))
               (mapO (C_e va) vs).
  Proof.
    intros va m vs. unfold C_e at 1. cbn [remove_anonymous_from_expression].
    match goal with |- context [to_opt (dbind ?a ?b)] => rewrite (to_opt_dbind a b) end. rewrite collect_tuple_opt. rewrite map_map.
    change (all_some (map (fun x => to_opt (RAE va x)) vs)) with (mapO (fun v => to_opt (RAE va v)) vs).
    pose proof (tuple_fuse va vs) as TF.
    destruct (mapO (fun v => to_opt (RAE va v)) vs) as [ts|]; cbn [obind option_map fst snd app] in *.
    - cbn [to_opt obind fst snd]. cbn [remove_tuple_from_expression]. rewrite to_opt_dbind, unfold_values_opt, map_map.
      change (all_some (map (fun x => to_opt (remove_tuple_from_expression x)) (map snd ts)))
        with (mapO (fun x => to_opt (remove_tuple_from_expression x)) (map snd ts)).
      assert (E : mapO (fun x => to_opt (remove_tuple_from_expression x)) (map snd ts) =
                  mapO (fun t : list statement * list statement * expression => to_opt (remove_tuple_from_expression (snd t))) ts).
      { unfold mapO. rewrite map_map. reflexivity. }
      rewrite E.
      destruct (mapO rtsO (flat_map (fun t => fst (fst t)) ts)) as [pre2|]; cbn [obind option_map] in *.
      + destruct (mapO (fun t => to_opt (remove_tuple_from_expression (snd t))) ts) as [vs2|];
          destruct (mapO (C_e va) vs) as [cs|]; cbn [obind option_map app] in *; try discriminate TF; [|reflexivity].
        inversion TF as [[H0 H1 H2]]. rewrite H1. f_equal. f_equal. f_equal.
        rewrite !flat_map_concat_map, map_map. reflexivity.
      + destruct (mapO (C_e va) vs); [discriminate TF | reflexivity].
    - destruct (mapO (C_e va) vs); [discriminate TF | reflexivity].
  Qed.

  Lemma T_e_tuple : forall m vs, Forall T_e vs -> T_e (Tuple m vs).
  Proof.
    intros m vs IH va Hva. rewrite C_e_tuple. split.
    - cbn [xvals]. unfold xconcat.
      assert (E : map (XV (acc_prefix va)) vs = map (fun v => option_map V3 (C_e va v)) vs).
      { apply map_ext_in. intros v Hv. rewrite Forall_forall in IH. symmetry. apply (IH v Hv va Hva). }
      rewrite E, all_some_map_option_map.
      destruct (mapO (C_e va) vs) as [cs|]; [|reflexivity]. cbn [option_map]. unfold V3 at 1. cbn [fst snd vals_of].
      f_equal. f_equal; [f_equal|]; rewrite !flat_map_concat_map, map_map; reflexivity.
    - intros p d e2 H. destruct (mapO (C_e va) vs) as [cs|] eqn:Ecs; [|discriminate]. inversion H; subst.
      repeat split; auto; try discriminate.
      apply Forall_flat_map_iff. apply Forall_forall. intros c Hc.
      (* c comes from some v in vs *)
      assert (Hex : exists v, In v vs /\ C_e va v = Some c).
      { clear - Ecs Hc. revert cs Ecs Hc. induction vs as [|v vs IHvs]; intros cs Ecs Hc.
        - inversion Ecs; subst. destruct Hc.
        - rewrite mapO_cons in Ecs. destruct (C_e va v) as [c0|] eqn:E0; [|discriminate]. cbn [obind] in Ecs.
          destruct (mapO (C_e va) vs) as [cs'|]; [|discriminate]. inversion Ecs; subst.
          destruct Hc as [<-|Hc]; [exists v; split; [left; auto | auto]|].
          destruct (IHvs _ eq_refl Hc) as (v' & Hv' & Ev'). exists v'. split; [right; auto | auto]. }
      destruct Hex as (v & Hv & Ev). rewrite Forall_forall in IH. destruct c as [[cp cd] ce].
      apply (proj2 (IH v Hv va Hva) _ _ _ Ev).
  Qed.

  (* the value of an expression used where a single value is required *)
  Lemma single_equiv : forall e va, T_e e -> va_form va ->
    is_single e (XV (acc_prefix va) e) =
    obind (C_e va e) (fun t => if is_tuple (snd t) then None else Some t).
  Proof.
    intros e va HT Hva. destruct (HT va Hva) as [Heq Hf]. rewrite <- Heq.
    destruct (C_e va e) as [[[p d] e2]|]; cbn [option_map obind snd].
    - destruct (Hf _ _ _ eq_refl) as (F1 & F2 & F3 & _). unfold V3. cbn [fst snd].
      destruct (is_tuple e) eqn:Et.
      + rewrite (F3 eq_refl). destruct e; try discriminate Et. reflexivity.
      + destruct (is_tuple e2) eqn:Et2.
        * specialize (F2 eq_refl eq_refl). destruct e; try discriminate Et;
            (destruct (vals_of e2) as [|v1 [|v2 vr]]; [reflexivity | exfalso; apply F2; reflexivity | reflexivity]).
        * assert (Ev : vals_of e2 = [e2]) by (destruct e2; try reflexivity; discriminate Et2).
          rewrite Ev. destruct e; try discriminate Et; reflexivity.
    - destruct e; reflexivity.
  Qed.

  (* ---- anonymous components ---- *)
  Section Anon.
    Variable va : option expression.
    Hypothesis Hva : va_form va.
    Variable m : meta.
    Variable id : string.
    Variable par : bool.
    Variable ps ss : list expression.
    Variable nm : option (list (assign_op * string)).
    Hypothesis Hnm : match nm with Some n => List.length n = List.length ss | None => True end.
    Hypothesis IHss : Forall T_e ss.

    Notation prefix := (acc_prefix va).
    Definition callE : expression := if par then ParallelOp m (Call m id ps) else Call m id ps.
    Definition initS (c : string) : statement := Substitution m c prefix AssignVar callE.
    Definition declS (c : string) : statement :=
      match va with
      | None => build_declaration m VComponent c []
      | Some v => build_declaration m VAnonymousComponent c [v]
      end.
    Definition outV (c : string) (o : string) : expression := Variable_ m c (prefix ++ [ComponentAccess o]).
    Definition outE (t : template_info) (c : string) : expression :=
      match ti_outputs t with
      | [o] => outV c (fst o)
      | outs => Tuple m (map (fun o => outV c (fst o)) outs)
      end.
    Definition selO (t : template_info) : option (list (nat * assign_op)) :=
      to_opt (match nm with
              | Some n => select_named m (ti_inputs t) (map snd n) (map fst n) (List.length ss) []
              | None => DOk (map (fun k => (k, AssignConstraintSignal)) (seq 0 (List.length ss)))
              end).
    Definition lens_bad (t : template_info) (sel : list (nat * assign_op)) : bool :=
      negb (List.length (ti_inputs t) =? List.length sel)%nat || negb (List.length (ti_inputs t) =? List.length ss)%nat.

    Lemma va_NA : va_ok va.
    Proof. destruct Hva as [->|(m0 & k & ->)]; simpl; auto. reflexivity. Qed.

    Lemma anon_opt : forall results,
      to_opt (anon_component env lib va m id par ps ss nm results) =
      obind (lookup_template id env) (fun t =>
      obind (cname id m) (fun c =>
        if contains_anon (Call m id ps) then None else
        obind (selO t) (fun sel =>
          if lens_bad t sel then None else
          obind (to_opt (assign_inputs va m c results sel (ti_inputs t) 0 [initS c] [declS c])) (fun sd =>
            Some ([Block m (fst sd)], snd sd, outE t c))))).
    Proof.
      intros results. unfold anon_component.
      destruct (lookup_template id env) as [t|]; cbn [obind].
      2:{ rewrite to_opt_dbind. unfold mk_report. destruct (m_file m); reflexivity. }
      rewrite to_opt_dbind. unfold name_opt. destruct (to_opt (gen_name lib id m)) as [c|]; cbn [obind]; [|reflexivity].
      destruct (contains_anon (Call m id ps)); [apply to_opt_fail|].
      rewrite to_opt_dbind. fold (selO t). destruct (selO t) as [sel|]; cbn [obind]; [|reflexivity].
      fold (lens_bad t sel). destruct (lens_bad t sel); [apply to_opt_fail|].
      rewrite to_opt_dbind.
      assert (Ei : [Substitution m c prefix AssignVar (if par then ParallelOp m (Call m id ps) else Call m id ps)] = [initS c]) by reflexivity.
      assert (Ed : match va with
                   | Some v => [build_declaration m VAnonymousComponent c [v]]
                   | None => [build_declaration m VComponent c []]
                   end = [declS c]) by (unfold declS; destruct va; reflexivity).
      rewrite Ei, Ed.
      destruct (to_opt (assign_inputs va m c results sel (ti_inputs t) 0 [initS c] [declS c])) as [[sq dc]|]; cbn [obind fst snd]; [|reflexivity].
      unfold outE, outV. destruct (ti_outputs t) as [|o [|o2 outs]]; reflexivity.
    Qed.

    (* pass 2 on the initialisation `c = T(p..)` *)
    Lemma rtsO_initS : forall c, String.eqb c "_" = false ->
      rtsO (initS c) = if existsb contains_tuple ps then None else Some (initS c).
    Proof.
      intros c Hc. unfold initS. rewrite rtsO_sub, Hc.
      assert (Ep : acc_tuple_free prefix = true)
        by (rewrite <- (app_nil_r prefix), acc_prefix_tuple_free by exact Hva; reflexivity).
      rewrite Ep.
      assert (Ecall : contains_tuple (Call m id ps) = existsb contains_tuple ps).
      { unfold contains_tuple. apply (contains_list _ (fun mm vs => Call mm id vs)); reflexivity. }
      unfold callE. destruct par.
      - rewrite rte_plain_opt by reflexivity. unfold contains_tuple at 1. rewrite ce_par by reflexivity.
        fold (contains_tuple (Call m id ps)). rewrite Ecall. destruct (existsb contains_tuple ps); reflexivity.
      - rewrite rte_plain_opt by reflexivity. rewrite Ecall. destruct (existsb contains_tuple ps); reflexivity.
    Qed.

    Lemma rte_outE : forall t c,
      to_opt (remove_tuple_from_expression (outE t c)) = Some (outE t c).
    Proof.
      intros t c.
      assert (Hv : forall o, to_opt (remove_tuple_from_expression (outV c o)) = Some (outV c o)).
      { intros o. apply rte_var_plain. rewrite acc_prefix_tuple_free by exact Hva. reflexivity. }
      assert (Ht : forall outs : list (string * nat),
                 to_opt (remove_tuple_from_expression (Tuple m (map (fun o => outV c (fst o)) outs))) =
                 Some (Tuple m (map (fun o => outV c (fst o)) outs))).
      { intros outs. apply rte_out_tuple. apply Forall_forall. intros x Hx. apply in_map_iff in Hx.
        destruct Hx as (o & <- & _). split; [apply Hv | reflexivity]. }
      unfold outE. destruct (ti_outputs t) as [|o [|o2 outs]]; [apply (Ht []) | apply Hv | apply (Ht (o :: o2 :: outs))].
    Qed.

    (* one input, both passes *)
    Definition feedC (c : string) (ki : nat * (string * nat)) : option (list statement * list statement) :=
      obind (argument_of nm (fst ki) (fst (snd ki))) (fun jo =>
      obind (nth_error ss (fst jo)) (fun a =>
      obind (C_e va a) (fun t =>
        if is_tuple (snd t) then None
        else Some (fst (fst t) ++ [Substitution m c (prefix ++ [ComponentAccess (fst (snd ki))]) (snd jo) (snd t)],
                   snd (fst t))))).

    Lemma feedK_feedC : forall c sel ki, String.eqb c "_" = false ->
      nth_error sel (fst ki) = argument_of nm (fst ki) (fst (snd ki)) ->
      obind (feedI va m c (map (RAE va) ss) sel ki)
            (fun sd => option_map (fun s2 => (s2, snd sd)) (mapO rtsO (fst sd))) = feedC c ki.
    Proof.
      intros c sel [k inp] Hc Hsel. unfold feedI, feedC. cbn [fst snd] in *. rewrite Hsel.
      destruct (argument_of nm k (fst inp)) as [[j o]|]; cbn [obind fst snd]; [|reflexivity].
      rewrite nth_error_map. destruct (nth_error ss j) as [a|]; cbn [obind option_map]; [|reflexivity].
      unfold C_e. pose proof (rae_na env lib va a va_NA) as Hna.
      destruct (RAE va a) as [[[st nd] ne]| | |]; cbn [to_opt obind fst snd]; try reflexivity.
      destruct (Hna _ _ _ eq_refl) as [Hne _]. unfold CL in Hne. fold (contains_anon ne) in Hne. rewrite Hne.
      cbn [obind fst snd]. rewrite mapO_app. destruct (mapO rtsO st) as [st2|]; cbn [obind option_map]; [|reflexivity].
      rewrite mapO_cons, rtsO_sub, Hc.
      rewrite acc_prefix_tuple_free by exact Hva. cbn [acc_tuple_free existsb negb].
      destruct (to_opt (remove_tuple_from_expression ne)) as [e2|]; cbn [obind option_map fst snd]; [|reflexivity].
      destruct (is_tuple e2); cbn [obind option_map mapO map all_some app]; [reflexivity|].
      reflexivity.
    Qed.

    Lemma feedS_feedC : forall c k (inp : string * nat),
      match argument_of nm k (fst inp) with
      | Some (j, o) =>
          match nth_error ss j, nth_error (map (XV prefix) ss) j with
          | Some a, Some r =>
              option_map (fun prv : list statement * list statement * expression =>
                            let '(pre, dec, v) := prv in
                            (pre ++ [Substitution m c (prefix ++ [ComponentAccess (fst inp)]) o v], dec))
                         (is_single a r)
          | _, _ => None
          end
      | None => None
      end = feedC c (k, inp).
    Proof.
      intros c k inp. unfold feedC. cbn [fst snd].
      destruct (argument_of nm k (fst inp)) as [[j o]|]; cbn [obind fst snd]; [|reflexivity].
      rewrite nth_error_map. destruct (nth_error ss j) as [a|] eqn:Ea; cbn [obind option_map]; [|reflexivity].
      apply nth_error_In in Ea. rewrite Forall_forall in IHss.
      rewrite (single_equiv a va (IHss a Ea) Hva).
      destruct (C_e va a) as [[[p d] e2]|]; cbn [obind snd fst]; [|reflexivity].
      destruct (is_tuple e2); reflexivity.
    Qed.

    Lemma selF_arg : forall n k (inp : string * nat), List.length n = List.length ss ->
      obind (position (fst inp) (map snd n))
            (fun pos => if (pos <? List.length ss)%nat then option_map (pair pos) (nth_error (map fst n) pos) else None)
      = argument_of (Some n) k (fst inp).
    Proof.
      intros n k inp Hlen. unfold argument_of. rewrite <- (position_index_of (fst inp) (map snd n)).
      destruct (position (fst inp) (map snd n)) as [pos|] eqn:Ep; cbn [obind]; [|reflexivity].
      apply position_lt in Ep. rewrite map_length in Ep.
      assert (Hlt : (pos <? List.length ss)%nat = true) by (apply Nat.ltb_lt; lia). rewrite Hlt.
      destruct (nth_error (map fst n) pos); reflexivity.
    Qed.

    Lemma sel_arg : forall t sel, selO t = Some sel -> lens_bad t sel = false ->
      forall k inp, In (k, inp) (combine (seq 0 (List.length (ti_inputs t))) (ti_inputs t)) ->
        nth_error sel k = argument_of nm k (fst inp).
    Proof.
      intros t sel Hsel Hlens k inp Hin. apply in_combine_seq in Hin. destruct Hin as [Hk _]. rewrite ?Nat.sub_0_r in Hk.
      unfold selO in Hsel. destruct nm as [n|].
      - rewrite select_named_opt in Hsel. cbn [app] in Hsel.
        destruct (mapO _ (ti_inputs t)) as [r|] eqn:Er; [|discriminate]. inversion Hsel; subst.
        destruct (mapO_nth _ _ _ _ _ Er Hk) as (y & Hy & Hfy). rewrite Hy, <- Hfy.
        apply selF_arg. exact Hnm.
      - inversion Hsel; subst. unfold lens_bad in Hlens. apply orb_false_iff in Hlens. destruct Hlens as [_ H2].
        apply negb_false_iff, Nat.eqb_eq in H2.
        assert (Hlt : k < List.length ss). { rewrite <- H2. apply nth_error_Some. congruence. }
        unfold argument_of. rewrite nth_error_map.
        assert (Es : nth_error (seq 0 (List.length ss)) k = Some k).
        { rewrite nth_error_nth' with (d := 0) by (rewrite seq_length; exact Hlt). rewrite seq_nth by exact Hlt. reflexivity. }
        rewrite Es. reflexivity.
    Qed.

    Lemma sel_none : forall t, selO t = None ->
      exists k inp, In (k, inp) (combine (seq 0 (List.length (ti_inputs t))) (ti_inputs t)) /\
                    argument_of nm k (fst inp) = None.
    Proof.
      intros t Hsel. unfold selO in Hsel. destruct nm as [n|]; [|discriminate].
      rewrite select_named_opt in Hsel. destruct (mapO _ (ti_inputs t)) as [r|] eqn:Er; [discriminate|].
      apply mapO_none_ex in Er. destruct Er as (inp & Hin & Hf).
      destruct (in_combine_seq_ex (ti_inputs t) 0 inp Hin) as [k Hk]. exists k, inp. split; auto.
      rewrite <- (selF_arg n k inp Hnm). exact Hf.
    Qed.

    Lemma named_sel_len : forall t sel, selO t = Some sel ->
      match nm with Some _ => List.length sel = List.length (ti_inputs t) | None => List.length sel = List.length ss end.
    Proof.
      intros t sel Hsel. unfold selO in Hsel. destruct nm as [n|].
      - rewrite select_named_opt in Hsel. destruct (mapO _ (ti_inputs t)) as [r|] eqn:Er; [|discriminate].
        inversion Hsel; subst. cbn [app]. eapply mapO_length; eauto.
      - inversion Hsel; subst. rewrite map_length, seq_length. reflexivity.
    Qed.

    Notation A := (AnonymousComponent m id par ps ss nm).
    Notation Lof t := (combine (seq 0 (List.length (ti_inputs t))) (ti_inputs t)).

    Lemma C_e_anon :
      C_e va A =
      obind (lookup_template id env) (fun t =>
      obind (cname id m) (fun c =>
        if contains_anon (Call m id ps) then None else
        obind (selO t) (fun sel =>
          if lens_bad t sel then None else
          obind (rtsO (initS c)) (fun i2 =>
            option_map (fun fed => ([Block m (i2 :: flat_map fst fed)], declS c :: flat_map snd fed, outE t c))
              (mapO (fun ki => obind (feedI va m c (map (RAE va) ss) sel ki)
                                     (fun sd => option_map (fun s2 => (s2, snd sd)) (mapO rtsO (fst sd))))
                    (Lof t)))))).
    Proof.
      unfold C_e. cbn [remove_anonymous_from_expression]. rewrite anon_opt.
      destruct (lookup_template id env) as [t|]; cbn [obind]; [|reflexivity].
      destruct (cname id m) as [c|]; cbn [obind]; [|reflexivity].
      destruct (contains_anon (Call m id ps)); [reflexivity|].
      destruct (selO t) as [sel|]; cbn [obind]; [|reflexivity].
      destruct (lens_bad t sel); [reflexivity|].
      rewrite assign_inputs_opt.
      pose proof (fuse (feedI va m c (map (RAE va) ss) sel) rtsO (Lof t)) as FU.
      destruct (mapO (feedI va m c (map (RAE va) ss) sel) (Lof t)) as [fed|]; cbn [obind option_map fst snd app] in *.
      - rewrite rte_outE. cbn [option_map]. rewrite mapO_cons, rtsO_block, mapO_cons.
        destruct (rtsO (initS c)) as [i2|]; cbn [obind option_map].
        + destruct (mapO rtsO (flat_map fst fed)) as [r|]; cbn [obind option_map] in *.
          * destruct (mapO _ (Lof t)) as [fed'|]; cbn [option_map] in *; [|discriminate FU].
            inversion FU; subst. reflexivity.
          * destruct (mapO _ (Lof t)) as [fed'|]; cbn [option_map] in *; [discriminate FU | reflexivity].
        + reflexivity.
      - destruct (rtsO (initS c)); cbn [obind]; [|reflexivity].
        destruct (mapO _ (Lof t)); [discriminate FU | reflexivity].
    Qed.

    Lemma declS_fix : forall c, dfix (declS c).
    Proof.
      intros c. unfold declS, dfix.
      destruct Hva as [E|(m0 & k & E)]; rewrite E; split; try (left; reflexivity); reflexivity.
    Qed.

    Lemma declS_spec : forall c,
      declS c = match prefix with
                | [] => Declaration m VComponent c [] true
                | ArrayAccess v :: _ => Declaration m VAnonymousComponent c [v] true
                | _ => Declaration m VComponent c [] true
                end.
    Proof. intros c. unfold declS. destruct va; reflexivity. Qed.

    Lemma vals_outE : forall t c,
      vals_of (outE t c) = map (fun o => Variable_ m c (prefix ++ [ComponentAccess o])) (map fst (ti_outputs t)).
    Proof.
      intros t c. unfold outE, outV. rewrite map_map. destruct (ti_outputs t) as [|o [|o2 outs]]; reflexivity.
    Qed.

    Lemma T_e_anon :
      option_map V3 (C_e va A) = XV prefix A /\
      forall p d e2, C_e va A = Some (p, d, e2) ->
        is_tuple e2 = tuple_valued sig_of A /\
        (is_tuple e2 = true -> is_tuple A = false -> List.length (vals_of e2) <> 1) /\
        (is_tuple A = true -> is_tuple e2 = true) /\
        Forall dfix d.
    Proof.
      rewrite C_e_anon. cbn [xvals tuple_valued]. unfold xanon. rewrite Hsig.
      destruct (lookup_template id env) as [t|]; cbn [obind option_map]; [|split; [reflexivity | intros; discriminate]].
      unfold name_opt. destruct (to_opt (gen_name lib id m)) as [c|] eqn:Ec; cbn [obind];
        [|split; [reflexivity | intros; discriminate]].
      assert (Hc : String.eqb c "_" = false).
      { destruct (gen_name lib id m) eqn:Eg; try discriminate. inversion Ec; subst. eapply gen_name_not_underscore; eauto. }
      rewrite forallb_plain_spec, combine_seq_map, map_length.
      assert (Eca : contains_anon (Call m id ps) = existsb contains_anon ps).
      { unfold contains_anon. apply (contains_list _ (fun mm vs => Call mm id vs)); reflexivity. }
      rewrite Eca.
      assert (Enm : match nm with Some n => (List.length n =? List.length ss)%nat | None => true end = true).
      { destruct nm; auto. apply Nat.eqb_eq. exact Hnm. }
      rewrite Enm, andb_true_r.
      (* the list of feeds of the specification *)
      assert (ES : forall L' : list (nat * (string * nat)),
                 map (fun ki : nat * string => let '(k, input) := ki in
                        match argument_of nm k input with
                        | Some (j, o) =>
                            match nth_error ss j, nth_error (map (XV prefix) ss) j with
                            | Some a, Some r =>
                                option_map (fun prv : list statement * list statement * expression =>
                                              let '(pre, dec, v) := prv in
                                              (pre ++ [Substitution m c (prefix ++ [ComponentAccess input]) o v], dec))
                                           (is_single a r)
                            | _, _ => None
                            end
                        | None => None
                        end) (map (fun ki => (fst ki, fst (snd ki))) L') = map (feedC c) L').
      { intros L'. rewrite map_map. apply map_ext. intros [k inp]. cbn [fst snd]. apply feedS_feedC. }
      rewrite ES. fold (mapO (feedC c) (Lof t)).
      destruct (existsb contains_anon ps); cbn [negb andb]; [split; [reflexivity | intros; discriminate]|].
      destruct (selO t) as [sel|] eqn:Esel; cbn [obind].
      2:{ (* a named input is missing *)
          destruct (sel_none t Esel) as (k & inp & Hin & Harg).
          assert (En : mapO (feedC c) (Lof t) = None).
          { eapply mapO_has_none; [exact Hin|]. unfold feedC. cbn [fst snd]. rewrite Harg. reflexivity. }
          rewrite En. split; [|intros; discriminate].
          destruct (negb (existsb contains_tuple ps) && (List.length (ti_inputs t) =? List.length ss)%nat); reflexivity. }
      assert (Elens : lens_bad t sel = negb (List.length (ti_inputs t) =? List.length ss)%nat).
      { unfold lens_bad. pose proof (named_sel_len t sel Esel) as Hl. destruct nm.
        - rewrite Hl, Nat.eqb_refl. reflexivity.
        - rewrite Hl. destruct (List.length (ti_inputs t) =? List.length ss)%nat; reflexivity. }
      destruct (lens_bad t sel) eqn:Elb.
      { symmetry in Elens. apply negb_true_iff in Elens. rewrite Elens, andb_false_r.
        split; [reflexivity | intros; discriminate]. }
      symmetry in Elens. apply negb_false_iff in Elens. rewrite Elens, andb_true_r.
      rewrite (rtsO_initS c Hc).
      destruct (existsb contains_tuple ps); cbn [negb obind]; [split; [reflexivity | intros; discriminate]|].
      assert (EK : mapO (fun ki => obind (feedI va m c (map (RAE va) ss) sel ki)
                                        (fun sd => option_map (fun s2 => (s2, snd sd)) (mapO rtsO (fst sd))))
                        (Lof t) = mapO (feedC c) (Lof t)).
      { apply mapO_ext. apply Forall_forall. intros ki Hin. apply feedK_feedC; auto.
        destruct ki as [k inp]. apply (sel_arg t sel Esel Elb k inp Hin). }
      rewrite EK.
      destruct (mapO (feedC c) (Lof t)) as [fed|] eqn:Efed; cbn [option_map]; [|split; [reflexivity | intros; discriminate]].
      split.
      - unfold V3. cbn [fst snd]. rewrite vals_outE, <- declS_spec. reflexivity.
      - intros p d e2 H. inversion H; subst. repeat split.
        + unfold outE. destruct (ti_outputs t) as [|o [|o2 outs]]; reflexivity.
        + intros Ht _. rewrite vals_outE, !map_length. unfold outE in Ht.
          destruct (ti_outputs t) as [|o [|o2 outs]]; simpl; try discriminate Ht; lia.
        + intros Ht; discriminate Ht.
        + constructor; [apply declS_fix|]. apply Forall_flat_map_iff. apply Forall_forall. intros fd Hfd.
          (* fd comes from one argument *)
          assert (Hex : exists ki, In ki (Lof t) /\ feedC c ki = Some fd).
          { clear - Efed Hfd. revert fed Efed Hfd. induction (Lof t) as [|ki L IHL]; intros fed Efed Hfd.
            - inversion Efed; subst. destruct Hfd.
            - rewrite mapO_cons in Efed. destruct (feedC c ki) as [f0|] eqn:E0; [|discriminate]. cbn [obind] in Efed.
              destruct (mapO (feedC c) L) as [fed'|]; [|discriminate]. inversion Efed; subst.
              destruct Hfd as [<-|Hfd]; [exists ki; split; [left; auto | auto]|].
              destruct (IHL _ eq_refl Hfd) as (ki' & Hk' & Ek'). exists ki'. split; [right; auto | auto]. }
          destruct Hex as ([k inp] & _ & Ef). unfold feedC in Ef. cbn [fst snd] in Ef.
          destruct (argument_of nm k (fst inp)) as [[j o]|]; [|discriminate]. cbn [obind fst snd] in Ef.
          destruct (nth_error ss j) as [a|] eqn:Ea; [|discriminate]. cbn [obind] in Ef.
          destruct (C_e va a) as [[[pa da] ea]|] eqn:Eca'; [|discriminate]. cbn [obind fst snd] in Ef.
          destruct (is_tuple ea); [discriminate|]. inversion Ef; subst. cbn [snd].
          apply nth_error_In in Ea. rewrite Forall_forall in IHss.
          apply (proj2 (IHss a Ea va Hva) _ _ _ Eca').
    Qed.
  End Anon.

  Lemma C_e_parallel_anon : forall va mp m id p ps ss nm,
    C_e va (ParallelOp mp (AnonymousComponent m id p ps ss nm)) = C_e va (AnonymousComponent m id true ps ss nm).
  Proof. intros. reflexivity. Qed.

  Theorem T_e_all : forall e, WA e -> T_e e.
  Proof.
    assert (H : forall e,
      (WA e -> T_e e) /\
      match e with
      | AnonymousComponent m id _ ps ss nm => WA e -> forall par, T_e (AnonymousComponent m id par ps ss nm)
      | _ => True
      end).
    { induction e using expression_ind'; (split; [|try exact I]); intros Hwa;
        try (apply T_e_plain; reflexivity).
      - (* ParallelOp *)
        destruct e; try (apply T_e_plain; reflexivity).
        apply WA_par in Hwa. pose proof (proj2 IHe Hwa true) as HT.
        intros va Hva. destruct (HT va Hva) as [H1 H2]. rewrite C_e_parallel_anon. split; [exact H1 | exact H2].
      - (* Anon *)
        destruct (WA_anon _ _ _ _ _ _ Hwa) as [Hss Hn].
        intros va Hva. apply T_e_anon; auto.
        rewrite Forall_forall in *. intros a Ha. apply (proj1 (H0 a Ha)). auto.
      - destruct (WA_anon _ _ _ _ _ _ Hwa) as [Hss Hn].
        intros par' va Hva. apply T_e_anon; auto.
        rewrite Forall_forall in *. intros a Ha. apply (proj1 (H0 a Ha)). auto.
      - (* Tuple *)
        apply WA_tuple in Hwa. apply T_e_tuple.
        rewrite Forall_forall in *. intros a Ha. apply (proj1 (H a Ha)). auto. }
    intros e. apply (proj1 (H e)).
  Qed.

  (* ================================================================= *)
  (* statements                                                         *)
  (* ================================================================= *)
  Notation kname := (name_opt lib "anon_var").
  Notation XS := (xstmt sig_of cname kname).
  Notation RAS := (remove_anonymous_from_statement env lib).

  Definition C_s (va : option expression) (s : statement) : option (statement * list statement) :=
    obind (to_opt (RAS va s)) (fun t => option_map (fun s2 => (s2, snd t)) (rtsO (fst t))).

  Definition T_s (s : statement) : Prop :=
    forall va, va_form va ->
      C_s va s = XS (acc_prefix va) s /\
      forall s2 d, C_s va s = Some (s2, d) -> Forall dfix d.

  Lemma seq_compose : forall m st subs,
    rtsO (if is_nil st then subs else Block m (st ++ [subs])) =
    obind (mapO rtsO st) (fun st2 => option_map (seq_block m st2) (rtsO subs)).
  Proof.
    intros m st subs. destruct st as [|x st]; cbn [is_nil].
    - cbn [mapO map all_some obind]. destruct (rtsO subs); reflexivity.
    - rewrite rtsO_block, mapO_app.
      destruct (mapO rtsO (x :: st)) as [st2|] eqn:E; cbn [obind]; [|reflexivity].
      rewrite mapO_cons, mapO_nil. destruct (rtsO subs) as [s2|]; cbn [obind option_map]; [|reflexivity].
      apply mapO_length in E. destruct st2; [discriminate E|]. reflexivity.
  Qed.

  (* statements whose right-hand side is desugared by pass 1 *)
  Lemma with_rhs : forall va m rhe (mk : expression -> statement) (K : expression -> option statement),
    (forall e1, rtsO (mk e1) = obind (to_opt (remove_tuple_from_expression e1)) K) ->
    obind (to_opt ('(stmts, declarations, new_rhe) <- RAE va rhe ;;
                   let subs := mk new_rhe in
                   if is_nil stmts then DOk (subs, declarations)
                   else DOk (Block m (stmts ++ [subs]), declarations)))
          (fun t => option_map (fun s2 => (s2, snd t)) (rtsO (fst t)))
    = obind (C_e va rhe) (fun c => option_map (fun s2 => (seq_block m (fst (fst c)) s2, snd (fst c))) (K (snd c))).
  Proof.
    intros va m rhe mk K HK. rewrite to_opt_dbind. unfold C_e.
    destruct (to_opt (RAE va rhe)) as [[[st dec] e1]|]; cbn [obind fst snd]; [|reflexivity].
    assert (E : obind (to_opt (if is_nil st then DOk (mk e1, dec) else DOk (Block m (st ++ [mk e1]), dec)))
                  (fun t => option_map (fun s2 => (s2, snd t)) (rtsO (fst t)))
                = option_map (fun s2 => (s2, dec)) (rtsO (if is_nil st then mk e1 else Block m (st ++ [mk e1])))).
    { destruct (is_nil st); reflexivity. }
    rewrite E, seq_compose, HK.
    destruct (mapO rtsO st) as [st2|]; cbn [obind option_map]; [|reflexivity].
    destruct (to_opt (remove_tuple_from_expression e1)) as [e2|]; cbn [obind option_map fst snd]; [|reflexivity].
    destruct (K e2); reflexivity.
  Qed.

  Lemma acc_plain_spec : forall acc,
    acc_plain acc =
    negb (existsb (fun a => match a with ArrayAccess i => contains_anon i | ComponentAccess _ => false end) acc)
    && acc_tuple_free acc.
  Proof.
    unfold acc_plain, acc_tuple_free. induction acc as [|a acc IH]; [reflexivity|]. simpl. rewrite IH.
    destruct a as [s|i]; simpl; [reflexivity|]. rewrite plain_spec.
    destruct (contains_anon i), (contains_tuple i), (existsb _ acc), (existsb _ acc); reflexivity.
  Qed.

  (* ---- Substitution ---- *)
  Lemma T_s_sub : forall m v acc o rhe, WA rhe -> T_s (Substitution m v acc o rhe).
  Proof.
    intros m v acc o rhe Hwa va Hva. pose proof (T_e_all rhe Hwa) as HT.
    unfold C_s. cbn [remove_anonymous_from_statement xstmt].
    rewrite acc_plain_spec, (single_equiv rhe va HT Hva).
    pose proof (access_first_such_existsb contains_anon acc) as Ea.
    destruct (access_first_such contains_anon acc) as [idx|]; rewrite <- Ea; cbn [negb andb].
    { rewrite to_opt_fail. split; [reflexivity | intros; discriminate]. }
    pose proof (with_rhs va m rhe (fun e1 => Substitution m v acc o e1)
               (fun e2 => if is_tuple e2 then None
                          else if acc_tuple_free acc
                               then Some (if String.eqb v "_" then Block m [] else Substitution m v acc o e2)
                               else None) (fun e1 => rtsO_sub m v acc o e1)) as W.
    cbv beta zeta in W. rewrite W. clear W.
    split.
    - destruct (C_e va rhe) as [[[p d] e2]|]; cbn [obind fst snd option_map]; [|destruct (acc_tuple_free acc); reflexivity].
      destruct (is_tuple e2); cbn [option_map]; [destruct (acc_tuple_free acc); reflexivity|].
      destruct (acc_tuple_free acc); reflexivity.
    - intros s2 d H. destruct (C_e va rhe) as [[[p d'] e2]|] eqn:Ec; [|discriminate].
      cbn [obind fst snd] in H. destruct (is_tuple e2); [discriminate|]. destruct (acc_tuple_free acc); [|discriminate].
      inversion H; subst. apply (proj2 (HT va Hva) _ _ _ Ec).
  Qed.

  (* ---- MultiSubstitution ---- *)
  Lemma T_s_msub : forall m lhe o rhe, WA rhe -> T_s (MultiSubstitution m lhe o rhe).
  Proof.
    intros m lhe o rhe Hwa va Hva. pose proof (T_e_all rhe Hwa) as HT.
    destruct (HT va Hva) as [Heq Hfacts].
    unfold C_s. cbn [remove_anonymous_from_statement xstmt].
    destruct (contains_anon lhe) eqn:Eal.
    { rewrite to_opt_fail. cbn [obind]. split; [|intros; discriminate].
      destruct lhe; try reflexivity.
      destruct (lvalues (Tuple m0 values)) as [ls|] eqn:El; [|reflexivity].
      apply lvalues_NA in El. unfold CL in El. fold (contains_anon (Tuple m0 values)) in El. congruence. }
    pose proof (with_rhs va m rhe (fun e1 => MultiSubstitution m lhe o e1)
                 (fun e2 => obind (to_opt (remove_tuple_from_expression lhe)) (fun l2 => MM m o l2 e2))
                 (fun e1 => rtsO_msub m lhe o e1)) as W.
    cbv beta zeta in W. rewrite W. clear W. rewrite <- Heq.
    pose proof (lvalues_rte lhe Eal) as HL. unfold LVe in HL.
    destruct (C_e va rhe) as [[[p d] e2]|] eqn:Ec; cbn [obind option_map fst snd].
    2:{ split; [|intros; discriminate]. destruct lhe; try reflexivity.
        destruct (lvalues (Tuple m0 values)); [|reflexivity]. destruct (tuple_valued sig_of rhe); reflexivity. }
    destruct (Hfacts _ _ _ eq_refl) as (F1 & _ & _ & F4). unfold V3. cbn [fst snd].
    assert (Hd : forall s2 d0,
      option_map (fun s2 => (seq_block m p s2, d))
        (obind (to_opt (remove_tuple_from_expression lhe)) (fun l2 => MM m o l2 e2)) = Some (s2, d0) -> Forall dfix d0).
    { intros s2 d0 H. destruct (obind (to_opt (remove_tuple_from_expression lhe)) (fun l2 => MM m o l2 e2)); [|discriminate H]. inversion H; subst. exact F4. }
    split; [|exact Hd].
    rewrite <- F1.
    destruct lhe as [| | | | | | | | |ml lvs];
      try (rewrite rte_plain_opt by reflexivity;
           match goal with |- context [contains_tuple ?e] => destruct (contains_tuple e) end; reflexivity).
    { (* anonymous component on the left: excluded *) unfold contains_anon in Eal. simpl in Eal. discriminate Eal. }
    rewrite <- HL.
    destruct (to_opt (remove_tuple_from_expression (Tuple ml lvs))) as [l2|] eqn:El2; cbn [obind option_map]; [|reflexivity].
    assert (Ht2 : exists m2 ls', l2 = Tuple m2 ls').
    { cbn [remove_tuple_from_expression] in El2. rewrite to_opt_dbind in El2.
      destruct (to_opt (unfold_values _ [])); [|discriminate]. inversion El2; subst. eauto. }
    destruct Ht2 as (m2 & ls' & ->). cbn [vals_of MM].
    destruct e2 as [| | | | | | | | |me rs]; cbn [is_tuple vals_of option_map];
      try (destruct (forallb is_variable ls'); reflexivity).
    destruct (forallb is_variable ls'); cbn [option_map].
    - destruct (List.length ls' =? List.length rs)%nat; reflexivity.
    - destruct (List.length ls' =? List.length rs)%nat; reflexivity.
  Qed.

  (* ---- statements without sub-statements and without desugared right-hand side ---- *)
  Ltac simple_stmt :=
    intros va Hva; unfold C_s, rtsO; cbn [remove_anonymous_from_statement xstmt];
    rewrite ?plain_spec;
    repeat match goal with
           | |- context [contains_anon ?e] => destruct (contains_anon e); cbn [negb andb orb]
           end;
    rewrite ?to_opt_fail; cbn [to_opt obind fst snd remove_tuples_from_statement];
    repeat match goal with
           | |- context [contains_tuple ?e] => destruct (contains_tuple e); cbn [negb andb orb]
           end;
    rewrite ?to_opt_fail; cbn [to_opt option_map];
    (split; [reflexivity | intros s2 d H; inversion H; subst; constructor || discriminate H]).

  Lemma T_s_return : forall m v, T_s (Return m v).
  Proof. intros m v. simple_stmt. Qed.
  Lemma T_s_assert : forall m v, T_s (Assert m v).
  Proof. intros m v. simple_stmt. Qed.
  Lemma T_s_ceq : forall m l r, T_s (ConstraintEquality m l r).
  Proof. intros m l r. simple_stmt. Qed.

  Lemma T_s_decl : forall m t n dims c, T_s (Declaration m t n dims c).
  Proof.
    intros m t n dims c va Hva. unfold C_s, rtsO. cbn [remove_anonymous_from_statement xstmt].
    rewrite forallb_plain_spec. unfold first_such.
    destruct (find contains_anon dims) eqn:Ef.
    - apply find_some in Ef. destruct Ef as [Hin Hp].
      assert (E : existsb contains_anon dims = true) by (apply existsb_exists; eauto).
      rewrite E, to_opt_fail. split; [reflexivity | intros; discriminate].
    - apply find_none_existsb in Ef. rewrite Ef. cbn [to_opt obind fst snd negb andb build_declaration remove_tuples_from_statement].
      destruct (existsb contains_tuple dims); rewrite ?to_opt_fail; cbn [to_opt option_map negb];
        (split; [reflexivity | intros s2 d H; inversion H; subst; constructor || discriminate H]).
  Qed.

  (* ---- blocks ---- *)
  Lemma C_s_list : forall va (mk : list statement -> statement) l,
    (forall ns, rtsO (mk ns) = option_map mk (mapO rtsO ns)) ->
    obind (to_opt ('(new_stmts, declarations) <- ras_list (RAS va) l [] [] ;; DOk (mk new_stmts, declarations)))
          (fun t => option_map (fun s2 => (s2, snd t)) (rtsO (fst t)))
    = option_map (fun cs => (mk (map fst cs), flat_map snd cs)) (mapO (C_s va) l).
  Proof.
    intros va mk l Hmk. rewrite to_opt_dbind, ras_list_opt. cbn [app].
    pose proof (fuse2 (fun s => to_opt (RAS va s)) rtsO l) as FU.
    unfold C_s.
    remember (mapO (fun x => obind (to_opt (RAS va x)) (fun sd => option_map (fun s2 => (s2, snd sd)) (rtsO (fst sd)))) l) as G eqn:EG.
    clear EG.
    destruct (mapO (fun s => to_opt (RAS va s)) l) as [rs|]; cbn [obind option_map fst snd to_opt] in *.
    - rewrite Hmk. destruct (mapO rtsO (map fst rs)) as [ns2|]; cbn [option_map] in *.
      + destruct G as [cs|]; cbn [option_map] in *; [|discriminate FU]. inversion FU; subst. reflexivity.
      + destruct G; [discriminate FU | reflexivity].
    - destruct G; [discriminate FU | reflexivity].
  Qed.

  Lemma XS_block : forall ix m l,
    XS ix (Block m l) = option_map (fun rs => (Block m (map fst rs), flat_map snd rs)) (mapO (XS ix) l).
  Proof.
    intros ix m l. cbn [xstmt].
    match goal with |- option_map _ (?g l) = _ => set (go := g) end.
    assert (Hgo : forall l0, go l0 = option_map (fun rs => (map fst rs, flat_map snd rs)) (mapO (XS ix) l0)).
    { induction l0 as [|x r IH]; [reflexivity|]. rewrite mapO_cons.
      change (go (x :: r)) with (match XS ix x, go r with
                                 | Some (x', d), Some (r', d') => Some (x' :: r', d ++ d')
                                 | _, _ => None
                                 end).
      rewrite IH. destruct (XS ix x) as [[x' d]|]; cbn [obind]; [|reflexivity].
      destruct (mapO (XS ix) r); reflexivity. }
    rewrite Hgo. destruct (mapO (XS ix) l); reflexivity.
  Qed.

  Lemma XS_init : forall ix m t l,
    XS ix (InitializationBlock m t l) =
    option_map (fun rs => (InitializationBlock m t (map fst rs), flat_map snd rs)) (mapO (XS ix) l).
  Proof.
    intros ix m t l. cbn [xstmt].
    match goal with |- option_map _ (?g l) = _ => set (go := g) end.
    assert (Hgo : forall l0, go l0 = option_map (fun rs => (map fst rs, flat_map snd rs)) (mapO (XS ix) l0)).
    { induction l0 as [|x r IH]; [reflexivity|]. rewrite mapO_cons.
      change (go (x :: r)) with (match XS ix x, go r with
                                 | Some (x', d), Some (r', d') => Some (x' :: r', d ++ d')
                                 | _, _ => None
                                 end).
      rewrite IH. destruct (XS ix x) as [[x' d]|]; cbn [obind]; [|reflexivity].
      destruct (mapO (XS ix) r); reflexivity. }
    rewrite Hgo. destruct (mapO (XS ix) l); reflexivity.
  Qed.

  Lemma T_s_list_facts : forall va l cs, Forall T_s l -> va_form va -> mapO (C_s va) l = Some cs ->
    Forall dfix (flat_map snd cs).
  Proof.
    intros va. induction l as [|x l IH]; intros cs HT Hva H.
    - inversion H; subst. constructor.
    - rewrite mapO_cons in H. destruct (C_s va x) as [[x2 d]|] eqn:Ex; [|discriminate]. cbn [obind] in H.
      destruct (mapO (C_s va) l) as [cs'|] eqn:El; [|discriminate]. inversion H; subst.
      inversion HT; subst. cbn [flat_map snd]. apply Forall_app. split.
      + apply (proj2 (H2 va Hva) _ _ Ex).
      + apply IH; auto.
  Qed.

  Lemma T_s_block : forall m l, Forall T_s l -> T_s (Block m l).
  Proof.
    intros m l HT va Hva. unfold C_s at 1 2. cbn [remove_anonymous_from_statement].
    rewrite (C_s_list va (Block m) l (rtsO_block m)), XS_block.
    assert (E : mapO (C_s va) l = mapO (XS (acc_prefix va)) l).
    { apply mapO_ext. eapply Forall_impl; [|exact HT]. intros x Hx. apply (proj1 (Hx va Hva)). }
    split; [rewrite E; reflexivity|].
    intros s2 d H. destruct (mapO (C_s va) l) as [cs|] eqn:Ecs; [|discriminate]. inversion H; subst.
    eapply T_s_list_facts; eauto.
  Qed.

  Lemma T_s_init : forall m t l, Forall T_s l -> T_s (InitializationBlock m t l).
  Proof.
    intros m t l HT va Hva. unfold C_s at 1 2. cbn [remove_anonymous_from_statement].
    rewrite (C_s_list va (InitializationBlock m t) l (rtsO_init m t)), XS_init.
    assert (E : mapO (C_s va) l = mapO (XS (acc_prefix va)) l).
    { apply mapO_ext. eapply Forall_impl; [|exact HT]. intros x Hx. apply (proj1 (Hx va Hva)). }
    split; [rewrite E; reflexivity|].
    intros s2 d H. destruct (mapO (C_s va) l) as [cs|] eqn:Ecs; [|discriminate]. inversion H; subst.
    eapply T_s_list_facts; eauto.
  Qed.

  (* ---- conditionals ---- *)
  Lemma T_s_if : forall m c i e, T_s i -> (forall e', e = Some e' -> T_s e') -> T_s (IfThenElse m c i e).
  Proof.
    intros m c i e Hi He va Hva. destruct (Hi va Hva) as [Ei Fi].
    assert (Fi' : forall ni d i2, to_opt (RAS va i) = Some (ni, d) -> rtsO ni = Some i2 -> Forall dfix d).
    { intros ni d i2 H1 H2. apply (Fi i2 d). unfold C_s. rewrite H1. cbn [obind fst snd]. rewrite H2. reflexivity. }
    cbn [xstmt]. rewrite plain_spec, <- Ei.
    destruct e as [e'|].
    - destruct (He e' eq_refl va Hva) as [Ee Fe]. rewrite <- Ee.
      assert (Fe' : forall ne d e2, to_opt (RAS va e') = Some (ne, d) -> rtsO ne = Some e2 -> Forall dfix d).
      { intros ne d e2 H1 H2. apply (Fe e2 d). unfold C_s. rewrite H1. cbn [obind fst snd]. rewrite H2. reflexivity. }
      unfold C_s. cbn [remove_anonymous_from_statement].
      destruct (contains_anon c); cbn [negb andb]; [rewrite to_opt_fail; split; [reflexivity | intros; discriminate]|].
      rewrite to_opt_dbind.
      destruct (to_opt (RAS va i)) as [[ni d]|] eqn:Eri; cbn [obind fst snd].
      2:{ split; [destruct (negb (contains_tuple c)); reflexivity | intros; discriminate]. }
      rewrite to_opt_dbind.
      destruct (to_opt (RAS va e')) as [[ne d2]|] eqn:Ere; cbn [obind fst snd to_opt].
      + rewrite rtsO_if.
        destruct (contains_tuple c); cbn [negb option_map].
        * split; [destruct (rtsO ni); [destruct (rtsO ne)|]; reflexivity | intros; discriminate].
        * destruct (rtsO ni) as [i2|] eqn:E1; cbn [obind option_map]; [|split; [reflexivity | intros; discriminate]].
          destruct (rtsO ne) as [e2|] eqn:E2; cbn [option_map]; [|split; [reflexivity | intros; discriminate]].
          split; [reflexivity|]. intros s2 d0 H. inversion H; subst. apply Forall_app. split; eauto.
      + split; [|intros; discriminate].
        destruct (negb (contains_tuple c)); [|reflexivity]. destruct (rtsO ni); reflexivity.
    - unfold C_s. cbn [remove_anonymous_from_statement].
      destruct (contains_anon c); cbn [negb andb]; [rewrite to_opt_fail; split; [reflexivity | intros; discriminate]|].
      rewrite to_opt_dbind.
      destruct (to_opt (RAS va i)) as [[ni d]|] eqn:Eri; cbn [obind fst snd to_opt].
      2:{ split; [destruct (negb (contains_tuple c)); reflexivity | intros; discriminate]. }
      rewrite rtsO_if.
      destruct (contains_tuple c); cbn [negb option_map].
      + split; [destruct (rtsO ni); reflexivity | intros; discriminate].
      + destruct (rtsO ni) as [i2|] eqn:E1; cbn [obind option_map]; [|split; [reflexivity | intros; discriminate]].
        split; [reflexivity|]. intros s2 d0 H. inversion H; subst. eauto.
  Qed.

  (* ---- loops ---- *)
  Lemma rtsO_incr : forall m k, String.eqb k "_" = false ->
    rtsO (Substitution m k [] AssignVar (InfixOp m (Variable_ m k []) IAdd (Number m 1))) =
    Some (Substitution m k [] AssignVar (InfixOp m (Variable_ m k []) IAdd (Number m 1))).
  Proof. intros m k Hk. rewrite rtsO_sub, Hk. reflexivity. Qed.

  Lemma rtsO_init0 : forall m k, String.eqb k "_" = false ->
    rtsO (Substitution m k [] AssignVar (Number m 0)) = Some (Substitution m k [] AssignVar (Number m 0)).
  Proof. intros m k Hk. rewrite rtsO_sub, Hk. reflexivity. Qed.

  Lemma T_s_while : forall m c b, T_s b -> T_s (While m c b).
  Proof.
    intros m c b Hb va Hva.
    cbn [xstmt]. rewrite plain_spec.
    unfold C_s. cbn [remove_anonymous_from_statement].
    destruct (contains_anon c); cbn [negb andb]; [rewrite to_opt_fail; split; [reflexivity | intros; discriminate]|].
    rewrite to_opt_dbind.
    change (to_opt (gen_name lib "anon_var" m)) with (name_opt lib "anon_var" m).
    destruct (name_opt lib "anon_var" m) as [k|] eqn:Ek; cbn [obind].
    2:{ split; [destruct (negb (contains_tuple c)); reflexivity | intros; discriminate]. }
    assert (Hk : String.eqb k "_" = false).
    { unfold name_opt in Ek. destruct (gen_name lib "anon_var" m) eqn:Eg; try discriminate. inversion Ek; subst. eapply gen_name_not_underscore; eauto. }
    assert (Hva' : va_form (Some (Variable_ m k []))) by (right; eauto).
    destruct (Hb _ Hva') as [Eb Fb]. cbn [acc_prefix] in Eb. rewrite <- Eb.
    assert (Fb' : forall nb d b2, to_opt (RAS (Some (Variable_ m k [])) b) = Some (nb, d) -> rtsO nb = Some b2 -> Forall dfix d).
    { intros nb d b2 H1 H2. apply (Fb b2 d). unfold C_s. rewrite H1. cbn [obind fst snd]. rewrite H2. reflexivity. }
    unfold C_s. rewrite to_opt_dbind.
    destruct (to_opt (RAS (Some (Variable_ m k [])) b)) as [[nb nd]|] eqn:Erb; cbn [obind fst snd].
    2:{ split; [destruct (negb (contains_tuple c)); reflexivity | intros; discriminate]. }
    change (existsb (counted_by k)) with (existsb (decl_uses_counter k)).
    destruct (existsb (decl_uses_counter k) nd) eqn:Euse; cbn [to_opt obind fst snd].
    - rewrite rtsO_while, rtsO_block, !mapO_cons, mapO_nil, (rtsO_incr m k Hk).
      destruct (contains_tuple c); cbn [negb option_map obind].
      + split; [destruct (rtsO nb); reflexivity | intros; discriminate].
      + destruct (rtsO nb) as [b2|] eqn:E2; cbn [obind option_map]; [|split; [reflexivity | intros; discriminate]].
        rewrite Euse.
        split; [reflexivity|]. intros s2 d H. inversion H; subst.
        constructor; [split; [reflexivity | right; reflexivity]|].
        constructor; [split; [apply rtsO_init0; exact Hk | exact I]|].
        eapply Fb'; eauto.
    - rewrite rtsO_while. destruct (contains_tuple c); cbn [negb option_map].
      + split; [destruct (rtsO nb); reflexivity | intros; discriminate].
      + destruct (rtsO nb) as [b2|] eqn:E2; cbn [option_map obind]; [|split; [reflexivity | intros; discriminate]].
        rewrite Euse.
        split; [reflexivity|]. intros s2 d H. inversion H; subst. eapply Fb'; eauto.
  Qed.

  (* ---- log calls ---- *)
  Lemma xlog_arg : forall a, short_arg a ->
    (match a with LogExp e => NA e | LogStr _ => True end) ->
    option_map (@List.concat _) (mapO stepL (norm a)) = xlog a.
  Proof.
    intros [s|e] Hs Hna; cbn [norm xlog].
    - destruct (String.eqb s ""); reflexivity.
    - rewrite mapO_cons, mapO_nil. fold (stepE e). rewrite (stepE_log_values e Hna).
      destruct (log_values e); cbn [obind option_map List.concat]; [rewrite app_nil_r|]; reflexivity.
  Qed.

  Lemma xlog_good : forall a l, short_arg a -> xlog a = Some l -> Forall good_arg l.
  Proof.
    intros [s|e] l Hs H; cbn [xlog] in H.
    - destruct (String.eqb s "") eqn:E; inversion H; subst; constructor; [|constructor].
      split; [intros ->; discriminate E | exact Hs].
    - eapply log_values_good; eauto.
  Qed.

  Lemma T_s_log : forall m args, Forall short_arg args -> T_s (LogCall m args).
  Proof.
    intros m args Hshort va Hva.
    cbn [xstmt]. unfold C_s. cbn [remove_anonymous_from_statement].
    destruct (existsb (log_arg_contains is_anonymous_component) args) eqn:Ean.
    { rewrite to_opt_fail. split; [|intros; discriminate]. cbn [obind].
      apply existsb_exists in Ean. destruct Ean as (a & Hin & Ha).
      assert (En : mapO xlog args = None).
      { eapply mapO_has_none; [exact Hin|]. destruct a as [s|e]; [discriminate Ha|]. cbn [xlog].
        destruct (log_values e) eqn:El; [|reflexivity]. apply log_values_NA in El. simpl in Ha. unfold CL in El. congruence. }
      unfold mapO in En. rewrite En. reflexivity. }
    unfold build_log_call. rewrite (build_log_args_short_eq args Hshort). cbn [dbind to_opt obind fst snd].
    unfold rtsO. cbn [remove_tuples_from_statement]. rewrite to_opt_dbind, log_new_args_opt. cbn [app].
    rewrite mapO_flat_map.
    (* per argument *)
    assert (Hna : Forall (fun a => match a with LogExp e => NA e | LogStr _ => True end) args).
    { apply existsb_false_Forall in Ean. eapply Forall_impl; [|exact Ean]. intros [s|e]; simpl; auto. }
    assert (E : all_some (map xlog args) = mapO (fun a => option_map (@List.concat _) (mapO stepL (norm a))) args).
    { unfold mapO. apply f_equal. apply map_ext_in. intros a Ha. symmetry.
      apply xlog_arg; [exact (proj1 (Forall_forall _ _) Hshort a Ha) | exact (proj1 (Forall_forall _ _) Hna a Ha)]. }
    rewrite E, mapO_option_map.
    destruct (mapO (fun x => mapO stepL (norm x)) args) as [X|] eqn:EX; cbn [option_map obind]; [|split; [reflexivity | intros; discriminate]].
    rewrite concat_concat'.
    (* the second build_log_call is the identity *)
    assert (Hgood : Forall good_arg (List.concat (map (@List.concat _) X))).
    { assert (Hx : all_some (map xlog args) = Some (map (@List.concat _) X)).
      { rewrite E, mapO_option_map, EX. reflexivity. }
      clear - Hx Hshort. revert Hx. generalize (map (@List.concat log_argument) X) as Y. clear X.
      induction Hshort as [|a args Ha Hargs IH]; intros Y Hx.
      - inversion Hx; subst. constructor.
      - cbn [map all_some] in Hx. destruct (xlog a) as [l|] eqn:El; [|discriminate].
        destruct (all_some (map xlog args)) as [Y'|]; [|discriminate]. inversion Hx; subst.
        cbn [List.concat]. apply Forall_app. split; [eapply xlog_good; eauto | apply IH; reflexivity]. }
    unfold build_log_call. rewrite (build_log_args_short_eq _ (good_short _ Hgood)), (norm_good _ Hgood).
    cbn [dbind to_opt option_map]. split; [reflexivity|]. intros s2 d H. inversion H; subst. constructor.
  Qed.

  (* ---- all statements ---- *)
  Theorem T_s_all : forall s, WAs s -> LS s -> T_s s.
  Proof.
    induction s using statement_ind'; intros Hwa Hls.
    - apply WAs_if in Hwa. destruct Hwa as [Wi We]. simpl in Hls. destruct Hls as [Li Le].
      apply T_s_if; auto. intros e' ->. apply (H e' eq_refl); auto.
    - apply WAs_while in Hwa. simpl in Hls. apply T_s_while; auto.
    - apply T_s_return.
    - apply WAs_init in Hwa. simpl in Hls. apply allP_Forall in Hls. apply T_s_init.
      rewrite Forall_forall in *. intros x Hx. apply H; auto.
    - apply T_s_decl.
    - apply WAs_sub in Hwa. apply T_s_sub; auto.
    - apply WAs_msub in Hwa. apply T_s_msub; auto.
    - apply T_s_ceq.
    - simpl in Hls. apply allP_Forall in Hls. apply T_s_log; auto.
    - apply WAs_block in Hwa. simpl in Hls. apply allP_Forall in Hls. apply T_s_block.
      rewrite Forall_forall in *. intros x Hx. apply H; auto.
    - apply T_s_assert.
  Qed.

  (* ---- a whole template body ---- *)
  Lemma separate_filter : forall decls c v su, Forall dshape decls ->
    separate_declarations decls c v su =
    DOk (c ++ filter (is_decl_of (fun t => match t with VComponent | VAnonymousComponent => true | _ => false end)) decls,
         v ++ filter (is_decl_of (fun t => match t with VVar => true | _ => false end)) decls,
         su ++ filter (fun s => match s with Substitution _ _ _ _ _ => true | _ => false end) decls).
  Proof.
    induction decls as [|d rest IH]; intros c v su H; [simpl; rewrite !app_nil_r; reflexivity|].
    inversion H; subst. cbn [separate_declarations]. destruct d; simpl in H2; try contradiction.
    - destruct xtype; simpl in *; try (destruct H2; discriminate);
        rewrite IH by assumption; cbn [filter is_decl_of]; rewrite <- ?app_assoc; reflexivity.
    - rewrite IH by assumption. cbn [filter is_decl_of]. rewrite <- ?app_assoc. reflexivity.
  Qed.

  Lemma mapO_fix : forall l, Forall dfix l -> mapO rtsO l = Some l.
  Proof.
    induction 1 as [|d l [Hd _] Hl IH]; [reflexivity|]. rewrite mapO_cons, Hd. cbn [obind]. rewrite IH. reflexivity.
  Qed.

  Lemma Forall_filter : forall {A} (P : A -> Prop) (f : A -> bool) l, Forall P l -> Forall P (filter f l).
  Proof. intros A P f l H. apply Forall_forall. intros x Hx. apply filter_In in Hx. rewrite Forall_forall in H. apply H. tauto. Qed.

  Theorem desugar_template_opt : forall m l,
    WAs (Block m l) -> LS (Block m l) ->
    to_opt (desugar_template env lib (Block m l)) = expand_spec sig_of cname kname (Block m l).
  Proof.
    intros m l Hwa Hls. pose proof (T_s_all (Block m l) Hwa Hls None (or_introl eq_refl)) as [Heq Hf].
    cbn [acc_prefix] in Heq. unfold expand_spec. rewrite <- Heq. unfold desugar_template, C_s in *.
    rewrite to_opt_dbind.
    destruct (to_opt (RAS None (Block m l))) as [[nb decls]|] eqn:Er; cbn [obind fst snd] in *; [|reflexivity].
    assert (Hb : exists l1, nb = Block m l1).
    { destruct (RAS None (Block m l)) as [[x y]| | |] eqn:E; try discriminate. inversion Er; subst. eapply ras_block; eauto. }
    destruct Hb as [l1 ->]. rewrite rtsO_block in *.
    destruct (mapO rtsO l1) as [l2|] eqn:E2; cbn [option_map] in *.
    - pose proof (Hf _ _ eq_refl) as Hd.
      assert (Hsh : Forall dshape decls) by (eapply Forall_impl; [|exact Hd]; intros a [_ Ha]; exact Ha).
      rewrite (separate_filter decls [] [] [] Hsh). cbn [dbind app].
      change (to_opt (remove_tuples_from_statement ?x)) with (rtsO x).
      rewrite rtsO_block, mapO_cons, rtsO_init, (mapO_fix _ (Forall_filter _ _ _ Hd)). cbn [option_map obind].
      rewrite mapO_app, (mapO_fix _ (Forall_filter _ _ _ Hd)). cbn [obind].
      rewrite mapO_cons, rtsO_init, (mapO_fix _ (Forall_filter _ _ _ Hd)), E2. reflexivity.
    - (* pass 2 fails on the body: it fails on the assembled block as well *)
      destruct (separate_declarations decls [] [] []) as [[[c v] su]| | |]; cbn [dbind to_opt]; try reflexivity.
      change (to_opt (remove_tuples_from_statement ?x)) with (rtsO x).
      rewrite rtsO_block.
      assert (En : mapO rtsO ([InitializationBlock m VVar v] ++ su ++ [InitializationBlock m VComponent c] ++ l1) = None).
      { rewrite !mapO_app, E2.
        destruct (mapO rtsO [InitializationBlock m VVar v]); cbn [obind option_map]; [|reflexivity].
        destruct (mapO rtsO su); cbn [obind option_map]; [|reflexivity].
        destruct (mapO rtsO [InitializationBlock m VComponent c]); reflexivity. }
      rewrite En. reflexivity.
  Qed.
End Refine.


(* ---- the signature table of the specification is the environment of the
        implementation ---- *)
Lemma fill_io_spec : forall s io,
  map fst (fst (fill_io s io)) = map fst (fst io) ++ declared_signals SInput s /\
  map fst (snd (fill_io s io)) = map fst (snd io) ++ declared_signals SOutput s.
Proof.
  induction s using statement_ind'; intros io; cbn [fill_io declared_signals]; rewrite ?app_nil_r; auto.
  - destruct (IHs io) as [I1 I2]. destruct e as [e'|].
    + destruct (H e' eq_refl (fill_io s io)) as [E1 E2]. rewrite E1, E2, I1, I2, <- !app_assoc. auto.
    + rewrite !app_nil_r. auto.
  - revert io. induction H as [|x l Hx Hl IHl]; intros io; cbn [fold_left flat_map]; rewrite ?app_nil_r; auto.
    destruct (IHl (fill_io x io)) as [E1 E2]. destruct (Hx io) as [X1 X2].
    rewrite E1, E2, X1, X2, <- !app_assoc. auto.
  - destruct t as [|st tags| |]; rewrite ?app_nil_r; auto.
    destruct st; cbn [fst snd]; rewrite ?map_app, ?app_nil_r; auto.
  - revert io. induction H as [|x l Hx Hl IHl]; intros io; cbn [fold_left flat_map]; rewrite ?app_nil_r; auto.
    destruct (IHl (fill_io x io)) as [E1 E2]. destruct (Hx io) as [X1 X2].
    rewrite E1, E2, X1, X2, <- !app_assoc. auto.
Qed.

Lemma sig_env : forall ts id,
  sig_table ts id =
  option_map (fun ti => (map fst (ti_inputs ti), map fst (ti_outputs ti))) (lookup_template id (env_of ts)).
Proof.
  intros ts id. unfold sig_table, env_of. induction ts as [|[n b] ts IH]; [reflexivity|].
  cbn [map find lookup_template fst snd]. destruct (String.eqb n id); [|exact IH].
  cbn [option_map]. unfold template_info_of. cbn [ti_inputs ti_outputs].
  destruct (fill_io_spec b ([], [])) as [E1 E2]. rewrite E1, E2. reflexivity.
Qed.

(* ---- the two passes compute exactly the specified expansion ---- *)
Theorem desugar_is_expand : forall (lib : file_library) ts m l,
  Forall wf_node (stmt_exprs (Block m l)) ->
  Forall short_node (sub_stmts (Block m l)) ->
  to_opt (desugar_template (env_of ts) lib (Block m l)) =
  expand_spec (sig_table ts) (name_opt lib) (name_opt lib "anon_var") (Block m l).
Proof.
  intros lib ts m l Hw Hs. apply desugar_template_opt.
  - apply sig_env.
  - exact Hw.
  - apply LS_of_nodes. exact Hs.
Qed.

Theorem desugar_refines_expand : forall (lib : file_library) ts m l body',
  Forall wf_node (stmt_exprs (Block m l)) ->
  Forall short_node (sub_stmts (Block m l)) ->
  desugar_template (env_of ts) lib (Block m l) = DOk body' ->
  expand_spec (sig_table ts) (name_opt lib) (name_opt lib "anon_var") (Block m l) = Some body'.
Proof.
  intros lib ts m l body' Hw Hs H. rewrite <- (desugar_is_expand lib ts m l Hw Hs), H. reflexivity.
Qed.

Theorem desugar_errors_exact : forall (lib : file_library) ts m l,
  Forall wf_node (stmt_exprs (Block m l)) ->
  Forall short_node (sub_stmts (Block m l)) ->
  (exists r, desugar_template (env_of ts) lib (Block m l) = DErr r) ->
  expand_spec (sig_table ts) (name_opt lib) (name_opt lib "anon_var") (Block m l) = None.
Proof.
  intros lib ts m l Hw Hs [r H]. rewrite <- (desugar_is_expand lib ts m l Hw Hs), H. reflexivity.
Qed.

(* with panic freedom: the desugarer accepts exactly the valid uses of the sugar *)
Theorem desugar_accepts_iff : forall (lib : file_library) ts body,
  wf_template lib body ->
  (forall b', desugar_template (env_of ts) lib body = DOk b' <->
              expand_spec (sig_table ts) (name_opt lib) (name_opt lib "anon_var") body = Some b') /\
  ((exists r, desugar_template (env_of ts) lib body = DErr r) <->
   expand_spec (sig_table ts) (name_opt lib) (name_opt lib "anon_var") body = None).
Proof.
  intros lib ts body Hwf. pose proof (desugar_template_total lib (env_of ts) body Hwf) as Hnc.
  destruct Hwf as (_ & Hs & Hw & (m & l & ->)).
  pose proof (desugar_is_expand lib ts m l Hw Hs) as E.
  destruct (desugar_template (env_of ts) lib (Block m l)) as [b|r|s|]; simpl in *; try contradiction; rewrite <- E; split.
  - intros b'. split; intros H; inversion H; reflexivity.
  - split; [intros [r H]; discriminate | intros H; discriminate].
  - intros b'. split; intros H; discriminate.
  - split; [reflexivity | intros _; eauto].
Qed.
