(* C20, degree half, read on CONCRETE executions: whatever the pass budgets, the ranges
   Model.Propagate has attached are true of the concrete values of every family of runs of
   Spec.DegRun that follow the same path of blocks.  Composition of
   Proofs.DegInvariant.propagate_degrees_validated_at_every_budget (every cut is accepted
   by the validator) with Proofs.DegRunProofs.concrete_runs_claims_true. *)
From Coq Require Import ZArith NArith List Bool.
Require Import Model.Base Model.Ir Model.SsaCheck Model.Propagate Model.Justify Model.DegJustify Model.DegWf.
Require Import Spec.PolyDeg Spec.DegSem Spec.DegRun Proofs.DegreeProofs Proofs.DegGraphProofs Proofs.DegInvariant Proofs.DegRunProofs.
Import ListNotations.
Local Open Scope Z_scope.

Theorem any_cut_degree_claims_true_of_concrete_runs
  (V : Type) (line : V -> V -> Z -> V) (p : Z)
  (sem2 : infix_op -> Z -> Z -> Z) (sem1 : prefix_op -> Z -> Z) (call_sem : ident -> list Z -> Z) (name_code : ident -> Z) :
  (forall op, op_den p op (sem2 op)) -> (forall op, prefix_den p op (sem1 op)) ->
  forall (kv kd : nat) (q : Z) (idom : list (option N)) (c c' : cfg),
  deg_wf c = true -> idom_shape c idom = true -> propagate kv kd q idom c = Ok c' ->
  forall (S0 : fstore V) (L0 : vmap) (pi : list nat) (s0 s : V -> cstore),
  finit_ok V line p c' S0 ->
  (forall rho, rel_store V rho (s0 rho) S0) ->
  (forall rho, cexec_path p sem2 sem1 call_sem name_code c' L0 (s0 rho) pi = Some (s rho)) ->
  forall e r (val : V -> cell),
  djust_expr c' e = true -> expr_deg e = Some r ->
  (forall rho, cval p sem2 sem1 call_sem name_code (s rho) e = Some (val rho)) ->
  forall i, SemDeg V line p (snd r) (fun rho => val rho i).
Proof.
  intros H2 H1 kv kd q idom c c' Hwf Hshape Hprop.
  apply (concrete_runs_claims_true V line p sem2 sem1 call_sem name_code H2 H1 c' idom).
  exact (propagate_degrees_validated_at_every_budget kv kd q idom c c' Hwf Hshape Hprop).
Qed.
