(* C12, "after into_ssa": the SSA construction mirror Model.Ssa.into_ssa touches
   nothing of a block but its statement list.  For ALL frontier tables, ALL
   children tables and ALL input graphs (no hypothesis):

     into_ssa_frames    the output has the same number of blocks, and block i of the
                        output has the index, loop depth, predecessor list and
                        successor list of block i of the input

   Proof: every stage of the construction (phi insertion, renaming along the
   dominator tree, re-issuing the declarations) rewrites blocks only through
   Ir.set_stmts; a relation between an original block and its current version
   that is closed under set_stmts on the right is therefore an invariant
   ([stages_keep], generic in the relation; Proofs.SsaConstruction.erase_inv is
   another instance of the same scheme). *)
From Coq Require Import ZArith NArith List Bool Lia Arith.
Require Import Model.Base Model.Ir Model.SsaCheck Model.Ssa.
Require Import Proofs.SsaNoPanic Proofs.SsaConstruction.
Require Import Spec.IrCfgSpec.
Import ListNotations.

Section Generic.
Variable R : block -> block -> Prop.
Hypothesis R_set : forall b0 b ss, R b0 b -> R b0 (set_stmts b ss).

Lemma add_phis_keeps b0 : forall vars b n, R b0 b -> R b0 (fst (add_phis vars b n)).
Proof.
  induction vars as [|v tl IH]; intros b n H; simpl; [exact H|].
  destruct (existsb (is_phi_for v) (b_stmts b)); apply IH; [exact H|]. apply R_set. exact H.
Qed.

Lemma process_frontier_keeps bs0 vars : forall fr bs work,
  Forall2 R bs0 bs -> Forall2 R bs0 (fst (process_frontier vars fr bs work)).
Proof.
  induction fr as [|f tl IH]; intros bs work H; simpl; [exact H|].
  destruct (nth_error bs (N.to_nat f)) as [b|] eqn:E; [|apply IH; exact H].
  destruct (add_phis vars b 0) as [b' pushes] eqn:Ea. apply IH.
  apply forall2_update_nth; [exact H|]. intros x0 x _ Hx Hr. rewrite E in Hx. inversion Hx; subst x.
  change b' with (fst (b', pushes)). rewrite <- Ea. apply add_phis_keeps. exact Hr.
Qed.

Lemma insert_phis_keeps bs0 frontier : forall fuel bs work bs',
  insert_phis fuel frontier bs work = SOk bs' -> Forall2 R bs0 bs -> Forall2 R bs0 bs'.
Proof.
  induction fuel as [|fuel IH]; intros bs work bs' H Hi.
  - destruct work; simpl in H; [|discriminate]. inversion H; subst. exact Hi.
  - destruct work as [|cur rest]; simpl in H; [inversion H; subst; exact Hi|].
    destruct (nth_error bs cur) as [b|]; [|discriminate].
    destruct (vars_written b) as [|v vs] eqn:Ev; [eapply IH; eassumption|].
    destruct (process_frontier (v :: vs) (nth cur frontier []) bs rest) as [bs1 work1] eqn:Ep.
    eapply IH; [exact H|]. change bs1 with (fst (bs1, work1)). rewrite <- Ep. apply process_frontier_keeps. exact Hi.
Qed.

Lemma update_succ_phis_keeps bs0 env : forall succs bs,
  Forall2 R bs0 bs -> Forall2 R bs0 (update_succ_phis env succs bs).
Proof.
  induction succs as [|s tl IH]; intros bs H; simpl; [exact H|].
  apply IH. apply forall2_update_nth; [exact H|]. intros x0 x _ _ Hr. apply R_set. exact Hr.
Qed.

Lemma rename_tree_keeps bs0 decls children : forall fuel cur bs env bs' env',
  rename_tree fuel decls children cur bs env = SOk (bs', env') -> Forall2 R bs0 bs -> Forall2 R bs0 bs'.
Proof.
  induction fuel as [|fuel IH]; intros cur bs env bs' env' H Hi; [discriminate H|].
  rewrite rename_tree_unfold in H.
  destruct (nth_error bs cur) as [b|] eqn:Eb; [|discriminate].
  sb2 H.
  assert (K : forall kids l e l' e',
             rename_kids fuel decls children kids l e = SOk (l', e') -> Forall2 R bs0 l -> Forall2 R bs0 l').
  { induction kids as [|k tl IHk]; intros l e l' e' Hk Hl; simpl in Hk.
    - inversion Hk; subst. exact Hl.
    - sb2 Hk. eapply IHk; [exact Hk|]. eapply IH; eassumption. }
  eapply K; [exact H|]. apply update_succ_phis_keeps.
  apply forall2_update_nth; [exact Hi|]. intros x0 y _ _ Hr. apply R_set. exact Hr.
Qed.

Lemma map_set_stmts_keeps (f : block -> list stmt) : forall bs0 bs,
  Forall2 R bs0 bs -> Forall2 R bs0 (map (fun b => set_stmts b (f b)) bs).
Proof. intros bs0 bs H. induction H as [|x0 x t0 t Hx Ht IH]; simpl; constructor; auto. Qed.

(* the whole construction *)
Lemma stages_keep frontier children c c' :
  into_ssa frontier children c = SOk c' ->
  Forall2 R (c_blocks c) (c_blocks c) -> Forall2 R (c_blocks c) (c_blocks c').
Proof.
  intros H H0. destruct (into_ssa_stages _ _ _ _ H) as (fuel & bs1 & env0 & bs2 & env & H1 & _ & H2 & ->).
  cbn [c_blocks]. apply (map_set_stmts_keeps (fun b => map (update_decl_stmt env) (b_stmts b))).
  eapply rename_tree_keeps; [exact H2|]. eapply insert_phis_keeps; [exact H1|exact H0].
Qed.
End Generic.

(* ------------------------------------------------------------------------ *)
(* the frame of a block: everything but its statements                       *)
(* ------------------------------------------------------------------------ *)
Lemma same_frame_set b0 b ss : same_frame b0 b -> same_frame b0 (set_stmts b ss).
Proof. intros H. exact H. Qed.

Lemma forall2_refl {A} (R : A -> A -> Prop) : (forall x, R x x) -> forall l, Forall2 R l l.
Proof. intros Hr l. induction l; constructor; auto. Qed.

Theorem into_ssa_frames : forall frontier children c c',
  into_ssa frontier children c = SOk c' -> Forall2 same_frame (c_blocks c) (c_blocks c').
Proof.
  intros frontier children c c' H. apply (stages_keep same_frame same_frame_set _ _ _ _ H).
  apply forall2_refl. intros b. repeat split.
Qed.

Lemma forall2_length {A B} (R : A -> B -> Prop) : forall l0 l, Forall2 R l0 l -> length l = length l0.
Proof. intros l0 l H. induction H; simpl; congruence. Qed.

Lemma forall2_nth_both {A B} (R : A -> B -> Prop) : forall l0 l i x0 x, Forall2 R l0 l ->
  nth_error l0 i = Some x0 -> nth_error l i = Some x -> R x0 x.
Proof.
  intros l0 l i x0 x H. revert i. induction H as [|a b t0 t Hx Ht IH]; intros [|i] H0 H1; simpl in *; try discriminate.
  - inversion H0; inversion H1; subst. exact Hx.
  - eapply IH; eassumption.
Qed.

Lemma forall2_nth_fwd {A B} (R : A -> B -> Prop) : forall l0 l i x0, Forall2 R l0 l -> nth_error l0 i = Some x0 ->
  exists x, nth_error l i = Some x /\ R x0 x.
Proof.
  intros l0 l i x0 H. revert i. induction H as [|a b t0 t Hx Ht IH]; intros [|i] Hi; simpl in *; try discriminate.
  - inversion Hi; subst. eauto.
  - apply IH. exact Hi.
Qed.

(* clause (1) of the brief, written out *)
Theorem into_ssa_blocks_kept : forall frontier children c c',
  into_ssa frontier children c = SOk c' ->
  length (c_blocks c') = length (c_blocks c) /\
  forall i b b', nth_error (c_blocks c) i = Some b -> nth_error (c_blocks c') i = Some b' ->
    b_index b' = b_index b /\ b_depth b' = b_depth b /\ b_preds b' = b_preds b /\ b_succs b' = b_succs b.
Proof.
  intros frontier children c c' H. pose proof (into_ssa_frames _ _ _ _ H) as F. split.
  - eapply forall2_length. exact F.
  - intros i b b' Hb Hb'. exact (forall2_nth_both _ _ _ _ _ _ F Hb Hb').
Qed.
